/-
  Helper lemmas for the connection-lifetime model (C13): normal form of h1_check_timeout(), the
  behaviour of the periodic sweep on a connection at rest, invariants of runs without client
  progress, slot accounting of the server model (`Neutral`, `Sys.total`), the accept loop, graceful
  shutdown (`Stopping`), the request size limits, h2_check_timeout(), and the embedding of one
  connection into the server: the connection table as a map (`Sys.WF`), frame conditions for the
  actions of other clients, `run_conn` (a script without actions of client i is a run of idle events
  for i's connection), `Sys.Good` (every reachable state is consistent and all its connections are
  at rest).
  Core Lean only.
-/
import LtVerif.Model.Lifecycle
namespace LtVerif.Lifecycle
open LtVerif.Extracted

/-! ## the timeout checks -/

theorem checkTimeoutH1_eq (v : H1View) (now : Int) :
    checkTimeoutH1 v now =
      if v.st = .close then (decide (now - v.cts > lingerTimeoutH1), .close)
      else if v.inEv = true ∧ now - v.rts > (if v.n ≠ 1 ∧ v.st = .read then v.kaIdle else v.ri) then (true, .error)
      else if v.h1 = true ∧ v.st = .write ∧ v.wts ≠ 0 ∧ now - v.wts > v.wi then (true, .error)
      else (false, v.st) := by
  unfold checkTimeoutH1
  generalize (if v.n ≠ 1 ∧ v.st = .read then v.kaIdle else v.ri) = idle
  by_cases h1 : v.st = .close <;> by_cases h2 : v.inEv = true <;> by_cases h3 : idle < now - v.rts <;>
    by_cases ha : v.h1 = true <;> by_cases hb : v.st = .write <;> by_cases hc : v.wts = 0 <;>
    by_cases h5 : v.wi < now - v.wts <;> simp [*]

theorem ite_fst_true (p : Prop) [Decidable p] (a b : CState) :
    (if p then (true, a) else (false, b)).1 = true ↔ p := by
  split <;> simp [*]

/-- whether the sweep at `now` acts on a connection at rest -/
theorem tick_changed_iff (cfg : Cfg) (now : Int) (c : Conn) (hr : c.Rest) :
    (checkTimeoutH1 (c.view cfg) now).1 = true ↔ c.deadline cfg < now := by
  rw [checkTimeoutH1_eq]
  unfold Conn.Rest at hr
  unfold Conn.deadline Conn.view
  rcases hr with ⟨hs, hi⟩ | ⟨hs, hi⟩ | ⟨hs, hi, hw⟩ | hs
  · by_cases hn : c.n = 1 <;> simp [hs, hi, hn, ite_fst_true] <;> omega
  · simp [hs, hi, ite_fst_true]; omega
  · simp [hs, hi, hw, ite_fst_true]; omega
  · simp [hs]; omega

theorem tickConn_before (cfg : Cfg) (now : Int) (c : Conn) (hr : c.Rest)
    (h : now ≤ c.deadline cfg) : tickConn cfg now c = some c := by
  have : ¬ (checkTimeoutH1 (c.view cfg) now).1 = true := fun hh => by
    have := (tick_changed_iff cfg now c hr).mp hh; omega
  simp [tickConn, this]

theorem tickConn_after (cfg : Cfg) (now : Int) (c : Conn) (hr : c.Rest)
    (h : c.deadline cfg < now) :
    tickConn cfg now c = if c.st = .close then none else toClose now c := by
  have := (tick_changed_iff cfg now c hr).mpr h
  simp [tickConn, this]

theorem runIdle_none (cfg : Cfg) (es : List IdleEv) : runIdle cfg none es = none := by
  cases es <;> rfl

theorem runIdle_append (cfg : Cfg) (oc : Option Conn) (l1 l2 : List IdleEv) :
    runIdle cfg oc (l1 ++ l2) = runIdle cfg (runIdle cfg oc l1) l2 := by
  induction l1 generalizing oc with
  | nil => cases oc <;> simp [runIdle, runIdle_none]
  | cons e es ih => cases oc <;> simp [runIdle, runIdle_none, ih]

theorem toClose_cases (now : Int) (c : Conn) :
    toClose now c = none ∨ ∃ c', toClose now c = some c' ∧ c'.st = .close ∧ c'.cts = now := by
  unfold toClose
  split
  · exact Or.inl rfl
  · exact Or.inr ⟨_, rfl, rfl, rfl⟩

/-- a connection that is lingering since `a` at the latest (or already gone) -/
def ClosedBy (a : Int) (oc : Option Conn) : Prop :=
  ∀ c, oc = some c → c.st = .close ∧ c.cts ≤ a

/-- before the decisive sweep: still at rest with the original deadline, or already lingering -/
def Waiting (cfg : Cfg) (d0 a : Int) (oc : Option Conn) : Prop :=
  ∀ c, oc = some c → c.Rest ∧ ((c.st ≠ .close ∧ c.deadline cfg = d0) ∨ (c.st = .close ∧ c.cts ≤ a))

theorem tickConn_close (cfg : Cfg) (now : Int) (c : Conn) (hs : c.st = .close) :
    tickConn cfg now c = none ∨ tickConn cfg now c = some c := by
  unfold tickConn
  by_cases h : (checkTimeoutH1 (c.view cfg) now).1 = true <;> simp [h, hs]

theorem gracefulConn_cases (e : Bool) (c : Conn) :
    gracefulConn e c = none ∨ (gracefulConn e c = some { c with keepAlive := false } ∧ c.st ≠ .close) := by
  unfold gracefulConn
  by_cases h1 : c.st = .close
  · simp [h1]
  · by_cases h2 : c.st = .read ∧ c.n > 1 ∧ c.hdrBuf = 0
    · simp [h2]
    · cases e <;> simp [h1, h2]

theorem closedBy_step (cfg : Cfg) (a : Int) (c : Conn) (e : IdleEv) (h : ClosedBy a (some c)) :
    ClosedBy a (idleStep cfg c e) := by
  have ⟨hs, hc⟩ := h c rfl
  cases e with
  | tick t =>
    rcases tickConn_close cfg t c hs with h' | h' <;> simp only [idleStep, h']
    · intro c' hc'; cases hc'
    · exact h
  | wake => exact h
  | graceful ex =>
    rcases gracefulConn_cases ex c with h' | ⟨_, h'⟩
    · simp only [idleStep, h']; intro c' hc'; cases hc'
    · exact absurd hs h'

theorem closedBy_run (cfg : Cfg) (a : Int) (oc : Option Conn) (es : List IdleEv) (h : ClosedBy a oc) :
    ClosedBy a (runIdle cfg oc es) := by
  induction es generalizing oc with
  | nil => cases oc <;> simpa [runIdle] using h
  | cons e es ih =>
    cases oc with
    | none => simpa [runIdle] using h
    | some c => simp only [runIdle]; exact ih _ (closedBy_step cfg a c e h)

theorem waiting_step (cfg : Cfg) (d0 a : Int) (c : Conn) (e : IdleEv)
    (he : ∀ t, e = .tick t → t ≤ a) (h : Waiting cfg d0 a (some c)) :
    Waiting cfg d0 a (idleStep cfg c e) := by
  have ⟨hr, hd⟩ := h c rfl
  cases e with
  | wake => exact h
  | graceful ex =>
    rcases gracefulConn_cases ex c with h' | ⟨h', hn⟩
    · simp only [idleStep, h']; intro c' hc'; cases hc'
    · simp only [idleStep, h']
      intro c' hc'
      cases hc'
      rcases hd with ⟨_, hd⟩ | ⟨hs, _⟩
      · refine ⟨?_, Or.inl ⟨hn, ?_⟩⟩
        · simpa [Conn.Rest] using hr
        · simpa [Conn.deadline] using hd
      · exact absurd hs hn
  | tick t =>
    have hta := he t rfl
    rcases hd with ⟨hn, hd⟩ | ⟨hs, hc⟩
    · by_cases hlt : t ≤ d0
      · simp only [idleStep, tickConn_before cfg t c hr (by omega)]; exact h
      · simp only [idleStep, tickConn_after cfg t c hr (by omega), if_neg hn]
        rcases toClose_cases t c with h' | ⟨c', h', hs', hc'⟩
        · simp only [h']; intro c'' hc''; cases hc''
        · simp only [h']
          intro c'' hc''
          cases hc''
          exact ⟨Or.inr (Or.inr (Or.inr hs')), Or.inr ⟨hs', by omega⟩⟩
    · rcases tickConn_close cfg t c hs with h' | h' <;> simp only [idleStep, h']
      · intro c' hc'; cases hc'
      · exact h

theorem waiting_run (cfg : Cfg) (d0 a : Int) (oc : Option Conn) (es : List IdleEv)
    (he : ∀ t, IdleEv.tick t ∈ es → t ≤ a) (h : Waiting cfg d0 a oc) :
    Waiting cfg d0 a (runIdle cfg oc es) := by
  induction es generalizing oc with
  | nil => cases oc <;> simpa [runIdle] using h
  | cons e es ih =>
    cases oc with
    | none => simpa [runIdle] using h
    | some c =>
      simp only [runIdle]
      refine ih _ (fun t ht => he t (List.mem_cons_of_mem _ ht)) (waiting_step cfg d0 a c e ?_ h)
      intro t ht
      exact he t (by simp [ht])

/-- the decisive sweep: afterwards the connection lingers (FIN sent) or is gone -/
theorem waiting_tick (cfg : Cfg) (d0 a : Int) (oc : Option Conn) (ha : d0 < a)
    (h : Waiting cfg d0 a oc) : ClosedBy a (runIdle cfg oc [.tick a]) := by
  cases oc with
  | none => intro c hc; simp [runIdle] at hc
  | some c =>
    have ⟨hr, hd⟩ := h c rfl
    simp only [runIdle, idleStep]
    rcases hd with ⟨hn, hd⟩ | ⟨hs, hc⟩
    · rw [tickConn_after cfg a c hr (by omega), if_neg hn]
      rcases toClose_cases a c with h' | ⟨c', h', hs', hc'⟩
      · rw [h']; intro c'' hc''; simp [runIdle] at hc''
      · rw [h']; intro c'' hc''
        simp only [runIdle] at hc''
        cases hc''
        exact ⟨hs', by omega⟩
    · rcases tickConn_close cfg a c hs with h' | h' <;> rw [h']
      · intro c'' hc''; simp [runIdle] at hc''
      · intro c'' hc''; simp only [runIdle] at hc''; cases hc''; exact ⟨hs, hc⟩

theorem closedBy_tick (cfg : Cfg) (a b : Int) (oc : Option Conn) (hb : a + lingerTimeoutH1 < b)
    (h : ClosedBy a oc) : runIdle cfg oc [.tick b] = none := by
  cases oc with
  | none => rfl
  | some c =>
    have ⟨hs, hc⟩ := h c rfl
    have hr : c.Rest := Or.inr (Or.inr (Or.inr hs))
    have hd : c.deadline cfg < b := by simp only [Conn.deadline, hs]; omega
    simp [runIdle, idleStep, tickConn_after cfg b c hr hd, hs]

/-! ## HTTP/2 -/

theorem checkTimeoutH2_idle (v : H2View) (now : Int) (hs : v.st = .write) (he : v.streams = []) :
    checkTimeoutH2 v now =
      if now - v.rts > v.kaIdle then (true, .respEnd, false) else (false, .write, true) := by
  unfold checkTimeoutH2
  by_cases h : now - v.rts > v.kaIdle <;> simp [hs, he, h]

/-- the per-stream step never takes back a decision -/
theorem h2StreamStep_keeps (v : H2View) (now : Int) (acc : Bool × CState) (s : H2Stream)
    (h : acc = (true, .error)) : h2StreamStep v now acc s = (true, .error) := by
  unfold h2StreamStep
  subst h
  split
  · rfl
  · split <;> split <;> rfl

theorem h2_foldl_keeps (v : H2View) (now : Int) (l : List H2Stream) :
    l.foldl (h2StreamStep v now) (true, .error) = (true, .error) := by
  induction l with
  | nil => rfl
  | cons s rest ih => simp only [List.foldl_cons, h2StreamStep_keeps v now _ s rfl, ih]

/-- a stream that is waiting for the client (request body outstanding, or response in progress) -/
def H2Stream.fires (v : H2View) (now : Int) (s : H2Stream) : Prop :=
  s.st ≠ .error ∧ ((s.bodyPending = true ∧ now - v.rts > s.ri) ∨
                   (s.st ≠ .readPost ∧ v.wts ≠ 0 ∧ now - v.wts > v.wi))

theorem h2StreamStep_fires (v : H2View) (now : Int) (acc : Bool × CState) (s : H2Stream)
    (h : s.fires v now) : h2StreamStep v now acc s = (true, .error) := by
  unfold h2StreamStep
  obtain ⟨hne, h⟩ := h
  simp only [hne, if_false]
  rcases h with ⟨hb, ht⟩ | hw
  · have : s.bodyPending = true ∧ now - v.rts > s.ri := ⟨hb, ht⟩
    simp only [this, and_self, if_true]
    split <;> rfl
  · rw [if_pos hw]

theorem h2_foldl_fires (v : H2View) (now : Int) (l : List H2Stream) (acc : Bool × CState)
    (h : ∃ s ∈ l, H2Stream.fires v now s) : l.foldl (h2StreamStep v now) acc = (true, .error) := by
  induction l generalizing acc with
  | nil => obtain ⟨s, hs, _⟩ := h; cases hs
  | cons x rest ih =>
    simp only [List.foldl_cons]
    obtain ⟨s, hs, hf⟩ := h
    rcases List.mem_cons.mp hs with rfl | hs
    · rw [h2StreamStep_fires v now acc s hf, h2_foldl_keeps]
    · exact ih _ ⟨s, hs, hf⟩

theorem checkTimeoutH2_fires (v : H2View) (now : Int) (hs : v.st = .write)
    (h : ∃ s ∈ v.streams, H2Stream.fires v now s) :
    checkTimeoutH2 v now = (true, .error, false) := by
  unfold checkTimeoutH2
  have hne : v.streams ≠ [] := by
    obtain ⟨s, hs, _⟩ := h
    intro he; rw [he] at hs; cases hs
  simp [hs, hne, h2_foldl_fires v now v.streams _ h]

/-! ## the server -/

/-! ### bookkeeping of the connection list -/

theorem setConn_length (l : List (Nat × Conn)) (i : Nat) (c : Conn) :
    (setConn l i c).length = l.length := by
  induction l with
  | nil => rfl
  | cons p rest ih =>
    obtain ⟨j, d⟩ := p
    unfold setConn
    split <;> simp [ih]

theorem eraseConn_length (l : List (Nat × Conn)) (i : Nat) (c : Conn) (h : lookupConn l i = some c) :
    (eraseConn l i).length + 1 = l.length := by
  induction l with
  | nil => simp [lookupConn] at h
  | cons p rest ih =>
    obtain ⟨j, d⟩ := p
    unfold eraseConn
    unfold lookupConn at h
    split
    · simp
    · rename_i hne
      simp only [hne, if_false] at h
      simp [ih h]

/-- slots in use + slots free -/
def Sys.total (s : Sys) : Nat := s.conns.length + s.lim

/-- `s'` differs from `s` only by connections that changed or ended: no slot is created or lost,
    nothing is accepted, the server-wide flags are untouched -/
structure Neutral (s s' : Sys) : Prop where
  total : s'.total = s.total
  lim : s.lim ≤ s'.lim
  backlog : s'.backlog = s.backlog
  disabled : s'.disabled = s.disabled
  graceful : s'.graceful = s.graceful
  exited : s'.exited = s.exited
  now : s'.now = s.now
  expireTs : s'.expireTs = s.expireTs

theorem Neutral.refl (s : Sys) : Neutral s s := ⟨rfl, Nat.le_refl _, rfl, rfl, rfl, rfl, rfl, rfl⟩

theorem Neutral.trans {a b c : Sys} (h1 : Neutral a b) (h2 : Neutral b c) : Neutral a c :=
  ⟨h2.total.trans h1.total, Nat.le_trans h1.lim h2.lim, h2.backlog.trans h1.backlog,
   h2.disabled.trans h1.disabled, h2.graceful.trans h1.graceful, h2.exited.trans h1.exited,
   h2.now.trans h1.now, h2.expireTs.trans h1.expireTs⟩

theorem Neutral.conns_le {s s' : Sys} (h : Neutral s s') : s'.conns.length ≤ s.conns.length := by
  have := h.total; have := h.lim; simp only [Sys.total] at *; omega

theorem neutral_modClient (s : Sys) (i : Nat) (f : Client → Client) : Neutral s (s.modClient i f) :=
  ⟨rfl, Nat.le_refl _, rfl, rfl, rfl, rfl, rfl, rfl⟩

theorem neutral_release (s : Sys) (i : Nat) : Neutral s (s.release i) := by
  unfold Sys.release
  split
  · exact Neutral.refl s
  · rename_i c h
    have := eraseConn_length s.conns i c h
    refine ⟨?_, by simp, rfl, rfl, rfl, rfl, rfl, rfl⟩
    simp only [Sys.total]
    omega

theorem neutral_putConn (s : Sys) (i : Nat) (r : CRes) : Neutral s (s.putConn i r) := by
  unfold Sys.putConn
  split
  · exact (neutral_modClient s i _).trans ((neutral_release _ i).trans (neutral_modClient _ i _))
  · split <;>
      exact ⟨by simp [Sys.total, Sys.modClient, Sys.setClient, setConn_length], Nat.le_refl _, rfl, rfl, rfl, rfl, rfl, rfl⟩

theorem neutral_onConn (s : Sys) (i : Nat) (f : Conn → CRes) : Neutral s (s.onConn i f) := by
  unfold Sys.onConn
  split
  · exact Neutral.refl s
  · exact neutral_putConn s i _

theorem neutral_foldl {α : Type} (f : Sys → α → Sys) (hf : ∀ s x, Neutral s (f s x)) (l : List α) (s : Sys) :
    Neutral s (l.foldl f s) := by
  induction l generalizing s with
  | nil => exact Neutral.refl s
  | cons x xs ih => exact (hf s x).trans (ih (f s x))

theorem neutral_sweep (s : Sys) (f : Conn → Option Conn) : Neutral s (s.sweep f) := by
  unfold Sys.sweep
  apply neutral_foldl
  intro s p
  split <;> exact neutral_putConn s _ _

theorem neutral_markAccepted (s : Sys) : Neutral s s.markAccepted := by
  unfold Sys.markAccepted
  apply neutral_foldl
  intro s p
  exact neutral_modClient s _ _

/-! ### the accept loop -/

theorem neutral_acceptBytes (cfg : Cfg) (s : Sys) (i : Nat) (cl : Client) (c0 : Conn) :
    Neutral s (s.acceptBytes cfg i cl c0) := by
  unfold Sys.acceptBytes
  split
  · split
    · exact neutral_putConn s i _
    · exact Neutral.refl s
  · exact Neutral.refl s

theorem neutral_acceptData (cfg : Cfg) (s : Sys) (i : Nat) (cl : Client) (c0 : Conn) :
    Neutral s (s.acceptData cfg i cl c0) := by
  unfold Sys.acceptData
  have h1 := neutral_acceptBytes cfg s i cl c0
  simp only
  split
  · exact h1.trans (neutral_onConn _ i _)
  · exact h1

theorem pushConn_total (s : Sys) (i : Nat) (c : Conn) (h : 1 ≤ s.lim) : (s.pushConn i c).total = s.total := by
  simp only [Sys.pushConn, Sys.total, List.length_cons]; omega

/-- accepting takes one slot and may give it back at once; everything else is as before -/
theorem accept_spec (cfg : Cfg) (s : Sys) (i : Nat) :
    Neutral (s.pushConn i { rts := s.now }) (Sys.accept cfg s i) := by
  unfold Sys.accept
  simp only
  split
  · exact neutral_release _ i
  · exact neutral_acceptData cfg _ i _ _

theorem accept_total (cfg : Cfg) (s : Sys) (i : Nat) (h : 1 ≤ s.lim) : (Sys.accept cfg s i).total = s.total :=
  (accept_spec cfg s i).total.trans (pushConn_total s i _ h)

theorem accept_lim_ge (cfg : Cfg) (s : Sys) (i : Nat) : s.lim - 1 ≤ (Sys.accept cfg s i).lim :=
  (accept_spec cfg s i).lim

theorem accept_backlog (cfg : Cfg) (s : Sys) (i : Nat) : (Sys.accept cfg s i).backlog = s.backlog :=
  (accept_spec cfg s i).backlog

theorem accept_conns_le (cfg : Cfg) (s : Sys) (i : Nat) :
    (Sys.accept cfg s i).conns.length ≤ s.conns.length + 1 := by
  have := (accept_spec cfg s i).conns_le
  simpa [Sys.pushConn] using this

theorem acceptMany_total (cfg : Cfg) (k : Nat) (s : Sys) (h : k ≤ s.lim) :
    (acceptMany cfg k s).total = s.total := by
  induction k generalizing s with
  | zero => rfl
  | succ k ih =>
    unfold acceptMany
    split
    · rfl
    · rename_i i rest hb
      have h1 : 1 ≤ ({ s with backlog := rest } : Sys).lim := by simp; omega
      have h2 := accept_lim_ge cfg { s with backlog := rest } i
      rw [ih _ (by simp at h2; omega), accept_total cfg _ i h1]
      rfl

theorem acceptMany_backlog_le (cfg : Cfg) (k : Nat) (s : Sys) :
    (acceptMany cfg k s).backlog.length ≤ s.backlog.length := by
  induction k generalizing s with
  | zero => exact Nat.le_refl _
  | succ k ih =>
    unfold acceptMany
    split
    · exact Nat.le_refl _
    · rename_i i rest hb
      refine Nat.le_trans (ih _) ?_
      rw [accept_backlog, hb]
      simp

theorem acceptMany_backlog_lt (cfg : Cfg) (k : Nat) (s : Sys) (hb : s.backlog ≠ []) :
    (acceptMany cfg (k + 1) s).backlog.length < s.backlog.length := by
  unfold acceptMany
  split
  · rename_i h; exact absurd h hb
  · rename_i i rest h
    refine Nat.lt_of_le_of_lt (acceptMany_backlog_le cfg k _) ?_
    rw [accept_backlog, h]
    simp

theorem acceptCount_le (lim : Nat) : acceptCount lim ≤ lim := by
  unfold acceptCount; split <;> omega

theorem acceptCount_le_cap (lim : Nat) : acceptCount lim ≤ acceptLoopCap := by
  unfold acceptCount; split <;> omega

theorem acceptCount_pos (lim : Nat) (h : lim ≠ 0) : 1 ≤ acceptCount lim := by
  unfold acceptCount acceptLoopCap; split <;> omega

theorem round_total (cfg : Cfg) (s : Sys) : (s.round cfg).total = s.total := by
  unfold Sys.round
  simp only
  split
  · rw [acceptMany_total cfg _ _ (by simpa using acceptCount_le s.lim)]; rfl
  · rfl

theorem admitLoop_total (cfg : Cfg) (k : Nat) (s : Sys) : (admitLoop cfg k s).total = s.total := by
  induction k generalizing s with
  | zero => rfl
  | succ k ih => unfold admitLoop; rw [ih, round_total]

theorem neutral_resetBacklog (s : Sys) : Neutral s s.resetBacklog := by
  unfold Sys.resetBacklog
  apply neutral_foldl
  intro s i
  exact neutral_modClient s i _

theorem closeListen_total (s : Sys) : s.closeListen.total = s.total := by
  have := (neutral_resetBacklog s).total
  simpa [Sys.closeListen, Sys.total] using this

theorem gracefulStart_total (cfg : Cfg) (s : Sys) : (s.gracefulStart cfg).total = s.total := by
  unfold Sys.gracefulStart
  split
  · rfl
  · have := closeListen_total s
    simpa [Sys.total] using this

theorem exitIfIdle_total (s : Sys) : s.exitIfIdle.total = s.total := by
  unfold Sys.exitIfIdle; split <;> rfl

theorem gracefulPass_total (cfg : Cfg) (s : Sys) : (s.gracefulPass cfg).total = s.total := by
  unfold Sys.gracefulPass
  simp only
  rw [exitIfIdle_total, (neutral_sweep _ _).total, gracefulStart_total]

theorem loopToRest_total (cfg : Cfg) (s : Sys) : (s.loopToRest cfg).total = s.total := by
  unfold Sys.loopToRest
  split
  · exact gracefulPass_total cfg s
  · exact admitLoop_total cfg _ s

theorem halt_total_le (s : Sys) : s.halt.total ≤ s.total := by
  unfold Sys.halt; split <;> simp [Sys.total]

theorem halt_total_eq (s : Sys) (h : s.exited = false) : s.halt = s := by
  unfold Sys.halt; simp [h]

theorem halt_exited (s : Sys) : s.halt.exited = s.exited := by
  unfold Sys.halt; split <;> rfl

theorem settle_total_le (cfg : Cfg) (s : Sys) : (s.settle cfg).total ≤ s.total := by
  unfold Sys.settle
  split
  · exact halt_total_le s
  · rw [(neutral_markAccepted _).total]
    exact Nat.le_trans (halt_total_le _) (Nat.le_of_eq (loopToRest_total cfg s))

theorem settle_total_eq (cfg : Cfg) (s : Sys) (h : (s.settle cfg).exited = false) :
    (s.settle cfg).total = s.total := by
  unfold Sys.settle at h ⊢
  by_cases he : s.exited = true
  · rw [if_pos he, halt_exited, he] at h
    cases h
  · rw [if_neg he] at h ⊢
    rw [(neutral_markAccepted _).exited, halt_exited] at h
    rw [(neutral_markAccepted _).total, halt_total_eq _ h, loopToRest_total]

theorem act_total (cfg : Cfg) (s : Sys) (op : Op) : (s.act cfg op).total = s.total := by
  cases op <;> simp only [Sys.act] <;>
    repeat' (first
      | exact (neutral_onConn _ _ _).total
      | exact (neutral_sweep _ _).total
      | exact ((neutral_onConn _ _ _).trans (neutral_modClient _ _ _)).total
      | split
      | rfl)

theorem step_total_le (cfg : Cfg) (s : Sys) (op : Op) : (s.step cfg op).total ≤ s.total := by
  unfold Sys.step
  exact Nat.le_trans (settle_total_le cfg _) (Nat.le_of_eq (act_total cfg s op))

theorem step_total_eq (cfg : Cfg) (s : Sys) (op : Op) (h : (s.step cfg op).exited = false) :
    (s.step cfg op).total = s.total := by
  unfold Sys.step at h ⊢
  rw [settle_total_eq cfg _ h, act_total]

theorem run_total_le (cfg : Cfg) (s : Sys) (ops : List Op) : (s.run cfg ops).total ≤ s.total := by
  induction ops generalizing s with
  | nil => exact Nat.le_refl _
  | cons op ops ih =>
    simp only [Sys.run, List.foldl_cons] at ih ⊢
    exact Nat.le_trans (ih _) (step_total_le cfg s op)

theorem act_exited (cfg : Cfg) (s : Sys) (op : Op) (h : s.exited = true) : (s.act cfg op).exited = true := by
  cases op <;> simp only [Sys.act, h] <;>
    repeat' (first
      | exact h
      | rfl
      | exact (neutral_onConn _ _ _).exited.trans h
      | exact ((neutral_onConn _ _ _).trans (neutral_modClient _ _ _)).exited.trans h
      | split)

theorem settle_exited (cfg : Cfg) (s : Sys) (h : s.exited = true) : (s.settle cfg).exited = true := by
  unfold Sys.settle
  rw [if_pos h, halt_exited, h]

theorem step_exited (cfg : Cfg) (s : Sys) (op : Op) (h : s.exited = true) : (s.step cfg op).exited = true :=
  settle_exited cfg _ (act_exited cfg s op h)

theorem run_exited (cfg : Cfg) (s : Sys) (ops : List Op) (h : s.exited = true) : (s.run cfg ops).exited = true := by
  induction ops generalizing s with
  | nil => exact h
  | cons op ops ih => simp only [Sys.run, List.foldl_cons] at ih ⊢; exact ih _ (step_exited cfg s op h)

theorem run_total_eq (cfg : Cfg) (s : Sys) (ops : List Op) (h : (s.run cfg ops).exited = false) :
    (s.run cfg ops).total = s.total := by
  induction ops generalizing s with
  | nil => rfl
  | cons op ops ih =>
    simp only [Sys.run, List.foldl_cons] at ih h ⊢
    have hs : (s.step cfg op).exited = false := by
      cases hx : (s.step cfg op).exited with
      | false => rfl
      | true =>
        have := run_exited cfg _ ops hx
        simp only [Sys.run] at this
        rw [this] at h; cases h
    rw [ih _ h, step_total_eq cfg s op hs]

theorem init_total (cfg : Cfg) : (Sys.init cfg).total = cfg.mc := by
  simp [Sys.init, Sys.total]

/-! ### overload -/

theorem acceptMany_disabled (cfg : Cfg) (k : Nat) (s : Sys) : (acceptMany cfg k s).disabled = s.disabled := by
  induction k generalizing s with
  | zero => rfl
  | succ k ih =>
    unfold acceptMany
    split
    · rfl
    · rw [ih, (accept_spec cfg _ _).disabled]; rfl

theorem round_recovers (cfg : Cfg) (s : Sys) (hd : s.disabled = 1) (hf : s.curFds < cfg.lowat) (hl : s.lim ≠ 0)
    (hb : s.backlog ≠ []) :
    (s.round cfg).disabled = 0 ∧ (s.round cfg).backlog.length < s.backlog.length := by
  have hlc : loadCheck s.curFds cfg.lowat cfg.hiwat s.lim s.disabled = 0 := by
    simp [loadCheck, hd, hf, hl]
  unfold Sys.round
  simp only [hlc, if_true]
  obtain ⟨k, hk⟩ : ∃ k, acceptCount s.lim = k + 1 := ⟨acceptCount s.lim - 1, by have := acceptCount_pos s.lim hl; omega⟩
  rw [hk]
  constructor
  · rw [acceptMany_disabled]
  · exact acceptMany_backlog_lt cfg k _ hb

theorem lowat_le_hiwat (cfg : Cfg) : cfg.lowat ≤ cfg.hiwat := by
  unfold Cfg.lowat Cfg.hiwat lowatNum lowatDen hiwatNum hiwatDen
  omega

theorem round_stable (cfg : Cfg) (s : Sys) (hst : s.round cfg = s) (hb : s.backlog ≠ []) :
    s.lim = 0 ∨ cfg.lowat ≤ s.curFds := by
  by_cases hl : s.lim = 0
  · exact Or.inl hl
  · by_cases hf : s.curFds < cfg.lowat
    · exfalso
      have hh := lowat_le_hiwat cfg
      have hlc : loadCheck s.curFds cfg.lowat cfg.hiwat s.lim s.disabled = 0 := by
        unfold loadCheck
        by_cases hd : s.disabled = 0
        · have : ¬ (s.curFds > cfg.hiwat ∨ s.lim = 0) := by omega
          simp [hd, this]
        · simp [hd, hf, hl]
      obtain ⟨k, hk⟩ : ∃ k, acceptCount s.lim = k + 1 :=
        ⟨acceptCount s.lim - 1, by have := acceptCount_pos s.lim hl; omega⟩
      have hlt : (s.round cfg).backlog.length < s.backlog.length := by
        unfold Sys.round
        simp only [hlc, if_true]
        rw [hk]
        exact acceptMany_backlog_lt cfg k _ hb
      rw [hst] at hlt
      exact Nat.lt_irrefl _ hlt
    · exact Or.inr (by omega)

/-! ### graceful stop -/

theorem gracefulConn_expired (c : Conn) : gracefulConn true c = none := by
  unfold gracefulConn
  split
  · rfl
  · split <;> rfl

theorem sweep_none_conns (s : Sys) (f : Conn → Option Conn) (hf : ∀ c, f c = none) : (s.sweep f).conns = [] := by
  unfold Sys.sweep
  have h : ∀ (l : List (Nat × Conn)) (s : Sys), s.conns = l →
      (l.foldl (fun s p => match f p.2 with
        | none => s.putConn p.1 (none, [])
        | some c => s.putConn p.1 (some c, [])) s).conns = [] := by
    intro l
    induction l with
    | nil => intro s hs; simpa using hs
    | cons p rest ih =>
      intro s hs
      simp only [List.foldl_cons]
      apply ih
      obtain ⟨j, d⟩ := p
      simp only [hf]
      simp [Sys.putConn, Sys.release, Sys.modClient, Sys.setClient, hs, lookupConn, eraseConn]
  exact h s.conns s rfl

theorem gracefulPass_expired (cfg : Cfg) (s : Sys) (hd : s.disabled = 3) (he : s.expired = true) :
    (s.gracefulPass cfg).exited = true := by
  unfold Sys.gracefulPass
  simp only [Sys.gracefulStart, hd, if_true, he]
  unfold Sys.exitIfIdle
  rw [sweep_none_conns s _ gracefulConn_expired]
  rfl

/-- what graceful shutdown keeps fixed from one action to the next: listen sockets closed, nobody
    waiting, the flag set -/
structure Stopping (s : Sys) : Prop where
  graceful : s.graceful = true
  disabled : s.disabled = 3
  backlog : s.backlog = []

theorem act_stopping (cfg : Cfg) (s : Sys) (op : Op) (h : Stopping s) :
    Stopping (s.act cfg op) ∧ (s.act cfg op).conns.length ≤ s.conns.length := by
  have hg := h.graceful; have hd := h.disabled; have hb := h.backlog
  cases op with
  | tick n =>
    simp only [Sys.act]
    split
    · exact ⟨⟨hg, hd, hb⟩, Nat.le_refl _⟩
    · have hn := neutral_sweep { s with now := s.now + n } (tickConn cfg (s.now + n))
      exact ⟨⟨hn.graceful.trans hg, hn.disabled.trans hd, hn.backlog.trans hb⟩, hn.conns_le⟩
  | open_ i =>
    simp only [Sys.act, hd]
    split
    · exact ⟨⟨hg, hd, hb⟩, Nat.le_refl _⟩
    · exact ⟨⟨hg, hd, hb⟩, Nat.le_refl _⟩
  | prepare i r =>
    simp only [Sys.act]
    split <;> exact ⟨⟨hg, hd, hb⟩, Nat.le_refl _⟩
  | send i n =>
    simp only [Sys.act]
    repeat' (first
      | exact ⟨⟨hg, hd, hb⟩, Nat.le_refl _⟩
      | exact ⟨⟨(neutral_onConn _ _ _).graceful.trans hg, (neutral_onConn _ _ _).disabled.trans hd,
                (neutral_onConn _ _ _).backlog.trans hb⟩, (neutral_onConn _ _ _).conns_le⟩
      | split)
  | read i =>
    simp only [Sys.act]
    split
    · exact ⟨⟨hg, hd, hb⟩, Nat.le_refl _⟩
    · have hn := (neutral_onConn s i fun c => (some (clientRead s.now c), [])).trans (neutral_modClient _ i Client.afterRead)
      exact ⟨⟨hn.graceful.trans hg, hn.disabled.trans hd, hn.backlog.trans hb⟩, hn.conns_le⟩
  | drain i =>
    simp only [Sys.act]
    split
    · exact ⟨⟨hg, hd, hb⟩, Nat.le_refl _⟩
    · have hn := (neutral_onConn s i fun c => (clientDrain s.now c, [])).trans (neutral_modClient _ i Client.afterRead)
      exact ⟨⟨hn.graceful.trans hg, hn.disabled.trans hd, hn.backlog.trans hb⟩, hn.conns_le⟩
  | fin i =>
    simp only [Sys.act]
    repeat' (first
      | exact ⟨⟨hg, hd, hb⟩, Nat.le_refl _⟩
      | exact ⟨⟨(neutral_onConn _ _ _).graceful.trans hg, (neutral_onConn _ _ _).disabled.trans hd,
                (neutral_onConn _ _ _).backlog.trans hb⟩, (neutral_onConn _ _ _).conns_le⟩
      | split)
  | close i =>
    simp only [Sys.act]
    repeat' (first
      | exact ⟨⟨hg, hd, hb⟩, Nat.le_refl _⟩
      | exact ⟨⟨(neutral_onConn _ _ _).graceful.trans hg, (neutral_onConn _ _ _).disabled.trans hd,
                (neutral_onConn _ _ _).backlog.trans hb⟩, (neutral_onConn _ _ _).conns_le⟩
      | split)
  | graceful =>
    simp only [Sys.act, hg, if_true]
    split
    · exact ⟨⟨hg, hd, hb⟩, Nat.le_refl _⟩
    · exact ⟨⟨rfl, hd, hb⟩, Nat.le_refl _⟩
  | wake => exact ⟨⟨hg, hd, hb⟩, Nat.le_refl _⟩

theorem halt_stopping (s : Sys) (h : Stopping s) : Stopping s.halt ∧ s.halt.conns.length ≤ s.conns.length := by
  unfold Sys.halt
  split
  · exact ⟨⟨h.graceful, h.disabled, rfl⟩, by simp⟩
  · exact ⟨h, Nat.le_refl _⟩

theorem gracefulPass_stopping (cfg : Cfg) (s : Sys) (h : Stopping s) :
    Stopping (s.gracefulPass cfg) ∧ (s.gracefulPass cfg).conns.length ≤ s.conns.length := by
  unfold Sys.gracefulPass
  simp only [Sys.gracefulStart, h.disabled, if_true]
  have hn := neutral_sweep s (gracefulConn s.expired)
  unfold Sys.exitIfIdle
  split
  · exact ⟨⟨hn.graceful.trans h.graceful, hn.disabled.trans h.disabled, hn.backlog.trans h.backlog⟩, hn.conns_le⟩
  · exact ⟨⟨hn.graceful.trans h.graceful, hn.disabled.trans h.disabled, hn.backlog.trans h.backlog⟩, hn.conns_le⟩

theorem settle_stopping (cfg : Cfg) (s : Sys) (h : Stopping s) :
    Stopping (s.settle cfg) ∧ (s.settle cfg).conns.length ≤ s.conns.length := by
  unfold Sys.settle
  split
  · exact halt_stopping s h
  · have h1 := gracefulPass_stopping cfg s h
    have h2 := halt_stopping _ h1.1
    have hn := neutral_markAccepted (s.gracefulPass cfg).halt
    simp only [Sys.loopToRest, h.graceful, if_true]
    exact ⟨⟨hn.graceful.trans h2.1.graceful, hn.disabled.trans h2.1.disabled, hn.backlog.trans h2.1.backlog⟩,
      Nat.le_trans hn.conns_le (Nat.le_trans h2.2 h1.2)⟩

theorem step_stopping (cfg : Cfg) (s : Sys) (op : Op) (h : Stopping s) :
    Stopping (s.step cfg op) ∧ (s.step cfg op).conns.length ≤ s.conns.length := by
  have h1 := act_stopping cfg s op h
  have h2 := settle_stopping cfg _ h1.1
  exact ⟨h2.1, Nat.le_trans h2.2 h1.2⟩

theorem gracefulStart_stopping (cfg : Cfg) (s : Sys) (hg : s.graceful = true) (hd : s.disabled ≠ 3) :
    Stopping (s.gracefulStart cfg) ∧
    (s.gracefulStart cfg).expireTs = (if cfg.gt = 0 then 0 else s.now + cfg.gt) ∧
    (s.gracefulStart cfg).conns.length ≤ s.conns.length ∧ (s.gracefulStart cfg).now = s.now := by
  unfold Sys.gracefulStart
  rw [if_neg hd]
  have hn := neutral_resetBacklog s
  refine ⟨⟨?_, rfl, rfl⟩, rfl, ?_, ?_⟩
  · simpa [Sys.closeListen] using hn.graceful.trans hg
  · simpa [Sys.closeListen] using hn.conns_le
  · simpa [Sys.closeListen] using hn.now

/-- the main loop's reaction to the first graceful-shutdown signal -/
theorem settle_graceful_first (cfg : Cfg) (s : Sys) (hg : s.graceful = true) (he : s.exited = false)
    (hd : s.disabled ≠ 3) :
    Stopping (s.settle cfg) ∧ (s.settle cfg).conns.length ≤ s.conns.length ∧
    (s.settle cfg).expireTs = (if cfg.gt = 0 then 0 else s.now + cfg.gt) := by
  have h1 := gracefulStart_stopping cfg s hg hd
  unfold Sys.settle
  rw [if_neg (by simp [he])]
  unfold Sys.loopToRest
  rw [if_pos hg]
  unfold Sys.gracefulPass
  simp only
  generalize s.gracefulStart cfg = s1 at h1
  have hn := neutral_sweep s1 (gracefulConn s1.expired)
  have hs2 : Stopping (s1.sweep (gracefulConn s1.expired)).exitIfIdle ∧
      (s1.sweep (gracefulConn s1.expired)).exitIfIdle.conns.length ≤ s1.conns.length ∧
      (s1.sweep (gracefulConn s1.expired)).exitIfIdle.expireTs = s1.expireTs := by
    unfold Sys.exitIfIdle
    split
    · exact ⟨⟨hn.graceful.trans h1.1.graceful, hn.disabled.trans h1.1.disabled, hn.backlog.trans h1.1.backlog⟩,
        hn.conns_le, hn.expireTs⟩
    · exact ⟨⟨hn.graceful.trans h1.1.graceful, hn.disabled.trans h1.1.disabled, hn.backlog.trans h1.1.backlog⟩,
        hn.conns_le, hn.expireTs⟩
  generalize (s1.sweep (gracefulConn s1.expired)).exitIfIdle = s2 at hs2
  have h3 := halt_stopping s2 hs2.1
  have h3e : s2.halt.expireTs = s2.expireTs := by unfold Sys.halt; split <;> rfl
  have hm := neutral_markAccepted s2.halt
  refine ⟨⟨hm.graceful.trans h3.1.graceful, hm.disabled.trans h3.1.disabled, hm.backlog.trans h3.1.backlog⟩, ?_, ?_⟩
  · have := h1.2.2.1; have := hm.conns_le; have := h3.2; have := hs2.2.1; omega
  · rw [hm.expireTs, h3e, hs2.2.2, h1.2.1]

theorem gracefulConn_inflight (c : Conn)
    (h : c.st = .write ∨ c.st = .readPost ∨ (c.st = .read ∧ (c.n ≤ 1 ∨ c.hdrBuf ≠ 0))) :
    gracefulConn false c = some { c with keepAlive := false } := by
  unfold gracefulConn
  rcases h with h | h | ⟨h, h'⟩
  · simp [h]
  · simp [h]
  · have : ¬ (c.n > 1 ∧ c.hdrBuf = 0) := by omega
    simp [h, this]

/-! ## size limits -/

/-- a response that forbids keep-alive ends in the close state (or the connection is gone) -/
theorem respond_close (cfg : Cfg) (now : Int) (c : Conn) (status : Nat) (complete : Bool) :
    (respond cfg now c status false complete false).2 = [status] ∧
    ∀ c', (respond cfg now c status false complete false).1 = some c' → c'.st = .close := by
  unfold respond finishResponse toClose
  simp only [Bool.false_and, Bool.false_eq_true, if_false]
  refine ⟨trivial, ?_⟩
  · intro c' h
    split at h
    · cases h
    · cases h; rfl

theorem recv_head_431 (cfg : Cfg) (now : Int) (c : Conn) (r : Req) (n : Nat) (hs : c.st = .read)
    (h : (c.hdrBuf + n < r.H ∧ cfg.fs < c.hdrBuf + n) ∨ (r.H ≤ c.hdrBuf + n ∧ cfg.fs < r.H)) :
    (recv cfg now c r n).2 = [431] ∧ ∀ c', (recv cfg now c r n).1 = some c' → c'.st = .close := by
  unfold recv
  simp only [hs]
  rcases h with ⟨h1, h2⟩ | ⟨h1, h2⟩
  · simp only [h1, if_true, gt_iff_lt, h2]
    exact respond_close cfg now _ 431 true
  · have : ¬ (c.hdrBuf + n < r.H) := by omega
    simp only [this, if_false, gt_iff_lt, h2, if_true]
    exact respond_close cfg now _ 431 true

theorem recv_cl_413 (cfg : Cfg) (now : Int) (c : Conn) (r : Req) (n : Nat) (hs : c.st = .read)
    (hk : r.kind = .post) (hh : r.H ≤ c.hdrBuf + n) (hf : r.H ≤ cfg.fs) (hr : cfg.rs ≠ 0)
    (hb : cfg.rs * 1024 < r.B) :
    (recv cfg now c r n).2 = [413] ∧ ∀ c', (recv cfg now c r n).1 = some c' → c'.st = .close := by
  unfold recv
  have h1 : ¬ (c.hdrBuf + n < r.H) := by omega
  have h2 : ¬ (r.H > cfg.fs) := by omega
  have h3 : cfg.rs ≠ 0 ∧ r.B > cfg.rs * 1024 := ⟨hr, hb⟩
  simp only [hs, h1, h2, if_false, hk]
  rw [if_pos h3]
  exact respond_close cfg now _ 413 false

theorem bodyStep_chunk_413 (cfg : Cfg) (now : Int) (c : Conn) (add : Nat) (hk : c.req.kind = .chunked)
    (h : chunk413 cfg c.req (c.bodyGot + add) = true) :
    (bodyStep cfg now c add).2 = [413] ∧ ∀ c', (bodyStep cfg now c add).1 = some c' → c'.st = .close := by
  unfold bodyStep
  simp only [hk, h, if_true]
  exact respond_close cfg now _ 413 false

theorem respond_read_hdr (cfg : Cfg) (now : Int) (c : Conn) (status : Nat) (big complete ka : Bool) :
    ∀ c', (respond cfg now c status big complete ka).1 = some c' → c'.st = .read → c'.hdrBuf = 0 := by
  intro c' h hs
  unfold respond at h
  simp only at h
  split at h
  · cases h; cases hs
  · unfold finishResponse at h
    split at h
    · cases h; rfl
    · unfold toClose at h
      split at h
      · cases h
      · cases h; cases hs

theorem bodyStep_read_hdr (cfg : Cfg) (now : Int) (c : Conn) (add : Nat) :
    ∀ c', (bodyStep cfg now c add).1 = some c' → c'.st = .read → c'.hdrBuf = 0 := by
  intro c' h hs
  unfold bodyStep at h
  simp only at h
  split at h
  · exact respond_read_hdr _ _ _ _ _ _ _ c' h hs
  · split at h
    · exact respond_read_hdr _ _ _ _ _ _ _ c' h hs
    · cases h; cases hs
  · split at h
    · exact respond_read_hdr _ _ _ _ _ _ _ c' h hs
    · split at h
      · exact respond_read_hdr _ _ _ _ _ _ _ c' h hs
      · cases h; cases hs

/-- at rest, an incomplete request head never occupies more than max-request-field-size -/
theorem recv_hdrBuf_le (cfg : Cfg) (now : Int) (c : Conn) (r : Req) (n : Nat) (hs : c.st = .read) :
    ∀ c', (recv cfg now c r n).1 = some c' → c'.st = .read → c'.hdrBuf ≤ cfg.fs := by
  intro c' h hs'
  unfold recv at h
  simp only [hs] at h
  split at h
  · split at h
    · rw [respond_read_hdr _ _ _ _ _ _ _ c' h hs']; exact Nat.zero_le _
    · cases h; simp only; omega
  · split at h
    · rw [respond_read_hdr _ _ _ _ _ _ _ c' h hs']; exact Nat.zero_le _
    · split at h
      · rw [respond_read_hdr _ _ _ _ _ _ _ c' h hs']; exact Nat.zero_le _
      · split at h
        · rw [respond_read_hdr _ _ _ _ _ _ _ c' h hs']; exact Nat.zero_le _
        · rw [bodyStep_read_hdr _ _ _ _ c' h hs']; exact Nat.zero_le _
      · rw [bodyStep_read_hdr _ _ _ _ c' h hs']; exact Nat.zero_le _

theorem chunk413_of_large (cfg : Cfg) (r : Req) (got : Nat) (hr : cfg.rs ≠ 0) (hc : r.csz ≠ 0)
    (hbig : cfg.rs * 1024 < chunkCount r * r.csz) (hgot : chunkedTotal r ≤ got) :
    chunk413 cfg r got = true := by
  unfold chunk413
  have hk : cfg.rs * 1024 / r.csz + 1 ≤ chunkCount r := by
    have : cfg.rs * 1024 / r.csz < chunkCount r := by
      apply (Nat.div_lt_iff_lt_mul (Nat.pos_of_ne_zero hc)).mpr
      exact hbig
    omega
  have hend : (cfg.rs * 1024 / r.csz + 1 - 1) * chunkUnit r.csz + hexLen r.csz + 2 ≤ got := by
    have h1 : (cfg.rs * 1024 / r.csz + 1 - 1) * chunkUnit r.csz + chunkUnit r.csz ≤ chunkCount r * chunkUnit r.csz := by
      have : (cfg.rs * 1024 / r.csz + 1) * chunkUnit r.csz ≤ chunkCount r * chunkUnit r.csz :=
        Nat.mul_le_mul_right _ hk
      simpa [Nat.add_mul] using this
    have h2 : hexLen r.csz + 2 ≤ chunkUnit r.csz := by unfold chunkUnit; omega
    unfold chunkedTotal at hgot
    omega
  have hend' : cfg.rs * 1024 / r.csz * chunkUnit r.csz + hexLen r.csz + 2 ≤ got := by
    simpa using hend
  simp [hr, hc, hk, hend']

/-- a chunked body that is answered normally decodes to at most max-request-size -/
theorem bodyStep_chunked_ok_bounded (cfg : Cfg) (now : Int) (c : Conn) (add : Nat) (hk : c.req.kind = .chunked)
    (hr : cfg.rs ≠ 0) (hc : c.req.csz ≠ 0) (h : (bodyStep cfg now c add).2 = [200]) :
    chunkCount c.req * c.req.csz ≤ cfg.rs * 1024 := by
  apply Decidable.byContradiction
  intro hbig
  unfold bodyStep at h
  simp only [hk] at h
  split at h
  · simp [respond] at h
  · rename_i h413
    split at h
    · rename_i hgot
      exact h413 (chunk413_of_large cfg c.req _ hr hc (by omega) hgot)
    · simp at h

/-! ## one connection inside the server -/

/-! ## one connection inside the server: frame conditions -/

def keys (l : List (Nat × Conn)) : List Nat := l.map Prod.fst

theorem lookup_none_iff (l : List (Nat × Conn)) (i : Nat) : lookupConn l i = none ↔ i ∉ keys l := by
  induction l with
  | nil => simp [lookupConn, keys]
  | cons p rest ih =>
    obtain ⟨j, d⟩ := p
    unfold lookupConn
    by_cases h : j = i
    · simp [h, keys]
    · simp only [h, if_false, ih, keys, List.map_cons, List.mem_cons]
      constructor
      · intro h1 h2
        rcases h2 with h2 | h2
        · exact h h2.symm
        · exact h1 h2
      · intro h1 h2
        exact h1 (Or.inr h2)

theorem lookup_setConn_ne (l : List (Nat × Conn)) (i j : Nat) (c : Conn) (h : j ≠ i) :
    lookupConn (setConn l j c) i = lookupConn l i := by
  induction l with
  | nil => rfl
  | cons p rest ih =>
    obtain ⟨k, d⟩ := p
    unfold setConn
    by_cases hk : k = j
    · simp only [hk, if_true, lookupConn, h, if_false]
    · simp only [hk, if_false, lookupConn, ih]

theorem lookup_setConn_self (l : List (Nat × Conn)) (i : Nat) (c c0 : Conn) (h : lookupConn l i = some c0) :
    lookupConn (setConn l i c) i = some c := by
  induction l with
  | nil => simp [lookupConn] at h
  | cons p rest ih =>
    obtain ⟨k, d⟩ := p
    unfold setConn
    unfold lookupConn at h
    by_cases hk : k = i
    · simp [hk, lookupConn]
    · simp only [hk, if_false] at h
      simp only [hk, if_false, lookupConn, ih h]

theorem keys_setConn (l : List (Nat × Conn)) (i : Nat) (c : Conn) : keys (setConn l i c) = keys l := by
  induction l with
  | nil => rfl
  | cons p rest ih =>
    obtain ⟨k, d⟩ := p
    unfold setConn
    by_cases hk : k = i
    · simp [hk, keys]
    · simp only [hk, if_false, keys, List.map_cons] at ih ⊢
      rw [ih]

theorem lookup_eraseConn_ne (l : List (Nat × Conn)) (i j : Nat) (h : j ≠ i) :
    lookupConn (eraseConn l j) i = lookupConn l i := by
  induction l with
  | nil => rfl
  | cons p rest ih =>
    obtain ⟨k, d⟩ := p
    unfold eraseConn
    by_cases hk : k = j
    · have : ¬ k = i := fun hh => h (hk ▸ hh)
      simp only [hk, if_true, lookupConn]
      rw [if_neg (by rw [← hk]; exact this)]
    · simp only [hk, if_false, lookupConn, ih]

theorem keys_eraseConn_sublist (l : List (Nat × Conn)) (i : Nat) : (keys (eraseConn l i)).Sublist (keys l) := by
  induction l with
  | nil => exact List.Sublist.refl _
  | cons p rest ih =>
    obtain ⟨k, d⟩ := p
    unfold eraseConn
    by_cases hk : k = i
    · simp only [hk, if_true, keys, List.map_cons]
      exact List.sublist_cons_self _ _
    · simp only [hk, if_false, keys, List.map_cons]
      exact List.Sublist.cons_cons _ ih

theorem lookup_eraseConn_self (l : List (Nat × Conn)) (i : Nat) (hn : (keys l).Nodup) :
    lookupConn (eraseConn l i) i = none := by
  induction l with
  | nil => rfl
  | cons p rest ih =>
    obtain ⟨k, d⟩ := p
    simp only [keys, List.map_cons, List.nodup_cons] at hn
    unfold eraseConn
    by_cases hk : k = i
    · simp only [hk, if_true]
      rw [lookup_none_iff]
      rw [← hk]
      exact hn.1
    · simp only [hk, if_false, lookupConn]
      exact ih hn.2

/-- the connection table is a map (one entry per client), the listen queue has no duplicates, and
    nobody is both waiting and being served -/
structure Sys.WF (s : Sys) : Prop where
  keysNodup : (keys s.conns).Nodup
  backlogNodup : s.backlog.Nodup
  disjoint : ∀ j, j ∈ s.backlog → lookupConn s.conns j = none

@[simp] theorem modClient_conn (s : Sys) (j i : Nat) (f : Client → Client) : (s.modClient j f).conn i = s.conn i := rfl

theorem wf_modClient (s : Sys) (j : Nat) (f : Client → Client) (h : s.WF) : (s.modClient j f).WF :=
  ⟨h.keysNodup, h.backlogNodup, h.disjoint⟩

theorem wf_release (s : Sys) (j : Nat) (h : s.WF) : (s.release j).WF := by
  unfold Sys.release
  split
  · exact h
  · refine ⟨(keys_eraseConn_sublist s.conns j).nodup h.keysNodup, h.backlogNodup, ?_⟩
    intro k hk
    have := h.disjoint k hk
    rw [lookup_none_iff] at this ⊢
    exact fun hm => this ((keys_eraseConn_sublist s.conns j).subset hm)

theorem release_conn_ne (s : Sys) (i j : Nat) (h : j ≠ i) : (s.release j).conn i = s.conn i := by
  unfold Sys.release
  split
  · rfl
  · exact lookup_eraseConn_ne s.conns i j h

theorem release_conn_self (s : Sys) (i : Nat) (h : s.WF) : (s.release i).conn i = none := by
  unfold Sys.release
  split
  · rename_i hn; exact hn
  · exact lookup_eraseConn_self s.conns i h.keysNodup

theorem wf_putConn (s : Sys) (j : Nat) (r : CRes) (h : s.WF) : (s.putConn j r).WF := by
  unfold Sys.putConn
  split
  · exact wf_modClient _ _ _ (wf_release _ _ (wf_modClient _ _ _ h))
  · rename_i c hc
    have hwf : ({ (s.modClient j fun cl => { cl with inbox := cl.inbox ++ r.2 }) with
                  conns := setConn s.conns j c } : Sys).WF := by
      refine ⟨?_, h.backlogNodup, ?_⟩
      · simpa [keys_setConn] using h.keysNodup
      · intro k hk
        have := h.disjoint k hk
        rw [lookup_none_iff] at this ⊢
        simpa [keys_setConn] using this
    split
    · exact wf_modClient _ _ _ hwf
    · exact hwf

theorem putConn_conn_ne (s : Sys) (i j : Nat) (r : CRes) (h : j ≠ i) : (s.putConn j r).conn i = s.conn i := by
  unfold Sys.putConn
  split
  · simp only [modClient_conn]; exact release_conn_ne _ i j h
  · split
    · simp only [modClient_conn]; exact lookup_setConn_ne s.conns i j _ h
    · exact lookup_setConn_ne s.conns i j _ h

theorem putConn_conn_self (s : Sys) (i : Nat) (r : CRes) (c0 : Conn) (h : s.WF) (hc : s.conn i = some c0) :
    (s.putConn i r).conn i = r.1 := by
  unfold Sys.putConn
  split
  · rename_i hr
    simp only [modClient_conn]
    rw [hr]
    exact release_conn_self _ i (wf_modClient _ _ _ h)
  · rename_i c hr
    rw [hr]
    split
    · simp only [modClient_conn]; exact lookup_setConn_self s.conns i c c0 hc
    · exact lookup_setConn_self s.conns i c c0 hc

theorem onConn_conn_ne (s : Sys) (i j : Nat) (f : Conn → CRes) (h : j ≠ i) : (s.onConn j f).conn i = s.conn i := by
  unfold Sys.onConn
  split
  · rfl
  · exact putConn_conn_ne s i j _ h

theorem wf_onConn (s : Sys) (j : Nat) (f : Conn → CRes) (h : s.WF) : (s.onConn j f).WF := by
  unfold Sys.onConn
  split
  · exact h
  · exact wf_putConn s j _ h

/-- the sweep applies `f` to every connection, independently -/
theorem sweep_conn (s : Sys) (f : Conn → Option Conn) (i : Nat) (h : s.WF) :
    (s.sweep f).conn i = (s.conn i).bind f ∧ (s.sweep f).WF := by
  unfold Sys.sweep
  have key : ∀ (l : List (Nat × Conn)) (s : Sys), s.WF → (keys l).Nodup →
      (∀ p ∈ l, lookupConn s.conns p.1 = some p.2) →
      ((l.foldl (fun s p => match f p.2 with
          | none => s.putConn p.1 (none, [])
          | some c => s.putConn p.1 (some c, [])) s).conn i =
        (match lookupConn l i with | some c => f c | none => s.conn i)) ∧
      (l.foldl (fun s p => match f p.2 with
          | none => s.putConn p.1 (none, [])
          | some c => s.putConn p.1 (some c, [])) s).WF := by
    intro l
    induction l with
    | nil => intro s hs _ _; exact ⟨rfl, hs⟩
    | cons p rest ih =>
      intro s hs hn hl
      obtain ⟨j, d⟩ := p
      simp only [keys, List.map_cons, List.nodup_cons] at hn
      simp only [List.foldl_cons]
      have hstep : ∀ r : CRes, (s.putConn j r).WF ∧
          (∀ q ∈ rest, lookupConn (s.putConn j r).conns q.1 = some q.2) := by
        intro r
        refine ⟨wf_putConn s j r hs, ?_⟩
        intro q hq
        have hne : j ≠ q.1 := by
          intro he
          apply hn.1
          rw [he]
          exact List.mem_map_of_mem hq
        have := putConn_conn_ne s q.1 j r hne
        simp only [Sys.conn] at this
        rw [this]
        exact hl q (List.mem_cons_of_mem _ hq)
      have hjd : s.conn j = some d := hl (j, d) (List.mem_cons_self)
      by_cases hji : j = i
      · subst hji
        have hrest : lookupConn rest j = none := by rw [lookup_none_iff]; exact hn.1
        simp only [lookupConn, if_true]
        cases hf : f d with
        | none =>
          simp only
          have := ih (s.putConn j (none, [])) (hstep _).1 hn.2 (hstep _).2
          rw [this.1, hrest]
          exact ⟨putConn_conn_self s j _ d hs hjd, this.2⟩
        | some c' =>
          simp only
          have := ih (s.putConn j (some c', [])) (hstep _).1 hn.2 (hstep _).2
          rw [this.1, hrest]
          exact ⟨putConn_conn_self s j _ d hs hjd, this.2⟩
      · simp only [lookupConn, hji, if_false]
        cases hf : f d with
        | none =>
          simp only
          have := ih (s.putConn j (none, [])) (hstep _).1 hn.2 (hstep _).2
          rw [this.1, putConn_conn_ne s i j _ hji]
          exact ⟨rfl, this.2⟩
        | some c' =>
          simp only
          have := ih (s.putConn j (some c', [])) (hstep _).1 hn.2 (hstep _).2
          rw [this.1, putConn_conn_ne s i j _ hji]
          exact ⟨rfl, this.2⟩
  have hall : ∀ p ∈ s.conns, lookupConn s.conns p.1 = some p.2 := by
    have : ∀ (l : List (Nat × Conn)), (keys l).Nodup → ∀ p ∈ l, lookupConn l p.1 = some p.2 := by
      intro l
      induction l with
      | nil => intro _ p hp; cases hp
      | cons q rest ih =>
        intro hn p hp
        obtain ⟨k, d⟩ := q
        simp only [keys, List.map_cons, List.nodup_cons] at hn
        rcases List.mem_cons.mp hp with rfl | hp
        · simp [lookupConn]
        · have hne : k ≠ p.1 := by
            intro he; apply hn.1; rw [he]; exact List.mem_map_of_mem hp
          simp only [lookupConn, hne, if_false]
          exact ih hn.2 p hp
    exact this s.conns h.keysNodup
  have := key s.conns s h h.keysNodup hall
  refine ⟨this.1.trans ?_, this.2⟩
  simp only [Sys.conn]
  cases lookupConn s.conns i <;> rfl

/-- the client an action belongs to -/
def Op.client : Op → Option Nat
  | .tick _ => none | .wake => none | .graceful => none
  | .open_ j => some j | .prepare j _ => some j | .send j _ => some j | .read j => some j
  | .drain j => some j | .fin j => some j | .close j => some j

/-- an action that is not one of client `i`: clock ticks, wake-ups, the signal, anything any other
    client does -/
def Op.foreign (i : Nat) (op : Op) : Prop := op.client ≠ some i

/-- what the scripted action itself does to connection `i` when it is not `i`'s own action -/
theorem act_conn (cfg : Cfg) (s : Sys) (op : Op) (i : Nat) (hwf : s.WF) (hib : i ∉ s.backlog)
    (hf : op.foreign i) :
    (s.act cfg op).WF ∧ i ∉ (s.act cfg op).backlog ∧
    (s.act cfg op).conn i =
      (match op with
       | .tick n => if s.exited then s.conn i else (s.conn i).bind (tickConn cfg (s.now + n))
       | _ => s.conn i) := by
  cases op with
  | tick n =>
    simp only [Sys.act]
    split
    · exact ⟨⟨hwf.keysNodup, hwf.backlogNodup, hwf.disjoint⟩, hib, rfl⟩
    · have hwf' : ({ s with now := s.now + n } : Sys).WF := ⟨hwf.keysNodup, hwf.backlogNodup, hwf.disjoint⟩
      have := sweep_conn { s with now := s.now + n } (tickConn cfg (s.now + n)) i hwf'
      refine ⟨this.2, ?_, this.1⟩
      rw [(neutral_sweep _ _).backlog]; exact hib
  | open_ j =>
    have hji : j ≠ i := fun h => hf (by simp [Op.client, h])
    simp only [Sys.act]
    split
    · exact ⟨hwf, hib, rfl⟩
    · rename_i hg
      split
      · exact ⟨⟨hwf.keysNodup, hwf.backlogNodup, hwf.disjoint⟩, hib, rfl⟩
      · have hg' : ¬ (s.backlog.contains j = true) ∧ ¬ ((s.conn j).isSome = true) := by
          constructor
          · intro h; exact hg (Or.inr (Or.inr (Or.inl h)))
          · intro h; exact hg (Or.inr (Or.inr (Or.inr h)))
        refine ⟨⟨hwf.keysNodup, ?_, ?_⟩, ?_, rfl⟩
        · have hjb : j ∉ s.backlog := by simpa using hg'.1
          show (s.backlog ++ [j]).Nodup
          rw [List.nodup_append]
          refine ⟨hwf.backlogNodup, by simp, ?_⟩
          intro a ha b hb
          simp at hb
          rw [hb]
          intro he; exact hjb (he ▸ ha)
        · intro k hk
          have hk' : k ∈ s.backlog ++ [j] := hk
          rw [List.mem_append] at hk'
          rcases hk' with hk' | hk'
          · exact hwf.disjoint k hk'
          · simp at hk'
            rw [hk']
            have := hg'.2
            simp only [Sys.conn] at this
            cases h : lookupConn s.conns j with
            | none => exact h
            | some c => rw [h] at this; simp at this
        · show i ∉ s.backlog ++ [j]
          rw [List.mem_append]
          intro h
          rcases h with h | h
          · exact hib h
          · simp at h; exact hji h.symm
  | prepare j r =>
    simp only [Sys.act]
    split
    · exact ⟨hwf, hib, rfl⟩
    · exact ⟨wf_modClient _ _ _ hwf, hib, rfl⟩
  | send j n =>
    have hji : j ≠ i := fun h => hf (by simp [Op.client, h])
    simp only [Sys.act]
    repeat' (first
      | exact ⟨hwf, hib, rfl⟩
      | exact ⟨wf_modClient _ _ _ (wf_modClient _ _ _ hwf), hib, rfl⟩
      | exact ⟨wf_onConn _ _ _ (wf_modClient _ _ _ hwf), by rw [(neutral_onConn _ _ _).backlog]; exact hib,
               onConn_conn_ne _ i j _ hji⟩
      | split)
  | read j =>
    have hji : j ≠ i := fun h => hf (by simp [Op.client, h])
    simp only [Sys.act]
    split
    · exact ⟨hwf, hib, rfl⟩
    · exact ⟨wf_modClient _ _ _ (wf_onConn _ _ _ hwf), by
        show i ∉ (s.onConn j _).backlog
        rw [(neutral_onConn _ _ _).backlog]; exact hib, onConn_conn_ne _ i j _ hji⟩
  | drain j =>
    have hji : j ≠ i := fun h => hf (by simp [Op.client, h])
    simp only [Sys.act]
    split
    · exact ⟨hwf, hib, rfl⟩
    · exact ⟨wf_modClient _ _ _ (wf_onConn _ _ _ hwf), by
        show i ∉ (s.onConn j _).backlog
        rw [(neutral_onConn _ _ _).backlog]; exact hib, onConn_conn_ne _ i j _ hji⟩
  | fin j =>
    have hji : j ≠ i := fun h => hf (by simp [Op.client, h])
    simp only [Sys.act]
    repeat' (first
      | exact ⟨hwf, hib, rfl⟩
      | exact ⟨wf_modClient _ _ _ hwf, hib, rfl⟩
      | exact ⟨wf_onConn _ _ _ hwf, by rw [(neutral_onConn _ _ _).backlog]; exact hib,
               onConn_conn_ne _ i j _ hji⟩
      | split)
  | close j =>
    have hji : j ≠ i := fun h => hf (by simp [Op.client, h])
    simp only [Sys.act]
    repeat' (first
      | exact ⟨hwf, hib, rfl⟩
      | exact ⟨wf_modClient _ _ _ (wf_modClient _ _ _ hwf), hib, rfl⟩
      | exact ⟨wf_onConn _ _ _ (wf_modClient _ _ _ hwf), by rw [(neutral_onConn _ _ _).backlog]; exact hib,
               onConn_conn_ne _ i j _ hji⟩
      | split)
  | graceful =>
    simp only [Sys.act]
    repeat' (first
      | exact ⟨hwf, hib, rfl⟩
      | exact ⟨⟨hwf.keysNodup, hwf.backlogNodup, hwf.disjoint⟩, hib, rfl⟩
      | split)
  | wake => exact ⟨hwf, hib, rfl⟩

/-! ### the main loop's reaction -/

theorem foldl_modClient_conns {α : Type} (g : α → Nat) (f : α → Client → Client) (l : List α) (s : Sys) :
    (l.foldl (fun s x => s.modClient (g x) (f x)) s).conns = s.conns ∧
    (l.foldl (fun s x => s.modClient (g x) (f x)) s).backlog = s.backlog := by
  induction l generalizing s with
  | nil => exact ⟨rfl, rfl⟩
  | cons x xs ih =>
    have := ih (s.modClient (g x) (f x))
    exact ⟨this.1, this.2⟩

theorem markAccepted_frame (s : Sys) : s.markAccepted.conns = s.conns ∧ s.markAccepted.backlog = s.backlog := by
  unfold Sys.markAccepted
  exact foldl_modClient_conns (fun p : Nat × Conn => p.1) (fun _ cl => { cl with accepted := true }) s.conns s

theorem resetBacklog_frame (s : Sys) : s.resetBacklog.conns = s.conns ∧ s.resetBacklog.backlog = s.backlog := by
  unfold Sys.resetBacklog
  exact foldl_modClient_conns (fun j : Nat => j) (fun _ cl => { cl with srvFin := true, reset := 1 }) s.backlog s

theorem gracefulStart_frame (cfg : Cfg) (s : Sys) (i : Nat) (hwf : s.WF) (hib : i ∉ s.backlog) :
    (s.gracefulStart cfg).WF ∧ i ∉ (s.gracefulStart cfg).backlog ∧ (s.gracefulStart cfg).conn i = s.conn i := by
  unfold Sys.gracefulStart
  split
  · exact ⟨hwf, hib, rfl⟩
  · have h := resetBacklog_frame s
    refine ⟨⟨?_, ?_, ?_⟩, ?_, ?_⟩
    · show (keys s.resetBacklog.conns).Nodup
      rw [h.1]; exact hwf.keysNodup
    · exact List.nodup_nil
    · intro j hj; cases hj
    · intro hj; cases hj
    · show lookupConn s.resetBacklog.conns i = lookupConn s.conns i
      rw [h.1]

theorem gracefulPass_conn (cfg : Cfg) (s : Sys) (i : Nat) (hwf : s.WF) (hib : i ∉ s.backlog) :
    (s.gracefulPass cfg).WF ∧ i ∉ (s.gracefulPass cfg).backlog ∧
    (s.gracefulPass cfg).conn i = (s.conn i).bind (gracefulConn (s.gracefulStart cfg).expired) := by
  unfold Sys.gracefulPass
  simp only
  have h1 := gracefulStart_frame cfg s i hwf hib
  have h2 := sweep_conn (s.gracefulStart cfg) (gracefulConn (s.gracefulStart cfg).expired) i h1.1
  have hb : i ∉ ((s.gracefulStart cfg).sweep (gracefulConn (s.gracefulStart cfg).expired)).backlog := by
    rw [(neutral_sweep _ _).backlog]; exact h1.2.1
  unfold Sys.exitIfIdle
  split
  · exact ⟨⟨h2.2.keysNodup, h2.2.backlogNodup, h2.2.disjoint⟩, hb, by rw [← h1.2.2]; exact h2.1⟩
  · exact ⟨h2.2, hb, by rw [← h1.2.2]; exact h2.1⟩

theorem accept_frame (cfg : Cfg) (s : Sys) (j i : Nat) (hwf : s.WF) (hji : j ≠ i) (hjn : s.conn j = none)
    (hjb : j ∉ s.backlog) :
    (Sys.accept cfg s j).WF ∧ (Sys.accept cfg s j).conn i = s.conn i := by
  have hpush : (s.pushConn j { rts := s.now }).WF ∧ (s.pushConn j { rts := s.now }).conn i = s.conn i := by
    refine ⟨⟨?_, hwf.backlogNodup, ?_⟩, ?_⟩
    · show (keys ((j, _) :: s.conns)).Nodup
      simp only [keys, List.map_cons, List.nodup_cons]
      refine ⟨?_, hwf.keysNodup⟩
      have := (lookup_none_iff s.conns j).mp hjn
      simpa [keys] using this
    · intro k hk
      show lookupConn ((j, _) :: s.conns) k = none
      have hkj : j ≠ k := fun h => hjb (h ▸ hk)
      simp only [lookupConn, hkj, if_false]
      exact hwf.disjoint k hk
    · show lookupConn ((j, _) :: s.conns) i = lookupConn s.conns i
      simp only [lookupConn, hji, if_false]
  unfold Sys.accept
  simp only
  split
  · exact ⟨wf_release _ _ hpush.1, (release_conn_ne _ i j hji).trans hpush.2⟩
  · unfold Sys.acceptData
    simp only
    have h1 : ((s.pushConn j { rts := s.now }).acceptBytes cfg j (s.client j) { rts := s.now }).WF ∧
        ((s.pushConn j { rts := s.now }).acceptBytes cfg j (s.client j) { rts := s.now }).conn i = s.conn i := by
      unfold Sys.acceptBytes
      split
      · split
        · exact ⟨wf_putConn _ _ _ hpush.1, (putConn_conn_ne _ i j _ hji).trans hpush.2⟩
        · exact hpush
      · exact hpush
    split
    · exact ⟨wf_onConn _ _ _ h1.1, (onConn_conn_ne _ i j _ hji).trans h1.2⟩
    · exact h1

theorem acceptMany_frame (cfg : Cfg) (k : Nat) (s : Sys) (i : Nat) (hwf : s.WF) (hib : i ∉ s.backlog) :
    (acceptMany cfg k s).WF ∧ i ∉ (acceptMany cfg k s).backlog ∧ (acceptMany cfg k s).conn i = s.conn i := by
  induction k generalizing s with
  | zero => exact ⟨hwf, hib, rfl⟩
  | succ k ih =>
    unfold acceptMany
    split
    · exact ⟨hwf, hib, rfl⟩
    · rename_i j rest hb
      have hnd : (j :: rest).Nodup := hb ▸ hwf.backlogNodup
      have hj : j ∉ rest := (List.nodup_cons.mp hnd).1
      have hji : j ≠ i := by
        intro h; apply hib; rw [hb, h]; exact List.mem_cons_self
      have hwf1 : ({ s with backlog := rest } : Sys).WF :=
        ⟨hwf.keysNodup, (List.nodup_cons.mp hnd).2, fun k hk => hwf.disjoint k (by rw [hb]; exact List.mem_cons_of_mem _ hk)⟩
      have hjn : ({ s with backlog := rest } : Sys).conn j = none :=
        hwf.disjoint j (by rw [hb]; exact List.mem_cons_self)
      have ha := accept_frame cfg { s with backlog := rest } j i hwf1 hji hjn hj
      have hib1 : i ∉ (Sys.accept cfg { s with backlog := rest } j).backlog := by
        rw [accept_backlog]
        intro h; apply hib; rw [hb]; exact List.mem_cons_of_mem _ h
      have := ih _ ha.1 hib1
      exact ⟨this.1, this.2.1, this.2.2.trans ha.2⟩

theorem round_frame (cfg : Cfg) (s : Sys) (i : Nat) (hwf : s.WF) (hib : i ∉ s.backlog) :
    (s.round cfg).WF ∧ i ∉ (s.round cfg).backlog ∧ (s.round cfg).conn i = s.conn i := by
  unfold Sys.round
  simp only
  have hwf1 : ({ s with disabled := loadCheck s.curFds cfg.lowat cfg.hiwat s.lim s.disabled } : Sys).WF :=
    ⟨hwf.keysNodup, hwf.backlogNodup, hwf.disjoint⟩
  split
  · exact acceptMany_frame cfg _ _ i hwf1 hib
  · exact ⟨hwf1, hib, rfl⟩

theorem admitLoop_frame (cfg : Cfg) (k : Nat) (s : Sys) (i : Nat) (hwf : s.WF) (hib : i ∉ s.backlog) :
    (admitLoop cfg k s).WF ∧ i ∉ (admitLoop cfg k s).backlog ∧ (admitLoop cfg k s).conn i = s.conn i := by
  induction k generalizing s with
  | zero => exact ⟨hwf, hib, rfl⟩
  | succ k ih =>
    unfold admitLoop
    have h1 := round_frame cfg s i hwf hib
    have := ih _ h1.1 h1.2.1
    exact ⟨this.1, this.2.1, this.2.2.trans h1.2.2⟩

/-- what the main loop's reaction amounts to for a connection whose client does nothing -/
def settleTrace (cfg : Cfg) (s : Sys) : List IdleEv :=
  if s.exited then [] else if s.graceful then [.graceful (s.gracefulStart cfg).expired] else []

theorem halt_frame (s : Sys) (i : Nat) (hwf : s.WF) (hib : i ∉ s.backlog) :
    s.halt.WF ∧ i ∉ s.halt.backlog ∧ (s.halt.conn i = none ∨ s.halt.conn i = s.conn i) ∧
    (s.halt.exited = true → s.halt.conns = []) := by
  unfold Sys.halt
  split
  · refine ⟨⟨List.nodup_nil, List.nodup_nil, ?_⟩, ?_, Or.inl rfl, fun _ => rfl⟩
    · intro j hj; exact absurd hj (List.not_mem_nil)
    · exact List.not_mem_nil
  · rename_i he
    exact ⟨hwf, hib, Or.inr rfl, fun h => absurd h he⟩

theorem settle_conn (cfg : Cfg) (s : Sys) (i : Nat) (hwf : s.WF) (hib : i ∉ s.backlog) :
    (s.settle cfg).WF ∧ i ∉ (s.settle cfg).backlog ∧
    ((s.settle cfg).conn i = none ∨ (s.settle cfg).conn i = runIdle cfg (s.conn i) (settleTrace cfg s)) ∧
    ((s.settle cfg).exited = true → (s.settle cfg).conns = []) := by
  unfold Sys.settle settleTrace
  by_cases he : s.exited = true
  · rw [if_pos he, if_pos he]
    have := halt_frame s i hwf hib
    refine ⟨this.1, this.2.1, ?_, this.2.2.2⟩
    rcases this.2.2.1 with h | h
    · exact Or.inl h
    · right; rw [h]; cases s.conn i <;> rfl
  · rw [if_neg he, if_neg he]
    have hloop : (s.loopToRest cfg).WF ∧ i ∉ (s.loopToRest cfg).backlog ∧
        (s.loopToRest cfg).conn i =
          runIdle cfg (s.conn i) (if s.graceful then [.graceful (s.gracefulStart cfg).expired] else []) := by
      unfold Sys.loopToRest
      split
      · have := gracefulPass_conn cfg s i hwf hib
        refine ⟨this.1, this.2.1, this.2.2.trans ?_⟩
        cases h : s.conn i with
        | none => rfl
        | some c =>
          simp only [Option.bind, runIdle, idleStep]
          cases gracefulConn (s.gracefulStart cfg).expired c <;> rfl
      · have := admitLoop_frame cfg (2 * s.backlog.length + 3) s i hwf hib
        refine ⟨this.1, this.2.1, this.2.2.trans ?_⟩
        cases s.conn i <;> rfl
    have hh := halt_frame (s.loopToRest cfg) i hloop.1 hloop.2.1
    have hm := markAccepted_frame (s.loopToRest cfg).halt
    refine ⟨⟨?_, ?_, ?_⟩, ?_, ?_, ?_⟩
    · rw [hm.1]; exact hh.1.keysNodup
    · rw [hm.2]; exact hh.1.backlogNodup
    · intro j hj; rw [hm.2] at hj; rw [hm.1]; exact hh.1.disjoint j hj
    · rw [hm.2]; exact hh.2.1
    · simp only [Sys.conn, hm.1]
      rcases hh.2.2.1 with h | h
      · exact Or.inl h
      · right
        have : lookupConn (s.loopToRest cfg).halt.conns i = (s.loopToRest cfg).conn i := h
        rw [this, hloop.2.2]
        rfl
    · intro hx
      rw [hm.1]
      apply hh.2.2.2
      rw [← (neutral_markAccepted _).exited]; exact hx

/-- the events a step means for a connection whose client does nothing -/
def stepTrace (cfg : Cfg) (s : Sys) (op : Op) : List IdleEv :=
  (match op with
   | .tick n => if s.exited then [] else [.tick (s.now + n)]
   | _ => []) ++ settleTrace cfg (s.act cfg op)

theorem step_conn (cfg : Cfg) (s : Sys) (op : Op) (i : Nat) (hwf : s.WF) (hib : i ∉ s.backlog)
    (hf : op.foreign i) :
    (s.step cfg op).WF ∧ i ∉ (s.step cfg op).backlog ∧
    ((s.step cfg op).conn i = none ∨ (s.step cfg op).conn i = runIdle cfg (s.conn i) (stepTrace cfg s op)) ∧
    ((s.step cfg op).exited = true → (s.step cfg op).conns = []) := by
  have ha := act_conn cfg s op i hwf hib hf
  have hs := settle_conn cfg (s.act cfg op) i ha.1 ha.2.1
  unfold Sys.step
  refine ⟨hs.1, hs.2.1, ?_, hs.2.2.2⟩
  rcases hs.2.2.1 with h | h
  · exact Or.inl h
  · right
    rw [h, ha.2.2]
    unfold stepTrace
    rw [runIdle_append]
    congr 1
    cases op with
    | tick n =>
      simp only
      split
      · cases s.conn i <;> rfl
      · cases h' : s.conn i with
        | none => rfl
        | some c =>
          simp only [Option.bind, runIdle, idleStep]
          cases tickConn cfg (s.now + n) c <;> rfl
    | _ => cases s.conn i <;> rfl

/-! ### whole scripts -/

def runTrace (cfg : Cfg) : Sys → List Op → List IdleEv
  | _, [] => []
  | s, op :: rest => stepTrace cfg s op ++ runTrace cfg (s.step cfg op) rest

theorem run_cons (cfg : Cfg) (s : Sys) (op : Op) (ops : List Op) :
    s.run cfg (op :: ops) = (s.step cfg op).run cfg ops := rfl

theorem run_append (cfg : Cfg) (s : Sys) (l1 l2 : List Op) :
    s.run cfg (l1 ++ l2) = (s.run cfg l1).run cfg l2 := by
  simp [Sys.run, List.foldl_append]

theorem runIdle_none_of (cfg : Cfg) (oc : Option Conn) (es : List IdleEv) (h : oc = none) :
    runIdle cfg oc es = none := by rw [h, runIdle_none]

/-- a script none of whose actions is client `i`'s is, for `i`'s connection, a run of idle events -/
theorem run_conn (cfg : Cfg) (s : Sys) (ops : List Op) (i : Nat) (hwf : s.WF) (hib : i ∉ s.backlog)
    (hx : s.exited = true → s.conns = []) (hf : ∀ op ∈ ops, op.foreign i) :
    (s.run cfg ops).WF ∧ i ∉ (s.run cfg ops).backlog ∧
    ((s.run cfg ops).conn i = none ∨ (s.run cfg ops).conn i = runIdle cfg (s.conn i) (runTrace cfg s ops)) ∧
    ((s.run cfg ops).exited = true → (s.run cfg ops).conns = []) := by
  induction ops generalizing s with
  | nil =>
    refine ⟨hwf, hib, Or.inr ?_, hx⟩
    simp only [Sys.run, List.foldl_nil, runTrace]
    cases s.conn i <;> rfl
  | cons op rest ih =>
    have h1 := step_conn cfg s op i hwf hib (hf op List.mem_cons_self)
    have h2 := ih (s.step cfg op) h1.1 h1.2.1 h1.2.2.2 (fun o ho => hf o (List.mem_cons_of_mem _ ho))
    rw [run_cons]
    refine ⟨h2.1, h2.2.1, ?_, h2.2.2.2⟩
    rcases h2.2.2.1 with h | h
    · exact Or.inl h
    · rcases h1.2.2.1 with h' | h'
      · left; rw [h, h', runIdle_none]
      · right; rw [h, h']; simp only [runTrace]; rw [runIdle_append]

theorem run_conn_none (cfg : Cfg) (s : Sys) (ops : List Op) (i : Nat) (hwf : s.WF) (hib : i ∉ s.backlog)
    (hx : s.exited = true → s.conns = []) (hf : ∀ op ∈ ops, op.foreign i) (hn : s.conn i = none) :
    (s.run cfg ops).conn i = none := by
  rcases (run_conn cfg s ops i hwf hib hx hf).2.2.1 with h | h
  · exact h
  · rw [h, hn, runIdle_none]

/-! ### the clock -/

def Op.dt : Op → Nat
  | .tick n => n
  | _ => 0

def dur (ops : List Op) : Nat := (ops.map Op.dt).sum

theorem act_now_same (cfg : Cfg) (s : Sys) (op : Op) (h : ∀ n, op ≠ .tick n) : (s.act cfg op).now = s.now := by
  cases op with
  | tick n => exact absurd rfl (h n)
  | open_ i => simp only [Sys.act]; repeat' (first | rfl | split)
  | prepare i r => simp only [Sys.act]; repeat' (first | rfl | split)
  | send i n =>
    simp only [Sys.act]
    repeat' (first | rfl | exact (neutral_onConn _ _ _).now | split)
  | read i =>
    simp only [Sys.act]
    repeat' (first | rfl | exact ((neutral_onConn _ _ _).trans (neutral_modClient _ _ _)).now | split)
  | drain i =>
    simp only [Sys.act]
    repeat' (first | rfl | exact ((neutral_onConn _ _ _).trans (neutral_modClient _ _ _)).now | split)
  | fin i =>
    simp only [Sys.act]
    repeat' (first | rfl | exact (neutral_onConn _ _ _).now | split)
  | close i =>
    simp only [Sys.act]
    repeat' (first | rfl | exact (neutral_onConn _ _ _).now | split)
  | graceful => simp only [Sys.act]; repeat' (first | rfl | split)
  | wake => rfl

theorem act_now (cfg : Cfg) (s : Sys) (op : Op) : (s.act cfg op).now = s.now + op.dt := by
  cases op with
  | tick n =>
    simp only [Sys.act, Op.dt]
    split
    · rfl
    · exact (neutral_sweep _ _).now
  | open_ i => rw [act_now_same cfg s _ (fun n h => by cases h)]; simp [Op.dt]
  | prepare i r => rw [act_now_same cfg s _ (fun n h => by cases h)]; simp [Op.dt]
  | send i n => rw [act_now_same cfg s _ (fun n h => by cases h)]; simp [Op.dt]
  | read i => rw [act_now_same cfg s _ (fun n h => by cases h)]; simp [Op.dt]
  | drain i => rw [act_now_same cfg s _ (fun n h => by cases h)]; simp [Op.dt]
  | fin i => rw [act_now_same cfg s _ (fun n h => by cases h)]; simp [Op.dt]
  | close i => rw [act_now_same cfg s _ (fun n h => by cases h)]; simp [Op.dt]
  | graceful => rw [act_now_same cfg s _ (fun n h => by cases h)]; simp [Op.dt]
  | wake => rw [act_now_same cfg s _ (fun n h => by cases h)]; simp [Op.dt]

theorem acceptMany_now (cfg : Cfg) (k : Nat) (s : Sys) : (acceptMany cfg k s).now = s.now := by
  induction k generalizing s with
  | zero => rfl
  | succ k ih =>
    unfold acceptMany
    split
    · rfl
    · rw [ih, (accept_spec cfg _ _).now]; rfl

theorem admitLoop_now (cfg : Cfg) (k : Nat) (s : Sys) : (admitLoop cfg k s).now = s.now := by
  induction k generalizing s with
  | zero => rfl
  | succ k ih =>
    unfold admitLoop
    rw [ih]
    unfold Sys.round
    simp only
    split
    · rw [acceptMany_now]
    · rfl

theorem gracefulStart_now (cfg : Cfg) (s : Sys) : (s.gracefulStart cfg).now = s.now := by
  unfold Sys.gracefulStart
  split
  · rfl
  · have := (neutral_resetBacklog s).now
    simpa [Sys.closeListen] using this

theorem settle_now (cfg : Cfg) (s : Sys) : (s.settle cfg).now = s.now := by
  have hhalt : ∀ t : Sys, t.halt.now = t.now := by
    intro t; unfold Sys.halt; split <;> rfl
  unfold Sys.settle
  split
  · exact hhalt s
  · rw [(neutral_markAccepted _).now, hhalt]
    unfold Sys.loopToRest
    split
    · unfold Sys.gracefulPass
      simp only
      have : ∀ t : Sys, t.exitIfIdle.now = t.now := by
        intro t; unfold Sys.exitIfIdle; split <;> rfl
      rw [this, (neutral_sweep _ _).now, gracefulStart_now]
    · exact admitLoop_now cfg _ s

theorem step_now (cfg : Cfg) (s : Sys) (op : Op) : (s.step cfg op).now = s.now + op.dt := by
  unfold Sys.step
  rw [settle_now, act_now]

theorem run_now (cfg : Cfg) (s : Sys) (ops : List Op) : (s.run cfg ops).now = s.now + dur ops := by
  induction ops generalizing s with
  | nil => simp [Sys.run, dur]
  | cons op rest ih =>
    rw [run_cons, ih, step_now]
    simp only [dur, List.map_cons, List.sum_cons]
    omega

/-- every sweep a script causes happens at a second the clock has reached by the end of the script -/
theorem runTrace_ticks_le (cfg : Cfg) (s : Sys) (ops : List Op) :
    ∀ t, IdleEv.tick t ∈ runTrace cfg s ops → t ≤ (s.run cfg ops).now := by
  induction ops generalizing s with
  | nil => intro t ht; simp [runTrace] at ht
  | cons op rest ih =>
    intro t ht
    simp only [runTrace, List.mem_append] at ht
    rw [run_cons]
    rcases ht with ht | ht
    · have hstep : t = (s.step cfg op).now := by
        unfold stepTrace at ht
        rw [List.mem_append] at ht
        rcases ht with ht | ht
        · cases op with
          | tick n =>
            simp only at ht
            split at ht
            · simp at ht
            · simp at ht
              rw [step_now]; simp [Op.dt, ht]
          | _ => simp at ht
        · unfold settleTrace at ht
          split at ht
          · simp at ht
          · split at ht <;> simp at ht
      rw [hstep, run_now]
      have : (0 : Int) ≤ (dur rest : Int) := Int.natCast_nonneg _
      omega
    · exact ih _ t ht

theorem runTrace_append (cfg : Cfg) (s : Sys) (l1 l2 : List Op) :
    runTrace cfg s (l1 ++ l2) = runTrace cfg s l1 ++ runTrace cfg (s.run cfg l1) l2 := by
  induction l1 generalizing s with
  | nil => rfl
  | cons op rest ih => simp only [List.cons_append, runTrace, run_cons, ih, List.append_assoc]

theorem closedBy_none (a : Int) : ClosedBy a none := fun c h => by cases h

/-- system-level liveness, in the form used by the property theorem -/
theorem sys_idle_closed (cfg : Cfg) (s : Sys) (i : Nat) (c : Conn) (hwf : s.WF) (hc : s.conn i = some c)
    (hr : c.Rest) (hx : s.exited = false)
    (ops1 ops2 ops3 : List Op) (n1 n2 : Nat)
    (hf1 : ∀ op ∈ ops1, op.foreign i) (hf2 : ∀ op ∈ ops2, op.foreign i) (hf3 : ∀ op ∈ ops3, op.foreign i)
    (ha : c.deadline cfg < s.now + dur ops1 + n1) (hb : lingerTimeoutH1 < (dur ops2 : Int) + n2) :
    (s.run cfg (ops1 ++ [.tick n1] ++ ops2 ++ [.tick n2] ++ ops3)).conn i = none := by
  have hib : i ∉ s.backlog := by
    intro h
    have := hwf.disjoint i h
    simp only [Sys.conn] at hc
    rw [hc] at this; cases this
  have hx0 : s.exited = true → s.conns = [] := fun h => by rw [hx] at h; cases h
  have hft : ∀ n, (Op.tick n).foreign i := fun n => by simp [Op.foreign, Op.client]
  -- phase 1: up to the decisive tick
  have r1 := run_conn cfg s ops1 i hwf hib hx0 hf1
  generalize hs1 : s.run cfg ops1 = s1 at r1
  have hnow1 : s1.now = s.now + dur ops1 := by rw [← hs1]; exact run_now cfg s ops1
  let a : Int := s1.now + n1
  have r1' := step_conn cfg s1 (.tick n1) i r1.1 r1.2.1 (hft n1)
  generalize hs1' : s1.step cfg (.tick n1) = s1' at r1'
  have hnow1' : s1'.now = a := by rw [← hs1']; rw [step_now]; rfl
  have hclosed1 : ClosedBy a (s1'.conn i) := by
    rcases r1'.2.2.1 with h | h
    · rw [h]; exact closedBy_none a
    · rw [h]
      by_cases hex : s1.exited = true
      · have : s1.conn i = none := by simp [Sys.conn, r1.2.2.2 hex, lookupConn]
        rw [this, runIdle_none]; exact closedBy_none a
      · rcases r1.2.2.1 with h1 | h1
        · rw [h1, runIdle_none]; exact closedBy_none a
        · rw [h1, hc]
          have hw : Waiting cfg (c.deadline cfg) a (some c) := by
            intro c0 h0
            cases h0
            refine ⟨hr, ?_⟩
            by_cases hs : c.st = .close
            · refine Or.inr ⟨hs, ?_⟩
              have hd : c.deadline cfg < a := by show _ < s1.now + n1; rw [hnow1]; exact ha
              simp only [Conn.deadline, hs] at hd
              have : (0 : Int) ≤ lingerTimeoutH1 := by decide
              omega
            · exact Or.inl ⟨hs, rfl⟩
          have hticks : ∀ t, IdleEv.tick t ∈ runTrace cfg s ops1 → t ≤ a := by
            intro t ht
            have := runTrace_ticks_le cfg s ops1 t ht
            rw [hs1] at this
            have : (0 : Int) ≤ (n1 : Int) := Int.natCast_nonneg _
            show t ≤ s1.now + n1
            omega
          have hw1 := waiting_run cfg (c.deadline cfg) a (some c) (runTrace cfg s ops1) hticks hw
          have hst : stepTrace cfg s1 (.tick n1) = [.tick a] ++ settleTrace cfg (s1.act cfg (.tick n1)) := by
            simp [stepTrace, hex]; rfl
          rw [hst, runIdle_append]
          have hd : c.deadline cfg < a := by show _ < s1.now + n1; rw [hnow1]; exact ha
          exact closedBy_run cfg a _ _ (waiting_tick cfg _ a _ hd hw1)
  -- phase 2: lingering
  have r2 := run_conn cfg s1' ops2 i r1'.1 r1'.2.1 r1'.2.2.2 hf2
  generalize hs2 : s1'.run cfg ops2 = s2 at r2
  have hnow2 : s2.now = a + dur ops2 := by rw [← hs2, run_now, hnow1']
  have hclosed2 : ClosedBy a (s2.conn i) := by
    rcases r2.2.2.1 with h | h
    · rw [h]; exact closedBy_none a
    · rw [h]; exact closedBy_run cfg a _ _ hclosed1
  -- the second tick
  have r2' := step_conn cfg s2 (.tick n2) i r2.1 r2.2.1 (hft n2)
  generalize hs2' : s2.step cfg (.tick n2) = s2' at r2'
  have hnone : s2'.conn i = none := by
    rcases r2'.2.2.1 with h | h
    · exact h
    · rw [h]
      by_cases hex : s2.exited = true
      · have : s2.conn i = none := by simp [Sys.conn, r2.2.2.2 hex, lookupConn]
        rw [this, runIdle_none]
      · have hst : stepTrace cfg s2 (.tick n2) = [.tick (s2.now + n2)] ++ settleTrace cfg (s2.act cfg (.tick n2)) := by
          simp [stepTrace, hex]
        rw [hst, runIdle_append]
        have hbb : a + lingerTimeoutH1 < s2.now + n2 := by rw [hnow2]; omega
        rw [closedBy_tick cfg a (s2.now + n2) _ hbb hclosed2, runIdle_none]
  -- the rest
  have hfinal := run_conn_none cfg s2' ops3 i r2'.1 r2'.2.1 r2'.2.2.2 hf3 hnone
  have : s.run cfg (ops1 ++ [.tick n1] ++ ops2 ++ [.tick n2] ++ ops3) = s2'.run cfg ops3 := by
    rw [run_append, run_append, run_append, run_append, hs1]
    simp only [Sys.run, List.foldl_cons, List.foldl_nil] at hs1' hs2 hs2' ⊢
    rw [hs1', hs2, hs2']
  rw [this]
  exact hfinal

/-! ## every connection of a reachable state is at rest -/

theorem rest_toClose (now : Int) (c c' : Conn) (h : toClose now c = some c') : c'.Rest := by
  unfold toClose at h
  split at h
  · cases h
  · cases h; exact Or.inr (Or.inr (Or.inr rfl))

theorem rest_finishResponse (now : Int) (c c' : Conn) (h : finishResponse now c = some c') : c'.Rest := by
  unfold finishResponse at h
  split at h
  · cases h; exact Or.inl ⟨rfl, rfl⟩
  · exact rest_toClose now c c' h

theorem rest_respond (cfg : Cfg) (now : Int) (hnow : now ≠ 0) (c : Conn) (st : Nat) (big comp ka : Bool) (c' : Conn)
    (h : (respond cfg now c st big comp ka).1 = some c') : c'.Rest := by
  unfold respond at h
  simp only at h
  split at h
  · cases h; exact Or.inr (Or.inr (Or.inl ⟨rfl, rfl, hnow⟩))
  · exact rest_finishResponse now _ c' h

theorem rest_bodyStep (cfg : Cfg) (now : Int) (hnow : now ≠ 0) (c : Conn) (add : Nat) (c' : Conn)
    (h : (bodyStep cfg now c add).1 = some c') : c'.Rest := by
  unfold bodyStep at h
  simp only at h
  split at h
  · exact rest_respond cfg now hnow _ _ _ _ _ c' h
  · split at h
    · exact rest_respond cfg now hnow _ _ _ _ _ c' h
    · cases h; exact Or.inr (Or.inl ⟨rfl, rfl⟩)
  · split at h
    · exact rest_respond cfg now hnow _ _ _ _ _ c' h
    · split at h
      · exact rest_respond cfg now hnow _ _ _ _ _ c' h
      · cases h; exact Or.inr (Or.inl ⟨rfl, rfl⟩)

theorem rest_recv (cfg : Cfg) (now : Int) (hnow : now ≠ 0) (c : Conn) (r : Req) (n : Nat) (hr : c.Rest) (c' : Conn)
    (h : (recv cfg now c r n).1 = some c') : c'.Rest := by
  unfold recv at h
  split at h
  · rename_i hs
    have hi : c.inEv = true := by
      rcases hr with ⟨_, hi⟩ | ⟨hs', _⟩ | ⟨hs', _⟩ | hs'
      · exact hi
      all_goals (rw [hs] at hs'; cases hs')
    simp only at h
    split at h
    · split at h
      · exact rest_respond cfg now hnow _ _ _ _ _ c' h
      · cases h; exact Or.inl ⟨hs, hi⟩
    · split at h
      · exact rest_respond cfg now hnow _ _ _ _ _ c' h
      · split at h
        · exact rest_respond cfg now hnow _ _ _ _ _ c' h
        · split at h
          · exact rest_respond cfg now hnow _ _ _ _ _ c' h
          · exact rest_bodyStep cfg now hnow _ _ c' h
        · exact rest_bodyStep cfg now hnow _ _ c' h
  · exact rest_bodyStep cfg now hnow _ _ c' h
  · cases h; exact hr

theorem rest_clientRead (now : Int) (hnow : now ≠ 0) (c : Conn) (hr : c.Rest) : (clientRead now c).Rest := by
  unfold clientRead
  split
  · rename_i hs
    rcases hr with ⟨hs', _⟩ | ⟨hs', _⟩ | ⟨_, hi, _⟩ | hs'
    · rw [hs] at hs'; cases hs'
    · rw [hs] at hs'; cases hs'
    · exact Or.inr (Or.inr (Or.inl ⟨hs, hi, hnow⟩))
    · rw [hs] at hs'; cases hs'
  · exact hr

theorem rest_clientDrain (now : Int) (c : Conn) (hr : c.Rest) (c' : Conn) (h : clientDrain now c = some c') :
    c'.Rest := by
  unfold clientDrain at h
  split at h
  · exact rest_finishResponse now _ c' h
  · cases h; exact hr

theorem rest_finConn (full : Bool) (c : Conn) (hr : c.Rest) (c' : Conn) (h : finConn full c = some c') : c'.Rest := by
  unfold finConn at h
  split at h
  · rename_i hs
    cases h
    rcases hr with ⟨hs', _⟩ | ⟨hs', _⟩ | ⟨_, hi, hw⟩ | hs'
    · rw [hs.1] at hs'; cases hs'
    · rw [hs.1] at hs'; cases hs'
    · exact Or.inr (Or.inr (Or.inl ⟨hs.1, hi, hw⟩))
    · rw [hs.1] at hs'; cases hs'
  · cases h

theorem rest_tickConn (cfg : Cfg) (now : Int) (c : Conn) (hr : c.Rest) (c' : Conn) (h : tickConn cfg now c = some c') :
    c'.Rest := by
  unfold tickConn at h
  simp only at h
  split at h
  · split at h
    · cases h
    · exact rest_toClose now c c' h
  · cases h; exact hr

theorem rest_gracefulConn (e : Bool) (c : Conn) (hr : c.Rest) (c' : Conn) (h : gracefulConn e c = some c') :
    c'.Rest := by
  rcases gracefulConn_cases e c with h' | ⟨h', _⟩
  · rw [h'] at h; cases h
  · rw [h'] at h; cases h
    simpa [Conn.Rest] using hr

/-- every connection is at rest -/
def Sys.AllRest (s : Sys) : Prop := ∀ j c, s.conn j = some c → c.Rest

theorem allRest_release (s : Sys) (j : Nat) (hw : s.WF) (h : s.AllRest) : (s.release j).AllRest := by
  intro k c hk
  by_cases hkj : j = k
  · subst hkj; rw [release_conn_self s j hw] at hk; cases hk
  · rw [release_conn_ne s k j hkj] at hk; exact h k c hk

theorem allRest_putConn (s : Sys) (j : Nat) (r : CRes) (c0 : Conn) (hw : s.WF) (h : s.AllRest)
    (hc : s.conn j = some c0) (hr : ∀ c', r.1 = some c' → c'.Rest) : (s.putConn j r).AllRest := by
  intro k c hk
  by_cases hkj : j = k
  · subst hkj
    rw [putConn_conn_self s j r c0 hw hc] at hk
    exact hr c hk
  · rw [putConn_conn_ne s k j r hkj] at hk; exact h k c hk

theorem allRest_onConn (s : Sys) (j : Nat) (f : Conn → CRes) (hw : s.WF) (h : s.AllRest)
    (hf : ∀ c, c.Rest → ∀ c', (f c).1 = some c' → c'.Rest) : (s.onConn j f).AllRest := by
  unfold Sys.onConn
  split
  · exact h
  · rename_i c hc
    exact allRest_putConn s j (f c) c hw h hc (hf c (h j c hc))

theorem allRest_sweep (s : Sys) (f : Conn → Option Conn) (hw : s.WF) (h : s.AllRest)
    (hf : ∀ c, c.Rest → ∀ c', f c = some c' → c'.Rest) : (s.sweep f).AllRest := by
  intro k c hk
  rw [(sweep_conn s f k hw).1] at hk
  cases hc : s.conn k with
  | none => rw [hc] at hk; cases hk
  | some c0 => rw [hc] at hk; exact hf c0 (h k c0 hc) c hk

theorem allRest_act (cfg : Cfg) (s : Sys) (op : Op) (hw : s.WF) (hn : 0 < s.now) (h : s.AllRest) :
    (s.act cfg op).AllRest := by
  have hnow : s.now ≠ 0 := by omega
  cases op with
  | tick n =>
    simp only [Sys.act]
    split
    · exact h
    · exact allRest_sweep _ _ ⟨hw.keysNodup, hw.backlogNodup, hw.disjoint⟩ h
        (fun c hr c' hc => rest_tickConn cfg _ c hr c' hc)
  | open_ j => simp only [Sys.act]; repeat' (first | exact h | split)
  | prepare j r => simp only [Sys.act]; repeat' (first | exact h | split)
  | send j n =>
    simp only [Sys.act]
    repeat' (first
      | exact h
      | exact allRest_onConn _ _ _ (wf_modClient _ _ _ hw) h (fun c hr c' hc => rest_recv cfg _ hnow c _ _ hr c' hc)
      | split)
  | read j =>
    simp only [Sys.act]
    split
    · exact h
    · have := allRest_onConn s j (fun c => (some (clientRead s.now c), [])) hw h
        (fun c hr c' hc => by cases hc; exact rest_clientRead s.now hnow c hr)
      exact this
  | drain j =>
    simp only [Sys.act]
    split
    · exact h
    · have := allRest_onConn s j (fun c => (clientDrain s.now c, [])) hw h
        (fun c hr c' hc => rest_clientDrain s.now c hr c' hc)
      exact this
  | fin j =>
    simp only [Sys.act]
    repeat' (first
      | exact h
      | exact allRest_onConn _ _ _ hw h (fun c hr c' hc => rest_finConn false c hr c' hc)
      | split)
  | close j =>
    simp only [Sys.act]
    repeat' (first
      | exact h
      | exact allRest_onConn _ _ _ (wf_modClient _ _ _ hw) h (fun c hr c' hc => rest_finConn true c hr c' hc)
      | split)
  | graceful => simp only [Sys.act]; repeat' (first | exact h | split)
  | wake => exact h

theorem allRest_accept (cfg : Cfg) (s : Sys) (j : Nat) (hw : s.WF) (hn : 0 < s.now) (h : s.AllRest)
    (hjn : s.conn j = none) (hjb : j ∉ s.backlog) :
    (Sys.accept cfg s j).WF ∧ (Sys.accept cfg s j).AllRest := by
  have hnow : s.now ≠ 0 := by omega
  have hwf := (accept_frame cfg s j (j + 1) hw (by omega) hjn hjb).1
  refine ⟨hwf, ?_⟩
  have hpw : (s.pushConn j { rts := s.now }).WF := by
    refine ⟨?_, hw.backlogNodup, ?_⟩
    · show (keys ((j, _) :: s.conns)).Nodup
      simp only [keys, List.map_cons, List.nodup_cons]
      refine ⟨?_, hw.keysNodup⟩
      have := (lookup_none_iff s.conns j).mp hjn
      simpa [keys] using this
    · intro k hk
      show lookupConn ((j, _) :: s.conns) k = none
      have hkj : j ≠ k := fun h => hjb (h ▸ hk)
      simp only [lookupConn, hkj, if_false]
      exact hw.disjoint k hk
  have hpc : (s.pushConn j { rts := s.now }).conn j = some { rts := s.now } := by
    show lookupConn ((j, _) :: s.conns) j = _
    simp [lookupConn]
  have hpr : (s.pushConn j { rts := s.now }).AllRest := by
    intro k c hk
    have hk' : lookupConn ((j, ({ rts := s.now } : Conn)) :: s.conns) k = some c := hk
    unfold lookupConn at hk'
    split at hk'
    · cases hk'; exact Or.inl ⟨rfl, rfl⟩
    · exact h k c hk'
  unfold Sys.accept
  simp only
  split
  · exact allRest_release _ j hpw hpr
  · unfold Sys.acceptData
    simp only
    have h1 : ((s.pushConn j { rts := s.now }).acceptBytes cfg j (s.client j) { rts := s.now }).WF ∧
        ((s.pushConn j { rts := s.now }).acceptBytes cfg j (s.client j) { rts := s.now }).AllRest := by
      unfold Sys.acceptBytes
      split
      · split
        · refine ⟨wf_putConn _ _ _ hpw, allRest_putConn _ j _ _ hpw hpr hpc ?_⟩
          intro c' hc'
          exact rest_recv cfg s.now hnow _ _ _ (Or.inl ⟨rfl, rfl⟩) c' hc'
        · exact ⟨hpw, hpr⟩
      · exact ⟨hpw, hpr⟩
    split
    · exact allRest_onConn _ j _ h1.1 h1.2 (fun c hr c' hc => rest_finConn false c hr c' hc)
    · exact h1.2

theorem acceptMany_good (cfg : Cfg) (k : Nat) (s : Sys) (hw : s.WF) (hn : 0 < s.now) (h : s.AllRest) :
    (acceptMany cfg k s).WF ∧ (acceptMany cfg k s).AllRest := by
  induction k generalizing s with
  | zero => exact ⟨hw, h⟩
  | succ k ih =>
    unfold acceptMany
    split
    · exact ⟨hw, h⟩
    · rename_i j rest hb
      have hnd : (j :: rest).Nodup := hb ▸ hw.backlogNodup
      have hj : j ∉ rest := (List.nodup_cons.mp hnd).1
      have hwf1 : ({ s with backlog := rest } : Sys).WF :=
        ⟨hw.keysNodup, (List.nodup_cons.mp hnd).2, fun k hk => hw.disjoint k (by rw [hb]; exact List.mem_cons_of_mem _ hk)⟩
      have hjn : ({ s with backlog := rest } : Sys).conn j = none :=
        hw.disjoint j (by rw [hb]; exact List.mem_cons_self)
      have ha := allRest_accept cfg { s with backlog := rest } j hwf1 hn h hjn hj
      have hn' : 0 < (Sys.accept cfg { s with backlog := rest } j).now := by
        rw [(accept_spec cfg _ _).now]; exact hn
      exact ih _ ha.1 hn' ha.2

theorem admitLoop_good (cfg : Cfg) (k : Nat) (s : Sys) (hw : s.WF) (hn : 0 < s.now) (h : s.AllRest) :
    (admitLoop cfg k s).WF ∧ (admitLoop cfg k s).AllRest := by
  induction k generalizing s with
  | zero => exact ⟨hw, h⟩
  | succ k ih =>
    unfold admitLoop
    have h1 : (s.round cfg).WF ∧ (s.round cfg).AllRest ∧ 0 < (s.round cfg).now := by
      unfold Sys.round
      simp only
      have hwf1 : ({ s with disabled := loadCheck s.curFds cfg.lowat cfg.hiwat s.lim s.disabled } : Sys).WF :=
        ⟨hw.keysNodup, hw.backlogNodup, hw.disjoint⟩
      split
      · have := acceptMany_good cfg (acceptCount s.lim) _ hwf1 hn h
        exact ⟨this.1, this.2, by rw [acceptMany_now]; exact hn⟩
      · exact ⟨hwf1, h, hn⟩
    exact ih _ h1.1 h1.2.2 h1.2.1

theorem gracefulStart_conns (cfg : Cfg) (s : Sys) : (s.gracefulStart cfg).conns = s.conns := by
  unfold Sys.gracefulStart
  split
  · rfl
  · exact (resetBacklog_frame s).1

theorem mem_le_sum (l : List Nat) (x : Nat) (h : x ∈ l) : x ≤ l.sum := by
  induction l with
  | nil => cases h
  | cons y ys ih =>
    simp only [List.sum_cons]
    rcases List.mem_cons.mp h with rfl | h
    · omega
    · have := ih h; omega

/-- there is always a client id that is neither waiting nor the one acting -/
theorem exists_fresh (l : List Nat) (op : Op) : ∃ i, i ∉ l ∧ op.foreign i := by
  refine ⟨l.sum + op.client.getD 0 + 1, ?_, ?_⟩
  · intro h; have := mem_le_sum l _ h; omega
  · unfold Op.foreign
    cases hc : op.client with
    | none => simp
    | some j => simp; omega

/-- the liveness theorem's requirements on a state: consistent tables, a clock past zero (0 means
    "unset" for write_request_ts), a returned main loop serves nothing, every connection at rest -/
structure Sys.Good (s : Sys) : Prop where
  wf : s.WF
  now : 0 < s.now
  halted : s.exited = true → s.conns = []
  rest : s.AllRest

theorem good_step (cfg : Cfg) (s : Sys) (op : Op) (h : s.Good) : (s.step cfg op).Good := by
  obtain ⟨i, hib, hf⟩ := exists_fresh s.backlog op
  have hstep := step_conn cfg s op i h.wf hib hf
  have hact := act_conn cfg s op i h.wf hib hf
  have hra := allRest_act cfg s op h.wf h.now h.rest
  have hna : 0 < (s.act cfg op).now := by
    rw [act_now]; have := h.now; have : (0 : Int) ≤ (op.dt : Int) := Int.natCast_nonneg _; omega
  refine ⟨hstep.1, ?_, hstep.2.2.2, ?_⟩
  · rw [step_now]; have := h.now; have : (0 : Int) ≤ (op.dt : Int) := Int.natCast_nonneg _; omega
  · -- every connection after the main loop's reaction is at rest
    unfold Sys.step
    generalize s.act cfg op = s1 at hact hra hna ⊢
    have hhalt : ∀ t : Sys, t.AllRest → t.halt.AllRest := by
      intro t ht
      unfold Sys.halt
      split
      · intro k c hk; simp [Sys.conn, lookupConn] at hk
      · exact ht
    have hmark : ∀ t : Sys, t.AllRest → t.markAccepted.AllRest := by
      intro t ht k c hk
      simp only [Sys.conn, (markAccepted_frame t).1] at hk
      exact ht k c hk
    unfold Sys.settle
    split
    · exact hhalt s1 hra
    · apply hmark
      apply hhalt
      unfold Sys.loopToRest
      split
      · unfold Sys.gracefulPass
        simp only
        have hw1 : (s1.gracefulStart cfg).WF := by
          obtain ⟨i2, hib2, _⟩ := exists_fresh s1.backlog .wake
          exact (gracefulStart_frame cfg s1 i2 hact.1 hib2).1
        have hr1 : (s1.gracefulStart cfg).AllRest := by
          intro k c hk
          simp only [Sys.conn, gracefulStart_conns] at hk
          exact hra k c hk
        have := allRest_sweep (s1.gracefulStart cfg) (gracefulConn (s1.gracefulStart cfg).expired) hw1 hr1
          (fun c hr c' hc => rest_gracefulConn _ c hr c' hc)
        unfold Sys.exitIfIdle
        split
        · intro k c hk; exact this k c hk
        · exact this
      · exact (admitLoop_good cfg _ s1 hact.1 hna hra).2

theorem good_run (cfg : Cfg) (s : Sys) (ops : List Op) (h : s.Good) : (s.run cfg ops).Good := by
  induction ops generalizing s with
  | nil => exact h
  | cons op rest ih => rw [run_cons]; exact ih _ (good_step cfg s op h)

theorem good_init (cfg : Cfg) : (Sys.init cfg).Good := by
  refine ⟨⟨List.nodup_nil, List.nodup_nil, ?_⟩, by simp [Sys.init, base], fun _ => rfl, ?_⟩
  · intro j hj; exact absurd hj List.not_mem_nil
  · intro k c hk; simp [Sys.conn, Sys.init, lookupConn] at hk

/-! ## descriptors and keys under the slot-neutral operations -/

/-- descriptors in use that are not client connections -/
def Sys.fdsBase (s : Sys) : Int := s.curFds - s.conns.length

/-- what the slot-neutral operations also keep: descriptor accounting, and no new client is served -/
structure Tame (s s' : Sys) : Prop where
  fds : s'.fdsBase = s.fdsBase
  keysSub : ∀ k, k ∈ keys s'.conns → k ∈ keys s.conns

theorem Tame.refl (s : Sys) : Tame s s := ⟨rfl, fun _ h => h⟩
theorem Tame.trans {a b c : Sys} (h1 : Tame a b) (h2 : Tame b c) : Tame a c :=
  ⟨h2.fds.trans h1.fds, fun k h => h1.keysSub k (h2.keysSub k h)⟩

theorem tame_modClient (s : Sys) (i : Nat) (f : Client → Client) : Tame s (s.modClient i f) := ⟨rfl, fun _ h => h⟩

theorem tame_release (s : Sys) (i : Nat) : Tame s (s.release i) := by
  unfold Sys.release
  split
  · exact Tame.refl s
  · rename_i c h
    have hl := eraseConn_length s.conns i c h
    refine ⟨?_, fun k hk => (keys_eraseConn_sublist s.conns i).subset hk⟩
    simp only [Sys.fdsBase]
    omega

theorem tame_putConn (s : Sys) (i : Nat) (r : CRes) : Tame s (s.putConn i r) := by
  unfold Sys.putConn
  split
  · exact (tame_modClient s i _).trans ((tame_release _ i).trans (tame_modClient _ i _))
  · split <;>
      exact ⟨by simp [Sys.fdsBase, Sys.modClient, Sys.setClient, setConn_length],
             fun k hk => by simpa [Sys.modClient, Sys.setClient, keys_setConn] using hk⟩

theorem tame_onConn (s : Sys) (i : Nat) (f : Conn → CRes) : Tame s (s.onConn i f) := by
  unfold Sys.onConn
  split
  · exact Tame.refl s
  · exact tame_putConn s i _

theorem tame_foldl {α : Type} (f : Sys → α → Sys) (hf : ∀ s x, Tame s (f s x)) (l : List α) (s : Sys) :
    Tame s (l.foldl f s) := by
  induction l generalizing s with
  | nil => exact Tame.refl s
  | cons x xs ih => exact (hf s x).trans (ih (f s x))

theorem tame_sweep (s : Sys) (f : Conn → Option Conn) : Tame s (s.sweep f) := by
  unfold Sys.sweep
  apply tame_foldl
  intro s p
  split <;> exact tame_putConn s _ _

theorem tame_markAccepted (s : Sys) : Tame s s.markAccepted := by
  unfold Sys.markAccepted
  apply tame_foldl
  intro s p
  exact tame_modClient s _ _

theorem tame_resetBacklog (s : Sys) : Tame s s.resetBacklog := by
  unfold Sys.resetBacklog
  apply tame_foldl
  intro s i
  exact tame_modClient s i _

/-! ## the accept loop settles -/

theorem putConn_length (s : Sys) (i : Nat) (r : CRes) (c0 : Conn) (hc : s.conn i = some c0) :
    (s.putConn i r).conns.length = (if r.1.isSome then s.conns.length else s.conns.length - 1) := by
  unfold Sys.putConn
  split
  · rename_i hr
    simp only [hr, Option.isSome_none, Bool.false_eq_true, if_false]
    show ((s.modClient i _).release i).conns.length = _
    unfold Sys.release
    have hc' : lookupConn (s.modClient i fun cl => { cl with inbox := cl.inbox ++ r.2 }).conns i = some c0 := hc
    rw [hc']
    have := eraseConn_length s.conns i c0 hc
    show (eraseConn s.conns i).length = s.conns.length - 1
    omega
  · rename_i c hr
    simp only [hr, Option.isSome_some, if_true]
    split <;> simp [Sys.modClient, Sys.setClient, setConn_length]

/-- accepting never shrinks the connection table (a connection that dies on arrival gives back exactly
    the slot it took) -/
theorem accept_conns_ge (cfg : Cfg) (s : Sys) (j : Nat) (hw : s.WF) (hjn : s.conn j = none) (hjb : j ∉ s.backlog) :
    s.conns.length ≤ (Sys.accept cfg s j).conns.length := by
  have hpw : (s.pushConn j { rts := s.now }).WF := by
    refine ⟨?_, hw.backlogNodup, ?_⟩
    · show (keys ((j, _) :: s.conns)).Nodup
      simp only [keys, List.map_cons, List.nodup_cons]
      refine ⟨?_, hw.keysNodup⟩
      have := (lookup_none_iff s.conns j).mp hjn
      simpa [keys] using this
    · intro k hk
      show lookupConn ((j, _) :: s.conns) k = none
      have hkj : j ≠ k := fun h => hjb (h ▸ hk)
      simp only [lookupConn, hkj, if_false]
      exact hw.disjoint k hk
  have hpc : (s.pushConn j { rts := s.now }).conn j = some { rts := s.now } := by
    show lookupConn ((j, _) :: s.conns) j = _
    simp [lookupConn]
  have hpl : (s.pushConn j { rts := s.now }).conns.length = s.conns.length + 1 := by
    simp [Sys.pushConn]
  unfold Sys.accept
  simp only
  split
  · -- dead on arrival
    have : ((s.pushConn j { rts := s.now }).release j).conns.length + 1 = (s.pushConn j { rts := s.now }).conns.length := by
      unfold Sys.release
      have hc' : lookupConn (s.pushConn j { rts := s.now }).conns j = some { rts := s.now } := hpc
      rw [hc']
      exact eraseConn_length _ j _ hc'
    omega
  · unfold Sys.acceptData
    simp only
    -- the bytes already queued
    have h1 : ((s.pushConn j { rts := s.now }).acceptBytes cfg j (s.client j) { rts := s.now }).WF ∧
        ((((s.pushConn j { rts := s.now }).acceptBytes cfg j (s.client j) { rts := s.now }).conn j = none ∧
          ((s.pushConn j { rts := s.now }).acceptBytes cfg j (s.client j) { rts := s.now }).conns.length = s.conns.length) ∨
         ((((s.pushConn j { rts := s.now }).acceptBytes cfg j (s.client j) { rts := s.now }).conn j).isSome ∧
          ((s.pushConn j { rts := s.now }).acceptBytes cfg j (s.client j) { rts := s.now }).conns.length = s.conns.length + 1)) := by
      unfold Sys.acceptBytes
      split
      · rename_i r hreq
        split
        · refine ⟨wf_putConn _ _ _ hpw, ?_⟩
          have hl := putConn_length (s.pushConn j { rts := s.now }) j
            (recv cfg (s.pushConn j { rts := s.now }).now { rts := s.now } r (s.client j).pre) _ hpc
          have hs := putConn_conn_self (s.pushConn j { rts := s.now }) j
            (recv cfg (s.pushConn j { rts := s.now }).now { rts := s.now } r (s.client j).pre) _ hpw hpc
          rw [hs]
          cases hr : (recv cfg (s.pushConn j { rts := s.now }).now { rts := s.now } r (s.client j).pre).1 with
          | none => left; rw [hr] at hl; simp at hl; exact ⟨rfl, by omega⟩
          | some c' => right; rw [hr] at hl; simp at hl; exact ⟨rfl, by omega⟩
        · refine ⟨hpw, Or.inr ?_⟩; rw [hpc]; exact ⟨rfl, hpl⟩
      · refine ⟨hpw, Or.inr ?_⟩; rw [hpc]; exact ⟨rfl, hpl⟩
    generalize (s.pushConn j { rts := s.now }).acceptBytes cfg j (s.client j) { rts := s.now } = t at h1
    obtain ⟨htw, hcase⟩ := h1
    split
    · -- the client's FIN was queued as well
      unfold Sys.onConn
      rcases hcase with ⟨hn, hl⟩ | ⟨hs, hl⟩
      · rw [hn]; simp only; omega
      · cases hc : t.conn j with
        | none => rw [hc] at hs; cases hs
        | some c1 =>
          simp only
          have := putConn_length t j (finConn false c1, []) c1 hc
          rw [this]
          split <;> omega
    · rcases hcase with ⟨_, hl⟩ | ⟨_, hl⟩ <;> omega

theorem tame_acceptBytes (cfg : Cfg) (s : Sys) (i : Nat) (cl : Client) (c0 : Conn) :
    Tame s (s.acceptBytes cfg i cl c0) := by
  unfold Sys.acceptBytes
  split
  · split
    · exact tame_putConn s i _
    · exact Tame.refl s
  · exact Tame.refl s

theorem accept_fdsBase (cfg : Cfg) (s : Sys) (j : Nat) : (Sys.accept cfg s j).fdsBase = s.fdsBase := by
  have hp : (s.pushConn j { rts := s.now }).fdsBase = s.fdsBase := by
    simp only [Sys.fdsBase, Sys.pushConn, List.length_cons]; omega
  unfold Sys.accept
  simp only
  split
  · rw [(tame_release _ j).fds, hp]
  · unfold Sys.acceptData
    simp only
    split
    · rw [((tame_acceptBytes cfg _ j _ _).trans (tame_onConn _ j _)).fds, hp]
    · rw [(tame_acceptBytes cfg _ j _ _).fds, hp]

/-- nobody waits in the listen queue without a reason: at rest a waiting client means that there is no
    free slot or that the descriptors in use have not yet fallen below the low watermark -/
def Sys.NoIdleWait (cfg : Cfg) (s : Sys) : Prop :=
  s.backlog ≠ [] → s.lim = 0 ∨ cfg.lowat ≤ s.curFds

/-- what the accept loop can only do: take clients from the queue, use slots, use descriptors -/
structure Admits (s s' : Sys) : Prop where
  wf : s'.WF
  total : s'.total = s.total
  fds : s'.fdsBase = s.fdsBase
  conns : s.conns.length ≤ s'.conns.length
  backlog : s'.backlog.length ≤ s.backlog.length
  graceful : s'.graceful = s.graceful
  exited : s'.exited = s.exited

theorem Admits.refl (s : Sys) (h : s.WF) : Admits s s :=
  ⟨h, rfl, rfl, Nat.le_refl _, Nat.le_refl _, rfl, rfl⟩

theorem Admits.trans {a b c : Sys} (h1 : Admits a b) (h2 : Admits b c) : Admits a c :=
  ⟨h2.wf, h2.total.trans h1.total, h2.fds.trans h1.fds, Nat.le_trans h1.conns h2.conns,
   Nat.le_trans h2.backlog h1.backlog, h2.graceful.trans h1.graceful, h2.exited.trans h1.exited⟩

theorem Admits.lim_le {s s' : Sys} (h : Admits s s') : s'.lim ≤ s.lim := by
  have := h.total; have := h.conns; simp only [Sys.total] at *; omega

theorem Admits.curFds_ge {s s' : Sys} (h : Admits s s') : s.curFds ≤ s'.curFds := by
  have := h.fds; have := h.conns; simp only [Sys.fdsBase] at *; omega

theorem Admits.noIdleWait {cfg : Cfg} {s s' : Sys} (h : Admits s s') (hq : s.NoIdleWait cfg) : s'.NoIdleWait cfg := by
  intro hb
  have hb0 : s.backlog ≠ [] := by
    intro he
    have := h.backlog
    rw [he] at this
    simp at this
    exact hb this
  rcases hq hb0 with h0 | h0
  · left; have := h.lim_le; omega
  · right; have := h.curFds_ge; omega

theorem acceptMany_admits (cfg : Cfg) (k : Nat) (s : Sys) (hw : s.WF) (hk : k ≤ s.lim) :
    Admits s (acceptMany cfg k s) := by
  induction k generalizing s with
  | zero => exact Admits.refl s hw
  | succ k ih =>
    unfold acceptMany
    split
    · exact Admits.refl s hw
    · rename_i j rest hb
      have hnd : (j :: rest).Nodup := hb ▸ hw.backlogNodup
      have hj : j ∉ rest := (List.nodup_cons.mp hnd).1
      have hwf1 : ({ s with backlog := rest } : Sys).WF :=
        ⟨hw.keysNodup, (List.nodup_cons.mp hnd).2, fun k hk => hw.disjoint k (by rw [hb]; exact List.mem_cons_of_mem _ hk)⟩
      have hjn : ({ s with backlog := rest } : Sys).conn j = none :=
        hw.disjoint j (by rw [hb]; exact List.mem_cons_self)
      have hwa := (accept_frame cfg { s with backlog := rest } j (j + 1) hwf1 (by omega) hjn hj).1
      have h1 : Admits s (Sys.accept cfg { s with backlog := rest } j) := by
        refine ⟨hwa, ?_, ?_, ?_, ?_, ?_, ?_⟩
        · rw [accept_total cfg _ j (by simp; omega)]; rfl
        · rw [accept_fdsBase]; rfl
        · exact accept_conns_ge cfg { s with backlog := rest } j hwf1 hjn hj
        · rw [accept_backlog, hb]; simp
        · exact (accept_spec cfg _ _).graceful
        · exact (accept_spec cfg _ _).exited
      have hl := accept_lim_ge cfg { s with backlog := rest } j
      exact h1.trans (ih _ hwa (by simp at hl; omega))

theorem round_admits (cfg : Cfg) (s : Sys) (hw : s.WF) : Admits s (s.round cfg) := by
  unfold Sys.round
  simp only
  have hwf1 : ({ s with disabled := loadCheck s.curFds cfg.lowat cfg.hiwat s.lim s.disabled } : Sys).WF :=
    ⟨hw.keysNodup, hw.backlogNodup, hw.disjoint⟩
  split
  · have := acceptMany_admits cfg (acceptCount s.lim)
      { s with disabled := loadCheck s.curFds cfg.lowat cfg.hiwat s.lim s.disabled } hwf1 (acceptCount_le s.lim)
    exact ⟨this.wf, this.total, this.fds, this.conns, this.backlog, this.graceful, this.exited⟩
  · exact ⟨hwf1, rfl, rfl, Nat.le_refl _, Nat.le_refl _, rfl, rfl⟩

/-- while somebody waits although a slot and descriptors are free, every iteration lets at least one in -/
theorem round_progress (cfg : Cfg) (s : Sys) (hq : ¬ s.NoIdleWait cfg) :
    (s.round cfg).backlog.length < s.backlog.length := by
  unfold Sys.NoIdleWait at hq
  have hb : s.backlog ≠ [] := fun h => hq (fun h' => absurd h h')
  have hl : s.lim ≠ 0 := fun h => hq (fun _ => Or.inl h)
  have hf : s.curFds < cfg.lowat := by
    apply Decidable.byContradiction
    intro h
    exact hq (fun _ => Or.inr (by omega))
  have hh := lowat_le_hiwat cfg
  have hlc : loadCheck s.curFds cfg.lowat cfg.hiwat s.lim s.disabled = 0 := by
    unfold loadCheck
    by_cases hd : s.disabled = 0
    · have : ¬ (s.curFds > cfg.hiwat ∨ s.lim = 0) := by omega
      simp [hd, this]
    · simp [hd, hf, hl]
  obtain ⟨k, hk⟩ : ∃ k, acceptCount s.lim = k + 1 :=
    ⟨acceptCount s.lim - 1, by have := acceptCount_pos s.lim hl; omega⟩
  unfold Sys.round
  simp only [hlc, if_true]
  rw [hk]
  exact acceptMany_backlog_lt cfg k _ hb

/-- the fuel of `admitLoop` is enough: the loop ends in a state where nobody waits without a reason -/
theorem admitLoop_adequate (cfg : Cfg) (k : Nat) (s : Sys) (hw : s.WF)
    (hk : s.NoIdleWait cfg ∨ s.backlog.length ≤ k) :
    Admits s (admitLoop cfg k s) ∧ (admitLoop cfg k s).NoIdleWait cfg := by
  induction k generalizing s with
  | zero =>
    refine ⟨Admits.refl s hw, ?_⟩
    rcases hk with h | h
    · exact h
    · intro hb; exact absurd (List.length_eq_zero_iff.mp (Nat.le_zero.mp h)) hb
  | succ k ih =>
    unfold admitLoop
    have hr := round_admits cfg s hw
    have hnext : (s.round cfg).NoIdleWait cfg ∨ (s.round cfg).backlog.length ≤ k := by
      by_cases hq : s.NoIdleWait cfg
      · exact Or.inl (hr.noIdleWait hq)
      · right
        have := round_progress cfg s hq
        rcases hk with h | h
        · exact absurd h hq
        · omega
    have := ih (s.round cfg) hr.wf hnext
    exact ⟨hr.trans this.1, this.2⟩

/-! ## the invariants over whole scripts -/

theorem act_fdsBase (cfg : Cfg) (s : Sys) (op : Op) : (s.act cfg op).fdsBase = s.fdsBase := by
  cases op <;> simp only [Sys.act] <;>
    repeat' (first
      | exact (tame_onConn _ _ _).fds
      | exact (tame_sweep _ _).fds
      | exact ((tame_onConn _ _ _).trans (tame_modClient _ _ _)).fds
      | split
      | rfl)

theorem acceptMany_graceful (cfg : Cfg) (k : Nat) (s : Sys) :
    (acceptMany cfg k s).graceful = s.graceful ∧ (acceptMany cfg k s).exited = s.exited := by
  induction k generalizing s with
  | zero => exact ⟨rfl, rfl⟩
  | succ k ih =>
    unfold acceptMany
    split
    · exact ⟨rfl, rfl⟩
    · rename_i j rest hb
      have := ih (Sys.accept cfg { s with backlog := rest } j)
      exact ⟨this.1.trans (accept_spec cfg _ _).graceful, this.2.trans (accept_spec cfg _ _).exited⟩

theorem admitLoop_graceful (cfg : Cfg) (k : Nat) (s : Sys) :
    (admitLoop cfg k s).graceful = s.graceful ∧ (admitLoop cfg k s).exited = s.exited := by
  induction k generalizing s with
  | zero => exact ⟨rfl, rfl⟩
  | succ k ih =>
    unfold admitLoop
    have h := ih (s.round cfg)
    have hr : (s.round cfg).graceful = s.graceful ∧ (s.round cfg).exited = s.exited := by
      unfold Sys.round
      simp only
      split
      · exact acceptMany_graceful cfg _ _
      · exact ⟨rfl, rfl⟩
    exact ⟨h.1.trans hr.1, h.2.trans hr.2⟩

theorem gracefulPass_graceful (cfg : Cfg) (s : Sys) : (s.gracefulPass cfg).graceful = s.graceful := by
  unfold Sys.gracefulPass
  simp only
  have h1 : (s.gracefulStart cfg).graceful = s.graceful := by
    unfold Sys.gracefulStart
    split
    · rfl
    · have := (neutral_resetBacklog s).graceful
      simpa [Sys.closeListen] using this
  unfold Sys.exitIfIdle
  split
  · exact (neutral_sweep _ _).graceful.trans h1
  · exact (neutral_sweep _ _).graceful.trans h1

theorem settle_graceful_flag (cfg : Cfg) (s : Sys) : (s.settle cfg).graceful = s.graceful := by
  have hhalt : ∀ t : Sys, t.halt.graceful = t.graceful := by
    intro t; unfold Sys.halt; split <;> rfl
  unfold Sys.settle
  split
  · exact hhalt s
  · rw [(neutral_markAccepted _).graceful, hhalt]
    unfold Sys.loopToRest
    split
    · exact gracefulPass_graceful cfg s
    · exact (admitLoop_graceful cfg _ s).1

theorem markAccepted_same (s : Sys) : s.markAccepted.conns = s.conns ∧ s.markAccepted.backlog = s.backlog ∧
    s.markAccepted.lim = s.lim ∧ s.markAccepted.curFds = s.curFds := by
  have h1 := markAccepted_frame s
  have h2 := (neutral_markAccepted s).total
  have h3 := (tame_markAccepted s).fds
  refine ⟨h1.1, h1.2, ?_, ?_⟩
  · simp only [Sys.total, h1.1] at h2; omega
  · simp only [Sys.fdsBase, h1.1] at h3; omega

theorem act_graceful_true (cfg : Cfg) (s : Sys) (op : Op) (h : s.graceful = true) :
    (s.act cfg op).graceful = true := by
  cases op <;> simp only [Sys.act] <;> repeat' (first
    | exact h
    | rfl
    | exact (neutral_onConn _ _ _).graceful.trans h
    | exact (neutral_sweep _ _).graceful.trans h
    | exact ((neutral_onConn _ _ _).trans (neutral_modClient _ _ _)).graceful.trans h
    | split)

/-- after every step outside graceful shutdown the loop rests in a state where nobody waits without a
    reason, and the descriptor accounting is intact -/
theorem step_noIdleWait (cfg : Cfg) (s : Sys) (op : Op) (hg : s.Good)
    (hng : (s.step cfg op).graceful = false) (hne : (s.step cfg op).exited = false) :
    (s.step cfg op).NoIdleWait cfg ∧ (s.step cfg op).fdsBase = s.fdsBase := by
  obtain ⟨i, hib, hf⟩ := exists_fresh s.backlog op
  have hact := act_conn cfg s op i hg.wf hib hf
  have hfa := act_fdsBase cfg s op
  unfold Sys.step at hng hne ⊢
  generalize s.act cfg op = s1 at hact hfa hng hne ⊢
  have hg1 : s1.graceful = false := by rw [← settle_graceful_flag cfg s1]; exact hng
  have he1 : s1.exited = false := by
    cases h : s1.exited with
    | false => rfl
    | true => rw [settle_exited cfg s1 h] at hne; cases hne
  unfold Sys.settle
  rw [if_neg (by simp [he1])]
  have hl : s1.loopToRest cfg = admitLoop cfg (2 * s1.backlog.length + 3) s1 := by
    unfold Sys.loopToRest; simp [hg1]
  rw [hl]
  have had := admitLoop_adequate cfg (2 * s1.backlog.length + 3) s1 hact.1 (Or.inr (by omega))
  generalize admitLoop cfg (2 * s1.backlog.length + 3) s1 = s2 at had
  have he2 : s2.exited = false := had.1.exited.trans he1
  rw [halt_total_eq s2 he2]
  have hm := markAccepted_same s2
  constructor
  · intro hb
    rw [hm.2.1] at hb
    rw [hm.2.2.1, hm.2.2.2]
    exact had.2 hb
  · simp only [Sys.fdsBase, hm.1, hm.2.2.2]
    have := had.1.fds
    simp only [Sys.fdsBase] at this hfa
    omega

theorem run_noIdleWait (cfg : Cfg) (s : Sys) (ops : List Op) (hg : s.Good)
    (h0 : s.graceful = false → s.exited = false → s.NoIdleWait cfg ∧ s.fdsBase = cfg.cf)
    (hng : (s.run cfg ops).graceful = false) (hne : (s.run cfg ops).exited = false) :
    (s.run cfg ops).NoIdleWait cfg ∧ (s.run cfg ops).fdsBase = cfg.cf := by
  induction ops generalizing s with
  | nil => exact h0 hng hne
  | cons op rest ih =>
    rw [run_cons] at hng hne ⊢
    refine ih (s.step cfg op) (good_step cfg s op hg) ?_ hng hne
    intro hg1 he1
    have hs := step_noIdleWait cfg s op hg hg1 he1
    refine ⟨hs.1, ?_⟩
    rw [hs.2]
    -- the state before the step was neither stopping nor stopped either
    have hgs : s.graceful = false := by
      cases h : s.graceful with
      | false => rfl
      | true =>
        have : (s.step cfg op).graceful = true := by
          unfold Sys.step
          rw [settle_graceful_flag]
          exact act_graceful_true cfg s op h
        rw [this] at hg1; cases hg1
    have hes : s.exited = false := by
      cases h : s.exited with
      | false => rfl
      | true => rw [step_exited cfg s op h] at he1; cases he1
    exact (h0 hgs hes).2

/-! ## graceful stop over whole scripts -/

theorem act_expireTs (cfg : Cfg) (s : Sys) (op : Op) : (s.act cfg op).expireTs = s.expireTs := by
  cases op <;> simp only [Sys.act] <;> repeat' (first
    | rfl
    | exact (neutral_onConn _ _ _).expireTs
    | exact (neutral_sweep _ _).expireTs
    | exact ((neutral_onConn _ _ _).trans (neutral_modClient _ _ _)).expireTs
    | split)

theorem act_keysSub (cfg : Cfg) (s : Sys) (op : Op) : ∀ k, k ∈ keys (s.act cfg op).conns → k ∈ keys s.conns := by
  cases op <;> simp only [Sys.act] <;> repeat' (first
    | exact fun _ h => h
    | exact (tame_onConn _ _ _).keysSub
    | exact (tame_sweep _ _).keysSub
    | exact ((tame_onConn _ _ _).trans (tame_modClient _ _ _)).keysSub
    | split)

theorem settle_stopping_more (cfg : Cfg) (s : Sys) (h : Stopping s) :
    (s.settle cfg).expireTs = s.expireTs ∧ ∀ k, k ∈ keys (s.settle cfg).conns → k ∈ keys s.conns := by
  have hhalt : ∀ t : Sys, t.halt.expireTs = t.expireTs ∧ ∀ k, k ∈ keys t.halt.conns → k ∈ keys t.conns := by
    intro t; unfold Sys.halt; split
    · exact ⟨rfl, fun k hk => by simp [keys] at hk⟩
    · exact ⟨rfl, fun _ hk => hk⟩
  unfold Sys.settle
  split
  · exact hhalt s
  · have hm := neutral_markAccepted (s.loopToRest cfg).halt
    have hmk := (markAccepted_frame (s.loopToRest cfg).halt).1
    have hh := hhalt (s.loopToRest cfg)
    have hl : (s.loopToRest cfg).expireTs = s.expireTs ∧ ∀ k, k ∈ keys (s.loopToRest cfg).conns → k ∈ keys s.conns := by
      unfold Sys.loopToRest
      rw [if_pos h.graceful]
      unfold Sys.gracefulPass
      simp only [Sys.gracefulStart, h.disabled, if_true]
      unfold Sys.exitIfIdle
      split
      · exact ⟨(neutral_sweep _ _).expireTs, (tame_sweep _ _).keysSub⟩
      · exact ⟨(neutral_sweep _ _).expireTs, (tame_sweep _ _).keysSub⟩
    refine ⟨hm.expireTs.trans (hh.1.trans hl.1), ?_⟩
    intro k hk
    rw [hmk] at hk
    exact hl.2 k (hh.2 k hk)

/-- while stopping, every step keeps the deadline and serves no client it did not serve before -/
theorem step_stopping_more (cfg : Cfg) (s : Sys) (op : Op) (h : Stopping s) :
    (s.step cfg op).expireTs = s.expireTs ∧ ∀ k, k ∈ keys (s.step cfg op).conns → k ∈ keys s.conns := by
  have h1 := act_stopping cfg s op h
  have h2 := settle_stopping_more cfg (s.act cfg op) h1.1
  unfold Sys.step
  exact ⟨h2.1.trans (act_expireTs cfg s op), fun k hk => act_keysSub cfg s op k (h2.2 k hk)⟩

/-- the first tick that takes the clock past the deadline ends the main loop -/
theorem step_tick_expired (cfg : Cfg) (s : Sys) (n : Nat) (h : Stopping s) (he : s.exited = false)
    (hx : s.expireTs ≠ 0 ∧ s.expireTs < s.now + n) : (s.step cfg (.tick n)).exited = true := by
  have hn := neutral_sweep { s with now := s.now + n } (tickConn cfg (s.now + n))
  have hact : s.act cfg (.tick n) = ({ s with now := s.now + n } : Sys).sweep (tickConn cfg (s.now + n)) := by
    simp [Sys.act, he]
  unfold Sys.step
  rw [hact]
  generalize ({ s with now := s.now + n } : Sys).sweep (tickConn cfg (s.now + n)) = s1 at hn
  have hs1 : Stopping s1 := ⟨hn.graceful.trans h.graceful, hn.disabled.trans h.disabled, hn.backlog.trans h.backlog⟩
  have hex : s1.expired = true := by
    have h1 : s1.expireTs = s.expireTs := hn.expireTs
    have h2 : s1.now = s.now + n := hn.now
    simp [Sys.expired, h1, h2, hx.1, hx.2]
  have he1 : s1.exited = false := hn.exited.trans he
  unfold Sys.settle
  simp only [he1, Bool.false_eq_true, if_false, Sys.loopToRest, hs1.graceful, if_true]
  rw [(neutral_markAccepted _).exited, halt_exited]
  exact gracefulPass_expired cfg s1 hs1.disabled hex

theorem op_dt_tick (op : Op) (n : Nat) (h : op.dt = n) (hn : n ≠ 0) : op = .tick n := by
  cases op <;> simp [Op.dt] at h <;> first | (subst h; rfl) | exact absurd h.symm hn

/-- once stopping with a deadline, the main loop has returned by the time the clock has passed it -/
theorem stopping_run_exits (cfg : Cfg) (s : Sys) (post : List Op) (h : Stopping s) (hE : s.expireTs ≠ 0)
    (hinv : s.exited = true ∨ s.now ≤ s.expireTs) (hd : s.expireTs < s.now + dur post) :
    (s.run cfg post).exited = true := by
  induction post generalizing s with
  | nil =>
    rcases hinv with he | hle
    · exact he
    · simp [dur] at hd; omega
  | cons op rest ih =>
    rw [run_cons]
    by_cases he : s.exited = true
    · exact run_exited cfg _ rest (step_exited cfg s op he)
    · have he' : s.exited = false := by cases h' : s.exited <;> simp_all
      have hnow := step_now cfg s op
      by_cases hx : s.expireTs < s.now + op.dt
      · have hdt : op.dt ≠ 0 := by
          intro h0; rw [h0] at hx
          rcases hinv with h1 | h1
          · exact he h1
          · simp at hx; omega
        have hop := op_dt_tick op op.dt rfl hdt
        rw [hop]
        exact run_exited cfg _ rest (step_tick_expired cfg s op.dt h he' ⟨hE, hx⟩)
      · have hs := step_stopping cfg s op h
        have hm := step_stopping_more cfg s op h
        refine ih (s.step cfg op) hs.1 (by rw [hm.1]; exact hE) (Or.inr (by rw [hm.1, hnow]; omega)) ?_
        rw [hm.1, hnow]
        simp only [dur, List.map_cons, List.sum_cons] at hd ⊢
        omega

theorem loadCheck_ne3 (c l h : Int) (lim d : Nat) (hd : d ≠ 3) : loadCheck c l h lim d ≠ 3 := by
  unfold loadCheck
  split
  · split <;> omega
  · split <;> omega

theorem admitLoop_disabled_ne3 (cfg : Cfg) (k : Nat) (s : Sys) (hd : s.disabled ≠ 3) :
    (admitLoop cfg k s).disabled ≠ 3 := by
  induction k generalizing s with
  | zero => exact hd
  | succ k ih =>
    unfold admitLoop
    apply ih
    unfold Sys.round
    simp only
    split
    · rw [acceptMany_disabled]; exact loadCheck_ne3 _ _ _ _ _ hd
    · exact loadCheck_ne3 _ _ _ _ _ hd

theorem act_disabled (cfg : Cfg) (s : Sys) (op : Op) : (s.act cfg op).disabled = s.disabled := by
  cases op <;> simp only [Sys.act] <;> repeat' (first
    | rfl
    | exact (neutral_onConn _ _ _).disabled
    | exact (neutral_sweep _ _).disabled
    | exact ((neutral_onConn _ _ _).trans (neutral_modClient _ _ _)).disabled
    | split)

/-- the listen sockets are closed only by graceful shutdown -/
theorem step_listen_open (cfg : Cfg) (s : Sys) (op : Op) (hi : s.graceful = false → s.disabled ≠ 3)
    (hg : (s.step cfg op).graceful = false) : (s.step cfg op).disabled ≠ 3 := by
  have hg0 : s.graceful = false := by
    cases h : s.graceful with
    | false => rfl
    | true =>
      have : (s.step cfg op).graceful = true := by
        unfold Sys.step; rw [settle_graceful_flag]; exact act_graceful_true cfg s op h
      rw [this] at hg; cases hg
  unfold Sys.step at hg ⊢
  have hd1 : (s.act cfg op).disabled ≠ 3 := by rw [act_disabled]; exact hi hg0
  generalize s.act cfg op = s1 at hg hd1 ⊢
  have hg1 : s1.graceful = false := by rw [← settle_graceful_flag cfg s1]; exact hg
  have hhalt : ∀ t : Sys, t.halt.disabled = t.disabled := by
    intro t; unfold Sys.halt; split <;> rfl
  unfold Sys.settle
  split
  · rw [hhalt]; exact hd1
  · rw [(neutral_markAccepted _).disabled, hhalt]
    unfold Sys.loopToRest
    simp only [hg1, Bool.false_eq_true, if_false]
    exact admitLoop_disabled_ne3 cfg _ s1 hd1

theorem run_listen_open (cfg : Cfg) (s : Sys) (ops : List Op) (hi : s.graceful = false → s.disabled ≠ 3)
    (hg : (s.run cfg ops).graceful = false) : (s.run cfg ops).disabled ≠ 3 := by
  induction ops generalizing s with
  | nil => exact hi hg
  | cons op rest ih =>
    rw [run_cons] at hg ⊢
    exact ih (s.step cfg op) (fun h => step_listen_open cfg s op hi h) hg

/-- while stopping and before the deadline, whatever the other clients, the clock (short of this
    connection's own timeout) and the maintenance pass do, a request being read or a response being
    written stays exactly as it is, keep-alive apart -/
theorem graceful_inflight_step (cfg : Cfg) (s : Sys) (op : Op) (i : Nat) (c : Conn) (hg : s.Good)
    (hs : Stopping s) (hc : s.conn i = some c) (hst : c.st = .write ∨ c.st = .readPost)
    (hf : op.foreign i) (hsig : op ≠ .graceful) (hexp : s.expireTs = 0 ∨ s.now + op.dt ≤ s.expireTs)
    (hdl : s.now + op.dt ≤ c.deadline cfg) :
    (s.step cfg op).conn i = some { c with keepAlive := false } ∧ (s.step cfg op).exited = false := by
  have hib : i ∉ s.backlog := by rw [hs.backlog]; exact List.not_mem_nil
  have hx : s.exited = false := by
    cases he : s.exited with
    | false => rfl
    | true => have := hg.halted he; simp [Sys.conn, this, lookupConn] at hc
  have hact := act_conn cfg s op i hg.wf hib hf
  have hst1 := act_stopping cfg s op hs
  have hc1 : (s.act cfg op).conn i = some c := by
    rw [hact.2.2]
    cases op with
    | tick n =>
      simp only [hx, Bool.false_eq_true, if_false, hc, Option.bind]
      exact tickConn_before cfg _ c (hg.rest i c hc) (by simpa [Op.dt] using hdl)
    | _ => exact hc
  have hnow1 := act_now cfg s op
  have hexp1 := act_expireTs cfg s op
  have hx1 : (s.act cfg op).exited = false := by
    cases op with
    | graceful => exact absurd rfl hsig
    | tick n =>
      simp only [Sys.act]
      split
      · exact hx
      · exact (neutral_sweep _ _).exited.trans hx
    | open_ j => simp only [Sys.act]; repeat' (first | exact hx | split)
    | prepare j r => simp only [Sys.act]; repeat' (first | exact hx | split)
    | send j n =>
      simp only [Sys.act]
      repeat' (first | exact hx | exact (neutral_onConn _ _ _).exited.trans hx | split)
    | read j =>
      simp only [Sys.act]
      repeat' (first | exact hx | exact ((neutral_onConn _ _ _).trans (neutral_modClient _ _ _)).exited.trans hx | split)
    | drain j =>
      simp only [Sys.act]
      repeat' (first | exact hx | exact ((neutral_onConn _ _ _).trans (neutral_modClient _ _ _)).exited.trans hx | split)
    | fin j =>
      simp only [Sys.act]
      repeat' (first | exact hx | exact (neutral_onConn _ _ _).exited.trans hx | split)
    | close j =>
      simp only [Sys.act]
      repeat' (first | exact hx | exact (neutral_onConn _ _ _).exited.trans hx | split)
    | wake => exact hx
  unfold Sys.step
  generalize s.act cfg op = s1 at hact hst1 hc1 hnow1 hexp1 hx1
  have hib1 : i ∉ s1.backlog := by rw [hst1.1.backlog]; exact List.not_mem_nil
  have hgp := gracefulPass_conn cfg s1 i hact.1 hib1
  have hstart : s1.gracefulStart cfg = s1 := by simp [Sys.gracefulStart, hst1.1.disabled]
  have hnexp : s1.expired = false := by
    simp only [Sys.expired, hexp1, hnow1]
    rcases hexp with h0 | h0
    · simp [h0]
    · have : ¬ (s.expireTs < s.now + ↑op.dt) := by omega
      simp [this]
  rw [hstart, hnexp, hc1] at hgp
  have hgc : gracefulConn false c = some { c with keepAlive := false } :=
    gracefulConn_inflight c (by rcases hst with h | h; exact Or.inl h; exact Or.inr (Or.inl h))
  simp only [Option.bind, hgc] at hgp
  have hne : (s1.gracefulPass cfg).exited = false := by
    unfold Sys.gracefulPass
    simp only [hstart]
    unfold Sys.exitIfIdle
    have hsw := sweep_conn s1 (gracefulConn s1.expired) i hact.1
    rw [hnexp, hc1] at hsw
    simp only [Option.bind, hgc] at hsw
    have hnonempty : (s1.sweep (gracefulConn false)).conns.isEmpty = false := by
      cases hl : (s1.sweep (gracefulConn false)).conns with
      | nil => simp [Sys.conn, hl, lookupConn] at hsw
      | cons p ps => rfl
    rw [hnexp, hnonempty]
    simp only [Bool.false_eq_true, if_false]
    exact (neutral_sweep _ _).exited.trans hx1
  unfold Sys.settle
  rw [if_neg (by simp [hx1])]
  have hl : s1.loopToRest cfg = s1.gracefulPass cfg := by simp [Sys.loopToRest, hst1.1.graceful]
  rw [hl, halt_total_eq _ hne]
  constructor
  · simp only [Sys.conn, (markAccepted_frame _).1]
    exact hgp.2.2
  · rw [(neutral_markAccepted _).exited]; exact hne

/-! ## the limits do not depend on how a request arrives -/

theorem respond_status (cfg : Cfg) (now : Int) (c : Conn) (st : Nat) (big comp ka : Bool) :
    (respond cfg now c st big comp ka).2 = [st] := by
  unfold respond
  simp only
  split <;> rfl

theorem feed_none (cfg : Cfg) (r : Req) (segs : List (Int × Nat)) : (feed cfg r none segs).2 = [] := by
  cases segs <;> rfl

theorem feed_closed (cfg : Cfg) (r : Req) (c : Conn) (hs : c.st = .close) (segs : List (Int × Nat)) :
    (feed cfg r (some c) segs).2 = [] := by
  induction segs with
  | nil => rfl
  | cons x rest ih =>
    obtain ⟨now, n⟩ := x
    have : recv cfg now c r n = (some c, []) := by unfold recv; simp [hs]
    simp only [feed, this, List.nil_append]
    exact ih

/-- after a refusal nothing more is answered -/
theorem feed_after_refusal (cfg : Cfg) (r : Req) (now : Int) (c : Conn) (st : Nat) (comp : Bool)
    (segs : List (Int × Nat)) :
    (feed cfg r (respond cfg now c st false comp false).1 segs).2 = [] := by
  cases h : (respond cfg now c st false comp false).1 with
  | none => exact feed_none cfg r segs
  | some c' => exact feed_closed cfg r c' ((respond_close cfg now c st comp).2 c' h) segs

theorem segs_nil_of_sum (segs : List (Int × Nat)) (hp : ∀ x ∈ segs, 0 < x.2) (h : segSum segs = 0) : segs = [] := by
  cases segs with
  | nil => rfl
  | cons x rest =>
    have := hp x List.mem_cons_self
    simp [segSum] at h
    omega

theorem chunk413_large (cfg : Cfg) (r : Req) (got : Nat) (h : chunk413 cfg r got = true) :
    cfg.rs ≠ 0 ∧ chunkCount r * r.csz > cfg.rs * 1024 := by
  unfold chunk413 at h
  simp only [Bool.and_eq_true, ne_eq, decide_eq_true_eq, bne_iff_ne] at h
  obtain ⟨⟨hr, hc⟩, hk, _⟩ := h
  refine ⟨hr, ?_⟩
  have hpos : 0 < r.csz := Nat.pos_of_ne_zero hc
  have : cfg.rs * 1024 / r.csz < chunkCount r := by omega
  exact (Nat.div_lt_iff_lt_mul hpos).mp this

/-- request well-formedness assumed by the scenario language -/
def Req.Valid (r : Req) : Prop :=
  0 < r.H ∧ (r.kind = .post → 0 < r.B) ∧ (r.kind = .chunked → 0 < r.csz)

theorem feed_body (cfg : Cfg) (r : Req) (hH : r.H ≤ cfg.fs) (hk : r.kind ≠ .get)
    (hcl : r.kind = .post → ¬ (cfg.rs ≠ 0 ∧ r.B > cfg.rs * 1024)) (hv : r.Valid) :
    ∀ (segs : List (Int × Nat)) (c : Conn), c.st = .readPost → c.req = r →
      (∀ x ∈ segs, 0 < x.2) → c.bodyGot + segSum segs = bodyStreamLen r →
      c.bodyGot < bodyStreamLen r → (r.kind = .chunked → chunk413 cfg r c.bodyGot = false) →
      (feed cfg r (some c) segs).2 = [expectedStatus cfg r] := by
  intro segs
  induction segs with
  | nil =>
    intro c _ _ _ hsum hlt _
    simp [segSum] at hsum; omega
  | cons x rest ih =>
    intro c hs hreq hp hsum hlt hnc
    obtain ⟨now, n⟩ := x
    have hn : 0 < n := hp (now, n) List.mem_cons_self
    have hp' : ∀ y ∈ rest, 0 < y.2 := fun y hy => hp y (List.mem_cons_of_mem _ hy)
    have hsum' : c.bodyGot + n + segSum rest = bodyStreamLen r := by
      simp only [segSum, List.map_cons, List.sum_cons] at hsum ⊢; omega
    have hexp431 : ¬ r.H > cfg.fs := by omega
    simp only [feed]
    have hrecv : recv cfg now c r n = bodyStep cfg now { c with rts := now } n := by
      unfold recv; simp [hs]
    rw [hrecv]
    unfold bodyStep
    simp only [hreq]
    cases hkind : r.kind with
    | get => exact absurd hkind hk
    | post =>
      simp only
      have hbl : bodyStreamLen r = r.B := by simp [bodyStreamLen, hkind]
      by_cases hdone : c.bodyGot + n ≥ r.B
      · rw [if_pos hdone, respond_status]
        have : rest = [] := segs_nil_of_sum rest hp' (by omega)
        rw [this]
        simp only [feed, List.append_nil]
        simp [expectedStatus, hexp431, hkind, hcl hkind]
      · rw [if_neg hdone]
        simp only [List.nil_append]
        refine ih _ rfl rfl hp' ?_ ?_ ?_
        · show c.bodyGot + n + segSum rest = bodyStreamLen r; exact hsum'
        · show c.bodyGot + n < bodyStreamLen r; omega
        · intro h; rw [hkind] at h; cases h
    | chunked =>
      simp only
      have hbl : bodyStreamLen r = chunkedTotal r := by simp [bodyStreamLen, hkind]
      by_cases h413 : chunk413 cfg r (c.bodyGot + n) = true
      · rw [if_pos h413, respond_status, feed_after_refusal]
        have := chunk413_large cfg r _ h413
        simp [expectedStatus, hexp431, hkind, this]
      · rw [if_neg h413]
        by_cases hdone : c.bodyGot + n ≥ chunkedTotal r
        · rw [if_pos hdone, respond_status]
          have : rest = [] := segs_nil_of_sum rest hp' (by omega)
          rw [this]
          simp only [feed, List.append_nil]
          have hsmall : ¬ (cfg.rs ≠ 0 ∧ chunkCount r * r.csz > cfg.rs * 1024) := by
            intro ⟨hr, hbig⟩
            exact h413 (chunk413_of_large cfg r _ hr (Nat.pos_iff_ne_zero.mp (hv.2.2 hkind)) hbig hdone)
          simp [expectedStatus, hexp431, hkind, hsmall]
        · rw [if_neg hdone]
          simp only [List.nil_append]
          refine ih _ rfl rfl hp' ?_ ?_ ?_
          · show c.bodyGot + n + segSum rest = bodyStreamLen r; exact hsum'
          · show c.bodyGot + n < bodyStreamLen r; omega
          · intro _; simpa using h413

/-- The limits clause with an independent right-hand side: whatever the pieces `(second, bytes)` in
    which a request reaches a connection that is waiting for it, exactly one answer is written and it
    is the one `expectedStatus` demands of the request alone. -/
theorem feed_expected (cfg : Cfg) (r : Req) (hv : r.Valid) :
    ∀ (segs : List (Int × Nat)) (c : Conn), c.st = .read → c.hdrBuf < r.H → c.hdrBuf ≤ cfg.fs →
      (∀ x ∈ segs, 0 < x.2) → c.hdrBuf + segSum segs = reqLen r →
      (feed cfg r (some c) segs).2 = [expectedStatus cfg r] := by
  intro segs
  induction segs with
  | nil =>
    intro c _ hb _ _ hsum
    simp [segSum, reqLen] at hsum; omega
  | cons x rest ih =>
    intro c hs hb hf hp hsum
    obtain ⟨now, n⟩ := x
    have hn : 0 < n := hp (now, n) List.mem_cons_self
    have hp' : ∀ y ∈ rest, 0 < y.2 := fun y hy => hp y (List.mem_cons_of_mem _ hy)
    have hsum' : c.hdrBuf + n + segSum rest = reqLen r := by
      simp only [segSum, List.map_cons, List.sum_cons] at hsum ⊢; omega
    simp only [feed]
    unfold recv
    simp only [hs]
    by_cases hpart : c.hdrBuf + n < r.H
    · rw [if_pos hpart]
      by_cases hover : c.hdrBuf + n > cfg.fs
      · rw [if_pos hover, respond_status, feed_after_refusal]
        have : r.H > cfg.fs := by omega
        simp [expectedStatus, this]
      · rw [if_neg hover]
        simp only [List.nil_append]
        exact ih _ rfl hpart (by show c.hdrBuf + n ≤ cfg.fs; omega) hp' hsum'
    · rw [if_neg hpart]
      by_cases hbig : r.H > cfg.fs
      · rw [if_pos hbig, respond_status, feed_after_refusal]
        simp [expectedStatus, hbig]
      · rw [if_neg hbig]
        cases hkind : r.kind with
        | get =>
          simp only
          rw [respond_status]
          have hlen : reqLen r = r.H := by simp [reqLen, bodyStreamLen, hkind]
          have : rest = [] := segs_nil_of_sum rest hp' (by omega)
          rw [this]
          simp only [feed, List.append_nil]
          simp [expectedStatus, hbig, hkind]
        | post =>
          simp only
          have hbl : bodyStreamLen r = r.B := by simp [bodyStreamLen, hkind]
          by_cases hcl : cfg.rs ≠ 0 ∧ r.B > cfg.rs * 1024
          · rw [if_pos hcl, respond_status, feed_after_refusal]
            simp [expectedStatus, hbig, hkind, hcl]
          · rw [if_neg hcl]
            unfold bodyStep
            simp only [hkind]
            by_cases hdone : 0 + (c.hdrBuf + n - r.H) ≥ r.B
            · rw [if_pos hdone, respond_status]
              have : rest = [] := segs_nil_of_sum rest hp' (by simp only [reqLen, hbl] at hsum'; omega)
              rw [this]
              simp only [feed, List.append_nil]
              simp [expectedStatus, hbig, hkind, hcl]
            · rw [if_neg hdone]
              simp only [List.nil_append]
              refine feed_body cfg r (by omega) (by rw [hkind]; simp) (fun _ => hcl) hv rest _ rfl rfl hp' ?_ ?_ ?_
              · show 0 + (c.hdrBuf + n - r.H) + segSum rest = bodyStreamLen r
                simp only [reqLen] at hsum'; omega
              · show 0 + (c.hdrBuf + n - r.H) < bodyStreamLen r; omega
              · intro h; rw [hkind] at h; cases h
        | chunked =>
          simp only
          have hbl : bodyStreamLen r = chunkedTotal r := by simp [bodyStreamLen, hkind]
          unfold bodyStep
          simp only [hkind]
          by_cases h413 : chunk413 cfg r (0 + (c.hdrBuf + n - r.H)) = true
          · rw [if_pos h413, respond_status, feed_after_refusal]
            have := chunk413_large cfg r _ h413
            simp [expectedStatus, hbig, hkind, this]
          · rw [if_neg h413]
            by_cases hdone : 0 + (c.hdrBuf + n - r.H) ≥ chunkedTotal r
            · rw [if_pos hdone, respond_status]
              have : rest = [] := segs_nil_of_sum rest hp' (by simp only [reqLen, hbl] at hsum'; omega)
              rw [this]
              simp only [feed, List.append_nil]
              have hsmall : ¬ (cfg.rs ≠ 0 ∧ chunkCount r * r.csz > cfg.rs * 1024) := by
                intro ⟨hr, hb2⟩
                exact h413 (chunk413_of_large cfg r _ hr (Nat.pos_iff_ne_zero.mp (hv.2.2 hkind)) hb2 hdone)
              simp [expectedStatus, hbig, hkind, hsmall]
            · rw [if_neg hdone]
              simp only [List.nil_append]
              refine feed_body cfg r (by omega) (by rw [hkind]; simp)
                (fun h => by rw [hkind] at h; cases h) hv rest _ rfl rfl hp' ?_ ?_ ?_
              · show 0 + (c.hdrBuf + n - r.H) + segSum rest = bodyStreamLen r
                simp only [reqLen] at hsum'; omega
              · show 0 + (c.hdrBuf + n - r.H) < bodyStreamLen r; omega
              · intro _; simpa using h413

/-! ## what is buffered at rest -/

theorem respond_not_readPost (cfg : Cfg) (now : Int) (c : Conn) (st : Nat) (big comp ka : Bool) (c' : Conn)
    (h : (respond cfg now c st big comp ka).1 = some c') : c'.st ≠ .readPost := by
  unfold respond at h
  simp only at h
  split at h
  · cases h; simp
  · unfold finishResponse at h
    split at h
    · cases h; simp
    · unfold toClose at h
      split at h
      · cases h
      · cases h; simp

/-- a body that is still being read: less than the declared length (which passed the Content-Length
    test), or — chunked — short of the size line that would be refused -/
theorem bodyStep_rest_bounded (cfg : Cfg) (now : Int) (c : Conn) (add : Nat) (c' : Conn)
    (h : (bodyStep cfg now c add).1 = some c') (hs : c'.st = .readPost) :
    c'.req = c.req ∧
    (c.req.kind = .post → c'.bodyGot < c.req.B) ∧
    (c.req.kind = .chunked → cfg.rs ≠ 0 → c.req.csz ≠ 0 →
      c'.bodyGot < (cfg.rs * 1024 / c.req.csz) * chunkUnit c.req.csz + hexLen c.req.csz + 7) := by
  unfold bodyStep at h
  simp only at h
  split at h
  · exact absurd hs (respond_not_readPost _ _ _ _ _ _ _ c' h)
  · rename_i hk
    split at h
    · exact absurd hs (respond_not_readPost _ _ _ _ _ _ _ c' h)
    · cases h
      refine ⟨rfl, fun _ => (by simp only; omega), fun h' => (by rw [hk] at h'; cases h')⟩
  · rename_i hk
    split at h
    · exact absurd hs (respond_not_readPost _ _ _ _ _ _ _ c' h)
    · rename_i h413
      split at h
      · exact absurd hs (respond_not_readPost _ _ _ _ _ _ _ c' h)
      · rename_i hnd
        cases h
        refine ⟨rfl, fun h' => (by rw [hk] at h'; cases h'), ?_⟩
        intro _ hr hc
        simp only
        -- either the offending size line has not been received completely, or there is none
        by_cases hkc : cfg.rs * 1024 / c.req.csz + 1 ≤ chunkCount c.req
        · have : ¬ ((cfg.rs * 1024 / c.req.csz + 1 - 1) * chunkUnit c.req.csz + hexLen c.req.csz + 2 ≤ c.bodyGot + add) := by
            intro hle
            apply h413
            unfold chunk413
            have hle' : cfg.rs * 1024 / c.req.csz * chunkUnit c.req.csz + hexLen c.req.csz + 2 ≤ c.bodyGot + add := by
              simpa using hle
            simp [hr, hc, hkc, hle']
          simp only [Nat.add_sub_cancel] at this
          omega
        · have hcnt : chunkCount c.req ≤ cfg.rs * 1024 / c.req.csz := by omega
          have : chunkCount c.req * chunkUnit c.req.csz ≤ (cfg.rs * 1024 / c.req.csz) * chunkUnit c.req.csz :=
            Nat.mul_le_mul_right _ hcnt
          unfold chunkedTotal at hnd
          omega

/-! ## HTTP/2 -/

theorem h2StreamStep_quiet (v : H2View) (now : Int) (s : H2Stream) (hne : s.st ≠ .error)
    (hq : ¬ s.fires v now) : h2StreamStep v now (false, .write) s = (false, .write) := by
  unfold h2StreamStep
  unfold H2Stream.fires at hq
  simp only [hne, if_false]
  have h1 : ¬ (s.bodyPending = true ∧ now - v.rts > s.ri) := fun h => hq ⟨hne, Or.inl h⟩
  have h2 : ¬ (s.st ≠ .readPost ∧ v.wts ≠ 0 ∧ now - v.wts > v.wi) := fun h => hq ⟨hne, Or.inr h⟩
  rw [if_neg h1, if_neg h2]

theorem h2_foldl_quiet (v : H2View) (now : Int) (l : List H2Stream) (hne : ∀ s ∈ l, s.st ≠ .error)
    (hq : ∀ s ∈ l, ¬ s.fires v now) : l.foldl (h2StreamStep v now) (false, .write) = (false, .write) := by
  induction l with
  | nil => rfl
  | cons x rest ih =>
    simp only [List.foldl_cons]
    rw [h2StreamStep_quiet v now x (hne x List.mem_cons_self) (hq x List.mem_cons_self)]
    exact ih (fun s hs => hne s (List.mem_cons_of_mem _ hs)) (fun s hs => hq s (List.mem_cons_of_mem _ hs))

/-- h2_check_timeout() acts exactly when the connection is idle too long or some stream is stalled -/
theorem checkTimeoutH2_exact (v : H2View) (now : Int) (hs : v.st = .write)
    (hne : ∀ s ∈ v.streams, s.st ≠ .error) :
    (checkTimeoutH2 v now).1 = true ↔
      (v.streams = [] ∧ now - v.rts > v.kaIdle) ∨ ∃ s ∈ v.streams, s.fires v now := by
  constructor
  · intro h
    by_cases he : v.streams = []
    · left
      rw [checkTimeoutH2_idle v now hs he] at h
      refine ⟨he, ?_⟩
      split at h
      · assumption
      · cases h
    · right
      apply Classical.byContradiction
      intro hno
      have hq : ∀ s ∈ v.streams, ¬ s.fires v now := fun s hs' hf => hno ⟨s, hs', hf⟩
      unfold checkTimeoutH2 at h
      simp [hs, he, h2_foldl_quiet v now v.streams hne hq] at h
  · intro h
    rcases h with ⟨he, ht⟩ | hf
    · rw [checkTimeoutH2_idle v now hs he, if_pos ht]
    · rw [checkTimeoutH2_fires v now hs hf]

/-- the invariant of h2_recv_data() over a stream's DATA frames -/
def H2Body.Bounded (max F : Nat) (b : H2Body) : Prop :=
  (b.status = 0 ∨ b.status = 413) ∧
  (b.isOpen = true → b.bytesIn ≤ max + h2SinkAllowance ∧ (max < b.bytesIn → b.status = 413)) ∧
  (b.isOpen = false → b.bytesIn ≤ max + h2SinkAllowance + F)

theorem h2DataStep_bounded (max F : Nat) (hm : max ≠ 0) (b : H2Body) (alen : Nat) (es : Bool) (ha : alen ≤ F)
    (h : b.Bounded max F) : (h2DataStep max b alen es).1.Bounded max F := by
  obtain ⟨hst, hop, hcl⟩ := h
  unfold h2DataStep
  cases hopen : b.isOpen with
  | false => simp only [Bool.not_false, if_true]; exact ⟨hst, by simp [hopen], fun _ => hcl hopen⟩
  | true =>
    have ho := hop hopen
    simp only [Bool.not_true, Bool.false_eq_true, if_false]
    by_cases hov : b.overLength alen = true
    · rw [if_pos hov]
      exact ⟨hst, by simp, fun _ => by simp only; omega⟩
    · rw [if_neg hov]
      cases es with
      | true =>
        simp only [if_true]
        cases hc : b.cl with
        | none => exact ⟨hst, by simp, fun _ => by simp only; omega⟩
        | some n =>
          simp only
          split
          · exact ⟨hst, by simp, fun _ => by simp only; omega⟩
          · exact ⟨hst, by simp, fun _ => by simp only; omega⟩
      | false =>
        simp only [Bool.false_eq_true, if_false]
        by_cases hle : max = 0 ∨ b.bytesIn + alen ≤ max
        · rw [if_pos hle]
          refine ⟨hst, fun _ => ?_, by simp [hopen]⟩
          simp only
          rcases hle with h0 | h0
          · exact absurd h0 hm
          · exact ⟨by omega, fun hgt => by omega⟩
        · rw [if_neg hle]
          by_cases hsink : b.bytesIn + alen - max > h2SinkAllowance ∨ b.status = 0
          · rw [if_pos hsink]
            by_cases hs0 : b.status = 0
            · rw [if_pos hs0]
              refine ⟨Or.inr rfl, fun _ => ?_, by simp [hopen]⟩
              simp only
              exact ⟨ho.1, fun _ => trivial⟩
            · rw [if_neg hs0]
              exact ⟨hst, fun _ => ho, by simp [hopen]⟩
          · rw [if_neg hsink]
            refine ⟨hst, fun _ => ?_, by simp [hopen]⟩
            simp only
            have hs413 : b.status = 413 := by
              rcases hst with h0 | h0
              · exact absurd (Or.inr h0) hsink
              · exact h0
            have : ¬ (b.bytesIn + alen - max > h2SinkAllowance) := fun hh => hsink (Or.inl hh)
            exact ⟨by omega, fun _ => hs413⟩

theorem h2DataRun_bounded (max F : Nat) (hm : max ≠ 0) (frames : List (Nat × Bool))
    (hf : ∀ f ∈ frames, f.1 ≤ F) (b : H2Body) (h : b.Bounded max F) : (h2DataRun max b frames).Bounded max F := by
  induction frames generalizing b with
  | nil => exact h
  | cons f rest ih =>
    simp only [h2DataRun]
    exact ih (fun g hg => hf g (List.mem_cons_of_mem _ hg)) _
      (h2DataStep_bounded max F hm b f.1 f.2 (hf f List.mem_cons_self) h)

theorem h2HeadScan_eq (fs : Nat) (fields : List (Nat × Nat)) (hlen i : Nat) (h0 : hlen ≤ fs) :
    (h2HeadScan fs hlen i fields).1 =
      if hlen + (fields.map fun f => f.1 + f.2 + 4).sum > fs then 431 else 0 := by
  induction fields generalizing hlen i with
  | nil => simp [h2HeadScan]; omega
  | cons f rest ih =>
    obtain ⟨k, v⟩ := f
    unfold h2HeadScan
    simp only [List.map_cons, List.sum_cons]
    by_cases h : hlen + k + v + 4 > fs
    · rw [if_pos h, if_pos (by omega)]
    · rw [if_neg h, ih _ _ (by omega)]
      have : hlen + k + v + 4 + (rest.map fun f => f.1 + f.2 + 4).sum = hlen + (k + v + 4 + (rest.map fun f => f.1 + f.2 + 4).sum) := by omega
      rw [this]

/-! ## the configured connection limit -/

theorem effMaxConns_pos (mc maxFds : Nat) (h : minMaxFds ≤ maxFds) :
    effMaxConns mc maxFds ≠ 0 ∧ 2 * effMaxConns mc maxFds ≤ maxFds := by
  unfold effMaxConns
  unfold minMaxFds at h
  split
  · omega
  · split <;> omega

theorem cfg_maxFds_ge (cfg : Cfg) : minMaxFds ≤ cfg.maxFds := by
  unfold Cfg.maxFds; split <;> omega

/-- while stopping, a loop at rest with an empty connection table has returned -/
theorem step_stopping_idle_exits (cfg : Cfg) (s : Sys) (op : Op) (h : Stopping s)
    (hc : (s.step cfg op).conns = []) : (s.step cfg op).exited = true := by
  have h1 := act_stopping cfg s op h
  unfold Sys.step at hc ⊢
  generalize s.act cfg op = s1 at h1 hc ⊢
  unfold Sys.settle at hc ⊢
  by_cases he : s1.exited = true
  · rw [if_pos he, halt_exited]; exact he
  · rw [if_neg he] at hc ⊢
    rw [(neutral_markAccepted _).exited, halt_exited]
    rw [(markAccepted_frame _).1] at hc
    have hl : s1.loopToRest cfg = s1.gracefulPass cfg := by simp [Sys.loopToRest, h1.1.graceful]
    rw [hl] at hc ⊢
    cases hx : (s1.gracefulPass cfg).exited with
    | true => rfl
    | false =>
      rw [halt_total_eq _ hx] at hc
      unfold Sys.gracefulPass at hc hx
      simp only at hc hx
      unfold Sys.exitIfIdle at hc hx
      split at hx
      · cases hx
      · rename_i hne
        rw [if_neg hne] at hc
        rw [hc] at hne
        simp at hne

end LtVerif.Lifecycle
