/-
  Helper lemmas for the connection-lifetime model (C13): normal form of h1_check_timeout(), the
  behaviour of the periodic sweep on a connection at rest, invariants of runs without client
  progress, slot accounting of the server model (`Neutral`, `Sys.total`), the accept loop, graceful
  shutdown (`Stopping`), the request size limits, and h2_check_timeout().
  Core Lean only.
-/
import LtVerif.Model.Lifecycle
namespace LtVerif.Lifecycle
open LtVerif.Extracted

/-! ## the timeout checks -/

theorem checkTimeoutH1_eq (v : H1View) (now : Int) :
    checkTimeoutH1 v now =
      if v.st = .close then (decide (now - v.cts > lingerTimeoutH1), .close)
      else if v.inEv = true ∧ now - v.rts > (if v.n ≠ 1 ∧ v.st = .read then v.kaIdle else v.ri) then (true, .error)
      else if v.h1 = true ∧ v.st = .write ∧ v.wts ≠ 0 ∧ now - v.wts > v.wi then (true, .error)
      else (false, v.st) := by
  unfold checkTimeoutH1
  generalize (if v.n ≠ 1 ∧ v.st = .read then v.kaIdle else v.ri) = idle
  by_cases h1 : v.st = .close <;> by_cases h2 : v.inEv = true <;> by_cases h3 : idle < now - v.rts <;>
    by_cases ha : v.h1 = true <;> by_cases hb : v.st = .write <;> by_cases hc : v.wts = 0 <;>
    by_cases h5 : v.wi < now - v.wts <;> simp [*]

theorem ite_fst_true (p : Prop) [Decidable p] (a b : CState) :
    (if p then (true, a) else (false, b)).1 = true ↔ p := by
  split <;> simp [*]

/-- whether the sweep at `now` acts on a connection at rest -/
theorem tick_changed_iff (cfg : Cfg) (now : Int) (c : Conn) (hr : c.Rest) :
    (checkTimeoutH1 (c.view cfg) now).1 = true ↔ c.deadline cfg < now := by
  rw [checkTimeoutH1_eq]
  unfold Conn.Rest at hr
  unfold Conn.deadline Conn.view
  rcases hr with ⟨hs, hi⟩ | ⟨hs, hi⟩ | ⟨hs, hi, hw⟩ | hs
  · by_cases hn : c.n = 1 <;> simp [hs, hi, hn, ite_fst_true] <;> omega
  · simp [hs, hi, ite_fst_true]; omega
  · simp [hs, hi, hw, ite_fst_true]; omega
  · simp [hs]; omega

theorem tickConn_before (cfg : Cfg) (now : Int) (c : Conn) (hr : c.Rest)
    (h : now ≤ c.deadline cfg) : tickConn cfg now c = some c := by
  have : ¬ (checkTimeoutH1 (c.view cfg) now).1 = true := fun hh => by
    have := (tick_changed_iff cfg now c hr).mp hh; omega
  simp [tickConn, this]

theorem tickConn_after (cfg : Cfg) (now : Int) (c : Conn) (hr : c.Rest)
    (h : c.deadline cfg < now) :
    tickConn cfg now c = if c.st = .close then none else toClose now c := by
  have := (tick_changed_iff cfg now c hr).mpr h
  simp [tickConn, this]

theorem runIdle_none (cfg : Cfg) (es : List IdleEv) : runIdle cfg none es = none := by
  cases es <;> rfl

theorem runIdle_append (cfg : Cfg) (oc : Option Conn) (l1 l2 : List IdleEv) :
    runIdle cfg oc (l1 ++ l2) = runIdle cfg (runIdle cfg oc l1) l2 := by
  induction l1 generalizing oc with
  | nil => cases oc <;> simp [runIdle, runIdle_none]
  | cons e es ih => cases oc <;> simp [runIdle, runIdle_none, ih]

theorem toClose_cases (now : Int) (c : Conn) :
    toClose now c = none ∨ ∃ c', toClose now c = some c' ∧ c'.st = .close ∧ c'.cts = now := by
  unfold toClose
  split
  · exact Or.inl rfl
  · exact Or.inr ⟨_, rfl, rfl, rfl⟩

/-- a connection that is lingering since `a` at the latest (or already gone) -/
def ClosedBy (a : Int) (oc : Option Conn) : Prop :=
  ∀ c, oc = some c → c.st = .close ∧ c.cts ≤ a

/-- before the decisive sweep: still at rest with the original deadline, or already lingering -/
def Waiting (cfg : Cfg) (d0 a : Int) (oc : Option Conn) : Prop :=
  ∀ c, oc = some c → c.Rest ∧ ((c.st ≠ .close ∧ c.deadline cfg = d0) ∨ (c.st = .close ∧ c.cts ≤ a))

theorem tickConn_close (cfg : Cfg) (now : Int) (c : Conn) (hs : c.st = .close) :
    tickConn cfg now c = none ∨ tickConn cfg now c = some c := by
  unfold tickConn
  by_cases h : (checkTimeoutH1 (c.view cfg) now).1 = true <;> simp [h, hs]

theorem gracefulConn_cases (e : Bool) (c : Conn) :
    gracefulConn e c = none ∨ (gracefulConn e c = some { c with keepAlive := false } ∧ c.st ≠ .close) := by
  unfold gracefulConn
  by_cases h1 : c.st = .close
  · simp [h1]
  · by_cases h2 : c.st = .read ∧ c.n > 1 ∧ c.hdrBuf = 0
    · simp [h1, h2]
    · cases e <;> simp [h1, h2]

theorem closedBy_step (cfg : Cfg) (a : Int) (c : Conn) (e : IdleEv) (h : ClosedBy a (some c)) :
    ClosedBy a (idleStep cfg c e) := by
  have ⟨hs, hc⟩ := h c rfl
  cases e with
  | tick t =>
    rcases tickConn_close cfg t c hs with h' | h' <;> simp only [idleStep, h']
    · intro c' hc'; cases hc'
    · exact h
  | wake => exact h
  | graceful ex =>
    rcases gracefulConn_cases ex c with h' | ⟨_, h'⟩
    · simp only [idleStep, h']; intro c' hc'; cases hc'
    · exact absurd hs h'

theorem closedBy_run (cfg : Cfg) (a : Int) (oc : Option Conn) (es : List IdleEv) (h : ClosedBy a oc) :
    ClosedBy a (runIdle cfg oc es) := by
  induction es generalizing oc with
  | nil => cases oc <;> simpa [runIdle] using h
  | cons e es ih =>
    cases oc with
    | none => simpa [runIdle] using h
    | some c => simp only [runIdle]; exact ih _ (closedBy_step cfg a c e h)

theorem waiting_step (cfg : Cfg) (d0 a : Int) (c : Conn) (e : IdleEv)
    (he : ∀ t, e = .tick t → t ≤ a) (h : Waiting cfg d0 a (some c)) :
    Waiting cfg d0 a (idleStep cfg c e) := by
  have ⟨hr, hd⟩ := h c rfl
  cases e with
  | wake => exact h
  | graceful ex =>
    rcases gracefulConn_cases ex c with h' | ⟨h', hn⟩
    · simp only [idleStep, h']; intro c' hc'; cases hc'
    · simp only [idleStep, h']
      intro c' hc'
      cases hc'
      rcases hd with ⟨_, hd⟩ | ⟨hs, _⟩
      · refine ⟨?_, Or.inl ⟨hn, ?_⟩⟩
        · simpa [Conn.Rest] using hr
        · simpa [Conn.deadline] using hd
      · exact absurd hs hn
  | tick t =>
    have hta := he t rfl
    rcases hd with ⟨hn, hd⟩ | ⟨hs, hc⟩
    · by_cases hlt : t ≤ d0
      · simp only [idleStep, tickConn_before cfg t c hr (by omega)]; exact h
      · simp only [idleStep, tickConn_after cfg t c hr (by omega), if_neg hn]
        rcases toClose_cases t c with h' | ⟨c', h', hs', hc'⟩
        · simp only [h']; intro c'' hc''; cases hc''
        · simp only [h']
          intro c'' hc''
          cases hc''
          exact ⟨Or.inr (Or.inr (Or.inr hs')), Or.inr ⟨hs', by omega⟩⟩
    · rcases tickConn_close cfg t c hs with h' | h' <;> simp only [idleStep, h']
      · intro c' hc'; cases hc'
      · exact h

theorem waiting_run (cfg : Cfg) (d0 a : Int) (oc : Option Conn) (es : List IdleEv)
    (he : ∀ t, IdleEv.tick t ∈ es → t ≤ a) (h : Waiting cfg d0 a oc) :
    Waiting cfg d0 a (runIdle cfg oc es) := by
  induction es generalizing oc with
  | nil => cases oc <;> simpa [runIdle] using h
  | cons e es ih =>
    cases oc with
    | none => simpa [runIdle] using h
    | some c =>
      simp only [runIdle]
      refine ih _ (fun t ht => he t (List.mem_cons_of_mem _ ht)) (waiting_step cfg d0 a c e ?_ h)
      intro t ht
      exact he t (by simp [ht])

/-- the decisive sweep: afterwards the connection lingers (FIN sent) or is gone -/
theorem waiting_tick (cfg : Cfg) (d0 a : Int) (oc : Option Conn) (ha : d0 < a)
    (h : Waiting cfg d0 a oc) : ClosedBy a (runIdle cfg oc [.tick a]) := by
  cases oc with
  | none => intro c hc; simp [runIdle] at hc
  | some c =>
    have ⟨hr, hd⟩ := h c rfl
    simp only [runIdle, idleStep]
    rcases hd with ⟨hn, hd⟩ | ⟨hs, hc⟩
    · rw [tickConn_after cfg a c hr (by omega), if_neg hn]
      rcases toClose_cases a c with h' | ⟨c', h', hs', hc'⟩
      · rw [h']; intro c'' hc''; simp [runIdle] at hc''
      · rw [h']; intro c'' hc''
        simp only [runIdle] at hc''
        cases hc''
        exact ⟨hs', by omega⟩
    · rcases tickConn_close cfg a c hs with h' | h' <;> rw [h']
      · intro c'' hc''; simp [runIdle] at hc''
      · intro c'' hc''; simp only [runIdle] at hc''; cases hc''; exact ⟨hs, hc⟩

theorem closedBy_tick (cfg : Cfg) (a b : Int) (oc : Option Conn) (hb : a + lingerTimeoutH1 < b)
    (h : ClosedBy a oc) : runIdle cfg oc [.tick b] = none := by
  cases oc with
  | none => rfl
  | some c =>
    have ⟨hs, hc⟩ := h c rfl
    have hr : c.Rest := Or.inr (Or.inr (Or.inr hs))
    have hd : c.deadline cfg < b := by simp only [Conn.deadline, hs]; omega
    simp [runIdle, idleStep, tickConn_after cfg b c hr hd, hs]

/-! ## HTTP/2 -/

theorem checkTimeoutH2_idle (v : H2View) (now : Int) (hs : v.st = .write) (he : v.streams = []) :
    checkTimeoutH2 v now =
      if now - v.rts > v.kaIdle then (true, .respEnd, false) else (false, .write, true) := by
  unfold checkTimeoutH2
  by_cases h : now - v.rts > v.kaIdle <;> simp [hs, he, h]

/-- the per-stream step never takes back a decision -/
theorem h2StreamStep_keeps (v : H2View) (now : Int) (acc : Bool × CState) (s : H2Stream)
    (h : acc = (true, .error)) : h2StreamStep v now acc s = (true, .error) := by
  unfold h2StreamStep
  subst h
  split
  · rfl
  · split <;> split <;> rfl

theorem h2_foldl_keeps (v : H2View) (now : Int) (l : List H2Stream) :
    l.foldl (h2StreamStep v now) (true, .error) = (true, .error) := by
  induction l with
  | nil => rfl
  | cons s rest ih => simp only [List.foldl_cons, h2StreamStep_keeps v now _ s rfl, ih]

/-- a stream that is waiting for the client (request body outstanding, or response in progress) -/
def H2Stream.fires (v : H2View) (now : Int) (s : H2Stream) : Prop :=
  s.st ≠ .error ∧ ((s.bodyPending = true ∧ now - v.rts > s.ri) ∨
                   (s.st ≠ .readPost ∧ v.wts ≠ 0 ∧ now - v.wts > v.wi))

theorem h2StreamStep_fires (v : H2View) (now : Int) (acc : Bool × CState) (s : H2Stream)
    (h : s.fires v now) : h2StreamStep v now acc s = (true, .error) := by
  unfold h2StreamStep
  obtain ⟨hne, h⟩ := h
  simp only [hne, if_false]
  rcases h with ⟨hb, ht⟩ | hw
  · have : s.bodyPending = true ∧ now - v.rts > s.ri := ⟨hb, ht⟩
    simp only [this, and_self, if_true]
    split <;> rfl
  · rw [if_pos hw]

theorem h2_foldl_fires (v : H2View) (now : Int) (l : List H2Stream) (acc : Bool × CState)
    (h : ∃ s ∈ l, H2Stream.fires v now s) : l.foldl (h2StreamStep v now) acc = (true, .error) := by
  induction l generalizing acc with
  | nil => obtain ⟨s, hs, _⟩ := h; cases hs
  | cons x rest ih =>
    simp only [List.foldl_cons]
    obtain ⟨s, hs, hf⟩ := h
    rcases List.mem_cons.mp hs with rfl | hs
    · rw [h2StreamStep_fires v now acc s hf, h2_foldl_keeps]
    · exact ih _ ⟨s, hs, hf⟩

theorem checkTimeoutH2_fires (v : H2View) (now : Int) (hs : v.st = .write)
    (h : ∃ s ∈ v.streams, H2Stream.fires v now s) :
    checkTimeoutH2 v now = (true, .error, false) := by
  unfold checkTimeoutH2
  have hne : v.streams ≠ [] := by
    obtain ⟨s, hs, _⟩ := h
    intro he; rw [he] at hs; cases hs
  simp [hs, hne, h2_foldl_fires v now v.streams _ h]

/-! ## the server -/

/-! ### bookkeeping of the connection list -/

theorem setConn_length (l : List (Nat × Conn)) (i : Nat) (c : Conn) :
    (setConn l i c).length = l.length := by
  induction l with
  | nil => rfl
  | cons p rest ih =>
    obtain ⟨j, d⟩ := p
    unfold setConn
    split <;> simp [ih]

theorem eraseConn_length (l : List (Nat × Conn)) (i : Nat) (c : Conn) (h : lookupConn l i = some c) :
    (eraseConn l i).length + 1 = l.length := by
  induction l with
  | nil => simp [lookupConn] at h
  | cons p rest ih =>
    obtain ⟨j, d⟩ := p
    unfold eraseConn
    unfold lookupConn at h
    split
    · simp
    · rename_i hne
      simp only [hne, if_false] at h
      simp [ih h]

/-- slots in use + slots free -/
def Sys.total (s : Sys) : Nat := s.conns.length + s.lim

/-- `s'` differs from `s` only by connections that changed or ended: no slot is created or lost,
    nothing is accepted, the server-wide flags are untouched -/
structure Neutral (s s' : Sys) : Prop where
  total : s'.total = s.total
  lim : s.lim ≤ s'.lim
  backlog : s'.backlog = s.backlog
  disabled : s'.disabled = s.disabled
  graceful : s'.graceful = s.graceful
  exited : s'.exited = s.exited
  now : s'.now = s.now
  expireTs : s'.expireTs = s.expireTs

theorem Neutral.refl (s : Sys) : Neutral s s := ⟨rfl, Nat.le_refl _, rfl, rfl, rfl, rfl, rfl, rfl⟩

theorem Neutral.trans {a b c : Sys} (h1 : Neutral a b) (h2 : Neutral b c) : Neutral a c :=
  ⟨h2.total.trans h1.total, Nat.le_trans h1.lim h2.lim, h2.backlog.trans h1.backlog,
   h2.disabled.trans h1.disabled, h2.graceful.trans h1.graceful, h2.exited.trans h1.exited,
   h2.now.trans h1.now, h2.expireTs.trans h1.expireTs⟩

theorem Neutral.conns_le {s s' : Sys} (h : Neutral s s') : s'.conns.length ≤ s.conns.length := by
  have := h.total; have := h.lim; simp only [Sys.total] at *; omega

theorem neutral_modClient (s : Sys) (i : Nat) (f : Client → Client) : Neutral s (s.modClient i f) :=
  ⟨rfl, Nat.le_refl _, rfl, rfl, rfl, rfl, rfl, rfl⟩

theorem neutral_release (s : Sys) (i : Nat) : Neutral s (s.release i) := by
  unfold Sys.release
  split
  · exact Neutral.refl s
  · rename_i c h
    have := eraseConn_length s.conns i c h
    refine ⟨?_, by simp, rfl, rfl, rfl, rfl, rfl, rfl⟩
    simp only [Sys.total]
    omega

theorem neutral_putConn (s : Sys) (i : Nat) (r : CRes) : Neutral s (s.putConn i r) := by
  unfold Sys.putConn
  split
  · exact (neutral_modClient s i _).trans ((neutral_release _ i).trans (neutral_modClient _ i _))
  · split <;>
      exact ⟨by simp [Sys.total, Sys.modClient, Sys.setClient, setConn_length], Nat.le_refl _, rfl, rfl, rfl, rfl, rfl, rfl⟩

theorem neutral_onConn (s : Sys) (i : Nat) (f : Conn → CRes) : Neutral s (s.onConn i f) := by
  unfold Sys.onConn
  split
  · exact Neutral.refl s
  · exact neutral_putConn s i _

theorem neutral_foldl {α : Type} (f : Sys → α → Sys) (hf : ∀ s x, Neutral s (f s x)) (l : List α) (s : Sys) :
    Neutral s (l.foldl f s) := by
  induction l generalizing s with
  | nil => exact Neutral.refl s
  | cons x xs ih => exact (hf s x).trans (ih (f s x))

theorem neutral_sweep (s : Sys) (f : Conn → Option Conn) : Neutral s (s.sweep f) := by
  unfold Sys.sweep
  apply neutral_foldl
  intro s p
  split <;> exact neutral_putConn s _ _

theorem neutral_markAccepted (s : Sys) : Neutral s s.markAccepted := by
  unfold Sys.markAccepted
  apply neutral_foldl
  intro s p
  exact neutral_modClient s _ _

/-! ### the accept loop -/

theorem neutral_acceptData (cfg : Cfg) (s : Sys) (i : Nat) (cl : Client) (c0 : Conn) :
    Neutral s (s.acceptData cfg i cl c0) := by
  unfold Sys.acceptData
  have h1 : Neutral s (match cl.req with
      | some r => if cl.pre > 0 then s.putConn i (recv cfg s.now c0 r cl.pre) else s
      | none => s) := by
    split
    · split
      · exact neutral_putConn s i _
      · exact Neutral.refl s
    · exact Neutral.refl s
  simp only
  split
  · exact h1.trans (neutral_onConn _ i _)
  · exact h1

theorem pushConn_total (s : Sys) (i : Nat) (c : Conn) (h : 1 ≤ s.lim) : (s.pushConn i c).total = s.total := by
  simp only [Sys.pushConn, Sys.total, List.length_cons]; omega

/-- accepting takes one slot and may give it back at once; everything else is as before -/
theorem accept_spec (cfg : Cfg) (s : Sys) (i : Nat) :
    Neutral (s.pushConn i { rts := s.now }) (Sys.accept cfg s i) := by
  unfold Sys.accept
  simp only
  split
  · exact neutral_release _ i
  · exact neutral_acceptData cfg _ i _ _

theorem accept_total (cfg : Cfg) (s : Sys) (i : Nat) (h : 1 ≤ s.lim) : (Sys.accept cfg s i).total = s.total :=
  (accept_spec cfg s i).total.trans (pushConn_total s i _ h)

theorem accept_lim_ge (cfg : Cfg) (s : Sys) (i : Nat) : s.lim - 1 ≤ (Sys.accept cfg s i).lim :=
  (accept_spec cfg s i).lim

theorem accept_backlog (cfg : Cfg) (s : Sys) (i : Nat) : (Sys.accept cfg s i).backlog = s.backlog :=
  (accept_spec cfg s i).backlog

theorem accept_conns_le (cfg : Cfg) (s : Sys) (i : Nat) :
    (Sys.accept cfg s i).conns.length ≤ s.conns.length + 1 := by
  have := (accept_spec cfg s i).conns_le
  simpa [Sys.pushConn] using this

theorem acceptMany_total (cfg : Cfg) (k : Nat) (s : Sys) (h : k ≤ s.lim) :
    (acceptMany cfg k s).total = s.total := by
  induction k generalizing s with
  | zero => rfl
  | succ k ih =>
    unfold acceptMany
    split
    · rfl
    · rename_i i rest hb
      have h1 : 1 ≤ ({ s with backlog := rest } : Sys).lim := by simp; omega
      have h2 := accept_lim_ge cfg { s with backlog := rest } i
      rw [ih _ (by simp at h2; omega), accept_total cfg _ i h1]
      rfl

theorem acceptMany_backlog_le (cfg : Cfg) (k : Nat) (s : Sys) :
    (acceptMany cfg k s).backlog.length ≤ s.backlog.length := by
  induction k generalizing s with
  | zero => exact Nat.le_refl _
  | succ k ih =>
    unfold acceptMany
    split
    · exact Nat.le_refl _
    · rename_i i rest hb
      refine Nat.le_trans (ih _) ?_
      rw [accept_backlog, hb]
      simp

theorem acceptMany_backlog_lt (cfg : Cfg) (k : Nat) (s : Sys) (hb : s.backlog ≠ []) :
    (acceptMany cfg (k + 1) s).backlog.length < s.backlog.length := by
  unfold acceptMany
  split
  · rename_i h; exact absurd h hb
  · rename_i i rest h
    refine Nat.lt_of_le_of_lt (acceptMany_backlog_le cfg k _) ?_
    rw [accept_backlog, h]
    simp

theorem acceptCount_le (lim : Nat) : acceptCount lim ≤ lim := by
  unfold acceptCount; split <;> omega

theorem acceptCount_le_cap (lim : Nat) : acceptCount lim ≤ acceptLoopCap := by
  unfold acceptCount; split <;> omega

theorem acceptCount_pos (lim : Nat) (h : lim ≠ 0) : 1 ≤ acceptCount lim := by
  unfold acceptCount acceptLoopCap; split <;> omega

theorem round_total (cfg : Cfg) (s : Sys) : (s.round cfg).total = s.total := by
  unfold Sys.round
  simp only
  split
  · rw [acceptMany_total cfg _ _ (by simpa using acceptCount_le s.lim)]; rfl
  · rfl

theorem admitLoop_total (cfg : Cfg) (k : Nat) (s : Sys) : (admitLoop cfg k s).total = s.total := by
  induction k generalizing s with
  | zero => rfl
  | succ k ih => unfold admitLoop; rw [ih, round_total]

theorem neutral_resetBacklog (s : Sys) : Neutral s s.resetBacklog := by
  unfold Sys.resetBacklog
  apply neutral_foldl
  intro s i
  exact neutral_modClient s i _

theorem closeListen_total (s : Sys) : s.closeListen.total = s.total := by
  have := (neutral_resetBacklog s).total
  simpa [Sys.closeListen, Sys.total] using this

theorem gracefulStart_total (cfg : Cfg) (s : Sys) : (s.gracefulStart cfg).total = s.total := by
  unfold Sys.gracefulStart
  split
  · rfl
  · have := closeListen_total s
    simpa [Sys.total] using this

theorem exitIfIdle_total (s : Sys) : s.exitIfIdle.total = s.total := by
  unfold Sys.exitIfIdle; split <;> rfl

theorem gracefulPass_total (cfg : Cfg) (s : Sys) : (s.gracefulPass cfg).total = s.total := by
  unfold Sys.gracefulPass
  simp only
  rw [exitIfIdle_total, (neutral_sweep _ _).total, gracefulStart_total]

theorem loopToRest_total (cfg : Cfg) (s : Sys) : (s.loopToRest cfg).total = s.total := by
  unfold Sys.loopToRest
  split
  · exact gracefulPass_total cfg s
  · exact admitLoop_total cfg _ s

theorem halt_total_le (s : Sys) : s.halt.total ≤ s.total := by
  unfold Sys.halt; split <;> simp [Sys.total]

theorem halt_total_eq (s : Sys) (h : s.exited = false) : s.halt = s := by
  unfold Sys.halt; simp [h]

theorem halt_exited (s : Sys) : s.halt.exited = s.exited := by
  unfold Sys.halt; split <;> rfl

theorem settle_total_le (cfg : Cfg) (s : Sys) : (s.settle cfg).total ≤ s.total := by
  unfold Sys.settle
  split
  · exact halt_total_le s
  · rw [(neutral_markAccepted _).total]
    exact Nat.le_trans (halt_total_le _) (Nat.le_of_eq (loopToRest_total cfg s))

theorem settle_total_eq (cfg : Cfg) (s : Sys) (h : (s.settle cfg).exited = false) :
    (s.settle cfg).total = s.total := by
  unfold Sys.settle at h ⊢
  by_cases he : s.exited = true
  · rw [if_pos he, halt_exited, he] at h
    cases h
  · rw [if_neg he] at h ⊢
    rw [(neutral_markAccepted _).exited, halt_exited] at h
    rw [(neutral_markAccepted _).total, halt_total_eq _ h, loopToRest_total]

theorem act_total (cfg : Cfg) (s : Sys) (op : Op) : (s.act cfg op).total = s.total := by
  cases op <;> simp only [Sys.act] <;>
    repeat' (first
      | exact (neutral_onConn _ _ _).total
      | exact (neutral_sweep _ _).total
      | exact ((neutral_onConn _ _ _).trans (neutral_modClient _ _ _)).total
      | split
      | rfl)

theorem step_total_le (cfg : Cfg) (s : Sys) (op : Op) : (s.step cfg op).total ≤ s.total := by
  unfold Sys.step
  exact Nat.le_trans (settle_total_le cfg _) (Nat.le_of_eq (act_total cfg s op))

theorem step_total_eq (cfg : Cfg) (s : Sys) (op : Op) (h : (s.step cfg op).exited = false) :
    (s.step cfg op).total = s.total := by
  unfold Sys.step at h ⊢
  rw [settle_total_eq cfg _ h, act_total]

theorem run_total_le (cfg : Cfg) (s : Sys) (ops : List Op) : (s.run cfg ops).total ≤ s.total := by
  induction ops generalizing s with
  | nil => exact Nat.le_refl _
  | cons op ops ih =>
    simp only [Sys.run, List.foldl_cons] at ih ⊢
    exact Nat.le_trans (ih _) (step_total_le cfg s op)

theorem act_exited (cfg : Cfg) (s : Sys) (op : Op) (h : s.exited = true) : (s.act cfg op).exited = true := by
  cases op <;> simp only [Sys.act, h] <;>
    repeat' (first
      | exact h
      | rfl
      | exact (neutral_onConn _ _ _).exited.trans h
      | exact ((neutral_onConn _ _ _).trans (neutral_modClient _ _ _)).exited.trans h
      | split)

theorem settle_exited (cfg : Cfg) (s : Sys) (h : s.exited = true) : (s.settle cfg).exited = true := by
  unfold Sys.settle
  rw [if_pos h, halt_exited, h]

theorem step_exited (cfg : Cfg) (s : Sys) (op : Op) (h : s.exited = true) : (s.step cfg op).exited = true :=
  settle_exited cfg _ (act_exited cfg s op h)

theorem run_exited (cfg : Cfg) (s : Sys) (ops : List Op) (h : s.exited = true) : (s.run cfg ops).exited = true := by
  induction ops generalizing s with
  | nil => exact h
  | cons op ops ih => simp only [Sys.run, List.foldl_cons] at ih ⊢; exact ih _ (step_exited cfg s op h)

theorem run_total_eq (cfg : Cfg) (s : Sys) (ops : List Op) (h : (s.run cfg ops).exited = false) :
    (s.run cfg ops).total = s.total := by
  induction ops generalizing s with
  | nil => rfl
  | cons op ops ih =>
    simp only [Sys.run, List.foldl_cons] at ih h ⊢
    have hs : (s.step cfg op).exited = false := by
      cases hx : (s.step cfg op).exited with
      | false => rfl
      | true =>
        have := run_exited cfg _ ops hx
        simp only [Sys.run] at this
        rw [this] at h; cases h
    rw [ih _ h, step_total_eq cfg s op hs]

theorem init_total (cfg : Cfg) : (Sys.init cfg).total = cfg.mc := by
  simp [Sys.init, Sys.total]

/-! ### overload -/

theorem acceptMany_disabled (cfg : Cfg) (k : Nat) (s : Sys) : (acceptMany cfg k s).disabled = s.disabled := by
  induction k generalizing s with
  | zero => rfl
  | succ k ih =>
    unfold acceptMany
    split
    · rfl
    · rw [ih, (accept_spec cfg _ _).disabled]; rfl

theorem round_recovers (cfg : Cfg) (s : Sys) (hd : s.disabled = 1) (hf : s.curFds < cfg.lowat) (hl : s.lim ≠ 0)
    (hb : s.backlog ≠ []) :
    (s.round cfg).disabled = 0 ∧ (s.round cfg).backlog.length < s.backlog.length := by
  have hlc : loadCheck s.curFds cfg.lowat cfg.hiwat s.lim s.disabled = 0 := by
    simp [loadCheck, hd, hf, hl]
  unfold Sys.round
  simp only [hlc, if_true]
  obtain ⟨k, hk⟩ : ∃ k, acceptCount s.lim = k + 1 := ⟨acceptCount s.lim - 1, by have := acceptCount_pos s.lim hl; omega⟩
  rw [hk]
  constructor
  · rw [acceptMany_disabled]
  · exact acceptMany_backlog_lt cfg k _ hb

theorem lowat_le_hiwat (cfg : Cfg) : cfg.lowat ≤ cfg.hiwat := by
  unfold Cfg.lowat Cfg.hiwat lowatNum lowatDen hiwatNum hiwatDen
  omega

theorem round_stable (cfg : Cfg) (s : Sys) (hst : s.round cfg = s) (hb : s.backlog ≠ []) :
    s.lim = 0 ∨ cfg.lowat ≤ s.curFds := by
  by_cases hl : s.lim = 0
  · exact Or.inl hl
  · by_cases hf : s.curFds < cfg.lowat
    · exfalso
      have hh := lowat_le_hiwat cfg
      have hlc : loadCheck s.curFds cfg.lowat cfg.hiwat s.lim s.disabled = 0 := by
        unfold loadCheck
        by_cases hd : s.disabled = 0
        · have : ¬ (s.curFds > cfg.hiwat ∨ s.lim = 0) := by omega
          simp [hd, this]
        · simp [hd, hf, hl]
      obtain ⟨k, hk⟩ : ∃ k, acceptCount s.lim = k + 1 :=
        ⟨acceptCount s.lim - 1, by have := acceptCount_pos s.lim hl; omega⟩
      have hlt : (s.round cfg).backlog.length < s.backlog.length := by
        unfold Sys.round
        simp only [hlc, if_true]
        rw [hk]
        exact acceptMany_backlog_lt cfg k _ hb
      rw [hst] at hlt
      exact Nat.lt_irrefl _ hlt
    · exact Or.inr (by omega)

/-! ### graceful stop -/

theorem gracefulConn_expired (c : Conn) : gracefulConn true c = none := by
  unfold gracefulConn
  split
  · rfl
  · split <;> rfl

theorem sweep_none_conns (s : Sys) (f : Conn → Option Conn) (hf : ∀ c, f c = none) : (s.sweep f).conns = [] := by
  unfold Sys.sweep
  have h : ∀ (l : List (Nat × Conn)) (s : Sys), s.conns = l →
      (l.foldl (fun s p => match f p.2 with
        | none => s.putConn p.1 (none, [])
        | some c => s.putConn p.1 (some c, [])) s).conns = [] := by
    intro l
    induction l with
    | nil => intro s hs; simpa using hs
    | cons p rest ih =>
      intro s hs
      simp only [List.foldl_cons]
      apply ih
      obtain ⟨j, d⟩ := p
      simp only [hf]
      simp [Sys.putConn, Sys.release, Sys.modClient, Sys.setClient, hs, lookupConn, eraseConn]
  exact h s.conns s rfl

theorem gracefulPass_expired (cfg : Cfg) (s : Sys) (hd : s.disabled = 3) (he : s.expired = true) :
    (s.gracefulPass cfg).exited = true := by
  unfold Sys.gracefulPass
  simp only [Sys.gracefulStart, hd, if_true, he]
  unfold Sys.exitIfIdle
  rw [sweep_none_conns s _ gracefulConn_expired]
  rfl

/-- what graceful shutdown keeps fixed from one action to the next: listen sockets closed, nobody
    waiting, the flag set -/
structure Stopping (s : Sys) : Prop where
  graceful : s.graceful = true
  disabled : s.disabled = 3
  backlog : s.backlog = []

theorem act_stopping (cfg : Cfg) (s : Sys) (op : Op) (h : Stopping s) :
    Stopping (s.act cfg op) ∧ (s.act cfg op).conns.length ≤ s.conns.length := by
  have hg := h.graceful; have hd := h.disabled; have hb := h.backlog
  cases op with
  | tick n =>
    simp only [Sys.act]
    split
    · exact ⟨⟨hg, hd, hb⟩, Nat.le_refl _⟩
    · have hn := neutral_sweep { s with now := s.now + n } (tickConn cfg (s.now + n))
      exact ⟨⟨hn.graceful.trans hg, hn.disabled.trans hd, hn.backlog.trans hb⟩, hn.conns_le⟩
  | open_ i =>
    simp only [Sys.act, hd]
    split
    · exact ⟨⟨hg, hd, hb⟩, Nat.le_refl _⟩
    · exact ⟨⟨hg, hd, hb⟩, Nat.le_refl _⟩
  | prepare i r =>
    simp only [Sys.act]
    split <;> exact ⟨⟨hg, hd, hb⟩, Nat.le_refl _⟩
  | send i n =>
    simp only [Sys.act]
    repeat' (first
      | exact ⟨⟨hg, hd, hb⟩, Nat.le_refl _⟩
      | exact ⟨⟨(neutral_onConn _ _ _).graceful.trans hg, (neutral_onConn _ _ _).disabled.trans hd,
                (neutral_onConn _ _ _).backlog.trans hb⟩, (neutral_onConn _ _ _).conns_le⟩
      | split)
  | read i =>
    simp only [Sys.act]
    split
    · exact ⟨⟨hg, hd, hb⟩, Nat.le_refl _⟩
    · have hn := (neutral_onConn s i fun c => (some (clientRead s.now c), [])).trans (neutral_modClient _ i Client.afterRead)
      exact ⟨⟨hn.graceful.trans hg, hn.disabled.trans hd, hn.backlog.trans hb⟩, hn.conns_le⟩
  | drain i =>
    simp only [Sys.act]
    split
    · exact ⟨⟨hg, hd, hb⟩, Nat.le_refl _⟩
    · have hn := (neutral_onConn s i fun c => (clientDrain s.now c, [])).trans (neutral_modClient _ i Client.afterRead)
      exact ⟨⟨hn.graceful.trans hg, hn.disabled.trans hd, hn.backlog.trans hb⟩, hn.conns_le⟩
  | fin i =>
    simp only [Sys.act]
    repeat' (first
      | exact ⟨⟨hg, hd, hb⟩, Nat.le_refl _⟩
      | exact ⟨⟨(neutral_onConn _ _ _).graceful.trans hg, (neutral_onConn _ _ _).disabled.trans hd,
                (neutral_onConn _ _ _).backlog.trans hb⟩, (neutral_onConn _ _ _).conns_le⟩
      | split)
  | close i =>
    simp only [Sys.act]
    repeat' (first
      | exact ⟨⟨hg, hd, hb⟩, Nat.le_refl _⟩
      | exact ⟨⟨(neutral_onConn _ _ _).graceful.trans hg, (neutral_onConn _ _ _).disabled.trans hd,
                (neutral_onConn _ _ _).backlog.trans hb⟩, (neutral_onConn _ _ _).conns_le⟩
      | split)
  | graceful =>
    simp only [Sys.act, hg, if_true]
    split
    · exact ⟨⟨hg, hd, hb⟩, Nat.le_refl _⟩
    · exact ⟨⟨rfl, hd, hb⟩, Nat.le_refl _⟩
  | wake => exact ⟨⟨hg, hd, hb⟩, Nat.le_refl _⟩

theorem halt_stopping (s : Sys) (h : Stopping s) : Stopping s.halt ∧ s.halt.conns.length ≤ s.conns.length := by
  unfold Sys.halt
  split
  · exact ⟨⟨h.graceful, h.disabled, rfl⟩, by simp⟩
  · exact ⟨h, Nat.le_refl _⟩

theorem gracefulPass_stopping (cfg : Cfg) (s : Sys) (h : Stopping s) :
    Stopping (s.gracefulPass cfg) ∧ (s.gracefulPass cfg).conns.length ≤ s.conns.length := by
  unfold Sys.gracefulPass
  simp only [Sys.gracefulStart, h.disabled, if_true]
  have hn := neutral_sweep s (gracefulConn s.expired)
  unfold Sys.exitIfIdle
  split
  · exact ⟨⟨hn.graceful.trans h.graceful, hn.disabled.trans h.disabled, hn.backlog.trans h.backlog⟩, hn.conns_le⟩
  · exact ⟨⟨hn.graceful.trans h.graceful, hn.disabled.trans h.disabled, hn.backlog.trans h.backlog⟩, hn.conns_le⟩

theorem settle_stopping (cfg : Cfg) (s : Sys) (h : Stopping s) :
    Stopping (s.settle cfg) ∧ (s.settle cfg).conns.length ≤ s.conns.length := by
  unfold Sys.settle
  split
  · exact halt_stopping s h
  · have h1 := gracefulPass_stopping cfg s h
    have h2 := halt_stopping _ h1.1
    have hn := neutral_markAccepted (s.gracefulPass cfg).halt
    simp only [Sys.loopToRest, h.graceful, if_true]
    exact ⟨⟨hn.graceful.trans h2.1.graceful, hn.disabled.trans h2.1.disabled, hn.backlog.trans h2.1.backlog⟩,
      Nat.le_trans hn.conns_le (Nat.le_trans h2.2 h1.2)⟩

theorem step_stopping (cfg : Cfg) (s : Sys) (op : Op) (h : Stopping s) :
    Stopping (s.step cfg op) ∧ (s.step cfg op).conns.length ≤ s.conns.length := by
  have h1 := act_stopping cfg s op h
  have h2 := settle_stopping cfg _ h1.1
  exact ⟨h2.1, Nat.le_trans h2.2 h1.2⟩

theorem gracefulStart_stopping (cfg : Cfg) (s : Sys) (hg : s.graceful = true) (hd : s.disabled ≠ 3) :
    Stopping (s.gracefulStart cfg) ∧
    (s.gracefulStart cfg).expireTs = (if cfg.gt = 0 then 0 else s.now + cfg.gt) ∧
    (s.gracefulStart cfg).conns.length ≤ s.conns.length ∧ (s.gracefulStart cfg).now = s.now := by
  unfold Sys.gracefulStart
  rw [if_neg hd]
  have hn := neutral_resetBacklog s
  refine ⟨⟨?_, rfl, rfl⟩, rfl, ?_, ?_⟩
  · simpa [Sys.closeListen] using hn.graceful.trans hg
  · simpa [Sys.closeListen] using hn.conns_le
  · simpa [Sys.closeListen] using hn.now

/-- the main loop's reaction to the first graceful-shutdown signal -/
theorem settle_graceful_first (cfg : Cfg) (s : Sys) (hg : s.graceful = true) (he : s.exited = false)
    (hd : s.disabled ≠ 3) :
    Stopping (s.settle cfg) ∧ (s.settle cfg).conns.length ≤ s.conns.length ∧
    (s.settle cfg).expireTs = (if cfg.gt = 0 then 0 else s.now + cfg.gt) := by
  have h1 := gracefulStart_stopping cfg s hg hd
  unfold Sys.settle
  rw [if_neg (by simp [he])]
  unfold Sys.loopToRest
  rw [if_pos hg]
  unfold Sys.gracefulPass
  simp only
  generalize s.gracefulStart cfg = s1 at h1
  have hn := neutral_sweep s1 (gracefulConn s1.expired)
  have hs2 : Stopping (s1.sweep (gracefulConn s1.expired)).exitIfIdle ∧
      (s1.sweep (gracefulConn s1.expired)).exitIfIdle.conns.length ≤ s1.conns.length ∧
      (s1.sweep (gracefulConn s1.expired)).exitIfIdle.expireTs = s1.expireTs := by
    unfold Sys.exitIfIdle
    split
    · exact ⟨⟨hn.graceful.trans h1.1.graceful, hn.disabled.trans h1.1.disabled, hn.backlog.trans h1.1.backlog⟩,
        hn.conns_le, hn.expireTs⟩
    · exact ⟨⟨hn.graceful.trans h1.1.graceful, hn.disabled.trans h1.1.disabled, hn.backlog.trans h1.1.backlog⟩,
        hn.conns_le, hn.expireTs⟩
  generalize (s1.sweep (gracefulConn s1.expired)).exitIfIdle = s2 at hs2
  have h3 := halt_stopping s2 hs2.1
  have h3e : s2.halt.expireTs = s2.expireTs := by unfold Sys.halt; split <;> rfl
  have hm := neutral_markAccepted s2.halt
  refine ⟨⟨hm.graceful.trans h3.1.graceful, hm.disabled.trans h3.1.disabled, hm.backlog.trans h3.1.backlog⟩, ?_, ?_⟩
  · have := h1.2.2.1; have := hm.conns_le; have := h3.2; have := hs2.2.1; omega
  · rw [hm.expireTs, h3e, hs2.2.2, h1.2.1]

theorem gracefulConn_inflight (c : Conn)
    (h : c.st = .write ∨ c.st = .readPost ∨ (c.st = .read ∧ (c.n ≤ 1 ∨ c.hdrBuf ≠ 0))) :
    gracefulConn false c = some { c with keepAlive := false } := by
  unfold gracefulConn
  rcases h with h | h | ⟨h, h'⟩
  · simp [h]
  · simp [h]
  · have : ¬ (c.n > 1 ∧ c.hdrBuf = 0) := by omega
    simp [h, this]

/-! ## size limits -/

/-- a response that forbids keep-alive ends in the close state (or the connection is gone) -/
theorem respond_close (cfg : Cfg) (now : Int) (c : Conn) (status : Nat) (complete : Bool) :
    (respond cfg now c status false complete false).2 = [status] ∧
    ∀ c', (respond cfg now c status false complete false).1 = some c' → c'.st = .close := by
  unfold respond finishResponse toClose
  simp only [Bool.false_and, Bool.false_eq_true, if_false]
  refine ⟨trivial, ?_⟩
  · intro c' h
    split at h
    · cases h
    · cases h; rfl

theorem recv_head_431 (cfg : Cfg) (now : Int) (c : Conn) (r : Req) (n : Nat) (hs : c.st = .read)
    (h : (c.hdrBuf + n < r.H ∧ cfg.fs < c.hdrBuf + n) ∨ (r.H ≤ c.hdrBuf + n ∧ cfg.fs < r.H)) :
    (recv cfg now c r n).2 = [431] ∧ ∀ c', (recv cfg now c r n).1 = some c' → c'.st = .close := by
  unfold recv
  simp only [hs]
  rcases h with ⟨h1, h2⟩ | ⟨h1, h2⟩
  · simp only [h1, if_true, gt_iff_lt, h2]
    exact respond_close cfg now _ 431 true
  · have : ¬ (c.hdrBuf + n < r.H) := by omega
    simp only [this, if_false, gt_iff_lt, h2, if_true]
    exact respond_close cfg now _ 431 true

theorem recv_cl_413 (cfg : Cfg) (now : Int) (c : Conn) (r : Req) (n : Nat) (hs : c.st = .read)
    (hk : r.kind = .post) (hh : r.H ≤ c.hdrBuf + n) (hf : r.H ≤ cfg.fs) (hr : cfg.rs ≠ 0)
    (hb : cfg.rs * 1024 < r.B) :
    (recv cfg now c r n).2 = [413] ∧ ∀ c', (recv cfg now c r n).1 = some c' → c'.st = .close := by
  unfold recv
  have h1 : ¬ (c.hdrBuf + n < r.H) := by omega
  have h2 : ¬ (r.H > cfg.fs) := by omega
  have h3 : cfg.rs ≠ 0 ∧ r.B > cfg.rs * 1024 := ⟨hr, hb⟩
  simp only [hs, h1, h2, if_false, hk]
  rw [if_pos h3]
  exact respond_close cfg now _ 413 false

theorem bodyStep_chunk_413 (cfg : Cfg) (now : Int) (c : Conn) (add : Nat) (hk : c.req.kind = .chunked)
    (h : chunk413 cfg c.req (c.bodyGot + add) = true) :
    (bodyStep cfg now c add).2 = [413] ∧ ∀ c', (bodyStep cfg now c add).1 = some c' → c'.st = .close := by
  unfold bodyStep
  simp only [hk, h, if_true]
  exact respond_close cfg now _ 413 false

theorem respond_read_hdr (cfg : Cfg) (now : Int) (c : Conn) (status : Nat) (big complete ka : Bool) :
    ∀ c', (respond cfg now c status big complete ka).1 = some c' → c'.st = .read → c'.hdrBuf = 0 := by
  intro c' h hs
  unfold respond at h
  simp only at h
  split at h
  · cases h; cases hs
  · unfold finishResponse at h
    split at h
    · cases h; rfl
    · unfold toClose at h
      split at h
      · cases h
      · cases h; cases hs

theorem bodyStep_read_hdr (cfg : Cfg) (now : Int) (c : Conn) (add : Nat) :
    ∀ c', (bodyStep cfg now c add).1 = some c' → c'.st = .read → c'.hdrBuf = 0 := by
  intro c' h hs
  unfold bodyStep at h
  simp only at h
  split at h
  · exact respond_read_hdr _ _ _ _ _ _ _ c' h hs
  · split at h
    · exact respond_read_hdr _ _ _ _ _ _ _ c' h hs
    · cases h; cases hs
  · split at h
    · exact respond_read_hdr _ _ _ _ _ _ _ c' h hs
    · split at h
      · exact respond_read_hdr _ _ _ _ _ _ _ c' h hs
      · cases h; cases hs

/-- at rest, an incomplete request head never occupies more than max-request-field-size -/
theorem recv_hdrBuf_le (cfg : Cfg) (now : Int) (c : Conn) (r : Req) (n : Nat) (hs : c.st = .read) :
    ∀ c', (recv cfg now c r n).1 = some c' → c'.st = .read → c'.hdrBuf ≤ cfg.fs := by
  intro c' h hs'
  unfold recv at h
  simp only [hs] at h
  split at h
  · split at h
    · rw [respond_read_hdr _ _ _ _ _ _ _ c' h hs']; exact Nat.zero_le _
    · cases h; simp only; omega
  · split at h
    · rw [respond_read_hdr _ _ _ _ _ _ _ c' h hs']; exact Nat.zero_le _
    · split at h
      · rw [respond_read_hdr _ _ _ _ _ _ _ c' h hs']; exact Nat.zero_le _
      · split at h
        · rw [respond_read_hdr _ _ _ _ _ _ _ c' h hs']; exact Nat.zero_le _
        · rw [bodyStep_read_hdr _ _ _ _ c' h hs']; exact Nat.zero_le _
      · rw [bodyStep_read_hdr _ _ _ _ c' h hs']; exact Nat.zero_le _

theorem chunk413_of_large (cfg : Cfg) (r : Req) (got : Nat) (hr : cfg.rs ≠ 0) (hc : r.csz ≠ 0)
    (hbig : cfg.rs * 1024 < chunkCount r * r.csz) (hgot : chunkedTotal r ≤ got) :
    chunk413 cfg r got = true := by
  unfold chunk413
  have hk : cfg.rs * 1024 / r.csz + 1 ≤ chunkCount r := by
    have : cfg.rs * 1024 / r.csz < chunkCount r := by
      apply (Nat.div_lt_iff_lt_mul (Nat.pos_of_ne_zero hc)).mpr
      exact hbig
    omega
  have hend : (cfg.rs * 1024 / r.csz + 1 - 1) * chunkUnit r.csz + hexLen r.csz + 2 ≤ got := by
    have h1 : (cfg.rs * 1024 / r.csz + 1 - 1) * chunkUnit r.csz + chunkUnit r.csz ≤ chunkCount r * chunkUnit r.csz := by
      have : (cfg.rs * 1024 / r.csz + 1) * chunkUnit r.csz ≤ chunkCount r * chunkUnit r.csz :=
        Nat.mul_le_mul_right _ hk
      simpa [Nat.add_mul] using this
    have h2 : hexLen r.csz + 2 ≤ chunkUnit r.csz := by unfold chunkUnit; omega
    unfold chunkedTotal at hgot
    omega
  have hend' : cfg.rs * 1024 / r.csz * chunkUnit r.csz + hexLen r.csz + 2 ≤ got := by
    simpa using hend
  simp [hr, hc, hk, hend']

/-- a chunked body that is answered normally decodes to at most max-request-size -/
theorem bodyStep_chunked_ok_bounded (cfg : Cfg) (now : Int) (c : Conn) (add : Nat) (hk : c.req.kind = .chunked)
    (hr : cfg.rs ≠ 0) (hc : c.req.csz ≠ 0) (h : (bodyStep cfg now c add).2 = [200]) :
    chunkCount c.req * c.req.csz ≤ cfg.rs * 1024 := by
  apply Decidable.byContradiction
  intro hbig
  unfold bodyStep at h
  simp only [hk] at h
  split at h
  · simp [respond] at h
  · rename_i h413
    split at h
    · rename_i hgot
      exact h413 (chunk413_of_large cfg c.req _ hr hc (by omega) hgot)
    · simp at h

end LtVerif.Lifecycle
