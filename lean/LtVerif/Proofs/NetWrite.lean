/-
  Helper lemmas for the socket-writer model (Model/NetWrite.lean): what every step of the
  writer does to "bytes accepted so far ++ bytes still queued".
-/
import LtVerif.Model.NetWrite
namespace LtVerif
open B

theorem Chunk.rem_length {c : Chunk} (h : c.WF) : c.rem.length = c.remLen := by
  cases c with
  | mem d o => simp [Chunk.rem, Chunk.remLen]
  | file ct o e =>
    simp only [Chunk.WF] at h
    simp only [Chunk.rem, Chunk.remLen, List.length_drop, List.length_take]
    omega

theorem Chunk.rem_advance (c : Chunk) (n : Nat) : (c.advance n).rem = c.rem.drop n := by
  cases c with
  | mem d o => simp [Chunk.rem, Chunk.advance, Nat.add_comm]
  | file ct o e => simp [Chunk.rem, Chunk.advance, Nat.add_comm]

theorem Chunk.advance_WF {c : Chunk} {n : Nat} (h : c.WF) (hn : n < c.remLen) : (c.advance n).WF := by
  cases c with
  | mem d o =>
    simp only [Chunk.WF, Chunk.remLen, Chunk.advance] at *
    omega
  | file ct o e =>
    simp only [Chunk.WF, Chunk.remLen, Chunk.advance] at *
    omega

theorem cqFlat_cons (c : Chunk) (q : Cq) : cqFlat (c :: q) = c.rem ++ cqFlat q := by
  simp [cqFlat]

theorem CqWF.tail {c : Chunk} {q : Cq} (h : CqWF (c :: q)) : CqWF q :=
  fun x hx => h x (List.mem_cons_of_mem _ hx)

theorem CqWF.head {c : Chunk} {q : Cq} (h : CqWF (c :: q)) : c.WF := h c (by simp)

/-- chunkqueue_mark_written(): exactly the first `n` bytes leave the queue -/
theorem markWritten_flat : ∀ (q : Cq) (n : Nat), CqWF q → cqFlat (markWritten q n) = (cqFlat q).drop n
  | [], n, _ => by simp [markWritten, cqFlat]
  | c :: rest, n, h => by
    have hl := Chunk.rem_length h.head
    unfold markWritten
    split
    · rename_i hge
      rw [markWritten_flat rest (n - c.remLen) h.tail, cqFlat_cons, List.drop_append]
      have : c.rem.drop n = [] := by
        apply List.drop_eq_nil_of_le
        omega
      rw [this, hl]
      simp
    · rename_i hlt
      rw [cqFlat_cons, cqFlat_cons, Chunk.rem_advance, List.drop_append_of_le_length (by omega)]

theorem markWritten_WF : ∀ (q : Cq) (n : Nat), CqWF q → CqWF (markWritten q n)
  | [], _, _ => by simp [markWritten, CqWF]
  | c :: rest, n, h => by
    unfold markWritten
    split
    · exact markWritten_WF rest _ h.tail
    · rename_i hlt
      intro x hx
      rcases List.mem_cons.mp hx with e | e
      · subst e; exact Chunk.advance_WF h.head (by omega)
      · exact h.tail x e

theorem removeFinished_flat : ∀ (q : Cq), CqWF q → cqFlat (removeFinished q) = cqFlat q
  | [], _ => rfl
  | c :: rest, h => by
    unfold removeFinished
    split
    · rename_i h0
      have hl := Chunk.rem_length h.head
      have : c.rem = [] := List.eq_nil_of_length_eq_zero (by omega)
      rw [removeFinished_flat rest h.tail, cqFlat_cons, this]
      simp
    · rfl

theorem removeFinished_WF : ∀ (q : Cq), CqWF q → CqWF (removeFinished q)
  | [], _ => by simp [removeFinished, CqWF]
  | c :: rest, h => by
    unfold removeFinished
    split
    · exact removeFinished_WF rest h.tail
    · exact h

/-- the iovec array of writev() is a prefix of the queued bytes -/
theorem gatherIov_prefix (maxBytes : Nat) : ∀ (q : Cq) (toSend num : Nat),
    ∃ t, cqFlat q = (gatherIov maxBytes q toSend num).flatten ++ t
  | [], _, _ => ⟨[], by simp [gatherIov, cqFlat]⟩
  | .file ct o e :: rest, _, _ => ⟨cqFlat (.file ct o e :: rest), by simp [gatherIov]⟩
  | .mem d o :: rest, toSend, num => by
    unfold gatherIov
    split
    · rename_i hpos
      simp only []
      split
      · refine ⟨(d.drop o).drop (min (d.length - o) (maxBytes - toSend)) ++ cqFlat rest, ?_⟩
        simp only [cqFlat_cons, Chunk.rem, List.flatten_cons, List.flatten_nil, List.append_nil]
        rw [← List.append_assoc, List.take_append_drop]
      · rename_i hcont
        obtain ⟨t, ht⟩ := gatherIov_prefix maxBytes rest
          (toSend + min (d.length - o) (maxBytes - toSend)) (num + 1)
        refine ⟨t, ?_⟩
        have hfull : min (d.length - o) (maxBytes - toSend) = d.length - o := by omega
        have htake : (d.drop o).take (d.length - o) = d.drop o :=
          List.take_of_length_le (by simp)
        simp only [List.flatten_cons]
        rw [cqFlat_cons, ht, hfull, htake]
        simp [Chunk.rem]
    · rename_i hz
      obtain ⟨t, ht⟩ := gatherIov_prefix maxBytes rest toSend num
      refine ⟨t, ?_⟩
      have : d.drop o = [] := List.drop_eq_nil_of_le (by omega)
      rw [cqFlat_cons, ht]
      simp [Chunk.rem, this]

/-- the writer's invariant between two states of one connection's write queue -/
structure NwInv (a b : NwSt) : Prop where
  bytes : b.acc ++ cqFlat b.q = a.acc ++ cqFlat a.q
  out : b.out + a.acc.length = a.out + b.acc.length
  ext : ∃ t, b.acc = a.acc ++ t
  wf : CqWF b.q

theorem NwInv.refl {a : NwSt} (h : CqWF a.q) : NwInv a a :=
  ⟨rfl, rfl, ⟨[], by simp⟩, h⟩

theorem NwInv.trans {a b c : NwSt} (h1 : NwInv a b) (h2 : NwInv b c) : NwInv a c := by
  obtain ⟨t1, ht1⟩ := h1.ext
  obtain ⟨t2, ht2⟩ := h2.ext
  refine ⟨h2.bytes.trans h1.bytes, ?_, ⟨t1 ++ t2, by rw [ht2, ht1]; simp⟩, h2.wf⟩
  have := h1.out
  have := h2.out
  omega

/-- states that differ only in schedule / trace / fault counter are the same for the invariant -/
theorem NwInv.of_same {a b : NwSt} (hq : b.q = a.q) (hacc : b.acc = a.acc) (hout : b.out = a.out)
    (h : CqWF a.q) : NwInv a b :=
  ⟨by rw [hq, hacc], by rw [hout, hacc], ⟨[], by simp [hacc]⟩, by rw [hq]; exact h⟩

/-- network_write_accounting(): `data` was handed to the kernel, `wr` bytes of it were accepted;
    `st` may differ from `st0` in schedule / trace / fault counter only -/
theorem account_inv (st0 st : NwSt) (maxBytes wr toSend : Nat) (data : Bytes)
    (hq : st.q = st0.q) (hacc : st.acc = st0.acc) (hout : st.out = st0.out) (h : CqWF st0.q)
    (hpre : ∃ t, cqFlat st0.q = data ++ t) (hwr : wr ≤ data.length) :
    NwInv st0 (account st maxBytes wr toSend data).2.1 := by
  obtain ⟨t, ht⟩ := hpre
  simp only [account]
  refine ⟨?_, ?_, ⟨data.take wr, by simp [hacc]⟩, by simp only [hq]; exact markWritten_WF _ _ h⟩
  · simp only [hq, hacc]
    rw [markWritten_flat _ _ h, ht, List.drop_append_of_le_length hwr, List.append_assoc]
    congr 1
    rw [← List.append_assoc, List.take_append_drop]
  · simp only [hacc, hout, List.length_append, List.length_take]
    omega

theorem writevMem_inv (st : NwSt) (maxBytes : Nat) (h : CqWF st.q) :
    NwInv st (writevMem st maxBytes).2.1 := by
  unfold writevMem
  simp only []
  split
  · exact ⟨by simp [removeFinished_flat _ h], rfl, ⟨[], by simp⟩, removeFinished_WF _ h⟩
  · cases hres : (popRes st.sched).1 with
    | ok n =>
      simp only [hres]
      exact account_inv st _ _ _ _ _ rfl rfl rfl h (gatherIov_prefix maxBytes st.q 0 0)
        (Nat.min_le_right _ _)
    | eagain => simp only [hres]; exact NwInv.of_same rfl rfl rfl h
    | eintr => simp only [hres]; exact NwInv.of_same rfl rfl rfl h
    | epipe => simp only [hres]; exact NwInv.of_same rfl rfl rfl h
    | econnreset => simp only [hres]; exact NwInv.of_same rfl rfl rfl h
    | enotconn => simp only [hres]; exact NwInv.of_same rfl rfl rfl h
    | einval => simp only [hres]; exact NwInv.of_same rfl rfl rfl h
    | eio => simp only [hres]; exact NwInv.of_same rfl rfl rfl h

/-- what pread()/sendfile() read at `c->offset` is a prefix of what the chunk still has to deliver -/
theorem file_read_prefix (ct : Bytes) (o e m : Nat) (hm : m ≤ e - o) :
    ∃ t, (Chunk.file ct o e).rem = (ct.drop o).take m ++ t := by
  refine ⟨((ct.take e).drop o).drop m, ?_⟩
  have : (ct.drop o).take m = ((ct.take e).drop o).take m := by
    rw [List.drop_take, List.take_take, Nat.min_eq_left hm]
  rw [this, List.take_append_drop]
  rfl

theorem fileNoMmap_inv (st : NwSt) (maxBytes : Nat) (h : CqWF st.q) :
    NwInv st (fileNoMmap st maxBytes).2.1 := by
  unfold fileNoMmap
  split
  · rename_i ct o e rest hq
    simp only []
    split
    · exact ⟨by simp [removeFinished_flat _ h], rfl, ⟨[], by simp⟩, removeFinished_WF _ h⟩
    · split
      · exact NwInv.refl h
      · obtain ⟨t, ht⟩ := file_read_prefix ct o e (min (min (e - o) maxBytes) Extracted.noMmapBufSize)
          (by omega)
        have hpre : ∃ t', cqFlat st.q
            = (ct.drop o).take (min (min (e - o) maxBytes) Extracted.noMmapBufSize) ++ t' :=
          ⟨t ++ cqFlat rest, by rw [hq, cqFlat_cons, ht, List.append_assoc]⟩
        cases hres : (popRes st.sched).1 with
        | ok n =>
          simp only [hres]
          exact account_inv st _ _ _ _ _ rfl rfl rfl h hpre (Nat.min_le_right _ _)
        | eagain => simp only [hres]; exact NwInv.of_same rfl rfl rfl h
        | eintr => simp only [hres]; exact NwInv.of_same rfl rfl rfl h
        | epipe => simp only [hres]; exact NwInv.of_same rfl rfl rfl h
        | econnreset => simp only [hres]; exact NwInv.of_same rfl rfl rfl h
        | enotconn => simp only [hres]; exact NwInv.of_same rfl rfl rfl h
        | einval => simp only [hres]; exact NwInv.of_same rfl rfl rfl h
        | eio => simp only [hres]; exact NwInv.of_same rfl rfl rfl h
  · exact NwInv.refl h

theorem fileNoMmap_inv' (st0 st : NwSt) (maxBytes : Nat)
    (hq : st.q = st0.q) (hacc : st.acc = st0.acc) (hout : st.out = st0.out) (h : CqWF st0.q) :
    NwInv st0 (fileNoMmap st maxBytes).2.1 :=
  (NwInv.of_same hq hacc hout h).trans (fileNoMmap_inv st maxBytes (by rw [hq]; exact h))

/-- sendfile() accepted `wr = |data|` bytes read from the file at the chunk's offset -/
theorem sent_inv (st0 st' : NwSt) (data : Bytes) (wr : Nat)
    (hq : st'.q = markWritten st0.q wr) (hacc : st'.acc = st0.acc ++ data) (hout : st'.out = st0.out + wr)
    (h : CqWF st0.q) (hpre : ∃ t, cqFlat st0.q = data ++ t) (hdl : data.length = wr) : NwInv st0 st' := by
  obtain ⟨t, ht⟩ := hpre
  subst hdl
  refine ⟨?_, ?_, ⟨data, hacc⟩, by rw [hq]; exact markWritten_WF _ _ h⟩
  · rw [hq, hacc, markWritten_flat _ _ h, ht]
    simp
  · rw [hacc, hout]
    simp only [List.length_append]
    omega

theorem fileSendfile_inv (st : NwSt) (maxBytes : Nat) (h : CqWF st.q) :
    NwInv st (fileSendfile st maxBytes).2.1 := by
  unfold fileSendfile
  split
  · rename_i ct o e rest hq
    simp only []
    split
    · exact ⟨by simp [removeFinished_flat _ h], rfl, ⟨[], by simp⟩, removeFinished_WF _ h⟩
    · cases hres : (popRes st.sched).1 with
      | ok n =>
        simp only [hres]
        split
        · rename_i hpos
          -- wr > 0 bytes were sent from the file at `offset`
          have hwr : min (min n (min (e - o) maxBytes)) (ct.length - o) ≤ e - o := by omega
          obtain ⟨t, ht⟩ := file_read_prefix ct o e _ hwr
          refine sent_inv st _ _ _ rfl rfl rfl h ⟨t ++ cqFlat rest, ?_⟩ ?_
          · rw [hq, cqFlat_cons, ht, List.append_assoc]
          · simp only [List.length_take, List.length_drop]
            omega
        · exact NwInv.of_same rfl rfl rfl h
      | eagain => simp only [hres]; exact NwInv.of_same rfl rfl rfl h
      | eintr => simp only [hres]; exact NwInv.of_same rfl rfl rfl h
      | epipe => simp only [hres]; exact NwInv.of_same rfl rfl rfl h
      | econnreset => simp only [hres]; exact NwInv.of_same rfl rfl rfl h
      | enotconn => simp only [hres]; exact NwInv.of_same rfl rfl rfl h
      | einval => simp only [hres]; exact fileNoMmap_inv' st _ maxBytes rfl rfl rfl h
      | eio => simp only [hres]; exact NwInv.of_same rfl rfl rfl h
  · exact NwInv.refl h

theorem nwStep_inv (b : Backend) (st : NwSt) (maxBytes : Nat) (h : CqWF st.q) :
    NwInv st (nwStep b st maxBytes).2.1 := by
  unfold nwStep
  split
  · exact NwInv.refl h
  · exact writevMem_inv st maxBytes h
  · cases b with
    | writev => exact fileNoMmap_inv st maxBytes h
    | sendfile => exact fileSendfile_inv st maxBytes h

theorem nwLoop_inv (b : Backend) : ∀ (fuel : Nat) (st : NwSt) (maxBytes : Nat), CqWF st.q →
    NwInv st (nwLoop b fuel st maxBytes).2
  | 0, st, _, h => NwInv.refl h
  | fuel + 1, st, maxBytes, h => by
    unfold nwLoop
    split
    · exact NwInv.refl h
    · have hs := nwStep_inv b st maxBytes h
      rcases hstep : nwStep b st maxBytes with ⟨rc, st', max'⟩
      rw [hstep] at hs
      simp only []
      split
      · exact hs
      · exact hs.trans (nwLoop_inv b fuel st' max' hs.wf)

theorem networkWrite_inv (b : Backend) (st : NwSt) (maxBytes : Nat) (h : CqWF st.q) :
    NwInv st (networkWrite b st maxBytes).2 :=
  nwLoop_inv b _ st maxBytes h

theorem driveGo_inv (b : Backend) (maxBytes : Nat) : ∀ (fuel : Nat) (rc : Int) (calls : Nat) (st : NwSt),
    CqWF st.q → NwInv st (driveGo b maxBytes fuel rc calls st).2.2
  | 0, _, _, st, h => NwInv.refl h
  | fuel + 1, rc, calls, st, h => by
    unfold driveGo
    split
    · exact NwInv.refl h
    · have hs := networkWrite_inv b st maxBytes h
      rcases hnw : networkWrite b st maxBytes with ⟨rc', st'⟩
      rw [hnw] at hs
      simp only []
      split
      · exact hs
      · exact hs.trans (driveGo_inv b maxBytes fuel rc' (calls + 1) st' hs.wf)

/-! ### progress: a cooperative socket empties the queue; retryable answers never abort -/

def meas (q : Cq) : Nat := cqLen q + q.length

theorem cqLen_cons (c : Chunk) (q : Cq) : cqLen (c :: q) = c.remLen + cqLen q := by
  simp [cqLen]

theorem cqFlat_length : ∀ (q : Cq), CqWF q → (cqFlat q).length = cqLen q
  | [], _ => rfl
  | c :: rest, h => by
    rw [cqFlat_cons, cqLen_cons, List.length_append, Chunk.rem_length h.head, cqFlat_length rest h.tail]

theorem Chunk.remLen_advance (c : Chunk) (n : Nat) : (c.advance n).remLen = c.remLen - n := by
  cases c <;> simp [Chunk.advance, Chunk.remLen] <;> omega

theorem markWritten_meas : ∀ (q : Cq) (n : Nat), n ≤ cqLen q →
    cqLen (markWritten q n) = cqLen q - n ∧ (markWritten q n).length ≤ q.length
  | [], n, _ => by simp [markWritten, cqLen]
  | c :: rest, n, h => by
    rw [cqLen_cons] at h
    unfold markWritten
    split
    · rename_i hge
      have := markWritten_meas rest (n - c.remLen) (by omega)
      rw [cqLen_cons]
      exact ⟨by omega, by simp; omega⟩
    · rename_i hlt
      rw [cqLen_cons, cqLen_cons, Chunk.remLen_advance]
      exact ⟨by omega, by simp⟩

theorem removeFinished_meas : ∀ (q : Cq), cqLen (removeFinished q) = cqLen q ∧ (removeFinished q).length ≤ q.length
  | [] => by simp [removeFinished]
  | c :: rest => by
    unfold removeFinished
    split
    · rename_i h0
      have := removeFinished_meas rest
      rw [cqLen_cons, h0]
      exact ⟨by omega, by simp; omega⟩
    · exact ⟨rfl, Nat.le_refl _⟩

/-- dropping a finished head chunk strictly shrinks the measure -/
theorem removeFinished_head (c : Chunk) (rest : Cq) (h0 : c.remLen = 0) :
    meas (removeFinished (c :: rest)) < meas (c :: rest) := by
  have := removeFinished_meas rest
  unfold removeFinished
  simp only [h0, if_true]
  unfold meas
  rw [cqLen_cons, h0]
  simp only [List.length_cons]
  omega

theorem gatherIov_nil_head (maxBytes : Nat) (d : Bytes) (o : Nat) (rest : Cq) (ts num : Nat)
    (h : gatherIov maxBytes (.mem d o :: rest) ts num = []) : d.length - o = 0 := by
  unfold gatherIov at h
  split at h
  · simp only [] at h
    split at h <;> simp at h
  · omega

theorem gatherIov_pos (maxBytes : Nat) : ∀ (q : Cq) (ts num : Nat), ts < maxBytes →
    gatherIov maxBytes q ts num ≠ [] → 0 < (gatherIov maxBytes q ts num).flatten.length
  | [], _, _, _, h => by simp [gatherIov] at h
  | .file .. :: _, _, _, _, h => by simp [gatherIov] at h
  | .mem d o :: rest, ts, num, hts, h => by
    unfold gatherIov at h ⊢
    split
    · rename_i hpos
      simp only []
      have hl : ((d.drop o).take (min (d.length - o) (maxBytes - ts))).length > 0 := by
        simp only [List.length_take, List.length_drop]; omega
      split
      · simp only [List.flatten_cons, List.flatten_nil, List.append_nil]; exact hl
      · simp only [List.flatten_cons, List.length_append]; omega
    · rename_i hz
      simp only [hz, if_false] at h
      exact gatherIov_pos maxBytes rest ts num hts h

/-- what a step guarantees when every socket answer is a non-empty acceptance -/
structure StepProg (st st' : NwSt) (rc : Int) (max' : Nat) : Prop where
  rcOk : rc = 0 ∨ rc = -3
  dec : meas st'.q < meas st.q
  budget : meas st'.q + st.sched.length ≤ meas st.q + st'.sched.length
  sub : ∀ r ∈ st'.sched, r ∈ st.sched
  maxpos : rc = 0 → max' > 0

theorem account_prog (st0 st : NwSt) (maxBytes wr toSend : Nat) (data : Bytes) (hq : st.q = st0.q)
    (hs : st.sched.length + 1 = st0.sched.length) (hsub : ∀ r ∈ st.sched, r ∈ st0.sched)
    (hwr : 0 < wr) (hle : wr ≤ cqLen st0.q) :
    StepProg st0 (account st maxBytes wr toSend data).2.1 (account st maxBytes wr toSend data).1
      (account st maxBytes wr toSend data).2.2 := by
  have hm := markWritten_meas st0.q wr hle
  simp only [account, hq]
  refine ⟨?_, ?_, ?_, hsub, ?_⟩
  · split <;> simp
  · unfold meas; simp only []; omega
  · unfold meas; simp only []; omega
  · intro h
    split at h
    · rename_i hc; exact hc.2
    · simp at h

theorem removeFinished_prog (st : NwSt) (maxBytes : Nat) (c : Chunk) (rest : Cq) (hq : st.q = c :: rest)
    (h0 : c.remLen = 0) (hmax : 0 < maxBytes) :
    StepProg st { st with q := removeFinished st.q } 0 maxBytes := by
  refine ⟨Or.inl rfl, ?_, ?_, fun r hr => hr, fun _ => hmax⟩
  · simp only [hq]; exact removeFinished_head c rest h0
  · have := removeFinished_head c rest h0
    simp only [hq]; omega

theorem writevMem_prog (st : NwSt) (maxBytes : Nat) (d : Bytes) (o : Nat) (rest : Cq) (k : Nat) (t : List WrRes)
    (hwf : CqWF st.q) (hq : st.q = .mem d o :: rest) (hmax : 0 < maxBytes) (hs : st.sched = .ok k :: t)
    (hk : 0 < k) :
    StepProg st (writevMem st maxBytes).2.1 (writevMem st maxBytes).1 (writevMem st maxBytes).2.2 := by
  unfold writevMem
  simp only []
  split
  · rename_i hemp
    have hnil : gatherIov maxBytes st.q 0 0 = [] := by simpa using hemp
    rw [hq] at hnil
    exact removeFinished_prog st maxBytes _ rest hq (by simpa [Chunk.remLen] using gatherIov_nil_head _ _ _ _ _ _ hnil) hmax
  · rename_i hne
    have hne' : gatherIov maxBytes st.q 0 0 ≠ [] := by simpa using hne
    have hpos := gatherIov_pos maxBytes st.q 0 0 hmax hne'
    obtain ⟨tl, htl⟩ := gatherIov_prefix maxBytes st.q 0 0
    have hle : (gatherIov maxBytes st.q 0 0).flatten.length ≤ cqLen st.q := by
      rw [← cqFlat_length st.q hwf, htl]; simp
    simp only [hs, popRes]
    exact account_prog st _ _ _ _ _ rfl (by simp [hs]) (by intro r hr; simp [hs]; exact Or.inr hr)
      (by omega) (by omega)

theorem bufsize_pos : 0 < Extracted.noMmapBufSize := by decide

theorem fileNoMmap_prog (st : NwSt) (maxBytes : Nat) (ct : Bytes) (o e : Nat) (rest : Cq) (k : Nat)
    (t : List WrRes) (hwf : CqWF st.q) (hq : st.q = .file ct o e :: rest) (hmax : 0 < maxBytes)
    (hs : st.sched = .ok k :: t) (hk : 0 < k) :
    StepProg st (fileNoMmap st maxBytes).2.1 (fileNoMmap st maxBytes).1 (fileNoMmap st maxBytes).2.2 := by
  have hc : (Chunk.file ct o e).WF := hwf _ (by rw [hq]; simp)
  simp only [Chunk.WF] at hc
  unfold fileNoMmap
  rw [hq]
  simp only []
  split
  · rename_i hz
    have : e - o = 0 := by omega
    have := removeFinished_prog st maxBytes (.file ct o e) rest hq (by simpa [Chunk.remLen] using this) hmax
    simpa [hq] using this
  · rename_i hnz
    have hb := bufsize_pos
    have hlen : ((ct.drop o).take (min (min (e - o) maxBytes) Extracted.noMmapBufSize)).length
        = min (min (e - o) maxBytes) Extracted.noMmapBufSize := by
      simp only [List.length_take, List.length_drop]; omega
    split
    · rename_i hemp
      have : ((ct.drop o).take (min (min (e - o) maxBytes) Extracted.noMmapBufSize)).length = 0 := by
        rw [List.isEmpty_iff] at hemp; rw [hemp]; rfl
      omega
    · simp only [hs, popRes]
      have hle : ((ct.drop o).take (min (min (e - o) maxBytes) Extracted.noMmapBufSize)).length ≤ cqLen st.q := by
        rw [hq, cqLen_cons, hlen]; simp only [Chunk.remLen]; omega
      have := account_prog st { st with sched := t, trace := st.trace ++ [Sys.write
          ((ct.drop o).take (min (min (e - o) maxBytes) Extracted.noMmapBufSize)).length] } maxBytes
        (min k ((ct.drop o).take (min (min (e - o) maxBytes) Extracted.noMmapBufSize)).length)
        ((ct.drop o).take (min (min (e - o) maxBytes) Extracted.noMmapBufSize)).length
        ((ct.drop o).take (min (min (e - o) maxBytes) Extracted.noMmapBufSize)) rfl (by simp [hs])
        (by intro r hr; simp [hs]; exact Or.inr hr) (by omega) (by omega)
      simpa [hq] using this

theorem fileSendfile_prog (st : NwSt) (maxBytes : Nat) (ct : Bytes) (o e : Nat) (rest : Cq) (k : Nat)
    (t : List WrRes) (hwf : CqWF st.q) (hq : st.q = .file ct o e :: rest) (hmax : 0 < maxBytes)
    (hs : st.sched = .ok k :: t) (hk : 0 < k) :
    StepProg st (fileSendfile st maxBytes).2.1 (fileSendfile st maxBytes).1 (fileSendfile st maxBytes).2.2 := by
  have hc : (Chunk.file ct o e).WF := hwf _ (by rw [hq]; simp)
  simp only [Chunk.WF] at hc
  unfold fileSendfile
  rw [hq]
  simp only []
  split
  · rename_i hz
    have : e - o = 0 := by omega
    have := removeFinished_prog st maxBytes (.file ct o e) rest hq (by simpa [Chunk.remLen] using this) hmax
    simpa [hq] using this
  · rename_i hnz
    simp only [hs, popRes]
    have hwr : 0 < min (min k (min (e - o) maxBytes)) (ct.length - o) := by omega
    simp only [hwr, if_true]
    have hle : min (min k (min (e - o) maxBytes)) (ct.length - o) ≤ cqLen (Chunk.file ct o e :: rest) := by
      rw [cqLen_cons]; simp only [Chunk.remLen]; omega
    have hm := markWritten_meas (Chunk.file ct o e :: rest) _ hle
    refine ⟨?_, ?_, ?_, ?_, ?_⟩
    · split
      · exact Or.inr rfl
      · split
        · exact Or.inl rfl
        · exact Or.inr rfl
    · simp only [hq]; unfold meas; omega
    · simp only [hq, hs, List.length_cons]; unfold meas; omega
    · intro r hr; simp only [hs]; exact List.mem_cons_of_mem _ hr
    · intro h
      split at h
      · simp at h
      · omega

theorem nwStep_prog (b : Backend) (st : NwSt) (maxBytes : Nat) (k : Nat) (t : List WrRes)
    (hwf : CqWF st.q) (hne : st.q ≠ []) (hmax : 0 < maxBytes) (hs : st.sched = .ok k :: t) (hk : 0 < k) :
    StepProg st (nwStep b st maxBytes).2.1 (nwStep b st maxBytes).1 (nwStep b st maxBytes).2.2 := by
  unfold nwStep
  split
  · rename_i hq; exact absurd hq hne
  · rename_i d o rest hq; exact writevMem_prog st maxBytes d o rest k t hwf hq hmax hs hk
  · rename_i ct o e rest hq
    cases b with
    | writev => exact fileNoMmap_prog st maxBytes ct o e rest k t hwf hq hmax hs hk
    | sendfile => exact fileSendfile_prog st maxBytes ct o e rest k t hwf hq hmax hs hk

/-- the progress invariant: enough non-empty acceptances left for everything still queued -/
structure ProgInv (st : NwSt) : Prop where
  wf : CqWF st.q
  ok : AllOkPos st.sched
  enough : meas st.q ≤ st.sched.length

theorem meas_pos {q : Cq} (h : q ≠ []) : 0 < meas q := by
  cases q with
  | nil => exact absurd rfl h
  | cons c r => unfold meas; simp only [List.length_cons]; omega

theorem ProgInv.sched_cons {st : NwSt} (h : ProgInv st) (hne : st.q ≠ []) :
    ∃ k t, st.sched = .ok k :: t ∧ 0 < k := by
  have := meas_pos hne
  have hl := h.enough
  cases hs : st.sched with
  | nil => rw [hs] at hl; simp at hl; omega
  | cons r t =>
    obtain ⟨k, rfl, hk⟩ := h.ok r (by rw [hs]; simp)
    exact ⟨k, t, rfl, hk⟩

theorem nwLoop_prog (b : Backend) : ∀ (fuel : Nat) (st : NwSt) (maxBytes : Nat), ProgInv st → 0 < maxBytes →
    (nwLoop b fuel st maxBytes).1 = 0 ∧ ProgInv (nwLoop b fuel st maxBytes).2 ∧
    meas (nwLoop b fuel st maxBytes).2.q ≤ meas st.q ∧
    (0 < fuel → st.q ≠ [] → meas (nwLoop b fuel st maxBytes).2.q < meas st.q)
  | 0, st, _, h, _ => ⟨rfl, h, Nat.le_refl _, fun h0 => absurd h0 (Nat.lt_irrefl 0)⟩
  | fuel + 1, st, maxBytes, h, hmax => by
    unfold nwLoop
    split
    · rename_i hemp
      have : st.q = [] := by simpa using hemp
      exact ⟨rfl, h, Nat.le_refl _, fun _ hne => absurd this hne⟩
    · rename_i hne0
      have hne : st.q ≠ [] := by simpa using hne0
      obtain ⟨k, t, hs, hk⟩ := h.sched_cons hne
      have hp := nwStep_prog b st maxBytes k t h.wf hne hmax hs hk
      have hinv := nwStep_inv b st maxBytes h.wf
      rcases hstep : nwStep b st maxBytes with ⟨rc, st', max'⟩
      rw [hstep] at hp hinv
      simp only [] at hp hinv ⊢
      have hpi : ProgInv st' := ⟨hinv.wf, fun r hr => h.ok r (hp.sub r hr), by have := hp.budget; have := h.enough; omega⟩
      split
      · rename_i hrc
        refine ⟨?_, hpi, Nat.le_of_lt hp.dec, fun _ _ => hp.dec⟩
        rcases hp.rcOk with e | e
        · exact absurd e hrc
        · simp [e]
      · rename_i hrc
        have hrc0 : rc = 0 := by simpa using hrc
        have ih := nwLoop_prog b fuel st' max' hpi (hp.maxpos hrc0)
        exact ⟨ih.1, ih.2.1, by have := ih.2.2.1; have := hp.dec; omega,
          fun _ _ => by have := ih.2.2.1; have := hp.dec; omega⟩

theorem networkWrite_prog (b : Backend) (st : NwSt) (maxBytes : Nat) (h : ProgInv st) (hmax : 0 < maxBytes) :
    (networkWrite b st maxBytes).1 = 0 ∧ ProgInv (networkWrite b st maxBytes).2 ∧
    (st.q ≠ [] → meas (networkWrite b st maxBytes).2.q < meas st.q) := by
  have := nwLoop_prog b (cqLen st.q + st.q.length + 1) st maxBytes h hmax
  exact ⟨this.1, this.2.1, fun hne => this.2.2.2 (by omega) hne⟩

theorem driveGo_prog (b : Backend) (maxBytes : Nat) (hmax : 0 < maxBytes) : ∀ (fuel : Nat) (calls : Nat) (st : NwSt),
    ProgInv st → meas st.q < fuel →
    (driveGo b maxBytes fuel 0 calls st).1 = 0 ∧ (driveGo b maxBytes fuel 0 calls st).2.2.q = []
  | 0, _, st, _, hf => by omega
  | fuel + 1, calls, st, h, hf => by
    unfold driveGo
    by_cases hq : st.q = []
    · simp [hq]
    · obtain ⟨k, t, hs, _⟩ := h.sched_cons hq
      have hqe : st.q.isEmpty = false := by
        cases hh : st.q with
        | nil => exact absurd hh hq
        | cons _ _ => rfl
      simp only [hqe, hs, List.isEmpty_cons, Bool.or_self, Bool.false_eq_true, if_false]
      have hp := networkWrite_prog b st maxBytes h hmax
      rw [hp.1]
      simp only [Int.lt_irrefl, if_false]
      exact driveGo_prog b maxBytes hmax fuel (calls + 1) _ hp.2.1 (by have := hp.2.2 hq; omega)

theorem popRes_mem (s : List WrRes) : ∀ r ∈ (popRes s).2, r ∈ s := by
  cases s with
  | nil => intro r hr; simp [popRes] at hr
  | cons a t => intro r hr; simp only [popRes] at hr; exact List.mem_cons_of_mem _ hr

/-- with EAGAIN / EINTR as the next answer a step never reports an error -/
theorem nwStep_again (b : Backend) (st : NwSt) (maxBytes : Nat) (hwf : CqWF st.q) (hmax : 0 < maxBytes)
    (hres : (popRes st.sched).1 = .eagain ∨ (popRes st.sched).1 = .eintr) :
    ((nwStep b st maxBytes).1 = 0 ∨ (nwStep b st maxBytes).1 = -3) ∧
    (∀ r ∈ (nwStep b st maxBytes).2.1.sched, r ∈ st.sched) ∧
    ((nwStep b st maxBytes).1 = 0 → 0 < (nwStep b st maxBytes).2.2) := by
  have hb := bufsize_pos
  unfold nwStep
  split
  · exact ⟨Or.inl rfl, fun r hr => hr, fun _ => hmax⟩
  · unfold writevMem
    simp only []
    split
    · exact ⟨Or.inl rfl, fun r hr => hr, fun _ => hmax⟩
    · rcases hres with e | e <;> simp only [e, writeErrRc] <;>
        exact ⟨by simp, popRes_mem _, fun h => by simp at h⟩
  · rename_i ct o e rest hq
    have hc : (Chunk.file ct o e).WF := hwf _ (by rw [hq]; simp)
    simp only [Chunk.WF] at hc
    cases b with
    | writev =>
      simp only []
      unfold fileNoMmap
      rw [hq]
      simp only []
      split
      · exact ⟨Or.inl rfl, fun r hr => by simpa [hq] using hr, fun _ => hmax⟩
      · split
        · rename_i hnz hemp
          exfalso
          have : ((ct.drop o).take (min (min (e - o) maxBytes) Extracted.noMmapBufSize)).length = 0 := by
            rw [List.isEmpty_iff] at hemp; rw [hemp]; rfl
          simp only [List.length_take, List.length_drop] at this
          omega
        · rcases hres with e' | e' <;> simp only [e', writeErrRc] <;>
            exact ⟨by simp, popRes_mem _, fun h => by simp at h⟩
    | sendfile =>
      simp only []
      unfold fileSendfile
      rw [hq]
      simp only []
      split
      · exact ⟨Or.inl rfl, fun r hr => by simpa [hq] using hr, fun _ => hmax⟩
      · rcases hres with e' | e' <;> simp only [e'] <;>
          exact ⟨by simp, popRes_mem _, fun h => by simp at h⟩

theorem nwStep_retry (b : Backend) (st : NwSt) (maxBytes : Nat) (hwf : CqWF st.q) (hmax : 0 < maxBytes)
    (hr : ∀ r ∈ st.sched, Retryable r) :
    ((nwStep b st maxBytes).1 = 0 ∨ (nwStep b st maxBytes).1 = -3) ∧
    (∀ r ∈ (nwStep b st maxBytes).2.1.sched, r ∈ st.sched) ∧
    ((nwStep b st maxBytes).1 = 0 → 0 < (nwStep b st maxBytes).2.2) := by
  by_cases hq : st.q = []
  · unfold nwStep; simp [hq, hmax]
  · cases hs : st.sched with
    | nil => rw [← hs]; exact nwStep_again b st maxBytes hwf hmax (Or.inl (by simp [hs, popRes]))
    | cons r t =>
      have hrr := hr r (by rw [hs]; simp)
      cases r with
      | ok k =>
        have hp := nwStep_prog b st maxBytes k t hwf hq hmax hs hrr
        exact ⟨hp.rcOk, by rw [← hs]; exact hp.sub, hp.maxpos⟩
      | eagain => rw [← hs]; exact nwStep_again b st maxBytes hwf hmax (Or.inl (by simp [hs, popRes]))
      | eintr => rw [← hs]; exact nwStep_again b st maxBytes hwf hmax (Or.inr (by simp [hs, popRes]))
      | epipe => exact absurd hrr (by simp [Retryable])
      | econnreset => exact absurd hrr (by simp [Retryable])
      | enotconn => exact absurd hrr (by simp [Retryable])
      | einval => exact absurd hrr (by simp [Retryable])
      | eio => exact absurd hrr (by simp [Retryable])

theorem nwLoop_retry (b : Backend) : ∀ (fuel : Nat) (st : NwSt) (maxBytes : Nat), CqWF st.q → 0 < maxBytes →
    (∀ r ∈ st.sched, Retryable r) →
    (nwLoop b fuel st maxBytes).1 = 0 ∧ (∀ r ∈ (nwLoop b fuel st maxBytes).2.sched, Retryable r)
  | 0, st, _, _, _, hr => ⟨rfl, hr⟩
  | fuel + 1, st, maxBytes, hwf, hmax, hr => by
    unfold nwLoop
    split
    · exact ⟨rfl, hr⟩
    · have hp := nwStep_retry b st maxBytes hwf hmax hr
      have hinv := nwStep_inv b st maxBytes hwf
      rcases hstep : nwStep b st maxBytes with ⟨rc, st', max'⟩
      rw [hstep] at hp hinv
      simp only [] at hp hinv ⊢
      have hr' : ∀ r ∈ st'.sched, Retryable r := fun r h => hr r (hp.2.1 r h)
      split
      · rename_i hrc
        refine ⟨?_, hr'⟩
        rcases hp.1 with e | e
        · exact absurd e hrc
        · simp [e]
      · rename_i hrc
        have hrc0 : rc = 0 := by simpa using hrc
        exact nwLoop_retry b fuel st' max' hinv.wf (hp.2.2 hrc0) hr'

theorem driveGo_retry (b : Backend) (maxBytes : Nat) (hmax : 0 < maxBytes) : ∀ (fuel : Nat) (calls : Nat) (st : NwSt),
    CqWF st.q → (∀ r ∈ st.sched, Retryable r) → (driveGo b maxBytes fuel 0 calls st).1 = 0
  | 0, _, _, _, _ => rfl
  | fuel + 1, calls, st, hwf, hr => by
    unfold driveGo
    split
    · rfl
    · have hp := nwLoop_retry b (cqLen st.q + st.q.length + 1) st maxBytes hwf hmax hr
      have hinv := networkWrite_inv b st maxBytes hwf
      have e : networkWrite b st maxBytes = nwLoop b (cqLen st.q + st.q.length + 1) st maxBytes := rfl
      rw [e] at hinv ⊢
      rcases hl : nwLoop b (cqLen st.q + st.q.length + 1) st maxBytes with ⟨rc', st'⟩
      rw [hl] at hp hinv
      simp only [] at hp hinv ⊢
      rw [hp.1]
      simp only [Int.lt_irrefl, if_false]
      exact driveGo_retry b maxBytes hmax fuel (calls + 1) _ hinv.wf hp.2

end LtVerif
