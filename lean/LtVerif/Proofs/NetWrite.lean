/-
  Helper lemmas for the socket-writer model (Model/NetWrite.lean): what every step of the
  writer does to "bytes accepted so far ++ bytes still queued".
-/
import LtVerif.Model.NetWrite
namespace LtVerif
open B

theorem Chunk.rem_length {c : Chunk} (h : c.WF) : c.rem.length = c.remLen := by
  cases c with
  | mem d o => simp [Chunk.rem, Chunk.remLen]
  | file ct o e =>
    simp only [Chunk.WF] at h
    simp only [Chunk.rem, Chunk.remLen, List.length_drop, List.length_take]
    omega

theorem Chunk.rem_advance (c : Chunk) (n : Nat) : (c.advance n).rem = c.rem.drop n := by
  cases c with
  | mem d o => simp [Chunk.rem, Chunk.advance, Nat.add_comm]
  | file ct o e => simp [Chunk.rem, Chunk.advance, Nat.add_comm]

theorem Chunk.advance_WF {c : Chunk} {n : Nat} (h : c.WF) (hn : n < c.remLen) : (c.advance n).WF := by
  cases c with
  | mem d o =>
    simp only [Chunk.WF, Chunk.remLen, Chunk.advance] at *
    omega
  | file ct o e =>
    simp only [Chunk.WF, Chunk.remLen, Chunk.advance] at *
    omega

theorem cqFlat_cons (c : Chunk) (q : Cq) : cqFlat (c :: q) = c.rem ++ cqFlat q := by
  simp [cqFlat]

theorem CqWF.tail {c : Chunk} {q : Cq} (h : CqWF (c :: q)) : CqWF q :=
  fun x hx => h x (List.mem_cons_of_mem _ hx)

theorem CqWF.head {c : Chunk} {q : Cq} (h : CqWF (c :: q)) : c.WF := h c (by simp)

/-- chunkqueue_mark_written(): exactly the first `n` bytes leave the queue -/
theorem markWritten_flat : ∀ (q : Cq) (n : Nat), CqWF q → cqFlat (markWritten q n) = (cqFlat q).drop n
  | [], n, _ => by simp [markWritten, cqFlat]
  | c :: rest, n, h => by
    have hl := Chunk.rem_length h.head
    unfold markWritten
    split
    · rename_i hge
      rw [markWritten_flat rest (n - c.remLen) h.tail, cqFlat_cons, List.drop_append]
      have : c.rem.drop n = [] := by
        apply List.drop_eq_nil_of_le
        omega
      rw [this, hl]
      simp
    · rename_i hlt
      rw [cqFlat_cons, cqFlat_cons, Chunk.rem_advance, List.drop_append_of_le_length (by omega)]

theorem markWritten_WF : ∀ (q : Cq) (n : Nat), CqWF q → CqWF (markWritten q n)
  | [], _, _ => by simp [markWritten, CqWF]
  | c :: rest, n, h => by
    unfold markWritten
    split
    · exact markWritten_WF rest _ h.tail
    · rename_i hlt
      intro x hx
      rcases List.mem_cons.mp hx with e | e
      · subst e; exact Chunk.advance_WF h.head (by omega)
      · exact h.tail x e

theorem removeFinished_flat : ∀ (q : Cq), CqWF q → cqFlat (removeFinished q) = cqFlat q
  | [], _ => rfl
  | c :: rest, h => by
    unfold removeFinished
    split
    · rename_i h0
      have hl := Chunk.rem_length h.head
      have : c.rem = [] := List.eq_nil_of_length_eq_zero (by omega)
      rw [removeFinished_flat rest h.tail, cqFlat_cons, this]
      simp
    · rfl

theorem removeFinished_WF : ∀ (q : Cq), CqWF q → CqWF (removeFinished q)
  | [], _ => by simp [removeFinished, CqWF]
  | c :: rest, h => by
    unfold removeFinished
    split
    · exact removeFinished_WF rest h.tail
    · exact h

/-- the iovec array of writev() is a prefix of the queued bytes -/
theorem gatherIov_prefix (maxBytes : Nat) : ∀ (q : Cq) (toSend num : Nat),
    ∃ t, cqFlat q = (gatherIov maxBytes q toSend num).flatten ++ t
  | [], _, _ => ⟨[], by simp [gatherIov, cqFlat]⟩
  | .file ct o e :: rest, _, _ => ⟨cqFlat (.file ct o e :: rest), by simp [gatherIov]⟩
  | .mem d o :: rest, toSend, num => by
    unfold gatherIov
    split
    · rename_i hpos
      simp only []
      split
      · refine ⟨(d.drop o).drop (min (d.length - o) (maxBytes - toSend)) ++ cqFlat rest, ?_⟩
        simp only [cqFlat_cons, Chunk.rem, List.flatten_cons, List.flatten_nil, List.append_nil]
        rw [← List.append_assoc, List.take_append_drop]
      · rename_i hcont
        obtain ⟨t, ht⟩ := gatherIov_prefix maxBytes rest
          (toSend + min (d.length - o) (maxBytes - toSend)) (num + 1)
        refine ⟨t, ?_⟩
        have hfull : min (d.length - o) (maxBytes - toSend) = d.length - o := by omega
        have htake : (d.drop o).take (d.length - o) = d.drop o :=
          List.take_of_length_le (by simp)
        simp only [List.flatten_cons]
        rw [cqFlat_cons, ht, hfull, htake]
        simp [Chunk.rem]
    · rename_i hz
      obtain ⟨t, ht⟩ := gatherIov_prefix maxBytes rest toSend num
      refine ⟨t, ?_⟩
      have : d.drop o = [] := List.drop_eq_nil_of_le (by omega)
      rw [cqFlat_cons, ht]
      simp [Chunk.rem, this]

/-- the writer's invariant between two states of one connection's write queue -/
structure NwInv (a b : NwSt) : Prop where
  bytes : b.acc ++ cqFlat b.q = a.acc ++ cqFlat a.q
  out : b.out + a.acc.length = a.out + b.acc.length
  ext : ∃ t, b.acc = a.acc ++ t
  wf : CqWF b.q

theorem NwInv.refl {a : NwSt} (h : CqWF a.q) : NwInv a a :=
  ⟨rfl, rfl, ⟨[], by simp⟩, h⟩

theorem NwInv.trans {a b c : NwSt} (h1 : NwInv a b) (h2 : NwInv b c) : NwInv a c := by
  obtain ⟨t1, ht1⟩ := h1.ext
  obtain ⟨t2, ht2⟩ := h2.ext
  refine ⟨h2.bytes.trans h1.bytes, ?_, ⟨t1 ++ t2, by rw [ht2, ht1]; simp⟩, h2.wf⟩
  have := h1.out
  have := h2.out
  omega

/-- states that differ only in schedule / trace / fault counter are the same for the invariant -/
theorem NwInv.of_same {a b : NwSt} (hq : b.q = a.q) (hacc : b.acc = a.acc) (hout : b.out = a.out)
    (h : CqWF a.q) : NwInv a b :=
  ⟨by rw [hq, hacc], by rw [hout, hacc], ⟨[], by simp [hacc]⟩, by rw [hq]; exact h⟩

/-- network_write_accounting(): `data` was handed to the kernel, `wr` bytes of it were accepted;
    `st` may differ from `st0` in schedule / trace / fault counter only -/
theorem account_inv (st0 st : NwSt) (maxBytes wr toSend : Nat) (data : Bytes)
    (hq : st.q = st0.q) (hacc : st.acc = st0.acc) (hout : st.out = st0.out) (h : CqWF st0.q)
    (hpre : ∃ t, cqFlat st0.q = data ++ t) (hwr : wr ≤ data.length) :
    NwInv st0 (account st maxBytes wr toSend data).2.1 := by
  obtain ⟨t, ht⟩ := hpre
  simp only [account]
  refine ⟨?_, ?_, ⟨data.take wr, by simp [hacc]⟩, by simp only [hq]; exact markWritten_WF _ _ h⟩
  · simp only [hq, hacc]
    rw [markWritten_flat _ _ h, ht, List.drop_append_of_le_length hwr, List.append_assoc]
    congr 1
    rw [← List.append_assoc, List.take_append_drop]
  · simp only [hacc, hout, List.length_append, List.length_take]
    omega

theorem writevMem_inv (st : NwSt) (maxBytes : Nat) (h : CqWF st.q) :
    NwInv st (writevMem st maxBytes).2.1 := by
  unfold writevMem
  simp only []
  split
  · exact ⟨by simp [removeFinished_flat _ h], rfl, ⟨[], by simp⟩, removeFinished_WF _ h⟩
  · cases hres : (popRes st.sched).1 with
    | ok n =>
      simp only [hres]
      exact account_inv st _ _ _ _ _ rfl rfl rfl h (gatherIov_prefix maxBytes st.q 0 0)
        (Nat.min_le_right _ _)
    | eagain => simp only [hres]; exact NwInv.of_same rfl rfl rfl h
    | eintr => simp only [hres]; exact NwInv.of_same rfl rfl rfl h
    | epipe => simp only [hres]; exact NwInv.of_same rfl rfl rfl h
    | econnreset => simp only [hres]; exact NwInv.of_same rfl rfl rfl h
    | enotconn => simp only [hres]; exact NwInv.of_same rfl rfl rfl h
    | einval => simp only [hres]; exact NwInv.of_same rfl rfl rfl h
    | eio => simp only [hres]; exact NwInv.of_same rfl rfl rfl h

/-- what pread()/sendfile() read at `c->offset` is a prefix of what the chunk still has to deliver -/
theorem file_read_prefix (ct : Bytes) (o e m : Nat) (hm : m ≤ e - o) :
    ∃ t, (Chunk.file ct o e).rem = (ct.drop o).take m ++ t := by
  refine ⟨((ct.take e).drop o).drop m, ?_⟩
  have : (ct.drop o).take m = ((ct.take e).drop o).take m := by
    rw [List.drop_take, List.take_take, Nat.min_eq_left hm]
  rw [this, List.take_append_drop]
  rfl

theorem fileNoMmap_inv (st : NwSt) (maxBytes : Nat) (h : CqWF st.q) :
    NwInv st (fileNoMmap st maxBytes).2.1 := by
  unfold fileNoMmap
  split
  · rename_i ct o e rest hq
    simp only []
    split
    · exact ⟨by simp [removeFinished_flat _ h], rfl, ⟨[], by simp⟩, removeFinished_WF _ h⟩
    · split
      · exact NwInv.refl h
      · obtain ⟨t, ht⟩ := file_read_prefix ct o e (min (min (e - o) maxBytes) Extracted.noMmapBufSize)
          (by omega)
        have hpre : ∃ t', cqFlat st.q
            = (ct.drop o).take (min (min (e - o) maxBytes) Extracted.noMmapBufSize) ++ t' :=
          ⟨t ++ cqFlat rest, by rw [hq, cqFlat_cons, ht, List.append_assoc]⟩
        cases hres : (popRes st.sched).1 with
        | ok n =>
          simp only [hres]
          exact account_inv st _ _ _ _ _ rfl rfl rfl h hpre (Nat.min_le_right _ _)
        | eagain => simp only [hres]; exact NwInv.of_same rfl rfl rfl h
        | eintr => simp only [hres]; exact NwInv.of_same rfl rfl rfl h
        | epipe => simp only [hres]; exact NwInv.of_same rfl rfl rfl h
        | econnreset => simp only [hres]; exact NwInv.of_same rfl rfl rfl h
      | enotconn => simp only [hres]; exact NwInv.of_same rfl rfl rfl h
        | enotconn => simp only [hres]; exact NwInv.of_same rfl rfl rfl h
    | enotconn => simp only [hres]; exact NwInv.of_same rfl rfl rfl h
        | einval => simp only [hres]; exact NwInv.of_same rfl rfl rfl h
        | eio => simp only [hres]; exact NwInv.of_same rfl rfl rfl h
  · exact NwInv.refl h

theorem fileNoMmap_inv' (st0 st : NwSt) (maxBytes : Nat)
    (hq : st.q = st0.q) (hacc : st.acc = st0.acc) (hout : st.out = st0.out) (h : CqWF st0.q) :
    NwInv st0 (fileNoMmap st maxBytes).2.1 :=
  (NwInv.of_same hq hacc hout h).trans (fileNoMmap_inv st maxBytes (by rw [hq]; exact h))

/-- sendfile() accepted `wr = |data|` bytes read from the file at the chunk's offset -/
theorem sent_inv (st0 st' : NwSt) (data : Bytes) (wr : Nat)
    (hq : st'.q = markWritten st0.q wr) (hacc : st'.acc = st0.acc ++ data) (hout : st'.out = st0.out + wr)
    (h : CqWF st0.q) (hpre : ∃ t, cqFlat st0.q = data ++ t) (hdl : data.length = wr) : NwInv st0 st' := by
  obtain ⟨t, ht⟩ := hpre
  subst hdl
  refine ⟨?_, ?_, ⟨data, hacc⟩, by rw [hq]; exact markWritten_WF _ _ h⟩
  · rw [hq, hacc, markWritten_flat _ _ h, ht]
    simp
  · rw [hacc, hout]
    simp only [List.length_append]
    omega

theorem fileSendfile_inv (st : NwSt) (maxBytes : Nat) (h : CqWF st.q) :
    NwInv st (fileSendfile st maxBytes).2.1 := by
  unfold fileSendfile
  split
  · rename_i ct o e rest hq
    simp only []
    split
    · exact ⟨by simp [removeFinished_flat _ h], rfl, ⟨[], by simp⟩, removeFinished_WF _ h⟩
    · cases hres : (popRes st.sched).1 with
      | ok n =>
        simp only [hres]
        split
        · rename_i hpos
          -- wr > 0 bytes were sent from the file at `offset`
          have hwr : min (min n (min (e - o) maxBytes)) (ct.length - o) ≤ e - o := by omega
          obtain ⟨t, ht⟩ := file_read_prefix ct o e _ hwr
          refine sent_inv st _ _ _ rfl rfl rfl h ⟨t ++ cqFlat rest, ?_⟩ ?_
          · rw [hq, cqFlat_cons, ht, List.append_assoc]
          · simp only [List.length_take, List.length_drop]
            omega
        · exact NwInv.of_same rfl rfl rfl h
      | eagain => simp only [hres]; exact NwInv.of_same rfl rfl rfl h
      | eintr => simp only [hres]; exact NwInv.of_same rfl rfl rfl h
      | epipe => simp only [hres]; exact NwInv.of_same rfl rfl rfl h
      | econnreset => simp only [hres]; exact NwInv.of_same rfl rfl rfl h
      | enotconn => simp only [hres]; exact NwInv.of_same rfl rfl rfl h
    | enotconn => simp only [hres]; exact NwInv.of_same rfl rfl rfl h
      | einval => simp only [hres]; exact fileNoMmap_inv' st _ maxBytes rfl rfl rfl h
      | eio => simp only [hres]; exact NwInv.of_same rfl rfl rfl h
  · exact NwInv.refl h

theorem nwStep_inv (b : Backend) (st : NwSt) (maxBytes : Nat) (h : CqWF st.q) :
    NwInv st (nwStep b st maxBytes).2.1 := by
  unfold nwStep
  split
  · exact NwInv.refl h
  · exact writevMem_inv st maxBytes h
  · cases b with
    | writev => exact fileNoMmap_inv st maxBytes h
    | sendfile => exact fileSendfile_inv st maxBytes h

theorem nwLoop_inv (b : Backend) : ∀ (fuel : Nat) (st : NwSt) (maxBytes : Nat), CqWF st.q →
    NwInv st (nwLoop b fuel st maxBytes).2
  | 0, st, _, h => NwInv.refl h
  | fuel + 1, st, maxBytes, h => by
    unfold nwLoop
    split
    · exact NwInv.refl h
    · have hs := nwStep_inv b st maxBytes h
      rcases hstep : nwStep b st maxBytes with ⟨rc, st', max'⟩
      rw [hstep] at hs
      simp only []
      split
      · exact hs
      · exact hs.trans (nwLoop_inv b fuel st' max' hs.wf)

theorem networkWrite_inv (b : Backend) (st : NwSt) (maxBytes : Nat) (h : CqWF st.q) :
    NwInv st (networkWrite b st maxBytes).2 :=
  nwLoop_inv b _ st maxBytes h

theorem driveGo_inv (b : Backend) (maxBytes : Nat) : ∀ (fuel : Nat) (rc : Int) (calls : Nat) (st : NwSt),
    CqWF st.q → NwInv st (driveGo b maxBytes fuel rc calls st).2.2
  | 0, _, _, st, h => NwInv.refl h
  | fuel + 1, rc, calls, st, h => by
    unfold driveGo
    split
    · exact NwInv.refl h
    · have hs := networkWrite_inv b st maxBytes h
      rcases hnw : networkWrite b st maxBytes with ⟨rc', st'⟩
      rw [hnw] at hs
      simp only []
      split
      · exact hs
      · exact hs.trans (driveGo_inv b maxBytes fuel rc' (calls + 1) st' hs.wf)

end LtVerif
