/-
  Helper lemmas about splitOn/join and the segment machine of Model/Path.lean.
-/
import LtVerif.Model.Path
namespace LtVerif
open B

theorem splitOn_ne_nil (sep : UInt8) (s : Bytes) : splitOn sep s ≠ [] := by
  induction s with
  | nil => simp [splitOn]
  | cons x xs ih =>
    unfold splitOn
    split
    · simp
    · split <;> simp

theorem splitOn_noslash {sep : UInt8} {p : Bytes} (h : sep ∉ p) : splitOn sep p = [p] := by
  induction p with
  | nil => simp [splitOn]
  | cons x xs ih =>
    have hx : x ≠ sep := fun e => h (by simp [e])
    have hxs : sep ∉ xs := fun e => h (by simp [e])
    simp [splitOn, ih hxs, hx]

theorem splitOn_cons_sep (sep : UInt8) (q : Bytes) :
    splitOn sep (sep :: q) = [] :: splitOn sep q := by
  have := splitOn_ne_nil sep q
  conv => lhs; unfold splitOn
  split
  · contradiction
  · rename_i p ps hp; simp [hp]

theorem splitOn_append_sep {sep : UInt8} {p : Bytes} (q : Bytes) (h : sep ∉ p) :
    splitOn sep (p ++ sep :: q) = p :: splitOn sep q := by
  induction p with
  | nil => simpa using splitOn_cons_sep sep q
  | cons x xs ih =>
    have hx : x ≠ sep := fun e => h (by simp [e])
    have hxs : sep ∉ xs := fun e => h (by simp [e])
    have := ih hxs
    simp only [List.cons_append]
    conv => lhs; unfold splitOn
    simp [this, hx]

theorem splitOn_mem_nosep (sep : UInt8) (s : Bytes) : ∀ seg ∈ splitOn sep s, sep ∉ seg := by
  induction s with
  | nil => simp [splitOn]
  | cons x xs ih =>
    unfold splitOn
    split
    · simp
    · rename_i p ps hp
      rw [hp] at ih
      by_cases hx : x = sep
      · simp only [hx, if_true]
        intro seg hseg
        simp only [List.mem_cons] at hseg
        rcases hseg with h | h | h
        · simp [h]
        · exact ih seg (by simp [h])
        · exact ih seg (by simp [h])
      · simp only [hx, if_false]
        intro seg hseg
        simp only [List.mem_cons] at hseg
        rcases hseg with h | h
        · subst h
          have := ih p (by simp)
          intro hm
          simp only [List.mem_cons] at hm
          rcases hm with e | e
          · exact hx e.symm
          · exact this e
        · exact ih seg (by simp [h])

theorem join_splitOn (sep : UInt8) (s : Bytes) : join sep (splitOn sep s) = s := by
  induction s with
  | nil => simp [splitOn, join]
  | cons x xs ih =>
    unfold splitOn
    split
    · rename_i h; exact absurd h (splitOn_ne_nil sep xs)
    · rename_i p ps hp
      rw [hp] at ih
      by_cases hx : x = sep
      · simp only [hx, if_true]
        simp only [join]
        simp [ih]
      · simp only [hx, if_false]
        cases ps with
        | nil => simp [join] at ih ⊢; exact ih
        | cons q qs => simp [join] at ih ⊢; exact ih

theorem splitOn_join {sep : UInt8} : ∀ (l : List Bytes), l ≠ [] → (∀ seg ∈ l, sep ∉ seg) →
    splitOn sep (join sep l) = l
  | [], h, _ => absurd rfl h
  | [p], _, hn => by simp [join, splitOn_noslash (hn p (by simp))]
  | p :: q :: qs, _, hn => by
    have hp := hn p (by simp)
    have ih := splitOn_join (q :: qs) (by simp) (fun s hs => hn s (by simp [hs]))
    simp only [join]
    rw [splitOn_append_sep _ hp, ih]

/-- a canonical path segment -/
def Clean (seg : Bytes) : Prop :=
  seg ≠ [] ∧ seg ≠ segDot ∧ seg ≠ segDotDot ∧ slash ∉ seg

def AllClean (l : List Bytes) : Prop := ∀ seg ∈ l, Clean seg

theorem AllClean.dropLast {l : List Bytes} (h : AllClean l) : AllClean l.dropLast :=
  fun seg hs => h seg (List.dropLast_subset _ hs)

theorem pop_clean {st : SimpSt} (h : AllClean st.stack) : AllClean st.pop.stack := by
  unfold SimpSt.pop
  split
  · intro seg hs; simp at hs
  · rename_i hl; intro seg hs; exact h.dropLast seg (by simpa using hs)

theorem push_clean {st : SimpSt} {seg : Bytes} (h : AllClean st.stack) (hc : Clean seg) :
    AllClean (st.push seg).stack := by
  intro s hs
  simp only [SimpSt.push, List.mem_append, List.mem_singleton] at hs
  rcases hs with hs | hs
  · exact h s hs
  · exact hs ▸ hc

theorem simpMid_clean {st : SimpSt} {seg : Bytes} (h : AllClean st.stack) (hs : slash ∉ seg) :
    AllClean (simpMid st seg).stack := by
  unfold simpMid
  split
  · exact h
  · rename_i h1
    split
    · exact pop_clean h
    · rename_i h2
      exact push_clean h ⟨fun e => h1 (Or.inl e), fun e => h1 (Or.inr e), h2, hs⟩

theorem foldl_simpMid_clean (segs : List Bytes) : ∀ {st : SimpSt}, AllClean st.stack →
    (∀ seg ∈ segs, slash ∉ seg) → AllClean (segs.foldl simpMid st).stack := by
  induction segs with
  | nil => intro st h _; simpa
  | cons x xs ih =>
    intro st h hn
    simp only [List.foldl_cons]
    exact ih (simpMid_clean h (hn x (by simp))) (fun s hs => hn s (by simp [hs]))

theorem simpLast_clean {st : SimpSt} {seg : Bytes} (h : AllClean st.stack) (hs : slash ∉ seg) :
    AllClean (simpLast st seg).1.stack := by
  unfold simpLast
  split
  · exact h
  · rename_i h1
    split
    · exact pop_clean h
    · rename_i h2
      exact push_clean h ⟨fun e => h1 (Or.inl e), fun e => h1 (Or.inr e), h2, hs⟩

/-- the `rel` flag can only go from true to false -/
theorem pop_rel {st : SimpSt} (h : st.rel = false) : st.pop.rel = false := by
  unfold SimpSt.pop; split <;> simp [h]

theorem simpMid_rel {st : SimpSt} {seg : Bytes} (h : st.rel = false) : (simpMid st seg).rel = false := by
  unfold simpMid; split
  · exact h
  · split
    · exact pop_rel h
    · simp [SimpSt.push, h]

theorem foldl_simpMid_rel (segs : List Bytes) : ∀ {st : SimpSt}, st.rel = false →
    (segs.foldl simpMid st).rel = false := by
  induction segs with
  | nil => intro st h; simpa
  | cons x xs ih => intro st h; simp only [List.foldl_cons]; exact ih (simpMid_rel h)

theorem simpLast_rel {st : SimpSt} {seg : Bytes} (h : st.rel = false) : (simpLast st seg).1.rel = false := by
  unfold simpLast; split
  · exact h
  · split
    · exact pop_rel h
    · simp [SimpSt.push, h]

/-- result of running the machine: a rendered state with clean stack -/
theorem simpRun_spec {st : SimpSt} {segs : List Bytes} (hne : segs ≠ [])
    (h : AllClean st.stack) (hn : ∀ seg ∈ segs, slash ∉ seg) :
    ∃ (st' : SimpSt) (tr : Bool), AllClean st'.stack ∧ (st.rel = false → st'.rel = false) ∧
      simpRun st segs = st'.render tr := by
  unfold simpRun
  cases hl : segs.getLast? with
  | none => simp [List.getLast?_eq_none_iff] at hl; exact absurd hl hne
  | some last =>
    have hlast : last ∈ segs := List.mem_of_getLast? hl
    have hmid : ∀ seg ∈ segs.dropLast, slash ∉ seg :=
      fun s hs => hn s (List.dropLast_subset _ hs)
    refine ⟨(simpLast (segs.dropLast.foldl simpMid st) last).1,
            (simpLast (segs.dropLast.foldl simpMid st) last).2, ?_, ?_, ?_⟩
    · exact simpLast_clean (foldl_simpMid_clean _ h hmid) (hn last hlast)
    · intro hr; exact simpLast_rel (foldl_simpMid_rel _ hr)
    · simp

theorem join_append_empty (sep : UInt8) : ∀ (l : List Bytes), l ≠ [] →
    join sep (l ++ [[]]) = join sep l ++ [sep]
  | [], h => absurd rfl h
  | [p], _ => by simp [join]
  | p :: q :: qs, _ => by
    have ih := join_append_empty sep (q :: qs) (by simp)
    simp only [List.cons_append] at ih ⊢
    simp only [join]
    rw [ih]; simp

/-- canonical absolute path: "/" seg1 "/" ... "/" segN ["/"], every segment clean -/
def CanonicalAbs (r : Bytes) : Prop :=
  ∃ stack : List Bytes, AllClean stack ∧
    (r = slash :: join slash stack ∨ (stack ≠ [] ∧ r = slash :: (join slash stack ++ [slash])))

theorem render_abs_canonical {st : SimpSt} (hr : st.rel = false) (h : AllClean st.stack)
    (tr : Bool) : CanonicalAbs (st.render tr) := by
  refine ⟨st.stack, h, ?_⟩
  unfold SimpSt.render
  simp only [hr]
  by_cases hc : (tr && !st.stack.isEmpty) = true
  · right
    simp only [hc, if_true]
    simp only [Bool.and_eq_true, Bool.not_eq_true', List.isEmpty_eq_false_iff] at hc
    exact ⟨hc.2, by simp⟩
  · left; simp [hc]

theorem canonical_split {r : Bytes} (h : CanonicalAbs r) :
    ∃ stack : List Bytes, AllClean stack ∧
      (splitOn slash r = [] :: stack ++ [[]] ∨ (stack ≠ [] ∧ splitOn slash r = [] :: stack)) := by
  obtain ⟨stack, hc, hr⟩ := h
  refine ⟨stack, hc, ?_⟩
  have hns : ∀ seg ∈ stack, slash ∉ seg := fun s hs => (hc s hs).2.2.2
  rcases hr with hr | ⟨hne, hr⟩
  · by_cases he : stack = []
    · left; subst he; subst hr; simp [join, splitOn_cons_sep, splitOn]
    · right; refine ⟨he, ?_⟩
      subst hr
      rw [splitOn_cons_sep, splitOn_join stack he hns]
  · left
    subst hr
    rw [splitOn_cons_sep, ← join_append_empty slash stack hne,
        splitOn_join (stack ++ [[]]) (by simp)]
    · simp
    · intro seg hs
      simp only [List.mem_append, List.mem_singleton] at hs
      rcases hs with hs | hs
      · exact hns seg hs
      · subst hs; simp

theorem pathSimplify_abs (t : Bytes) :
    pathSimplify (slash :: t) = simpRun { rel := false, stack := [] } (splitOn slash t) := by
  unfold pathSimplify
  simp only [splitOn_cons_sep]
  simp

end LtVerif
