/-
  Helper lemmas about splitOn/join and the segment machine of Model/Path.lean.
-/
import LtVerif.Model.Path
namespace LtVerif
open B

theorem splitOn_ne_nil (sep : UInt8) (s : Bytes) : splitOn sep s ≠ [] := by
  induction s with
  | nil => simp [splitOn]
  | cons x xs ih =>
    unfold splitOn
    split
    · simp
    · split <;> simp

theorem splitOn_noslash {sep : UInt8} {p : Bytes} (h : sep ∉ p) : splitOn sep p = [p] := by
  induction p with
  | nil => simp [splitOn]
  | cons x xs ih =>
    have hx : x ≠ sep := fun e => h (by simp [e])
    have hxs : sep ∉ xs := fun e => h (by simp [e])
    simp [splitOn, ih hxs, hx]

theorem splitOn_cons_sep (sep : UInt8) (q : Bytes) :
    splitOn sep (sep :: q) = [] :: splitOn sep q := by
  have := splitOn_ne_nil sep q
  conv => lhs; unfold splitOn
  split
  · contradiction
  · rename_i p ps hp; simp [hp]

theorem splitOn_append_sep {sep : UInt8} {p : Bytes} (q : Bytes) (h : sep ∉ p) :
    splitOn sep (p ++ sep :: q) = p :: splitOn sep q := by
  induction p with
  | nil => simpa using splitOn_cons_sep sep q
  | cons x xs ih =>
    have hx : x ≠ sep := fun e => h (by simp [e])
    have hxs : sep ∉ xs := fun e => h (by simp [e])
    have := ih hxs
    simp only [List.cons_append]
    conv => lhs; unfold splitOn
    simp [this, hx]

theorem splitOn_mem_nosep (sep : UInt8) (s : Bytes) : ∀ seg ∈ splitOn sep s, sep ∉ seg := by
  induction s with
  | nil => simp [splitOn]
  | cons x xs ih =>
    unfold splitOn
    split
    · simp
    · rename_i p ps hp
      rw [hp] at ih
      by_cases hx : x = sep
      · simp only [hx, if_true]
        intro seg hseg
        simp only [List.mem_cons] at hseg
        rcases hseg with h | h | h
        · simp [h]
        · exact ih seg (by simp [h])
        · exact ih seg (by simp [h])
      · simp only [hx, if_false]
        intro seg hseg
        simp only [List.mem_cons] at hseg
        rcases hseg with h | h
        · subst h
          have := ih p (by simp)
          intro hm
          simp only [List.mem_cons] at hm
          rcases hm with e | e
          · exact hx e.symm
          · exact this e
        · exact ih seg (by simp [h])

theorem join_splitOn (sep : UInt8) (s : Bytes) : join sep (splitOn sep s) = s := by
  induction s with
  | nil => simp [splitOn, join]
  | cons x xs ih =>
    unfold splitOn
    split
    · rename_i h; exact absurd h (splitOn_ne_nil sep xs)
    · rename_i p ps hp
      rw [hp] at ih
      by_cases hx : x = sep
      · simp only [hx, if_true]
        simp only [join]
        simp [ih]
      · simp only [hx, if_false]
        cases ps with
        | nil => simp [join] at ih ⊢; exact ih
        | cons q qs => simp [join] at ih ⊢; exact ih

theorem splitOn_join {sep : UInt8} : ∀ (l : List Bytes), l ≠ [] → (∀ seg ∈ l, sep ∉ seg) →
    splitOn sep (join sep l) = l
  | [], h, _ => absurd rfl h
  | [p], _, hn => by simp [join, splitOn_noslash (hn p (by simp))]
  | p :: q :: qs, _, hn => by
    have hp := hn p (by simp)
    have ih := splitOn_join (q :: qs) (by simp) (fun s hs => hn s (by simp [hs]))
    simp only [join]
    rw [splitOn_append_sep _ hp, ih]

/-- a canonical path segment -/
def Clean (seg : Bytes) : Prop :=
  seg ≠ [] ∧ seg ≠ segDot ∧ seg ≠ segDotDot ∧ slash ∉ seg

def AllClean (l : List Bytes) : Prop := ∀ seg ∈ l, Clean seg

theorem AllClean.dropLast {l : List Bytes} (h : AllClean l) : AllClean l.dropLast :=
  fun seg hs => h seg (List.dropLast_subset _ hs)

theorem pop_clean {st : SimpSt} (h : AllClean st.stack) : AllClean st.pop.stack := by
  unfold SimpSt.pop
  split
  · intro seg hs; simp at hs
  · rename_i hl; intro seg hs; exact h.dropLast seg (by simpa using hs)

theorem push_clean {st : SimpSt} {seg : Bytes} (h : AllClean st.stack) (hc : Clean seg) :
    AllClean (st.push seg).stack := by
  intro s hs
  simp only [SimpSt.push, List.mem_append, List.mem_singleton] at hs
  rcases hs with hs | hs
  · exact h s hs
  · exact hs ▸ hc

theorem simpMid_clean {st : SimpSt} {seg : Bytes} (h : AllClean st.stack) (hs : slash ∉ seg) :
    AllClean (simpMid st seg).stack := by
  unfold simpMid
  split
  · exact h
  · rename_i h1
    split
    · exact pop_clean h
    · rename_i h2
      exact push_clean h ⟨fun e => h1 (Or.inl e), fun e => h1 (Or.inr e), h2, hs⟩

theorem foldl_simpMid_clean (segs : List Bytes) : ∀ {st : SimpSt}, AllClean st.stack →
    (∀ seg ∈ segs, slash ∉ seg) → AllClean (segs.foldl simpMid st).stack := by
  induction segs with
  | nil => intro st h _; simpa
  | cons x xs ih =>
    intro st h hn
    simp only [List.foldl_cons]
    exact ih (simpMid_clean h (hn x (by simp))) (fun s hs => hn s (by simp [hs]))

theorem simpLast_clean {st : SimpSt} {seg : Bytes} (h : AllClean st.stack) (hs : slash ∉ seg) :
    AllClean (simpLast st seg).1.stack := by
  unfold simpLast
  split
  · exact h
  · rename_i h1
    split
    · exact pop_clean h
    · rename_i h2
      exact push_clean h ⟨fun e => h1 (Or.inl e), fun e => h1 (Or.inr e), h2, hs⟩

/-- the `rel` flag can only go from true to false -/
theorem pop_rel {st : SimpSt} (h : st.rel = false) : st.pop.rel = false := by
  unfold SimpSt.pop; split <;> simp [h]

theorem simpMid_rel {st : SimpSt} {seg : Bytes} (h : st.rel = false) : (simpMid st seg).rel = false := by
  unfold simpMid; split
  · exact h
  · split
    · exact pop_rel h
    · simp [SimpSt.push, h]

theorem foldl_simpMid_rel (segs : List Bytes) : ∀ {st : SimpSt}, st.rel = false →
    (segs.foldl simpMid st).rel = false := by
  induction segs with
  | nil => intro st h; simpa
  | cons x xs ih => intro st h; simp only [List.foldl_cons]; exact ih (simpMid_rel h)

theorem simpLast_rel {st : SimpSt} {seg : Bytes} (h : st.rel = false) : (simpLast st seg).1.rel = false := by
  unfold simpLast; split
  · exact h
  · split
    · exact pop_rel h
    · simp [SimpSt.push, h]

/-- result of running the machine: a rendered state with clean stack -/
theorem simpRun_spec {st : SimpSt} {segs : List Bytes} (hne : segs ≠ [])
    (h : AllClean st.stack) (hn : ∀ seg ∈ segs, slash ∉ seg) :
    ∃ (st' : SimpSt) (tr : Bool), AllClean st'.stack ∧ (st.rel = false → st'.rel = false) ∧
      simpRun st segs = st'.render tr := by
  unfold simpRun
  cases hl : segs.getLast? with
  | none => simp [List.getLast?_eq_none_iff] at hl; exact absurd hl hne
  | some last =>
    have hlast : last ∈ segs := List.mem_of_getLast? hl
    have hmid : ∀ seg ∈ segs.dropLast, slash ∉ seg :=
      fun s hs => hn s (List.dropLast_subset _ hs)
    refine ⟨(simpLast (segs.dropLast.foldl simpMid st) last).1,
            (simpLast (segs.dropLast.foldl simpMid st) last).2, ?_, ?_, ?_⟩
    · exact simpLast_clean (foldl_simpMid_clean _ h hmid) (hn last hlast)
    · intro hr; exact simpLast_rel (foldl_simpMid_rel _ hr)
    · simp

theorem join_append_empty (sep : UInt8) : ∀ (l : List Bytes), l ≠ [] →
    join sep (l ++ [[]]) = join sep l ++ [sep]
  | [], h => absurd rfl h
  | [p], _ => by simp [join]
  | p :: q :: qs, _ => by
    have ih := join_append_empty sep (q :: qs) (by simp)
    simp only [List.cons_append] at ih ⊢
    simp only [join]
    rw [ih]; simp

/-- canonical absolute path: "/" seg1 "/" ... "/" segN ["/"], every segment clean -/
def CanonicalAbs (r : Bytes) : Prop :=
  ∃ stack : List Bytes, AllClean stack ∧
    (r = slash :: join slash stack ∨ (stack ≠ [] ∧ r = slash :: (join slash stack ++ [slash])))

theorem render_abs_canonical {st : SimpSt} (hr : st.rel = false) (h : AllClean st.stack)
    (tr : Bool) : CanonicalAbs (st.render tr) := by
  refine ⟨st.stack, h, ?_⟩
  unfold SimpSt.render
  simp only [hr]
  by_cases hc : (tr && !st.stack.isEmpty) = true
  · right
    simp only [hc, if_true]
    simp only [Bool.and_eq_true, Bool.not_eq_true', List.isEmpty_eq_false_iff] at hc
    exact ⟨hc.2, by simp⟩
  · left; simp [hc]

theorem canonical_split {r : Bytes} (h : CanonicalAbs r) :
    ∃ stack : List Bytes, AllClean stack ∧
      (splitOn slash r = [] :: stack ++ [[]] ∨ (stack ≠ [] ∧ splitOn slash r = [] :: stack)) := by
  obtain ⟨stack, hc, hr⟩ := h
  refine ⟨stack, hc, ?_⟩
  have hns : ∀ seg ∈ stack, slash ∉ seg := fun s hs => (hc s hs).2.2.2
  rcases hr with hr | ⟨hne, hr⟩
  · by_cases he : stack = []
    · left; subst he; subst hr; simp [join, splitOn_cons_sep, splitOn]
    · right; refine ⟨he, ?_⟩
      subst hr
      rw [splitOn_cons_sep, splitOn_join stack he hns]
  · left
    subst hr
    rw [splitOn_cons_sep, ← join_append_empty slash stack hne,
        splitOn_join (stack ++ [[]]) (by simp)]
    · simp
    · intro seg hs
      simp only [List.mem_append, List.mem_singleton] at hs
      rcases hs with hs | hs
      · exact hns seg hs
      · subst hs; simp

theorem pathSimplify_abs (t : Bytes) :
    pathSimplify (slash :: t) = simpRun { rel := false, stack := [] } (splitOn slash t) := by
  unfold pathSimplify
  simp only [splitOn_cons_sep]
  simp

/-! ### relative inputs: the machine's full invariant -/

/-- the stack is clean, and a path that is still relative has its head segment on the stack -/
def SimpInv (st : SimpSt) : Prop := AllClean st.stack ∧ (st.rel = true → st.stack ≠ [])

theorem pop_inv {st : SimpSt} (h : SimpInv st) : SimpInv st.pop := by
  refine ⟨pop_clean h.1, ?_⟩
  unfold SimpSt.pop
  split
  · simp
  · rename_i hl; intro _; simpa using hl

theorem push_inv {st : SimpSt} {seg : Bytes} (h : SimpInv st) (hc : Clean seg) : SimpInv (st.push seg) :=
  ⟨push_clean h.1 hc, by intro _; simp [SimpSt.push]⟩

theorem simpMid_inv {st : SimpSt} {seg : Bytes} (h : SimpInv st) (hs : slash ∉ seg) :
    SimpInv (simpMid st seg) := by
  unfold simpMid
  split
  · exact h
  · rename_i h1
    split
    · exact pop_inv h
    · rename_i h2
      exact push_inv h ⟨fun e => h1 (Or.inl e), fun e => h1 (Or.inr e), h2, hs⟩

theorem foldl_simpMid_inv (segs : List Bytes) : ∀ {st : SimpSt}, SimpInv st →
    (∀ seg ∈ segs, slash ∉ seg) → SimpInv (segs.foldl simpMid st) := by
  induction segs with
  | nil => intro st h _; simpa
  | cons x xs ih =>
    intro st h hn
    simp only [List.foldl_cons]
    exact ih (simpMid_inv h (hn x (by simp))) (fun s hs => hn s (by simp [hs]))

theorem simpLast_inv {st : SimpSt} {seg : Bytes} (h : SimpInv st) (hs : slash ∉ seg) :
    SimpInv (simpLast st seg).1 := by
  unfold simpLast
  split
  · exact h
  · rename_i h1
    split
    · exact pop_inv h
    · rename_i h2
      exact push_inv h ⟨fun e => h1 (Or.inl e), fun e => h1 (Or.inr e), h2, hs⟩

theorem simpRun_spec2 {st : SimpSt} {segs : List Bytes} (hne : segs ≠ [])
    (h : SimpInv st) (hn : ∀ seg ∈ segs, slash ∉ seg) :
    ∃ (st' : SimpSt) (tr : Bool), SimpInv st' ∧ simpRun st segs = st'.render tr := by
  unfold simpRun
  cases hl : segs.getLast? with
  | none => simp [List.getLast?_eq_none_iff] at hl; exact absurd hl hne
  | some last =>
    have hlast : last ∈ segs := List.mem_of_getLast? hl
    have hmid : ∀ seg ∈ segs.dropLast, slash ∉ seg :=
      fun s hs => hn s (List.dropLast_subset _ hs)
    exact ⟨(simpLast (segs.dropLast.foldl simpMid st) last).1,
           (simpLast (segs.dropLast.foldl simpMid st) last).2,
           simpLast_inv (foldl_simpMid_inv _ h hmid) (hn last hlast), by simp⟩

theorem join_head_of_clean {s0 : Bytes} {rest : List Bytes} (h0 : s0 ≠ []) :
    (join slash (s0 :: rest)).head? = s0.head? := by
  cases s0 with
  | nil => exact absurd rfl h0
  | cons a as => cases rest <;> simp [join]

/-- a rendered state that is still relative does not start with '/' -/
theorem render_rel_head {st : SimpSt} (h : SimpInv st) (hr : st.rel = true) (tr : Bool) :
    (st.render tr).head? ≠ some slash := by
  have hne := h.2 hr
  cases hst : st.stack with
  | nil => exact absurd hst hne
  | cons s0 rest =>
    have hc : Clean s0 := h.1 s0 (by simp [hst])
    have hh : s0.head? ≠ some slash := by
      intro e
      cases s0 with
      | nil => simp at e
      | cons a as => simp at e; exact hc.2.2.2 (by simp [e])
    have hj := join_head_of_clean (rest := rest) hc.1
    have hjne : join slash (s0 :: rest) ≠ [] := by
      intro e; rw [e] at hj; cases s0 with
      | nil => exact hc.1 rfl
      | cons a as => simp at hj
    unfold SimpSt.render
    simp only [hr, hst, ↓reduceIte, List.nil_append]
    split
    · rw [List.head?_append, hj]
      cases s0 with
      | nil => exact absurd rfl hc.1
      | cons a as => simpa using hh
    · rw [hj]; exact hh

theorem pathSimplify_rel {s f : Bytes} {rest : List Bytes} (hs : s ≠ [])
    (hsp : splitOn slash s = f :: rest) (hf : f ≠ []) :
    pathSimplify s =
      (match rest with
       | [] => if f = segDot ∨ f = segDotDot then [] else f
       | _ => if f = segDot ∨ f = segDotDot then simpRun { rel := false, stack := [] } rest
              else simpRun { rel := true, stack := [f] } rest) := by
  cases s with
  | nil => exact absurd rfl hs
  | cons x t =>
    cases rest with
    | nil => unfold pathSimplify; simp only [hsp, hf, if_false]
    | cons r rs => unfold pathSimplify; simp only [hsp, hf, if_false]

/-- whenever the result of buffer_path_simplify() starts with '/', it is canonical -
    also for inputs that do not start with '/' ("a/../../etc" becomes "/etc") -/
theorem pathSimplify_head_canonical (s : Bytes) (h : (pathSimplify s).head? = some slash) :
    CanonicalAbs (pathSimplify s) := by
  cases s with
  | nil => simp [pathSimplify] at h
  | cons x t =>
    by_cases hx : x = slash
    · subst hx
      rw [pathSimplify_abs]
      obtain ⟨st', tr, hc, hrel, heq⟩ :=
        simpRun_spec (st := { rel := false, stack := [] }) (segs := splitOn slash t)
          (splitOn_ne_nil _ _) (by intro seg hs; simp at hs) (splitOn_mem_nosep _ _)
      rw [heq]
      exact render_abs_canonical (hrel rfl) hc tr
    · have hns := splitOn_mem_nosep slash (x :: t)
      cases hsp : splitOn slash (x :: t) with
      | nil => exact absurd hsp (splitOn_ne_nil _ _)
      | cons f rest =>
        rw [hsp] at hns
        have hfns : slash ∉ f := hns f (by simp)
        have hrns : ∀ seg ∈ rest, slash ∉ seg := fun s hs => hns s (by simp [hs])
        have hfne : f ≠ [] := by
          intro e
          have hj := join_splitOn slash (x :: t)
          rw [hsp, e] at hj
          cases rest with
          | nil => simp [join] at hj
          | cons r rs => simp [join] at hj; exact hx hj.1.symm
        have key := pathSimplify_rel (s := x :: t) (by simp) hsp hfne
        rw [key] at h ⊢
        cases rest with
        | nil =>
          simp only at h ⊢
          split at h
          · simp at h
          · exfalso
            cases f with
            | nil => exact hfne rfl
            | cons a as => simp at h; exact hfns (by simp [h])
        | cons r rs =>
          simp only at h ⊢
          split
          · rename_i hd
            obtain ⟨st', tr, hc, hrel, heq⟩ :=
              simpRun_spec (st := { rel := false, stack := [] }) (segs := r :: rs)
                (by simp) (by intro seg hs; simp at hs) hrns
            rw [heq]
            exact render_abs_canonical (hrel rfl) hc tr
          · rename_i hd
            rw [if_neg hd] at h
            have hcf : Clean f := ⟨hfne, fun e => hd (Or.inl e), fun e => hd (Or.inr e), hfns⟩
            obtain ⟨st', tr, hinv, heq⟩ :=
              simpRun_spec2 (st := { rel := true, stack := [f] }) (segs := r :: rs)
                (by simp) ⟨by intro s hs; simp at hs; exact hs ▸ hcf, by simp⟩ hrns
            rw [heq] at h ⊢
            cases hr : st'.rel with
            | false => exact render_abs_canonical hr hinv.1 tr
            | true => exact absurd h (render_rel_head hinv hr tr)

/-! ### idempotence -/

theorem simpMid_push_clean {st : SimpSt} {seg : Bytes} (hc : Clean seg) : simpMid st seg = st.push seg := by
  unfold simpMid
  rw [if_neg (by rintro (e | e); exact hc.1 e; exact hc.2.1 e), if_neg hc.2.2.1]

theorem foldl_simpMid_push (segs : List Bytes) : ∀ (st : SimpSt), AllClean segs →
    segs.foldl simpMid st = { st with stack := st.stack ++ segs } := by
  induction segs with
  | nil => intro st _; simp
  | cons x xs ih =>
    intro st h
    simp only [List.foldl_cons]
    rw [simpMid_push_clean (h x (by simp)), ih _ (fun s hs => h s (by simp [hs]))]
    simp [SimpSt.push]

/-- a canonical absolute path is a fixed point of buffer_path_simplify() -/
theorem pathSimplify_canonical_fix {r : Bytes} (h : CanonicalAbs r) : pathSimplify r = r := by
  obtain ⟨stack, hc, hs⟩ := canonical_split h
  obtain ⟨stack', hc', hr⟩ := h
  have hhead : ∃ t, r = slash :: t := by
    rcases hr with hr | ⟨_, hr⟩ <;> exact ⟨_, hr⟩
  obtain ⟨t, ht⟩ := hhead
  subst ht
  rw [pathSimplify_abs]
  rw [splitOn_cons_sep] at hs
  unfold simpRun
  rcases hs with hs | ⟨hne, hs⟩
  · have hs' : splitOn slash t = stack ++ [[]] := by simpa using hs
    rw [hs']
    simp only [List.getLast?_append, List.getLast?_singleton, Option.some_or, List.dropLast_concat]
    rw [foldl_simpMid_push _ _ hc]
    simp only [simpLast, true_or, if_true, List.nil_append]
    -- r = "/" ++ join stack ++ "/" (or "/" if the stack is empty)
    have hj := join_splitOn slash t
    rw [hs'] at hj
    unfold SimpSt.render
    by_cases he : stack = []
    · subst he; simp [join] at hj ⊢; exact hj.symm ▸ rfl
    · rw [join_append_empty slash stack he] at hj
      simp [he, hj]
  · have hs' : splitOn slash t = stack := by simpa using hs
    rw [hs']
    obtain ⟨init, last, hil⟩ : ∃ init last, stack = init ++ [last] :=
      ⟨stack.dropLast, stack.getLast hne, (List.dropLast_concat_getLast hne).symm⟩
    have hcl : Clean last := hc last (by simp [hil])
    have hci : AllClean init := fun s hs => hc s (by simp [hil, hs])
    rw [hil]
    simp only [List.getLast?_append, List.getLast?_singleton, Option.some_or, List.dropLast_concat]
    rw [foldl_simpMid_push _ _ hci]
    have : simpLast { rel := false, stack := [] ++ init } last =
        ({ rel := false, stack := init ++ [last] }, false) := by
      unfold simpLast
      rw [if_neg (by rintro (e | e); exact hcl.1 e; exact hcl.2.1 e), if_neg hcl.2.2.1]
      simp [SimpSt.push]
    rw [this]
    have hj := join_splitOn slash t
    rw [hs', hil] at hj
    simp [SimpSt.render, hj]

/-! ### lower-casing keeps a path canonical -/

/-- a Boolean predicate that holds for 0..255 holds for every byte -/
theorem byte_forall (P : UInt8 → Bool)
    (h : ((List.range 256).all fun i => P (UInt8.ofNat i)) = true) (a : UInt8) : P a = true := by
  rw [List.all_eq_true] at h
  have := h a.toNat (by simp only [List.mem_range]; exact a.toNat_lt)
  simpa using this

theorem toLower_eq_dot {b : UInt8} (h : toLower b = dot) : b = dot := by
  have := byte_forall (fun b => !(toLower b == dot) || b == dot) (by decide +kernel) b
  simp only [Bool.or_eq_true, Bool.not_eq_true', beq_eq_false_iff_ne, beq_iff_eq] at this
  rcases this with e | e
  · exact absurd h e
  · exact e

theorem toLower_eq_slash {b : UInt8} (h : toLower b = slash) : b = slash := by
  have := byte_forall (fun b => !(toLower b == slash) || b == slash) (by decide +kernel) b
  simp only [Bool.or_eq_true, Bool.not_eq_true', beq_eq_false_iff_ne, beq_iff_eq] at this
  rcases this with e | e
  · exact absurd h e
  · exact e

theorem toLower_slash : toLower slash = slash := by decide

theorem map_toLower_join (l : List Bytes) :
    (join slash l).map toLower = join slash (l.map (·.map toLower)) := by
  induction l with
  | nil => simp [join]
  | cons p ps ih =>
    cases ps with
    | nil => simp [join]
    | cons q qs => simp only [join, List.map_append, List.map_cons, toLower_slash] at ih ⊢; rw [ih]

theorem clean_map_toLower {seg : Bytes} (h : Clean seg) : Clean (seg.map toLower) := by
  refine ⟨by simpa using h.1, ?_, ?_, ?_⟩
  · intro e
    cases seg with
    | nil => simp [segDot] at e
    | cons a as =>
      cases as with
      | nil => simp [segDot] at e; exact h.2.1 (by simp [segDot, toLower_eq_dot e])
      | cons b bs => simp [segDot] at e
  · intro e
    cases seg with
    | nil => simp [segDotDot] at e
    | cons a as =>
      cases as with
      | nil => simp [segDotDot] at e
      | cons b bs =>
        cases bs with
        | nil =>
          simp [segDotDot] at e
          exact h.2.2.1 (by simp [segDotDot, toLower_eq_dot e.1, toLower_eq_dot e.2])
        | cons c cs => simp [segDotDot] at e
  · intro hm
    simp only [List.mem_map] at hm
    obtain ⟨b, hb, e⟩ := hm
    exact h.2.2.2 (toLower_eq_slash e ▸ hb)

theorem canonical_map_toLower {r : Bytes} (h : CanonicalAbs r) : CanonicalAbs (r.map toLower) := by
  obtain ⟨stack, hc, hr⟩ := h
  refine ⟨stack.map (·.map toLower), ?_, ?_⟩
  · intro seg hs
    simp only [List.mem_map] at hs
    obtain ⟨s0, hs0, e⟩ := hs
    exact e ▸ clean_map_toLower (hc s0 hs0)
  · rcases hr with hr | ⟨hne, hr⟩
    · left; subst hr; simp [toLower_slash, map_toLower_join]
    · right; subst hr
      exact ⟨by simpa using hne, by simp [toLower_slash, map_toLower_join]⟩

end LtVerif
