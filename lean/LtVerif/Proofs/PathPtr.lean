/-
  The cursor-level transcription of buffer_path_simplify() (Model/PathPtr.lean) computes the
  segment-stack specification `pathSimplify` (Model/Path.lean) - for every byte string.
  Invariant at the head of the main loop: the written prefix is `emit st` (the stack rendered with a
  '/' behind every segment), the unread input is `tailIn segs` (the remaining segments, each followed
  by '/', the last '/' being the sentinel at `end`).
-/
import LtVerif.Model.PathPtr
import LtVerif.Proofs.Path
namespace LtVerif
open B

/-! ### non-interference: the write cursor never passes the read cursor -/

theorem ptrCopy_length : ∀ (rest po : Bytes),
    (ptrCopy po rest).1.length + (ptrCopy po rest).2.length = po.length + rest.length := by
  intro rest
  induction rest with
  | nil => intro po; simp [ptrCopy]
  | cons c r ih =>
    intro po
    unfold ptrCopy
    split
    · simp; omega
    · rw [ih]; simp; omega

theorem ptrBackScan_length_cons : ∀ (rest : Bytes) (x : UInt8),
    (ptrBackScan (x :: rest)).length ≤ (x :: rest).length := by
  intro rest
  induction rest with
  | nil => intro x; simp [ptrBackScan]
  | cons y r ih =>
    intro x
    unfold ptrBackScan
    split
    · simp
    · have := ih y; simp only [List.length_cons] at this ⊢; omega

theorem ptrBackScan_length (po : Bytes) : (ptrBackScan po).length ≤ po.length := by
  cases po with
  | nil => simp [ptrBackScan]
  | cons x rest => exact ptrBackScan_length_cons rest x

/-! ### the invariant's two halves -/

/-- the written prefix for a machine state: every stacked segment followed by '/' -/
def emit (st : SimpSt) : Bytes :=
  (if st.rel then [] else [slash]) ++ st.stack.flatMap (· ++ [slash])

/-- the unread input for the remaining segments -/
def tailIn (segs : List Bytes) : Bytes := join slash segs ++ [slash]

theorem tailIn_single (x : Bytes) : tailIn [x] = x ++ [slash] := by simp [tailIn, join]

theorem tailIn_cons (x y : Bytes) (more : List Bytes) :
    tailIn (x :: y :: more) = x ++ slash :: tailIn (y :: more) := by
  simp [tailIn, join]

theorem emit_push (st : SimpSt) (seg : Bytes) : emit (st.push seg) = emit st ++ seg ++ [slash] := by
  cases hr : st.rel <;> simp [emit, SimpSt.push, List.flatMap_append, hr]

theorem flatMap_join : ∀ (stack : List Bytes), stack ≠ [] →
    stack.flatMap (· ++ [slash]) = join slash stack ++ [slash]
  | [], h => absurd rfl h
  | [p], _ => by simp [join]
  | p :: q :: qs, _ => by
    have ih := flatMap_join (q :: qs) (by simp)
    simp only [List.flatMap_cons] at ih ⊢
    rw [ih]; simp [join]

theorem render_true_emit {st : SimpSt} : st.render true = emit st := by
  unfold SimpSt.render emit
  by_cases he : st.stack = []
  · simp [he, join]
  · have : (true && !st.stack.isEmpty) = true := by simp [he]
    simp only [this, if_true]
    rw [flatMap_join _ he]; simp

theorem render_false_emit {st : SimpSt} (he : st.stack ≠ []) : st.render false = (emit st).dropLast := by
  unfold SimpSt.render emit
  simp only [Bool.false_and, Bool.false_eq_true, if_false]
  rw [flatMap_join _ he, ← List.append_assoc, List.dropLast_concat]

/-! ### the single steps -/

theorem ptrCopy_seg : ∀ (seg po r : Bytes), slash ∉ seg →
    ptrCopy po (seg ++ slash :: r) = (slash :: (seg.reverse ++ po), r) := by
  intro seg
  induction seg with
  | nil => intro po r _; simp [ptrCopy]
  | cons c cs ih =>
    intro po r h
    have hc : c ≠ slash := fun e => h (by simp [e])
    have hcs : slash ∉ cs := fun e => h (by simp [e])
    simp only [List.cons_append, ptrCopy, hc, if_false]
    rw [ih _ _ hcs]; simp

theorem ptrBackScan_stop : ∀ (w : Bytes) (a : UInt8) (X : Bytes), slash ∉ w →
    ptrBackScan (a :: (w ++ slash :: X)) = slash :: X := by
  intro w
  induction w with
  | nil => intro a X _; simp [ptrBackScan]
  | cons c cs ih =>
    intro a X h
    have hc : c ≠ slash := fun e => h (by simp [e])
    have hcs : slash ∉ cs := fun e => h (by simp [e])
    simp only [List.cons_append, ptrBackScan, hc, if_false]
    exact ih c X hcs

theorem ptrBackScan_bottom : ∀ (w : Bytes) (a : UInt8), slash ∉ w → ∃ z, ptrBackScan (a :: w) = [z] := by
  intro w
  induction w with
  | nil => intro a _; exact ⟨a, by simp [ptrBackScan]⟩
  | cons c cs ih =>
    intro a h
    have hc : c ≠ slash := fun e => h (by simp [e])
    have hcs : slash ∉ cs := fun e => h (by simp [e])
    simp only [ptrBackScan, hc, if_false]
    exact ih c hcs

theorem emit_init (st : SimpSt) (init : List Bytes) (last : Bytes) (h : st.stack = init ++ [last]) :
    emit st = emit { st with stack := init } ++ last ++ [slash] := by
  simp [emit, h, List.flatMap_append]

/-- "../": backing up over the last segment is the machine's pop -/
theorem emit_pop {st : SimpSt} (h : SimpInv st) :
    slash :: (ptrBackScan (emit st).reverse).drop 1 = (emit st.pop).reverse := by
  by_cases he : st.stack = []
  · have hr : st.rel = false := by
      cases hrel : st.rel with
      | false => rfl
      | true => exact absurd he (h.2 hrel)
    simp [emit, he, hr, SimpSt.pop, ptrBackScan]
  · obtain ⟨init, last, hil⟩ : ∃ init last, st.stack = init ++ [last] :=
      ⟨st.stack.dropLast, st.stack.getLast he, (List.dropLast_concat_getLast he).symm⟩
    have hcl : Clean last := h.1 last (by simp [hil])
    have hns : slash ∉ last.reverse := by simpa using hcl.2.2.2
    rw [emit_init st init last hil]
    simp only [List.reverse_append, List.reverse_cons, List.reverse_nil, List.nil_append,
               List.singleton_append]
    cases init with
    | nil =>
      have hp : st.pop = { rel := false, stack := [] } := by
        unfold SimpSt.pop; simp [hil]
      rw [hp]
      cases hrel : st.rel with
      | true =>
        -- relative head popped: the path turns absolute
        obtain ⟨z, hz⟩ := ptrBackScan_bottom last.reverse slash hns
        simp [emit, hrel, hz]
      | false =>
        have he1 : (emit { rel := false, stack := [] }).reverse = [slash] := by simp [emit]
        rw [he1]
        have hb := ptrBackScan_stop last.reverse slash [] hns
        rw [hb]; simp [emit]
    | cons a as =>
      -- the segment before ends in '/': the scan stops there
      have hp : st.pop = { st with stack := a :: as } := by
        unfold SimpSt.pop
        have : st.stack.dropLast = a :: as := by rw [hil]; exact List.dropLast_concat
        rw [this]
      obtain ⟨i0, l0, hi0⟩ : ∃ i0 l0, a :: as = i0 ++ [l0] :=
        ⟨(a :: as).dropLast, (a :: as).getLast (by simp), (List.dropLast_concat_getLast (by simp)).symm⟩
      have hX : (emit { st with stack := a :: as }).reverse
          = slash :: (l0.reverse ++ (emit { st with stack := i0 }).reverse) := by
        rw [emit_init { st with stack := a :: as } i0 l0 hi0]; simp
      rw [hp, hX]
      have hb := ptrBackScan_stop last.reverse slash (l0.reverse ++ (emit { st with stack := i0 }).reverse) hns
      rw [hb]; simp

theorem simpRun_cons (st : SimpSt) (x y : Bytes) (more : List Bytes) :
    simpRun st (x :: y :: more) = simpRun (simpMid st x) (y :: more) := by
  unfold simpRun
  rw [List.getLast?_cons_cons, List.getLast?_eq_some_getLast (l := y :: more) (by simp)]
  simp [List.dropLast]

theorem simpRun_single (st : SimpSt) (x : Bytes) :
    simpRun st [x] = (simpLast st x).1.render (simpLast st x).2 := by
  unfold simpRun; simp

theorem tailIn_length_pos (segs : List Bytes) : 0 < (tailIn segs).length := by simp [tailIn]

/-- length of the unread input behind the first segment is ≤ 1 exactly when what remains is the
    single empty segment of a trailing '/' -/
theorem tailIn_short {y : Bytes} {more : List Bytes} (h : (tailIn (y :: more)).length ≤ 1) :
    y = [] ∧ more = [] := by
  cases more with
  | nil => simp [tailIn, join] at h; exact ⟨h, rfl⟩
  | cons z zs => simp [tailIn, join] at h; omega


/-- classification of a segment the way the loop looks at it -/
theorem seg_cases (x : Bytes) (hx : slash ∉ x) :
    x = [] ∨ x = segDot ∨ x = segDotDot ∨
    (Clean x ∧ ∃ c x', x = c :: x' ∧
      ((c ≠ dot) ∨ (c = dot ∧ x' ≠ [] ∧ x' ≠ [dot]))) := by
  cases x with
  | nil => left; rfl
  | cons c x' =>
    by_cases hc : c = dot
    · subst hc
      by_cases h1 : x' = []
      · right; left; simp [h1, segDot]
      · by_cases h2 : x' = [dot]
        · right; right; left; simp [h2, segDotDot]
        · right; right; right
          refine ⟨⟨by simp, ?_, ?_, hx⟩, dot, x', rfl, Or.inr ⟨rfl, h1, h2⟩⟩
          · intro e; simp [segDot] at e; exact h1 e
          · intro e; simp [segDotDot] at e; exact h2 e
    · right; right; right
      refine ⟨⟨by simp, ?_, ?_, hx⟩, c, x', rfl, Or.inl hc⟩
      · intro e; simp [segDot] at e; exact hc e.1
      · intro e; simp [segDotDot] at e; exact hc e.1

/-- one iteration of the main loop on a clean segment: it is copied (push) -/
theorem ptrLoop_clean {x : Bytes} (hc : Clean x) (fuel : Nat) (po R : Bytes) :
    ptrLoop (fuel + 1) po (x ++ slash :: R) = ptrLoop fuel (slash :: (x.reverse ++ po)) R := by
  obtain ⟨hne, hd, hdd, hns⟩ := hc
  cases x with
  | nil => exact absurd rfl hne
  | cons c x' =>
    have hcs : c ≠ slash := fun e => hns (by simp [e])
    have hxs : slash ∉ x' := fun e => hns (by simp [e])
    simp only [List.cons_append]
    rw [ptrLoop]
    simp only [hcs, if_false]
    by_cases hcd : c = dot
    · subst hcd
      simp only [if_true]
      have h1 : x' ≠ [] := fun e => hd (by simp [e, segDot])
      have h2 : x' ≠ [dot] := fun e => hdd (by simp [e, segDotDot])
      have hA : ¬((x' ++ slash :: R).head? = some dot ∧ ((x' ++ slash :: R).drop 1).head? = some slash) := by
        rintro ⟨a1, a2⟩
        cases x' with
        | nil => exact h1 rfl
        | cons b bs =>
          simp only [List.cons_append, List.head?_cons, Option.some.injEq] at a1
          subst a1
          cases bs with
          | nil => exact h2 rfl
          | cons b2 bs2 =>
            simp only [List.cons_append, List.drop_succ_cons, List.drop_zero, List.head?_cons,
                       Option.some.injEq] at a2
            exact hxs (by simp [a2])
      have hB : ¬((x' ++ slash :: R).head? = some slash) := by
        intro a1
        cases x' with
        | nil => exact h1 rfl
        | cons b bs =>
          simp only [List.cons_append, List.head?_cons, Option.some.injEq] at a1
          exact hxs (by simp [a1])
      rw [if_neg hA, if_neg hB, ptrCopy_seg x' _ R hxs]
      simp
    · simp only [hcd, if_false]
      have := ptrCopy_seg (c :: x') po R hns
      simp only [List.cons_append] at this
      rw [this]

theorem ptrLoop_empty (fuel : Nat) (po R : Bytes) :
    ptrLoop (fuel + 1) po (slash :: R) = if 1 < R.length then ptrLoop fuel po R else po.reverse := by
  rw [ptrLoop]; simp

theorem ptrLoop_dot (fuel : Nat) (po R : Bytes) :
    ptrLoop (fuel + 1) po (dot :: slash :: R) = if R.length ≤ 1 then po.reverse else ptrLoop fuel po R := by
  rw [ptrLoop]
  have h1 : dot ≠ slash := by decide
  have h2 : slash ≠ dot := by decide
  simp [h1, h2]

theorem ptrLoop_dotdot (fuel : Nat) (po R : Bytes) :
    ptrLoop (fuel + 1) po (dot :: dot :: slash :: R) =
      if R.length ≤ 1 then (slash :: (ptrBackScan po).drop 1).reverse
      else ptrLoop fuel (slash :: (ptrBackScan po).drop 1) R := by
  rw [ptrLoop]
  have h1 : dot ≠ slash := by decide
  simp [h1]

/-- the main loop computes the segment machine -/
theorem ptrLoop_simpRun : ∀ (segs : List Bytes) (st : SimpSt) (fuel : Nat), segs ≠ [] →
    (∀ seg ∈ segs, slash ∉ seg) → SimpInv st → (tailIn segs).length < fuel →
    ptrLoop fuel (emit st).reverse (tailIn segs) = simpRun st segs := by
  intro segs
  induction segs with
  | nil => intro st fuel h; exact absurd rfl h
  | cons x rest ih =>
    intro st fuel _ hns hinv hfuel
    have hx : slash ∉ x := hns x (by simp)
    obtain ⟨f, rfl⟩ : ∃ f, fuel = f + 1 := ⟨fuel - 1, by have := tailIn_length_pos (x :: rest); omega⟩
    cases rest with
    | nil =>
      -- the last segment
      rw [tailIn_single, simpRun_single]
      rcases seg_cases x hx with rfl | rfl | rfl | ⟨hc, _⟩
      · -- "" (the path ends in '/')
        rw [List.nil_append, ptrLoop_empty]
        simp [simpLast, render_true_emit]
      · -- "."
        rw [show segDot ++ [slash] = dot :: slash :: [] from rfl, ptrLoop_dot]
        simp [simpLast, segDot, render_true_emit]
      · -- ".."
        rw [show segDotDot ++ [slash] = dot :: dot :: slash :: [] from rfl, ptrLoop_dotdot]
        have hl : simpLast st segDotDot = (st.pop, true) := by
          simp [simpLast, segDotDot, segDot]
        rw [hl, emit_pop hinv]
        simp [render_true_emit]
      · -- a name: copied, then the loop ends and the '/' behind it is cut
        rw [show x ++ [slash] = x ++ slash :: [] from rfl, ptrLoop_clean hc]
        have hl : simpLast st x = (st.push x, false) := by
          unfold simpLast
          rw [if_neg (by rintro (e | e); exact hc.1 e; exact hc.2.1 e), if_neg hc.2.2.1]
        rw [hl]
        simp only
        rw [render_false_emit (by simp [SimpSt.push]), emit_push]
        cases f with
        | zero => simp [tailIn_single] at hfuel
        | succ f' =>
          rw [ptrLoop]
          simp [List.dropLast_concat]
    | cons y more =>
      rw [tailIn_cons, simpRun_cons]
      have hns' : ∀ seg ∈ y :: more, slash ∉ seg := fun s hs => hns s (by simp [hs])
      have hlen : (tailIn (y :: more)).length < f := by
        rw [tailIn_cons] at hfuel; simp only [List.length_append, List.length_cons] at hfuel; omega
      have hmid := simpMid_inv hinv hx
      have hIH := ih (simpMid st x) f (by simp) hns' hmid hlen
      -- when only the trailing empty segment is left, the C leaves the loop with `++out; break`
      have hshort : (tailIn (y :: more)).length ≤ 1 →
          simpRun (simpMid st x) (y :: more) = (emit (simpMid st x)) := by
        intro hs
        obtain ⟨rfl, rfl⟩ := tailIn_short hs
        rw [simpRun_single]; simp [simpLast, render_true_emit]
      rcases seg_cases x hx with rfl | rfl | rfl | ⟨hc, _⟩
      · -- "" : repeated '/'
        rw [List.nil_append, ptrLoop_empty]
        have hm : simpMid st [] = st := by simp [simpMid]
        rw [hm] at hIH hshort ⊢
        by_cases hl : 1 < (tailIn (y :: more)).length
        · rw [if_pos hl]; exact hIH
        · rw [if_neg hl, hshort (by omega)]; simp
      · -- "./"
        rw [show segDot ++ slash :: tailIn (y :: more) = dot :: slash :: tailIn (y :: more) from rfl,
            ptrLoop_dot]
        have hm : simpMid st segDot = st := by simp [simpMid]
        rw [hm] at hIH hshort ⊢
        by_cases hl : (tailIn (y :: more)).length ≤ 1
        · rw [if_pos hl, hshort hl]; simp
        · rw [if_neg hl]; exact hIH
      · -- "../"
        rw [show segDotDot ++ slash :: tailIn (y :: more) = dot :: dot :: slash :: tailIn (y :: more) from rfl,
            ptrLoop_dotdot]
        have hm : simpMid st segDotDot = st.pop := by
          simp [simpMid, segDotDot, segDot]
        rw [hm] at hIH hshort ⊢
        rw [emit_pop hinv]
        by_cases hl : (tailIn (y :: more)).length ≤ 1
        · rw [if_pos hl, hshort hl]; simp
        · rw [if_neg hl]; exact hIH
      · -- a name
        rw [ptrLoop_clean hc]
        have hm : simpMid st x = st.push x := simpMid_push_clean hc
        rw [hm] at hIH ⊢
        rw [← hIH, emit_push]
        simp


/-! ### the pre-scan of an absolute path -/

theorem dropLast_cons_concat (c : UInt8) (x : Bytes) : (c :: (x ++ [slash])).dropLast = c :: x := by
  rw [← List.cons_append]; exact List.dropLast_concat

theorem ptrPreScan_spec : ∀ (segs : List Bytes) (st : SimpSt) (fuel F : Nat), segs ≠ [] →
    (∀ seg ∈ segs, slash ∉ seg) → SimpInv st → (tailIn segs).length < fuel → (tailIn segs).length < F →
    (match ptrPreScan fuel (emit st).reverse (tailIn segs) with
     | none => (emit st ++ tailIn segs).dropLast
     | some (po, rest) => ptrLoop F po rest) = simpRun st segs := by
  intro segs
  induction segs with
  | nil => intro st fuel F h; exact absurd rfl h
  | cons x rest ih =>
    intro st fuel F _ hns hinv hfuel hF
    have hx : slash ∉ x := hns x (by simp)
    obtain ⟨f, rfl⟩ : ∃ f, fuel = f + 1 := ⟨fuel - 1, by have := tailIn_length_pos (x :: rest); omega⟩
    have hloop := ptrLoop_simpRun (x :: rest) st F (by simp) hns hinv hF
    -- a segment that is empty or starts with '.' stops the scan (unless it is the sentinel itself)
    have hbreak : ∀ (c : UInt8) (r : Bytes), tailIn (x :: rest) = c :: r → (c = dot ∨ c = slash) → r ≠ [] →
        (match ptrPreScan (f + 1) (emit st).reverse (tailIn (x :: rest)) with
         | none => (emit st ++ tailIn (x :: rest)).dropLast
         | some (po, rest') => ptrLoop F po rest') = simpRun st (x :: rest) := by
      intro c r he hc hr
      rw [he, ptrPreScan]
      simp only [hc, if_true, hr, if_false]
      rw [← he]; exact hloop
    cases x with
    | nil =>
      cases rest with
      | nil =>
        -- "/…/" : the trailing empty segment is the sentinel: unchanged
        rw [tailIn_single, List.nil_append, ptrPreScan]
        simp only [or_true, if_true]
        rw [simpRun_single]
        simp [simpLast, render_true_emit, List.dropLast_concat]
      | cons y more =>
        exact hbreak slash (tailIn (y :: more)) (by rw [tailIn_cons]; rfl) (Or.inr rfl)
          (by have := tailIn_length_pos (y :: more); intro e; rw [e] at this; simp at this)
    | cons c x' =>
      by_cases hcd : c = dot
      · subst hcd
        cases rest with
        | nil => exact hbreak dot (x' ++ [slash]) (by rw [tailIn_single]; rfl) (Or.inl rfl) (by simp)
        | cons y more =>
          exact hbreak dot (x' ++ slash :: tailIn (y :: more)) (by rw [tailIn_cons]; rfl) (Or.inl rfl) (by simp)
      · -- a name not starting with '.': skipped (the bytes stay where they are)
        have hcs : c ≠ slash := fun e => hx (by simp [e])
        have hcl : Clean (c :: x') := by
          refine ⟨by simp, ?_, ?_, hx⟩
          · intro e; simp [segDot] at e; exact hcd e.1
          · intro e; simp [segDotDot] at e; exact hcd e.1
        have hcond : ¬(c = dot ∨ c = slash) := by rintro (e | e); exact hcd e; exact hcs e
        cases rest with
        | nil =>
          rw [tailIn_single]
          simp only [List.cons_append]
          rw [ptrPreScan]
          simp only [hcond, if_false]
          have := ptrCopy_seg (c :: x') (emit st).reverse [] hx
          simp only [List.cons_append] at this
          rw [this]
          simp only [if_true]
          rw [simpRun_single]
          have hl : simpLast st (c :: x') = (st.push (c :: x'), false) := by
            unfold simpLast
            rw [if_neg (by rintro (e | e); exact hcl.1 e; exact hcl.2.1 e), if_neg hcl.2.2.1]
          rw [hl]; simp only
          rw [render_false_emit (by simp [SimpSt.push]), emit_push]
          simp [List.dropLast_concat, dropLast_cons_concat]
        | cons y more =>
          rw [tailIn_cons]
          simp only [List.cons_append]
          rw [ptrPreScan]
          simp only [hcond, if_false]
          have := ptrCopy_seg (c :: x') (emit st).reverse (tailIn (y :: more)) hx
          simp only [List.cons_append] at this
          rw [this]
          have hne : tailIn (y :: more) ≠ [] := by
            have := tailIn_length_pos (y :: more); intro e; rw [e] at this; simp at this
          simp only [hne, if_false]
          have hns' : ∀ seg ∈ y :: more, slash ∉ seg := fun s hs => hns s (by simp [hs])
          have hlen : (tailIn (y :: more)).length < f := by
            rw [tailIn_cons] at hfuel; simp only [List.length_append, List.length_cons] at hfuel; omega
          have hlenF : (tailIn (y :: more)).length < F := by
            rw [tailIn_cons] at hF; simp only [List.length_append, List.length_cons] at hF; omega
          have hIH := ih (st.push (c :: x')) f F (by simp) hns' (push_inv hinv hcl) hlen hlenF
          rw [emit_push] at hIH
          rw [simpRun_cons, simpMid_push_clean hcl, ← hIH]
          simp [List.append_assoc]

/-! ### the whole function -/

theorem tailIn_splitOn (t : Bytes) : tailIn (splitOn slash t) = t ++ [slash] := by
  simp [tailIn, join_splitOn]

/-- buffer_path_simplify() as the C runs it (cursor-level transcription) computes the segment-stack
    specification, for every byte string (NUL is an ordinary byte here) -/
theorem pathSimplifyPtr_eq (s : Bytes) : pathSimplifyPtr s = pathSimplify s := by
  cases s with
  | nil => simp [pathSimplifyPtr, pathSimplify]
  | cons c0 t =>
    by_cases h0 : c0 = slash
    · -- absolute
      subst h0
      rw [pathSimplify_abs]
      unfold pathSimplifyPtr
      simp only [if_true]
      have hsp := ptrPreScan_spec (splitOn slash t) { rel := false, stack := [] }
        ((slash :: t).length + 2) ((slash :: t).length + 2) (splitOn_ne_nil _ _) (splitOn_mem_nosep _ _)
        ⟨by intro s hs; simp at hs, by simp⟩
        (by rw [tailIn_splitOn]; simp) (by rw [tailIn_splitOn]; simp)
      rw [tailIn_splitOn] at hsp
      have he : (emit { rel := false, stack := [] }).reverse = [slash] := by simp [emit]
      rw [he] at hsp
      rw [← hsp]
      cases ptrPreScan ((slash :: t).length + 2) [slash] (t ++ [slash]) with
      | none => simp [emit, dropLast_cons_concat]
      | some pr => rfl
    · -- relative
      have hns := splitOn_mem_nosep slash (c0 :: t)
      obtain ⟨f, rest, hsp⟩ := (fun (h : ∃ H T, splitOn slash (c0 :: t) = H :: T) => h)
        (by cases h : splitOn slash (c0 :: t) with
            | nil => exact absurd h (splitOn_ne_nil _ _)
            | cons H T => exact ⟨H, T, rfl⟩)
      rw [hsp] at hns
      have hfns : slash ∉ f := hns f (by simp)
      have hrns : ∀ seg ∈ rest, slash ∉ seg := fun s hs => hns s (by simp [hs])
      have hj := join_splitOn slash (c0 :: t)
      rw [hsp] at hj
      -- f = c0 :: f'
      obtain ⟨f', hf⟩ : ∃ f', f = c0 :: f' := by
        cases f with
        | nil =>
          cases rest with
          | nil => simp [join] at hj
          | cons r rs => simp [join] at hj; exact absurd hj.1.symm h0
        | cons a as =>
          cases rest with
          | nil => simp [join] at hj; exact ⟨as, by rw [hj.1]⟩
          | cons r rs => simp [join] at hj; exact ⟨as, by rw [hj.1]⟩
      subst hf
      have hfne : (c0 :: f') ≠ [] := by simp
      have hf's : slash ∉ f' := fun e => hfns (by simp [e])
      rw [pathSimplify_rel (by simp) hsp hfne]
      unfold pathSimplifyPtr
      simp only [h0, if_false]
      cases rest with
      | nil =>
        -- no '/' at all
        have ht : t = f' := by simp [join] at hj; exact hj.symm
        subst ht
        simp only
        by_cases hd : c0 :: t = segDot
        · simp only [segDot, List.cons.injEq] at hd
          obtain ⟨rfl, rfl⟩ := hd
          simp [segDot, ptrLoop, dot, slash]
        · by_cases hdd : c0 :: t = segDotDot
          · simp only [segDotDot, List.cons.injEq] at hdd
            obtain ⟨rfl, rfl, rfl⟩ := hdd
            simp [segDot, segDotDot, ptrLoop, dot, slash]
          · rw [if_neg (show ¬(_ = segDot ∨ _ = segDotDot) from fun h => h.elim hd hdd)]
            have hA : ¬(c0 = dot ∧ (t ++ [slash]).head? = some slash) := by
              rintro ⟨a1, a2⟩
              cases t with
              | nil => exact hd (by simp [a1, segDot])
              | cons b bs => simp at a2; exact hf's (by simp [a2])
            have hB : ¬(c0 = dot ∧ (t ++ [slash]).head? = some dot ∧ ((t ++ [slash]).drop 1).head? = some slash) := by
              rintro ⟨a1, a2, a3⟩
              cases t with
              | nil => simp [dot, slash] at a2
              | cons b bs =>
                simp at a2
                cases bs with
                | nil => exact hdd (by simp [a1, a2, segDotDot])
                | cons b2 bs2 => simp at a3; exact hf's (by simp [a3])
            rw [if_neg hA, if_neg hB]
            have := ptrCopy_seg t [c0] [] hf's
            rw [show t ++ [slash] = t ++ slash :: [] from rfl, this]
            simp [ptrLoop]
      | cons r rs =>
        have ht : t = f' ++ slash :: join slash (r :: rs) := by
          simp only [join, List.cons_append, List.cons.injEq, true_and] at hj
          exact hj.symm
        have hb1 : t ++ [slash] = f' ++ slash :: tailIn (r :: rs) := by
          rw [ht]; simp [tailIn]
        simp only
        rw [hb1]
        have hfuel : (tailIn (r :: rs)).length < (c0 :: t).length + 2 := by
          have := congrArg List.length hb1
          simp only [List.length_append, List.length_cons, List.length_nil] at this ⊢
          omega
        have hst0 : SimpInv { rel := false, stack := [] } := ⟨by intro s hs; simp at hs, by simp⟩
        have hl0 := ptrLoop_simpRun (r :: rs) { rel := false, stack := [] } ((c0 :: t).length + 2)
          (by simp) hrns hst0 hfuel
        have he0 : (emit { rel := false, stack := [] }).reverse = [slash] := by simp [emit]
        rw [he0] at hl0
        by_cases hd : c0 :: f' = segDot
        · simp only [segDot, List.cons.injEq] at hd
          obtain ⟨rfl, rfl⟩ := hd
          simp only [List.nil_append, List.head?_cons, and_self, if_true, List.drop_succ_cons,
                     List.drop_zero, segDot, true_or]
          exact hl0
        · by_cases hdd : c0 :: f' = segDotDot
          · simp only [segDotDot, List.cons.injEq] at hdd
            obtain ⟨rfl, rfl, rfl⟩ := hdd
            have hds : dot ≠ slash := by decide
            simp only [List.cons_append, List.nil_append, List.head?_cons, Option.some.injEq, hds, and_false,
                       if_false, true_and, List.drop_succ_cons, List.drop_zero, and_self, if_true,
                       segDotDot, segDot, or_true]
            exact hl0
          · rw [if_neg (show ¬(_ = segDot ∨ _ = segDotDot) from fun h => h.elim hd hdd)]
            have hA : ¬(c0 = dot ∧ (f' ++ slash :: tailIn (r :: rs)).head? = some slash) := by
              rintro ⟨a1, a2⟩
              cases f' with
              | nil => exact hd (by simp [a1, segDot])
              | cons b bs => simp at a2; exact hf's (by simp [a2])
            have hB : ¬(c0 = dot ∧ (f' ++ slash :: tailIn (r :: rs)).head? = some dot ∧
                ((f' ++ slash :: tailIn (r :: rs)).drop 1).head? = some slash) := by
              rintro ⟨a1, a2, a3⟩
              cases f' with
              | nil => simp [dot, slash] at a2
              | cons b bs =>
                simp at a2
                cases bs with
                | nil => exact hdd (by simp [a1, a2, segDotDot])
                | cons b2 bs2 => simp at a3; exact hf's (by simp [a3])
            rw [if_neg hA, if_neg hB, ptrCopy_seg f' [c0] _ hf's]
            simp only
            have hcl : Clean (c0 :: f') := ⟨hfne, hd, hdd, hfns⟩
            have hst : SimpInv { rel := true, stack := [c0 :: f'] } :=
              ⟨by intro s hs; simp at hs; exact hs ▸ hcl, by simp⟩
            have hl := ptrLoop_simpRun (r :: rs) { rel := true, stack := [c0 :: f'] } ((c0 :: t).length + 2)
              (by simp) hrns hst hfuel
            have he : (emit { rel := true, stack := [c0 :: f'] }).reverse = slash :: (f'.reverse ++ [c0]) := by
              simp [emit]
            rw [he] at hl
            exact hl


/-! ### buffer_urldecode_path() -/

theorem urldecodePath_cons_ne {b : UInt8} (hb : b ≠ pct) (X : Bytes) :
    urldecodePath (b :: X) = b :: urldecodePath X := by
  match X with
  | [] => simp [urldecodePath]
  | [x] => simp [urldecodePath]
  | h :: l :: r => rw [urldecodePath]; simp [hb]

theorem urldecodePath_prefix : ∀ (pre rest : Bytes), pct ∉ pre →
    urldecodePath (pre ++ rest) = pre ++ urldecodePath rest := by
  intro pre
  induction pre with
  | nil => intro rest _; rfl
  | cons c cs ih =>
    intro rest h
    have hc : c ≠ pct := fun e => h (by simp [e])
    simp only [List.cons_append]
    rw [urldecodePath_cons_ne hc, ih rest (fun e => h (by simp [e]))]

theorem urldecodePath_nopct (s : Bytes) (h : pct ∉ s) : urldecodePath s = s := by
  have := urldecodePath_prefix s [] h
  simpa [urldecodePath] using this

theorem takeWhile_split (p : UInt8 → Bool) (l : Bytes) :
    l = l.takeWhile p ++ l.drop (l.takeWhile p).length := by
  have := List.takeWhile_append_dropWhile (p := p) (l := l)
  conv => lhs; rw [← this]
  congr 1
  induction l with
  | nil => rfl
  | cons c r ih =>
    simp only [List.takeWhile_cons, List.dropWhile_cons]
    split
    · simpa using ih
    · simp

theorem dropWhile_stop (p : UInt8 → Bool) : ∀ (l : Bytes) (x : UInt8) (t : Bytes),
    l.dropWhile p = x :: t → p x = false := by
  intro l
  induction l with
  | nil => intro x t h; simp at h
  | cons c r ih =>
    intro x t h
    simp only [List.dropWhile_cons] at h
    split at h
    · exact ih x t h
    · rename_i hc
      simp only [List.cons.injEq] at h
      rw [← h.1]; simpa using hc

theorem takeWhile_no (p : UInt8 → Bool) (l : Bytes) (x : UInt8) (h : x ∈ l.takeWhile p) : p x = true := by
  induction l with
  | nil => simp at h
  | cons c r ih =>
    simp only [List.takeWhile_cons] at h
    split at h
    · rename_i hc
      simp only [List.mem_cons] at h
      rcases h with e | e
      · rw [e]; exact hc
      · exact ih e
    · simp at h

theorem hexC_zero : hexC (0 : UInt8) = none := by decide

/-- the decode step agrees with the specification's case split -/
theorem urldecodeStep_spec (po r : Bytes) (h0 : (0 : UInt8) ∉ r) :
    (urldecodeStep (pct :: po) r).1.reverse ++ urldecodePath (urldecodeStep (pct :: po) r).2
      = po.reverse ++ urldecodePath (pct :: r) ∧
    (0 : UInt8) ∉ (urldecodeStep (pct :: po) r).2 ∧ (urldecodeStep (pct :: po) r).2.length ≤ r.length := by
  match r, h0 with
  | [], _ => simp [urldecodeStep, hexC_zero, urldecodePath]
  | [h], h0 =>
    have hh : h ≠ 0 := fun e => h0 (by simp [e])
    have hst : urldecodeStep (pct :: po) [h] = (pct :: po, [h]) := by
      unfold urldecodeStep
      simp only [List.getD_cons_zero, List.getD_cons_succ, List.getD_nil, hh, ne_eq, not_false_eq_true,
                 if_true, hexC_zero]
      cases hexC h <;> rfl
    rw [hst]; simp [urldecodePath, hh, Ne.symm hh]
  | h :: l :: rest, h0 =>
    have hh : h ≠ 0 := fun e => h0 (by simp [e])
    have h0r : (0 : UInt8) ∉ rest := fun e => h0 (by simp [e])
    cases hvh : hexVal h with
    | none =>
      have hst : urldecodeStep (pct :: po) (h :: l :: rest) = (pct :: po, h :: l :: rest) := by
        unfold urldecodeStep hexC
        simp [hh, hvh]
      rw [hst]
      refine ⟨?_, h0, Nat.le_refl _⟩
      conv => rhs; rw [urldecodePath]
      simp [hvh]
    | some hv =>
      cases hvl : hexVal l with
      | none =>
        have hst : urldecodeStep (pct :: po) (h :: l :: rest) = (pct :: po, h :: l :: rest) := by
          unfold urldecodeStep hexC
          simp [hh, hvh, hvl]
        rw [hst]
        refine ⟨?_, h0, Nat.le_refl _⟩
        conv => rhs; rw [urldecodePath]
        simp [hvh, hvl]
      | some lv =>
        have hst : urldecodeStep (pct :: po) (h :: l :: rest) = (decodeByte hv lv :: po, rest) := by
          unfold urldecodeStep hexC
          simp [hh, hvh, hvl]
        rw [hst]
        refine ⟨?_, h0r, by simp; omega⟩
        conv => rhs; rw [urldecodePath]
        simp [hvh, hvl]

/-- the loop of buffer_urldecode_path() on NUL-free input computes the specification -/
theorem urldecodeLoop_eq : ∀ (fuel : Nat) (po r : Bytes), (0 : UInt8) ∉ r → r.length < fuel →
    urldecodeLoop fuel (pct :: po) r = po.reverse ++ urldecodePath (pct :: r) := by
  intro fuel
  induction fuel with
  | zero => intro po r _ h; omega
  | succ f ih =>
    intro po r h0 hf
    obtain ⟨hval, h1, hl⟩ := urldecodeStep_spec po r h0
    rw [urldecodeLoop]
    generalize urldecodeStep (pct :: po) r = st at hval h1 hl ⊢
    obtain ⟨po1, r1⟩ := st
    simp only at hval h1 hl ⊢
    rw [← hval]
    have hsplit := takeWhile_split (fun b => b ≠ pct && b ≠ 0) r1
    generalize hseg : r1.takeWhile (fun b => b ≠ pct && b ≠ 0) = seg at hsplit ⊢
    have hsegp : pct ∉ seg := by
      intro hm; rw [← hseg] at hm
      have := takeWhile_no _ _ _ hm
      simp at this
    cases htl : r1.drop seg.length with
    | nil =>
      rw [htl, List.append_nil] at hsplit
      simp only
      rw [hsplit, urldecodePath_nopct seg hsegp]; simp
    | cons b r2 =>
      rw [htl] at hsplit
      have hb0 : b ≠ 0 := fun e => h1 (by rw [hsplit]; simp [e])
      have hd : r1.dropWhile (fun b => b ≠ pct && b ≠ 0) = b :: r2 := by
        have := List.takeWhile_append_dropWhile (p := fun b => b ≠ pct && b ≠ 0) (l := r1)
        rw [hseg] at this
        have h2 : seg ++ r1.dropWhile (fun b => b ≠ pct && b ≠ 0) = seg ++ (b :: r2) := by
          rw [this]; exact hsplit
        exact List.append_cancel_left h2
      have hbp : b = pct := by
        have hstop := dropWhile_stop (fun b => b ≠ pct && b ≠ 0) r1 b r2 hd
        simp only [Bool.and_eq_false_iff, bne_eq_false_iff_eq, ne_eq, decide_eq_false_iff_not,
                   Decidable.not_not] at hstop
        rcases hstop with e | e
        · exact e
        · exact absurd e hb0
      subst hbp
      simp only [hb0, if_false]
      have h02 : (0 : UInt8) ∉ r2 := fun e => h1 (by rw [hsplit]; simp [e])
      have hl2 : r2.length < f := by
        have := congrArg List.length hsplit
        simp only [List.length_append, List.length_cons] at this
        omega
      rw [ih _ r2 h02 hl2]
      conv => rhs; rw [hsplit]
      rw [urldecodePath_prefix seg _ hsegp]
      simp

/-- buffer_urldecode_path() as the C runs it equals the specification on NUL-free input (on other input
    the C stops at the first NUL behind the first '%': `urldecodePathC` is what the harness compares) -/
theorem urldecodePathC_eq (s : Bytes) (h : (0 : UInt8) ∉ s) : urldecodePathC s = urldecodePath s := by
  unfold urldecodePathC
  have hsplit := takeWhile_split (· ≠ pct) s
  generalize hpre : s.takeWhile (· ≠ pct) = pre at hsplit ⊢
  have hprep : pct ∉ pre := by
    intro hm; rw [← hpre] at hm
    have := takeWhile_no _ _ _ hm
    simp at this
  simp only
  cases htl : s.drop pre.length with
  | nil =>
    rw [htl, List.append_nil] at hsplit
    simp only
    rw [hsplit, urldecodePath_nopct pre hprep]
  | cons b r =>
    rw [htl] at hsplit
    have hbp : b = pct := by
      have hd : s.dropWhile (· ≠ pct) = b :: r := by
        have := List.takeWhile_append_dropWhile (p := (· ≠ pct)) (l := s)
        rw [hpre] at this
        have h2 : pre ++ s.dropWhile (· ≠ pct) = pre ++ (b :: r) := by rw [this]; exact hsplit
        exact List.append_cancel_left h2
      have := dropWhile_stop (· ≠ pct) s b r hd
      simpa using this
    subst hbp
    simp only
    have h0r : (0 : UInt8) ∉ r := fun e => h (by rw [hsplit]; simp [e])
    have hl : r.length < s.length + 1 := by
      have := congrArg List.length hsplit
      simp only [List.length_append, List.length_cons] at this
      omega
    rw [urldecodeLoop_eq _ _ r h0r hl, List.reverse_reverse]
    conv => rhs; rw [hsplit]
    rw [urldecodePath_prefix pre _ hprep]

end LtVerif
