/-
  Helper lemmas for C09: reverse-proxy field filter and chunked upload (Model/ProxyReq.lean).
-/
import LtVerif.Proofs.Scgi
import LtVerif.Model.ProxyReq
namespace LtVerif.Proxy
open LtVerif B

theorem fieldAct_emit (c : Cfg) (version : Nat) (k v : Bytes) (h : fieldAct c version k v = .emit) :
    nameIs k "Connection" = false ∧ nameIs k "Proxy-Connection" = false ∧
    nameIs k "Proxy" = false ∧ nameIs k "Host" = false ∧
    nameIs k "Set-Cookie" = false ∧ k ≠ [] ∧ v ≠ [] ∧
    (nameIs k "TE" = true →
      eqIcase v (ofString "trailers") = true ∧ version ≠ 0 ∧ c.forceHttp10 = false) := by
  unfold fieldAct at h
  split at h
  · exact absurd h (by simp)
  · split at h
    · exact absurd h (by simp)
    · split at h
      · exact absurd h (by simp)
      · split at h
        · exact absurd h (by simp)
        · split at h
          · exact absurd h (by simp)
          · split at h
            · exact absurd h (by simp)
            · split at h
              · exact absurd h (by simp)
              · split at h
                · exact absurd h (by simp)
                · rename_i h1 h2 h3 h4 h5 h6 h7 h8
                  simp only [Bool.or_eq_true, not_or, Bool.not_eq_true] at h3 h8
                  simp only [Bool.not_eq_true] at h1 h6 h7
                  refine ⟨h6, h3.1, h3.2, h1, h7, ?_, ?_, ?_⟩
                  · intro e; rw [e] at h8; simp at h8
                  · intro e; rw [e] at h8; simp at h8
                  · intro hte
                    rw [hte] at h4
                    cases hf : c.forceHttp10 <;> cases ht : eqIcase v (ofString "trailers") <;>
                      simp [hf, ht] at h4 ⊢
                    exact h4

/-! ### hex chunk sizes -/

def hexFold (ds : Bytes) (a0 : Nat) : Nat := ds.foldl (fun a d => a * 16 + ((hexValNat d).getD 0)) a0

theorem hexDigit_val : ∀ n : Fin 16, hexValNat (hexDigitLC n.val.toUInt8) = some n.val := by decide

theorem hexDigit_val' (n : Nat) (h : n < 16) : hexValNat (hexDigitLC n.toUInt8) = some n :=
  hexDigit_val ⟨n, h⟩

theorem hexLcBytes_spec : ∀ (fuel n : Nat) (acc : Bytes), n < fuel →
    ∃ ds, hexLcBytes fuel n acc = ds ++ acc ∧ ds ≠ [] ∧ (∀ d ∈ ds, (hexValNat d).isSome = true) ∧
      ∀ a0, hexFold ds a0 = a0 * 16 ^ ds.length + n := by
  intro fuel
  induction fuel with
  | zero => intro n acc h; omega
  | succ f ih =>
    intro n acc h
    have h1 : n / 16 % 16 < 16 := Nat.mod_lt _ (by decide)
    have h2 : n % 16 < 16 := Nat.mod_lt _ (by decide)
    have v1 := hexDigit_val' _ h1
    have v2 := hexDigit_val' _ h2
    unfold hexLcBytes
    by_cases hz : n / 256 = 0
    · simp only [hz, ↓reduceIte]
      refine ⟨[hexDigitLC (n / 16 % 16).toUInt8, hexDigitLC (n % 16).toUInt8], by simp, by simp, ?_, ?_⟩
      · intro d hd
        simp only [List.mem_cons, List.not_mem_nil, or_false] at hd
        rcases hd with rfl | rfl
        · rw [v1]; rfl
        · rw [v2]; rfl
      · intro a0
        simp only [hexFold, List.foldl_cons, List.foldl_nil, v1, v2, Option.getD_some, List.length_cons,
          List.length_nil]
        omega
    · simp only [hz, ↓reduceIte]
      obtain ⟨ds, e1, e2, e3, e4⟩ :=
        ih (n / 256) (hexDigitLC (n / 16 % 16).toUInt8 :: hexDigitLC (n % 16).toUInt8 :: acc) (by omega)
      refine ⟨ds ++ [hexDigitLC (n / 16 % 16).toUInt8, hexDigitLC (n % 16).toUInt8], ?_, by simp, ?_, ?_⟩
      · rw [e1]; simp
      · intro d hd
        rcases List.mem_append.mp hd with hd | hd
        · exact e3 d hd
        · simp only [List.mem_cons, List.not_mem_nil, or_false] at hd
          rcases hd with rfl | rfl
          · rw [v1]; rfl
          · rw [v2]; rfl
      · intro a0
        have := e4 a0
        simp only [hexFold] at this ⊢
        rw [List.foldl_append, this]
        simp only [List.foldl_cons, List.foldl_nil, v1, v2, Option.getD_some, List.length_append,
          List.length_cons, List.length_nil]
        have hp : 16 ^ (ds.length + (0 + 1 + 1)) = 16 ^ ds.length * 256 := by
          rw [show ds.length + (0 + 1 + 1) = ds.length + 2 by omega, Nat.pow_add]
        rw [hp, ← Nat.mul_assoc]
        generalize a0 * 16 ^ ds.length = X
        omega

theorem hexLc_spec (n : Nat) :
    hexLc n ≠ [] ∧ (∀ d ∈ hexLc n, (hexValNat d).isSome = true) ∧ hexFold (hexLc n) 0 = n := by
  obtain ⟨ds, h1, h2, h3, h4⟩ := hexLcBytes_spec (n + 1) n [] (by omega)
  simp only [hexLc, h1, List.append_nil]
  exact ⟨h2, h3, by rw [h4 0]; omega⟩

theorem parseHexLine_digits (ds rest : Bytes) (h : ∀ d ∈ ds, (hexValNat d).isSome = true) :
    ∀ acc ndig, 0 < ndig + ds.length →
      parseHexLine (ds ++ cr :: lf :: rest) acc ndig = some (hexFold ds acc, rest) := by
  induction ds with
  | nil =>
    intro acc ndig hpos
    have hcr : hexValNat cr = none := by decide
    simp only [List.nil_append, parseHexLine, hcr, List.head?_cons, true_and, hexFold, List.foldl_nil,
      List.drop_succ_cons, List.drop_zero]
    have : ndig > 0 := by simpa using hpos
    simp [this]
  | cons d t ih =>
    intro acc ndig _
    have hd := h d (by simp)
    cases hv : hexValNat d with
    | none => rw [hv] at hd; exact absurd hd (by simp)
    | some v =>
      simp only [List.cons_append, parseHexLine, hv]
      rw [ih (fun x hx => h x (by simp [hx])) _ _ (by omega)]
      simp [hexFold, hv]

/-! ### chunked upload -/

def chunkEnc (c : Bytes) : Bytes := hexLc c.length ++ crlf ++ c ++ crlf

theorem dechunk_chunks (cs : List Bytes) (hne : ∀ c ∈ cs, c ≠ []) :
    ∀ fuel, cs.length < fuel →
      dechunk fuel (cs.flatMap chunkEnc ++ lastChunk) = some (cs.flatten, []) := by
  induction cs with
  | nil =>
    intro fuel hf
    cases fuel with
    | zero => omega
    | succ f =>
      have : lastChunk = [48] ++ cr :: lf :: crlf := by decide
      simp only [List.flatMap_nil, List.nil_append, dechunk]
      rw [this, parseHexLine_digits [48] crlf (by decide) 0 0 (by simp)]
      simp [hexFold, hexValNat, hexVal, isDigit, crlf]
  | cons c tl ih =>
    intro fuel hf
    cases fuel with
    | zero => omega
    | succ f =>
      have hc : c ≠ [] := hne c (by simp)
      obtain ⟨_, hd, hvv⟩ := hexLc_spec c.length
      have shape : (c :: tl).flatMap chunkEnc ++ lastChunk =
          hexLc c.length ++ cr :: lf :: (c ++ (crlf ++ (tl.flatMap chunkEnc ++ lastChunk))) := by
        simp [chunkEnc, crlf, List.append_assoc]
      rw [shape, dechunk, parseHexLine_digits _ _ hd 0 0 (by
        have : hexLc c.length ≠ [] := (hexLc_spec c.length).1
        cases h : hexLc c.length with
        | nil => exact absurd h this
        | cons a b => simp), hvv]
      have hpos : c.length ≠ 0 := by
        intro e; exact hc (List.eq_nil_of_length_eq_zero e)
      simp only [hpos, ↓reduceIte]
      have l1 : ¬ ((c ++ (crlf ++ (tl.flatMap chunkEnc ++ lastChunk))).length < c.length + 2 ∨
          ((c ++ (crlf ++ (tl.flatMap chunkEnc ++ lastChunk))).drop c.length).take 2 ≠ crlf) := by
        simp [crlf]
      simp only [l1, ↓reduceIte]
      have d1 : (c ++ (crlf ++ (tl.flatMap chunkEnc ++ lastChunk))).drop (c.length + 2) =
          tl.flatMap chunkEnc ++ lastChunk := by
        rw [← List.drop_drop]; simp [crlf]
      rw [d1, ih (fun x hx => hne x (by simp [hx])) f (by simp only [List.length_cons] at hf; omega)]
      simp

/-- invariant of the streamed upload before completion -/
def UpInv (hdr : Bytes) (st : RawSt) (cs : List Bytes) : Prop :=
  st.out = hdr ++ cs.flatMap chunkEnc ∧ st.pending = [] ∧ st.reqlen = -(st.out.length : Int) ∧
  ∀ c ∈ cs, c ≠ []

theorem stdinAppend_up (hdr : Bytes) (hh : 1 < hdr.length) (st : RawSt) (cs : List Bytes) (p : Bytes)
    (h : UpInv hdr st cs) :
    UpInv hdr (stdinAppend { st with pending := p }) (if p.isEmpty then cs else cs ++ [p]) := by
  obtain ⟨h1, h2, h3, h4⟩ := h
  have hlen : hdr.length ≤ st.out.length := by rw [h1, List.length_append]; omega
  unfold stdinAppend
  by_cases hp : p.isEmpty = true
  · have hpn : p = [] := by simpa using hp
    simp only [hp, ↓reduceIte]
    have hc : ¬ ((st.out.length : Int) = st.reqlen) := by rw [h3]; omega
    simp only [hc, ↓reduceIte]
    exact ⟨h1, hpn, h3, h4⟩
  · have hpn : p ≠ [] := by intro e; apply hp; rw [e]; rfl
    simp only [hp, Bool.false_eq_true, ↓reduceIte]
    have hr1 : ¬ (st.reqlen = -1) := by rw [h3]; omega
    have hr2 : ¬ (st.reqlen ≥ 0) := by rw [h3]; omega
    simp only [hr1, hr2, ↓reduceIte]
    have hout : st.out ++ (hexLc p.length ++ crlf) ++ p ++ crlf =
        hdr ++ (cs ++ [p]).flatMap chunkEnc := by
      rw [h1]; simp [chunkEnc, List.append_assoc]
    have hc : ¬ (((st.out ++ (hexLc p.length ++ crlf) ++ p ++ crlf).length : Int) =
        st.reqlen - (((hexLc p.length ++ crlf).length + 2 + p.length : Nat) : Int)) := by
      rw [h3]; simp only [List.length_append]; push_cast; omega
    simp only [hc, ↓reduceIte]
    refine ⟨hout, rfl, ?_, ?_⟩
    · simp only; rw [h3]; simp only [List.length_append, crlf, List.length_cons, List.length_nil]
      push_cast; omega
    · intro c hcm
      rcases List.mem_append.mp hcm with hcm | hcm
      · exact h4 c hcm
      · simp only [List.mem_singleton] at hcm; rw [hcm]; exact hpn

theorem upFold (hdr : Bytes) (hh : 1 < hdr.length) (segs : List Bytes) :
    ∀ (st : RawSt) (cs : List Bytes), UpInv hdr st cs →
      ∃ cs', UpInv hdr (segs.foldl (arrive {} true) st) cs' ∧ cs'.flatten = cs.flatten ++ segs.flatten := by
  induction segs with
  | nil => intro st cs h; exact ⟨cs, h, by simp⟩
  | cons s tl ih =>
    intro st cs h
    simp only [List.foldl_cons]
    have hstep : UpInv hdr (arrive {} true st s) (if s.isEmpty then cs else cs ++ [s]) := by
      have := stdinAppend_up hdr hh st cs s h
      unfold arrive
      simp only [h.2.1, List.nil_append]
      by_cases hs : s.isEmpty = true
      · have hsn : s = [] := by simpa using hs
        simp only [hs, true_or, ↓reduceIte]
        obtain ⟨h1, h2, h3, h4⟩ := h
        exact ⟨h1, hsn, h3, h4⟩
      · simp only [hs, Bool.false_eq_true, false_or, ↓reduceIte]
        simp only [hs, Bool.false_eq_true, ↓reduceIte] at this
        exact this
    obtain ⟨cs', hc1, hc2⟩ := ih _ _ hstep
    refine ⟨cs', hc1, ?_⟩
    rw [hc2]
    by_cases hs : s.isEmpty = true
    · have hsn : s = [] := by simpa using hs
      simp [hsn]
    · simp [hs]

theorem runChunked_spec' (hdr : Bytes) (hh : 1 < hdr.length) (seg0 : Bytes) (segs : List Bytes) :
    ∃ stream, (runChunked hdr seg0 segs).out = hdr ++ stream ∧
      dechunk (stream.length + 1) stream = some ((seg0 :: segs).flatten, []) ∧
      (runChunked hdr seg0 segs).pending = [] := by
  have h0 : UpInv hdr { out := hdr, reqlen := -(hdr.length : Int), pending := [] } [] :=
    ⟨by simp, rfl, rfl, by intro c hc; simp at hc⟩
  have h1 := stdinAppend_up hdr hh _ [] seg0 h0
  obtain ⟨cs, hc1, hc2⟩ := upFold hdr hh segs _ _ h1
  obtain ⟨e1, e2, e3, e4⟩ := hc1
  unfold runChunked
  simp only at e1 e2 e3 ⊢
  generalize segs.foldl (arrive {} true) (stdinAppend { out := hdr, reqlen := -(hdr.length : Int), pending := seg0 }) = st at *
  have hlen : hdr.length ≤ st.out.length := by rw [e1, List.length_append]; omega
  have hlt : st.reqlen < -1 := by rw [e3]; omega
  have hfin : complete true st = { st with out := st.out ++ lastChunk, reqlen := (st.out.length : Int) + 6 } := by
    have hneg : (st.out.length : Int) = -st.reqlen := by rw [e3]; omega
    unfold complete
    rw [if_pos hlt]
    simp only [↓reduceIte, stdinAppend, e2, List.isEmpty_nil, hneg]
  rw [hfin]
  refine ⟨cs.flatMap chunkEnc ++ lastChunk, by simp [e1, List.append_assoc], ?_, e2⟩
  rw [dechunk_chunks cs e4 _ (by
    have : cs.length ≤ (cs.flatMap chunkEnc).length := by
      clear e1 e4 hc2
      induction cs with
      | nil => simp
      | cons c t ih =>
        simp only [List.flatMap_cons, List.length_append, List.length_cons]
        have : 4 ≤ (chunkEnc c).length := by simp [chunkEnc, crlf]; omega
        omega
    simp only [List.length_append]; omega)]
  rw [hc2]
  by_cases hs : seg0.isEmpty = true
  · have : seg0 = [] := by simpa using hs
    simp [this]
  · simp [hs]

end LtVerif.Proxy
