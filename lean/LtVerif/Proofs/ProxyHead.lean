/-
  Helper lemmas for C09: structure of the request head mod_proxy builds (Model/ProxyReq.lean
  `headFields`): which fields it contains, framing exclusivity, serialisation round trip.
-/
import LtVerif.Proofs.Proxy
namespace LtVerif.Proxy
open LtVerif B

/-! ### field names -/

theorem nameIs_self (n : String) : nameIs (ofString n) n = true := by
  simp [nameIs, eqIcase]

/-- a name cannot match two literals that differ case-insensitively -/
theorem nameIs_excl (k : Bytes) (a b : String)
    (hab : ((ofString a).map toLower == (ofString b).map toLower) = false)
    (ha : nameIs k a = true) : nameIs k b = false := by
  simp only [nameIs, eqIcase, beq_iff_eq] at ha
  cases hb : nameIs k b with
  | false => rfl
  | true =>
    simp only [nameIs, eqIcase, beq_iff_eq] at hb
    rw [ha] at hb
    simp [hb] at hab

/-! ### the stored-field list operations -/

theorem mem_setHdr (hs : Hdrs) (n : String) (w : Bytes) (p : Bytes × Bytes) (h : p ∈ setHdr hs n w) :
    nameIs p.1 n = true ∨ p ∈ hs := by
  unfold setHdr at h
  split at h
  · obtain ⟨q, hq, rfl⟩ := List.mem_map.mp h
    by_cases hn : nameIs q.1 n = true
    · left; simp only [hn, ↓reduceIte]
    · right; simp only [hn, Bool.false_eq_true, ↓reduceIte]; exact hq
  · rcases List.mem_append.mp h with h | h
    · right; exact h
    · left; simp only [List.mem_singleton] at h; rw [h]; exact nameIs_self n

theorem mem_setHdr_other (hs : Hdrs) (n : String) (w : Bytes) (p : Bytes × Bytes) (h : p ∈ hs)
    (hn : nameIs p.1 n = false) : p ∈ setHdr hs n w := by
  unfold setHdr
  split
  · exact List.mem_map.mpr ⟨p, h, by simp [hn]⟩
  · exact List.mem_append_left _ h

theorem mem_appendHdr (hs : Hdrs) (n : String) (w : Bytes) (p : Bytes × Bytes)
    (h : p ∈ appendHdr hs n w) : nameIs p.1 n = true ∨ p ∈ hs := by
  unfold appendHdr at h
  split at h
  · right; exact h
  · split at h
    · obtain ⟨q, hq, rfl⟩ := List.mem_map.mp h
      by_cases hn : nameIs q.1 n = true
      · left; simp only [hn, ↓reduceIte]
      · right; simp only [hn, Bool.false_eq_true, ↓reduceIte]; exact hq
    · rcases List.mem_append.mp h with h | h
      · right; exact h
      · left; simp only [List.mem_singleton] at h; rw [h]; exact nameIs_self n

theorem mem_appendHdr_other (hs : Hdrs) (n : String) (w : Bytes) (p : Bytes × Bytes) (h : p ∈ hs)
    (hn : nameIs p.1 n = false) : p ∈ appendHdr hs n w := by
  unfold appendHdr
  split
  · exact h
  · split
    · exact List.mem_map.mpr ⟨p, h, by simp [hn]⟩
    · exact List.mem_append_left _ h

/-- the names proxy_set_Forwarded() writes -/
def fwdNames : List String :=
  ["Forwarded", "X-Forwarded-For", "X-Host", "X-Forwarded-Host", "X-Forwarded-Proto"]

def isFwdName (k : Bytes) : Bool := fwdNames.any fun n => nameIs k n

theorem mem_setForwarded (flags : Nat) (r : Req) (hs : Hdrs) (p : Bytes × Bytes)
    (h : p ∈ setForwarded flags r hs) : isFwdName p.1 = true ∨ p ∈ hs := by
  have fw : ∀ n ∈ fwdNames, nameIs p.1 n = true → isFwdName p.1 = true := by
    intro n hn hp
    simp only [isFwdName, List.any_eq_true]
    exact ⟨n, hn, hp⟩
  unfold setForwarded at h
  rcases mem_setHdr _ _ _ _ h with h | h
  · left; exact fw _ (by simp [fwdNames]) h
  · have h3 : isFwdName p.1 = true ∨
        p ∈ appendHdr (setFwdForwarded flags r hs) "X-Forwarded-For" r.remoteAddr := by
      unfold setFwdHost at h
      split at h
      · rcases mem_setHdr _ _ _ _ h with h | h
        · left; exact fw _ (by simp [fwdNames]) h
        · rcases mem_setHdr _ _ _ _ h with h | h
          · left; exact fw _ (by simp [fwdNames]) h
          · right; exact h
      · right; exact h
    rcases h3 with h | h
    · left; exact h
    · rcases mem_appendHdr _ _ _ _ h with h | h
      · left; exact fw _ (by simp [fwdNames]) h
      · unfold setFwdForwarded at h
        split at h
        · right; exact h
        · rcases mem_setHdr _ _ _ _ h with h | h
          · left; exact fw _ (by simp [fwdNames]) h
          · right; exact h

theorem mem_setForwarded_other (flags : Nat) (r : Req) (hs : Hdrs) (p : Bytes × Bytes) (h : p ∈ hs)
    (hn : isFwdName p.1 = false) : p ∈ setForwarded flags r hs := by
  have nf : ∀ n ∈ fwdNames, nameIs p.1 n = false := by
    intro n hn'
    simp only [isFwdName, List.any_eq_false] at hn
    simpa using hn n hn'
  have h1 : p ∈ setFwdForwarded flags r hs := by
    unfold setFwdForwarded
    split
    · exact h
    · exact mem_setHdr_other _ _ _ _ h (nf _ (by simp [fwdNames]))
  have h2 := mem_appendHdr_other _ "X-Forwarded-For" r.remoteAddr p h1 (nf _ (by simp [fwdNames]))
  have h3 : p ∈ setFwdHost r (appendHdr (setFwdForwarded flags r hs) "X-Forwarded-For" r.remoteAddr) := by
    unfold setFwdHost
    split
    · apply mem_setHdr_other _ _ _ _ _ (nf _ (by simp [fwdNames]))
      exact mem_setHdr_other _ _ _ _ h2 (nf _ (by simp [fwdNames]))
    · exact h2
  unfold setForwarded
  exact mem_setHdr_other _ _ _ _ h3 (nf _ (by simp [fwdNames]))

/-! ### serialisation round trip -/

theorem takeLine_append (l rest : Bytes) (h : cr ∉ l) :
    takeLine (l ++ cr :: lf :: rest) = some (l, rest) := by
  induction l with
  | nil => simp [takeLine]
  | cons x xs ih =>
    have hx : x ≠ cr := fun e => h (by simp [e])
    have hxs : cr ∉ xs := fun e => h (by simp [e])
    have ht : ∃ b r', xs ++ cr :: lf :: rest = b :: r' := by
      cases xs with
      | nil => exact ⟨cr, lf :: rest, rfl⟩
      | cons y ys => exact ⟨y, ys ++ cr :: lf :: rest, rfl⟩
    obtain ⟨b, r', hbr⟩ := ht
    simp only [List.cons_append, takeLine]
    rw [hbr]
    simp only [hx, false_and, ↓reduceIte]
    rw [← hbr, ih hxs]

def fieldLine (f : Bytes × Bytes) : Bytes := f.1 ++ [colon, sp] ++ f.2 ++ crlf

theorem render_assoc (line : Bytes) (fs : Hdrs) (body : Bytes) :
    renderHead line fs ++ body = line ++ crlf ++ (fs.flatMap fieldLine ++ (crlf ++ body)) := by
  have key : ∀ fs : Hdrs, fs.flatMap (fun (k, v) => emitField k v) ++ crlf = crlf ++ fs.flatMap fieldLine := by
    intro fs
    induction fs with
    | nil => simp
    | cons f tl ih =>
      obtain ⟨k, v⟩ := f
      simp only [List.flatMap_cons, List.append_assoc, ih]
      simp [emitField, fieldLine, List.append_assoc]
  simp only [renderHead, List.append_assoc]
  congr 1
  rw [← List.append_assoc, key, List.append_assoc]

theorem decodeFields_render (fs : Hdrs) (body : Bytes) (hf : ∀ f ∈ fs, WfField f) :
    ∀ fuel, fs.length < fuel →
      decodeFields fuel (fs.flatMap fieldLine ++ (crlf ++ body)) = some (fs, body) := by
  induction fs with
  | nil =>
    intro fuel hfu
    cases fuel with
    | zero => omega
    | succ n =>
      have : takeLine (crlf ++ body) = some ([], body) := by
        have := takeLine_append [] body (by simp)
        simpa [crlf] using this
      simp only [List.flatMap_nil, List.nil_append, decodeFields, this, List.isEmpty_nil, ↓reduceIte]
  | cons f tl ih =>
    intro fuel hfu
    cases fuel with
    | zero => omega
    | succ n =>
      obtain ⟨k, v⟩ := f
      obtain ⟨h1, h2, h3, h4, h5⟩ := hf (k, v) (by simp)
      simp only at h1 h2 h3 h4 h5
      have hline : cr ∉ k ++ [colon, sp] ++ v := by
        intro hm
        simp only [List.mem_append, List.mem_cons, List.not_mem_nil, or_false] at hm
        rcases hm with (hm | hm | hm) | hm
        · exact h3 hm
        · exact absurd hm (by decide)
        · exact absurd hm (by decide)
        · exact h4 hm
      have shape : ((k, v) :: tl).flatMap fieldLine ++ (crlf ++ body) =
          (k ++ [colon, sp] ++ v) ++ cr :: lf :: (tl.flatMap fieldLine ++ (crlf ++ body)) := by
        simp [fieldLine, crlf, List.append_assoc]
      rw [shape, decodeFields, takeLine_append _ _ hline]
      have hne : (k ++ [colon, sp] ++ v).isEmpty = false := by
        cases k with
        | nil => exact absurd rfl h1
        | cons a b => rfl
      simp only [hne, Bool.false_eq_true, ↓reduceIte]
      have hsplit : splitAtByte colon (k ++ [colon, sp] ++ v) = (k, some (sp :: v)) := by
        have := splitAtByte_append colon k (sp :: v) h2
        simpa [List.append_assoc] using this
      rw [hsplit]
      simp only
      rw [ih (fun x hx => hf x (by simp [hx])) n (by simp only [List.length_cons] at hfu; omega)]
      have hdw : (sp :: v).dropWhile isOws = v := by
        have hs : isOws sp = true := by decide
        simp only [List.dropWhile_cons, hs, ↓reduceIte]
        cases v with
        | nil => rfl
        | cons b t =>
          have := h5 b rfl
          simp [this]
      rw [hdw]

theorem decodeHead_render (line : Bytes) (fs : Hdrs) (body : Bytes) (hl : cr ∉ line)
    (hf : ∀ f ∈ fs, WfField f) :
    decodeHead (renderHead line fs ++ body) = some (line, fs, body) := by
  rw [render_assoc]
  unfold decodeHead
  have : line ++ crlf ++ (fs.flatMap fieldLine ++ (crlf ++ body)) =
      line ++ cr :: lf :: (fs.flatMap fieldLine ++ (crlf ++ body)) := by simp [crlf]
  rw [this, takeLine_append _ _ hl]
  simp only
  rw [decodeFields_render fs body hf _ (by
    have : fs.length ≤ (fs.flatMap fieldLine).length := by
      clear hf this
      induction fs with
      | nil => simp
      | cons f tl ih =>
        simp only [List.flatMap_cons, List.length_append, List.length_cons]
        have : 4 ≤ (fieldLine f).length := by simp [fieldLine, crlf]; omega
        omega
    simp only [List.length_append]; omega)]

/-! ### the fields of the head -/

theorem fwd_excl (k : Bytes) (x : String)
    (hx : ∀ n ∈ fwdNames, ((ofString n).map toLower == (ofString x).map toLower) = false)
    (h : isFwdName k = true) : nameIs k x = false := by
  simp only [isFwdName, List.any_eq_true] at h
  obtain ⟨n, hn, hk⟩ := h
  exact nameIs_excl k n x (hx n hn) hk

theorem headFields_eq (c : Cfg) (r : Req) :
    headFields c r =
      match framing c r with
      | none => none
      | some (ff, hs0, ch) =>
        some ((reqLine c r).1,
              (reqLine c r).2.toList ++ ff.toList ++
                (setForwarded c.forwarded r hs0).filter (fun (k, v) => fieldAct c r.version k v = .emit) ++
                connTail c r (setForwarded c.forwarded r hs0), ch) := by
  unfold headFields
  rfl

theorem framing_cases (c : Cfg) (r : Req) (ff : Option (Bytes × Bytes)) (hs0 : Hdrs) (ch : Bool)
    (h : framing c r = some (ff, hs0, ch)) :
    (ff = some (ofString "Content-Length", ofString "0") ∧ hs0 = r.headers ∧ ch = false ∧
      c.authorizer = true) ∨
    (ff = none ∧ ch = false ∧ c.authorizer = false ∧
      (hs0 = r.headers ∨
       (getHdr r.headers "Content-Length" = none ∧
        hs0 = setHdr r.headers "Content-Length" (intDec r.bodyLen)))) ∨
    (ff = some (ofString "Transfer-Encoding", ofString "chunked") ∧ hs0 = r.headers ∧ ch = true ∧
      c.authorizer = false ∧ r.bodyLen < 0) := by
  unfold framing at h
  by_cases ha : c.authorizer = true
  · simp only [ha, ↓reduceIte, Option.some.injEq, Prod.mk.injEq] at h
    obtain ⟨h1, h2, h3⟩ := h
    exact Or.inl ⟨h1.symm, h2.symm, h3.symm, ha⟩
  · have ha' : c.authorizer = false := by simpa using ha
    simp only [ha, Bool.false_eq_true, ↓reduceIte] at h
    split at h
    · -- Content-Length case
      split at h
      · simp only [Option.some.injEq, Prod.mk.injEq] at h
        exact Or.inr (Or.inl ⟨h.1.symm, h.2.2.symm, ha', Or.inl h.2.1.symm⟩)
      · rename_i hg
        simp only [Option.some.injEq, Prod.mk.injEq] at h
        exact Or.inr (Or.inl ⟨h.1.symm, h.2.2.symm, ha', Or.inr ⟨hg, h.2.1.symm⟩⟩)
    · split at h
      · simp only [Option.some.injEq, Prod.mk.injEq] at h
        exact Or.inr (Or.inl ⟨h.1.symm, h.2.2.symm, ha', Or.inl h.2.1.symm⟩)
      · split at h
        · rename_i hb
          split at h
          · split at h
            · exact absurd h (by simp)
            · simp only [Option.some.injEq, Prod.mk.injEq] at h
              exact Or.inr (Or.inl ⟨h.1.symm, h.2.2.symm, ha', Or.inl h.2.1.symm⟩)
          · simp only [Option.some.injEq, Prod.mk.injEq] at h
            exact Or.inr (Or.inr ⟨h.1.symm, h.2.1.symm, h.2.2.symm, ha', hb.1⟩)
        · simp only [Option.some.injEq, Prod.mk.injEq] at h
          exact Or.inr (Or.inl ⟨h.1.symm, h.2.2.symm, ha', Or.inl h.2.1.symm⟩)

/-- names of the closing fields -/
theorem connTail_names (c : Cfg) (r : Req) (hs : Hdrs) :
    ∀ p ∈ connTail c r hs, p.1 = ofString "Connection" ∨ p.1 = ofString "Upgrade" ∨
      p.1 = ofString "Sec-WebSocket-Key" := by
  intro p hp
  unfold connTail at hp
  by_cases h1 : connListed c r hs = true
  · simp only [h1, ↓reduceIte, List.mem_singleton] at hp; left; rw [hp]
  · simp only [h1, Bool.false_eq_true, ↓reduceIte] at hp
    by_cases h2 : r.h2ConnectExt = true
    · simp only [h2, ↓reduceIte] at hp
      by_cases h3 : (getHdr hs "Sec-WebSocket-Key").isSome = true
      · simp only [h3, ↓reduceIte, List.nil_append, List.mem_cons, List.not_mem_nil, or_false] at hp
        rcases hp with rfl | rfl
        · right; left; rfl
        · left; rfl
      · simp only [h3, Bool.false_eq_true, ↓reduceIte, List.cons_append, List.nil_append, List.mem_cons,
          List.not_mem_nil, or_false] at hp
        rcases hp with rfl | rfl | rfl
        · right; right; rfl
        · right; left; rfl
        · left; rfl
    · simp only [h2, Bool.false_eq_true, ↓reduceIte, List.mem_singleton] at hp; left; rw [hp]

/-- exactly one Connection field closes the head and it says "close" first -/
theorem connTail_connection (c : Cfg) (r : Req) (hs : Hdrs) :
    ∃ v, (connTail c r hs).filter (fun p => nameIs p.1 "Connection") = [(ofString "Connection", v)] ∧
      ofString "close" <+: v := by
  have hC : nameIs (ofString "Connection") "Connection" = true := by decide
  have hU : nameIs (ofString "Upgrade") "Connection" = false := by decide
  have hS : nameIs (ofString "Sec-WebSocket-Key") "Connection" = false := by decide
  unfold connTail
  by_cases h1 : connListed c r hs = true
  · simp only [h1, ↓reduceIte]
    refine ⟨connValue c r hs, by simp [hC], ?_⟩
    unfold connValue; exact List.prefix_append _ _
  · simp only [h1, Bool.false_eq_true, ↓reduceIte]
    by_cases h2 : r.h2ConnectExt = true
    · simp only [h2, ↓reduceIte]
      by_cases h3 : (getHdr hs "Sec-WebSocket-Key").isSome = true
      · simp only [h3, ↓reduceIte]
        exact ⟨ofString "close, upgrade", by simp [hC, hU], by decide⟩
      · simp only [h3, Bool.false_eq_true, ↓reduceIte]
        exact ⟨ofString "close, upgrade", by simp [hC, hU, hS], by decide⟩
    · simp only [h2, Bool.false_eq_true, ↓reduceIte]
      exact ⟨ofString "close", by simp [hC], by decide⟩

/-- where a field of the head comes from -/
theorem mem_headFields (c : Cfg) (r : Req) (line : Bytes) (fs : Hdrs) (ch : Bool)
    (h : headFields c r = some (line, fs, ch)) :
    ∃ ff hs0, framing c r = some (ff, hs0, ch) ∧
      fs = (reqLine c r).2.toList ++ ff.toList ++
        (setForwarded c.forwarded r hs0).filter (fun (k, v) => fieldAct c r.version k v = .emit) ++
        connTail c r (setForwarded c.forwarded r hs0) := by
  rw [headFields_eq] at h
  cases hf : framing c r with
  | none => rw [hf] at h; exact absurd h (by simp)
  | some x =>
    obtain ⟨ff, hs0, ch'⟩ := x
    rw [hf] at h
    simp only [Option.some.injEq, Prod.mk.injEq] at h
    obtain ⟨_, h2, h3⟩ := h
    subst h3
    exact ⟨ff, hs0, rfl, h2.symm⟩

theorem reqLine_host (c : Cfg) (r : Req) : ∀ p ∈ (reqLine c r).2.toList, p.1 = ofString "Host" := by
  intro p hp
  unfold reqLine at hp
  simp only at hp
  split at hp <;> simp at hp <;> (try rw [hp])

/-! ### framing fields, hop-by-hop fields, completeness -/

theorem mem_hs0 (c : Cfg) (r : Req) (ff : Option (Bytes × Bytes)) (hs0 : Hdrs) (ch : Bool)
    (h : framing c r = some (ff, hs0, ch)) (p : Bytes × Bytes) (hp : p ∈ hs0) :
    nameIs p.1 "Content-Length" = true ∨ p ∈ r.headers := by
  rcases framing_cases c r ff hs0 ch h with ⟨_, h2, _⟩ | ⟨_, _, _, h4⟩ | ⟨_, h2, _⟩
  · right; rw [← h2]; exact hp
  · rcases h4 with h4 | ⟨_, h4⟩
    · right; rw [← h4]; exact hp
    · rw [h4] at hp; exact mem_setHdr _ _ _ _ hp
  · right; rw [← h2]; exact hp

/-- a field of the head is the Host field, the framing field, a stored field that passed the
    filter, or a closing field -/
theorem mem_fs (c : Cfg) (r : Req) (line : Bytes) (fs : Hdrs) (ch : Bool)
    (h : headFields c r = some (line, fs, ch)) (p : Bytes × Bytes) (hp : p ∈ fs) :
    ∃ ff hs0, framing c r = some (ff, hs0, ch) ∧
      (p.1 = ofString "Host" ∨ ff = some p ∨
       (p ∈ setForwarded c.forwarded r hs0 ∧ fieldAct c r.version p.1 p.2 = .emit) ∨
       p ∈ connTail c r (setForwarded c.forwarded r hs0)) := by
  obtain ⟨ff, hs0, hfr, hfs⟩ := mem_headFields c r line fs ch h
  refine ⟨ff, hs0, hfr, ?_⟩
  rw [hfs] at hp
  simp only [List.mem_append, List.mem_filter, decide_eq_true_eq] at hp
  rcases hp with ((hp | hp) | hp) | hp
  · left; exact reqLine_host c r p hp
  · right; left; simpa [Option.mem_toList] using hp
  · right; right; left; exact hp
  · right; right; right; exact hp

theorem lit_name (p : Bytes × Bytes) (a b : String) (h : p.1 = ofString a) :
    nameIs p.1 b = nameIs (ofString a) b := by rw [h]

/-- Transfer-Encoding is in the head exactly when the body is sent chunked, and then it is the
    proxy's own "chunked" -/
theorem head_te (c : Cfg) (r : Req) (hw : WfReq r) (line : Bytes) (fs : Hdrs) (ch : Bool)
    (h : headFields c r = some (line, fs, ch)) :
    (ch = true → (ofString "Transfer-Encoding", ofString "chunked") ∈ fs) ∧
    (∀ p ∈ fs, nameIs p.1 "Transfer-Encoding" = true →
      ch = true ∧ p = (ofString "Transfer-Encoding", ofString "chunked")) := by
  constructor
  · intro hch
    obtain ⟨ff, hs0, hfr, hfs⟩ := mem_headFields c r line fs ch h
    rcases framing_cases c r ff hs0 ch hfr with ⟨_, _, h3, _⟩ | ⟨_, h2, _⟩ | ⟨h1, _⟩
    · rw [hch] at h3; exact absurd h3 (by simp)
    · rw [hch] at h2; exact absurd h2 (by simp)
    · rw [hfs, h1]; simp
  · intro p hp hte
    obtain ⟨ff, hs0, hfr, hsrc⟩ := mem_fs c r line fs ch h p hp
    rcases hsrc with hh | hh | ⟨hh, _⟩ | hh
    · rw [lit_name p _ _ hh] at hte; exact absurd hte (by decide)
    · rcases framing_cases c r ff hs0 ch hfr with ⟨h1, _⟩ | ⟨h1, _⟩ | ⟨h1, _, h3, _⟩
      · rw [h1] at hh; simp only [Option.some.injEq] at hh
        rw [← hh] at hte; exact absurd hte (by decide)
      · rw [h1] at hh; exact absurd hh (by simp)
      · rw [h1] at hh; simp only [Option.some.injEq] at hh
        exact ⟨h3, hh.symm⟩
    · rcases mem_setForwarded _ _ _ _ hh with hf | hf
      · have := fwd_excl p.1 "Transfer-Encoding" (by decide) hf
        rw [this] at hte; exact absurd hte (by simp)
      · rcases mem_hs0 c r ff hs0 ch hfr p hf with hc | hc
        · have := nameIs_excl p.1 "Content-Length" "Transfer-Encoding" (by decide) hc
          rw [this] at hte; exact absurd hte (by simp)
        · have := hw.noTE p hc
          rw [this] at hte; exact absurd hte (by simp)
    · rcases connTail_names c r _ p hh with e | e | e <;>
        (rw [lit_name p _ _ e] at hte; exact absurd hte (by decide))

/-- a chunked request carries no Content-Length -/
theorem head_no_cl_when_chunked (c : Cfg) (r : Req) (hw : WfReq r) (line : Bytes) (fs : Hdrs)
    (h : headFields c r = some (line, fs, true)) :
    ∀ p ∈ fs, nameIs p.1 "Content-Length" = false := by
  intro p hp
  cases hcl : nameIs p.1 "Content-Length" with
  | false => rfl
  | true =>
    exfalso
    obtain ⟨ff, hs0, hfr, hsrc⟩ := mem_fs c r line fs true h p hp
    rcases framing_cases c r ff hs0 true hfr with ⟨_, _, h3, _⟩ | ⟨_, h2, _⟩ | ⟨h1, h2, _, _, h5⟩
    · exact absurd h3 (by simp)
    · exact absurd h2 (by simp)
    · rcases hsrc with hh | hh | ⟨hh, hem⟩ | hh
      · rw [lit_name p _ _ hh] at hcl; exact absurd hcl (by decide)
      · rw [h1] at hh; simp only [Option.some.injEq] at hh
        rw [← hh] at hcl; exact absurd hcl (by decide)
      · rcases mem_setForwarded _ _ _ _ hh with hf | hf
        · have := fwd_excl p.1 "Content-Length" (by decide) hf
          rw [this] at hcl; exact absurd hcl (by simp)
        · rw [h2] at hf
          have hv := hw.clOpen h5 p hf hcl
          have := (fieldAct_emit c r.version p.1 p.2 hem).2.2.2.2.2.2.1
          exact this hv
      · rcases connTail_names c r _ p hh with e | e | e <;>
          (rw [lit_name p _ _ e] at hcl; exact absurd hcl (by decide))

/-- no Proxy / Proxy-Connection field, and exactly one Connection field: the proxy's own -/
theorem head_hop_by_hop (c : Cfg) (r : Req) (line : Bytes) (fs : Hdrs) (ch : Bool)
    (h : headFields c r = some (line, fs, ch)) :
    (∀ p ∈ fs, nameIs p.1 "Proxy" = false ∧ nameIs p.1 "Proxy-Connection" = false) ∧
    ∃ v, fs.filter (fun p => nameIs p.1 "Connection") = [(ofString "Connection", v)] ∧
      ofString "close" <+: v := by
  obtain ⟨ff, hs0, hfr, hfs⟩ := mem_headFields c r line fs ch h
  constructor
  · intro p hp
    obtain ⟨ff', hs0', hfr', hsrc⟩ := mem_fs c r line fs ch h p hp
    rcases hsrc with hh | hh | ⟨_, hem⟩ | hh
    · rw [lit_name p _ "Proxy" hh, lit_name p _ "Proxy-Connection" hh]; exact ⟨by decide, by decide⟩
    · rcases framing_cases c r ff' hs0' ch hfr' with ⟨h1, _⟩ | ⟨h1, _⟩ | ⟨h1, _⟩
      · rw [h1] at hh; simp only [Option.some.injEq] at hh; rw [← hh]; exact ⟨by decide, by decide⟩
      · rw [h1] at hh; exact absurd hh (by simp)
      · rw [h1] at hh; simp only [Option.some.injEq] at hh; rw [← hh]; exact ⟨by decide, by decide⟩
    · have := fieldAct_emit c r.version p.1 p.2 hem
      exact ⟨this.2.2.1, this.2.1⟩
    · rcases connTail_names c r _ p hh with e | e | e <;>
        (rw [lit_name p _ "Proxy" e, lit_name p _ "Proxy-Connection" e]; exact ⟨by decide, by decide⟩)
  · obtain ⟨v, hv1, hv2⟩ := connTail_connection c r (setForwarded c.forwarded r hs0)
    refine ⟨v, ?_, hv2⟩
    rw [hfs]
    simp only [List.filter_append]
    have e1 : (reqLine c r).2.toList.filter (fun p => nameIs p.1 "Connection") = [] := by
      rw [List.filter_eq_nil_iff]
      intro p hp
      rw [lit_name p _ _ (reqLine_host c r p hp)]; decide
    have e2 : ff.toList.filter (fun p => nameIs p.1 "Connection") = [] := by
      rw [List.filter_eq_nil_iff]
      intro p hp
      have hp' : ff = some p := by simpa [Option.mem_toList] using hp
      rcases framing_cases c r ff hs0 ch hfr with ⟨h1, _⟩ | ⟨h1, _⟩ | ⟨h1, _⟩
      · rw [h1] at hp'; simp only [Option.some.injEq] at hp'; rw [← hp']; decide
      · rw [h1] at hp'; exact absurd hp' (by simp)
      · rw [h1] at hp'; simp only [Option.some.injEq] at hp'; rw [← hp']; decide
    have e3 : ((setForwarded c.forwarded r hs0).filter
        (fun (k, v) => fieldAct c r.version k v = .emit)).filter (fun p => nameIs p.1 "Connection") = [] := by
      rw [List.filter_eq_nil_iff]
      intro p hp
      simp only [List.mem_filter, decide_eq_true_eq] at hp
      have := (fieldAct_emit c r.version p.1 p.2 hp.2).1
      simp [this]
    rw [e1, e2, e3, hv1]
    rfl

/-- end-to-end fields are not lost: a stored field that passes the filter and is not one of the
    fields mod_proxy rewrites (Content-Length, Forwarded, X-Forwarded-*, X-Host) is in the head
    with its value unchanged -/
theorem head_complete (c : Cfg) (r : Req) (line : Bytes) (fs : Hdrs) (ch : Bool)
    (h : headFields c r = some (line, fs, ch)) (p : Bytes × Bytes) (hp : p ∈ r.headers)
    (hem : fieldAct c r.version p.1 p.2 = .emit) (hf : isFwdName p.1 = false)
    (hcl : nameIs p.1 "Content-Length" = false) : p ∈ fs := by
  obtain ⟨ff, hs0, hfr, hfs⟩ := mem_headFields c r line fs ch h
  have h0 : p ∈ hs0 := by
    rcases framing_cases c r ff hs0 ch hfr with ⟨_, h2, _⟩ | ⟨_, _, _, h4⟩ | ⟨_, h2, _⟩
    · rw [h2]; exact hp
    · rcases h4 with h4 | ⟨_, h4⟩
      · rw [h4]; exact hp
      · rw [h4]; exact mem_setHdr_other _ _ _ _ hp hcl
    · rw [h2]; exact hp
  rw [hfs]
  simp only [List.mem_append, List.mem_filter, decide_eq_true_eq]
  exact Or.inl (Or.inr ⟨mem_setForwarded_other _ _ _ _ h0 hf, hem⟩)

/-! ### Content-Length -/

theorem nameIs_ne_nil (k : Bytes) (n : String) (hn : ofString n ≠ []) (h : nameIs k n = true) : k ≠ [] := by
  intro e
  simp only [nameIs, eqIcase, beq_iff_eq, e, List.map_nil] at h
  cases hs : ofString n with
  | nil => exact hn hs
  | cons a t => rw [hs] at h; simp at h

theorem fieldAct_cl (c : Cfg) (ver : Nat) (k v : Bytes) (hk : nameIs k "Content-Length" = true)
    (ha : c.authorizer = false) (hv : v ≠ []) : fieldAct c ver k v = .emit := by
  have x1 := nameIs_excl k "Content-Length" "Host" (by decide) hk
  have x2 := nameIs_excl k "Content-Length" "Proxy-Connection" (by decide) hk
  have x3 := nameIs_excl k "Content-Length" "Proxy" (by decide) hk
  have x4 := nameIs_excl k "Content-Length" "TE" (by decide) hk
  have x5 := nameIs_excl k "Content-Length" "Upgrade" (by decide) hk
  have x6 := nameIs_excl k "Content-Length" "Connection" (by decide) hk
  have x7 := nameIs_excl k "Content-Length" "Set-Cookie" (by decide) hk
  have hk0 : k.isEmpty = false := by
    have := nameIs_ne_nil k "Content-Length" (by decide) hk
    cases k <;> simp_all
  have hv0 : v.isEmpty = false := by cases v <;> simp_all
  simp [fieldAct, x1, x2, x3, x4, x5, x6, x7, ha, hk0, hv0]

theorem cl_not_fwd (k : Bytes) (hk : nameIs k "Content-Length" = true) : isFwdName k = false := by
  simp only [isFwdName, List.any_eq_false]
  intro n hn
  simp only [fwdNames, List.mem_cons, List.not_mem_nil, or_false] at hn
  rcases hn with rfl | rfl | rfl | rfl | rfl
  · simp [nameIs_excl k "Content-Length" "Forwarded" (by decide) hk]
  · simp [nameIs_excl k "Content-Length" "X-Forwarded-For" (by decide) hk]
  · simp [nameIs_excl k "Content-Length" "X-Host" (by decide) hk]
  · simp [nameIs_excl k "Content-Length" "X-Forwarded-Host" (by decide) hk]
  · simp [nameIs_excl k "Content-Length" "X-Forwarded-Proto" (by decide) hk]

theorem getHdr_some (hs : Hdrs) (n : String) (v : Bytes) (h : getHdr hs n = some v) :
    ∃ k, (k, v) ∈ hs ∧ nameIs k n = true ∧ v ≠ [] := by
  unfold getHdr at h
  split at h
  · rename_i k v' hf
    simp only [Option.some.injEq] at h
    subst h
    have h1 := List.mem_of_find?_eq_some hf
    have h2 := List.find?_some hf
    simp only [Bool.and_eq_true, Bool.not_eq_true'] at h2
    exact ⟨k, h1, h2.1, by intro e; rw [e] at h2; simp at h2⟩
  · exact absurd h (by simp)

theorem setHdr_has (hs : Hdrs) (n : String) (w : Bytes) :
    ∃ k, nameIs k n = true ∧ (k, w) ∈ setHdr hs n w := by
  unfold setHdr
  split
  · rename_i h
    simp only [List.any_eq_true] at h
    obtain ⟨q, hq, hn⟩ := h
    exact ⟨q.1, hn, List.mem_map.mpr ⟨q, hq, by simp [hn]⟩⟩
  · exact ⟨ofString n, nameIs_self n, by simp⟩

theorem intDec_ne_nil (i : Int) : intDec i ≠ [] := by
  unfold intDec
  split
  · simp
  · exact (natDec_spec _).1

/-- a request with a body of known length (or a bodiless non-GET/HEAD request) is sent with a
    Content-Length: the client's own field, or the length lighttpd counted -/
theorem head_cl (c : Cfg) (r : Req) (ha : c.authorizer = false)
    (hneed : r.bodyLen > 0 ∨ (r.bodyLen = 0 ∧ r.isGetOrHead = false))
    (line : Bytes) (fs : Hdrs) (ch : Bool) (h : headFields c r = some (line, fs, ch)) :
    ch = false ∧ ∃ p ∈ fs, nameIs p.1 "Content-Length" = true ∧ p.2 ≠ [] ∧
      (getHdr r.headers "Content-Length" = none → p.2 = intDec r.bodyLen) := by
  obtain ⟨ff, hs0, hfr, hfs⟩ := mem_headFields c r line fs ch h
  have hcond : (r.bodyLen > 0 ∨ (r.bodyLen = 0 ∧ (!r.isGetOrHead) = true)) := by
    rcases hneed with h1 | ⟨h1, h2⟩
    · left; exact h1
    · right; exact ⟨h1, by simp [h2]⟩
  have hframe : framing c r = some (none,
      (match getHdr r.headers "Content-Length" with
       | some _ => r.headers
       | none => setHdr r.headers "Content-Length" (intDec r.bodyLen)), false) := by
    unfold framing
    simp only [ha, Bool.false_eq_true, ↓reduceIte, hcond]
    cases getHdr r.headers "Content-Length" <;> rfl
  rw [hframe] at hfr
  simp only [Option.some.injEq, Prod.mk.injEq] at hfr
  obtain ⟨_, hhs0, hch⟩ := hfr
  refine ⟨hch.symm, ?_⟩
  have key : ∀ p : Bytes × Bytes, p ∈ hs0 → nameIs p.1 "Content-Length" = true → p.2 ≠ [] → p ∈ fs := by
    intro p hp hk hv
    rw [hfs]
    simp only [List.mem_append, List.mem_filter, decide_eq_true_eq]
    exact Or.inl (Or.inr ⟨mem_setForwarded_other _ _ _ _ hp (cl_not_fwd p.1 hk),
      fieldAct_cl c r.version p.1 p.2 hk ha hv⟩)
  cases hg : getHdr r.headers "Content-Length" with
  | some v =>
    rw [hg] at hhs0
    obtain ⟨k, hk1, hk2, hk3⟩ := getHdr_some _ _ _ hg
    exact ⟨(k, v), key (k, v) (by rw [← hhs0]; exact hk1) hk2 hk3, hk2, hk3, by intro e; exact absurd e (by simp)⟩
  | none =>
    rw [hg] at hhs0
    obtain ⟨k, hk1, hk2⟩ := setHdr_has r.headers "Content-Length" (intDec r.bodyLen)
    exact ⟨(k, intDec r.bodyLen), key _ (by rw [← hhs0]; exact hk2) hk1 (intDec_ne_nil _), hk1,
      intDec_ne_nil _, fun _ => rfl⟩

/-! ### the whole request: head, then the body in the announced framing -/

theorem arrive_plain (c : Cfg) (ha : c.authorizer = false) (st : RawSt) (seg : Bytes) :
    (arrive c false st seg).out ++ (arrive c false st seg).pending = st.out ++ st.pending ++ seg ∧
    (arrive c false st seg).reqlen = st.reqlen := by
  unfold arrive
  simp only [ha, Bool.false_eq_true, or_false, ↓reduceIte]
  split
  · rename_i he
    have : st.pending ++ seg = [] := by simpa using he
    simp [this, List.append_assoc]
  · simp [RawSt.moveAll, List.append_assoc]

theorem fold_plain (c : Cfg) (ha : c.authorizer = false) (segs : List Bytes) : ∀ st : RawSt,
    (segs.foldl (arrive c false) st).out ++ (segs.foldl (arrive c false) st).pending =
      st.out ++ st.pending ++ segs.flatten ∧
    (segs.foldl (arrive c false) st).reqlen = st.reqlen := by
  induction segs with
  | nil => intro st; simp
  | cons s tl ih =>
    intro st
    simp only [List.foldl_cons, List.flatten_cons]
    obtain ⟨h1, h2⟩ := ih (arrive c false st s)
    obtain ⟨a1, a2⟩ := arrive_plain c ha st s
    rw [h1, h2, a1, a2]
    simp [List.append_assoc]

theorem renderHead_length (line : Bytes) (fs : Hdrs) : 1 < (renderHead line fs).length := by
  simp [renderHead, crlf]; omega

theorem arrive_congr (c : Cfg) (ha : c.authorizer = false) (st : RawSt) (seg : Bytes) :
    arrive c true st seg = arrive {} true st seg := by
  simp [arrive, ha]

theorem fold_congr (c : Cfg) (ha : c.authorizer = false) (segs : List Bytes) : ∀ st : RawSt,
    segs.foldl (arrive c true) st = segs.foldl (arrive {} true) st := by
  induction segs with
  | nil => intro st; rfl
  | cons s tl ih => intro st; simp only [List.foldl_cons, arrive_congr c ha, ih]

/-- the request as a whole (responder): the head, then either exactly the body with
    wb_reqlen = bytes queued (Content-Length framing) or a chunked stream that decodes to exactly
    the body, for every arrival schedule -/
theorem run_spec (c : Cfg) (r : Req) (ha : c.authorizer = false) (line : Bytes) (fs : Hdrs) (ch : Bool)
    (h : headFields c r = some (line, fs, ch)) (seg0 : Bytes) (segs : List Bytes)
    (hlen : ch = false → r.bodyLen = (((seg0 :: segs).flatten.length : Nat) : Int)) :
    ∃ st, run c r seg0 segs = some (st, ch) ∧ st.pending = [] ∧
      (ch = false → st.out = renderHead line fs ++ (seg0 :: segs).flatten ∧
                    st.reqlen = (st.out.length : Int)) ∧
      (ch = true → ∃ stream, st.out = renderHead line fs ++ stream ∧
                    dechunk (stream.length + 1) stream = some ((seg0 :: segs).flatten, [])) := by
  have hb : headerBlock c r = some (renderHead line fs, ch) := by simp [headerBlock, h]
  cases ch with
  | false =>
    have hl := hlen rfl
    generalize hbody : (seg0 :: segs).flatten = body at hl ⊢
    -- state after create_env
    have hce : ∃ st0 : RawSt, createEnv c r seg0 = .ok st0 false ∧
        st0.out ++ st0.pending = renderHead line fs ++ seg0 ∧
        st0.reqlen = (((renderHead line fs).length + body.length : Nat) : Int) := by
      unfold createEnv
      rw [hb]
      simp only [ha, Bool.false_eq_true, Bool.not_false, and_true]
      by_cases hz : r.bodyLen = 0
      · have hbz : body.length = 0 := by omega
        simp only [hz, ne_eq, not_true_eq_false, ↓reduceIte]
        exact ⟨_, rfl, rfl, by simp [hbz]⟩
      · have hpos : r.bodyLen > 0 := by omega
        simp only [ne_eq, hz, not_false_eq_true, ↓reduceIte, hpos]
        exact ⟨_, rfl, by simp, by simp only; rw [hl]; push_cast; rfl⟩
    obtain ⟨st0, hc1, hc2, hc3⟩ := hce
    obtain ⟨f1, f2⟩ := fold_plain c ha segs st0
    have hnn : ¬ ((segs.foldl (arrive c false) st0).reqlen < -1) := by rw [f2, hc3]; omega
    have hcomp : complete false (segs.foldl (arrive c false) st0) = segs.foldl (arrive c false) st0 := by
      simp [complete, hnn]
    have hall : (segs.foldl (arrive c false) st0).out ++ (segs.foldl (arrive c false) st0).pending =
        renderHead line fs ++ body := by
      rw [f1, hc2, ← hbody]; simp [List.append_assoc]
    unfold run
    rw [hc1]
    simp only [hcomp, ha, Bool.false_eq_true, or_false, ↓reduceIte]
    by_cases hp : (segs.foldl (arrive c false) st0).pending.isEmpty = true
    · have hpe : (segs.foldl (arrive c false) st0).pending = [] := by simpa using hp
      simp only [hp, ↓reduceIte]
      refine ⟨_, rfl, hpe, ?_, fun x => absurd x (by simp)⟩
      intro _
      rw [hpe, List.append_nil] at hall
      refine ⟨hall, ?_⟩
      rw [f2, hc3, hall, List.length_append]
    · simp only [hp, Bool.false_eq_true, ↓reduceIte]
      refine ⟨_, rfl, rfl, ?_, fun x => absurd x (by simp)⟩
      intro _
      simp only [RawSt.moveAll]
      refine ⟨hall, ?_⟩
      rw [f2, hc3, hall, List.length_append]
  | true =>
    obtain ⟨ff, hs0, hfr, _⟩ := mem_headFields c r line fs true h
    have hneg : r.bodyLen < 0 := by
      rcases framing_cases c r ff hs0 true hfr with ⟨_, _, h3, _⟩ | ⟨_, h2, _⟩ | ⟨_, _, _, _, h5⟩
      · exact absurd h3 (by simp)
      · exact absurd h2 (by simp)
      · exact h5
    have hce : createEnv c r seg0 =
        .ok (stdinAppend { out := renderHead line fs, reqlen := -((renderHead line fs).length : Int),
                           pending := seg0 }) true := by
      unfold createEnv
      rw [hb]
      have h1 : r.bodyLen ≠ 0 := by omega
      have h2 : ¬ (r.bodyLen > 0) := by omega
      simp [ha, h1, h2]
    obtain ⟨stream, s1, s2, s3⟩ := runChunked_spec' (renderHead line fs) (renderHead_length line fs) seg0 segs
    unfold run
    rw [hce]
    simp only [fold_congr c ha]
    have hrc : complete true (segs.foldl (arrive {} true) (stdinAppend
        { out := renderHead line fs, reqlen := -((renderHead line fs).length : Int), pending := seg0 })) =
        runChunked (renderHead line fs) seg0 segs := by
      simp [runChunked]
    rw [hrc]
    simp only [s3, List.isEmpty_nil, true_or, ↓reduceIte]
    exact ⟨_, rfl, s3, fun x => absurd x (by simp), fun _ => ⟨stream, s1, s2⟩⟩

end LtVerif.Proxy
