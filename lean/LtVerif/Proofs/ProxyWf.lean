/-
  C09 — the fields proxy_create_env() writes are serialisable (token-like names, values without
  CR / leading blank) when the request's are; proxy.forwarded off (no "Forwarded" field generated).
-/
import LtVerif.Proofs.ProxyHead
import LtVerif.Proofs.CgiE2E
namespace LtVerif.Proxy
open LtVerif B

def NameOk (k : Bytes) : Prop := k ≠ [] ∧ colon ∉ k ∧ cr ∉ k

theorem wfField_iff (f : Bytes × Bytes) : WfField f ↔ NameOk f.1 ∧ ValueOk f.2 := by
  simp only [WfField, NameOk, ValueOk]
  constructor
  · rintro ⟨a, b, c, d, e⟩; exact ⟨⟨a, b, c⟩, d, e⟩
  · rintro ⟨⟨a, b, c⟩, d, e⟩; exact ⟨a, b, c, d, e⟩

theorem wf_mk {k v : Bytes} (hk : NameOk k) (hv : ValueOk v) : WfField (k, v) :=
  (wfField_iff (k, v)).mpr ⟨hk, hv⟩

theorem valueOk_append {a b : Bytes} (ha : ValueOk a) (hane : a ≠ []) (hb : cr ∉ b) : ValueOk (a ++ b) := by
  refine ⟨?_, ?_⟩
  · intro hm
    rcases List.mem_append.mp hm with h | h
    · exact ha.1 h
    · exact hb h
  · intro x hx
    cases a with
    | nil => exact absurd rfl hane
    | cons y t => exact ha.2 x (by simpa using hx)

theorem wf_setHdr (hs : Hdrs) (n : String) (w : Bytes) (hn : NameOk (ofString n)) (hw : ValueOk w)
    (h : ∀ f ∈ hs, WfField f) : ∀ f ∈ setHdr hs n w, WfField f := by
  intro f hf
  unfold setHdr at hf
  split at hf
  · obtain ⟨q, hq, rfl⟩ := List.mem_map.mp hf
    by_cases hx : nameIs q.1 n = true
    · simp only [hx, ↓reduceIte]
      exact wf_mk ((wfField_iff q).mp (h q hq)).1 hw
    · simp only [hx, Bool.false_eq_true, ↓reduceIte]; exact h q hq
  · rcases List.mem_append.mp hf with hf | hf
    · exact h f hf
    · simp only [List.mem_singleton] at hf; rw [hf]; exact wf_mk hn hw

theorem wf_appendHdr (hs : Hdrs) (n : String) (w : Bytes) (hn : NameOk (ofString n)) (hw : ValueOk w)
    (h : ∀ f ∈ hs, WfField f) : ∀ f ∈ appendHdr hs n w, WfField f := by
  intro f hf
  unfold appendHdr at hf
  split at hf
  · exact h f hf
  · split at hf
    · obtain ⟨q, hq, rfl⟩ := List.mem_map.mp hf
      have hqw := (wfField_iff q).mp (h q hq)
      by_cases hx : nameIs q.1 n = true
      · simp only [hx, ↓reduceIte]
        by_cases he : q.2.isEmpty = true
        · simp only [he, ↓reduceIte]; exact wf_mk hqw.1 hw
        · simp only [he, Bool.false_eq_true, ↓reduceIte]
          refine wf_mk hqw.1 ?_
          have hne : q.2 ≠ [] := by intro h0; rw [h0] at he; simp at he
          rw [List.append_assoc]
          refine valueOk_append hqw.2 hne ?_
          intro hm
          rcases List.mem_append.mp hm with h1 | h1
          · simp at h1; rcases h1 with h1 | h1 <;> exact absurd h1 (by decide)
          · exact hw.1 h1
      · simp only [hx, Bool.false_eq_true, ↓reduceIte]; exact h q hq
    · rcases List.mem_append.mp hf with hf | hf
      · exact h f hf
      · simp only [List.mem_singleton] at hf; rw [hf]; exact wf_mk hn hw

theorem hostNonBlank_some (r : Req) (h : Bytes) (hh : hostNonBlank r = some h) : r.host = some h := by
  unfold hostNonBlank at hh
  split at hh
  · split at hh
    · exact absurd hh (by simp)
    · simp only [Option.some.injEq] at hh; subst hh; assumption
  · exact absurd hh (by simp)

theorem wf_setForwarded0 (c : Cfg) (r : Req) (hw : HeadWf c r) (hs : Hdrs) (h : ∀ f ∈ hs, WfField f) :
    ∀ f ∈ setForwarded 0 r hs, WfField f := by
  unfold setForwarded
  refine wf_setHdr _ _ _ ⟨by decide, by decide, by decide⟩ hw.scheme ?_
  have h1 : ∀ f ∈ appendHdr (setFwdForwarded 0 r hs) "X-Forwarded-For" r.remoteAddr, WfField f := by
    refine wf_appendHdr _ _ _ ⟨by decide, by decide, by decide⟩ hw.remoteAddr ?_
    simp only [setFwdForwarded, ↓reduceIte]; exact h
  unfold setFwdHost
  cases hh : hostNonBlank r with
  | none => exact h1
  | some x =>
    have hx := hw.host x (hostNonBlank_some r x hh)
    exact wf_setHdr _ _ _ ⟨by decide, by decide, by decide⟩ hx (wf_setHdr _ _ _ ⟨by decide, by decide, by decide⟩ hx h1)

theorem valueOk_natDec (n : Nat) : ValueOk (natDec n) := by
  obtain ⟨h1, h2, _⟩ := natDec_spec n
  refine ⟨fun hm => absurd (h2 _ hm) (by decide), ?_⟩
  intro b hb
  have : b ∈ natDec n := by
    cases hd : natDec n with
    | nil => rw [hd] at hb; simp at hb
    | cons x t => rw [hd] at hb; simp at hb; rw [← hb]; simp
  have hdig := h2 b this
  revert hdig
  revert b
  exact fun b _ _ => by
    intro hdig
    simp only [isOws]
    have : b ≠ sp ∧ b ≠ ht := by
      constructor <;> (intro hb'; rw [hb'] at hdig; exact absurd hdig (by decide))
    simp [this.1, this.2]

theorem valueOk_intDec (i : Int) : ValueOk (intDec i) := by
  unfold intDec
  split
  · refine ⟨?_, ?_⟩
    · intro hm
      rcases List.mem_cons.mp hm with h | h
      · exact absurd h (by decide)
      · exact (valueOk_natDec _).1 h
    · intro b hb
      simp only [List.head?_cons, Option.some.injEq] at hb
      rw [← hb]; decide
  · exact valueOk_natDec _

theorem wf_hs0 (c : Cfg) (r : Req) (hw : HeadWf c r) (ff : Option (Bytes × Bytes)) (hs0 : Hdrs) (ch : Bool)
    (h : framing c r = some (ff, hs0, ch)) :
    (∀ f ∈ hs0, WfField f) ∧ (∀ p, ff = some p → WfField p) := by
  rcases framing_cases c r ff hs0 ch h with ⟨h1, h2, _⟩ | ⟨h1, _, _, h4⟩ | ⟨h1, h2, _⟩
  · refine ⟨by rw [h2]; exact hw.fields, ?_⟩
    intro p hp; rw [h1] at hp; simp only [Option.some.injEq] at hp; rw [← hp]
    exact ⟨by decide, by decide, by decide, by decide, by decide⟩
  · refine ⟨?_, by intro p hp; rw [h1] at hp; exact absurd hp (by simp)⟩
    rcases h4 with h4 | ⟨_, h4⟩
    · rw [h4]; exact hw.fields
    · rw [h4]; exact wf_setHdr _ _ _ ⟨by decide, by decide, by decide⟩ (valueOk_intDec _) hw.fields
  · refine ⟨by rw [h2]; exact hw.fields, ?_⟩
    intro p hp; rw [h1] at hp; simp only [Option.some.injEq] at hp; rw [← hp]
    exact ⟨by decide, by decide, by decide, by decide, by decide⟩

theorem valueOk_connValue (c : Cfg) (r : Req) (hs : Hdrs) : ValueOk (connValue c r hs) := by
  unfold connValue
  simp only
  refine valueOk_append ⟨by decide, by decide⟩ (by decide) ?_
  intro hm
  rcases List.mem_append.mp hm with h | h
  · split at h
    · exact absurd h (by decide)
    · simp at h
  · split at h
    · exact absurd h (by decide)
    · simp at h

theorem wf_connTail (c : Cfg) (r : Req) (hs : Hdrs) : ∀ p ∈ connTail c r hs, WfField p := by
  intro p hp
  have lit : ∀ (a b : String), ofString a ≠ [] → colon ∉ ofString a → cr ∉ ofString a →
      cr ∉ ofString b → (∀ x, (ofString b).head? = some x → isOws x = false) →
      WfField (ofString a, ofString b) := fun a b h1 h2 h3 h4 h5 => ⟨h1, h2, h3, h4, h5⟩
  unfold connTail at hp
  by_cases h1 : connListed c r hs = true
  · simp only [h1, ↓reduceIte, List.mem_singleton] at hp; rw [hp]
    exact wf_mk ⟨by decide, by decide, by decide⟩ (valueOk_connValue c r hs)
  · simp only [h1, Bool.false_eq_true, ↓reduceIte] at hp
    by_cases h2 : r.h2ConnectExt = true
    · simp only [h2, ↓reduceIte] at hp
      by_cases h3 : (getHdr hs "Sec-WebSocket-Key").isSome = true
      · simp only [h3, ↓reduceIte, List.nil_append, List.mem_cons, List.not_mem_nil, or_false] at hp
        rcases hp with rfl | rfl
        · exact ⟨by decide, by decide, by decide, by decide, by decide⟩
        · exact ⟨by decide, by decide, by decide, by decide, by decide⟩
      · simp only [h3, Bool.false_eq_true, ↓reduceIte, List.cons_append, List.nil_append, List.mem_cons,
          List.not_mem_nil, or_false] at hp
        rcases hp with rfl | rfl | rfl
        · exact ⟨by decide, by decide, by decide, by decide, by decide⟩
        · exact ⟨by decide, by decide, by decide, by decide, by decide⟩
        · exact ⟨by decide, by decide, by decide, by decide, by decide⟩
    · simp only [h2, Bool.false_eq_true, ↓reduceIte, List.mem_singleton] at hp
      rw [hp]
      exact ⟨by decide, by decide, by decide, by decide, by decide⟩

theorem cr_not_reqLine (c : Cfg) (r : Req) (hw : HeadWf c r) : cr ∉ (reqLine c r).1 := by
  have h0 : cr ∉ (if r.h2ConnectExt then ofString "GET" else r.method) ++ [sp] ++ r.target ++
      ofString (if c.forceHttp10 then " HTTP/1.0" else " HTTP/1.1") := by
    intro hm
    simp only [List.mem_append] at hm
    rcases hm with ((h | h) | h) | h
    · split at h
      · exact absurd h (by decide)
      · exact hw.method h
    · exact absurd h (by decide)
    · exact hw.target h
    · split at h <;> exact absurd h (by decide)
  unfold reqLine
  simp only
  split
  · exact h0
  · exact h0
  · intro hm
    rcases List.mem_append.mp hm with h | h
    · exact h0 (List.dropLast_subset _ h)
    · exact absurd h (by decide)

theorem wf_reqLine_host (c : Cfg) (r : Req) (hw : HeadWf c r) : ∀ p ∈ (reqLine c r).2.toList, WfField p := by
  intro p hp
  unfold reqLine at hp
  simp only at hp
  cases hrh : c.replaceHost with
  | some x =>
    rw [hrh] at hp
    simp only [Option.toList_some, List.mem_singleton] at hp; rw [hp]
    exact wf_mk ⟨by decide, by decide, by decide⟩ (hw.replaceHost x hrh)
  | none =>
    cases hh : r.host with
    | some x =>
      rw [hrh, hh] at hp
      simp only [Option.toList_some, List.mem_singleton] at hp; rw [hp]
      exact wf_mk ⟨by decide, by decide, by decide⟩ (hw.host x hh)
    | none =>
      rw [hrh, hh] at hp
      simp at hp

/-- with proxy.forwarded off, every field of the head and the request line are serialisable -/
theorem headFields_wf (c : Cfg) (r : Req) (hw : HeadWf c r) (h0 : c.forwarded = 0)
    (line : Bytes) (fs : Hdrs) (ch : Bool) (h : headFields c r = some (line, fs, ch)) :
    cr ∉ line ∧ ∀ f ∈ fs, WfField f := by
  obtain ⟨ff, hs0, hfr, hfs⟩ := mem_headFields c r line fs ch h
  have hline : line = (reqLine c r).1 := by
    rw [headFields_eq, hfr] at h
    simp only [Option.some.injEq, Prod.mk.injEq] at h
    exact h.1.symm
  obtain ⟨w0, wff⟩ := wf_hs0 c r hw ff hs0 ch hfr
  have wfw := wf_setForwarded0 c r hw hs0 w0
  refine ⟨by rw [hline]; exact cr_not_reqLine c r hw, ?_⟩
  intro f hf
  rw [hfs, h0] at hf
  simp only [List.mem_append, List.mem_filter] at hf
  rcases hf with ((hf | hf) | hf) | hf
  · exact wf_reqLine_host c r hw f hf
  · exact wff f (by simpa [Option.mem_toList] using hf)
  · exact wfw f hf.1
  · exact wf_connTail c r _ f hf

end LtVerif.Proxy
