/-
  Helper lemmas for Model/Range.lean: bounds and coverage invariants of the
  range-list parser and coalescer, byte-level facts about the chunk-queue
  operations, the shape of single/multipart bodies.
-/
import LtVerif.Model.Range
import LtVerif.Proofs.Path
set_option linter.unusedSimpArgs false
set_option linter.unusedVariables false
namespace LtVerif
namespace Range
open B Date

theorem rmaxu_eq : RMAX_UNSORTED = 10 := by decide
theorem rmax_eq : RMAX = 128 := by decide
theorem llmax_eq : LLONG_MAX = 9223372036854775807 := by decide
theorem llmin_eq : LLONG_MIN = -9223372036854775808 := by decide

/-! ### ranges stay inside the representation -/

/-- `0 ≤ first ≤ last < len` -/
def InB (len : Int) (r : Rng) : Prop := 0 ≤ r.1 ∧ r.1 ≤ r.2 ∧ r.2 < len

def AllInB (len : Int) (l : List Rng) : Prop := ∀ r ∈ l, InB len r

theorem parseNext_inB {s : Bytes} {len : Int} {rg : Rng} {rest : Bytes} (hlen : 0 < len)
    (h : parseNext s len = (some rg, rest)) : InB len rg := by
  unfold parseNext at h
  split at h
  · simp at h
  · rename_i n e hs
    split at h
    · rename_i hn
      split at h
      · rename_i hnl
        split at h
        · split at h
          · simp only [Prod.mk.injEq, Option.some.injEq] at h
            rw [← h.1]; simp only [InB]; omega
          · rename_i m e2 hs2
            split at h
            · rename_i hm
              simp only [Prod.mk.injEq, Option.some.injEq] at h
              rw [← h.1]; simp only [InB]
              split <;> omega
            · simp at h
        · simp at h
      · simp at h
    · simp only [Prod.mk.injEq, Option.some.injEq] at h
      rw [← h.1]; simp only [InB]
      split <;> omega

theorem parseSpec_inB {p : Bytes} {len : Int} {rg : Rng} (hlen : 0 < len)
    (h : parseSpec p len = some rg) : InB len rg := by
  unfold parseSpec at h
  split at h
  · rename_i rg' hp
    simp only [Option.some.injEq] at h
    rw [← h]; exact parseNext_inB hlen hp
  · simp at h

theorem parseStep_inB {len : Int} {st : PSt} {rg : Rng} (hst : AllInB len st.rs) (hrg : InB len rg) :
    AllInB len (parseStep st rg).1.rs := by
  unfold parseStep
  split
  · intro r hr
    simp only [List.mem_singleton] at hr
    rw [hr]; exact hrg
  · rename_i prev more hrs
    rw [hrs] at hst
    have hprev : InB len prev := hst prev (by simp)
    have hmore : ∀ r ∈ more, InB len r := fun r hr => hst r (by simp [hr])
    split
    · split
      · intro r hr
        simp only [List.mem_cons] at hr
        rcases hr with e | e | e
        · rw [e]; exact hrg
        · rw [e]; exact hprev
        · exact hmore r e
      · intro r hr
        simp only [List.mem_cons] at hr
        rcases hr with e | e
        · rw [e]
          simp only [InB] at hprev hrg ⊢
          split <;> omega
        · exact hmore r e
    · split
      · rw [hrs]; exact hst
      · intro r hr
        simp only [List.mem_cons] at hr
        rcases hr with e | e | e
        · rw [e]; exact hrg
        · rw [e]; exact hprev
        · exact hmore r e

theorem parseLoop_inB {len : Int} (hlen : 0 < len) (ps : List Bytes) (st : PSt)
    (hst : AllInB len st.rs) :
    AllInB len (parseLoop len st ps).rs := by
  induction ps generalizing st with
  | nil => exact hst
  | cons p ps ih =>
    unfold parseLoop
    split
    · exact ih st hst
    · rename_i rg hp
      have h1 := parseStep_inB hst (parseSpec_inB hlen hp)
      simp only
      split
      · exact h1
      · exact ih _ h1

theorem mergeFirst_inB {len : Int} {b e : Int} {l : List Rng} {m : Rng} {l' : List Rng}
    (hbe : InB len (b, e)) (hl : AllInB len l) (h : mergeFirst b e l = some (m, l')) :
    InB len m ∧ AllInB len l' := by
  induction l generalizing m l' with
  | nil => simp [mergeFirst] at h
  | cons r rest ih =>
    have hr : InB len r := hl r (by simp)
    have hrest : AllInB len rest := fun x hx => hl x (by simp [hx])
    unfold mergeFirst at h
    split at h
    · simp only [Option.some.injEq, Prod.mk.injEq] at h
      rw [← h.1, ← h.2]
      refine ⟨?_, hrest⟩
      simp only [InB] at hbe hr ⊢
      refine ⟨?_, ?_, ?_⟩ <;> (repeat' split) <;> omega
    · split at h
      · simp at h
      · rename_i m' rest' hm
        simp only [Option.some.injEq, Prod.mk.injEq] at h
        obtain ⟨h1, h2⟩ := ih hrest hm
        rw [← h.1, ← h.2]
        refine ⟨h1, ?_⟩
        intro x hx
        simp only [List.mem_cons] at hx
        rcases hx with e' | e'
        · rw [e']; exact hr
        · exact h2 x e'

theorem coalescePass_inB {len : Int} {l l' : List Rng} (hl : AllInB len l)
    (h : coalescePass l = some l') : AllInB len l' := by
  induction l generalizing l' with
  | nil => simp [coalescePass] at h
  | cons r rest ih =>
    have hr : InB len r := hl r (by simp)
    have hrest : AllInB len rest := fun x hx => hl x (by simp [hx])
    unfold coalescePass at h
    split at h
    · rename_i m rest' hm
      simp only [Option.some.injEq] at h
      obtain ⟨h1, h2⟩ := mergeFirst_inB (b := r.1) (e := r.2) hr hrest hm
      rw [← h]
      intro x hx
      simp only [List.mem_cons] at hx
      rcases hx with e' | e'
      · rw [e']; exact h1
      · exact h2 x e'
    · split at h
      · simp at h
      · rename_i rest' hc
        simp only [Option.some.injEq] at h
        rw [← h]
        intro x hx
        simp only [List.mem_cons] at hx
        rcases hx with e' | e'
        · rw [e']; exact hr
        · exact ih hrest hc x e'

/-- anything preserved by one combination step is preserved by the whole coalescing -/
theorem coalesce_preserves {P : List Rng → Prop}
    (hstep : ∀ l l', coalescePass l = some l' → P l → P l') (l : List Rng) (h : P l) :
    P (coalesce l) := by
  induction l using coalesce.induct with
  | case1 l hnone => rw [coalesce, hnone]; exact h
  | case2 l l' hsome ih =>
    rw [coalesce, hsome]
    exact ih (hstep l l' hsome h)

theorem parse_inB (s : Bytes) (len : Int) (hlen : 0 < len) : AllInB len (parse s len) := by
  unfold parse
  have h0 : AllInB len (parseLoop len { rs := [], lim := RMAX } (splitOn 44 s)).rs :=
    parseLoop_inB hlen _ _ (by intro r hr; simp at hr)
  have h1 : AllInB len (parseLoop len { rs := [], lim := RMAX } (splitOn 44 s)).rs.reverse := by
    intro r hr; exact h0 r (by simpa using hr)
  simp only
  split
  · exact h1
  · split
    · exact h1
    · exact coalesce_preserves (P := AllInB len) (fun l l' hc hl => coalescePass_inB hl hc) _ h1

/-! ### coverage: accepted ranges are never lost -/

/-- range `r` lies inside one of the ranges of `l` -/
def Cov (l : List Rng) (r : Rng) : Prop := ∃ o ∈ l, o.1 ≤ r.1 ∧ r.2 ≤ o.2

theorem Cov.self {l : List Rng} {r : Rng} (h : r ∈ l) : Cov l r :=
  ⟨r, h, Int.le_refl _, Int.le_refl _⟩

theorem Cov.mono {l l' : List Rng} (h : ∀ o ∈ l, Cov l' o) {r : Rng} (hr : Cov l r) : Cov l' r := by
  obtain ⟨o, ho, h1, h2⟩ := hr
  obtain ⟨o', ho', h3, h4⟩ := h o ho
  exact ⟨o', ho', by omega, by omega⟩

theorem parseStep_cov {st : PSt} {rg : Rng} (hbrk : (parseStep st rg).2 = false) :
    (∀ o ∈ st.rs, Cov (parseStep st rg).1.rs o) ∧ Cov (parseStep st rg).1.rs rg := by
  unfold parseStep at hbrk ⊢
  split
  · rename_i hrs
    rw [hrs]
    exact ⟨by intro o ho; simp at ho, Cov.self (by simp)⟩
  · rename_i prev more hrs
    rw [hrs] at hbrk ⊢
    simp only at hbrk ⊢
    split
    · rename_i hle
      split
      · refine ⟨?_, Cov.self (by simp)⟩
        intro o ho
        exact Cov.self (by simp only [List.mem_cons] at ho ⊢; right; exact ho)
      · refine ⟨?_, ?_⟩
        · intro o ho
          simp only [List.mem_cons] at ho
          rcases ho with e | e
          · rw [e]
            refine ⟨_, List.mem_cons_self, Int.le_refl _, ?_⟩
            simp only; split <;> omega
          · exact Cov.self (by simp [e])
        · refine ⟨_, List.mem_cons_self, hle, ?_⟩
          simp only; split <;> omega
    · rename_i hnle
      simp only [hnle, if_false] at hbrk
      split
      · rename_i hbig
        simp [hbig] at hbrk
      · refine ⟨?_, Cov.self (by simp)⟩
        intro o ho
        exact Cov.self (by simp only [List.mem_cons] at ho ⊢; right; exact ho)

theorem parseStep_nobreak {st : PSt} {rg : Rng} (h : st.rs.length < RMAX_UNSORTED) :
    (parseStep st rg).2 = false := by
  unfold parseStep
  split
  · rfl
  · rename_i prev more hrs
    rw [hrs] at h
    simp only [List.length_cons] at h
    split
    · split <;> rfl
    · split
      · omega
      · rfl

theorem parseStep_length {st : PSt} {rg : Rng} :
    (parseStep st rg).1.rs.length ≤ st.rs.length + 1 ∧ 1 ≤ (parseStep st rg).1.rs.length := by
  unfold parseStep
  split
  · rename_i hrs; rw [hrs]; simp
  · rename_i prev more hrs
    rw [hrs]
    split
    · split <;> simp
    · split
      · rw [hrs]; simp
      · simp

theorem parseStep_lim {st : PSt} {rg : Rng} (h : RMAX_UNSORTED ≤ st.lim) :
    RMAX_UNSORTED ≤ (parseStep st rg).1.lim := by
  unfold parseStep
  split
  · exact h
  · split
    · split <;> exact h
    · split
      · exact h
      · exact Nat.le_refl _

/-- with at most RMAX_UNSORTED pieces nothing is dropped: every accepted range
    is inside a range of the result -/
theorem parseLoop_cov_small {len : Int} (ps : List Bytes) (st : PSt)
    (hcnt : st.rs.length + ps.length ≤ RMAX_UNSORTED) (hlim : RMAX_UNSORTED ≤ st.lim) :
    (∀ o ∈ st.rs, Cov (parseLoop len st ps).rs o) ∧
    (∀ p ∈ ps, ∀ rg, parseSpec p len = some rg → Cov (parseLoop len st ps).rs rg) := by
  induction ps generalizing st with
  | nil =>
    exact ⟨fun o ho => Cov.self ho, by intro p hp; simp at hp⟩
  | cons p ps ih =>
    simp only [List.length_cons] at hcnt
    unfold parseLoop
    split
    · rename_i hnone
      obtain ⟨h1, h2⟩ := ih st (by omega) hlim
      refine ⟨h1, ?_⟩
      intro q hq rg hrg
      simp only [List.mem_cons] at hq
      rcases hq with e | e
      · rw [e, hnone] at hrg; simp at hrg
      · exact h2 q e rg hrg
    · rename_i rg0 hsome
      have hnb : (parseStep st rg0).2 = false := parseStep_nobreak (by omega)
      obtain ⟨hc1, hc2⟩ := parseStep_cov hnb
      have hlen := (parseStep_length (st := st) (rg := rg0)).1
      have hlim' := parseStep_lim (st := st) (rg := rg0) hlim
      generalize hps : parseStep st rg0 = r at *
      obtain ⟨st', brk⟩ := r
      simp only at hnb hc1 hc2 hlen hlim' ⊢
      subst hnb
      simp only [Bool.false_eq_true, false_or]
      split
      · rename_i hstop
        have hps0 : ps = [] := by
          cases ps with
          | nil => rfl
          | cons x xs => simp only [List.length_cons] at hcnt; omega
        refine ⟨hc1, ?_⟩
        intro q hq rg hrg
        rw [hps0] at hq
        simp only [List.mem_singleton] at hq
        rw [hq, hsome] at hrg
        simp only [Option.some.injEq] at hrg
        rw [← hrg]; exact hc2
      · obtain ⟨h1, h2⟩ := ih st' (by omega) hlim'
        refine ⟨fun o ho => Cov.mono h1 (hc1 o ho), ?_⟩
        intro q hq rg hrg
        simp only [List.mem_cons] at hq
        rcases hq with e | e
        · rw [e, hsome] at hrg
          simp only [Option.some.injEq] at hrg
          rw [← hrg]; exact Cov.mono h1 hc2
        · exact h2 q e rg hrg

/-- the ranges accepted from a list of pieces, in order -/
def validRanges (len : Int) (ps : List Bytes) : List Rng := ps.filterMap (fun p => parseSpec p len)

theorem parseStep_sorted {st : PSt} {rg : Rng}
    (h : ∀ prev, st.rs.head? = some prev → prev.1 ≤ rg.1) :
    (parseStep st rg).2 = false ∧ (parseStep st rg).1.lim = st.lim ∧
    (∀ hd, (parseStep st rg).1.rs.head? = some hd → hd.1 ≤ rg.1) := by
  unfold parseStep
  split
  · refine ⟨rfl, rfl, ?_⟩
    intro hd hhd
    simp only [List.head?_cons, Option.some.injEq] at hhd
    rw [← hhd]; exact Int.le_refl _
  · rename_i prev more hrs
    have hp : prev.1 ≤ rg.1 := h prev (by rw [hrs]; rfl)
    simp only [hp, if_true]
    split
    · refine ⟨rfl, rfl, ?_⟩
      intro hd hhd
      simp only [List.head?_cons, Option.some.injEq] at hhd
      rw [← hhd]; exact Int.le_refl _
    · refine ⟨rfl, rfl, ?_⟩
      intro hd hhd
      simp only [List.head?_cons, Option.some.injEq] at hhd
      rw [← hhd]; exact hp

/-- ranges whose first positions ascend are all kept, up to RMAX of them -/
theorem parseLoop_cov_sorted {len : Int} (ps : List Bytes) (st : PSt) (hlim : st.lim = RMAX)
    (hcnt : st.rs.length + ps.length ≤ RMAX)
    (hasc : (validRanges len ps).Pairwise (fun a b => a.1 ≤ b.1))
    (hhead : ∀ prev, st.rs.head? = some prev → ∀ rg ∈ validRanges len ps, prev.1 ≤ rg.1) :
    (parseLoop len st ps).lim = RMAX ∧
    (∀ o ∈ st.rs, Cov (parseLoop len st ps).rs o) ∧
    (∀ rg ∈ validRanges len ps, Cov (parseLoop len st ps).rs rg) := by
  induction ps generalizing st with
  | nil =>
    exact ⟨hlim, fun o ho => Cov.self ho, by intro rg hrg; simp [validRanges] at hrg⟩
  | cons p ps ih =>
    simp only [List.length_cons] at hcnt
    unfold parseLoop
    split
    · rename_i hnone
      have hv : validRanges len (p :: ps) = validRanges len ps := by
        simp [validRanges, List.filterMap_cons, hnone]
      rw [hv] at hasc hhead ⊢
      exact ih st hlim (by omega) hasc hhead
    · rename_i rg0 hsome
      have hv : validRanges len (p :: ps) = rg0 :: validRanges len ps := by
        simp [validRanges, List.filterMap_cons, hsome]
      rw [hv] at hasc hhead ⊢
      rw [List.pairwise_cons] at hasc
      obtain ⟨hnb, hl, hh⟩ := parseStep_sorted (st := st) (rg := rg0)
        (fun prev hprev => hhead prev hprev rg0 (by simp))
      obtain ⟨hc1, hc2⟩ := parseStep_cov hnb
      have hlen := (parseStep_length (st := st) (rg := rg0)).1
      generalize hps : parseStep st rg0 = r at *
      obtain ⟨st', brk⟩ := r
      simp only at hnb hc1 hc2 hlen hl hh ⊢
      subst hnb
      simp only [Bool.false_eq_true, false_or]
      split
      · rename_i hstop
        have hps0 : ps = [] := by
          cases ps with
          | nil => rfl
          | cons x xs => simp only [List.length_cons] at hcnt; rw [hl, hlim] at hstop; omega
        refine ⟨by rw [hl, hlim], hc1, ?_⟩
        intro rg hrg
        rw [hps0] at hrg
        simp only [validRanges, List.filterMap_nil, List.mem_cons, List.not_mem_nil, or_false] at hrg
        rw [hrg]; exact hc2
      · obtain ⟨h0, h1, h2⟩ := ih st' (by rw [hl, hlim]) (by omega) hasc.2
          (fun prev hprev rg hrg => Int.le_trans (hh prev hprev) (hasc.1 rg hrg))
        refine ⟨h0, fun o ho => Cov.mono h1 (hc1 o ho), ?_⟩
        intro rg hrg
        simp only [List.mem_cons] at hrg
        rcases hrg with e | e
        · rw [e]; exact Cov.mono h1 hc2
        · exact h2 rg e

theorem mergeFirst_cov {b e : Int} {l : List Rng} {m : Rng} {l' : List Rng}
    (h : mergeFirst b e l = some (m, l')) :
    (m.1 ≤ b ∧ e ≤ m.2) ∧ ∀ o ∈ l, Cov (m :: l') o := by
  induction l generalizing m l' with
  | nil => simp [mergeFirst] at h
  | cons r rest ih =>
    unfold mergeFirst at h
    split at h
    · simp only [Option.some.injEq, Prod.mk.injEq] at h
      rw [← h.1, ← h.2]
      refine ⟨?_, ?_⟩
      · simp only; constructor <;> split <;> omega
      · intro o ho
        simp only [List.mem_cons] at ho
        rcases ho with e' | e'
        · rw [e']
          refine ⟨_, List.mem_cons_self, ?_, ?_⟩ <;> simp only <;> split <;> omega
        · exact Cov.self (by simp [e'])
    · split at h
      · simp at h
      · rename_i m' rest' hm
        simp only [Option.some.injEq, Prod.mk.injEq] at h
        obtain ⟨h1, h2⟩ := ih hm
        rw [← h.1, ← h.2]
        refine ⟨h1, ?_⟩
        intro o ho
        simp only [List.mem_cons] at ho
        rcases ho with e' | e'
        · exact Cov.self (by simp [e'])
        · obtain ⟨o', ho', h3⟩ := h2 o e'
          refine ⟨o', ?_, h3⟩
          simp only [List.mem_cons] at ho' ⊢
          rcases ho' with e'' | e''
          · left; exact e''
          · right; right; exact e''

theorem coalescePass_cov {l l' : List Rng} (h : coalescePass l = some l') :
    ∀ o ∈ l, Cov l' o := by
  induction l generalizing l' with
  | nil => simp [coalescePass] at h
  | cons r rest ih =>
    unfold coalescePass at h
    split at h
    · rename_i m rest' hm
      simp only [Option.some.injEq] at h
      obtain ⟨h1, h2⟩ := mergeFirst_cov hm
      rw [← h]
      intro o ho
      simp only [List.mem_cons] at ho
      rcases ho with e' | e'
      · rw [e']; exact ⟨m, List.mem_cons_self, h1.1, h1.2⟩
      · exact h2 o e'
    · split at h
      · simp at h
      · rename_i rest' hc
        simp only [Option.some.injEq] at h
        rw [← h]
        intro o ho
        simp only [List.mem_cons] at ho
        rcases ho with e' | e'
        · exact Cov.self (by simp [e'])
        · obtain ⟨o', ho', h3⟩ := ih hc o e'
          exact ⟨o', by simp [ho'], h3⟩

theorem coalesce_cov (l : List Rng) {r : Rng} (h : Cov l r) : Cov (coalesce l) r :=
  coalesce_preserves (P := fun l => Cov l r)
    (fun _ _ hc hl => Cov.mono (coalescePass_cov hc) hl) l h

/-- the tail of http_range_parse() keeps every range covered -/
theorem parse_cov_of_loop {s : Bytes} {len : Int} {r : Rng}
    (h : Cov (parseLoop len { rs := [], lim := RMAX } (splitOn 44 s)).rs r) : Cov (parse s len) r := by
  have h1 : Cov (parseLoop len { rs := [], lim := RMAX } (splitOn 44 s)).rs.reverse r := by
    obtain ⟨o, ho, h3⟩ := h
    exact ⟨o, by simpa using ho, h3⟩
  unfold parse
  simp only
  split
  · exact h1
  · split
    · exact h1
    · exact coalesce_cov _ h1

theorem parse_cov_small {s : Bytes} {len : Int} (hn : (splitOn 44 s).length ≤ 10) :
    ∀ p ∈ splitOn 44 s, ∀ rg, parseSpec p len = some rg → Cov (parse s len) rg := by
  intro p hp rg hrg
  apply parse_cov_of_loop
  exact (parseLoop_cov_small (len := len) (splitOn 44 s) { rs := [], lim := RMAX }
    (by simp only [List.length_nil, rmaxu_eq]; omega) (by decide)).2 p hp rg hrg

theorem parse_cov_sorted {s : Bytes} {len : Int} (hn : (splitOn 44 s).length ≤ 128)
    (hasc : (validRanges len (splitOn 44 s)).Pairwise (fun a b => a.1 ≤ b.1)) :
    ∀ rg ∈ validRanges len (splitOn 44 s), Cov (parse s len) rg := by
  intro rg hrg
  apply parse_cov_of_loop
  exact (parseLoop_cov_sorted (len := len) (splitOn 44 s) { rs := [], lim := RMAX } rfl
    (by simp only [List.length_nil, rmax_eq]; omega) hasc (by intro prev h; simp at h)).2.2 rg hrg

/-! ### an ascending prefix of a longer list -/

theorem parseStep_break {st : PSt} {rg : Rng} (hb : (parseStep st rg).2 = true) :
    (parseStep st rg).1 = st := by
  cases hrs : st.rs with
  | nil => simp [parseStep, hrs] at hb
  | cons prev more =>
    simp only [parseStep, hrs] at hb ⊢
    by_cases h1 : prev.1 ≤ rg.1
    · simp only [h1, if_true] at hb
      by_cases h2 : prev.2 < rg.1 - 80 <;> simp [h2] at hb
    · simp only [h1, if_false] at hb ⊢
      by_cases h2 : more.length + 2 > RMAX_UNSORTED
      · simp only [h2, if_true]
      · simp [h2] at hb

theorem parseLoop_cons {len : Int} (p : Bytes) (ps : List Bytes) (st : PSt) :
    parseLoop len st (p :: ps) =
      match parseSpec p len with
      | none => parseLoop len st ps
      | some rg =>
        if (parseStep st rg).2 = true ∨ (parseStep st rg).1.rs.length ≥ (parseStep st rg).1.lim
        then (parseStep st rg).1 else parseLoop len (parseStep st rg).1 ps := by
  conv => lhs; unfold parseLoop
  cases parseSpec p len <;> rfl

/-- ranges already accepted are never lost by whatever follows (any pieces, any order) -/
theorem parseLoop_cov_prev {len : Int} (ps : List Bytes) (st : PSt) :
    ∀ o ∈ st.rs, Cov (parseLoop len st ps).rs o := by
  induction ps generalizing st with
  | nil => exact fun o ho => Cov.self ho
  | cons p ps ih =>
    rw [parseLoop_cons]
    cases hp : parseSpec p len with
    | none => exact ih st
    | some rg =>
      have hstep : ∀ o ∈ st.rs, Cov (parseStep st rg).1.rs o := by
        cases hb : (parseStep st rg).2 with
        | false => exact (parseStep_cov hb).1
        | true => rw [parseStep_break hb]; exact fun o ho => Cov.self ho
      simp only
      split
      · exact hstep
      · exact fun o ho => Cov.mono (ih _) (hstep o ho)

theorem parseLoop_append {len : Int} (pre post : List Bytes) (st : PSt) :
    parseLoop len st (pre ++ post) = parseLoop len st pre ∨
    parseLoop len st (pre ++ post) = parseLoop len (parseLoop len st pre) post := by
  induction pre generalizing st with
  | nil => right; rfl
  | cons p pre ih =>
    simp only [List.cons_append]
    rw [parseLoop_cons p (pre ++ post), parseLoop_cons p pre]
    cases hp : parseSpec p len with
    | none => exact ih st
    | some rg =>
      simp only
      split
      · left; rfl
      · exact ih _

theorem parse_cov_prefix {s : Bytes} {len : Int} (pre post : List Bytes)
    (hs : splitOn 44 s = pre ++ post) (hn : pre.length ≤ 128)
    (hasc : (validRanges len pre).Pairwise (fun a b => a.1 ≤ b.1)) :
    ∀ rg ∈ validRanges len pre, Cov (parse s len) rg := by
  intro rg hrg
  apply parse_cov_of_loop
  rw [hs]
  have hpre := (parseLoop_cov_sorted (len := len) pre { rs := [], lim := RMAX } rfl
    (by simp only [List.length_nil, rmax_eq]; omega) hasc (by intro prev h; simp at h)).2.2 rg hrg
  rcases parseLoop_append (len := len) pre post { rs := [], lim := RMAX } with h | h
  · rw [h]; exact hpre
  · rw [h]; exact Cov.mono (parseLoop_cov_prev post _) hpre

/-! ### emptiness: 416 exactly when no piece is acceptable -/

theorem parseLoop_ne_nil {len : Int} (ps : List Bytes) (st : PSt) (h : st.rs ≠ []) :
    (parseLoop len st ps).rs ≠ [] := by
  induction ps generalizing st with
  | nil => exact h
  | cons p ps ih =>
    unfold parseLoop
    split
    · exact ih st h
    · rename_i rg hsome
      have hl := (parseStep_length (st := st) (rg := rg)).2
      have hne : (parseStep st rg).1.rs ≠ [] := by
        intro e; rw [e] at hl; simp at hl
      simp only
      split
      · exact hne
      · exact ih _ hne

theorem parseLoop_all_none {len : Int} (ps : List Bytes) (st : PSt)
    (h : ∀ p ∈ ps, parseSpec p len = none) : parseLoop len st ps = st := by
  induction ps generalizing st with
  | nil => rfl
  | cons p ps ih =>
    unfold parseLoop
    rw [h p (by simp)]
    exact ih st (fun q hq => h q (by simp [hq]))

theorem parseLoop_some_ne_nil {len : Int} (ps : List Bytes) (st : PSt) {p : Bytes} {rg : Rng}
    (hp : p ∈ ps) (hrg : parseSpec p len = some rg) : (parseLoop len st ps).rs ≠ [] := by
  induction ps generalizing st with
  | nil => simp at hp
  | cons q ps ih =>
    unfold parseLoop
    split
    · rename_i hnone
      simp only [List.mem_cons] at hp
      rcases hp with e | e
      · rw [← e, hrg] at hnone; simp at hnone
      · exact ih st e
    · rename_i rg' hsome
      have hl := (parseStep_length (st := st) (rg := rg')).2
      have hne : (parseStep st rg').1.rs ≠ [] := by
        intro e; rw [e] at hl; simp at hl
      simp only
      split
      · exact hne
      · exact parseLoop_ne_nil _ _ hne

theorem coalescePass_two {l l' : List Rng} (h : coalescePass l = some l') : 2 ≤ l.length := by
  cases l with
  | nil => simp [coalescePass] at h
  | cons r rest =>
    cases rest with
    | nil => simp [coalescePass, mergeFirst] at h
    | cons r2 rest2 => simp

theorem coalesce_ne_nil (l : List Rng) (h : l ≠ []) : coalesce l ≠ [] :=
  coalesce_preserves (P := fun l => l ≠ [])
    (fun l l' hc _ => by
      have h1 := coalescePass_length hc
      have h2 := coalescePass_two hc
      intro e; rw [e] at h1; simp at h1; omega) l h

theorem parse_eq_nil_iff (s : Bytes) (len : Int) :
    parse s len = [] ↔ ∀ p ∈ splitOn 44 s, parseSpec p len = none := by
  constructor
  · intro h p hp
    cases hps : parseSpec p len with
    | none => rfl
    | some rg =>
      exfalso
      have hne := parseLoop_some_ne_nil (len := len) (splitOn 44 s) { rs := [], lim := RMAX } hp hps
      have hne' : (parseLoop len { rs := [], lim := RMAX } (splitOn 44 s)).rs.reverse ≠ [] := by
        simpa using hne
      unfold parse at h
      simp only at h
      split at h
      · exact hne' h
      · split at h
        · exact hne' h
        · exact coalesce_ne_nil _ hne' h
  · intro h
    unfold parse
    rw [parseLoop_all_none _ _ h]
    simp

/-! ### the byte-range grammar of RFC 9110 14.1.1 against the parser -/

/-- non-empty string of ASCII digits (1*DIGIT; leading zeros and any length allowed) -/
def IsNum (ds : Bytes) : Prop := ds ≠ [] ∧ ∀ d ∈ ds, isDigit d = true
/-- optional whitespace: SP / HTAB -/
def IsOws (ws : Bytes) : Prop := ∀ b ∈ ws, isBlank b = true

/-- a range-spec; numbers are given by their digit strings -/
inductive Spec
  | range (first last : Bytes)     -- first-pos "-" last-pos
  | fromPos (first : Bytes)        -- first-pos "-"
  | suffix (n : Bytes)             -- "-" suffix-length
deriving Repr, DecidableEq

def Spec.WF : Spec → Prop
  | .range f l => IsNum f ∧ IsNum l
  | .fromPos f => IsNum f
  | .suffix n => IsNum n

def Spec.text : Spec → Bytes
  | .range f l => f ++ 45 :: l
  | .fromPos f => f ++ [45]
  | .suffix n => 45 :: n

/-- RFC 9110 14.1.2: the bytes a spec selects from a representation of length
    `len` (none: unsatisfiable, or first-pos > last-pos) -/
def Spec.sem (len : Int) : Spec → Option Rng
  | .range f l =>
    if (decVal f : Int) ≤ decVal l ∧ (decVal f : Int) < len then
      some ((decVal f : Int), if (decVal l : Int) < len then (decVal l : Int) else len - 1)
    else none
  | .fromPos f => if (decVal f : Int) < len then some ((decVal f : Int), len - 1) else none
  | .suffix n =>
    if decVal n = 0 then none
    else some (if len > (decVal n : Int) then len - (decVal n : Int) else 0, len - 1)

theorem digit_not (d : UInt8) (h : isDigit d = true) :
    isSpace d = false ∧ isBlank d = false ∧ d ≠ 45 ∧ d ≠ 43 := by
  simp only [isDigit, Bool.and_eq_true, decide_eq_true_eq] at h
  refine ⟨?_, ?_, ?_, ?_⟩
  · simp only [isSpace, Bool.or_eq_false_iff, decide_eq_false_iff_not, Bool.and_eq_false_iff]
    have h1 := UInt8.le_iff_toNat_le.mp h.1
    refine ⟨?_, ?_⟩
    · intro e; subst e; revert h; decide
    · right; intro h3
      have h4 := UInt8.le_iff_toNat_le.mp h3
      have : (48 : UInt8).toNat = 48 := rfl
      have : (13 : UInt8).toNat = 13 := rfl
      omega
  · simp only [isBlank, Bool.or_eq_false_iff, decide_eq_false_iff_not]
    refine ⟨?_, ?_⟩ <;> (intro e; subst e; revert h; decide)
  · intro e; subst e; revert h; decide
  · intro e; subst e; revert h; decide

theorem blank_space (b : UInt8) (h : isBlank b = true) : isSpace b = true ∧ isDigit b = false := by
  simp only [isBlank, Bool.or_eq_true, decide_eq_true_eq] at h
  rcases h with e | e <;> subst e <;> decide

theorem takeWhile_head_neg {p : UInt8 → Bool} {l : Bytes}
    (h : ∀ b, l.head? = some b → p b = false) : l.takeWhile p = [] ∧ l.dropWhile p = l := by
  cases l with
  | nil => simp
  | cons x xs =>
    have := h x rfl
    simp [List.takeWhile_cons, List.dropWhile_cons, this]

theorem takeSign_digit {d : UInt8} {t : Bytes} (h : isDigit d = true) :
    takeSign (d :: t) = (false, d :: t) := by
  obtain ⟨-, -, h1, h2⟩ := digit_not d h
  unfold takeSign
  split
  · rename_i heq; simp only [List.cons.injEq] at heq; exact absurd heq.1 h1
  · rename_i heq; simp only [List.cons.injEq] at heq; exact absurd heq.1 h2
  · rfl

theorem strtoll_digits (ds rest : Bytes) (hds : IsNum ds)
    (hrest : ∀ b, rest.head? = some b → isDigit b = false) :
    ((ds ++ rest).takeWhile isDigit = ds) ∧ ((ds ++ rest).dropWhile isDigit = rest) := by
  obtain ⟨h1, h2⟩ := takeWhile_head_neg hrest
  rw [List.takeWhile_append_of_pos hds.2, List.dropWhile_append_of_pos hds.2, h1, h2]
  simp

theorem strtoll_num (pre ds rest : Bytes) (hpre : IsOws pre) (hds : IsNum ds)
    (hrest : ∀ b, rest.head? = some b → isDigit b = false) :
    strtoll (pre ++ (ds ++ rest)) = some (clampLL false (decVal ds), rest) := by
  obtain ⟨d, ds', rfl⟩ : ∃ d ds', ds = d :: ds' := by
    cases ds with
    | nil => exact absurd rfl hds.1
    | cons d ds' => exact ⟨d, ds', rfl⟩
  have hd : isDigit d = true := hds.2 d (by simp)
  have hsp : isSpace d = false := (digit_not d hd).1
  obtain ⟨h1, h2⟩ := strtoll_digits (d :: ds') rest hds hrest
  unfold strtoll
  rw [List.dropWhile_append_of_pos (fun b hb => (blank_space b (hpre b hb)).1)]
  have e0 : (d :: ds' ++ rest).dropWhile isSpace = d :: ds' ++ rest := by
    simp [List.dropWhile_cons, hsp]
  rw [e0]
  have e1 : takeSign (d :: ds' ++ rest) = (false, d :: ds' ++ rest) := takeSign_digit hd
  rw [e1]
  simp only [h1, h2]
  simp

theorem strtoll_neg (pre ds rest : Bytes) (hpre : IsOws pre) (hds : IsNum ds)
    (hrest : ∀ b, rest.head? = some b → isDigit b = false) :
    strtoll (pre ++ 45 :: (ds ++ rest)) = some (clampLL true (decVal ds), rest) := by
  obtain ⟨h1, h2⟩ := strtoll_digits ds rest hds hrest
  have hne : ds ≠ [] := hds.1
  unfold strtoll
  rw [List.dropWhile_append_of_pos (fun b hb => (blank_space b (hpre b hb)).1)]
  have e0 : (45 :: (ds ++ rest)).dropWhile isSpace = 45 :: (ds ++ rest) := by
    simp [List.dropWhile_cons, isSpace]
  rw [e0]
  have e1 : takeSign (45 :: (ds ++ rest)) = (true, ds ++ rest) := rfl
  rw [e1]
  simp only [h1, h2, hne, if_false]

theorem strtoll_blank (ws : Bytes) (h : IsOws ws) : strtoll ws = none := by
  unfold strtoll
  have e0 : ws.dropWhile isSpace = [] := by
    have := List.dropWhile_append_of_pos (l₂ := []) (fun b hb => (blank_space b (h b hb)).1)
    simpa using this
  rw [e0]
  simp [takeSign]

theorem skipWs_blank (ws : Bytes) (h : IsOws ws) : skipWs ws = [] := by
  unfold skipWs
  have := List.dropWhile_append_of_pos (p := isBlank) (l₂ := []) (fun b hb => h b hb)
  simpa using this

theorem skipWs_minus (t : Bytes) : skipWs (45 :: t) = 45 :: t := by
  simp [skipWs, List.dropWhile_cons, isBlank]

theorem head_minus_not_digit (t : Bytes) : ∀ b, (45 :: t).head? = some b → isDigit b = false := by
  intro b hb
  simp only [List.head?_cons, Option.some.injEq] at hb
  rw [← hb]; decide

theorem head_blank_not_digit (ws : Bytes) (h : IsOws ws) :
    ∀ b, ws.head? = some b → isDigit b = false := by
  intro b hb
  cases ws with
  | nil => simp at hb
  | cons x xs =>
    simp only [List.head?_cons, Option.some.injEq] at hb
    rw [← hb]; exact (blank_space x (h x (by simp))).2

theorem clamp_pos_nonneg (v : Nat) : 0 ≤ clampLL false v := by
  simp only [clampLL, llmax_eq, Bool.false_eq_true, if_false]
  split <;> omega

/-- the parser implements the RFC semantics of every grammatical range-spec,
    with optional whitespace around it, whatever the magnitude of its numbers
    (numbers beyond the off_t range are clamped by strtoll, which is harmless:
    a clamped first-pos is ≥ len, a clamped last-pos means "to the end", a
    clamped suffix-length means "everything") -/
theorem parseSpec_element (len : Int) (hlen : 0 < len) (hmax : len ≤ LLONG_MAX)
    (pre post : Bytes) (hpre : IsOws pre) (hpost : IsOws post)
    (sp : Spec) (hwf : sp.WF) :
    parseSpec (pre ++ sp.text ++ post) len = sp.sem len := by
  rw [llmax_eq] at hmax
  cases sp with
  | range f l =>
    obtain ⟨hf, hl⟩ := hwf
    have e : pre ++ (Spec.range f l).text ++ post = pre ++ (f ++ (45 :: (l ++ post))) := by
      simp [Spec.text, List.append_assoc]
    have h1 := strtoll_num pre f (45 :: (l ++ post)) hpre hf (head_minus_not_digit _)
    have h2 := strtoll_num [] l post (by intro b hb; simp at hb) hl (head_blank_not_digit post hpost)
    simp only [List.nil_append] at h2
    rw [e]
    unfold parseSpec parseNext
    rw [h1]
    have hnn := clamp_pos_nonneg (decVal f)
    simp only [hnn, ge_iff_le, if_true]
    by_cases ha : (decVal f : Int) < len
    · have hc : clampLL false (decVal f) = (decVal f : Int) := by
        simp only [clampLL, llmax_eq, Bool.false_eq_true, if_false]; split <;> omega
      rw [hc]
      have hne : (decVal f : Int) ≠ LLONG_MAX := by rw [llmax_eq]; omega
      simp only [hne, ha, ne_eq, not_false_eq_true, and_self, if_true, skipWs_minus]
      rw [h2]
      -- the clamped last-pos compares like the real one against first-pos and len
      have hle : ((decVal f : Int) ≤ clampLL false (decVal l)) ↔ ((decVal f : Int) ≤ decVal l) := by
        simp only [clampLL, llmax_eq, Bool.false_eq_true, if_false]; split <;> omega
      have hlt : (clampLL false (decVal l) < len) ↔ ((decVal l : Int) < len) := by
        simp only [clampLL, llmax_eq, Bool.false_eq_true, if_false]; split <;> omega
      have hval : (decVal l : Int) < len → clampLL false (decVal l) = (decVal l : Int) := by
        intro h
        simp only [clampLL, llmax_eq, Bool.false_eq_true, if_false]; split <;> omega
      simp only [skipWs_blank post hpost, Spec.sem, ha, and_true]
      by_cases hab : (decVal f : Int) ≤ decVal l
      · have hab' := hle.mpr hab
        simp only [hab, hab', if_true]
        by_cases hb : (decVal l : Int) < len
        · simp only [hb, hlt.mpr hb, if_true, hval hb]
        · have hb' : ¬ clampLL false (decVal l) < len := fun h => hb (hlt.mp h)
          simp only [hb, hb', if_false]
      · have hab' : ¬ (decVal f : Int) ≤ clampLL false (decVal l) := fun h => hab (hle.mp h)
        simp only [hab, hab', if_false]
    · have hc : ¬ (clampLL false (decVal f) ≠ LLONG_MAX ∧ clampLL false (decVal f) < len) := by
        simp only [clampLL, llmax_eq, Bool.false_eq_true, if_false]
        split <;> omega
      simp only [hc, if_false, Spec.sem, ha, and_false]
  | fromPos f =>
    have hf : IsNum f := hwf
    have e : pre ++ (Spec.fromPos f).text ++ post = pre ++ (f ++ (45 :: post)) := by
      simp [Spec.text, List.append_assoc]
    have h1 := strtoll_num pre f (45 :: post) hpre hf (head_minus_not_digit _)
    rw [e]
    unfold parseSpec parseNext
    rw [h1]
    have hnn := clamp_pos_nonneg (decVal f)
    simp only [hnn, ge_iff_le, if_true]
    by_cases ha : (decVal f : Int) < len
    · have hc : clampLL false (decVal f) = (decVal f : Int) := by
        simp only [clampLL, llmax_eq, Bool.false_eq_true, if_false]; split <;> omega
      rw [hc]
      have hne : (decVal f : Int) ≠ LLONG_MAX := by rw [llmax_eq]; omega
      simp only [hne, ha, ne_eq, not_false_eq_true, and_self, if_true, skipWs_minus]
      rw [strtoll_blank post hpost]
      simp only [skipWs_blank post hpost, Spec.sem, ha, if_true]
    · have hc : ¬ (clampLL false (decVal f) ≠ LLONG_MAX ∧ clampLL false (decVal f) < len) := by
        simp only [clampLL, llmax_eq, Bool.false_eq_true, if_false]
        split <;> omega
      simp only [hc, if_false, Spec.sem, ha]
  | suffix n =>
    have hn : IsNum n := hwf
    have e : pre ++ (Spec.suffix n).text ++ post = pre ++ 45 :: (n ++ post) := by
      simp [Spec.text, List.append_assoc]
    have h1 := strtoll_neg pre n post hpre hn (head_blank_not_digit post hpost)
    rw [e]
    unfold parseSpec parseNext
    rw [h1]
    by_cases hz : decVal n = 0
    · have hc : clampLL true (decVal n) = 0 := by
        simp only [clampLL, llmin_eq, if_true, hz]; decide
      rw [hc]
      simp [llmax_eq, hlen, skipWs_blank post hpost, Spec.sem, hz]
    · -- the clamped value is negative; it selects the same start as the real suffix-length
      have hneg : ¬ (clampLL true (decVal n) ≥ 0) := by
        simp only [clampLL, llmin_eq, if_true]; split <;> omega
      have hstart : (if clampLL true (decVal n) ≠ LLONG_MIN ∧ len > -clampLL true (decVal n)
                      then len + clampLL true (decVal n) else 0)
                    = (if len > (decVal n : Int) then len - (decVal n : Int) else 0) := by
        simp only [clampLL, llmin_eq, if_true]
        split <;> split <;> split <;> omega
      simp only [hneg, if_false, hstart, skipWs_blank post hpost, Spec.sem, hz]

/-! ### a whole range-set: elements joined by commas -/

theorem splitOn_join (sep : UInt8) (ps : List Bytes) (hne : ps ≠ [])
    (h : ∀ p ∈ ps, sep ∉ p) : splitOn sep (join sep ps) = ps := by
  induction ps with
  | nil => exact absurd rfl hne
  | cons p ps ih =>
    cases ps with
    | nil =>
      simp only [join]
      exact splitOn_noslash (h p (by simp))
    | cons q qs =>
      simp only [join]
      rw [splitOn_append_sep _ (h p (by simp))]
      rw [ih (by simp) (fun x hx => h x (by simp [hx]))]

/-- one element of the list: a spec with optional whitespace around it -/
structure Elem where
  pre : Bytes
  spec : Spec
  post : Bytes

def Elem.WF (e : Elem) : Prop := IsOws e.pre ∧ IsOws e.post ∧ e.spec.WF
def Elem.text (e : Elem) : Bytes := e.pre ++ e.spec.text ++ e.post

/-- `1#range-spec`: elements separated by "," -/
def rangeSetText (es : List Elem) : Bytes := join 44 (es.map Elem.text)

theorem digit_not_comma {ds : Bytes} (h : ∀ d ∈ ds, isDigit d = true) : (44 : UInt8) ∉ ds := by
  intro hm
  have := h 44 hm
  revert this; decide

theorem blank_not_comma {ws : Bytes} (h : IsOws ws) : (44 : UInt8) ∉ ws := by
  intro hm
  have := h 44 hm
  revert this; decide

theorem Elem.no_comma (e : Elem) (h : e.WF) : (44 : UInt8) ∉ e.text := by
  obtain ⟨h1, h2, h3⟩ := h
  unfold Elem.text
  simp only [List.mem_append, not_or]
  refine ⟨⟨blank_not_comma h1, ?_⟩, blank_not_comma h2⟩
  cases hs : e.spec with
  | range f l =>
    rw [hs] at h3
    simp only [Spec.text, List.mem_append, List.mem_cons, not_or]
    exact ⟨digit_not_comma h3.1.2, by decide, digit_not_comma h3.2.2⟩
  | fromPos f =>
    rw [hs] at h3
    simp only [Spec.text, List.mem_append, List.mem_cons, List.not_mem_nil, or_false, not_or]
    exact ⟨digit_not_comma h3.2, by decide⟩
  | suffix n =>
    rw [hs] at h3
    simp only [Spec.text, List.mem_cons, not_or]
    exact ⟨by decide, digit_not_comma h3.2⟩

theorem splitOn_rangeSet (es : List Elem) (hne : es ≠ []) (hwf : ∀ e ∈ es, e.WF) :
    splitOn 44 (rangeSetText es) = es.map Elem.text := by
  unfold rangeSetText
  apply splitOn_join
  · simpa using hne
  · intro p hp
    simp only [List.mem_map] at hp
    obtain ⟨e, he, rfl⟩ := hp
    exact e.no_comma (hwf e he)

theorem parseSpec_elem (len : Int) (hlen : 0 < len) (hmax : len ≤ LLONG_MAX) (e : Elem)
    (hwf : e.WF) : parseSpec e.text len = e.spec.sem len :=
  parseSpec_element len hlen hmax e.pre e.post hwf.1 hwf.2.1 e.spec hwf.2.2

theorem validRanges_elems (len : Int) (hlen : 0 < len) (hmax : len ≤ LLONG_MAX) (es : List Elem)
    (hwf : ∀ e ∈ es, e.WF) :
    validRanges len (es.map Elem.text) = es.filterMap (fun e => e.spec.sem len) := by
  induction es with
  | nil => rfl
  | cons e es ih =>
    have h1 := parseSpec_elem len hlen hmax e (hwf e (by simp))
    have h2 := ih (fun x hx => hwf x (by simp [hx]))
    unfold validRanges at h2 ⊢
    simp only [List.map_cons, List.filterMap_cons, h1, h2]

/-! ### chunk queues are byte strings -/

theorem cqDrop_flatten (n : Nat) (cq : Cq) : (cqDrop n cq).flatten = cq.flatten.drop n := by
  induction cq generalizing n with
  | nil => simp [cqDrop]
  | cons c cs ih =>
    unfold cqDrop
    split
    · rename_i h
      rw [ih, List.flatten_cons, List.drop_append]
      have : c.drop n = [] := List.drop_eq_nil_of_le h
      rw [this]; simp
    · rename_i h
      rw [List.flatten_cons, List.flatten_cons, List.drop_append_of_le_length (by omega)]

theorem cqTake_flatten (n : Nat) (cq : Cq) : (cqTake n cq).flatten = cq.flatten.take n := by
  induction cq generalizing n with
  | nil => simp [cqTake]
  | cons c cs ih =>
    unfold cqTake
    split
    · rename_i h
      rw [List.flatten_cons, ih, List.flatten_cons, List.take_append]
      have : c.take n = c := List.take_of_length_le h
      rw [this]
    · rename_i h
      split
      · rename_i h0; rw [h0]; simp
      · simp only [List.flatten_cons, List.flatten_nil, List.append_nil]
        rw [List.take_append_of_le_length (by omega)]

theorem cqRange_flatten (cq : Cq) (off len : Nat) :
    cqRange cq off len = (cq.flatten.drop off).take len := by
  induction cq generalizing off len with
  | nil => simp [cqRange]
  | cons c cs ih =>
    unfold cqRange
    split
    · rename_i h0; rw [h0]; simp
    · split
      · rename_i h
        rw [ih, List.flatten_cons, List.drop_append]
        have : c.drop off = [] := List.drop_eq_nil_of_le h
        rw [this]; simp
      · rename_i h0 h
        simp only [ih, List.flatten_cons, List.drop_zero]
        rw [List.drop_append_of_le_length (by omega), List.take_append]
        simp only [List.length_drop]
        split
        · rename_i hlt
          have e1 : len - len = 0 := by omega
          have e2 : len - (c.length - off) = 0 := by omega
          rw [e1, e2]
        · rename_i hge
          have e1 : (c.drop off).take (c.length - off) = c.drop off :=
            List.take_of_length_le (by simp)
          have e2 : (c.drop off).take len = c.drop off :=
            List.take_of_length_le (by simp; omega)
          rw [e1, e2]

/-- bytes first..last of a byte string -/
def slice (rep : Bytes) (a b : Nat) : Bytes := (rep.drop a).take (b - a + 1)

theorem slice_length {rep : Bytes} {a b : Nat} (h1 : a ≤ b) (h2 : b < rep.length) :
    (slice rep a b).length = b - a + 1 := by
  simp only [slice, List.length_take, List.length_drop]; omega

theorem slice_getElem? {rep : Bytes} {a b : Nat} (i : Nat) (hi : i ≤ b - a) :
    (slice rep a b)[i]? = rep[a + i]? := by
  simp only [slice, List.getElem?_take, List.getElem?_drop]
  have : i < b - a + 1 := by omega
  simp [this]

theorem single_flatten (cq : Cq) (a b : Nat) : (single cq a b).flatten = slice cq.flatten a b := by
  unfold single
  split
  · simp [slice]
  · rw [cqTake_flatten, cqDrop_flatten]; rfl

/-! ### multipart/byteranges body in the shape of RFC 2046 5.1.1 / RFC 9110 14.6 -/

/-- "--" boundary -/
def dashBoundary : Bytes := [45, 45] ++ boundary
/-- "--" boundary "--" CRLF -/
def closeDelimiter : Bytes := dashBoundary ++ [45, 45] ++ crlf

/-- header fields of one body part, each terminated by CRLF -/
def partFields (ctype : Option Bytes) (a b total : Nat) : Bytes :=
  (match ctype with
   | some ct => ofString "Content-Type: " ++ ct ++ crlf
   | none => [])
  ++ ofString "Content-Range: " ++ contentRange a b total ++ crlf

/-- one encapsulated part followed by the CRLF that belongs to the next delimiter -/
def bodyPart (rep : Bytes) (ctype : Option Bytes) (r : Nat × Nat) : Bytes :=
  dashBoundary ++ crlf ++ partFields ctype r.1 r.2 rep.length ++ crlf ++ slice rep r.1 r.2 ++ crlf

/-- dash-boundary CRLF fields CRLF payload, parts separated by CRLF, closed by
    CRLF "--" boundary "--" CRLF -/
def multipartBody (rep : Bytes) (ctype : Option Bytes) (parts : List (Nat × Nat)) : Bytes :=
  (parts.map (bodyPart rep ctype)).flatten ++ closeDelimiter

theorem partHeader_eq (rep : Bytes) (ctype : Option Bytes) (r : Nat × Nat) (T : Bytes) :
    partHeader ctype r.1 r.2 rep.length ++ (slice rep r.1 r.2 ++ (crlf ++ T)) =
      crlf ++ (bodyPart rep ctype r ++ T) := by
  cases ctype with
  | none => simp [partHeader, bodyPart, partFields, boundaryPrefix, dashBoundary, List.append_assoc]
  | some ct => simp [partHeader, bodyPart, partFields, boundaryPrefix, dashBoundary, List.append_assoc]

theorem multi_fold (orig : Bytes) (ctype : Option Bytes) (rs : List (Nat × Nat)) (q : Cq) (X : Bytes)
    (hq : q.flatten = orig ++ X) (hb : ∀ r ∈ rs, r.1 ≤ r.2 ∧ r.2 < orig.length) :
    (rs.foldl (fun q r => q ++ [partHeader ctype r.1 r.2 orig.length,
                                cqRange q r.1 (r.2 - r.1 + 1)]) q).flatten =
      orig ++ X ++ (rs.map (fun r => partHeader ctype r.1 r.2 orig.length ++ slice orig r.1 r.2)).flatten := by
  induction rs generalizing q X with
  | nil => simp [hq]
  | cons r rs ih =>
    obtain ⟨h1, h2⟩ := hb r (by simp)
    have hr : cqRange q r.1 (r.2 - r.1 + 1) = slice orig r.1 r.2 := by
      rw [cqRange_flatten, hq, List.drop_append_of_le_length (by omega),
          List.take_append_of_le_length (by simp; omega)]
      rfl
    simp only [List.foldl_cons, List.map_cons, List.flatten_cons]
    rw [ih (q ++ [partHeader ctype r.1 r.2 orig.length, cqRange q r.1 (r.2 - r.1 + 1)])
          (X ++ (partHeader ctype r.1 r.2 orig.length ++ slice orig r.1 r.2))
          (by rw [List.flatten_append, hq, hr]; simp [List.append_assoc])
          (fun x hx => hb x (by simp [hx]))]
    simp [List.append_assoc]

theorem shift_crlf (Ys : List Bytes) :
    (Ys.map (fun y => crlf ++ y)).flatten ++ crlf = crlf ++ (Ys.map (fun y => y ++ crlf)).flatten := by
  induction Ys with
  | nil => simp
  | cons y ys ih =>
    simp only [List.map_cons, List.flatten_cons, List.append_assoc]
    rw [ih]

theorem multi_flatten (cq : Cq) (ctype : Option Bytes) (rs : List (Nat × Nat))
    (hb : ∀ r ∈ rs, r.1 ≤ r.2 ∧ r.2 < cq.flatten.length) :
    (multi cq ctype rs).flatten = multipartBody cq.flatten ctype rs := by
  unfold multi
  simp only [cqLen]
  rw [cqDrop_flatten, List.flatten_append]
  rw [multi_fold cq.flatten ctype rs cq [] (by simp) hb]
  have e : (rs.map (fun r => partHeader ctype r.1 r.2 cq.flatten.length ++ slice cq.flatten r.1 r.2)).flatten
        ++ [boundaryEnd].flatten
      = crlf ++ multipartBody cq.flatten ctype rs := by
    have e1 : [boundaryEnd].flatten = crlf ++ closeDelimiter := by
      simp [boundaryEnd, closeDelimiter, dashBoundary, List.append_assoc]
    rw [e1, ← List.append_assoc]
    have e2 : (rs.map (fun r => partHeader ctype r.1 r.2 cq.flatten.length ++ slice cq.flatten r.1 r.2)).flatten
          ++ crlf = crlf ++ (rs.map (bodyPart cq.flatten ctype)).flatten := by
      induction rs with
      | nil => simp
      | cons r rs ih =>
        simp only [List.map_cons, List.flatten_cons, List.append_assoc]
        rw [ih (fun x hx => hb x (by simp [hx]))]
        exact partHeader_eq cq.flatten ctype r _
    rw [e2]
    simp [multipartBody, List.append_assoc]
  simp only [List.append_nil, List.append_assoc] at e ⊢
  rw [e]
  rw [← List.append_assoc, List.drop_append]
  have : (cq.flatten ++ crlf).length = cq.flatten.length + 2 := by simp [crlf]
  rw [this]
  simp [crlf]

/-! ### case analysis of http_range_process() / http_range_rfc7233() -/

/-- the range unit is "bytes" (case-insensitive), followed by "=" -/
def UnitBytes (hdr : Bytes) : Prop := 6 ≤ hdr.length ∧ eqIcase (hdr.take 6) bytesEq = true

def resp416 (rs : Resp) : Resp :=
  { rs with status := 416, contentRange := some (contentRangeUnsat (cqLen rs.body)) }

def respSingle (rs : Resp) (r : Rng) : Resp :=
  { rs with status := 206, body := single rs.body r.1.toNat r.2.toNat,
            contentRange := some (contentRange r.1.toNat r.2.toNat (cqLen rs.body)),
            contentLength := some (natDec (cqLen (single rs.body r.1.toNat r.2.toNat))) }

def respMulti (rs : Resp) (l : List Rng) : Resp :=
  { rs with status := 206, body := multi rs.body rs.contentType (l.map toNatRng),
            contentType := some multipartType,
            contentLength := some (natDec (cqLen (multi rs.body rs.contentType (l.map toNatRng)))) }

theorem process_cases (rs : Resp) (hdr : Bytes) :
    ((cqLen rs.body = 0 ∨ ¬ UnitBytes hdr) ∧ process rs hdr = rs) ∨
    (cqLen rs.body ≠ 0 ∧ UnitBytes hdr ∧
      ((parse (hdr.drop 6) (cqLen rs.body) = [] ∧ process rs hdr = resp416 rs) ∨
       (∃ r, parse (hdr.drop 6) (cqLen rs.body) = [r] ∧ process rs hdr = respSingle rs r) ∨
       (2 ≤ (parse (hdr.drop 6) (cqLen rs.body)).length ∧
          process rs hdr = respMulti rs (parse (hdr.drop 6) (cqLen rs.body))))) := by
  unfold process
  simp only
  split
  · rename_i h0; left; exact ⟨Or.inl h0, rfl⟩
  · rename_i h0
    split
    · rename_i hu
      left
      refine ⟨Or.inr ?_, rfl⟩
      intro hub
      rcases hu with hu | hu
      · exact absurd hub.1 (by omega)
      · rw [hub.2] at hu; simp at hu
    · rename_i hu
      right
      have hub : UnitBytes hdr := by
        simp only [not_or, Nat.not_lt, Bool.not_eq_true', Bool.not_eq_false'] at hu
        constructor
        · exact hu.1
        · have := hu.2; simpa using this
      refine ⟨h0, hub, ?_⟩
      split
      · rename_i hp; left; exact ⟨hp, rfl⟩
      · rename_i r hp; right; left; exact ⟨r, hp, rfl⟩
      · rename_i l hnil hone
        right; right
        refine ⟨?_, rfl⟩
        generalize parse (List.drop 6 hdr) ↑(cqLen rs.body) = l at *
        cases l with
        | nil => exact absurd rfl hnil
        | cons a t =>
          cases t with
          | nil => exact absurd rfl (hone a)
          | cons b t2 => simp

/-- every precondition of http_range_rfc7233() for evaluating a Range header `hdr` -/
def Applicable (rq : Req) (rs : Resp) (hdr : Bytes) : Prop :=
  rs.finished = true ∧ rs.status = 200 ∧ rq.method = 0 ∧ (1 ≤ rq.version ∨ rq.allow10 = true) ∧
  rs.encoded = false ∧ rs.acceptRanges ≠ some (ofString "none") ∧ rq.range = some hdr ∧
  ifRangePass rq.ifRange rs = true

theorem rfc7233_applicable {rq : Req} {rs : Resp} {hdr : Bytes} (h : Applicable rq rs hdr) :
    rfc7233 rq rs = process (withAcceptRanges rs) hdr := by
  obtain ⟨h1, h2, h3, h4, h5, h6, h7, h8⟩ := h
  have hv : ¬ (rq.version < 1 ∧ (!rq.allow10) = true) := by
    intro ⟨a, b⟩
    rcases h4 with d | d
    · omega
    · rw [d] at b; simp at b
  unfold rfc7233
  rw [if_neg (by simp [h1]), if_neg (by simp [h2]), if_neg (by simp [h3]), if_neg hv,
      if_neg (by simp [h5]), if_neg h6, if_neg (by simp [h3])]
  rw [h7]
  simp only [h8, if_true]

/-- the parts of `rs` that a Range request may change -/
def SameRepresentation (out rs : Resp) : Prop :=
  out.status = rs.status ∧ out.body = rs.body ∧ out.contentRange = rs.contentRange ∧
  out.contentLength = rs.contentLength ∧ out.contentType = rs.contentType ∧
  out.etag = rs.etag ∧ out.lastModified = rs.lastModified

theorem same_refl (rs : Resp) : SameRepresentation rs rs := by simp [SameRepresentation]

theorem same_withAcceptRanges (rs : Resp) : SameRepresentation (withAcceptRanges rs) rs := by
  unfold withAcceptRanges SameRepresentation
  split <;> simp

/-- whatever the request, the result is the input (possibly with Accept-Ranges
    advertised), or http_range_process() under all preconditions -/
theorem rfc7233_cases (rq : Req) (rs : Resp) :
    SameRepresentation (rfc7233 rq rs) rs ∨
    (∃ hdr, Applicable rq rs hdr ∧ rfc7233 rq rs = process (withAcceptRanges rs) hdr) := by
  by_cases happ : ∃ hdr, Applicable rq rs hdr
  · obtain ⟨hdr, h⟩ := happ
    right; exact ⟨hdr, h, rfc7233_applicable h⟩
  · left
    unfold rfc7233
    by_cases c1 : (!rs.finished) = true
    · rw [if_pos c1]; exact same_refl rs
    rw [if_neg c1]
    by_cases c2 : rs.status ≠ 200
    · rw [if_pos c2]; exact same_refl rs
    rw [if_neg c2]
    by_cases c3 : (!decide (rq.method ≤ 1)) = true
    · rw [if_pos c3]; exact same_refl rs
    rw [if_neg c3]
    by_cases c4 : rq.version < 1 ∧ (!rq.allow10) = true
    · rw [if_pos c4]; exact same_refl rs
    rw [if_neg c4]
    by_cases c5 : rs.encoded = true
    · rw [if_pos c5]; exact same_refl rs
    rw [if_neg c5]
    by_cases c6 : rs.acceptRanges = some (ofString "none")
    · rw [if_pos c6]; exact same_refl rs
    rw [if_neg c6]
    by_cases c7 : rq.method ≠ 0
    · rw [if_pos c7]; exact same_withAcceptRanges rs
    rw [if_neg c7]
    cases hrange : rq.range with
    | none => exact same_withAcceptRanges rs
    | some hdr =>
      simp only
      by_cases c8 : ifRangePass rq.ifRange rs = true
      · exfalso
        apply happ
        refine ⟨hdr, by simpa using c1, by simpa using c2, by simpa using c7,
          ?_, by simpa using c5, c6, hrange, c8⟩
        by_cases hvv : rq.version < 1
        · right
          cases ha : rq.allow10 with
          | true => rfl
          | false => exact absurd ⟨hvv, by simp [ha]⟩ c4
        · left; omega
      · rw [if_neg c8]; exact same_withAcceptRanges rs

/-! ### concrete instances used by the non-vacuity examples of Props/C15.lean -/

/-- GET of bytes 2-5 of a 12-byte body held in two chunks -/
def exReq : Req := { method := 0, version := 1, allow10 := false,
                     range := some (ofString "bytes=2-5"), ifRange := none }
def exResp : Resp := { status := 200, finished := true, encoded := false,
                       body := [ofString "hello ", ofString "world!"], etag := none,
                       lastModified := none, contentType := none, acceptRanges := none }
/-- a satisfiable suffix spec with whitespace and a leading zero -/
def exElem : Elem := { pre := [32], spec := .suffix (ofString "03"), post := [9] }

end Range
end LtVerif
