/-
  The pointer walk of http_range_parse() (Model/RangeWalk.lean) computes the same
  list of ranges as the ','-split model (Model/Range.lean `parse`), for every
  header text and every length.
-/
import LtVerif.Model.RangeWalk
import LtVerif.Proofs.Range
set_option linter.unusedSimpArgs false
set_option linter.unusedVariables false
namespace LtVerif
namespace Range
open B Date

/-! ### scanning loops stop at a byte they do not accept -/

theorem dropWhile_append_stop (f : UInt8 → Bool) (c : UInt8) (hc : f c = false)
    (p rest : Bytes) : (p ++ c :: rest).dropWhile f = p.dropWhile f ++ c :: rest := by
  induction p with
  | nil => simp [List.dropWhile, hc]
  | cons x xs ih =>
    by_cases hx : f x = true
    · simp [List.dropWhile, hx, ih]
    · simp [List.dropWhile, hx]

theorem takeWhile_append_stop (f : UInt8 → Bool) (c : UInt8) (hc : f c = false)
    (p rest : Bytes) : (p ++ c :: rest).takeWhile f = p.takeWhile f := by
  induction p with
  | nil => simp [List.takeWhile, hc]
  | cons x xs ih =>
    by_cases hx : f x = true
    · simp [List.takeWhile, hx, ih]
    · simp [List.takeWhile, hx]

theorem takeSign_append (q rest : Bytes) :
    takeSign (q ++ 44 :: rest) = ((takeSign q).1, (takeSign q).2 ++ 44 :: rest) := by
  cases q with
  | nil => simp [takeSign]
  | cons x t =>
    by_cases h1 : x = 45
    · subst h1; simp [takeSign]
    · by_cases h2 : x = 43
      · subst h2; simp [takeSign]
      · simp [takeSign, h1, h2]

theorem skipWs_append (p rest : Bytes) : skipWs (p ++ 44 :: rest) = skipWs p ++ 44 :: rest :=
  dropWhile_append_stop isBlank 44 (by decide) p rest

theorem strtoll_append (p rest : Bytes) :
    strtoll (p ++ 44 :: rest)
      = (strtoll p).map (fun x => (x.1, x.2 ++ 44 :: rest)) := by
  unfold strtoll
  rw [dropWhile_append_stop isSpace 44 (by decide), takeSign_append]
  simp only
  rw [takeWhile_append_stop isDigit 44 (by decide), dropWhile_append_stop isDigit 44 (by decide)]
  split <;> simp

/-- http_range_parse_next() never looks past a ',': on `p , rest` it does what it
    does on `p` alone, and the returned pointer is the same position -/
theorem parseNext_append (p rest : Bytes) (len : Int) :
    parseNext (p ++ 44 :: rest) len
      = ((parseNext p len).1, (parseNext p len).2 ++ 44 :: rest) := by
  unfold parseNext
  rw [strtoll_append]
  cases h1 : strtoll p with
  | none => simp [skipWs_append]
  | some x =>
    obtain ⟨n, e⟩ := x
    simp only [Option.map_some]
    by_cases hn : n ≥ 0
    · simp only [hn, if_true]
      by_cases hc : n ≠ LLONG_MAX ∧ n < len
      · simp only [hc, and_self, if_true, ne_eq, not_false_eq_true]
        rw [skipWs_append]
        cases h2 : skipWs e with
        | nil => simp [skipWs, isBlank]
        | cons y s2 =>
          by_cases hy : y = 45
          · subst hy
            simp only [List.cons_append]
            rw [strtoll_append]
            cases h3 : strtoll s2 with
            | none => simp [skipWs_append]
            | some z =>
              obtain ⟨m, e2⟩ := z
              simp only [Option.map_some]
              by_cases hm : n ≤ m <;> simp [hm, skipWs_append]
          · have h4 := skipWs_append (y :: s2) rest
            simp only [List.cons_append] at h4
            simp only [List.cons_append]
            simp [hy, h4]
      · simp only [hc, if_false, skipWs_append]
    · simp only [hn, if_false, skipWs_append]

/-! ### the returned pointer stays inside the piece -/

theorem strtoll_suffix {s : Bytes} {n : Int} {e : Bytes} (h : strtoll s = some (n, e)) :
    e <:+ s := by
  unfold strtoll at h
  have h0 : (takeSign (s.dropWhile isSpace)).2 <:+ s := by
    have hd : s.dropWhile isSpace <:+ s := List.dropWhile_suffix _
    generalize s.dropWhile isSpace = q at hd ⊢
    cases q with
    | nil => simpa [takeSign] using hd
    | cons x t =>
      by_cases h1 : x = 45
      · subst h1; exact (List.suffix_cons _ _).trans hd
      · by_cases h2 : x = 43
        · subst h2; exact (List.suffix_cons _ _).trans hd
        · simpa [takeSign, h1, h2] using hd
  simp only at h
  split at h
  · simp at h
  · simp only [Option.some.injEq, Prod.mk.injEq] at h
    rw [← h.2]
    exact (List.dropWhile_suffix _).trans h0

theorem skipWs_suffix (s : Bytes) : skipWs s <:+ s := List.dropWhile_suffix _

theorem parseNext_suffix (s : Bytes) (len : Int) : (parseNext s len).2 <:+ s := by
  unfold parseNext
  split
  · exact skipWs_suffix _
  · rename_i n e h1
    have he := strtoll_suffix h1
    split
    · split
      · split
        · rename_i s2 h2
          have hs2 : s2 <:+ s := by
            have : (45 :: s2) <:+ s := by rw [← h2]; exact (skipWs_suffix _).trans he
            exact (List.suffix_cons _ _).trans this
          split
          · exact (skipWs_suffix _).trans hs2
          · rename_i m e2 h3
            have := (strtoll_suffix h3).trans hs2
            split <;> exact (skipWs_suffix _).trans this
        · exact (skipWs_suffix _).trans ((skipWs_suffix _).trans he)
      · exact (skipWs_suffix _).trans he
    · exact (skipWs_suffix _).trans he

theorem parseNext_nocomma {p : Bytes} (len : Int) (h : (44 : UInt8) ∉ p) :
    (44 : UInt8) ∉ (parseNext p len).2 :=
  fun hm => h ((parseNext_suffix p len).subset hm)

/-! ### one iteration of the walk = one piece -/

theorem skipToComma_nocomma {e : Bytes} (h : (44 : UInt8) ∉ e) : skipToComma e = [] := by
  induction e with
  | nil => rfl
  | cons x xs ih =>
    have hx : x ≠ 44 := fun e => h (by simp [e])
    have hxs : (44 : UInt8) ∉ xs := fun e => h (by simp [e])
    have := ih hxs
    have hb : (x != 44) = true := by simp [hx]
    unfold skipToComma at this ⊢
    simp [List.dropWhile, hb, this]

theorem skipToComma_append {e : Bytes} (rest : Bytes) (h : (44 : UInt8) ∉ e) :
    skipToComma (e ++ 44 :: rest) = 44 :: rest := by
  unfold skipToComma
  rw [dropWhile_append_stop _ 44 (by decide)]
  have := skipToComma_nocomma h
  unfold skipToComma at this
  rw [this]; rfl

/-- what one piece does to the parser state in the ','-split model -/
def pieceStep (len : Int) (st : PSt) (p : Bytes) : PSt × Bool :=
  match parseSpec p len with
  | none => (st, false)
  | some rg => parseStep st rg

/-- last piece: the walk's iteration on `p` (no ',') ends at the NUL -/
theorem walkItem_last (len : Int) (st : PSt) {p : Bytes} (h : (44 : UInt8) ∉ p) :
    walkItem len st p = ((pieceStep len st p).1, (pieceStep len st p).2, []) := by
  have hnc := parseNext_nocomma len h
  unfold walkItem pieceStep parseSpec
  cases hp : parseNext p len with
  | mk r e =>
    rw [hp] at hnc
    simp only at hnc
    cases r with
    | none => simp [skipToComma_nocomma hnc]
    | some rg =>
      cases e with
      | nil => simp
      | cons x t =>
        have hx : x ≠ 44 := fun e => hnc (by simp [e])
        have : skipToComma (x :: t) = [] := skipToComma_nocomma hnc
        split
        · rename_i heq; simp at heq
        · rename_i heq; simp at heq; exact absurd heq.2.1 hx
        · rename_i heq
          simp only [Prod.mk.injEq] at heq
          rw [← heq.2, this]

/-- inner piece: the walk's iteration on `p , rest` ends at that ',' -/
theorem walkItem_inner (len : Int) (st : PSt) {p : Bytes} (rest : Bytes) (h : (44 : UInt8) ∉ p) :
    walkItem len st (p ++ 44 :: rest)
      = ((pieceStep len st p).1, (pieceStep len st p).2, 44 :: rest) := by
  have hnc := parseNext_nocomma len h
  unfold walkItem pieceStep parseSpec
  rw [parseNext_append]
  cases hp : parseNext p len with
  | mk r e =>
    rw [hp] at hnc
    simp only at hnc
    cases r with
    | none => simp [skipToComma_append rest hnc]
    | some rg =>
      cases e with
      | nil => simp
      | cons x t =>
        have hx : x ≠ 44 := fun e => hnc (by simp [e])
        have : skipToComma (x :: t ++ 44 :: rest) = 44 :: rest := skipToComma_append rest hnc
        split
        · rename_i heq; simp at heq
        · rename_i heq; simp at heq; exact absurd heq.2.1 hx
        · rename_i heq
          simp only [Prod.mk.injEq] at heq
          rw [← heq.2, this]

/-! ### the whole loop -/

theorem split_first (s : Bytes) :
    (44 : UInt8) ∉ s ∨ ∃ p rest, s = p ++ 44 :: rest ∧ (44 : UInt8) ∉ p := by
  induction s with
  | nil => left; simp
  | cons x xs ih =>
    by_cases hx : x = 44
    · right; exact ⟨[], xs, by simp [hx], by simp⟩
    · rcases ih with h | ⟨p, rest, he, hp⟩
      · left; simp [hx, h]; exact fun e => hx e.symm
      · right
        refine ⟨x :: p, rest, by simp [he], ?_⟩
        simp [hp]; exact fun e => hx e.symm

theorem walk_parseLoop_cons (len : Int) (st : PSt) (p : Bytes) (ps : List Bytes) :
    parseLoop len st (p :: ps)
      = (if (pieceStep len st p).2 ∨ (pieceStep len st p).1.rs.length ≥ (pieceStep len st p).1.lim
            then (if parseSpec p len = none then parseLoop len st ps else (pieceStep len st p).1)
            else parseLoop len (pieceStep len st p).1 ps) := by
  unfold pieceStep
  rw [parseLoop]
  cases parseSpec p len with
  | none => simp
  | some rg => simp

theorem walk_eq_parseLoop (len : Int) :
    ∀ (fuel : Nat) (st : PSt) (s : Bytes), s.length < fuel → st.rs.length < st.lim →
      walk len fuel st s = parseLoop len st (splitOn 44 s) := by
  intro fuel
  induction fuel with
  | zero => intro st s h; omega
  | succ fuel ih =>
    intro st s hf hinv
    rcases split_first s with h | ⟨p, rest, he, hp⟩
    · rw [splitOn_noslash h, walk, walkItem_last len st h, walk_parseLoop_cons]
      have hnone : parseSpec s len = none → pieceStep len st s = (st, false) := by
        intro hn; simp [pieceStep, hn]
      by_cases hb : (pieceStep len st s).2 = true
      · have hsome : parseSpec s len ≠ none := by
          intro hn; rw [hnone hn] at hb; simp at hb
        simp [hb, hsome]
      · have hb' : (pieceStep len st s).2 = false := by simpa using hb
        by_cases hn : parseSpec s len = none
        · simp [hnone hn, hn, parseLoop]
        · simp [hb', hn, parseLoop]
    · subst he
      rw [splitOn_append_sep rest hp, walk, walkItem_inner len st rest hp, walk_parseLoop_cons]
      have hlen : rest.length < fuel := by simp at hf; omega
      have hnone : parseSpec p len = none → pieceStep len st p = (st, false) := by
        intro hn; simp [pieceStep, hn]
      by_cases hb : (pieceStep len st p).2 = true
      · have hsome : parseSpec p len ≠ none := by
          intro hn; rw [hnone hn] at hb; simp at hb
        simp [hb, hsome]
      · have hb' : (pieceStep len st p).2 = false := by simpa using hb
        by_cases hlim : (pieceStep len st p).1.rs.length < (pieceStep len st p).1.lim
        · have hc : ¬ ((pieceStep len st p).2 = true
                        ∨ (pieceStep len st p).1.rs.length ≥ (pieceStep len st p).1.lim) := by
            rw [hb']; simp; omega
          rw [if_neg hc]
          simp only [hb', hlim, if_true]
          exact ih _ rest hlen hlim
        · have hc : ((pieceStep len st p).2 = true
                        ∨ (pieceStep len st p).1.rs.length ≥ (pieceStep len st p).1.lim) :=
            Or.inr (by omega)
          rw [if_pos hc]
          by_cases hn : parseSpec p len = none
          · exfalso; rw [hnone hn] at hlim; exact hlim hinv
          · simp [hb', hlim, hn]

/-- http_range_parse() as the C pointer walk = the ','-split model -/
theorem parsePtr_eq_parse (s : Bytes) (len : Int) : parsePtr s len = parse s len := by
  unfold parsePtr parse
  rw [walk_eq_parseLoop len (s.length + 1) { rs := [], lim := RMAX } s (by omega)
        (by simp [rmax_eq])]

theorem processPtr_eq_process (rs : Resp) (hdr : Bytes) : processPtr rs hdr = process rs hdr := by
  unfold processPtr process
  simp only [parsePtr_eq_parse]
  rfl

end Range
end LtVerif
