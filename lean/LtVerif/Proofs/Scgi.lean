/-
  Helper lemmas for C09: SCGI netstring, uwsgi packet and envp block round trips
  (Model/Scgi.lean, Model/Cgi.lean).
-/
import LtVerif.Proofs.Fcgi
import LtVerif.Model.Scgi
namespace LtVerif
open LtVerif B

/-! ### splitting at a byte -/

theorem splitAtByte_append (x : UInt8) (a rest : Bytes) (h : x ∉ a) :
    splitAtByte x (a ++ x :: rest) = (a, some rest) := by
  induction a with
  | nil => simp [splitAtByte]
  | cons b t ih =>
    have hb : b ≠ x := fun e => h (by simp [e])
    have ht : x ∉ t := fun e => h (by simp [e])
    simp only [List.cons_append, splitAtByte, hb, ↓reduceIte, ih ht]

/-! ### decimal numbers -/

def digitsVal (ds : Bytes) (a0 : Nat) : Nat := ds.foldl (fun a d => a * 10 + (d.toNat - 48)) a0

theorem digit_toNat (r : Nat) (h : r < 10) : ((48 : UInt8) + r.toUInt8).toNat = 48 + r := by
  have : r.toUInt8.toNat = r := Fcgi.toNat_toUInt8 (by omega)
  rw [UInt8.toNat_add, this]
  show (48 + r) % 256 = 48 + r
  omega

theorem digit_isDigit (r : Nat) (h : r < 10) : isDigit ((48 : UInt8) + r.toUInt8) = true := by
  have := digit_toNat r h
  simp only [isDigit, Bool.and_eq_true, decide_eq_true_eq]
  constructor
  · show (48 : UInt8).toNat ≤ ((48 : UInt8) + r.toUInt8).toNat
    rw [this]; show 48 ≤ 48 + r; omega
  · show ((48 : UInt8) + r.toUInt8).toNat ≤ (57 : UInt8).toNat
    rw [this]; show 48 + r ≤ 57; omega

theorem decDigitsAux_spec : ∀ (fuel n : Nat) (acc : Bytes), n < fuel →
    ∃ ds, decDigitsAux fuel n acc = ds ++ acc ∧ ds ≠ [] ∧ (∀ d ∈ ds, isDigit d = true) ∧
      ∀ a0, digitsVal ds a0 = a0 * 10 ^ ds.length + n := by
  intro fuel
  induction fuel with
  | zero => intro n acc h; omega
  | succ f ih =>
    intro n acc h
    have hr : n % 10 < 10 := Nat.mod_lt _ (by decide)
    unfold decDigitsAux
    by_cases hz : n / 10 = 0
    · simp only [hz, ↓reduceIte]
      refine ⟨[48 + (n % 10).toUInt8], by simp, by simp, ?_, ?_⟩
      · intro d hd; simp only [List.mem_singleton] at hd; rw [hd]; exact digit_isDigit _ hr
      · intro a0
        simp only [digitsVal, List.foldl_cons, List.foldl_nil, List.length_singleton, Nat.pow_one]
        rw [digit_toNat _ hr]; omega
    · simp only [hz, ↓reduceIte]
      obtain ⟨ds, h1, h2, h3, h4⟩ := ih (n / 10) ((48 + (n % 10).toUInt8) :: acc) (by omega)
      refine ⟨ds ++ [48 + (n % 10).toUInt8], ?_, by simp, ?_, ?_⟩
      · rw [h1]; simp
      · intro d hd
        rcases List.mem_append.mp hd with hd | hd
        · exact h3 d hd
        · simp only [List.mem_singleton] at hd; rw [hd]; exact digit_isDigit _ hr
      · intro a0
        have := h4 a0
        simp only [digitsVal] at this ⊢
        rw [List.foldl_append, this]
        simp only [List.foldl_cons, List.foldl_nil, List.length_append, List.length_singleton]
        rw [digit_toNat _ hr, Nat.pow_succ, ← Nat.mul_assoc]
        generalize a0 * 10 ^ ds.length = X
        omega

theorem natDec_spec (n : Nat) :
    natDec n ≠ [] ∧ (∀ d ∈ natDec n, isDigit d = true) ∧ digitsVal (natDec n) 0 = n := by
  obtain ⟨ds, h1, h2, h3, h4⟩ := decDigitsAux_spec (n + 1) n [] (by omega)
  simp only [natDec, h1, List.append_nil]
  exact ⟨h2, h3, by rw [h4 0]; omega⟩

theorem parseDec_digits (ds rest : Bytes) (h : ∀ d ∈ ds, isDigit d = true) :
    ∀ a0, Scgi.parseDec (ds ++ colon :: rest) a0 = some (digitsVal ds a0, rest) := by
  induction ds with
  | nil => intro a0; simp [Scgi.parseDec, digitsVal, isDigit, colon]
  | cons d t ih =>
    intro a0
    have hd := h d (by simp)
    simp only [List.cons_append, Scgi.parseDec, hd, ↓reduceIte]
    rw [ih (fun x hx => h x (by simp [hx]))]
    simp [digitsVal]

/-! ### SCGI -/


theorem splitNul_pairs (env : List (Bytes × Bytes)) (h : EnvNulFree env) :
    ∀ fuel, 2 * env.length ≤ fuel →
      Scgi.splitNul fuel (Scgi.pairs env) = some (env.flatMap fun p => [p.1, p.2]) := by
  induction env with
  | nil => intro fuel _; cases fuel <;> simp [Scgi.pairs, Scgi.splitNul]
  | cons p ps ih =>
    intro fuel hf
    obtain ⟨k, v⟩ := p
    have hp := h (k, v) (by simp)
    have hcat : Scgi.pairs ((k, v) :: ps) = k ++ 0 :: (v ++ 0 :: Scgi.pairs ps) := by
      simp [Scgi.pairs, Scgi.pair, List.append_assoc]
    match fuel, hf with
    | f + 2, hf =>
      rw [hcat]
      have e1 : (k ++ 0 :: (v ++ 0 :: Scgi.pairs ps)).isEmpty = false := by
        cases k <;> simp
      have e2 : (v ++ 0 :: Scgi.pairs ps).isEmpty = false := by
        cases v <;> simp
      rw [Scgi.splitNul]
      simp only [e1, Bool.false_eq_true, ↓reduceIte, splitAtByte_append 0 k _ hp.1]
      rw [Scgi.splitNul]
      simp only [e2, Bool.false_eq_true, ↓reduceIte, splitAtByte_append 0 v _ hp.2]
      rw [ih (fun x hx => h x (by simp [hx])) f (by simp only [List.length_cons] at hf; omega)]
      simp

theorem pairUp_flat (env : List (Bytes × Bytes)) :
    Scgi.pairUp (env.flatMap fun p => [p.1, p.2]) = some env := by
  induction env with
  | nil => simp [Scgi.pairUp]
  | cons p ps ih => simp [Scgi.pairUp, ih]

theorem scgi_pairs_length (env : List (Bytes × Bytes)) : 2 * env.length ≤ (Scgi.pairs env).length := by
  induction env with
  | nil => simp [Scgi.pairs]
  | cons p ps ih =>
    have : Scgi.pairs (p :: ps) = Scgi.pair p.1 p.2 ++ Scgi.pairs ps := by simp [Scgi.pairs]
    rw [this, List.length_append, List.length_cons]
    have : 2 ≤ (Scgi.pair p.1 p.2).length := by simp [Scgi.pair]; omega
    omega

theorem scgi_decode_header (env : List (Bytes × Bytes)) (h : EnvNulFree env) (body : Bytes) :
    Scgi.decode (Scgi.encodeHeader env ++ body) =
      some (env ++ [(ofString "SCGI", ofString "1")], body) := by
  have hfull : EnvNulFree (env ++ [(ofString "SCGI", ofString "1")]) := by
    intro p hp
    rcases List.mem_append.mp hp with hp | hp
    · exact h p hp
    · simp only [List.mem_singleton] at hp; rw [hp]
      exact ⟨by show (0 : UInt8) ∉ ofString "SCGI"; decide, by show (0 : UInt8) ∉ ofString "1"; decide⟩
  generalize henv : env ++ [(ofString "SCGI", ofString "1")] = env' at hfull
  obtain ⟨hne, hdig, hval⟩ := natDec_spec (Scgi.pairs env').length
  have hshape : Scgi.encodeHeader env ++ body =
      natDec (Scgi.pairs env').length ++ colon :: (Scgi.pairs env' ++ 44 :: body) := by
    simp [Scgi.encodeHeader, henv, List.append_assoc]
  rw [hshape]
  unfold Scgi.decode
  have hhead : ((natDec (Scgi.pairs env').length ++ colon :: (Scgi.pairs env' ++ 44 :: body)).head?.map
      isDigit).getD false = true := by
    cases hd : natDec (Scgi.pairs env').length with
    | nil => exact absurd hd hne
    | cons a t =>
      have := hdig a (by rw [hd]; simp)
      simp [this]
  simp only [hhead, Bool.not_true, Bool.false_eq_true, ↓reduceIte]
  rw [parseDec_digits _ _ hdig 0, hval]
  simp only
  have hlen : ¬ ((Scgi.pairs env' ++ 44 :: body).length < (Scgi.pairs env').length + 1) := by
    simp only [List.length_append, List.length_cons]; omega
  have hcomma : (Scgi.pairs env' ++ 44 :: body).getD (Scgi.pairs env').length 0 = 44 := by
    simp [List.getD_eq_getElem?_getD]
  simp only [hlen, hcomma, ne_eq, not_true_eq_false, or_self, ↓reduceIte, List.take_left]
  rw [splitNul_pairs env' hfull _ (by have := scgi_pairs_length env'; omega)]
  simp only [pairUp_flat, Option.some.injEq, Prod.mk.injEq, true_and]
  rw [show (Scgi.pairs env').length + 1 = (Scgi.pairs env' ++ [44]).length by simp]
  rw [show Scgi.pairs env' ++ 44 :: body = (Scgi.pairs env' ++ [44]) ++ body by simp]
  exact List.drop_left

/-! ### uwsgi -/

theorem le16_toNat (n : Nat) (h : n ≤ 65535) :
    ((n % 256).toUInt8.toNat + 256 * (n / 256 % 256).toUInt8.toNat) = n := by
  rw [Fcgi.toNat_toUInt8 (by omega), Fcgi.toNat_toUInt8 (by omega)]; omega

theorem uwsgi_addAll_spec (env : List (Bytes × Bytes)) :
    ∀ acc vars, Uwsgi.addAll acc env = some vars →
      vars = acc ++ env.flatMap (fun p => Uwsgi.pair p.1 p.2) ∧
      ∀ p ∈ env, p.1.length ≤ 65535 ∧ p.2.length ≤ 65535 := by
  induction env with
  | nil => intro acc vars h; simp [Uwsgi.addAll] at h; simp [h]
  | cons p ps ih =>
    intro acc vars h
    obtain ⟨k, v⟩ := p
    have hu : Extracted.C09.ushrtMax = 65535 := rfl
    simp only [Uwsgi.addAll, hu] at h
    by_cases hb : k.length > 65535 ∨ v.length > 65535
    · simp [hb] at h
    · simp only [hb, ↓reduceIte] at h
      obtain ⟨h1, h2⟩ := ih _ _ h
      refine ⟨by rw [h1]; simp [List.append_assoc], ?_⟩
      intro q hq
      rcases List.mem_cons.mp hq with rfl | hq
      · show k.length ≤ 65535 ∧ v.length ≤ 65535
        exact ⟨by omega, by omega⟩
      · exact h2 q hq

theorem uwsgi_decodeVars_pair (f : Nat) (k v rest : Bytes) (hk : k.length ≤ 65535) (hv : v.length ≤ 65535) :
    Uwsgi.decodeVars (f + 1) (Uwsgi.pair k v ++ rest) =
      match Uwsgi.decodeVars f rest with
      | some l => some ((k, v) :: l)
      | none => none := by
  have ek := le16_toNat k.length hk
  have ev := le16_toNat v.length hv
  have shape : Uwsgi.pair k v ++ rest =
      (k.length % 256).toUInt8 :: (k.length / 256 % 256).toUInt8 ::
        (k ++ ((v.length % 256).toUInt8 :: (v.length / 256 % 256).toUInt8 :: (v ++ rest))) := by
    simp [Uwsgi.pair, Uwsgi.le16, List.append_assoc]
  rw [shape, Uwsgi.decodeVars]
  simp only [ek]
  have l1 : ¬ ((k ++ ((v.length % 256).toUInt8 :: (v.length / 256 % 256).toUInt8 :: (v ++ rest))).length
      < k.length) := by
    simp only [List.length_append]; omega
  simp only [l1, ↓reduceIte, List.drop_left, ev, List.take_left]
  have l2 : ¬ ((v ++ rest).length < v.length) := by simp only [List.length_append]; omega
  simp only [l2, ↓reduceIte]
  rfl

theorem uwsgi_decodeVars (env : List (Bytes × Bytes))
    (h : ∀ p ∈ env, p.1.length ≤ 65535 ∧ p.2.length ≤ 65535) :
    ∀ fuel, env.length ≤ fuel →
      Uwsgi.decodeVars fuel (env.flatMap fun p => Uwsgi.pair p.1 p.2) = some env := by
  induction env with
  | nil => intro fuel _; cases fuel <;> simp [Uwsgi.decodeVars]
  | cons p ps ih =>
    intro fuel hf
    obtain ⟨k, v⟩ := p
    have hp : k.length ≤ 65535 ∧ v.length ≤ 65535 := h (k, v) (by simp)
    cases fuel with
    | zero => simp at hf
    | succ f =>
      simp only [List.flatMap_cons]
      rw [uwsgi_decodeVars_pair f k v _ hp.1 hp.2,
        ih (fun x hx => h x (by simp [hx])) f (by simpa using hf)]

theorem uwsgi_pairs_length (env : List (Bytes × Bytes)) :
    env.length ≤ (env.flatMap fun p => Uwsgi.pair p.1 p.2).length := by
  induction env with
  | nil => simp
  | cons p ps ih =>
    simp only [List.flatMap_cons, List.length_append, List.length_cons]
    have : 4 ≤ (Uwsgi.pair p.1 p.2).length := by simp [Uwsgi.pair, Uwsgi.le16]; omega
    omega

theorem uwsgi_decode_header (env : List (Bytes × Bytes)) (vars body : Bytes)
    (h : Uwsgi.addAll [] env = some vars) (hfit : vars.length ≤ 65535) :
    Uwsgi.decode (Uwsgi.encodeHeader vars ++ body) = some (env, body) := by
  obtain ⟨h1, h2⟩ := uwsgi_addAll_spec env [] vars h
  simp only [List.nil_append] at h1
  have hl := le16_toNat vars.length hfit
  simp only [Uwsgi.encodeHeader, Uwsgi.le16, List.cons_append, List.nil_append, Uwsgi.decode, hl]
  have l1 : ¬ ((vars ++ body).length < vars.length) := by simp only [List.length_append]; omega
  simp only [ne_eq, not_true_eq_false, l1, or_self, ↓reduceIte, List.take_left, List.drop_left]
  rw [h1, uwsgi_decodeVars env h2 _ (by have := uwsgi_pairs_length env; omega)]

theorem uwsgi_addAll_none (env : List (Bytes × Bytes)) :
    ∀ acc, Uwsgi.addAll acc env = none → ∃ p ∈ env, p.1.length > 65535 ∨ p.2.length > 65535 := by
  induction env with
  | nil => intro acc h; simp [Uwsgi.addAll] at h
  | cons p ps ih =>
    intro acc h
    obtain ⟨k, v⟩ := p
    have hu : Extracted.C09.ushrtMax = 65535 := rfl
    simp only [Uwsgi.addAll, hu] at h
    by_cases hb : k.length > 65535 ∨ v.length > 65535
    · exact ⟨(k, v), by simp, hb⟩
    · simp only [hb, ↓reduceIte] at h
      obtain ⟨q, hq, hq2⟩ := ih _ h
      exact ⟨q, by simp [hq], hq2⟩

/-! ### unframed body hand-over (SCGI, uwsgi, proxy with Content-Length) -/

theorem rawFold_inv (segs : List Bytes) : ∀ st : RawSt,
    (segs.foldl RawSt.arrive st).out ++ (segs.foldl RawSt.arrive st).pending =
      st.out ++ st.pending ++ segs.flatten := by
  induction segs with
  | nil => intro st; simp
  | cons s tl ih =>
    intro st
    simp only [List.foldl_cons, List.flatten_cons]
    rw [ih]
    simp [RawSt.arrive, RawSt.moveAll, List.append_assoc]

theorem rawRun_out (hdr : Bytes) (bodyLen : Int) (seg0 : Bytes) (segs : List Bytes) :
    (RawSt.run hdr bodyLen seg0 segs).out = hdr ++ (seg0 :: segs).flatten := by
  simp only [RawSt.run, RawSt.moveAll]
  rw [rawFold_inv]
  unfold RawSt.startBody
  split <;> simp [List.append_assoc]

theorem rawRun_pending (hdr : Bytes) (bodyLen : Int) (seg0 : Bytes) (segs : List Bytes) :
    (RawSt.run hdr bodyLen seg0 segs).pending = [] := by
  simp [RawSt.run, RawSt.moveAll]

theorem rawFold_reqlen (segs : List Bytes) : ∀ st : RawSt,
    (segs.foldl RawSt.arrive st).reqlen = st.reqlen := by
  induction segs with
  | nil => intro st; rfl
  | cons s tl ih => intro st; simp only [List.foldl_cons]; rw [ih]; simp [RawSt.arrive, RawSt.moveAll]

/-- the gateway's expected request length equals what is queued once the announced body arrived -/
theorem rawRun_reqlen (hdr : Bytes) (seg0 : Bytes) (segs : List Bytes) :
    (RawSt.run hdr (((seg0 :: segs).flatten.length : Nat) : Int) seg0 segs).reqlen =
      ((RawSt.run hdr (((seg0 :: segs).flatten.length : Nat) : Int) seg0 segs).out.length : Int) := by
  rw [rawRun_out]
  simp only [RawSt.run, RawSt.moveAll, rawFold_reqlen]
  unfold RawSt.startBody
  generalize (seg0 :: segs).flatten = body
  by_cases hz : ((body.length : Nat) : Int) = 0
  · have : body.length = 0 := by omega
    simp [this]
  · have hp : ((body.length : Nat) : Int) > 0 := by omega
    simp only [ne_eq, hz, not_false_eq_true, ↓reduceIte, hp, List.length_append]
    push_cast; rfl

/-! ### envp block of mod_cgi -/

theorem envpDecode_encode (env : List (Bytes × Bytes))
    (h : ∀ p ∈ env, (61 : UInt8) ∉ p.1 ∧ NulFree p.1 ∧ NulFree p.2) :
    envpDecode (envpEncode env) = some env := by
  have key : ∀ fuel, env.length ≤ fuel → envpDecodeAux fuel (envpEncode env) = some env := by
    induction env with
    | nil => intro fuel _; cases fuel <;> simp [envpEncode, envpDecodeAux]
    | cons p ps ih =>
      intro fuel hf
      obtain ⟨k, v⟩ := p
      obtain ⟨hk1, hk2, hv⟩ := h (k, v) (by simp)
      cases fuel with
      | zero => simp at hf
      | succ f =>
        have hcat : envpEncode ((k, v) :: ps) = (k ++ 61 :: v) ++ 0 :: envpEncode ps := by
          simp [envpEncode, envpEntry, List.append_assoc]
        have hnul : (0 : UInt8) ∉ (k ++ 61 :: v) := by
          intro hm
          rcases List.mem_append.mp hm with hm | hm
          · exact hk2 hm
          · rcases List.mem_cons.mp hm with hm | hm
            · exact absurd hm (by decide)
            · exact hv hm
        have hne : ((k ++ 61 :: v) ++ 0 :: envpEncode ps).isEmpty = false := by
          cases k <;> simp
        rw [hcat, envpDecodeAux]
        simp only [hne, Bool.false_eq_true, ↓reduceIte, splitAtByte_append 0 _ _ hnul,
          splitAtByte_append 61 k v hk1]
        rw [ih (fun x hx => h x (by simp [hx])) f (by simpa using hf)]
  apply key
  have : env.length ≤ (envpEncode env).length := by
    clear key h
    induction env with
    | nil => simp
    | cons p ps ih =>
      simp only [envpEncode, List.flatMap_cons, List.length_append, List.length_cons] at *
      have : 2 ≤ (envpEntry p.1 p.2).length := by simp [envpEntry]; omega
      omega
  omega

end LtVerif
