/-
  Helper lemmas for C09: scgi_create_env() at buffer level (placeholder, right-aligned length,
  chunk offset) refines the front-to-back encoders of Model/Scgi.lean.
-/
import LtVerif.Proofs.Scgi
namespace LtVerif
open LtVerif B

/-- utostr(): a number below 10^(k+1) has at most k+1 digits -/
theorem decDigitsAux_length_le : ∀ (fuel n : Nat) (acc : Bytes) (k : Nat), n < fuel → n < 10 ^ (k + 1) →
    (decDigitsAux fuel n acc).length ≤ acc.length + k + 1 := by
  intro fuel
  induction fuel with
  | zero => intro n acc k h; omega
  | succ f ih =>
    intro n acc k h hk
    unfold decDigitsAux
    by_cases hz : n / 10 = 0
    · simp only [hz, ↓reduceIte, List.length_cons]; omega
    · simp only [hz, ↓reduceIte]
      cases k with
      | zero => simp at hk; omega
      | succ k' =>
        have h10 : n / 10 < 10 ^ (k' + 1) := by
          rw [Nat.div_lt_iff_lt_mul (by decide)]
          rw [Nat.pow_succ] at hk; exact hk
        have := ih (n / 10) ((48 + (n % 10).toUInt8) :: acc) k' (by omega) h10
        simp only [List.length_cons] at this
        omega

theorem natDec_length_le (n k : Nat) (h : n < 10 ^ (k + 1)) : (natDec n).length ≤ k + 1 := by
  have := decDigitsAux_length_le (n + 1) n [] k (by omega) h
  simpa [natDec] using this

namespace ScgiBuf

theorem poke_placeholder (P tb : Bytes) (h : tb.length ≤ 10) :
    poke (placeholder ++ P) (10 - tb.length) tb = List.replicate (10 - tb.length) 32 ++ tb ++ P := by
  have e : 10 - tb.length + tb.length = 10 := by omega
  unfold poke placeholder
  rw [e]
  rw [List.take_append_of_le_length (by simp), List.take_replicate]
  have : (List.replicate 10 (32 : UInt8) ++ P).drop 10 = P := by
    rw [List.drop_append_of_le_length (by simp)]; simp
  rw [this]
  have : min (10 - tb.length) 10 = 10 - tb.length := by omega
  rw [this]

theorem commit_hidden (k : Nat) (V : Bytes) (bodyLen : Int) (pending : Bytes) :
    (commit (List.replicate k 32 ++ V) k bodyLen pending).st = RawSt.startBody V bodyLen pending ∧
    (commit (List.replicate k 32 ++ V) k bodyLen pending).hidden = List.replicate k 32 ∧
    (commit (List.replicate k 32 ++ V) k bodyLen pending).offset = k ∧
    (commit (List.replicate k 32 ++ V) k bodyLen pending).bytesOut = 0 ∧
    (commit (List.replicate k 32 ++ V) k bodyLen pending).bytesIn =
      ((RawSt.startBody V bodyLen pending).out.length : Int) := by
  have hd : (List.replicate k (32 : UInt8) ++ V).drop k = V := by
    rw [List.drop_append_of_le_length (by simp)]; simp
  have ht : (List.replicate k (32 : UInt8) ++ V).take k = List.replicate k 32 := by
    rw [List.take_append_of_le_length (by simp)]; simp
  have hl : (((List.replicate k (32 : UInt8) ++ V).length : Nat) : Int) - (k : Int) = (V.length : Int) := by
    simp only [List.length_append, List.length_replicate]; omega
  unfold commit RawSt.startBody
  by_cases hb : bodyLen = 0
  · simp only [hb, ne_eq, not_true_eq_false, ↓reduceIte, hd, ht]
    refine ⟨?_, trivial, trivial, by omega, ?_⟩
    · rw [hl]
    · simp only [List.length_append, List.length_replicate]; omega
  · simp only [hb, ne_eq, not_false_eq_true, ↓reduceIte, hd, ht]
    refine ⟨?_, trivial, trivial, by omega, ?_⟩
    · rw [hl]
    · simp only [List.length_append, List.length_replicate]; omega

theorem commit_eq (k : Nat) (V : Bytes) (bodyLen : Int) (pending : Bytes) :
    commit (List.replicate k 32 ++ V) k bodyLen pending =
      { hidden := List.replicate k 32, offset := k,
        bytesIn := ((RawSt.startBody V bodyLen pending).out.length : Int), bytesOut := 0,
        st := RawSt.startBody V bodyLen pending } := by
  obtain ⟨h1, h2, h3, h4, h5⟩ := commit_hidden k V bodyLen pending
  generalize commit (List.replicate k 32 ++ V) k bodyLen pending = s at *
  cases s; simp_all

end ScgiBuf

/-- scgi_env_add_uwsgi() accumulates behind whatever is already in the buffer -/
theorem uwsgi_addAll_prefix (env : List (Bytes × Bytes)) : ∀ (a1 a2 : Bytes),
    Uwsgi.addAll (a1 ++ a2) env = (Uwsgi.addAll a2 env).map (a1 ++ ·) := by
  induction env with
  | nil => intro a1 a2; simp [Uwsgi.addAll]
  | cons p ps ih =>
    intro a1 a2
    obtain ⟨k, v⟩ := p
    simp only [Uwsgi.addAll]
    by_cases hb : k.length > Extracted.C09.ushrtMax ∨ v.length > Extracted.C09.ushrtMax
    · simp [hb]
    · simp only [hb, ↓reduceIte]
      rw [List.append_assoc, ih a1 (a2 ++ Uwsgi.pair k v)]

end LtVerif
