/-
  Helper lemmas for the request-state / connection models (Model/Reset.lean, Model/Server.lean):
  the explicit form of a reset state, and the "frame" lemmas showing that the fields the reset
  functions leave alone are never read before they are written.
-/
import LtVerif.Model.Server
namespace LtVerif.Req
open LtVerif LtVerif.B

/-- replace the fields that both reset functions leave alone -/
def withStale (s : ReqSt) (d : ReqStale) : ReqSt := { s with toReqStale := d }
/-- replace the fields that request_reset() alone leaves alone -/
def withKept (s : ReqSt) (k : ReqKept) : ReqSt := { s with toReqKept := k }

@[simp] theorem withStale_toReqLive (s : ReqSt) (d : ReqStale) : (withStale s d).toReqLive = s.toReqLive := rfl
@[simp] theorem withStale_toReqKept (s : ReqSt) (d : ReqStale) : (withStale s d).toReqKept = s.toReqKept := rfl
@[simp] theorem withStale_toReqStale (s : ReqSt) (d : ReqStale) : (withStale s d).toReqStale = d := rfl
@[simp] theorem withKept_toReqLive (s : ReqSt) (k : ReqKept) : (withKept s k).toReqLive = s.toReqLive := rfl
@[simp] theorem withKept_toReqKept (s : ReqSt) (k : ReqKept) : (withKept s k).toReqKept = k := rfl
@[simp] theorem withKept_toReqStale (s : ReqSt) (k : ReqKept) : (withKept s k).toReqStale = s.toReqStale := rfl

theorem ReqSt.ext3 {a b : ReqSt} (h1 : a.toReqLive = b.toReqLive) (h2 : a.toReqKept = b.toReqKept)
    (h3 : a.toReqStale = b.toReqStale) : a = b := by
  cases a; cases b; simp_all

theorem eq_withStale {a b : ReqSt} (h1 : a.toReqLive = b.toReqLive) (h2 : a.toReqKept = b.toReqKept) :
    a = withStale b a.toReqStale := ReqSt.ext3 h1 h2 rfl

theorem map_none_eq_replicate {α β : Type} (l : List α) (n : Nat) (h : l.length = n) :
    l.map (fun _ => (none : Option β)) = List.replicate n none := by
  subst h; induction l with
  | nil => rfl
  | cons a t ih => simp [List.replicate_succ, ih]

/-! ### explicit form of reset states -/

/-- request_reset() + request_reset_ex() turn *any* state into the initial one, up to the stale fields -/
theorem resetEx_reset_eq (e : SrvEnv) (s : ReqSt) (hp : s.pluginCtx.length = e.nPlugins + 1) :
    requestResetEx (requestReset hdrIds e s) =
      withStale (ReqSt.init e)
        { s.toReqStale with
          physDocRoot := if s.physPathPtr then none else s.physDocRoot,
          physBasedir := if s.physPathPtr then none else s.physBasedir,
          physPathPtr := s.physPathPtr && !s.physPathBig, physPathBig := false } := by
  have hmap := map_none_eq_replicate (β := PCtx) s.pluginCtx _ hp
  by_cases hptr : s.physPathPtr = true <;>
  · apply ReqSt.ext3 <;>
    simp [requestResetEx, requestReset, responseReset, pluginsReset, bodyClear, respUnset, btst, withStale,
          ReqSt.init, hreset, Cq.reset, hmap, hptr]

end LtVerif.Req
