/-
  Helper lemmas for the request-state / connection models (Model/Reset.lean, Model/Server.lean):
  reset restores the core fields, and the response path reads of the remaining fields only what
  it has written itself.
-/
import LtVerif.Model.Server
namespace LtVerif.Req
open LtVerif LtVerif.B

@[simp] theorem ReqCore.onLive_live (s : ReqCore) (f : ReqLive → ReqLive) : (s.onLive f).toReqLive = f s.toReqLive := rfl
@[simp] theorem ReqCore.onLive_kept (s : ReqCore) (f : ReqLive → ReqLive) : (s.onLive f).toReqKept = s.toReqKept := rfl
@[simp] theorem ReqSt.onCore_core (s : ReqSt) (f : ReqCore → ReqCore) : (s.onCore f).toReqCore = f s.toReqCore := rfl
@[simp] theorem ReqSt.onCore_stale (s : ReqSt) (f : ReqCore → ReqCore) : (s.onCore f).toReqStale = s.toReqStale := rfl
@[simp] theorem ReqSt.onLive_core (s : ReqSt) (f : ReqLive → ReqLive) : (s.onLive f).toReqCore = s.toReqCore.onLive f := rfl
@[simp] theorem ReqSt.onLive_stale (s : ReqSt) (f : ReqLive → ReqLive) : (s.onLive f).toReqStale = s.toReqStale := rfl

theorem ReqCore.ext2 {a b : ReqCore} (h1 : a.toReqLive = b.toReqLive) (h2 : a.toReqKept = b.toReqKept) : a = b := by
  cases a; cases b; simp_all

/-- pointwise relation between two lists of the same length -/
inductive Forall2 {α β : Type} (R : α → β → Prop) : List α → List β → Prop
  | nil : Forall2 R [] []
  | cons {a b l₁ l₂} : R a b → Forall2 R l₁ l₂ → Forall2 R (a :: l₁) (b :: l₂)

/-! ### reset restores the core fields -/

theorem bodyClear_reset_live (l : ReqLive) :
    bodyClear hdrIds { l with respHtags := [], respHeaderLen := 0, respHeaderRepeated := false, respHeaders := [] } false
      = { l with respHtags := [], respHeaderLen := 0, respHeaderRepeated := false, respHeaders := [],
                 respBodyFinished := false, respBodyStarted := false, respSendChunked := false,
                 respBodyScratchpad := -1, respDecodeChunked := false, gwDechunk := false,
                 writeQueue := {} } := by
  simp [bodyClear, btst, Cq.reset]

/-- request_reset(): every `ReqLive` field has its initial value afterwards, whatever the state was -/
theorem requestReset_live (e : SrvEnv) (s : ReqSt) :
    (requestReset hdrIds e s).toReqLive = (ReqSt.init e).toReqLive := by
  unfold requestReset responseReset
  by_cases hptr : s.physPathPtr = true <;>
    simp [hptr, ReqSt.onLive, ReqSt.onCore, ReqCore.onLive, pluginsReset, hreset, bodyClear, btst, Cq.reset, ReqSt.init]

/-- request_reset_ex() restores the `ReqKept` fields (and leaves the others alone, up to
    target / pathinfo which request_reset() has cleared already) -/
theorem requestResetEx_core (e : SrvEnv) (s : ReqSt) (h : s.toReqLive = (ReqSt.init e).toReqLive) :
    (requestResetEx s).toReqCore = (ReqSt.init e).toReqCore := by
  apply ReqCore.ext2
  · have h1 : s.target = none := by have := congrArg ReqLive.target h; simpa [ReqSt.init] using this
    have h2 : s.pathinfo = none := by have := congrArg ReqLive.pathinfo h; simpa [ReqSt.init] using this
    rw [← h]
    unfold requestResetEx
    cases s with | mk c d => cases c with | mk l k => cases l; simp_all
  · simp [requestResetEx, ReqSt.init]

/-- **request_reset() + request_reset_ex() restore every core field**, whatever the state was -/
theorem reset_core (e : SrvEnv) (s : ReqSt) :
    (requestResetEx (requestReset hdrIds e s)).toReqCore = (ReqSt.init e).toReqCore :=
  requestResetEx_core e _ (requestReset_live e s)

theorem requestRelease_core (e : SrvEnv) (s : ReqSt) :
    (requestRelease hdrIds e s).toReqCore = (ReqSt.init e).toReqCore := by
  unfold requestRelease
  simp only []
  have := reset_core e { s with readQueue := s.readQueue.reset }
  simpa using this

/-! ### error_handler_saved_status is not changed before http_response_has_error_handler() looks at it -/

@[simp] theorem respSet_ehs (s : ReqLive) (id k v) : (respSet s id k v).errorHandlerSavedStatus = s.errorHandlerSavedStatus := rfl
@[simp] theorem respUnset_ehs (s : ReqLive) (id k) : (respUnset s id k).errorHandlerSavedStatus = s.errorHandlerSavedStatus := by
  unfold respUnset; split <;> rfl
@[simp] theorem respAppend_ehs (s : ReqLive) (id k v) : (respAppend s id k v).errorHandlerSavedStatus = s.errorHandlerSavedStatus := by
  unfold respAppend; split <;> rfl
@[simp] theorem bodyClear_ehs (s : ReqLive) (p) : (bodyClear hdrIds s p).errorHandlerSavedStatus = s.errorHandlerSavedStatus := by
  unfold bodyClear; simp only []; repeat' split
  all_goals simp
@[simp] theorem optionsStar_ehs (s : ReqLive) : (optionsStar s).errorHandlerSavedStatus = s.errorHandlerSavedStatus := by
  simp [optionsStar]
@[simp] theorem errorClose_ehs (s : ReqLive) (st) : (errorClose s st).errorHandlerSavedStatus = s.errorHandlerSavedStatus := rfl
@[simp] theorem sendFile_ehs (s : ReqLive) (a b c) : (sendFile s a b c).errorHandlerSavedStatus = s.errorHandlerSavedStatus := by
  unfold sendFile; simp only []; repeat' split
  all_goals simp
@[simp] theorem noHandler_ehs (s : ReqLive) : (noHandler s).errorHandlerSavedStatus = s.errorHandlerSavedStatus := by
  unfold noHandler; repeat' split
  all_goals simp
@[simp] theorem setenvUriClean_ehs (s : ReqLive) : (setenvUriClean s).errorHandlerSavedStatus = s.errorHandlerSavedStatus := by
  unfold setenvUriClean; split <;> simp [pctxSet]
@[simp] theorem httpResponseConfig_ehs (site) (s : ReqCore) :
    (httpResponseConfig site s).errorHandlerSavedStatus = s.errorHandlerSavedStatus := rfl
@[simp] theorem storeError_ehs (s : ReqLive) (a b c) : (storeError s a b c).errorHandlerSavedStatus = s.errorHandlerSavedStatus := rfl
@[simp] theorem storeParsed_ehs (s : ReqCore) (a b c d f g h) :
    (storeParsed s a b c d f g h).errorHandlerSavedStatus = s.errorHandlerSavedStatus := rfl

theorem subrequestStart_ehs (site) (s : ReqCore) :
    (subrequestStart site s).errorHandlerSavedStatus = s.errorHandlerSavedStatus := by
  unfold subrequestStart; simp only []; repeat' split
  all_goals simp [ReqCore.onLive]

/-- either outcome of `prepareSetup` -/
def exGet : Except ReqCore ReqCore → ReqCore
  | .error t => t
  | .ok t => t

theorem prepareSetup_ehs (site) (s : ReqCore) :
    (exGet (prepareSetup site s)).errorHandlerSavedStatus = s.errorHandlerSavedStatus := by
  unfold prepareSetup; simp only []; repeat' split
  all_goals simp [exGet, ReqCore.onLive]

theorem prepareServe_ehs (site) (s : ReqCore) :
    (prepareServe site s).errorHandlerSavedStatus = s.errorHandlerSavedStatus := by
  unfold prepareServe; simp only []; repeat' split
  all_goals simp_all [ReqCore.onLive, subrequestStart_ehs]

theorem responsePrepare_ehs (site) (s : ReqCore) :
    (responsePrepare site s).errorHandlerSavedStatus = s.errorHandlerSavedStatus := by
  have h := prepareSetup_ehs site s
  unfold responsePrepare
  split
  · split <;> simp [ReqCore.onLive]
  · split
    · rename_i t ht; rw [ht] at h; exact h
    · rename_i t ht; rw [ht] at h; rw [prepareServe_ehs]; exact h

/-! ### the saved method of the error handler is only looked at while the saved status is set -/

theorem hasErrorHandler_irrel (m1 m2 : Int) (s : ReqLive) (h : s.errorHandlerSavedStatus = 0) :
    hasErrorHandler m1 s = hasErrorHandler m2 s := by
  simp [hasErrorHandler, h]

theorem preWrite_irrel (m1 m2 : Int) (s : ReqLive) (h : s.errorHandlerSavedStatus = 0) :
    preWrite m1 s = preWrite m2 s := by
  unfold preWrite
  simp only []
  split
  · rw [hasErrorHandler_irrel m1 m2 _ (by simpa using h)]
  · rw [hasErrorHandler_irrel m1 m2 _ h]

theorem prepared_ehs (site) (s : ReqCore) : (prepared site s).errorHandlerSavedStatus = s.errorHandlerSavedStatus := by
  unfold prepared; split
  · simp [ReqCore.onLive]
  · exact responsePrepare_ehs site s

theorem respondC_live (site : Site) (m : Int) (s : ReqCore) :
    (respondC site m s).toReqLive = writePrepare (preWrite m (prepared site s).toReqLive) := by
  unfold respondC
  simp only []
  split <;> rfl

theorem respondC_kept (site : Site) (m1 m2 : Int) (s : ReqCore) (h : s.errorHandlerSavedStatus = 0) :
    respondC site m1 s = respondC site m2 s := by
  have he : (prepared site s).toReqLive.errorHandlerSavedStatus = 0 := by
    have := prepared_ehs site s; simpa [h] using this
  have hp := preWrite_irrel m1 m2 _ he
  unfold respondC
  simp only []
  rw [hp]

/-- an error decided before http_response_prepare() (status > 200): the response does not look
    at the `ReqKept` fields -/
theorem prepared_err_live (site : Site) (c1 c2 : ReqCore) (h : c1.toReqLive = c2.toReqLive)
    (hs : c1.httpStatus > 200) : (prepared site c1).toReqLive = (prepared site c2).toReqLive := by
  have hs2 : c2.httpStatus > 200 := by
    have : c1.httpStatus = c2.httpStatus := congrArg ReqLive.httpStatus h
    omega
  have hh : c1.handlerModule = c2.handlerModule := congrArg ReqLive.handlerModule h
  have hf : c1.respBodyFinished = c2.respBodyFinished := congrArg ReqLive.respBodyFinished h
  unfold prepared responsePrepare
  simp only [hs, hs2, hh, hf, if_true]
  split
  · simp [h]
  · split <;> simp [h]

theorem respondC_err_live (site : Site) (m : Int) (c1 c2 : ReqCore) (h : c1.toReqLive = c2.toReqLive)
    (hs : c1.httpStatus > 200) : (respondC site m c1).toReqLive = (respondC site m c2).toReqLive := by
  rw [respondC_live, respondC_live, prepared_err_live site c1 c2 h hs]

/-! ### the keep-alive decision only shows in the Connection header -/

/-- the header part of `Out.core` computed from the response header array -/
def coreHeaders (hs : HList) : List (Bytes × Bytes) :=
  (((hs.filter fun e => !e.2.1.isEmpty && !e.2.2.isEmpty).map fun e => (e.2.1, e.2.2)).filter
      fun kv => kv.1.map toLower ≠ ofString "connection").map fun kv => (kv.1.map toLower, kv.2)

theorem lower_Connection : (ofString "Connection").map toLower = ofString "connection" := by decide

theorem coreHeaders_cons_conn (e : HId × Bytes × Bytes) (rest : HList)
    (h : e.2.1.map toLower = ofString "connection") : coreHeaders (e :: rest) = coreHeaders rest := by
  unfold coreHeaders
  by_cases hne : (!e.2.1.isEmpty && !e.2.2.isEmpty) = true
  · simp [List.filter_cons, hne, h]
  · simp [List.filter_cons, hne]

theorem coreHeaders_cons_congr (e e' : HId × Bytes × Bytes) (r r' : HList)
    (h : coreHeaders r = coreHeaders r') (he : e.2 = e'.2) : coreHeaders (e :: r) = coreHeaders (e' :: r') := by
  unfold coreHeaders at *
  simp only [List.filter_cons, he]
  split
  · simp only [List.map_cons, List.filter_cons]
    split <;> simp_all
  · exact h

theorem coreHeaders_hupdate_conn (a : HList) (f : Bytes → Bytes) :
    coreHeaders (hupdate a idConnection (ofString "Connection") f) = coreHeaders a := by
  unfold hupdate
  split
  · rename_i hany; clear hany
    induction a with
    | nil => rfl
    | cons e rest ih =>
      simp only [List.map_cons]
      split
      · rename_i hc
        have hk : e.2.1.map toLower = ofString "connection" := by
          have := hc.2; simp [eqIcase, lower_Connection] at this; exact this
        rw [coreHeaders_cons_conn _ _ hk, coreHeaders_cons_conn _ _ (by simpa using hk), ih]
      · exact coreHeaders_cons_congr _ _ _ _ ih rfl
  · rename_i hany; clear hany
    induction a with
    | nil => simp [coreHeaders, lower_Connection]
    | cons e rest ih =>
      simp only [List.cons_append]
      exact coreHeaders_cons_congr _ _ _ _ ih rfl

theorem core_h1Output (l : ReqLive) : (h1Output l).core = (l.httpStatus, coreHeaders l.respHeaders, l.writeQueue.data) := by
  simp [Out.core, h1Output, headerLines, coreHeaders]

set_option maxRecDepth 100000 in
theorem toLower_idem_nat : ∀ n, n < 256 → toLower (toLower (UInt8.ofNat n)) = toLower (UInt8.ofNat n) := by decide

theorem toLower_idem (b : UInt8) : toLower (toLower b) = toLower b := by
  have := toLower_idem_nat b.toNat (UInt8.toNat_lt b)
  simpa using this

theorem map_toLower_idem (k : Bytes) : (k.map toLower).map toLower = k.map toLower := by
  simp [List.map_map, Function.comp_def, toLower_idem]

theorem core_h2Output (l : ReqLive) : (h2Output l).core = (l.httpStatus, coreHeaders l.respHeaders, l.writeQueue.data) := by
  simp only [Out.core, h2Output, headerLines, coreHeaders, Prod.mk.injEq, true_and, and_true]
  generalize (List.filter (fun e => !e.2.1.isEmpty && !e.2.2.isEmpty) l.respHeaders) = hs
  induction hs with
  | nil => rfl
  | cons e rest ih =>
    simp only [List.map_cons, List.filter_cons, map_toLower_idem]
    split <;> simp_all [toLower_idem]

/-- h1_send_headers() changes nothing of the comparable part of the response -/
theorem core_h1SendHeaders (n : Nat) (l : ReqLive) : (h1Output (h1SendHeaders n l)).core = (h1Output l).core := by
  simp only [core_h1Output]
  unfold h1SendHeaders
  simp only []
  repeat' split
  all_goals simp [respSet, coreHeaders_hupdate_conn]

/-! ### parsing: only the core fields of the request object matter, and error_handler_saved_status
    is not touched -/

def IntoRes.map {σ τ : Type} (f : σ → τ) : IntoRes σ → IntoRes τ
  | .incomplete => .incomplete
  | .blank => .blank
  | .skipV6 => .skipV6
  | .done s => .done (f s)

theorem liftInto_map (s : ReqSt) (r : IntoRes ReqCore) : (liftInto s r).map (·.toReqCore) = r := by
  cases r <;> rfl

theorem parseIntoH1_core (s : ReqSt) (b : Bytes) :
    (parseIntoH1 s b).map (·.toReqCore) = parseIntoH1C s.toReqCore b := liftInto_map _ _

theorem parseIntoH2_core (s : ReqSt) (fs : List (Bytes × Bytes)) (es : Bool) :
    (parseIntoH2 s fs es).map (·.toReqCore) = parseIntoH2C s.toReqCore fs es := liftInto_map _ _

/-- the parsed request: `some` iff the head was consumed -/
def IntoRes.done? {σ : Type} : IntoRes σ → Option σ
  | .done s => some s
  | _ => none

theorem parseIntoH1C_ehs (s c : ReqCore) (b : Bytes) (h : (parseIntoH1C s b).done? = some c) :
    c.errorHandlerSavedStatus = s.errorHandlerSavedStatus := by
  unfold parseIntoH1C at h
  simp only [] at h
  repeat' split at h
  all_goals simp_all [IntoRes.done?, ReqCore.onLive]
  all_goals (try (subst h; rfl))

theorem parseIntoH2C_ehs (s c : ReqCore) (fs : List (Bytes × Bytes)) (es : Bool)
    (h : (parseIntoH2C s fs es).done? = some c) :
    c.errorHandlerSavedStatus = s.errorHandlerSavedStatus := by
  unfold parseIntoH2C at h
  simp only [] at h
  repeat' split at h
  all_goals simp_all [IntoRes.done?, ReqCore.onLive]
  all_goals (try (subst h; rfl))

/-! ### one request on an HTTP/1.x connection -/

/-- what holds of the request object of a connection between two requests -/
def ConnInv (e : SrvEnv) (c : Conn) : Prop :=
  c.r.toReqLive = (ReqSt.init e).toReqLive ∧ (c.requestCount = 0 → c.r.toReqKept = (ReqSt.init e).toReqKept)

/-- comparable part of the response computed from the core state a request head was parsed into -/
def coreAnswer (site : Site) (c : ReqCore) : Int × List (Bytes × Bytes) × Bytes :=
  (h1Output (respondC site 0 c).toReqLive).core

theorem respond_core (site : Site) (s : ReqSt) :
    (respond site s).toReqCore = respondC site s.errorHandlerSavedMethod s.toReqCore := rfl

theorem h1Finish_core (site : Site) (e : SrvEnv) (count : Nat) (r1 : ReqSt)
    (h0 : r1.errorHandlerSavedStatus = 0) (hc : count ≠ 0) :
    ((h1Finish site e count r1).2).map Out.core = some (coreAnswer site r1.toReqCore) ∧
    ConnInv e (h1Finish site e count r1).1 := by
  have hout : (h1Output ((respond site r1).onLive (h1SendHeaders count)).toReqLive).core
      = coreAnswer site r1.toReqCore := by
    show (h1Output (h1SendHeaders count (respond site r1).toReqLive)).core = _
    rw [core_h1SendHeaders]
    show (h1Output (respond site r1).toReqCore.toReqLive).core = _
    rw [respond_core, respondC_kept site _ 0 _ h0]
    rfl
  unfold h1Finish
  simp only []
  split
  · refine ⟨?_, ?_, ?_⟩
    · simp only [Option.map_some]; rw [← hout]; rfl
    · exact requestReset_live e _
    · intro h; exact absurd h hc
  · refine ⟨?_, ?_, ?_⟩
    · simp only [Option.map_some]; rw [← hout]; rfl
    · have := reset_core e ((respond site r1).onLive (h1SendHeaders count))
      exact congrArg ReqCore.toReqLive this
    · intro _
      have := reset_core e ((respond site r1).onLive (h1SendHeaders count))
      exact congrArg ReqCore.toReqKept this

theorem ConnInv_closed (e : SrvEnv) (r : ReqSt) :
    ConnInv e { r := { requestResetEx (requestReset hdrIds e r) with state := 0 }, requestCount := 0, isOpen := false } :=
  ⟨congrArg ReqCore.toReqLive (reset_core e r), fun _ => congrArg ReqCore.toReqKept (reset_core e r)⟩

/-- the live fields of a request rejected by the size limit of h1_recv_headers() -/
def live431 (e : SrvEnv) : ReqLive := { (ReqSt.init e).toReqLive with httpStatus := 431, keepAlive := 0 }

theorem h1Parse_core (e : SrvEnv) (c : Conn) (hinv : ConnInv e c) (head : Bytes) :
    (h1Parse c head).map (·.toReqCore) =
      match recvHead e.defaults.maxRequestFieldSize head with
      | .tooLarge => .done { toReqLive := live431 e, toReqKept := c.r.toReqKept }
      | .head _ _ => parseIntoH1C (ReqSt.init e).toReqCore head
      | .incomplete => .incomplete
      | .blank _ => .blank := by
  obtain ⟨hl, hk⟩ := hinv
  have hl0 : (c.r.onLive fun l => { l with loopsPerRequest := 0 }).toReqLive = (ReqSt.init e).toReqLive := by
    show ({ c.r.toReqLive with loopsPerRequest := 0 } : ReqLive) = _
    rw [hl]; rfl
  have hconf : (c.r.onLive fun l => { l with loopsPerRequest := 0 }).conf.maxRequestFieldSize
      = e.defaults.maxRequestFieldSize := by
    have := congrArg (fun l : ReqLive => l.conf.maxRequestFieldSize) hl0
    simpa [ReqSt.init] using this
  unfold h1Parse
  simp only [hconf]
  cases hr : recvHead e.defaults.maxRequestFieldSize head with
  | tooLarge =>
    simp only [IntoRes.map]
    congr 1
    apply ReqCore.ext2
    · show ({ (c.r.onLive fun l => { l with loopsPerRequest := 0 }).toReqLive with httpStatus := 431, keepAlive := 0 } : ReqLive) = _
      rw [hl0]; rfl
    · rfl
  | head lines len =>
    simp only []
    rw [parseIntoH1_core]
    congr 1
    by_cases hcnt : c.requestCount = 0
    · have : ¬ (c.requestCount + 1 > 1) := by omega
      simp only [this, if_false]
      apply ReqCore.ext2
      · exact hl0
      · exact hk hcnt
    · have : c.requestCount + 1 > 1 := by omega
      simp only [this, if_true]
      exact requestResetEx_core e _ hl0
  | incomplete => rfl
  | blank n => rfl

/-- the comparable part of the answer to a request head as a function of the head, the site and
    the configuration alone (`none`: the head is incomplete / only a blank line) -/
def expectedAnswer (site : Site) (e : SrvEnv) (head : Bytes) : Option (Int × List (Bytes × Bytes) × Bytes) :=
  match recvHead e.defaults.maxRequestFieldSize head with
  | .tooLarge => some (coreAnswer site { toReqLive := live431 e, toReqKept := (ReqSt.init e).toReqKept })
  | .head _ _ => ((parseIntoH1C (ReqSt.init e).toReqCore head).done?).map (coreAnswer site)
  | .incomplete => none
  | .blank _ => none

theorem coreAnswer_431 (site : Site) (e : SrvEnv) (k1 k2 : ReqKept) :
    coreAnswer site { toReqLive := live431 e, toReqKept := k1 } = coreAnswer site { toReqLive := live431 e, toReqKept := k2 } := by
  unfold coreAnswer
  rw [respondC_err_live site 0 { toReqLive := live431 e, toReqKept := k1 } { toReqLive := live431 e, toReqKept := k2 } rfl
        (by simp [live431])]

theorem IntoRes.map_done? {σ τ : Type} (f : σ → τ) (r : IntoRes σ) : (r.map f).done? = r.done?.map f := by
  cases r <;> rfl

/-- **one request on a connection whose request object satisfies the invariant**: the answer is
    `expectedAnswer`, and the invariant holds again afterwards -/
theorem h1Msg_answer (site : Site) (e : SrvEnv) (c : Conn) (hinv : ConnInv e c) (hopen : c.isOpen = true)
    (head : Bytes) :
    ((h1Msg site e c head).2).map Out.core = expectedAnswer site e head ∧ ConnInv e (h1Msg site e c head).1 := by
  have hp := h1Parse_core e c hinv head
  have hp' := congrArg IntoRes.done? hp
  rw [IntoRes.map_done?] at hp'
  unfold h1Msg
  simp only [hopen, Bool.not_true, Bool.false_eq_true, if_false]
  unfold expectedAnswer
  cases hparse : h1Parse c head with
  | done r1 =>
    have hq : some r1.toReqCore = IntoRes.done?
        (match recvHead e.defaults.maxRequestFieldSize head with
         | .tooLarge => .done { toReqLive := live431 e, toReqKept := c.r.toReqKept }
         | .head _ _ => parseIntoH1C (ReqSt.init e).toReqCore head
         | .incomplete => .incomplete
         | .blank _ => .blank) := by rw [hparse] at hp'; exact hp'
    clear hp'
    have h0 : r1.errorHandlerSavedStatus = 0 := by
      show r1.toReqCore.errorHandlerSavedStatus = 0
      cases hr : recvHead e.defaults.maxRequestFieldSize head with
      | tooLarge =>
        simp only [hr] at hq
        have : r1.toReqCore = { toReqLive := live431 e, toReqKept := c.r.toReqKept } := Option.some.inj hq
        rw [this]; simp [live431, ReqSt.init]
      | head lines len =>
        simp only [hr] at hq
        rw [parseIntoH1C_ehs _ _ _ hq.symm]; simp [ReqSt.init]
      | incomplete => simp only [hr] at hq; exact absurd hq (by simp [IntoRes.done?])
      | blank n => simp only [hr] at hq; exact absurd hq (by simp [IntoRes.done?])
    have hf := h1Finish_core site e (c.requestCount + 1) r1 h0 (by omega)
    refine ⟨?_, hf.2⟩
    rw [hf.1]
    cases hr : recvHead e.defaults.maxRequestFieldSize head with
    | tooLarge =>
      simp only [hr] at hq
      have : r1.toReqCore = { toReqLive := live431 e, toReqKept := c.r.toReqKept } := Option.some.inj hq
      simp only []
      rw [this]
      exact congrArg some (coreAnswer_431 site e _ _)
    | head lines len =>
      simp only [hr] at hq
      simp only []
      rw [← hq]; rfl
    | incomplete => simp only [hr] at hq; exact absurd hq (by simp [IntoRes.done?])
    | blank n => simp only [hr] at hq; exact absurd hq (by simp [IntoRes.done?])
  | incomplete =>
    have hq : none = IntoRes.done?
        (match recvHead e.defaults.maxRequestFieldSize head with
         | .tooLarge => .done { toReqLive := live431 e, toReqKept := c.r.toReqKept }
         | .head _ _ => parseIntoH1C (ReqSt.init e).toReqCore head
         | .incomplete => .incomplete
         | .blank _ => .blank) := by rw [hparse] at hp'; exact hp'
    refine ⟨?_, ConnInv_closed e c.r⟩
    cases hr : recvHead e.defaults.maxRequestFieldSize head with
    | tooLarge => simp only [hr] at hq; exact absurd hq (by simp [IntoRes.done?])
    | head lines len => simp only [hr] at hq; simp only []; rw [← hq]; rfl
    | incomplete => rfl
    | blank n => rfl
  | blank =>
    have hq : none = IntoRes.done?
        (match recvHead e.defaults.maxRequestFieldSize head with
         | .tooLarge => .done { toReqLive := live431 e, toReqKept := c.r.toReqKept }
         | .head _ _ => parseIntoH1C (ReqSt.init e).toReqCore head
         | .incomplete => .incomplete
         | .blank _ => .blank) := by rw [hparse] at hp'; exact hp'
    refine ⟨?_, ConnInv_closed e c.r⟩
    cases hr : recvHead e.defaults.maxRequestFieldSize head with
    | tooLarge => simp only [hr] at hq; exact absurd hq (by simp [IntoRes.done?])
    | head lines len => simp only [hr] at hq; simp only []; rw [← hq]; rfl
    | incomplete => rfl
    | blank n => rfl
  | skipV6 =>
    have hq : none = IntoRes.done?
        (match recvHead e.defaults.maxRequestFieldSize head with
         | .tooLarge => .done { toReqLive := live431 e, toReqKept := c.r.toReqKept }
         | .head _ _ => parseIntoH1C (ReqSt.init e).toReqCore head
         | .incomplete => .incomplete
         | .blank _ => .blank) := by rw [hparse] at hp'; exact hp'
    refine ⟨?_, ConnInv_closed e c.r⟩
    cases hr : recvHead e.defaults.maxRequestFieldSize head with
    | tooLarge => simp only [hr] at hq; exact absurd hq (by simp [IntoRes.done?])
    | head lines len => simp only [hr] at hq; simp only []; rw [← hq]; rfl
    | incomplete => rfl
    | blank n => rfl

theorem ConnInv_fresh (e : SrvEnv) : ConnInv e (Conn.fresh e) := ⟨rfl, fun _ => rfl⟩

/-! ### one HTTP/2 stream on a pooled request object -/

theorem h2InitStream_core (h2r : ReqSt) (swin : Nat) (p q : ReqSt) (h : p.toReqCore = q.toReqCore) :
    (h2InitStream h2r swin p).toReqCore = (h2InitStream h2r swin q).toReqCore := by
  have hl : p.toReqLive = q.toReqLive := congrArg ReqCore.toReqLive h
  have hk : p.toReqKept = q.toReqKept := congrArg ReqCore.toReqKept h
  unfold h2InitStream
  apply ReqCore.ext2
  · show ({ p.toReqLive with x1 := _, x2 := _, version := 2, conf := h2r.conf } : ReqLive) = _
    rw [hl]
  · show ({ p.toReqKept with serverName := _ } : ReqKept) = _
    rw [hk]

theorem h2InitStream_ehs (h2r : ReqSt) (swin : Nat) (p : ReqSt) :
    (h2InitStream h2r swin p).errorHandlerSavedStatus = p.errorHandlerSavedStatus := rfl

/-- the comparable part of the answer to a HEADERS block as a function of the header fields, the
    site and the connection-level configuration state `h2r` alone -/
def expectedAnswerH2 (site : Site) (e : SrvEnv) (h2r : ReqSt) (swin : Nat) (fs : List (Bytes × Bytes))
    (es : Bool) : Option (Int × List (Bytes × Bytes) × Bytes) :=
  ((parseIntoH2C (h2InitStream h2r swin (ReqSt.init e)).toReqCore fs es).done?).map (coreAnswer site)

theorem h2Stream_answer (site : Site) (e : SrvEnv) (h2r : ReqSt) (swin : Nat) (pooled : ReqSt)
    (hp : pooled.toReqCore = (ReqSt.init e).toReqCore) (fs : List (Bytes × Bytes)) (es : Bool) :
    ((h2Stream site e h2r swin pooled fs es).2).map Out.core = expectedAnswerH2 site e h2r swin fs es ∧
    (h2Stream site e h2r swin pooled fs es).1.toReqCore = (ReqSt.init e).toReqCore := by
  have hc := h2InitStream_core h2r swin pooled (ReqSt.init e) hp
  have hparse := parseIntoH2_core (h2InitStream h2r swin pooled) fs es
  rw [hc] at hparse
  have hq := congrArg IntoRes.done? hparse
  rw [IntoRes.map_done?] at hq
  unfold h2Stream expectedAnswerH2
  simp only []
  cases hr : parseIntoH2 (h2InitStream h2r swin pooled) fs es with
  | done r1 =>
    have hq' : some r1.toReqCore = (parseIntoH2C (h2InitStream h2r swin (ReqSt.init e)).toReqCore fs es).done? := by
      rw [hr] at hq; exact hq
    have h0 : r1.errorHandlerSavedStatus = 0 := by
      show r1.toReqCore.errorHandlerSavedStatus = 0
      rw [parseIntoH2C_ehs _ _ _ _ hq'.symm]
      show (h2InitStream h2r swin (ReqSt.init e)).errorHandlerSavedStatus = 0
      rw [h2InitStream_ehs]; simp [ReqSt.init]
    refine ⟨?_, requestRelease_core e _⟩
    simp only [Option.map_some]
    rw [← hq']
    simp only [Option.map_some]
    congr 1
    rw [core_h2Output]
    show _ = (h1Output (respondC site 0 r1.toReqCore).toReqLive).core
    rw [core_h1Output]
    show ((respond site r1).toReqCore.toReqLive.httpStatus, coreHeaders (respond site r1).toReqCore.toReqLive.respHeaders,
          (respond site r1).toReqCore.toReqLive.writeQueue.data) = _
    rw [respond_core, respondC_kept site _ 0 _ h0]
  | incomplete =>
    refine ⟨?_, requestRelease_core e _⟩
    have : none = (parseIntoH2C (h2InitStream h2r swin (ReqSt.init e)).toReqCore fs es).done? := by
      rw [hr] at hq; exact hq
    rw [← this]; rfl
  | blank =>
    refine ⟨?_, requestRelease_core e _⟩
    have : none = (parseIntoH2C (h2InitStream h2r swin (ReqSt.init e)).toReqCore fs es).done? := by
      rw [hr] at hq; exact hq
    rw [← this]; rfl
  | skipV6 =>
    refine ⟨?_, requestRelease_core e _⟩
    have : none = (parseIntoH2C (h2InitStream h2r swin (ReqSt.init e)).toReqCore fs es).done? := by
      rw [hr] at hq; exact hq
    rw [← this]; rfl

end LtVerif.Req
