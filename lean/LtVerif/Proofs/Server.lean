/-
  Helper lemmas for the request-state / connection models (Model/Reset.lean, Model/Server.lean):
  reset restores the core fields, and the response path reads of the remaining fields only what
  it has written itself.
-/
import LtVerif.Model.Server
import LtVerif.Proofs.H1Parse
namespace LtVerif.Req
open LtVerif LtVerif.B

@[simp] theorem ReqCore.onLive_live (s : ReqCore) (f : ReqLive → ReqLive) : (s.onLive f).toReqLive = f s.toReqLive := rfl
@[simp] theorem ReqCore.onLive_kept (s : ReqCore) (f : ReqLive → ReqLive) : (s.onLive f).toReqKept = s.toReqKept := rfl
@[simp] theorem ReqSt.onCore_core (s : ReqSt) (f : ReqCore → ReqCore) : (s.onCore f).toReqCore = f s.toReqCore := rfl
@[simp] theorem ReqSt.onCore_stale (s : ReqSt) (f : ReqCore → ReqCore) : (s.onCore f).toReqStale = s.toReqStale := rfl
@[simp] theorem ReqSt.onLive_core (s : ReqSt) (f : ReqLive → ReqLive) : (s.onLive f).toReqCore = s.toReqCore.onLive f := rfl
@[simp] theorem ReqSt.onLive_stale (s : ReqSt) (f : ReqLive → ReqLive) : (s.onLive f).toReqStale = s.toReqStale := rfl

theorem ReqCore.ext2 {a b : ReqCore} (h1 : a.toReqLive = b.toReqLive) (h2 : a.toReqKept = b.toReqKept) : a = b := by
  cases a; cases b; simp_all

/-- pointwise relation between two lists of the same length -/
inductive Forall2 {α β : Type} (R : α → β → Prop) : List α → List β → Prop
  | nil : Forall2 R [] []
  | cons {a b l₁ l₂} : R a b → Forall2 R l₁ l₂ → Forall2 R (a :: l₁) (b :: l₂)

/-! ### reset restores the core fields -/

theorem bodyClear_reset_live (l : ReqLive) :
    bodyClear hdrIds { l with respHtags := [], respHeaderLen := 0, respHeaderRepeated := false, respHeaders := [] } false
      = { l with respHtags := [], respHeaderLen := 0, respHeaderRepeated := false, respHeaders := [],
                 respBodyFinished := false, respBodyStarted := false, respSendChunked := false,
                 respBodyScratchpad := -1, respDecodeChunked := false, gwDechunk := false,
                 writeQueue := {} } := by
  simp [bodyClear, btst, Cq.reset]

/-- every plugin_ctx slot in use belongs to a module whose handle_request_reset hook clears it -/
def SlotsOk (e : SrvEnv) (l : List (Nat × PCtx)) : Prop := ∀ p ∈ l, p.1 ∈ e.resetHooks

theorem SlotsOk.filter_nil {e : SrvEnv} {l : List (Nat × PCtx)} (h : SlotsOk e l) :
    l.filter (fun p => !e.resetHooks.contains p.1) = [] := by
  apply List.filter_eq_nil_iff.mpr
  intro p hp
  simp [h p hp]

theorem SlotsOk.nil (e : SrvEnv) : SlotsOk e [] := fun _ h => by simp at h

/-- request_reset(): every `ReqLive` field has its initial value afterwards, whatever the state was,
    provided every module that uses its plugin_ctx slot clears it in its reset hook -/
theorem requestReset_live (e : SrvEnv) (s : ReqSt) (hs : SlotsOk e s.pluginCtx) :
    (requestReset hdrIds e s).toReqLive = (ReqSt.init e).toReqLive := by
  have hf : ∀ (a : Nat) (b : PCtx), (a, b) ∈ s.pluginCtx → a ∈ e.resetHooks := fun a b hab => hs (a, b) hab
  unfold requestReset responseReset
  by_cases hptr : s.physPathPtr = true <;>
    simp [hptr, ReqSt.onLive, ReqSt.onCore, ReqCore.onLive, pluginsReset, hreset, bodyClear, btst, Cq.reset, ReqSt.init]
  all_goals exact hf

/-- request_reset_ex() restores the `ReqKept` fields (and leaves the others alone, up to
    target / pathinfo which request_reset() has cleared already) -/
theorem requestResetEx_core (e : SrvEnv) (s : ReqSt) (h : s.toReqLive = (ReqSt.init e).toReqLive) :
    (requestResetEx s).toReqCore = (ReqSt.init e).toReqCore := by
  apply ReqCore.ext2
  · have h1 : s.target = none := by have := congrArg ReqLive.target h; simpa [ReqSt.init] using this
    have h2 : s.pathinfo = none := by have := congrArg ReqLive.pathinfo h; simpa [ReqSt.init] using this
    rw [← h]
    unfold requestResetEx
    cases s with | mk c d => cases c with | mk l k => cases l; simp_all
  · simp [requestResetEx, ReqSt.init]

/-- **request_reset() + request_reset_ex() restore every core field**, whatever the state was -/
theorem reset_core (e : SrvEnv) (s : ReqSt) (hs : SlotsOk e s.pluginCtx) :
    (requestResetEx (requestReset hdrIds e s)).toReqCore = (ReqSt.init e).toReqCore :=
  requestResetEx_core e _ (requestReset_live e s hs)

theorem requestRelease_core (e : SrvEnv) (s : ReqSt) (hs : SlotsOk e s.pluginCtx) :
    (requestRelease hdrIds e s).toReqCore = (ReqSt.init e).toReqCore := by
  unfold requestRelease
  simp only []
  have := reset_core e { s with readQueue := s.readQueue.reset } hs
  simpa using this

/-! ### error_handler_saved_status is not changed before http_response_has_error_handler() looks at it -/

@[simp] theorem respSet_ehs (s : ReqLive) (id k v) : (respSet s id k v).errorHandlerSavedStatus = s.errorHandlerSavedStatus := rfl
@[simp] theorem respUnset_ehs (s : ReqLive) (id k) : (respUnset s id k).errorHandlerSavedStatus = s.errorHandlerSavedStatus := by
  unfold respUnset; split <;> rfl
@[simp] theorem respAppend_ehs (s : ReqLive) (id k v) : (respAppend s id k v).errorHandlerSavedStatus = s.errorHandlerSavedStatus := by
  unfold respAppend; split <;> rfl
@[simp] theorem bodyClear_ehs (s : ReqLive) (p) : (bodyClear hdrIds s p).errorHandlerSavedStatus = s.errorHandlerSavedStatus := by
  unfold bodyClear; simp only []; repeat' split
  all_goals simp
@[simp] theorem optionsStar_ehs (s : ReqLive) : (optionsStar s).errorHandlerSavedStatus = s.errorHandlerSavedStatus := by
  simp [optionsStar]
@[simp] theorem errorClose_ehs (s : ReqLive) (st) : (errorClose s st).errorHandlerSavedStatus = s.errorHandlerSavedStatus := rfl
@[simp] theorem sendFile_ehs (s : ReqLive) (a b c) : (sendFile s a b c).errorHandlerSavedStatus = s.errorHandlerSavedStatus := by
  unfold sendFile; simp only []; repeat' split
  all_goals simp
@[simp] theorem noHandler_ehs (s : ReqLive) : (noHandler s).errorHandlerSavedStatus = s.errorHandlerSavedStatus := by
  unfold noHandler; repeat' split
  all_goals simp
@[simp] theorem setenvUriClean_ehs (s : ReqLive) : (setenvUriClean s).errorHandlerSavedStatus = s.errorHandlerSavedStatus := by
  unfold setenvUriClean; split <;> simp [pctxSet]
@[simp] theorem rqstUnset_ehs (s : ReqLive) (id k) : (rqstUnset s id k).errorHandlerSavedStatus = s.errorHandlerSavedStatus := by
  unfold rqstUnset; split <;> rfl
@[simp] theorem sinkHandle_ehs (site) (s : ReqLive) : (sinkHandle site s).errorHandlerSavedStatus = s.errorHandlerSavedStatus := by
  simp [sinkHandle]
@[simp] theorem httpResponseConfig_ehs (site) (s : ReqCore) :
    (httpResponseConfig site s).errorHandlerSavedStatus = s.errorHandlerSavedStatus := by
  unfold httpResponseConfig; simp only []; split <;> simp [ReqCore.onLive]
@[simp] theorem storeError_ehs (s : ReqLive) (a b c) : (storeError s a b c).errorHandlerSavedStatus = s.errorHandlerSavedStatus := rfl
@[simp] theorem storeParsed_ehs (s : ReqCore) (a b c d f g h) :
    (storeParsed s a b c d f g h).errorHandlerSavedStatus = s.errorHandlerSavedStatus := rfl

theorem subrequestStart_ehs (site) (s : ReqCore) :
    (subrequestStart site s).errorHandlerSavedStatus = s.errorHandlerSavedStatus := by
  unfold subrequestStart; simp only []; repeat' split
  all_goals simp [ReqCore.onLive]

/-- either outcome of `prepareSetup` -/
def exGet : Except ReqCore ReqCore → ReqCore
  | .error t => t
  | .ok t => t

theorem prepareSetup_ehs (site) (s : ReqCore) :
    (exGet (prepareSetup site s)).errorHandlerSavedStatus = s.errorHandlerSavedStatus := by
  unfold prepareSetup; simp only []; repeat' split
  all_goals simp [exGet, ReqCore.onLive]

theorem prepareServe_ehs (site) (s : ReqCore) :
    (prepareServe site s).errorHandlerSavedStatus = s.errorHandlerSavedStatus := by
  unfold prepareServe; simp only []; repeat' split
  all_goals simp_all [ReqCore.onLive, subrequestStart_ehs]

theorem responsePrepare_ehs (site) (s : ReqCore) :
    (responsePrepare site s).errorHandlerSavedStatus = s.errorHandlerSavedStatus := by
  have h := prepareSetup_ehs site s
  unfold responsePrepare
  split
  · split <;> simp [ReqCore.onLive]
  · split
    · rename_i t ht; rw [ht] at h; exact h
    · rename_i t ht; rw [ht] at h; rw [prepareServe_ehs]; exact h

/-! ### the saved method of the error handler is only looked at while the saved status is set -/

theorem hasErrorHandler_irrel (m1 m2 : Int) (s : ReqLive) (h : s.errorHandlerSavedStatus = 0) :
    hasErrorHandler m1 s = hasErrorHandler m2 s := by
  simp [hasErrorHandler, h]

theorem preWrite_irrel (m1 m2 : Int) (s : ReqLive) (h : s.errorHandlerSavedStatus = 0) :
    preWrite m1 s = preWrite m2 s := by
  unfold preWrite
  simp only []
  split
  · rw [hasErrorHandler_irrel m1 m2 _ (by simpa using h)]
  · rw [hasErrorHandler_irrel m1 m2 _ h]

theorem prepared_ehs (site) (s : ReqCore) : (prepared site s).errorHandlerSavedStatus = s.errorHandlerSavedStatus := by
  unfold prepared; split
  · simp [ReqCore.onLive]
  · exact responsePrepare_ehs site s

theorem respondC_live (site : Site) (m : Int) (s : ReqCore) :
    (respondC site m s).toReqLive = writePrepare (preWrite m (prepared site s).toReqLive) := by
  unfold respondC
  simp only []
  split <;> rfl

theorem respondC_kept (site : Site) (m1 m2 : Int) (s : ReqCore) (h : s.errorHandlerSavedStatus = 0) :
    respondC site m1 s = respondC site m2 s := by
  have he : (prepared site s).toReqLive.errorHandlerSavedStatus = 0 := by
    have := prepared_ehs site s; simpa [h] using this
  have hp := preWrite_irrel m1 m2 _ he
  unfold respondC
  simp only []
  rw [hp]

/-- an error decided before http_response_prepare() (status > 200): the response does not look
    at the `ReqKept` fields -/
theorem prepared_err_live (site : Site) (c1 c2 : ReqCore) (h : c1.toReqLive = c2.toReqLive)
    (hs : c1.httpStatus > 200) : (prepared site c1).toReqLive = (prepared site c2).toReqLive := by
  have hs2 : c2.httpStatus > 200 := by
    have : c1.httpStatus = c2.httpStatus := congrArg ReqLive.httpStatus h
    omega
  have hh : c1.handlerModule = c2.handlerModule := congrArg ReqLive.handlerModule h
  have hf : c1.respBodyFinished = c2.respBodyFinished := congrArg ReqLive.respBodyFinished h
  unfold prepared responsePrepare
  simp only [hs, hs2, hh, hf, if_true]
  split
  · simp [h]
  · split <;> simp [h]

theorem respondC_err_live (site : Site) (m : Int) (c1 c2 : ReqCore) (h : c1.toReqLive = c2.toReqLive)
    (hs : c1.httpStatus > 200) : (respondC site m c1).toReqLive = (respondC site m c2).toReqLive := by
  rw [respondC_live, respondC_live, prepared_err_live site c1 c2 h hs]

/-! ### the plugin_ctx slots the response path uses belong to modules with a reset hook -/

@[simp] theorem respSet_pctx (s : ReqLive) (id k v) : (respSet s id k v).pluginCtx = s.pluginCtx := rfl
@[simp] theorem respUnset_pctx (s : ReqLive) (id k) : (respUnset s id k).pluginCtx = s.pluginCtx := by
  unfold respUnset; split <;> rfl
@[simp] theorem respAppend_pctx (s : ReqLive) (id k v) : (respAppend s id k v).pluginCtx = s.pluginCtx := by
  unfold respAppend; split <;> rfl
@[simp] theorem respInsert_pctx (s : ReqLive) (id k v) : (respInsert s id k v).pluginCtx = s.pluginCtx := by
  unfold respInsert; split <;> rfl
@[simp] theorem rqstUnset_pctx (s : ReqLive) (id k) : (rqstUnset s id k).pluginCtx = s.pluginCtx := by
  unfold rqstUnset; split <;> rfl
@[simp] theorem bodyClear_pctx (s : ReqLive) (p) : (bodyClear hdrIds s p).pluginCtx = s.pluginCtx := by
  unfold bodyClear; simp only []; repeat' split
  all_goals simp
@[simp] theorem optionsStar_pctx (s : ReqLive) : (optionsStar s).pluginCtx = s.pluginCtx := by simp [optionsStar]
@[simp] theorem errorClose_pctx (s : ReqLive) (st) : (errorClose s st).pluginCtx = s.pluginCtx := rfl
@[simp] theorem sendFile_pctx (s : ReqLive) (a b c) : (sendFile s a b c).pluginCtx = s.pluginCtx := by
  unfold sendFile; simp only []; repeat' split
  all_goals simp
@[simp] theorem noHandler_pctx (s : ReqLive) : (noHandler s).pluginCtx = s.pluginCtx := by
  unfold noHandler; repeat' split
  all_goals simp
@[simp] theorem sinkHandle_pctx (site) (s : ReqLive) : (sinkHandle site s).pluginCtx = s.pluginCtx := by simp [sinkHandle]
@[simp] theorem storeError_pctx (s : ReqLive) (a b c) : (storeError s a b c).pluginCtx = s.pluginCtx := rfl
@[simp] theorem storeParsed_pctx (s : ReqCore) (a b c d f g h) : (storeParsed s a b c d f g h).pluginCtx = s.pluginCtx := rfl
@[simp] theorem httpResponseConfig_pctx (site) (s : ReqCore) : (httpResponseConfig site s).pluginCtx = s.pluginCtx := by
  unfold httpResponseConfig; simp only []; split <;> simp [ReqCore.onLive]

theorem foldl_respInsert_pctx (hs : List (Bytes × Bytes)) : ∀ s : ReqLive,
    (hs.foldl (fun s kv => respInsert s (hid (kv.1.map toLower)) kv.1 kv.2) s).pluginCtx = s.pluginCtx := by
  induction hs with
  | nil => intro s; rfl
  | cons kv rest ih => intro s; simp only [List.foldl_cons]; rw [ih]; simp

@[simp] theorem setenvResponseStart_pctx (s : ReqLive) : (setenvResponseStart s).pluginCtx = s.pluginCtx := by
  unfold setenvResponseStart; split
  · rfl
  · exact foldl_respInsert_pctx _ _
@[simp] theorem staticErrdoc_pctx (s : ReqLive) : (staticErrdoc s).pluginCtx = s.pluginCtx := by
  unfold staticErrdoc; simp only []; repeat' split
  all_goals simp
@[simp] theorem wpStatus_pctx (s : ReqLive) : (wpStatus s).pluginCtx = s.pluginCtx := by
  unfold wpStatus; simp only []; repeat' split
  all_goals simp
@[simp] theorem wpFraming_pctx (s : ReqLive) : (wpFraming s).pluginCtx = s.pluginCtx := by
  unfold wpFraming; simp only []; repeat' split
  all_goals simp
@[simp] theorem wpHead_pctx (s : ReqLive) : (wpHead s).pluginCtx = s.pluginCtx := by
  unfold wpHead; split <;> simp
@[simp] theorem writePrepare_pctx (s : ReqLive) : (writePrepare s).pluginCtx = s.pluginCtx := by
  simp [writePrepare]
@[simp] theorem hasErrorHandler_pctx (m) (s : ReqLive) : (hasErrorHandler m s).pluginCtx = s.pluginCtx := by
  unfold hasErrorHandler; simp only []; repeat' split
  all_goals simp
@[simp] theorem preWrite_pctx (m) (s : ReqLive) : (preWrite m s).pluginCtx = s.pluginCtx := by
  unfold preWrite; simp only []; repeat' split
  all_goals simp
@[simp] theorem h1SendHeaders_pctx (n) (s : ReqLive) : (h1SendHeaders n s).pluginCtx = s.pluginCtx := by
  unfold h1SendHeaders; simp only []; repeat' split
  all_goals simp

theorem setenvUriClean_slots (e : SrvEnv) (h1 : 1 ∈ e.resetHooks) (s : ReqLive) (hs : SlotsOk e s.pluginCtx) :
    SlotsOk e (setenvUriClean s).pluginCtx := by
  unfold setenvUriClean; split
  · exact hs
  · intro p hp
    simp only [pctxSet, List.mem_cons, List.mem_filter] at hp
    rcases hp with hp | hp
    · rw [hp]; exact h1
    · exact hs p hp.1

theorem subrequestStart_pctx (site) (s : ReqCore) : (subrequestStart site s).pluginCtx = s.pluginCtx := by
  unfold subrequestStart; simp only []; repeat' split
  all_goals simp [ReqCore.onLive]

theorem prepareSetup_slots (e : SrvEnv) (h1 : 1 ∈ e.resetHooks) (site) (s : ReqCore) (hs : SlotsOk e s.pluginCtx) :
    SlotsOk e (exGet (prepareSetup site s)).pluginCtx := by
  have hc : SlotsOk e (setenvUriClean (httpResponseConfig site s).toReqLive).pluginCtx :=
    setenvUriClean_slots e h1 _ (by simpa using hs)
  unfold prepareSetup; simp only []; repeat' split
  all_goals simp only [exGet, ReqCore.onLive, errorClose_pctx, optionsStar_pctx, httpResponseConfig_pctx]
  all_goals first | exact hs | exact hc

theorem prepareServe_pctx (site) (s : ReqCore) : (prepareServe site s).pluginCtx = s.pluginCtx := by
  unfold prepareServe; simp only []; repeat' split
  all_goals simp_all [ReqCore.onLive, subrequestStart_pctx]

theorem responsePrepare_slots (e : SrvEnv) (h1 : 1 ∈ e.resetHooks) (site) (s : ReqCore) (hs : SlotsOk e s.pluginCtx) :
    SlotsOk e (responsePrepare site s).pluginCtx := by
  have h := prepareSetup_slots e h1 site s hs
  unfold responsePrepare
  split
  · split
    · simpa [ReqCore.onLive] using hs
    · exact hs
  · split
    · rename_i t ht; rw [ht] at h; exact h
    · rename_i t ht; rw [ht] at h; rw [prepareServe_pctx]; exact h

theorem respondC_slots (e : SrvEnv) (h1 : 1 ∈ e.resetHooks) (site) (m) (s : ReqCore) (hs : SlotsOk e s.pluginCtx) :
    SlotsOk e (respondC site m s).pluginCtx := by
  show SlotsOk e (respondC site m s).toReqLive.pluginCtx
  rw [respondC_live]
  simp only [writePrepare_pctx, preWrite_pctx]
  unfold prepared; split
  · simpa [ReqCore.onLive] using hs
  · exact responsePrepare_slots e h1 site s hs

/-! ### the keep-alive decision only shows in the Connection header -/

/-- the header part of `Out.core` computed from the response header array -/
def coreHeaders (hs : HList) : List (Bytes × Bytes) :=
  (((hs.filter fun e => !e.2.1.isEmpty && !e.2.2.isEmpty).map fun e => (e.2.1, e.2.2)).filter
      fun kv => kv.1.map toLower ≠ ofString "connection").map fun kv => (kv.1.map toLower, kv.2)

theorem lower_Connection : (ofString "Connection").map toLower = ofString "connection" := by decide

theorem coreHeaders_cons_conn (e : HId × Bytes × Bytes) (rest : HList)
    (h : e.2.1.map toLower = ofString "connection") : coreHeaders (e :: rest) = coreHeaders rest := by
  unfold coreHeaders
  by_cases hne : (!e.2.1.isEmpty && !e.2.2.isEmpty) = true
  · simp [List.filter_cons, hne, h]
  · simp [List.filter_cons, hne]

theorem coreHeaders_cons_congr (e e' : HId × Bytes × Bytes) (r r' : HList)
    (h : coreHeaders r = coreHeaders r') (he : e.2 = e'.2) : coreHeaders (e :: r) = coreHeaders (e' :: r') := by
  unfold coreHeaders at *
  simp only [List.filter_cons, he]
  split
  · simp only [List.map_cons, List.filter_cons]
    split <;> simp_all
  · exact h

theorem coreHeaders_hupdate_conn (a : HList) (f : Bytes → Bytes) :
    coreHeaders (hupdate a idConnection (ofString "Connection") f) = coreHeaders a := by
  unfold hupdate
  split
  · rename_i hany; clear hany
    induction a with
    | nil => rfl
    | cons e rest ih =>
      simp only [List.map_cons]
      split
      · rename_i hc
        have hk : e.2.1.map toLower = ofString "connection" := by
          have := hc.2; simp [eqIcase, lower_Connection] at this; exact this
        rw [coreHeaders_cons_conn _ _ hk, coreHeaders_cons_conn _ _ (by simpa using hk), ih]
      · exact coreHeaders_cons_congr _ _ _ _ ih rfl
  · rename_i hany; clear hany
    induction a with
    | nil => simp [coreHeaders, lower_Connection]
    | cons e rest ih =>
      simp only [List.cons_append]
      exact coreHeaders_cons_congr _ _ _ _ ih rfl

theorem core_h1Output (l : ReqLive) : (h1Output l).core = (l.httpStatus, coreHeaders l.respHeaders, l.writeQueue.data) := by
  simp [Out.core, h1Output, headerLines, coreHeaders]

set_option maxRecDepth 100000 in
theorem toLower_idem_nat : ∀ n, n < 256 → toLower (toLower (UInt8.ofNat n)) = toLower (UInt8.ofNat n) := by decide

theorem toLower_idem (b : UInt8) : toLower (toLower b) = toLower b := by
  have := toLower_idem_nat b.toNat (UInt8.toNat_lt b)
  simpa using this

theorem map_toLower_idem (k : Bytes) : (k.map toLower).map toLower = k.map toLower := by
  simp [List.map_map, Function.comp_def, toLower_idem]

theorem core_h2Output (l : ReqLive) : (h2Output l).core = (l.httpStatus, coreHeaders l.respHeaders, l.writeQueue.data) := by
  simp only [Out.core, h2Output, headerLines, coreHeaders, Prod.mk.injEq, true_and, and_true]
  generalize (List.filter (fun e => !e.2.1.isEmpty && !e.2.2.isEmpty) l.respHeaders) = hs
  induction hs with
  | nil => rfl
  | cons e rest ih =>
    simp only [List.map_cons, List.filter_cons, map_toLower_idem]
    split <;> simp_all [toLower_idem]

/-- h1_send_headers() changes nothing of the comparable part of the response -/
theorem core_h1SendHeaders (n : Nat) (l : ReqLive) : (h1Output (h1SendHeaders n l)).core = (h1Output l).core := by
  simp only [core_h1Output]
  unfold h1SendHeaders
  simp only []
  repeat' split
  all_goals simp [respSet, coreHeaders_hupdate_conn]

/-! ### parsing: only the core fields of the request object matter, and error_handler_saved_status
    is not touched -/

def IntoRes.map {σ τ : Type} (f : σ → τ) : IntoRes σ → IntoRes τ
  | .incomplete => .incomplete
  | .blank => .blank
  | .skipV6 => .skipV6
  | .done s => .done (f s)

theorem liftInto_map (s : ReqSt) (r : IntoRes ReqCore) : (liftInto s r).map (·.toReqCore) = r := by
  cases r <;> rfl

theorem parseIntoH1_core (s : ReqSt) (b : Bytes) :
    (parseIntoH1 s b).map (·.toReqCore) = parseIntoH1C s.toReqCore b := liftInto_map _ _

theorem parseIntoH2_core (s : ReqSt) (fs : List (Bytes × Bytes)) (es : Bool) :
    (parseIntoH2 s fs es).map (·.toReqCore) = parseIntoH2C s.toReqCore fs es := liftInto_map _ _

/-- the parsed request: `some` iff the head was consumed -/
def IntoRes.done? {σ : Type} : IntoRes σ → Option σ
  | .done s => some s
  | _ => none

theorem parseIntoH1C_ehs (s c : ReqCore) (b : Bytes) (h : (parseIntoH1C s b).done? = some c) :
    c.errorHandlerSavedStatus = s.errorHandlerSavedStatus := by
  unfold parseIntoH1C at h
  simp only [] at h
  repeat' split at h
  all_goals simp_all [IntoRes.done?, ReqCore.onLive]
  all_goals (try (subst h; rfl))

theorem parseIntoH1C_pctx (s c : ReqCore) (b : Bytes) (h : (parseIntoH1C s b).done? = some c) :
    c.pluginCtx = s.pluginCtx := by
  unfold parseIntoH1C at h
  simp only [] at h
  repeat' split at h
  all_goals simp_all [IntoRes.done?, ReqCore.onLive]
  all_goals (try (subst h; rfl))

theorem parseIntoH2C_pctx (s c : ReqCore) (fs : List (Bytes × Bytes)) (es : Bool)
    (h : (parseIntoH2C s fs es).done? = some c) : c.pluginCtx = s.pluginCtx := by
  unfold parseIntoH2C at h
  simp only [] at h
  repeat' split at h
  all_goals simp_all [IntoRes.done?, ReqCore.onLive]
  all_goals (try (subst h; rfl))

theorem parseIntoH2C_ehs (s c : ReqCore) (fs : List (Bytes × Bytes)) (es : Bool)
    (h : (parseIntoH2C s fs es).done? = some c) :
    c.errorHandlerSavedStatus = s.errorHandlerSavedStatus := by
  unfold parseIntoH2C at h
  simp only [] at h
  repeat' split at h
  all_goals simp_all [IntoRes.done?, ReqCore.onLive]
  all_goals (try (subst h; rfl))

/-! ### one request on an HTTP/1.x connection -/

theorem splitLines_cons_prefix : ∀ (bs cur l : Bytes) (rest : List Bytes),
    splitLines bs cur = l :: rest → ∃ tail, cur ++ bs = l ++ tail := by
  intro bs
  induction bs with
  | nil => intro cur l rest h; simp [splitLines] at h
  | cons b t ih =>
    intro cur l rest h
    unfold splitLines at h
    split at h
    · simp only [List.cons.injEq] at h
      exact ⟨t, by rw [← h.1]; simp⟩
    · obtain ⟨tail, ht⟩ := ih (cur ++ [b]) l rest h
      exact ⟨tail, by rw [← ht]; simp⟩

theorem takeHead_nil_lines : ∀ (ls acc : List Bytes) (bl : Bytes),
    takeHead ls acc = some ([], bl) → acc = [] ∧ ∃ rest, ls = bl :: rest ∧ isBlankLine bl = true := by
  intro ls
  induction ls with
  | nil => intro acc bl h; simp [takeHead] at h
  | cons l rest ih =>
    intro acc bl h
    unfold takeHead at h
    split at h
    · rename_i hb
      simp only [Option.some.injEq, Prod.mk.injEq, List.reverse_eq_nil_iff] at h
      exact ⟨h.1, rest, by rw [h.2], by rw [← h.2]; exact hb⟩
    · have := (ih (l :: acc) bl h).1
      simp at this

theorem recvHead_blank_startsBlank (mf : Nat) (block : Bytes) (n : Nat) (h : recvHead mf block = .blank n) :
    startsBlank block = true := by
  unfold recvHead at h
  simp only [] at h
  split at h
  · split at h <;> simp at h
  · rename_i lines bl ht
    split at h
    · simp at h
    · split at h
      · rename_i hl
        have hl' : lines = [] := by simpa using hl
        subst hl'
        obtain ⟨_, rest, hls, hb⟩ := takeHead_nil_lines _ _ _ ht
        obtain ⟨tail, htl⟩ := splitLines_cons_prefix block [] bl rest hls
        simp only [List.nil_append] at htl
        unfold isBlankLine at hb
        simp only [Bool.or_eq_true, decide_eq_true_eq] at hb
        rcases hb with hb | hb <;> subst hb <;> simp [startsBlank, htl]
      · simp at h

/-- what holds of the request object of a connection between two requests -/
def ConnInv (e : SrvEnv) (c : Conn) : Prop :=
  c.r.toReqLive = (ReqSt.init e).toReqLive ∧ (c.requestCount = 0 → c.r.toReqKept = (ReqSt.init e).toReqKept)

/-- comparable part of the response computed from the core state a request head was parsed into -/
def coreAnswer (site : Site) (c : ReqCore) : Int × List (Bytes × Bytes) × Bytes :=
  (h1Output (respondC site 0 c).toReqLive).core

theorem respond_core (site : Site) (s : ReqSt) :
    (respond site s).toReqCore = respondC site s.errorHandlerSavedMethod s.toReqCore := rfl

theorem h1Finish_core (site : Site) (e : SrvEnv) (h1h : 1 ∈ e.resetHooks) (count : Nat) (r1 : ReqSt)
    (h0 : r1.errorHandlerSavedStatus = 0) (hsl : SlotsOk e r1.pluginCtx) (hc : count ≠ 0) :
    ((h1Finish site e count r1).2).map Out.core = some (coreAnswer site r1.toReqCore) ∧
    ConnInv e (h1Finish site e count r1).1 := by
  have hout : (h1Output ((respond site r1).onLive (h1SendHeaders count)).toReqLive).core
      = coreAnswer site r1.toReqCore := by
    show (h1Output (h1SendHeaders count (respond site r1).toReqLive)).core = _
    rw [core_h1SendHeaders]
    show (h1Output (respond site r1).toReqCore.toReqLive).core = _
    rw [respond_core, respondC_kept site _ 0 _ h0]
    rfl
  have hs2 : SlotsOk e ((respond site r1).onLive (h1SendHeaders count)).pluginCtx := by
    show SlotsOk e (h1SendHeaders count (respond site r1).toReqCore.toReqLive).pluginCtx
    rw [h1SendHeaders_pctx, respond_core]
    exact respondC_slots e h1h site _ _ hsl
  unfold h1Finish
  simp only []
  split
  · refine ⟨?_, ?_, ?_⟩
    · simp only [Option.map_some]; rw [← hout]; rfl
    · exact requestReset_live e _ hs2
    · intro h; exact absurd h hc
  · refine ⟨?_, ?_, ?_⟩
    · simp only [Option.map_some]; rw [← hout]; rfl
    · have := reset_core e ((respond site r1).onLive (h1SendHeaders count)) hs2
      exact congrArg ReqCore.toReqLive this
    · intro _
      have := reset_core e ((respond site r1).onLive (h1SendHeaders count)) hs2
      exact congrArg ReqCore.toReqKept this

theorem ConnInv_closed (e : SrvEnv) (r : ReqSt) (hs : SlotsOk e r.pluginCtx) :
    ConnInv e { r := { requestResetEx (requestReset hdrIds e r) with state := 0 }, requestCount := 0, isOpen := false } :=
  ⟨congrArg ReqCore.toReqLive (reset_core e r hs), fun _ => congrArg ReqCore.toReqKept (reset_core e r hs)⟩

theorem ConnInv.slots {e : SrvEnv} {c : Conn} (h : ConnInv e c) : SlotsOk e c.r.pluginCtx := by
  have : c.r.pluginCtx = [] := by
    have := congrArg ReqLive.pluginCtx h.1; simpa [ReqSt.init] using this
  rw [this]; exact SlotsOk.nil e

/-- the data starts the way a request starts: not with CR / LF / another control byte -/
def ReqStart (head : Bytes) : Prop := ∃ b, head.head? = some b ∧ ¬ b < 32

theorem ReqStart.notCtl {head : Bytes} (h : ReqStart head) : isCtl head = false := by
  obtain ⟨b, hb, hn⟩ := h; simp [isCtl, hb, hn]

theorem ReqStart.notBlank {head : Bytes} (h : ReqStart head) : startsBlank head = false := by
  obtain ⟨b, hb, hn⟩ := h
  simp only [startsBlank, hb, Option.some.injEq, Bool.or_eq_false_iff, decide_eq_false_iff_not]
  constructor <;> (intro hh; subst hh; revert hn; decide)

/-- the live fields of a request rejected by h1_recv_headers() with `st` -/
def liveRej (e : SrvEnv) (st : Int) : ReqLive := { (ReqSt.init e).toReqLive with httpStatus := st, keepAlive := 0 }

/-- on data that starts like a request the blank-line rules of h1_recv_headers() do not apply -/
theorem h1Parse_reqStart (c : Conn) (head : Bytes) (hr : ReqStart head) :
    h1Parse c head = h1ParseNoDiscard c
      { (c.r.onLive fun l => { l with loopsPerRequest := 0 }) with
        readQueue := { c.r.readQueue with bytesIn := c.r.readQueue.bytesIn + head.length } } head := by
  unfold h1Parse
  simp only [hr.notBlank, Bool.false_eq_true, if_false]
  split
  · rfl
  · split
    · rename_i len hb
      have := recvHead_blank_startsBlank _ _ _ hb
      rw [hr.notBlank] at this; simp at this
    · rfl

theorem h1Parse_core (e : SrvEnv) (c : Conn) (hinv : ConnInv e c) (head : Bytes) (hr : ReqStart head) :
    (h1Parse c head).map (·.toReqCore) =
      match recvHead e.defaults.maxRequestFieldSize head with
      | .tooLarge => .done { toReqLive := liveRej e 431, toReqKept := c.r.toReqKept }
      | .head _ _ => parseIntoH1C (ReqSt.init e).toReqCore head
      | .incomplete => .incomplete
      | .blank _ => .done { toReqLive := liveRej e 400, toReqKept := c.r.toReqKept } := by
  obtain ⟨hl, hk⟩ := hinv
  rw [h1Parse_reqStart c head hr]
  generalize hr0 : ({ (c.r.onLive fun l => { l with loopsPerRequest := 0 }) with
        readQueue := { c.r.readQueue with bytesIn := c.r.readQueue.bytesIn + head.length } } : ReqSt) = r0
  have hl0 : r0.toReqLive = (ReqSt.init e).toReqLive := by
    rw [← hr0]
    show ({ c.r.toReqLive with loopsPerRequest := 0 } : ReqLive) = _
    rw [hl]; rfl
  have hk0 : r0.toReqKept = c.r.toReqKept := by rw [← hr0]; rfl
  have hconf : r0.conf.maxRequestFieldSize = e.defaults.maxRequestFieldSize := by
    have := congrArg (fun l : ReqLive => l.conf.maxRequestFieldSize) hl0
    simpa [ReqSt.init] using this
  unfold h1ParseNoDiscard
  simp only [hconf, hr.notCtl, Bool.false_eq_true, if_false]
  cases hrr : recvHead e.defaults.maxRequestFieldSize head with
  | tooLarge =>
    simp only [IntoRes.map]
    congr 1
    apply ReqCore.ext2
    · show ({ r0.toReqLive with httpStatus := 431, keepAlive := 0 } : ReqLive) = _
      rw [hl0]; rfl
    · exact hk0
  | head lines len =>
    simp only []
    rw [parseIntoH1_core]
    congr 1
    by_cases hcnt : c.requestCount = 0
    · have : ¬ (c.requestCount + 1 > 1) := by omega
      simp only [this, if_false]
      apply ReqCore.ext2
      · exact hl0
      · rw [hk0]; exact hk hcnt
    · have : c.requestCount + 1 > 1 := by omega
      simp only [this, if_true]
      exact requestResetEx_core e _ hl0
  | incomplete => rfl
  | blank n =>
    simp only [reject400, IntoRes.map]
    congr 1
    apply ReqCore.ext2
    · show ({ r0.toReqLive with httpStatus := 400, keepAlive := 0 } : ReqLive) = _
      rw [hl0]; rfl
    · exact hk0

/-- the comparable part of the answer to data that starts like a request, as a function of the
    data, the site and the configuration alone (`none`: the head is incomplete) -/
def expectedAnswer (site : Site) (e : SrvEnv) (head : Bytes) : Option (Int × List (Bytes × Bytes) × Bytes) :=
  match recvHead e.defaults.maxRequestFieldSize head with
  | .tooLarge => some (coreAnswer site { toReqLive := liveRej e 431, toReqKept := (ReqSt.init e).toReqKept })
  | .head _ _ => ((parseIntoH1C (ReqSt.init e).toReqCore head).done?).map (coreAnswer site)
  | .incomplete => none
  | .blank _ => some (coreAnswer site { toReqLive := liveRej e 400, toReqKept := (ReqSt.init e).toReqKept })

theorem coreAnswer_rej (site : Site) (e : SrvEnv) (st : Int) (hst : st > 200) (k1 k2 : ReqKept) :
    coreAnswer site { toReqLive := liveRej e st, toReqKept := k1 } = coreAnswer site { toReqLive := liveRej e st, toReqKept := k2 } := by
  unfold coreAnswer
  rw [respondC_err_live site 0 { toReqLive := liveRej e st, toReqKept := k1 } { toReqLive := liveRej e st, toReqKept := k2 } rfl
        (by simpa [liveRej] using hst)]

theorem IntoRes.map_done? {σ τ : Type} (f : σ → τ) (r : IntoRes σ) : (r.map f).done? = r.done?.map f := by
  cases r <;> rfl

/-- the parse outcome of a connection satisfying the invariant, as an option -/
def parsedCore (e : SrvEnv) (k : ReqKept) (head : Bytes) : Option ReqCore :=
  match recvHead e.defaults.maxRequestFieldSize head with
  | .tooLarge => some { toReqLive := liveRej e 431, toReqKept := k }
  | .head _ _ => (parseIntoH1C (ReqSt.init e).toReqCore head).done?
  | .incomplete => none
  | .blank _ => some { toReqLive := liveRej e 400, toReqKept := k }

theorem h1Parse_done (e : SrvEnv) (c : Conn) (hinv : ConnInv e c) (head : Bytes) (hr : ReqStart head) :
    (h1Parse c head).done?.map (·.toReqCore) = parsedCore e c.r.toReqKept head := by
  have hp := congrArg IntoRes.done? (h1Parse_core e c hinv head hr)
  rw [IntoRes.map_done?] at hp
  rw [hp]
  unfold parsedCore
  cases recvHead e.defaults.maxRequestFieldSize head <;> rfl

theorem parsedCore_facts (e : SrvEnv) (k : ReqKept) (head : Bytes) (c1 : ReqCore)
    (h : parsedCore e k head = some c1) :
    c1.errorHandlerSavedStatus = 0 ∧ c1.pluginCtx = [] := by
  unfold parsedCore at h
  cases hr : recvHead e.defaults.maxRequestFieldSize head with
  | tooLarge => simp only [hr, Option.some.injEq] at h; subst h; simp [liveRej, ReqSt.init]
  | blank n => simp only [hr, Option.some.injEq] at h; subst h; simp [liveRej, ReqSt.init]
  | incomplete => simp [hr] at h
  | head lines len =>
    simp only [hr] at h
    exact ⟨by rw [parseIntoH1C_ehs _ _ _ h]; simp [ReqSt.init], by rw [parseIntoH1C_pctx _ _ _ h]; simp [ReqSt.init]⟩

theorem expectedAnswer_eq (site : Site) (e : SrvEnv) (k : ReqKept) (head : Bytes) :
    (parsedCore e k head).map (coreAnswer site) = expectedAnswer site e head := by
  unfold parsedCore expectedAnswer
  cases recvHead e.defaults.maxRequestFieldSize head with
  | tooLarge => exact congrArg some (coreAnswer_rej site e 431 (by decide) _ _)
  | blank n => exact congrArg some (coreAnswer_rej site e 400 (by decide) _ _)
  | incomplete => rfl
  | head lines len => rfl

/-- **one request on a connection whose request object satisfies the invariant**: the answer is
    `expectedAnswer`, and the invariant holds again afterwards -/
theorem h1Msg_answer (site : Site) (e : SrvEnv) (h1h : 1 ∈ e.resetHooks) (c : Conn) (hinv : ConnInv e c)
    (hopen : c.isOpen = true) (head : Bytes) (hr : ReqStart head) :
    ((h1Msg site e c head).2).map Out.core = expectedAnswer site e head ∧ ConnInv e (h1Msg site e c head).1 := by
  have hd := h1Parse_done e c hinv head hr
  rw [← expectedAnswer_eq site e c.r.toReqKept head, ← hd]
  unfold h1Msg
  simp only [hopen, Bool.not_true, Bool.false_eq_true, if_false]
  cases hparse : h1Parse c head with
  | done r1 =>
    have hpc : parsedCore e c.r.toReqKept head = some r1.toReqCore := by rw [← hd, hparse]; rfl
    have hf := parsedCore_facts e _ head _ hpc
    have hs : SlotsOk e r1.pluginCtx := by
      show SlotsOk e r1.toReqCore.pluginCtx
      rw [hf.2]; exact SlotsOk.nil e
    have := h1Finish_core site e h1h (c.requestCount + 1) r1 hf.1 hs (by omega)
    exact ⟨by rw [this.1]; rfl, this.2⟩
  | blank => exact ⟨rfl, hinv⟩
  | incomplete => exact ⟨rfl, ConnInv_closed e c.r hinv.slots⟩
  | skipV6 => exact ⟨rfl, ConnInv_closed e c.r hinv.slots⟩

theorem ConnInv_fresh (e : SrvEnv) : ConnInv e (Conn.fresh e) := ⟨rfl, fun _ => rfl⟩

/-- the connection after the data `P` (request heads) has been handled piece by piece -/
def connAfter (site : Site) (e : SrvEnv) (c : Conn) : List Bytes → Conn
  | [] => c
  | head :: rest => connAfter site e (h1Msg site e c head).1 rest

theorem connInv_after (site : Site) (e : SrvEnv) (h1h : 1 ∈ e.resetHooks) (P : List Bytes)
    (hP : ∀ h ∈ P, ReqStart h) : ∀ c, ConnInv e c → ConnInv e (connAfter site e c P) := by
  induction P with
  | nil => intro c h; exact h
  | cons head rest ih =>
    intro c h
    apply ih (fun x hx => hP x (by simp [hx]))
    by_cases ho : c.isOpen = true
    · exact (h1Msg_answer site e h1h c h ho head (hP head (by simp))).2
    · have : h1Msg site e c head = (c, none) := by simp [h1Msg, ho]
      rw [this]; exact h

/-- the carried fields (`ReqStale`: condition cache, keep-alive checkpoints, saved method, …) of the
    request object of a connection between two requests do not reach the next answer.  This holds
    because every model function on the response path is typed on `ReqCore`; that the C functions
    read none of these fields before writing them is what the `rp` stream tests (C object with
    junk in these fields against the model started from a fresh one). -/
theorem carried_fields_unread (site : Site) (e : SrvEnv) (h1h : 1 ∈ e.resetHooks) (c : Conn) (hinv : ConnInv e c)
    (hopen : c.isOpen = true) (d : ReqStale) (R : Bytes) (hr : ReqStart R) :
    ((h1Msg site e { c with r := { c.r with toReqStale := d } } R).2).map Out.core =
      ((h1Msg site e c R).2).map Out.core := by
  have h1 := (h1Msg_answer site e h1h c hinv hopen R hr).1
  have hinv' : ConnInv e { c with r := { c.r with toReqStale := d } } := hinv
  have h2 := (h1Msg_answer site e h1h _ hinv' hopen R hr).1
  rw [h1, h2]

/-! ### one HTTP/2 stream on a pooled request object -/

theorem h2InitStream_core (h2r : ReqSt) (swin : Nat) (p q : ReqSt) (h : p.toReqCore = q.toReqCore) :
    (h2InitStream h2r swin p).toReqCore = (h2InitStream h2r swin q).toReqCore := by
  have hl : p.toReqLive = q.toReqLive := congrArg ReqCore.toReqLive h
  have hk : p.toReqKept = q.toReqKept := congrArg ReqCore.toReqKept h
  unfold h2InitStream
  apply ReqCore.ext2
  · show ({ p.toReqLive with x2 := _, version := 2, conf := h2r.conf } : ReqLive) = _
    rw [hl]
  · show ({ p.toReqKept with serverName := _ } : ReqKept) = _
    rw [hk]

theorem h2InitStream_ehs (h2r : ReqSt) (swin : Nat) (p : ReqSt) :
    (h2InitStream h2r swin p).errorHandlerSavedStatus = p.errorHandlerSavedStatus := rfl

/-- the comparable part of the answer to a HEADERS block as a function of the header fields, the
    site and the connection-level configuration state `h2r` alone -/
def expectedAnswerH2 (site : Site) (e : SrvEnv) (h2r : ReqSt) (swin : Nat) (fs : List (Bytes × Bytes))
    (es : Bool) : Option (Int × List (Bytes × Bytes) × Bytes) :=
  ((parseIntoH2C (h2InitStream h2r swin (ReqSt.init e)).toReqCore fs es).done?).map (coreAnswer site)

theorem h2InitStream_pctx (h2r : ReqSt) (swin : Nat) (p : ReqSt) :
    (h2InitStream h2r swin p).pluginCtx = p.pluginCtx := rfl

theorem h2Stream_answer (site : Site) (e : SrvEnv) (h1h : 1 ∈ e.resetHooks) (h2r : ReqSt) (swin : Nat)
    (pooled : ReqSt) (hp : pooled.toReqCore = (ReqSt.init e).toReqCore) (fs : List (Bytes × Bytes)) (es : Bool) :
    ((h2Stream site e h2r swin pooled fs es).2).map Out.core = expectedAnswerH2 site e h2r swin fs es ∧
    (h2Stream site e h2r swin pooled fs es).1.toReqCore = (ReqSt.init e).toReqCore := by
  have hc := h2InitStream_core h2r swin pooled (ReqSt.init e) hp
  have hparse := parseIntoH2_core (h2InitStream h2r swin pooled) fs es
  rw [hc] at hparse
  have hq := congrArg IntoRes.done? hparse
  rw [IntoRes.map_done?] at hq
  have hpc : pooled.pluginCtx = [] := by
    have := congrArg (fun c : ReqCore => c.pluginCtx) hp
    simpa [ReqSt.init] using this
  have hs0 : SlotsOk e (h2InitStream h2r swin pooled).toReqCore.pluginCtx := by
    show SlotsOk e (h2InitStream h2r swin pooled).pluginCtx
    rw [h2InitStream_pctx, hpc]; exact SlotsOk.nil e
  unfold h2Stream expectedAnswerH2
  simp only []
  cases hr : parseIntoH2 (h2InitStream h2r swin pooled) fs es with
  | done r1 =>
    have hq' : some r1.toReqCore = (parseIntoH2C (h2InitStream h2r swin (ReqSt.init e)).toReqCore fs es).done? := by
      rw [hr] at hq; exact hq
    have h0 : r1.errorHandlerSavedStatus = 0 := by
      show r1.toReqCore.errorHandlerSavedStatus = 0
      rw [parseIntoH2C_ehs _ _ _ _ hq'.symm]
      show (h2InitStream h2r swin (ReqSt.init e)).errorHandlerSavedStatus = 0
      rw [h2InitStream_ehs]; simp [ReqSt.init]
    have hs1 : SlotsOk e r1.toReqCore.pluginCtx := by
      rw [parseIntoH2C_pctx _ _ _ _ hq'.symm]
      show SlotsOk e (h2InitStream h2r swin (ReqSt.init e)).pluginCtx
      rw [h2InitStream_pctx]; simp [ReqSt.init]; exact SlotsOk.nil e
    have hs2 : SlotsOk e (respond site r1).toReqCore.pluginCtx := by
      rw [respond_core]; exact respondC_slots e h1h site _ _ hs1
    refine ⟨?_, requestRelease_core e _ hs2⟩
    simp only [Option.map_some]
    rw [← hq']
    simp only [Option.map_some]
    congr 1
    rw [core_h2Output]
    show _ = (h1Output (respondC site 0 r1.toReqCore).toReqLive).core
    rw [core_h1Output]
    show ((respond site r1).toReqCore.toReqLive.httpStatus, coreHeaders (respond site r1).toReqCore.toReqLive.respHeaders,
          (respond site r1).toReqCore.toReqLive.writeQueue.data) = _
    rw [respond_core, respondC_kept site _ 0 _ h0]
  | incomplete =>
    refine ⟨?_, requestRelease_core e _ hs0⟩
    have : none = (parseIntoH2C (h2InitStream h2r swin (ReqSt.init e)).toReqCore fs es).done? := by
      rw [hr] at hq; exact hq
    rw [← this]; rfl
  | blank =>
    refine ⟨?_, requestRelease_core e _ hs0⟩
    have : none = (parseIntoH2C (h2InitStream h2r swin (ReqSt.init e)).toReqCore fs es).done? := by
      rw [hr] at hq; exact hq
    rw [← this]; rfl
  | skipV6 =>
    refine ⟨?_, requestRelease_core e _ hs0⟩
    have : none = (parseIntoH2C (h2InitStream h2r swin (ReqSt.init e)).toReqCore fs es).done? := by
      rw [hr] at hq; exact hq
    rw [← this]; rfl

/-- the connection-level request `h2r` reaches the answer of a stream only through its
    configuration, its `server_name` selector and nothing else: two `h2r` that agree on these give
    the same expected answer.  (`h2r.conf` and the condition caches are written once per
    connection, before the first stream; no stream writes them.) -/
theorem expectedAnswerH2_h2r (site : Site) (e : SrvEnv) (a b : ReqSt) (swin swin' : Nat)
    (hconf : a.conf = b.conf) (hsn : a.serverName = b.serverName) (fs : List (Bytes × Bytes)) (es : Bool) :
    expectedAnswerH2 site e a swin fs es = expectedAnswerH2 site e b swin' fs es := by
  have : (h2InitStream a swin (ReqSt.init e)).toReqCore = (h2InitStream b swin' (ReqSt.init e)).toReqCore := by
    unfold h2InitStream
    apply ReqCore.ext2
    · show ({ (ReqSt.init e).toReqLive with x2 := _, version := 2, conf := a.conf } : ReqLive) = _
      rw [hconf]
    · show ({ (ReqSt.init e).toReqKept with serverName := _ } : ReqKept) = _
      rw [hsn]
  unfold expectedAnswerH2
  rw [this]

/-- the request object of a connection that has not had a request since it was accepted (new, or
    recycled after any history) is as good a connection-level request `h2r` as a fresh one -/
theorem expectedAnswerH2_conn (site : Site) (e : SrvEnv) (c : Conn) (hinv : ConnInv e c) (h0 : c.requestCount = 0)
    (swin swin' : Nat) (fs : List (Bytes × Bytes)) (es : Bool) :
    expectedAnswerH2 site e c.r swin fs es = expectedAnswerH2 site e (ReqSt.init e) swin' fs es := by
  apply expectedAnswerH2_h2r
  · exact congrArg ReqLive.conf hinv.1
  · exact congrArg ReqKept.serverName (hinv.2 h0)

/-! ### the HTTP/1.x and the HTTP/2 header parsers store the same request -/

/-- the HTTP/2 view of a request record -/
def asH2 (r : PReq) : PReq := { r with version := 2, keepAlive := false }

theorem appendHeader_asH2 (r : PReq) (k v : Bytes) : appendHeader (asH2 r) k v = asH2 (appendHeader r k v) := by
  unfold appendHeader asH2; split <;> rfl

theorem getHeader_asH2 (r : PReq) (k : Bytes) : getHeader (asH2 r) k = getHeader r k := rfl

def exMap {α β : Type} (f : α → β) : Except Nat α → Except Nat β
  | .error e => .error e
  | .ok a => .ok (f a)

/-- field names whose handling does not depend on the protocol version -/
def versionFree (k : Bytes) : Prop :=
  (classifyHeader k = .other ∨ classifyHeader k = .dupCheck ∨ classifyHeader k = .ifNoneMatch)

theorem singleHeader_asH2 (r : PReq) (k v : Bytes) (hk : versionFree k) :
    singleHeader (asH2 r) k v = exMap asH2 (singleHeader r k v) := by
  unfold singleHeader
  rcases hk with h | h | h <;> simp only [h, getHeader_asH2]
  · simp [exMap, appendHeader_asH2]
  · split <;> (try split) <;> simp [exMap, appendHeader_asH2]
  · split <;> simp [exMap, appendHeader_asH2]

/-- a header field whose meaning does not depend on the protocol version, spelled the way both
    protocols allow: lower-case token name, value non-empty, without surrounding whitespace and
    without characters either parser rejects -/
structure PlainField (o : Opts) (kv : Bytes × Bytes) : Prop where
  nameNe : kv.1 ≠ []
  nameChars : ∀ b ∈ kv.1, (isLower b || b = 45) = true
  free : versionFree kv.1
  notTE : kv.1 ≠ ofString "te"
  valNe : kv.2 ≠ []
  valTrim : trimWs kv.2 = kv.2
  valStrict : kv.2.any lineCharInvalidStrict = false
  valMin : kv.2.any (fun b => b = 0 || b = cr || b = lf) = false

theorem applyField_plain (o : Opts) (r : PReq) (kv : Bytes × Bytes) (h : PlainField o kv) :
    applyField o r kv = singleHeader r kv.1 kv.2 := by
  obtain ⟨k, v⟩ := kv
  have hv : v.isEmpty = false := by simpa using h.valNe
  simp [applyField, hv, h.valStrict]

theorem dropWhile_lower_nil (k : Bytes) (h : ∀ b ∈ k, (isLower b || b = 45) = true) :
    k.dropWhile (fun b => isLower b || b = 45) = [] := by
  induction k with
  | nil => rfl
  | cons b rest ih =>
    have hb := h b (by simp)
    simp only [List.dropWhile_cons, hb, if_true]
    exact ih (fun x hx => h x (by simp [hx]))

/-- the pseudo-header part of an HTTP/2 request is complete and acceptable -/
structure ValidPseudo (o : Opts) (r : PReq) (c : H2Ctx) : Prop where
  methodNe : r.method ≠ []
  notConnect : r.method ≠ ofString "CONNECT"
  scheme : c.scheme = true
  targetSlash : r.target.head? = some slash
  targetOk : (if o.headerStrict then (if o.ctrlsReject then fragmentInvalidStrict r.target else r.target.any uriCharInvalidStrict)
              else r.target.any (fun b => b = 0 || b = cr || b = lf)) = false

theorem validatePseudo_ok (o : Opts) (r : PReq) (c : H2Ctx) (h : ValidPseudo o r c) :
    validatePseudo o r c = .ok (r, { c with ext := false }) := by
  have hm : r.method.isEmpty = false := by simpa using h.methodNe
  have ht : r.target.isEmpty = false := by
    cases ht : r.target with
    | nil => have := h.targetSlash; simp [ht] at this
    | cons _ _ => rfl
  have hto := h.targetOk
  have hnc := h.notConnect
  have hsc := h.scheme
  have hsl := h.targetSlash
  unfold validatePseudo
  simp only [hm, Bool.false_eq_true, if_false, ne_eq, hnc, not_false_eq_true, if_true, decide_true,
             Bool.true_or, hsc, Bool.not_true, ht, hsl, not_true_eq_false, Bool.false_and, decide_false]
  simp only [hto]
  simp

theorem h2Field_plain (o : Opts) (mf : Nat) (r : PReq) (c : H2Ctx) (kv : Bytes × Bytes)
    (h : PlainField o kv) (hc : c.pseudo = true → ValidPseudo o r c) (hr : r.version = 2)
    (hsz : c.hlen + kv.1.length + kv.2.length + 4 ≤ mf) :
    h2Field o mf (r, c) kv =
      exMap (fun r' => (r', { c with pseudo := false, hlen := c.hlen + kv.1.length + kv.2.length + 4,
                                     ext := if c.pseudo then false else c.ext }))
        (singleHeader r kv.1 kv.2) := by
  obtain ⟨k, v⟩ := kv
  have hk : k.isEmpty = false := by simpa using h.nameNe
  have hv : v.isEmpty = false := by simpa using h.valNe
  have hcolon : k.head? ≠ some colon := by
    cases k with
    | nil => simp
    | cons b rest =>
      have hb := h.nameChars b (by simp)
      intro hh
      simp only [List.head?_cons, Option.some.injEq] at hh
      subst hh
      revert hb; decide
  have hbadv : (if o.headerStrict then v.any lineCharInvalidStrict
                else v.any (fun b => b = 0 || b = cr || b = lf)) = false := by
    split
    · exact h.valStrict
    · exact h.valMin
  have htrim : trimWs v = v := h.valTrim
  have htail := dropWhile_lower_nil k h.nameChars
  have hnot431 : ¬ (c.hlen + k.length + v.length + 4 > mf) := by simp only [] at hsz; omega
  have hsv : singleHeaderV r k v = singleHeader r k v := by
    unfold singleHeaderV
    have : ¬ r.version ≤ 1 := by omega
    simp only [this, if_false]
    rcases h.free with hh | hh | hh <;> simp [hh]
  unfold h2Field
  simp only [hk, hcolon, hnot431]
  by_cases hp : c.pseudo = true
  · have hvp : ValidPseudo o r { c with hlen := c.hlen + k.length + v.length + 4, pseudo := false } :=
      ⟨(hc hp).methodNe, (hc hp).notConnect, (hc hp).scheme, (hc hp).targetSlash, (hc hp).targetOk⟩
    simp only [hp, if_true, validatePseudo_ok o r _ hvp, hbadv, htrim, hv, htail, h.notTE]
    simp
    rw [hsv]
    cases singleHeader r k v <;> simp [exMap]
  · have hp' : c.pseudo = false := by simpa using hp
    simp only [hp', hbadv, htrim, hv, htail, h.notTE]
    simp
    rw [hsv]
    cases singleHeader r k v <;> simp [exMap]

def fieldsSize (fs : List (Bytes × Bytes)) : Nat := (fs.map fun kv => kv.1.length + kv.2.length + 4).sum

theorem foldl_h2FieldStep_error (o : Opts) (mf : Nat) (fs : List (Bytes × Bytes)) (e : Nat) :
    fs.foldl (h2FieldStep o mf) (.error e) = .error e := by
  induction fs with
  | nil => rfl
  | cons f rest ih => simpa [List.foldl_cons, h2FieldStep] using ih

theorem singleHeader_version (r r' : PReq) (k v : Bytes) (hk : versionFree k) (h : singleHeader r k v = .ok r') :
    r'.version = r.version ∧ r'.method = r.method ∧ r'.target = r.target ∧ r'.bodyLen = r.bodyLen ∧
    r'.clSeen = r.clSeen := by
  unfold singleHeader at h
  rcases hk with hh | hh | hh <;> simp only [hh] at h
  · simp at h; subst h; unfold appendHeader; split <;> simp
  · split at h
    · split at h <;> simp at h; subst h; simp
    · simp at h; subst h; unfold appendHeader; split <;> simp
  · split at h
    · simp at h; subst h; simp
    · simp at h; subst h; unfold appendHeader; split <;> simp

theorem applyFields_plain_fields (o : Opts) : ∀ (fs : List (Bytes × Bytes)) (r r' : PReq),
    (∀ kv ∈ fs, PlainField o kv) → applyFields o r fs = .ok r' →
    r'.version = r.version ∧ r'.method = r.method ∧ r'.target = r.target ∧ r'.bodyLen = r.bodyLen ∧
    r'.clSeen = r.clSeen := by
  intro fs
  induction fs with
  | nil => intro r r' _ h; simp [applyFields] at h; subst h; simp
  | cons kv rest ih =>
    intro r r' hpl h
    have hkv := hpl kv (by simp)
    simp only [applyFields, applyField_plain o r kv hkv] at h
    cases hs : singleHeader r kv.1 kv.2 with
    | error e => simp [hs] at h
    | ok r1 =>
      simp only [hs] at h
      have h1 := singleHeader_version r r1 kv.1 kv.2 hkv.free hs
      have h2 := ih r1 r' (fun x hx => hpl x (by simp [hx])) h
      exact ⟨h2.1.trans h1.1, h2.2.1.trans h1.2.1, h2.2.2.1.trans h1.2.2.1, h2.2.2.2.1.trans h1.2.2.2.1,
             h2.2.2.2.2.trans h1.2.2.2.2⟩

/-- the field loop of the HTTP/2 parser on version-free fields does to the HTTP/2 view of a request
    record what the HTTP/1.x field loop does to the record -/
theorem h2_fold_plain (o : Opts) (mf : Nat) : ∀ (fs : List (Bytes × Bytes)) (r : PReq) (c : H2Ctx),
    (∀ kv ∈ fs, PlainField o kv) → (c.pseudo = true → ValidPseudo o (asH2 r) c) →
    c.hlen + fieldsSize fs ≤ mf →
    exMap (·.1) (fs.foldl (h2FieldStep o mf) (.ok (asH2 r, c))) = exMap asH2 (applyFields o r fs) ∧
    (∀ r' c', fs.foldl (h2FieldStep o mf) (.ok (asH2 r, c)) = .ok (r', c') →
        (fs ≠ [] → c'.pseudo = false) ∧ (c.ext = false → c'.ext = false)) := by
  intro fs
  induction fs with
  | nil =>
    intro r c _ _ _
    refine ⟨rfl, fun r' c' h => ?_⟩
    simp only [List.foldl_nil, Except.ok.injEq, Prod.mk.injEq] at h
    exact ⟨fun hh => absurd rfl hh, fun he => by rw [← h.2]; exact he⟩
  | cons kv rest ih =>
    intro r c hpl hvp hsz
    have hkv := hpl kv (by simp)
    have hsz1 : c.hlen + kv.1.length + kv.2.length + 4 ≤ mf := by
      simp only [fieldsSize, List.map_cons, List.sum_cons] at hsz; omega
    simp only [List.foldl_cons, h2FieldStep]
    rw [h2Field_plain o mf (asH2 r) c kv hkv hvp rfl hsz1, singleHeader_asH2 _ _ _ hkv.free]
    simp only [applyFields, applyField_plain o r kv hkv]
    cases hs : singleHeader r kv.1 kv.2 with
    | error e =>
      simp only [exMap]
      rw [foldl_h2FieldStep_error]
      exact ⟨rfl, fun r' c' h => by simp at h⟩
    | ok r1 =>
      simp only [exMap]
      have hrest : ∀ kv ∈ rest, PlainField o kv := fun x hx => hpl x (by simp [hx])
      have hsz2 : (c.hlen + kv.1.length + kv.2.length + 4) + fieldsSize rest ≤ mf := by
        simp only [fieldsSize, List.map_cons, List.sum_cons] at hsz ⊢; omega
      have := ih r1 { c with pseudo := false, hlen := c.hlen + kv.1.length + kv.2.length + 4,
                             ext := if c.pseudo then false else c.ext } hrest (by simp) hsz2
      refine ⟨this.1, fun r' c' h => ?_⟩
      have h2 := this.2 r' c' h
      refine ⟨fun _ => ?_, fun he => h2.2 (by simp [he])⟩
      cases hrest' : rest with
      | nil => subst hrest'; simp at h; rw [← h.2]
      | cons x xs => exact h2.1 (by simp [hrest'])

def pre1 (m t : Bytes) : PReq := { version := 1, keepAlive := true, method := m, target := t }
def pre2 : PReq := { version := 2 }
def pseudoFields (m t a : Bytes) : List (Bytes × Bytes) :=
  [(ofString ":method", m), (ofString ":scheme", ofString "http"), (ofString ":path", t), (ofString ":authority", a)]

theorem asH2_setHost (r : PReq) (a : Bytes) : asH2 (setHost r a) = setHost (asH2 r) a := rfl

theorem h2_pseudo_prefix (o : Opts) (mf : Nat) (m t a : Bytes) (hm : methodTable.contains m = true)
    (hmne : m ≠ []) (htne : t ≠ []) (hane : a ≠ []) (halen : a.length < 1024)
    (hsz : fieldsSize (pseudoFields m t a) ≤ mf) :
    (pseudoFields m t a).foldl (h2FieldStep o mf) (.ok (pre2, {})) =
      .ok (asH2 (setHost (pre1 m t) a),
           { pseudo := true, scheme := true, hlen := fieldsSize (pseudoFields m t a), ext := false }) := by
  have e1 : (ofString ":method").isEmpty = false := by decide
  have e2 : (ofString ":scheme").isEmpty = false := by decide
  have e3 : (ofString ":path").isEmpty = false := by decide
  have e4 : (ofString ":authority").isEmpty = false := by decide
  have c1 : (ofString ":method").head? = some colon := by decide
  have c2 : (ofString ":scheme").head? = some colon := by decide
  have c3 : (ofString ":path").head? = some colon := by decide
  have c4 : (ofString ":authority").head? = some colon := by decide
  have n1 : ofString ":method" ≠ ofString ":authority" := by decide
  have n2 : ofString ":scheme" ≠ ofString ":authority" := by decide
  have n3 : ofString ":scheme" ≠ ofString ":method" := by decide
  have n4 : ofString ":scheme" ≠ ofString ":path" := by decide
  have n5 : ofString ":path" ≠ ofString ":authority" := by decide
  have n6 : ofString ":path" ≠ ofString ":method" := by decide
  have hm' : m.isEmpty = false := by simpa using hmne
  have ht' : t.isEmpty = false := by simpa using htne
  have ha' : a.isEmpty = false := by simpa using hane
  have hh : (ofString "http").isEmpty = false := by decide
  simp only [fieldsSize, pseudoFields, List.map_cons, List.map_nil, List.sum_cons, List.sum_nil] at hsz
  have s1 : ¬ (0 + (ofString ":method").length + m.length + 4 > mf) := by omega
  have s2 : ¬ (0 + (ofString ":method").length + m.length + 4 + (ofString ":scheme").length + (ofString "http").length + 4 > mf) := by omega
  have s3 : ¬ (0 + (ofString ":method").length + m.length + 4 + (ofString ":scheme").length + (ofString "http").length + 4
               + (ofString ":path").length + t.length + 4 > mf) := by omega
  have s4 : ¬ (0 + (ofString ":method").length + m.length + 4 + (ofString ":scheme").length + (ofString "http").length + 4
               + (ofString ":path").length + t.length + 4 + (ofString ":authority").length + a.length + 4 > mf) := by omega
  have hal : ¬ (a.length ≥ 1024) := by omega
  simp only [pseudoFields, List.foldl_cons, List.foldl_nil, h2FieldStep, h2Field, e1, e2, e3, e4, c1, c2, c3, c4,
             n1, n2, n3, n4, n5, n6, hm', ht', ha', hh, s1, s2, s3, s4, hal, hm, pre2, Bool.false_eq_true, if_false,
             if_true, Bool.not_true, Bool.not_false, List.isEmpty_nil, Option.isSome_none, fieldsSize,
             List.map_cons, List.map_nil, List.sum_cons, List.sum_nil]
  simp [asH2, setHost, pre1]
  omega

theorem applyFields_host (o : Opts) (m t a : Bytes) (fs : List (Bytes × Bytes)) (hane : a ≠ [])
    (halen : a.length < 1024) (haval : a.any lineCharInvalidStrict = false) :
    applyFields o (pre1 m t) ((ofString "host", a) :: fs) = applyFields o (setHost (pre1 m t) a) fs := by
  have ha' : a.isEmpty = false := by simpa using hane
  have hcls : classifyHeader (ofString "host") = .host := by decide
  have hal : ¬ (a.length ≥ 1024) := by omega
  have htag : hasTag (pre1 m t) (ofString "host") = false := by simp [hasTag, getHeader, pre1]
  simp [applyFields, applyField, ha', haval, singleHeader, hcls, htag, hal]

/-- **the two header parsers store the same request**: the HTTP/2 field loop on
    `:method m, :scheme http, :path t, :authority a` followed by version-free fields `fs` yields the
    HTTP/2 view of what the HTTP/1.x field loop yields on the request line `m t HTTP/1.1`, `Host: a`
    and the same fields — or both reject with the same status -/
theorem h2Fields_spec (o : Opts) (mf : Nat) (m t a : Bytes) (fs : List (Bytes × Bytes))
    (hm : methodTable.contains m = true) (hmne : m ≠ []) (hnc : m ≠ ofString "CONNECT")
    (htsl : t.head? = some slash)
    (htok : (if o.headerStrict then (if o.ctrlsReject then fragmentInvalidStrict t else t.any uriCharInvalidStrict)
             else t.any (fun b => b = 0 || b = cr || b = lf)) = false)
    (hane : a ≠ []) (halen : a.length < 1024) (haval : a.any lineCharInvalidStrict = false)
    (hpl : ∀ kv ∈ fs, PlainField o kv) (hsz : fieldsSize (pseudoFields m t a) + fieldsSize fs ≤ mf) :
    match applyFields o (pre1 m t) ((ofString "host", a) :: fs) with
    | .error e => h2Fields o mf pre2 {} (pseudoFields m t a ++ fs) = .error e
    | .ok r1 => ∃ c, h2Fields o mf pre2 {} (pseudoFields m t a ++ fs) = .ok (asH2 r1, c) ∧ c.ext = false := by
  have htne : t ≠ [] := by intro h; simp [h] at htsl
  rw [applyFields_host o m t a fs hane halen haval]
  unfold h2Fields
  rw [List.foldl_append, h2_pseudo_prefix o mf m t a hm hmne htne hane halen (by omega)]
  have hvp : ValidPseudo o (asH2 (setHost (pre1 m t) a))
      { pseudo := true, scheme := true, hlen := fieldsSize (pseudoFields m t a), ext := false } :=
    ⟨by simpa [asH2, setHost, pre1] using hmne, by simpa [asH2, setHost, pre1] using hnc, rfl,
     by simpa [asH2, setHost, pre1] using htsl, by simpa [asH2, setHost, pre1] using htok⟩
  have hfold := h2_fold_plain o mf fs (setHost (pre1 m t) a)
    { pseudo := true, scheme := true, hlen := fieldsSize (pseudoFields m t a), ext := false } hpl (fun _ => hvp) hsz
  cases hfs : fs with
  | nil =>
    subst hfs
    simp only [List.foldl_nil, if_true, validatePseudo_ok o _ _ hvp, applyFields]
    exact ⟨_, rfl, rfl⟩
  | cons x xs =>
    have hne : fs ≠ [] := by simp [hfs]
    rw [← hfs]
    cases hr : fs.foldl (h2FieldStep o mf)
        (.ok (asH2 (setHost (pre1 m t) a),
              { pseudo := true, scheme := true, hlen := fieldsSize (pseudoFields m t a), ext := false })) with
    | error e =>
      rw [hr] at hfold
      have h1 := hfold.1
      cases ha : applyFields o (setHost (pre1 m t) a) fs with
      | error e' => simp [ha, exMap] at h1; simp [h1]
      | ok r1 => simp [ha, exMap] at h1
    | ok rc =>
      obtain ⟨r', c'⟩ := rc
      have hp := hfold.2 r' c' hr
      rw [hr] at hfold
      have h1 := hfold.1
      cases ha : applyFields o (setHost (pre1 m t) a) fs with
      | error e' => simp [ha, exMap] at h1
      | ok r1 =>
        simp only [ha, exMap, Except.ok.injEq] at h1
        simp only [hp.1 hne, Bool.false_eq_true, if_false]
        exact ⟨c', by rw [← h1], hp.2 rfl⟩

def liftHeadRes : HeadRes → HeadRes
  | .ok r t => .ok (asH2 r) t
  | .err e => .err e
  | .skipV6 => .skipV6

theorem hostPolicy_asH2 (o : Opts) (p : Nat) (r : PReq) (hv : r.version = 1) :
    hostPolicy o p (asH2 r) = (hostPolicy o p r).map (·.map asH2) := by
  unfold hostPolicy
  simp only [show (asH2 r).host = r.host from rfl, show (asH2 r).version = 2 from rfl, hv]
  cases r.host with
  | none => simp
  | some h =>
    simp only []
    split
    · rfl
    · split
      · rfl
      · split
        · rfl
        · rfl

theorem hostPolicy_fields (o : Opts) (p : Nat) (r r' : PReq) (h : hostPolicy o p r = some (some r')) :
    r'.version = r.version ∧ r'.method = r.method ∧ r'.bodyLen = r.bodyLen ∧ r'.clSeen = r.clSeen := by
  unfold hostPolicy at h
  cases hh : r.host with
  | none =>
    simp only [hh] at h
    split at h
    · simp at h
    · simp at h; subst h; simp
  | some x =>
    simp only [hh] at h
    split at h
    · simp at h
    · split at h
      · simp at h
      · split at h
        · simp at h
        · simp at h; subst h; simp

/-- the cross-field rules treat the HTTP/2 view of a bodiless non-POST request without Upgrade /
    HTTP2-Settings like the HTTP/1.1 request itself -/
theorem postChecks_asH2 (o : Opts) (r : PReq) (t : Target) (hv : r.version = 1) (hb : r.bodyLen = 0)
    (hpost : r.method ≠ ofString "POST")
    (hup : (hasTag r (ofString "upgrade") || hasTag r (ofString "http2-settings")) = false) :
    postChecks o (asH2 r) t = liftHeadRes (postChecks o r t) := by
  unfold postChecks
  simp only [show (asH2 r).version = 2 from rfl, show (asH2 r).bodyLen = r.bodyLen from rfl,
             show (asH2 r).method = r.method from rfl, show hasTag (asH2 r) = hasTag r from rfl,
             hv, hb, hup, hpost]
  simp [liftHeadRes]

theorem parsePostV_asH2 (o : Opts) (r : PReq) (hv : r.version = 1)
    (hok : ∀ r', hostPolicy o 80 r = some (some r') →
      r'.bodyLen = 0 ∧ r'.method ≠ ofString "POST" ∧
      (hasTag r' (ofString "upgrade") || hasTag r' (ofString "http2-settings")) = false) :
    parsePostV o 80 false (asH2 r) = liftHeadRes (parsePostV o 80 false r) := by
  unfold parsePostV
  simp only [show (asH2 r).method = r.method from rfl, show (asH2 r).target = r.target from rfl]
  cases parseTarget o ((r.method = ofString "CONNECT" && !false) || (r.method = ofString "OPTIONS" && r.target = [42])) r.target with
  | error e => rfl
  | ok t =>
    simp only [hostPolicy_asH2 o 80 r hv]
    cases hp : hostPolicy o 80 r with
    | none => rfl
    | some x =>
      cases x with
      | none => rfl
      | some r' =>
        simp only [Option.map_some]
        have hf := hostPolicy_fields o 80 r r' hp
        obtain ⟨hb, hm, hu⟩ := hok r' hp
        exact postChecks_asH2 o r' t (by rw [hf.1, hv]) hb hm hu

/-- what the request parsers make of a semantic request: HTTP/1.1 (`m t HTTP/1.1`, `Host: a`, fields)
    and HTTP/2 (`:method m`, `:scheme http`, `:path t`, `:authority a`, fields, END_STREAM) -/
def parseSemH1 (o : Opts) (m t a : Bytes) (fs : List (Bytes × Bytes)) : HeadRes :=
  match applyFields o (pre1 m t) ((ofString "host", a) :: fs) with
  | .error e => .err e
  | .ok r => parsePostV o 80 false r

def parseSemH2 (o : Opts) (mf : Nat) (m t a : Bytes) (fs : List (Bytes × Bytes)) : HeadRes :=
  match h2Fields o mf pre2 {} (pseudoFields m t a ++ fs) with
  | .error e => .err e
  | .ok (r, c) => parsePostV o 80 c.ext r

theorem parseSem_same (o : Opts) (mf : Nat) (m t a : Bytes) (fs : List (Bytes × Bytes))
    (hm : methodTable.contains m = true) (hmne : m ≠ []) (hnc : m ≠ ofString "CONNECT")
    (hnp : m ≠ ofString "POST") (htsl : t.head? = some slash)
    (htok : (if o.headerStrict then (if o.ctrlsReject then fragmentInvalidStrict t else t.any uriCharInvalidStrict)
             else t.any (fun b => b = 0 || b = cr || b = lf)) = false)
    (hane : a ≠ []) (halen : a.length < 1024) (haval : a.any lineCharInvalidStrict = false)
    (hpl : ∀ kv ∈ fs, PlainField o kv) (hsz : fieldsSize (pseudoFields m t a) + fieldsSize fs ≤ mf)
    (hup : ∀ r r', applyFields o (pre1 m t) ((ofString "host", a) :: fs) = .ok r →
      hostPolicy o 80 r = some (some r') →
      (hasTag r' (ofString "upgrade") || hasTag r' (ofString "http2-settings")) = false) :
    parseSemH2 o mf m t a fs = liftHeadRes (parseSemH1 o m t a fs) := by
  have hspec := h2Fields_spec o mf m t a fs hm hmne hnc htsl htok hane halen haval hpl hsz
  unfold parseSemH1 parseSemH2
  cases ha : applyFields o (pre1 m t) ((ofString "host", a) :: fs) with
  | error e =>
    simp only [ha] at hspec
    simp only [hspec]; rfl
  | ok r1 =>
    simp only [ha] at hspec
    obtain ⟨c, hc, hext⟩ := hspec
    simp only [hc, hext]
    have hf : r1.version = 1 ∧ r1.method = m ∧ r1.target = t ∧ r1.bodyLen = 0 ∧ r1.clSeen = false := by
      rw [applyFields_host o m t a fs hane halen haval] at ha
      have := applyFields_plain_fields o fs _ r1 hpl ha
      simpa [setHost, pre1] using this
    apply parsePostV_asH2 o r1 hf.1
    intro r' hr'
    have hh := hostPolicy_fields o 80 r1 r' hr'
    exact ⟨by rw [hh.2.2.1, hf.2.2.2.1], by rw [hh.2.1, hf.2.1]; exact hnp, hup r1 r' ha hr'⟩

end LtVerif.Req
