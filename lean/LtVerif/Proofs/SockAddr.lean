/-
  Helper lemmas for C14 (CIDR): the masks and the byte loop of
  sock_addr_is_addr_eq_bits() compare exactly the first n bits.
-/
import LtVerif.Model.SockAddr
namespace LtVerif.SockAddr

/-! ### CIDR arithmetic -/

theorem beVal_lt : ∀ (l : List UInt8), beVal l < 2 ^ (8 * l.length) := by
  intro l
  induction l with
  | nil => simp [beVal]
  | cons x xs ih =>
    simp only [beVal, List.length_cons]
    have hx := UInt8.toNat_lt x
    have : 2 ^ (8 * (xs.length + 1)) = 2 ^ 8 * 2 ^ (8 * xs.length) := by
      rw [← Nat.pow_add]; congr 1; omega
    rw [this]
    have hpos : 0 < 2 ^ (8 * xs.length) := Nat.pow_pos (by decide)
    calc x.toNat * 2 ^ (8 * xs.length) + beVal xs
        < x.toNat * 2 ^ (8 * xs.length) + 2 ^ (8 * xs.length) := by omega
      _ = (x.toNat + 1) * 2 ^ (8 * xs.length) := by rw [Nat.add_mul]; simp
      _ ≤ 2 ^ 8 * 2 ^ (8 * xs.length) := Nat.mul_le_mul_right _ (by omega)

/-- masking with "all ones above bit k" (within w bits) compares exactly the bits ≥ k -/
theorem and_highmask_eq_iff {w k x y : Nat} (hk : k ≤ w) (hx : x < 2 ^ w) (hy : y < 2 ^ w) :
    (x &&& ((2 ^ w - 1) ^^^ (2 ^ k - 1)) = y &&& ((2 ^ w - 1) ^^^ (2 ^ k - 1))) ↔
      x >>> k = y >>> k := by
  have hm : ∀ i, ((2 ^ w - 1) ^^^ (2 ^ k - 1)).testBit i = (decide (k ≤ i) && decide (i < w)) := by
    intro i
    rw [Nat.testBit_xor, Nat.testBit_two_pow_sub_one, Nat.testBit_two_pow_sub_one]
    by_cases h1 : i < w <;> by_cases h2 : i < k <;> simp [h1, h2] <;> omega
  have hbig : ∀ {z i : Nat}, z < 2 ^ w → w ≤ i → z.testBit i = false := by
    intro z i hz hi
    exact Nat.testBit_lt_two_pow (Nat.lt_of_lt_of_le hz (Nat.pow_le_pow_right (by decide) hi))
  constructor
  · intro h
    apply Nat.eq_of_testBit_eq
    intro i
    rw [Nat.testBit_shiftRight, Nat.testBit_shiftRight]
    by_cases hi : k + i < w
    · have := congrArg (fun z => z.testBit (k + i)) h
      simp only [Nat.testBit_and, hm] at this
      have h1 : decide (k ≤ k + i) = true := by simp
      have h2 : decide (k + i < w) = true := by simp [hi]
      simpa [h1, h2] using this
    · rw [hbig hx (by omega), hbig hy (by omega)]
  · intro h
    apply Nat.eq_of_testBit_eq
    intro i
    rw [Nat.testBit_and, Nat.testBit_and, hm]
    by_cases h1 : k ≤ i
    · by_cases h2 : i < w
      · have := congrArg (fun z => z.testBit (i - k)) h
        simp only [Nat.testBit_shiftRight] at this
        have hik : k + (i - k) = i := by omega
        rw [hik] at this
        simp [h1, h2, this]
      · simp [h2]
    · simp [h1]


theorem shift_add_le {P X s m : Nat} (hs : s ≤ m) :
    (P * 2 ^ m + X) >>> s = P * 2 ^ (m - s) + X >>> s := by
  rw [Nat.shiftRight_eq_div_pow, Nat.shiftRight_eq_div_pow]
  have h2 : 2 ^ m = 2 ^ (m - s) * 2 ^ s := by rw [← Nat.pow_add]; congr 1; omega
  rw [h2, ← Nat.mul_assoc, Nat.add_comm, Nat.add_mul_div_right _ _ (Nat.pow_pos (by decide)),
    Nat.add_comm]

theorem shift_add_ge {P X s m : Nat} (hX : X < 2 ^ m) (hs : m ≤ s) :
    (P * 2 ^ m + X) >>> s = P >>> (s - m) := by
  have : s = m + (s - m) := by omega
  rw [this, Nat.shiftRight_add]
  congr 1
  · rw [Nat.shiftRight_eq_div_pow, Nat.add_comm, Nat.add_mul_div_right _ _ (Nat.pow_pos (by decide)),
      Nat.div_eq_of_lt hX]
    simp
  · omega

theorem shift_lt {X s m : Nat} (hX : X < 2 ^ m) (hs : s ≤ m) : X >>> s < 2 ^ (m - s) := by
  rw [Nat.shiftRight_eq_div_pow, Nat.div_lt_iff_lt_mul (Nat.pow_pos (by decide)), ← Nat.pow_add]
  have : m - s + s = m := by omega
  rw [this]; exact hX

theorem mul_add_inj {K P Q A B : Nat} (hA : A < K) (hB : B < K) :
    P * K + A = Q * K + B ↔ P = Q ∧ A = B := by
  constructor
  · intro h
    have hK : 0 < K := by omega
    have h1 : (P * K + A) / K = P := by
      rw [Nat.add_comm, Nat.add_mul_div_right _ _ hK, Nat.div_eq_of_lt hA]; simp
    have h2 : (Q * K + B) / K = Q := by
      rw [Nat.add_comm, Nat.add_mul_div_right _ _ hK, Nat.div_eq_of_lt hB]; simp
    have hPQ : P = Q := by rw [← h1, ← h2, h]
    subst hPQ
    exact ⟨rfl, by omega⟩
  · rintro ⟨h1, h2⟩; rw [h1, h2]

/-- the byte loop of the AF_INET6 branch compares exactly the first `n` bits -/
theorem eqBits6_iff : ∀ (a b : List UInt8) (n : Nat), a.length = b.length → 1 ≤ n →
    n ≤ 8 * a.length →
    (eqBits6 a b n = true ↔
      beVal a >>> (8 * a.length - n) = beVal b >>> (8 * a.length - n)) := by
  intro a
  induction a with
  | nil => intro b n _ h1 h2; simp at h2; omega
  | cons c cs ih =>
    intro b n hlen h1 h2
    cases b with
    | nil => simp at hlen
    | cons d ds =>
      have hl : cs.length = ds.length := by simpa using hlen
      simp only [List.length_cons] at h2 ⊢
      have hcs := beVal_lt cs
      have hds := beVal_lt ds
      rw [hl.symm] at hds
      simp only [beVal, ← hl]
      rw [eqBits6]
      by_cases h8 : n ≥ 8
      · simp only [h8, if_true]
        have hs : 8 * (cs.length + 1) - n ≤ 8 * cs.length := by omega
        rw [shift_add_le hs, shift_add_le hs, mul_add_inj (shift_lt hcs hs) (shift_lt hds hs)]
        have hcd : (c == d) = true ↔ c.toNat = d.toNat := by
          rw [beq_iff_eq]; exact ⟨fun h => by rw [h], fun h => UInt8.toNat_inj.mp h⟩
        by_cases hn8 : n - 8 > 0
        · simp only [hn8, if_true, Bool.and_eq_true, hcd]
          have := ih ds (n - 8) hl (by omega) (by omega)
          have hse : 8 * cs.length - (n - 8) = 8 * (cs.length + 1) - n := by omega
          rw [hse] at this
          rw [this]
        · simp only [hn8, if_false, Bool.and_true, hcd]
          have hn : n = 8 := by omega
          subst hn
          have hse : 8 * (cs.length + 1) - 8 = 8 * cs.length := by omega
          rw [hse, Nat.shiftRight_eq_div_pow, Nat.shiftRight_eq_div_pow, Nat.div_eq_of_lt hcs,
            Nat.div_eq_of_lt hds]
          simp
      · simp only [h8, if_false]
        have hs : 8 * cs.length ≤ 8 * (cs.length + 1) - n := by omega
        rw [shift_add_ge hcs hs, shift_add_ge hds hs]
        have hse : 8 * (cs.length + 1) - n - 8 * cs.length = 8 - n := by omega
        rw [hse, beq_iff_eq]


theorem addrEqBits_v4_iff {a b : List UInt8} {n : Nat} (ha : a.length = 4) (hb : b.length = 4)
    (h1 : 1 ≤ n) (h2 : n ≤ 32) :
    addrEqBits (.v4 a) (.v4 b) n = true ↔ beVal a >>> (32 - n) = beVal b >>> (32 - n) := by
  have hx := beVal_lt a
  have hy := beVal_lt b
  rw [ha] at hx; rw [hb] at hy
  have h32 : ¬ n > 32 := by omega
  have h0 : n ≠ 0 := by omega
  simp only [addrEqBits, mask4, h32, if_false, h0, ne_eq, not_false_eq_true, if_true, beq_iff_eq]
  exact and_highmask_eq_iff (w := 32) (k := 32 - n) (by omega) hx hy

theorem addrEqBits_v6_iff {a b : List UInt8} {n : Nat} (ha : a.length = 16) (hb : b.length = 16)
    (h1 : 1 ≤ n) (h2 : n ≤ 128) :
    addrEqBits (.v6 a) (.v6 b) n = true ↔ beVal a >>> (128 - n) = beVal b >>> (128 - n) := by
  have h128 : ¬ n > 128 := by omega
  simp only [addrEqBits, h128, if_false]
  have := eqBits6_iff a b n (by rw [ha, hb]) h1 (by rw [ha]; omega)
  rw [ha] at this
  exact this

/-- the IPv4-mapped IPv6 form ::ffff:a.b.c.d of an IPv4 address -/
def v4mapped (b : List UInt8) : List UInt8 := List.replicate 10 0 ++ [0xff, 0xff] ++ b

theorem beVal_append (x y : List UInt8) :
    beVal (x ++ y) = beVal x * 2 ^ (8 * y.length) + beVal y := by
  induction x with
  | nil => simp [beVal]
  | cons c cs ih =>
    simp only [List.cons_append, beVal, ih, List.length_append]
    rw [Nat.add_mul, Nat.mul_assoc, ← Nat.pow_add, Nat.add_assoc]
    congr 3
    omega

theorem ones_shiftRight {w j : Nat} (hj : j ≤ w) : (2 ^ w - 1) >>> j = 2 ^ (w - j) - 1 := by
  apply Nat.eq_of_testBit_eq
  intro i
  rw [Nat.testBit_shiftRight, Nat.testBit_two_pow_sub_one, Nat.testBit_two_pow_sub_one]
  congr 1
  apply propext
  omega

theorem v4mapped_split {a : List UInt8} (h : isV4Mapped a = true) :
    a = List.replicate 10 0 ++ [0xff, 0xff] ++ low4 a := by
  simp only [isV4Mapped, Bool.and_eq_true, beq_iff_eq] at h
  have h1 := List.take_append_drop 10 a
  have h2 := List.take_append_drop 2 (a.drop 10)
  rw [List.drop_drop] at h2
  rw [h.1] at h1
  rw [h.2] at h2
  simp only [low4]
  rw [List.append_assoc, h2, h1]

/-- an IPv4 peer is compared with an IPv4-mapped IPv6 network exactly as its mapped form -/
theorem addrEqBits_v6_v4 {a b : List UInt8} {n : Nat} (ha : a.length = 16) (hb : b.length = 4)
    (h1 : 1 ≤ n) (h2 : n ≤ 128) (hm : isV4Mapped a = true) :
    addrEqBits (.v6 a) (.v4 b) n = addrEqBits (.v6 a) (.v6 (v4mapped b)) n := by
  have hb16 : (v4mapped b).length = 16 := by simp [v4mapped, hb]
  rw [Bool.eq_iff_iff, addrEqBits_v6_iff ha hb16 h1 h2]
  have hsplit := v4mapped_split hm
  have hl4 : (low4 a).length = 4 := by simp [low4, ha]
  have hX := beVal_lt (low4 a)
  have hY := beVal_lt b
  rw [hl4] at hX; rw [hb] at hY
  have h128 : ¬ n > 128 := by omega
  simp only [addrEqBits, h128, if_false, hm, Bool.true_and, beq_iff_eq]
  have hA : beVal a = beVal (List.replicate 10 0 ++ [0xff, 0xff]) * 2 ^ 32 + beVal (low4 a) := by
    conv => lhs; rw [hsplit]
    rw [beVal_append, hl4]
  have hB : beVal (v4mapped b) = beVal (List.replicate 10 0 ++ [0xff, 0xff]) * 2 ^ 32 + beVal b := by
    rw [v4mapped, beVal_append, hb]
  rw [hA, hB]
  by_cases h96 : n ≤ 96
  · -- the mask is empty; both mapped forms share the first 96 bits
    have hmask : mask4of6 n = 0 := by
      have : n < 128 := by omega
      have h96' : ¬ n > 96 := by omega
      simp [mask4of6, this, h96']
    rw [hmask]
    simp only [Nat.and_zero, true_iff]
    rw [shift_add_ge hX (by omega), shift_add_ge hY (by omega)]
  · by_cases hlt : n < 128
    · have hmask : mask4of6 n = (2 ^ 32 - 1) ^^^ (2 ^ (128 - n) - 1) := by
        have h96' : n > 96 := by omega
        simp only [mask4of6, hlt, if_true, h96']
        rw [ones_shiftRight (by omega)]
        congr 3
        omega
      rw [hmask, and_highmask_eq_iff (w := 32) (k := 128 - n) (by omega) hX hY]
      have hs : 128 - n ≤ 32 := by omega
      rw [shift_add_le hs, shift_add_le hs, mul_add_inj (shift_lt hX hs) (shift_lt hY hs)]
      simp
    · have hn : n = 128 := by omega
      subst hn
      have hmask : mask4of6 128 = (2 ^ 32 - 1) ^^^ (2 ^ 0 - 1) := by simp [mask4of6]
      rw [hmask, and_highmask_eq_iff (w := 32) (k := 0) (by omega) hX hY]
      simp

theorem addrEqBits_v6_v4_unmapped {a b : List UInt8} {n : Nat} (hm : isV4Mapped a = false) :
    addrEqBits (.v6 a) (.v4 b) n = false := by
  simp [addrEqBits, hm]

end LtVerif.SockAddr
