/-
  C01 — HTTP/1.x request framing is unambiguous; malformed framing is rejected.
  Property theorems only; helper lemmas live in LtVerif/Proofs/H1*.lean.
-/
import LtVerif.Model.H1Parse
import LtVerif.Proofs.H1Chunked
import LtVerif.Proofs.H1Parse
import LtVerif.Proofs.H1Conn
namespace LtVerif.C01
open LtVerif B

/-! ## chunked request bodies (h1_chunked) -/

/-- segmentation independence of the chunked decoder automaton: feeding a stream in two
    pieces is the same as feeding it at once (hence the same for any segmentation). -/
theorem c01_chunked_segmentation (cfg : CkCfg) (s : CkSt) (a b : Bytes) :
    ckFeed cfg (ckFeed cfg s a) b = ckFeed cfg s (a ++ b) := by
  simp [ckFeed, List.foldl_append]

/-- wire form of a chunked body whose chunks use arbitrary accepted size lines -/
def wire (cs : List (Bytes × Bytes)) (last : Bytes) : Bytes :=
  cs.flatMap (fun c => c.1 ++ c.2 ++ [cr, lf]) ++ (last ++ [cr, lf])

/-- Round trip: every chunked message (any number of non-empty chunks, any accepted spelling
    of the chunk-size lines incl. chunk extensions, no trailers) decodes to exactly the
    concatenation of the chunk data, consumes exactly the message, and leaves keep-alive on. -/
theorem c01_chunked_roundtrip (cfg : CkCfg) (hcfg : cfg.maxSize = 0) (hmf : cfg.maxField ≥ 1026)
    (cs : List (Bytes × Bytes)) (last : Bytes)
    (hcs : ∀ c ∈ cs, GoodLine c.1 c.2.length ∧ c.2 ≠ []) (hlast : GoodLine last 0) :
    ckFeed cfg {} (wire cs last) =
      { mode := .done, out := cs.flatMap (·.2), ka := true, after := 0 } := by
  suffices h : ∀ (out : Bytes), ckFeed cfg { mode := .hdr [] false, out := out, ka := true, after := 0 }
      (wire cs last) = { mode := .done, out := out ++ cs.flatMap (·.2), ka := true, after := 0 } by
    simpa using h []
  induction cs with
  | nil => intro out; simpa [wire] using ckFeed_final cfg hmf hlast out true 0
  | cons c rest ih =>
    intro out
    have hc := hcs c (by simp)
    have hrest : ∀ c ∈ rest, GoodLine c.1 c.2.length ∧ c.2 ≠ [] := fun x hx => hcs x (by simp [hx])
    have : wire (c :: rest) last = (c.1 ++ c.2 ++ [cr, lf]) ++ wire rest last := by
      simp [wire]
    rw [this, ckFeed_append, ckFeed_chunk cfg hcfg hc.1 hc.2, ih hrest]
    simp

/-- wire form with a trailer section `tr` behind the last-chunk line (everything up to and including the
    final CRLF; `wire cs last = wireT cs last [cr, lf]`) -/
def wireT (cs : List (Bytes × Bytes)) (last tr : Bytes) : Bytes :=
  cs.flatMap (fun c => c.1 ++ c.2 ++ [cr, lf]) ++ (last ++ tr)

/-- **Chunked bodies with trailers are framed exactly.**  Any chunks in any accepted spelling, a last-chunk
    line, and a trailer section (`TrailerOk`: NUL-free, ending at its first CRLFCRLF, within
    max-request-field-size): the decoder ends exactly at the end of the trailer section with the concatenated
    chunk data, keep-alive on, and every following byte only counts as `after` -- trailer bytes, whatever they
    spell, are never the start of a request, and the next request starts right behind them. -/
theorem c01_chunked_trailers_framed (cfg : CkCfg) (hcfg : cfg.maxSize = 0)
    (cs : List (Bytes × Bytes)) (last tr next : Bytes)
    (hcs : ∀ c ∈ cs, GoodLine c.1 c.2.length ∧ c.2 ≠ []) (hlast : GoodLine last 0) (ht : TrailerOk cfg last tr) :
    ckFeed cfg {} (wireT cs last tr ++ next) =
      { mode := .done, out := cs.flatMap (·.2), ka := true, after := next.length } := by
  have h1 : ckFeed cfg {} (wireT cs last tr) = { mode := .done, out := cs.flatMap (·.2), ka := true, after := 0 } := by
    suffices h : ∀ (out : Bytes), ckFeed cfg { mode := .hdr [] false, out := out, ka := true, after := 0 }
        (wireT cs last tr) = { mode := .done, out := out ++ cs.flatMap (·.2), ka := true, after := 0 } by
      simpa using h []
    induction cs with
    | nil => intro out; simpa [wireT] using ckFeed_final_trailers cfg hlast ht out true 0
    | cons c rest ih =>
      intro out
      have hc := hcs c (by simp)
      have hrest : ∀ c ∈ rest, GoodLine c.1 c.2.length ∧ c.2 ≠ [] := fun x hx => hcs x (by simp [hx])
      have : wireT (c :: rest) last tr = (c.1 ++ c.2 ++ [cr, lf]) ++ wireT rest last tr := by
        simp [wireT]
      rw [this, ckFeed_append, ckFeed_chunk cfg hcfg hc.1 hc.2, ih hrest]
      simp
  rw [ckFeed_append, h1]
  generalize (cs.flatMap (·.2)) = out
  suffices h : ∀ k, ckFeed cfg { mode := .done, out := out, ka := true, after := k } next
      = { mode := .done, out := out, ka := true, after := k + next.length } by simpa using h 0
  induction next with
  | nil => intro k; simp [ckFeed_nil]
  | cons b rest ih => intro k; rw [ckFeed_cons]; simp [ckStep, ih]; omega

/-- Bytes that follow a complete chunked body are not consumed by it (they are the next
    request): they only advance the `after` counter. -/
theorem c01_chunked_no_overread (cfg : CkCfg) (hcfg : cfg.maxSize = 0) (hmf : cfg.maxField ≥ 1026)
    (cs : List (Bytes × Bytes)) (last next : Bytes)
    (hcs : ∀ c ∈ cs, GoodLine c.1 c.2.length ∧ c.2 ≠ []) (hlast : GoodLine last 0) :
    ckFeed cfg {} (wire cs last ++ next) =
      { mode := .done, out := cs.flatMap (·.2), ka := true, after := next.length } := by
  rw [ckFeed_append, c01_chunked_roundtrip cfg hcfg hmf cs last hcs hlast]
  generalize (cs.flatMap (·.2)) = out
  suffices h : ∀ k, ckFeed cfg { mode := .done, out := out, ka := true, after := k } next
      = { mode := .done, out := out, ka := true, after := k + next.length } by simpa using h 0
  induction next with
  | nil => intro k; simp [ckFeed_nil]
  | cons b rest ih => intro k; rw [ckFeed_cons]; simp [ckStep, ih]; omega

/-- Malformed framing: chunk data not followed by CRLF is a 400 and clears keep-alive. -/
theorem c01_chunked_missing_crlf_rejected (cfg : CkCfg) (s : CkSt) (d : Bytes) (x y : UInt8)
    (hd : d ≠ []) (hm : s.mode = .data d.length) (hxy : ¬ (x = cr ∧ y = lf)) :
    (ckFeed cfg s (d ++ [x, y])).mode = .err 400 ∧ (ckFeed cfg s (d ++ [x, y])).ka = false := by
  obtain ⟨mode, out, ka, after⟩ := s
  simp only at hm
  subst hm
  rw [ckFeed_append, ckFeed_data cfg d d.length out ka after hd rfl]
  simp only [ckFeed_cons, ckFeed_nil, ckStep]
  by_cases h1 : x = cr <;> by_cases h2 : y = lf <;> simp_all

/-- **Chunk-size lines against the grammar (soundness).**  Whatever line the decoder accepts as a chunk-size
    line of value `n` is a `SizeLine`: `1*HEXDIG` of value `n`, optional whitespace, optionally `;` and an
    extension without control characters, CRLF, at most 1023 bytes -- `SizeLine` is stated without reference to
    the decoder (Proofs/H1Chunked.lean).  It is RFC 9112 §7.1 with chunk-ext relaxed to "no control
    characters": no bare CR or LF, no NUL, no other CTL anywhere in the line. -/
theorem c01_chunked_size_line_grammar (p : Bytes) (n : Nat) (h : ckParseLine (p ++ [lf]) = .ok n) :
    SizeLine (p ++ [lf]) n :=
  ckParseLine_sound p n h

/-- **Malformed chunk framing is rejected.**  A complete line (NUL-free, shorter than 1024) where a chunk-size
    line is expected that is NOT a `SizeLine` of any value puts the decoder into its error state -- status 400,
    keep-alive off (and by `c01_reject_closes` the connection closes). -/
theorem c01_chunked_malformed_size_line_rejected (cfg : CkCfg) (p : Bytes) (out : Bytes) (ka : Bool)
    (hlf : lf ∉ p) (hnul : (0 : UInt8) ∉ p) (hlen : p.length + 1 < 1024)
    (hbad : ∀ n, ¬ SizeLine (p ++ [lf]) n) :
    ∃ e, (ckFeed cfg { mode := .hdr [] false, out := out, ka := ka, after := 0 } (p ++ [lf])).mode = .err e ∧
         (ckFeed cfg { mode := .hdr [] false, out := out, ka := ka, after := 0 } (p ++ [lf])).ka = false := by
  cases hp : ckParseLine (p ++ [lf]) with
  | ok n => exact absurd (ckParseLine_sound p n hp) (hbad n)
  | error e =>
    refine ⟨e, ?_⟩
    rw [ckFeed_append, ckFeed_hdr_pre cfg p [] out ka 0 hlf hnul (by simp; omega)]
    simp [ckFeed_cons, ckFeed_nil, ckStep, hp]

/-- the validator rejects what RFC 9112 §7.1 does not allow at the start of a chunk-size line:
    no hex digit, bare LF, or junk after the size that is neither BWS, ';' nor CR -/
theorem c01_chunked_line_no_hex (l : Bytes) (h : (l.head?.bind hexVal) = none) :
    ckParseLine l = .error 400 := by
  unfold ckParseLine
  cases l with
  | nil => simp [ckHex]
  | cons b rest =>
    simp only [List.head?_cons, Option.bind_some] at h
    simp [ckHex, h]

/-- every reachable error state has keep-alive cleared (invariant over all inputs) -/
theorem c01_chunked_error_closes (cfg : CkCfg) (bs : Bytes) :
    ∀ (s : CkSt), ((∃ e, s.mode = .err e) → s.ka = false) →
      ((∃ e, (ckFeed cfg s bs).mode = .err e) → (ckFeed cfg s bs).ka = false) := by
  induction bs with
  | nil => intro s hs; simpa [ckFeed_nil] using hs
  | cons b rest ih =>
    intro s hs
    rw [ckFeed_cons]
    apply ih
    intro ⟨e', he'⟩
    obtain ⟨mode, out, ka, after⟩ := s
    cases mode with
    | hdr acc nul =>
      by_cases h1 : (b = lf && !nul) = true
      · cases hp : ckParseLine (acc ++ [b]) with
        | error e => simp [ckStep, h1, hp]
        | ok n =>
          cases n with
          | zero => simp [ckStep, h1, hp] at he'
          | succ k =>
            by_cases h2 : ¬cfg.maxSize = 0 ∧ (cfg.maxSize < k + 1 ∨ cfg.maxSize - (k + 1) < List.length out)
            · simp [ckStep, h1, hp, h2]
            · simp [ckStep, h1, hp, h2] at he'
      · by_cases h3 : 1023 ≤ List.length acc
        · simp [ckStep, h1, h3]
        · simp [ckStep, h1, h3] at he'
    | data n => simp only [ckStep] at he'; split at he' <;> simp at he'
    | crlf f =>
      cases f with
      | none => simp [ckStep] at he'
      | some a => simp only [ckStep] at he' ⊢; split <;> simp_all
    | trailer acc off nul => simp only [ckStep] at he'; split at he' <;> (try split at he') <;> simp at he'
    | done => simp [ckStep] at he'
    | err e0 => simpa [ckStep] using hs ⟨e0, rfl⟩

/-- from the initial state: an error outcome always has keep-alive cleared -/
theorem c01_chunked_error_closes_init (cfg : CkCfg) (bs : Bytes) (e : Nat)
    (h : (ckFeed cfg {} bs).mode = .err e) : (ckFeed cfg {} bs).ka = false :=
  c01_chunked_error_closes cfg bs {} (by simp) ⟨e, h⟩

theorem c01_chunked_error_absorbing (cfg : CkCfg) (s : CkSt) (e : Nat) (bs : Bytes)
    (h : s.mode = .err e) : ckFeed cfg s bs = s := by
  induction bs with
  | nil => rfl
  | cons b rest ih =>
    rw [ckFeed_cons]
    have : ckStep cfg s b = s := by
      obtain ⟨mode, out, ka, after⟩ := s
      simp only at h; subst h; simp [ckStep]
    rw [this, ih]

/-! non-vacuity: concrete accepted size lines, incl. a chunk extension and leading zeros -/
example : GoodLine (ofString "5;x=y\r\n") 5 :=
  ⟨by rfl, ⟨ofString "5;x=y\r", by decide, by decide, by decide⟩, by decide⟩
example : GoodLine (ofString "000\r\n") 0 :=
  ⟨by rfl, ⟨ofString "000\r", by decide, by decide, by decide⟩, by decide⟩
example : ckFeed {} {} (ofString "5\r\nhello\r\n0\r\n\r\nGET") =
    { mode := .done, out := ofString "hello", ka := true, after := 3 } := by decide
example : (ckFeed {} {} (ofString "5\r\nhello\rX")).mode = .err 400 := by decide
example : ckParseLine (ofString "5 x\r\n") = .error 400 := by rfl
-- bare CR / control character inside a chunk-size line (accepted before the repair of h1_chunked)
example : (ckFeed {} {} (ofString "5\rXYZ\r\nhello")).mode = .err 400 := by decide
example : (ckFeed {} {} (ofString "5;\x01\r\nhello")).mode = .err 400 := by decide
example : SizeLine (ofString "5;x=y\r\n") 5 :=
  ⟨⟨ofString "5", [], ofString ";x=y", by decide, by decide, by decide, by decide, by decide, .inr ⟨by decide, by decide⟩⟩,
   by decide⟩

/-! ## request head (request.c): what an ACCEPTED head looks like, read off the byte block

  The per-stage statements (request line, one field, field section, cross-field step) are helper
  lemmas `stage_*` in Proofs/H1Parse.lean.  The theorems here are about `parseHead` applied to a byte
  block: `c01_parseHead_ok_decompose` exhibits the lines of the block and the records of the stages,
  the `c01_accepted_*` theorems say what then holds -- each clause of the "always rejected" list is the
  contrapositive of one conjunct. -/

/-- a reading of the first `len` bytes of a block: request line, physical field lines, blank line,
    and the records after the request line (`r0`) and after the field section (`r1`), the latter
    produced from the tokenised fields `fs` -/
structure Reading where
  rl : Bytes
  fields : List Bytes
  bl : Bytes
  len : Nat
  r0 : PReq
  r1 : PReq
  fs : List (Bytes × Bytes)

structure IsReading (o : Opts) (mf p : Nat) (block : Bytes) (r : PReq) (t : Target) (R : Reading) : Prop where
  /-- the lines ARE the first `len` bytes of the block, up to and including its first blank line -/
  bytes : block.take R.len = (R.rl :: R.fields).flatten ++ R.bl
  blank : isBlankLine R.bl = true
  size : R.len ≤ mf
  lines : ∀ l ∈ R.rl :: R.fields, isBlankLine l = false ∧ l.getLast? = some lf
  termStrict : o.headerStrict = true → R.bl = [cr, lf]
  reqline : parseReqline o R.rl (block.take R.len) = .ok R.r0
  tokens : (groupFolds R.fields).map (fieldOf o) = R.fs.map Except.ok
  applied : applyFields o R.r0 R.fs = .ok R.r1
  post : parsePost o p R.r1 = .ok r t

/-- **Decomposition.**  Whatever byte block `parseHead` accepts has a reading: its first bytes are a
    request line, field lines and a blank line (CRLF in strict mode); the request line step accepts the
    first, every logical field line tokenises, the fields are accepted in order starting from the
    request line's record, and the cross-field step accepts the result. -/
theorem c01_parseHead_ok_decompose (o : Opts) (mf p : Nat) (block : Bytes) (r : PReq) (t : Target)
    (h : parseHead o mf p block = .ok r t) : ∃ R, IsReading o mf p block r t R := by
  obtain ⟨rl, fields, len, r0, r1, hrh, hrl, hterm, hph, hpp⟩ := parseHead_ok_decompose h
  obtain ⟨bl, hbl, htake, hlen, hsz, hne, hl⟩ := recvHead_head_bytes hrh
  obtain ⟨fs, htok, happ⟩ := (parseHeaders_ok_iff o r0 r1 fields).mp hph
  exact ⟨⟨rl, fields, bl, len, r0, r1, fs⟩,
    ⟨htake, hbl, hsz, hl,
     fun hs => strict_terminator_crlf hbl htake hlen hne (fun l hx => (hl l hx).2) (hterm hs),
     hrl, htok, happ, hpp⟩⟩

/-- the records of a reading: the request line's record is fresh and carries a known method; fields and the
    cross-field step leave method, target and version alone -/
theorem c01_reading_records {o : Opts} {mf p : Nat} {block : Bytes} {r : PReq} {t : Target} {R : Reading}
    (hR : IsReading o mf p block r t R) :
    Fresh R.r0 ∧ methodTable.contains r.method = true ∧ r.method = R.r0.method ∧ r.target = R.r0.target ∧
    r.target ≠ [] ∧ r.bodyLen = R.r1.bodyLen := by
  have hq := parseReqline_ok hR.reqline
  obtain ⟨k1, k2, _⟩ := applyFields_keeps o R.fs R.r0 R.r1 hR.applied
  obtain ⟨p1, _, p3, p4, _, _⟩ := parsePost_ok_keeps hR.post
  refine ⟨hq.fresh, ?_, p3.trans k2, p4.trans k1, ?_, p1⟩
  · rw [p3, k2]; exact hq.method
  · rw [p4, k1]; exact hq.target

/-- **Accepted heads are framed unambiguously (every mode).**  Among the tokenised fields of an accepted
    block: at most one Content-Length, non-empty, all digits, < 2^63; at most one Transfer-Encoding, non-empty,
    exactly `chunked` (any case), and only on HTTP/1.1; the framing reported is the RFC 9112 §6.3 rule
    (chunked iff Transfer-Encoding present, else the Content-Length value, else no body); and a request with
    both fields is accepted only outside strict mode and then loses keep-alive.
    Contrapositives: repeated / empty / non-numeric / overflowing Content-Length, empty or repeated
    Transfer-Encoding, Transfer-Encoding other than chunked or on HTTP/1.0, and (strict) Content-Length
    together with Transfer-Encoding are rejected. -/
theorem c01_accepted_head_framing {o : Opts} {mf p : Nat} {block : Bytes} {r : PReq} {t : Target} {R : Reading}
    (hR : IsReading o mf p block r t R) :
    (R.fs.filter (fun f => f.1 = nCL)).length ≤ 1 ∧
    (∀ v, (nCL, v) ∈ R.fs → v ≠ [] ∧ ∃ k : Nat, strtoInt64 v = some k) ∧
    (R.fs.filter (fun f => f.1 = nTE)).length ≤ 1 ∧
    (∀ v, (nTE, v) ∈ R.fs → v ≠ [] ∧ eqIcase v vChunked = true ∧ r.version = 1) ∧
    (r.bodyLen = -1 ↔ ∃ v, (nTE, v) ∈ R.fs) ∧
    (r.bodyLen ≠ -1 → ∀ v, (nCL, v) ∈ R.fs → strtoInt64 v = some r.bodyLen.toNat ∧ 0 ≤ r.bodyLen) ∧
    (r.bodyLen ≠ -1 → (¬ ∃ v, (nCL, v) ∈ R.fs) → r.bodyLen = 0) ∧
    ((∃ v, (nTE, v) ∈ R.fs) → (∃ v, (nCL, v) ∈ R.fs) → o.headerStrict = false ∧ r.keepAlive = false) := by
  have hq := parseReqline_ok hR.reqline
  have inv := FramingInv.run R.fs (FramingInv.init o R.r0 hq.fresh.1 hq.fresh.2) hR.applied
  simp only [List.nil_append] at inv
  obtain ⟨p1, p2, _, _, _, p6⟩ := parsePost_ok_keeps hR.post
  rw [p1]
  refine ⟨inv.clOnce, ?_, inv.teOnce, ?_, inv.chunked, ?_, ?_, ?_⟩
  · intro v hv
    obtain ⟨h1, k, hk, _⟩ := inv.clNum v hv
    exact ⟨h1, k, hk⟩
  · intro v hv
    obtain ⟨h1, h2, h3⟩ := inv.te v hv
    exact ⟨h1, h2, by rw [p2, inv.version]; exact h3⟩
  · intro hne v hv
    obtain ⟨_, k, hk, hb⟩ := inv.clNum v hv
    rcases hb with hb | hb
    · rw [hb]; simp [hk]
    · exact absurd hb hne
  · intro hne hno
    rcases inv.noCl hno with h0 | h1
    · exact h0
    · exact absurd h1 hne
  · intro hte hcl
    exact p6 (inv.chunked.mpr hte) (inv.clSeen.mpr hcl)

/-- **Strict mode (default): line ends, whitespace, control characters.**  In an accepted block the request
    line ends in CRLF, the blank line that ends the head is CRLF, every logical field line -- folded or not --
    unfolds to a line ending in CRLF with CRLF at every fold, no field has whitespace before its colon, and no
    field value holds a control character other than HT.
    Contrapositives: bare LF anywhere (request line, field line, fold, terminating blank line), whitespace before
    the colon, control character in a field value are rejected. -/
theorem c01_accepted_head_strict {o : Opts} {mf p : Nat} {block : Bytes} {r : PReq} {t : Target} {R : Reading}
    (hR : IsReading o mf p block r t R) (hs : o.headerStrict = true) :
    R.bl = [cr, lf] ∧ R.rl.getD (R.rl.length - 2) 0 = cr ∧
    (∀ g ∈ groupFolds R.fields, ∃ j body, joinFolds true g = some j ∧ stripEol true j = some body ∧
        j.length ≥ 2 ∧ j.getD (j.length - 2) 0 = cr) ∧
    (∀ first conts ci, (first :: conts) ∈ groupFolds R.fields → findIdx (· = colon) first 0 = some ci →
        ((first.take ci).getLast?.map isWs).getD false = false) ∧
    (∀ f ∈ R.fs, f.2.any lineCharInvalidStrict = false) := by
  have hq := parseReqline_ok hR.reqline
  have inv := FramingInv.run R.fs (FramingInv.init o R.r0 hq.fresh.1 hq.fresh.2) hR.applied
  simp only [List.nil_append] at inv
  -- every logical line tokenises
  have htokAll : ∀ g ∈ groupFolds R.fields, ∃ f, fieldOf o g = .ok f := by
    intro g hg
    have hm : fieldOf o g ∈ (groupFolds R.fields).map (fieldOf o) := List.mem_map_of_mem hg
    rw [hR.tokens] at hm
    obtain ⟨f, _, hf⟩ := List.mem_map.mp hm
    exact ⟨f, hf.symm⟩
  refine ⟨hR.termStrict hs, hq.strictEol hs, ?_, ?_, inv.strictVal hs⟩
  · intro g hg
    obtain ⟨f, hf⟩ := htokAll g hg
    obtain ⟨j, body, hj, hb⟩ := fieldOf_ok_stripEol o g f hf
    rw [hs] at hj hb
    obtain ⟨h1, h2⟩ := stripEol_strict_crlf j body hb
    exact ⟨j, body, hj, hb, h1, h2⟩
  · intro first conts ci hg hci
    obtain ⟨f, hf⟩ := htokAll _ hg
    cases hw : ((first.take ci).getLast?.map isWs).getD false with
    | false => rfl
    | true =>
      have := stage_ws_before_colon_rejected_strict o first conts ci hs hci hw
      rw [this] at hf
      simp at hf

/-- **Missing Host on HTTP/1.1.**  An accepted HTTP/1.1 block has a Host field among its tokenised fields, or
    its request-target is in absolute form (the request line step then records the authority as host). -/
theorem c01_accepted_head_host {o : Opts} {mf p : Nat} {block : Bytes} {r : PReq} {t : Target} {R : Reading}
    (hR : IsReading o mf p block r t R) (hv : r.version = 1) :
    (∃ v, (nHost, v) ∈ R.fs) ∨ R.r0.host ≠ none := by
  obtain ⟨_, p2, _, _, p5, _⟩ := parsePost_ok_keeps hR.post
  obtain ⟨_, _, k3⟩ := applyFields_keeps o R.fs R.r0 R.r1 hR.applied
  by_cases hex : ∃ v, (nHost, v) ∈ R.fs
  · exact .inl hex
  · right
    intro hnh
    have h1 : R.r1.host = R.r0.host :=
      k3 (fun f hf hfe => hex ⟨f.2, by rw [← hfe]; exact hf⟩)
    have h2 := p5 (by rw [← p2, hv]; exact Nat.le_refl 1)
    exact h2 (by rw [h1, hnh])

/-- **Control characters in the request-target (strict mode, every option set configfile.c can produce).**
    The request-target of an accepted block carries no control character (0x00-0x1f, DEL) anywhere: before a
    '#' by URL normalisation (`burlNormalize` percent-encodes it and `containsCtrls` rejects) or by the strict
    scan, behind the '#' -- which normalisation drops unread -- by the fragment check of the request line step;
    behind the '#', with url-ctrls-reject, also no SP and no 0xff.  `o.ctrlsReject → o.urlNormalize` is what
    config_http_parseopts() guarantees (any url option forces url-normalize); the raw bit set ⟨0x41⟩ would
    accept `/a\x01`. -/
theorem c01_accepted_target_ctl_free {o : Opts} {mf p : Nat} {block : Bytes} {r : PReq} {t : Target} {R : Reading}
    (hR : IsReading o mf p block r t R) (hs : o.headerStrict = true)
    (hreach : o.ctrlsReject = true → o.urlNormalize = true) :
    (∀ c ∈ r.target, isCtl c = false) ∧
    (o.ctrlsReject = true → r.method ≠ ofString "CONNECT" → fragmentInvalidStrict r.target = false) := by
  obtain ⟨k1, k2, _⟩ := applyFields_keeps o R.fs R.r0 R.r1 hR.applied
  obtain ⟨_, _, p3, p4, _, _⟩ := parsePost_ok_keeps hR.post
  have ht : r.target = R.r0.target := p4.trans k1
  have hm : r.method = R.r0.method := p3.trans k2
  rw [ht, hm]
  exact ⟨accepted_target_ctl_free hR.reqline k1 k2 hR.post hs hreach,
         fun hc hnc => (parseReqline_checks hR.reqline).2.2 hs hc hnc⟩

/-- **NUL.**  Lenient mode: an accepted block has no NUL anywhere in its head (request line, field lines,
    blank line).  Strict mode (reachable option sets): no NUL in the method, in the request-target, in any
    field name (every mode) or in any field value.
    `_partial`: for strict mode the clause "a NUL byte anywhere in the request line or header section" is
    proved for these token positions only; that the remaining bytes of a line (the two SP and `HTTP/1.x` of the
    request line, the colon, optional whitespace, fold whitespace and line ends of a field line) partition it
    together with the tokens -- i.e. that a NUL can sit nowhere else -- is the tokenisers' (`parseReqlineCore`,
    `fieldOf`) specification, validated by the correspondence, not proved. -/
theorem c01_nul_rejected_partial {o : Opts} {mf p : Nat} {block : Bytes} {r : PReq} {t : Target} {R : Reading}
    (hR : IsReading o mf p block r t R) :
    (o.headerStrict = false → (0 : UInt8) ∉ block.take R.len) ∧
    (∀ f ∈ R.fs, (0 : UInt8) ∉ f.1) ∧
    (0 : UInt8) ∉ r.method ∧
    (o.headerStrict = true → (o.ctrlsReject = true → o.urlNormalize = true) →
       (0 : UInt8) ∉ r.target ∧ ∀ f ∈ R.fs, (0 : UInt8) ∉ f.2) := by
  have hq := parseReqline_ok hR.reqline
  obtain ⟨_, hmeth, _, _, _, _⟩ := c01_reading_records hR
  refine ⟨fun hs => ?_, ?_, ?_, fun hs hreach => ⟨?_, ?_⟩⟩
  · have := (parseReqline_checks hR.reqline).1 hs
    simpa using this
  · intro f hf
    have hm : (Except.ok f : Except Nat (Bytes × Bytes)) ∈ R.fs.map Except.ok := List.mem_map_of_mem hf
    rw [← hR.tokens] at hm
    obtain ⟨g, _, hg⟩ := List.mem_map.mp hm
    exact fieldOf_name_nul_free (lc := f.1) (v := f.2) hg
  · exact methodTable_nul_free _ (by simpa using hmeth)
  · intro hz
    have := (c01_accepted_target_ctl_free hR hs hreach).1 0 hz
    simp [isCtl] at this
  · intro f hf hz
    have inv := FramingInv.run R.fs (FramingInv.init o R.r0 hq.fresh.1 hq.fresh.2) hR.applied
    simp only [List.nil_append] at inv
    have := inv.strictVal hs f hf
    rw [List.any_eq_false] at this
    exact this 0 hz (by decide)

/-! non-vacuity -/
example : parseReqline ⟨0x255f⟩ (ofString "GET /a#\x01 HTTP/1.1\r\n") [] = .error 400 := by rfl
example : ∃ r, parseReqline ⟨0x255f⟩ (ofString "GET /a#b HTTP/1.1\r\n") [] = .ok r ∧ r.target = ofString "/a#b" :=
  ⟨_, rfl, rfl⟩
example : Fresh { version := 1, keepAlive := true, method := ofString "POST" } := ⟨rfl, rfl⟩
example : ∃ r, parseHeaders ⟨1⟩ { version := 1 } [ofString "Content-Length: 5\r\n"] = .ok r ∧ r.bodyLen = 5 :=
  ⟨_, rfl, rfl⟩
example : parseHeaders ⟨1⟩ { version := 1 }
    [ofString "Content-Length: 5\r\n", ofString "Content-Length: 5\r\n"] = .error 400 := by rfl
example : parseHeaders ⟨1⟩ { version := 0 } [ofString "Transfer-Encoding: chunked\r\n"] = .error 400 := by rfl
example : parseHeaders ⟨1⟩ { version := 1 } [ofString "Transfer-Encoding: gzip, chunked\r\n"] = .error 501 := by rfl
example : parseHeaders ⟨1⟩ { version := 1 }
    [ofString "Transfer-Encoding: \r\n", ofString "Content-Length: 3\r\n"] = .error 400 := by rfl
example : parseHeaders ⟨1⟩ { version := 1 }
    [ofString "Transfer-Encoding: chunked\r\n", ofString "Transfer-Encoding: chunked\r\n"] = .error 400 := by rfl

/-! ## connection level: pipelines, keep-alive, close after rejection (Model/H1Conn.lean) -/

/-- feeding a connection segment by segment (what TCP delivers) -/
def feedSegs (cfg : ConnCfg) : ConnSt → List Bytes → ConnSt × List Event
  | s, [] => (s, [])
  | s, seg :: rest =>
    ((feedSegs cfg (h1Feed cfg s seg).1 rest).1, (h1Feed cfg s seg).2 ++ (feedSegs cfg (h1Feed cfg s seg).1 rest).2)

/-- **Independence from TCP segmentation.**  However the byte stream of a connection is cut into
    segments, the final state and the sequence of events (requests with their bodies, rejections,
    close) are those of the uncut stream. -/
theorem c01_segmentation_conn (cfg : ConnCfg) (segs : List Bytes) (s : ConnSt) :
    feedSegs cfg s segs = h1Feed cfg s segs.flatten := by
  induction segs generalizing s with
  | nil => rfl
  | cons seg rest ih =>
    simp only [feedSegs, List.flatten_cons]
    rw [h1Feed_append, ih]

/-- a message as sent by a client, together with the parser's reading of its head (`r`, `t`)
    and the payload its body carries -/
structure Msg where
  head : Bytes
  body : Bytes
  r : PReq
  t : Target
  payload : Bytes

def Msg.bytes (m : Msg) : Bytes := m.head ++ m.body

/-- the event a handled message produces -/
def Msg.event (cfg : ConnCfg) (m : Msg) : Event :=
  .request (cfg.handler m.r m.t).status m.r.method m.r.target m.t.path m.payload (m.r.bodyLen == -1)

/-- A well-formed message on a kept-alive connection: the head ends at its first blank line, does not
    begin with a control byte, respects the size limits and is accepted by the parser as `r`,`t` with
    keep-alive; the handler reads the body; and the body is what the accepted framing announces:
    nothing, exactly Content-Length bytes (ANY bytes), or a chunked coding of the payload with any trailer
    section (`wireT`; `wire` = no trailer fields). -/
structure WellFormed (cfg : ConnCfg) (m : Msg) : Prop where
  minimal : MinimalHead m.head
  first : firstOk m.head = true
  size : m.head.length ≤ cfg.maxField
  nlines : m.head.count lf + 1 < 8191
  parse : parseHead cfg.opts cfg.maxField cfg.port m.head = .ok m.r m.t
  keep : m.r.keepAlive = true
  handler : (cfg.handler m.r m.t).close = false ∧ (cfg.handler m.r m.t).readsBody = true
  framing :
      (m.r.bodyLen = 0 ∧ m.body = [] ∧ m.payload = [])
    ∨ (m.r.bodyLen > 0 ∧ m.body.length = m.r.bodyLen.toNat ∧ m.payload = m.body)
    ∨ (m.r.bodyLen = -1 ∧ ∃ cs last tr, (∀ c ∈ cs, GoodLine c.1 c.2.length ∧ c.2 ≠ []) ∧ GoodLine last 0 ∧
         TrailerOk (ckCfgOf cfg) last tr ∧ m.body = wireT cs last tr ∧ m.payload = cs.flatMap (·.2))

/-- One well-formed message, received at the start of a request, yields exactly one request event
    carrying exactly its payload, consumes exactly the message (the automaton is back at the start
    of a request with an empty buffer) and advances the request counter by one. -/
theorem c01_message_framed_exactly (cfg : ConnCfg) (hmf : cfg.maxField ≥ 1026) (hms : cfg.maxSize = 0)
    (hidle : cfg.kaIdle ≠ 0) (m : Msg) (hw : WellFormed cfg m) (count : Nat) (bo : Bool)
    (hcount : count ≤ cfg.maxKaReqs) :
    h1Feed cfg { phase := .head [] 0 bo, count := count } m.bytes
      = ({ phase := .head [] 0 true, count := count + 1 }, [m.event cfg]) := by
  have hka : ∀ ckKa, keepAliveAfter cfg count m.r (cfg.handler m.r m.t) true ckKa = ckKa := by
    intro ckKa
    simp [keepAliveAfter, hw.keep, hidle, hcount, hw.handler.1]
  unfold Msg.bytes
  rw [h1Feed_append, headFeed cfg count bo m.head hw.minimal (firstOk_spec hw.first) hw.size hw.nlines]
  have hdisp : dispatch cfg count m.head =
      if m.r.bodyLen = 0 then respond cfg count m.r m.t (cfg.handler m.r m.t) [] true true
      else if m.r.bodyLen > 0 then
        ({ phase := .bodyCL m.r m.t (cfg.handler m.r m.t) m.r.bodyLen.toNat [], count := count }, [])
      else ({ phase := .bodyCk m.r m.t (cfg.handler m.r m.t) {}, count := count }, []) := by
    unfold dispatch
    rw [hw.parse]
    simp [hms, hw.handler.2]
  rw [hdisp]
  rcases hw.framing with ⟨h0, hb, hp⟩ | ⟨hpos, hlen, hp⟩ | ⟨hck, cs, last, tr, hcs, hlast, htr, hb, hp⟩
  · -- no body
    rw [if_pos h0, hb, h1Feed_nil]
    simp [respond, hka, Msg.event, hp, h0]
  · -- Content-Length
    have hne0 : m.r.bodyLen ≠ 0 := by omega
    rw [if_neg hne0, if_pos hpos]
    have hbne : m.body ≠ [] := by
      intro e; rw [e] at hlen; simp at hlen; omega
    simp only
    rw [clFeed cfg count m.r m.t _ m.body _ [] hbne hlen]
    have hnck : (m.r.bodyLen == -1) = false := by
      simp; omega
    simp [respond, hka, Msg.event, hp, hnck]
  · -- chunked
    have hne0 : m.r.bodyLen ≠ 0 := by omega
    have hnpos : ¬ m.r.bodyLen > 0 := by omega
    rw [if_neg hne0, if_neg hnpos]
    have hrt := c01_chunked_trailers_framed (ckCfgOf cfg) (by simp [ckCfgOf, hms]) cs last tr [] hcs hlast htr
    simp only [List.append_nil, List.length_nil] at hrt
    have hwne : wireT cs last tr ≠ [] := by
      have := htr.nonempty
      simp [wireT, this]
    simp only
    rw [hb, ckConnFeed cfg count m.r m.t _ (wireT cs last tr) {} hwne ?_ (by rw [hrt])]
    · rw [hrt]
      simp [respond, hka, Msg.event, hp, hck]
    · intro p q hpq _ hq
      exact ck_no_early_end (ckCfgOf cfg) {} p q hq (by rw [← hpq, hrt]) (by rw [← hpq, hrt])

/-- **No request smuggling.**  For every list of well-formed messages `ms` (no body, Content-Length
    body of arbitrary bytes, or chunked body in any accepted spelling), feeding their concatenation
    on one connection yields exactly `ms.length` request events, in order, each with exactly its
    payload, and consumes exactly the bytes: no body byte is ever parsed as part of a request head.
    (Configuration hypotheses, not restrictions of the statement: no server.max-request-size limit,
    max-request-field-size at least 1026 so that a last-chunk line fits, keep-alive enabled and the
    pipeline within server.max-keep-alive-requests -- otherwise the server closes earlier by design.) -/
theorem c01_no_smuggling (cfg : ConnCfg) (hmf : cfg.maxField ≥ 1026) (hms : cfg.maxSize = 0)
    (hidle : cfg.kaIdle ≠ 0) (ms : List Msg) (hw : ∀ m ∈ ms, WellFormed cfg m) (count : Nat) (bo : Bool)
    (hcount : count + ms.length ≤ cfg.maxKaReqs + 1) :
    h1Feed cfg { phase := .head [] 0 bo, count := count } (ms.flatMap Msg.bytes)
      = ({ phase := .head [] 0 (bo || !ms.isEmpty), count := count + ms.length }, ms.map (Msg.event cfg)) := by
  induction ms generalizing count bo with
  | nil => simp [h1Feed_nil]
  | cons m rest ih =>
    simp only [List.flatMap_cons, List.length_cons] at hcount ⊢
    rw [h1Feed_append, c01_message_framed_exactly cfg hmf hms hidle m (hw m (by simp)) count bo (by omega)]
    simp only
    rw [ih (fun x hx => hw x (by simp [hx])) (count + 1) true (by omega)]
    simp
    omega

/-- the bytes of a Content-Length body are opaque: whatever they are (e.g. a complete request), the
    next `n` bytes after the head become the body of this request and produce no event of their own -/
theorem c01_cl_body_opaque (cfg : ConnCfg) (count : Nat) (r : PReq) (t : Target) (h : Handler) (d : Bytes)
    (hd : d ≠ []) :
    h1Feed cfg { phase := .bodyCL r t h d.length [], count := count } d = respond cfg count r t h d true true := by
  simpa using clFeed cfg count r t h d d.length [] hd rfl

/-- **A rejected head closes the connection.**  If the parser rejects a (minimal) request head with
    status `e` — all the rejections of the head-level theorems above — the connection answers with
    exactly that status and closes: `[reject e, close]`, nothing else, from this head or later bytes. -/
theorem c01_rejected_head_closes (cfg : ConnCfg) (count : Nat) (bo : Bool) (H next : Bytes) (e : Nat)
    (hmin : MinimalHead H) (hfirst : firstOk H = true) (hsize : H.length ≤ cfg.maxField)
    (hnl : H.count lf + 1 < 8191) (hrej : parseHead cfg.opts cfg.maxField cfg.port H = .err e) :
    h1Feed cfg { phase := .head [] 0 bo, count := count } (H ++ next)
      = ({ phase := .closed, count := count }, [.reject e, .close]) := by
  rw [h1Feed_append, headFeed cfg count bo H hmin (firstOk_spec hfirst) hsize hnl]
  have : dispatch cfg count H = rejectWith count e := by
    unfold dispatch; rw [hrej]
  rw [this]
  simp [rejectWith, h1Feed_closed]

/-- **After a rejection nothing more is accepted.**  In the event sequence of ANY byte stream from ANY
    state, a `reject` is followed by `close` and nothing else (in particular by no request), and the
    connection is closed. -/
theorem c01_reject_closes (cfg : ConnCfg) (bs : Bytes) : ∀ (s : ConnSt) (pre post : List Event) (st : Nat),
    (h1Feed cfg s bs).2 = pre ++ Event.reject st :: post →
    post = [Event.close] ∧ (h1Feed cfg s bs).1.isClosed = true := by
  induction bs with
  | nil => intro s pre post st h; simp [h1Feed_nil] at h
  | cons b rest ih =>
    intro s pre post st h
    rw [h1Feed_cons] at h ⊢
    have ho := h1Step_out cfg s b
    generalize h1Step cfg s b = out at h ho ⊢
    cases ho with
    | silent s' _ _ => simp only [List.nil_append] at h; exact ih s' pre post st h
    | closedIdle hc =>
      obtain ⟨phase, c⟩ := s
      cases phase <;> simp [ConnSt.isClosed] at hc
      simp [h1Feed_closed] at h
    | answered ev hr =>
      rcases pre with _ | ⟨p, pre'⟩
      · simp at h; rw [h.1] at hr; simp [Event.isRequest] at hr
      · simp at h; exact ih _ pre' post st h.2
    | answeredClose ev hr =>
      simp only [h1Feed_closed] at h ⊢
      rcases pre with _ | ⟨p, _ | ⟨q, pre'⟩⟩
      · simp at h; rw [h.1] at hr; simp [Event.isRequest] at hr
      · simp at h
      · simp at h
    | rejected e =>
      simp only [h1Feed_closed] at h ⊢
      rcases pre with _ | ⟨p, _ | ⟨q, pre'⟩⟩
      · simp at h; simp [h.2, ConnSt.isClosed]
      · simp at h
      · simp at h
    | unmodelled =>
      simp only [h1Feed_closed] at h ⊢
      rcases pre with _ | ⟨p, _ | ⟨q, pre'⟩⟩
      · simp at h
      · simp at h
      · simp at h

/-- **Rejections are 4xx/5xx.**  Every rejection the connection emits, on ANY byte stream, carries one of
    the statuses 400, 411, 413, 431, 501 (`RejSt`) -- from the first request of a connection and from every
    state in which an embedded chunked decoder is not already in its error state (`ConnSt.Live`, an
    invariant of the automaton). -/
theorem c01_reject_status (cfg : ConnCfg) (bs : Bytes) (s : ConnSt) (hs : s.Live) (st : Nat)
    (h : Event.reject st ∈ (h1Feed cfg s bs).2) :
    st = 400 ∨ st = 411 ∨ st = 413 ∨ st = 431 ∨ st = 501 :=
  (h1Feed_rej cfg bs s hs).1 st h

/-- **A trailer section that outgrows max-request-field-size closes the connection.**  When the bytes
    after the last-chunk line reach the limit without their terminating empty line, the request is
    answered with the body decoded so far and the connection is closed: whatever follows (the rest of
    the trailer section, crafted or not to look like a request) produces no event. -/
theorem c01_trailer_overflow_closes (cfg : ConnCfg) (count : Nat) (r : PReq) (t : Target) (h : Handler)
    (ck : CkSt) (acc : Bytes) (off : Nat) (b : UInt8) (next : Bytes)
    (hmode : ck.mode = .trailer acc off false) (hb : b ≠ 0)
    (hnoend : endsCrlfCrlf ((acc ++ [b]).drop off) = false) (hlen : acc.length + 1 ≥ cfg.maxField) :
    h1Feed cfg { phase := .bodyCk r t h ck, count := count } (b :: next)
      = ({ phase := .closed, count := count },
         [.request h.status r.method r.target t.path ck.out (r.bodyLen == -1), .close]) := by
  obtain ⟨mode, out, ka, after⟩ := ck
  simp only at hmode
  subst hmode
  rw [h1Feed_cons]
  have hstep : ckStep (ckCfgOf cfg) { mode := .trailer acc off false, out := out, ka := ka, after := after } b
      = { mode := .done, out := out, ka := false, after := after } := by
    simp [ckStep, hb, hnoend, ckCfgOf]
    omega
  simp [h1Step, hstep, respond, keepAliveAfter, h1Feed_closed]

/-- `close` is final: no event of any kind follows it -/
theorem c01_close_final (cfg : ConnCfg) (bs : Bytes) : ∀ (s : ConnSt) (pre post : List Event),
    (h1Feed cfg s bs).2 = pre ++ Event.close :: post →
    post = [] ∧ (h1Feed cfg s bs).1.isClosed = true := by
  induction bs with
  | nil => intro s pre post h; simp [h1Feed_nil] at h
  | cons b rest ih =>
    intro s pre post h
    rw [h1Feed_cons] at h ⊢
    have ho := h1Step_out cfg s b
    generalize h1Step cfg s b = out at h ho ⊢
    cases ho with
    | silent s' _ _ => simp only [List.nil_append] at h; exact ih s' pre post h
    | closedIdle hc =>
      obtain ⟨phase, c⟩ := s
      cases phase <;> simp [ConnSt.isClosed] at hc
      simp [h1Feed_closed] at h
    | answered ev hr =>
      rcases pre with _ | ⟨p, pre'⟩
      · simp at h; rw [h.1] at hr; simp [Event.isRequest] at hr
      · simp at h; exact ih _ pre' post h.2
    | answeredClose ev hr =>
      simp only [h1Feed_closed] at h ⊢
      rcases pre with _ | ⟨p, _ | ⟨q, pre'⟩⟩
      · simp at h; rw [h.1] at hr; simp [Event.isRequest] at hr
      · simp at h; simp [h, ConnSt.isClosed]
      · simp at h
    | rejected e =>
      simp only [h1Feed_closed] at h ⊢
      rcases pre with _ | ⟨p, _ | ⟨q, pre'⟩⟩
      · simp at h
      · simp at h; simp [h, ConnSt.isClosed]
      · simp at h
    | unmodelled =>
      simp only [h1Feed_closed] at h ⊢
      rcases pre with _ | ⟨p, _ | ⟨q, pre'⟩⟩
      · simp at h
      · simp at h; simp [h, ConnSt.isClosed]
      · simp at h

/-- **Hostile streams: the shape of every event sequence.**  For ANY byte stream from ANY state the events
    are: request events only, then -- if the connection was closed -- exactly one last event (a request that
    does not keep the connection alive, a rejection, or the not-modelled marker) followed by `close`.  In
    particular at most one rejection, nothing after `close`, and no request after a rejection. -/
theorem c01_event_shape (cfg : ConnCfg) (bs : Bytes) : ∀ (s : ConnSt),
    ∃ reqs tail, (h1Feed cfg s bs).2 = reqs ++ tail ∧ (∀ e ∈ reqs, e.isRequest = true) ∧
      (tail = [] ∨ ((h1Feed cfg s bs).1.isClosed = true ∧
        ∃ ev, tail = [ev, Event.close] ∧
          (ev.isRequest = true ∨ (∃ st, ev = Event.reject st) ∨ ev = Event.unmodelled))) := by
  induction bs with
  | nil => intro s; exact ⟨[], [], by simp [h1Feed_nil], by simp, .inl rfl⟩
  | cons b rest ih =>
    intro s
    rw [h1Feed_cons]
    have ho := h1Step_out cfg s b
    generalize h1Step cfg s b = out at ho ⊢
    cases ho with
    | silent s' _ _ =>
      obtain ⟨reqs, tail, h1, h2, h3⟩ := ih s'
      exact ⟨reqs, tail, by simpa using h1, h2, h3⟩
    | closedIdle hc =>
      obtain ⟨phase, c⟩ := s
      cases phase <;> simp [ConnSt.isClosed] at hc
      exact ⟨[], [], by simp [h1Feed_closed], by simp, .inl rfl⟩
    | answered ev hr =>
      obtain ⟨reqs, tail, h1, h2, h3⟩ := ih { phase := .head [] 0 true, count := s.count + 1 }
      refine ⟨ev :: reqs, tail, by simp [h1], ?_, h3⟩
      intro e he
      simp only [List.mem_cons] at he
      rcases he with rfl | he
      · exact hr
      · exact h2 e he
    | answeredClose ev hr =>
      exact ⟨[], [ev, .close], by simp [h1Feed_closed], by simp,
             .inr ⟨by simp [h1Feed_closed, ConnSt.isClosed], ev, rfl, .inl hr⟩⟩
    | rejected e =>
      exact ⟨[], [.reject e, .close], by simp [h1Feed_closed], by simp,
             .inr ⟨by simp [h1Feed_closed, ConnSt.isClosed], _, rfl, .inr (.inl ⟨e, rfl⟩)⟩⟩
    | unmodelled =>
      exact ⟨[], [.unmodelled, .close], by simp [h1Feed_closed], by simp,
             .inr ⟨by simp [h1Feed_closed, ConnSt.isClosed], _, rfl, .inr (.inr rfl)⟩⟩

/-- ... and prefix-closed: more input only ever appends events -/
theorem c01_events_prefix_closed (cfg : ConnCfg) (s : ConnSt) (a b : Bytes) :
    (h1Feed cfg s a).2 <+: (h1Feed cfg s (a ++ b)).2 := by
  rw [h1Feed_append]
  exact ⟨_, rfl⟩

/-- number of responses (answers to accepted requests + rejections) in an event sequence -/
def nResp (evs : List Event) : Nat := (evs.filter Event.isResponse).length

/-- **One response per request, in order.**  `count` is the number of the request being received
    (`con->request_count`).  For ANY byte stream from ANY state: the counter never decreases; while the
    connection is open every response emitted so far advanced it by exactly one (so the k-th response
    answers the k-th request and no request is answered twice or skipped); and in every case the number
    of responses never exceeds the number of requests begun. -/
theorem c01_one_response_per_request (cfg : ConnCfg) (bs : Bytes) : ∀ (s : ConnSt),
    s.count ≤ (h1Feed cfg s bs).1.count ∧
    ((h1Feed cfg s bs).1.isClosed = false → (h1Feed cfg s bs).1.count = s.count + nResp (h1Feed cfg s bs).2) ∧
    nResp (h1Feed cfg s bs).2 ≤ (h1Feed cfg s bs).1.count - s.count + 1 := by
  induction bs with
  | nil => intro s; simp [h1Feed_nil, nResp]
  | cons b rest ih =>
    intro s
    rw [h1Feed_cons]
    have ho := h1Step_out cfg s b
    generalize h1Step cfg s b = out at ho ⊢
    cases ho with
    | silent s' _ hc =>
      obtain ⟨h1, h2, h3⟩ := ih s'
      simp only [List.nil_append]
      rw [hc] at h1 h2 h3
      exact ⟨h1, h2, h3⟩
    | closedIdle hc =>
      obtain ⟨phase, c⟩ := s
      cases phase <;> simp [ConnSt.isClosed] at hc
      simp [h1Feed_closed, nResp, ConnSt.isClosed]
    | answered ev hr =>
      obtain ⟨h1, h2, h3⟩ := ih { phase := .head [] 0 true, count := s.count + 1 }
      have hresp : ev.isResponse = true := isResponse_of_isRequest hr
      simp only [nResp, List.cons_append, List.nil_append, List.filter_cons, hresp, if_true, List.length_cons] at h1 h2 h3 ⊢
      refine ⟨by omega, fun hcl => ?_, by omega⟩
      have := h2 hcl
      omega
    | answeredClose ev hr =>
      have hresp : ev.isResponse = true := isResponse_of_isRequest hr
      simp [h1Feed_closed, nResp, ConnSt.isClosed, List.filter_cons, hresp]
    | rejected e => simp [h1Feed_closed, nResp, ConnSt.isClosed, List.filter_cons]
    | unmodelled => simp [h1Feed_closed, nResp, ConnSt.isClosed, List.filter_cons]

/-- every single byte produces at most one response -/
theorem c01_step_one_response (cfg : ConnCfg) (s : ConnSt) (b : UInt8) : nResp (h1Step cfg s b).2 ≤ 1 := by
  have ho := h1Step_out cfg s b
  generalize h1Step cfg s b = out at ho ⊢
  cases ho with
  | silent _ _ _ => simp [nResp]
  | closedIdle _ => simp [nResp]
  | answered ev hr => simp [nResp, List.filter_cons, isResponse_of_isRequest hr]
  | answeredClose ev hr => simp [nResp, List.filter_cons, isResponse_of_isRequest hr]
  | rejected e => simp [nResp, List.filter_cons]
  | unmodelled => simp [nResp, List.filter_cons]

/-- one CRLF (or bare LF) before a keep-alive request is skipped -- independently of how it is cut into
    segments, by `c01_segmentation_conn` -- and a second blank line is rejected -/
theorem c01_blank_line_between_requests (cfg : ConnCfg) (count : Nat) (H : Bytes)
    (hmin : MinimalHead H) (hfirst' : firstOk H = true) (hsize : H.length ≤ cfg.maxField)
    (hnl : H.count lf + 1 < 8191) :
    h1Feed cfg { phase := .head [] 0 true, count := count } ([cr, lf] ++ H) = dispatch cfg count H ∧
    h1Feed cfg { phase := .head [] 0 true, count := count } ([lf] ++ H) = dispatch cfg count H ∧
    h1Feed cfg { phase := .head [] 0 true, count := count } ([cr, lf, cr, lf] ++ H)
      = ({ phase := .closed, count := count }, [.reject 400, .close]) := by
  have hfirst := firstOk_spec hfirst'
  have hne : H ≠ [] := by intro h; subst h; simp [MinimalHead, headEnd] at hmin
  obtain ⟨b, rest, rfl⟩ : ∃ b rest, H = b :: rest := by
    cases H with
    | nil => exact absurd rfl hne
    | cons b rest => exact ⟨b, rest, rfl⟩
  have hb := hfirst b rfl
  have hcr : b ≠ cr := by intro e; subst e; exact hb (by decide)
  have hlf : b ≠ lf := by intro e; subst e; exact hb (by decide)
  have key := headFeed cfg count false (b :: rest) hmin hfirst hsize hnl
  rw [h1Feed_cons] at key
  have hs0 : h1Step cfg { phase := .head [] 0 false, count := count } b = headByte cfg count [] 0 b := by
    simp [h1Step]
  rw [hs0] at key
  refine ⟨?_, ?_, ?_⟩
  · simp only [List.cons_append, List.nil_append]
    rw [h1Feed_cons, h1Feed_cons, h1Feed_cons]
    simp [h1Step, cr, lf] at *
    simpa [h1Step, hcr, hlf, cr, lf] using key
  · simp only [List.cons_append, List.nil_append]
    rw [h1Feed_cons, h1Feed_cons]
    simp [h1Step, cr, lf] at *
    simpa [h1Step, hcr, hlf, cr, lf] using key
  · simp only [List.cons_append, List.nil_append]
    rw [h1Feed_cons, h1Feed_cons, h1Feed_cons]
    simp [h1Step, cr, lf, rejectWith, h1Feed_closed]

/-! non-vacuity (connection level) -/
section Examples
/-- the default server.http-parseopts (0x255f); every request is handled by a body-reading handler -/
def exCfg : ConnCfg := { opts := ⟨9567⟩, handler := fun _ _ => { status := 200, readsBody := true } }

/-- what the parser reads from a head (dummy values if it does not accept it) -/
def parsed (head : Bytes) : PReq × Target :=
  match parseHead exCfg.opts exCfg.maxField exCfg.port head with
  | .ok r t => (r, t)
  | _ => ({}, { target := [], path := [], query := [] })

def accepted (head : Bytes) : Bool :=
  match parseHead exCfg.opts exCfg.maxField exCfg.port head with
  | .ok _ _ => true
  | _ => false

def rejectedWith (head : Bytes) (e : Nat) : Bool :=
  match parseHead exCfg.opts exCfg.maxField exCfg.port head with
  | .err e' => e' == e
  | _ => false

private theorem parsed_spec (head : Bytes) (h : accepted head = true) :
    parseHead exCfg.opts exCfg.maxField exCfg.port head = .ok (parsed head).1 (parsed head).2 := by
  unfold accepted at h
  unfold parsed
  cases hX : parseHead exCfg.opts exCfg.maxField exCfg.port head <;> simp_all

private theorem rejectedWith_spec (head : Bytes) (e : Nat) (h : rejectedWith head e = true) :
    parseHead exCfg.opts exCfg.maxField exCfg.port head = .err e := by
  unfold rejectedWith at h
  cases hX : parseHead exCfg.opts exCfg.maxField exCfg.port head <;> simp_all

/-- a message whose `r`,`t` are what the parser reads from its head -/
def msgOf (head body payload : Bytes) : Msg :=
  { head := head, body := body, r := (parsed head).1, t := (parsed head).2, payload := payload }

def exGet : Bytes := ofString "GET /a HTTP/1.1\r\nHost: h\r\n\r\n"
def exPost : Bytes := ofString "POST /e HTTP/1.1\r\nHost: h\r\nContent-Length: 18\r\n\r\n"
def exBody : Bytes := ofString "GET /x HTTP/1.1\r\n\r"     -- an 18-byte body that looks like a request
def exChunked : Bytes := ofString "POST /e HTTP/1.1\r\nHost: h\r\nTransfer-Encoding: chunked\r\n\r\n"
def mGet : Msg := msgOf exGet [] []
def mPost : Msg := msgOf exPost exBody exBody
def mChunked : Msg :=
  msgOf exChunked (wireT [(ofString "3;x=y\r\n", ofString "abc")] (ofString "0\r\n") (ofString "X-T: GET / HTTP/1.1\r\n\r\n"))
    (ofString "abc")

private theorem wfGet : WellFormed exCfg mGet :=
  { minimal := by decide +kernel, first := by decide +kernel, size := by decide +kernel, nlines := by decide +kernel,
    parse := parsed_spec _ (by decide +kernel), keep := by decide +kernel, handler := ⟨rfl, rfl⟩,
    framing := .inl ⟨by decide +kernel, rfl, rfl⟩ }
private theorem wfPost : WellFormed exCfg mPost :=
  { minimal := by decide +kernel, first := by decide +kernel, size := by decide +kernel, nlines := by decide +kernel,
    parse := parsed_spec _ (by decide +kernel), keep := by decide +kernel, handler := ⟨rfl, rfl⟩,
    framing := .inr (.inl ⟨by decide +kernel, by decide +kernel, rfl⟩) }
private theorem wfChunked : WellFormed exCfg mChunked :=
  { minimal := by decide +kernel, first := by decide +kernel, size := by decide +kernel, nlines := by decide +kernel,
    parse := parsed_spec _ (by decide +kernel), keep := by decide +kernel, handler := ⟨rfl, rfl⟩,
    framing := .inr (.inr ⟨by decide +kernel, [(ofString "3;x=y\r\n", ofString "abc")], ofString "0\r\n",
      ofString "X-T: GET / HTTP/1.1\r\n\r\n",
      by
        intro c hc
        simp only [List.mem_singleton] at hc
        subst hc
        exact ⟨⟨by rfl, ⟨ofString "3;x=y\r", by decide, by decide, by decide⟩, by decide⟩, by decide⟩,
      ⟨by rfl, ⟨ofString "0\r", by decide, by decide, by decide⟩, by decide⟩,
      ⟨by decide, by decide, by decide, by decide, by decide⟩, rfl, rfl⟩) }

-- the hypotheses of `c01_no_smuggling` are satisfiable: GET, POST whose Content-Length body looks like a
-- request, chunked POST -- exactly three request events carrying [], the look-alike body, "abc"
example : (h1Feed exCfg {} ([mGet, mPost, mChunked].flatMap Msg.bytes)).2
    = [mGet.event exCfg, mPost.event exCfg, mChunked.event exCfg] := by
  have := c01_no_smuggling exCfg (by decide) rfl (by decide) [mGet, mPost, mChunked]
    (by intro m hm
        simp only [List.mem_cons, List.not_mem_nil, or_false] at hm
        rcases hm with rfl | rfl | rfl
        · exact wfGet
        · exact wfPost
        · exact wfChunked) 1 false (by decide)
  rw [show ({ } : ConnSt) = { phase := .head [] 0 false, count := 1 } from rfl, this]
  rfl
example : mPost.payload = ofString "GET /x HTTP/1.1\r\n\r" := rfl
-- HTTP/1.1 without Host is rejected (`c01_rejected_head_closes`), and the request after it is never looked at
example : (h1Feed exCfg {} (ofString "GET / HTTP/1.1\r\n\r\nGET /a HTTP/1.1\r\nHost: h\r\n\r\n")).2
    = [.reject 400, .close] := by decide +kernel
example : MinimalHead (ofString "GET / HTTP/1.1\r\n\r\n") ∧
    parseHead exCfg.opts exCfg.maxField exCfg.port (ofString "GET / HTTP/1.1\r\n\r\n") = .err 400 :=
  ⟨by decide +kernel, rejectedWith_spec _ _ (by decide +kernel)⟩
example : ({} : ConnSt).Live := by simp [ConnSt.Live]
-- a blank line cut between CR and LF is skipped like an uncut one (`c01_segmentation_conn`)
example : (feedSegs exCfg {} [exGet ++ [cr], [lf] ++ exGet]).2.length = 2 := by decide +kernel
end Examples

end LtVerif.C01
