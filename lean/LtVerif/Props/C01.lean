/-
  C01 — HTTP/1.x request framing is unambiguous; malformed framing is rejected.
  Property theorems only; helper lemmas live in LtVerif/Proofs/H1*.lean.
-/
import LtVerif.Model.H1Parse
import LtVerif.Proofs.H1Chunked
import LtVerif.Proofs.H1Parse
namespace LtVerif.C01
open LtVerif B

/-! ## chunked request bodies (h1_chunked) -/

/-- segmentation independence of the chunked decoder automaton: feeding a stream in two
    pieces is the same as feeding it at once (hence the same for any segmentation). -/
theorem c01_chunked_segmentation (cfg : CkCfg) (s : CkSt) (a b : Bytes) :
    ckFeed cfg (ckFeed cfg s a) b = ckFeed cfg s (a ++ b) := by
  simp [ckFeed, List.foldl_append]

/-- wire form of a chunked body whose chunks use arbitrary accepted size lines -/
def wire (cs : List (Bytes × Bytes)) (last : Bytes) : Bytes :=
  cs.flatMap (fun c => c.1 ++ c.2 ++ [cr, lf]) ++ (last ++ [cr, lf])

/-- Round trip: every chunked message (any number of non-empty chunks, any accepted spelling
    of the chunk-size lines incl. chunk extensions, no trailers) decodes to exactly the
    concatenation of the chunk data, consumes exactly the message, and leaves keep-alive on. -/
theorem c01_chunked_roundtrip (cfg : CkCfg) (hcfg : cfg.maxSize = 0) (hmf : cfg.maxField ≥ 1026)
    (cs : List (Bytes × Bytes)) (last : Bytes)
    (hcs : ∀ c ∈ cs, GoodLine c.1 c.2.length ∧ c.2 ≠ []) (hlast : GoodLine last 0) :
    ckFeed cfg {} (wire cs last) =
      { mode := .done, out := cs.flatMap (·.2), ka := true, after := 0 } := by
  suffices h : ∀ (out : Bytes), ckFeed cfg { mode := .hdr [] false, out := out, ka := true, after := 0 }
      (wire cs last) = { mode := .done, out := out ++ cs.flatMap (·.2), ka := true, after := 0 } by
    simpa using h []
  induction cs with
  | nil => intro out; simpa [wire] using ckFeed_final cfg hmf hlast out true 0
  | cons c rest ih =>
    intro out
    have hc := hcs c (by simp)
    have hrest : ∀ c ∈ rest, GoodLine c.1 c.2.length ∧ c.2 ≠ [] := fun x hx => hcs x (by simp [hx])
    have : wire (c :: rest) last = (c.1 ++ c.2 ++ [cr, lf]) ++ wire rest last := by
      simp [wire]
    rw [this, ckFeed_append, ckFeed_chunk cfg hcfg hc.1 hc.2, ih hrest]
    simp

/-- Bytes that follow a complete chunked body are not consumed by it (they are the next
    request): they only advance the `after` counter. -/
theorem c01_chunked_no_overread (cfg : CkCfg) (hcfg : cfg.maxSize = 0) (hmf : cfg.maxField ≥ 1026)
    (cs : List (Bytes × Bytes)) (last next : Bytes)
    (hcs : ∀ c ∈ cs, GoodLine c.1 c.2.length ∧ c.2 ≠ []) (hlast : GoodLine last 0) :
    ckFeed cfg {} (wire cs last ++ next) =
      { mode := .done, out := cs.flatMap (·.2), ka := true, after := next.length } := by
  rw [ckFeed_append, c01_chunked_roundtrip cfg hcfg hmf cs last hcs hlast]
  generalize (cs.flatMap (·.2)) = out
  suffices h : ∀ k, ckFeed cfg { mode := .done, out := out, ka := true, after := k } next
      = { mode := .done, out := out, ka := true, after := k + next.length } by simpa using h 0
  induction next with
  | nil => intro k; simp [ckFeed_nil]
  | cons b rest ih => intro k; rw [ckFeed_cons]; simp [ckStep, ih]; omega

/-- Malformed framing: chunk data not followed by CRLF is a 400 and clears keep-alive. -/
theorem c01_chunked_missing_crlf_rejected (cfg : CkCfg) (s : CkSt) (d : Bytes) (x y : UInt8)
    (hd : d ≠ []) (hm : s.mode = .data d.length) (hxy : ¬ (x = cr ∧ y = lf)) :
    (ckFeed cfg s (d ++ [x, y])).mode = .err 400 ∧ (ckFeed cfg s (d ++ [x, y])).ka = false := by
  obtain ⟨mode, out, ka, after⟩ := s
  simp only at hm
  subst hm
  rw [ckFeed_append, ckFeed_data cfg d d.length out ka after hd rfl]
  simp only [ckFeed_cons, ckFeed_nil, ckStep]
  by_cases h1 : x = cr <;> by_cases h2 : y = lf <;> simp_all

/-- An invalid chunk-size line (as judged by the line validator) is a 400. -/
theorem c01_chunked_bad_size_line_rejected (cfg : CkCfg) (p : Bytes) (e : Nat) (out : Bytes) (ka : Bool)
    (hlf : lf ∉ p) (hnul : (0 : UInt8) ∉ p) (hlen : p.length + 1 < 1024)
    (hbad : ckParseLine (p ++ [lf]) = .error e) :
    (ckFeed cfg { mode := .hdr [] false, out := out, ka := ka, after := 0 } (p ++ [lf])).mode = .err e ∧
    (ckFeed cfg { mode := .hdr [] false, out := out, ka := ka, after := 0 } (p ++ [lf])).ka = false := by
  rw [ckFeed_append, ckFeed_hdr_pre cfg p [] out ka 0 hlf hnul (by simp; omega)]
  simp [ckFeed_cons, ckFeed_nil, ckStep, hbad]

/-- the validator rejects what RFC 9112 §7.1 does not allow at the start of a chunk-size line:
    no hex digit, bare LF, or junk after the size that is neither BWS, ';' nor CR -/
theorem c01_chunked_line_no_hex (l : Bytes) (h : (l.head?.bind hexVal) = none) :
    ckParseLine l = .error 400 := by
  unfold ckParseLine
  cases l with
  | nil => simp [ckHex]
  | cons b rest =>
    simp only [List.head?_cons, Option.bind_some] at h
    simp [ckHex, h]

/-- every reachable error state has keep-alive cleared (invariant over all inputs) -/
theorem c01_chunked_error_closes (cfg : CkCfg) (bs : Bytes) :
    ∀ (s : CkSt), ((∃ e, s.mode = .err e) → s.ka = false) →
      ((∃ e, (ckFeed cfg s bs).mode = .err e) → (ckFeed cfg s bs).ka = false) := by
  induction bs with
  | nil => intro s hs; simpa [ckFeed_nil] using hs
  | cons b rest ih =>
    intro s hs
    rw [ckFeed_cons]
    apply ih
    intro ⟨e', he'⟩
    obtain ⟨mode, out, ka, after⟩ := s
    cases mode with
    | hdr acc nul =>
      by_cases h1 : (b = lf && !nul) = true
      · cases hp : ckParseLine (acc ++ [b]) with
        | error e => simp [ckStep, h1, hp]
        | ok n =>
          cases n with
          | zero => simp [ckStep, h1, hp] at he'
          | succ k =>
            by_cases h2 : ¬cfg.maxSize = 0 ∧ (cfg.maxSize < k + 1 ∨ cfg.maxSize - (k + 1) < List.length out)
            · simp [ckStep, h1, hp, h2]
            · simp [ckStep, h1, hp, h2] at he'
      · by_cases h3 : 1023 ≤ List.length acc
        · simp [ckStep, h1, h3]
        · simp [ckStep, h1, h3] at he'
    | data n => simp only [ckStep] at he'; split at he' <;> simp at he'
    | crlf f =>
      cases f with
      | none => simp [ckStep] at he'
      | some a => simp only [ckStep] at he' ⊢; split <;> simp_all
    | trailer acc off nul => simp only [ckStep] at he'; split at he' <;> (try split at he') <;> simp at he'
    | done => simp [ckStep] at he'
    | err e0 => simpa [ckStep] using hs ⟨e0, rfl⟩

/-- from the initial state: an error outcome always has keep-alive cleared -/
theorem c01_chunked_error_closes_init (cfg : CkCfg) (bs : Bytes) (e : Nat)
    (h : (ckFeed cfg {} bs).mode = .err e) : (ckFeed cfg {} bs).ka = false :=
  c01_chunked_error_closes cfg bs {} (by simp) ⟨e, h⟩

theorem c01_chunked_error_absorbing (cfg : CkCfg) (s : CkSt) (e : Nat) (bs : Bytes)
    (h : s.mode = .err e) : ckFeed cfg s bs = s := by
  induction bs with
  | nil => rfl
  | cons b rest ih =>
    rw [ckFeed_cons]
    have : ckStep cfg s b = s := by
      obtain ⟨mode, out, ka, after⟩ := s
      simp only at h; subst h; simp [ckStep]
    rw [this, ih]

/-! non-vacuity: concrete accepted size lines, incl. a chunk extension and leading zeros -/
example : GoodLine (ofString "5;x=y\r\n") 5 :=
  ⟨by rfl, ⟨ofString "5;x=y\r", by decide, by decide, by decide⟩, by decide⟩
example : GoodLine (ofString "000\r\n") 0 :=
  ⟨by rfl, ⟨ofString "000\r", by decide, by decide, by decide⟩, by decide⟩
example : ckFeed {} {} (ofString "5\r\nhello\r\n0\r\n\r\nGET") =
    { mode := .done, out := ofString "hello", ka := true, after := 3 } := by decide
example : (ckFeed {} {} (ofString "5\r\nhello\rX")).mode = .err 400 := by decide
example : ckParseLine (ofString "5 x\r\n") = .error 400 := by rfl

/-! ## request head (request.c) -/

/-- the request state produced by the request line is "fresh": no body framing yet -/
def Fresh (r0 : PReq) : Prop := r0.clSeen = false ∧ r0.bodyLen = 0

/-- **Accepted field sections are unambiguous.**  If the header fields are accepted, then every
    logical field line tokenised, and for the resulting list of (name, value) fields:
    at most one Content-Length field and its value is all digits and fits int64; every non-empty
    Transfer-Encoding value is exactly `chunked` (any case) and the request is HTTP/1.1; in strict
    mode no field value contains a control character; and the framing the parser reports is the
    RFC 9112 §6.3 rule: chunked iff a Transfer-Encoding field is present, else the Content-Length
    value, else no body. -/
theorem c01_accepted_fields_unambiguous (o : Opts) (r0 r : PReq) (lines : List Bytes)
    (hfresh : Fresh r0) (h : parseHeaders o r0 lines = .ok r) :
    ∃ fs : List (Bytes × Bytes),
      (groupFolds lines).map (fieldOf o) = fs.map Except.ok ∧
      (fs.filter (fun f => f.1 = nCL)).length ≤ 1 ∧
      (∀ v, (nCL, v) ∈ fs → v ≠ [] ∧ ∃ k : Nat, strtoInt64 v = some k) ∧
      (∀ v, (nTE, v) ∈ fs → v ≠ [] → eqIcase v vChunked = true ∧ r0.version = 1) ∧
      (o.headerStrict = true → ∀ f ∈ fs, f.2.any lineCharInvalidStrict = false) ∧
      (r.bodyLen = -1 ↔ ∃ v, (nTE, v) ∈ fs ∧ v ≠ []) ∧
      (r.bodyLen ≠ -1 → ∀ v, (nCL, v) ∈ fs → strtoInt64 v = some r.bodyLen.toNat ∧ 0 ≤ r.bodyLen) ∧
      (r.bodyLen ≠ -1 → (¬ ∃ v, (nCL, v) ∈ fs) → r.bodyLen = 0) ∧
      (r.clSeen = true ↔ ∃ v, (nCL, v) ∈ fs) := by
  obtain ⟨fs, htok, happ⟩ := (parseHeaders_ok_iff o r0 r lines).mp h
  have inv := FramingInv.run fs (FramingInv.init o r0 hfresh.1 hfresh.2) happ
  simp only [List.nil_append] at inv
  refine ⟨fs, htok, inv.clOnce, ?_, inv.te, inv.strictVal, inv.chunked, ?_, ?_, inv.clSeen⟩
  · intro v hv
    obtain ⟨h1, k, hk, _⟩ := inv.clNum v hv
    exact ⟨h1, k, hk⟩
  · intro hne v hv
    obtain ⟨_, k, hk, hb⟩ := inv.clNum v hv
    rcases hb with hb | hb
    · rw [hb]; simp [hk]
    · exact absurd hb hne
  · intro hne hno
    rcases inv.noCl hno with h0 | h1
    · exact h0
    · exact absurd h1 hne

/-- repeated Content-Length is always rejected (every mode) -/
theorem c01_repeated_content_length_rejected (o : Opts) (r0 : PReq) (lines : List Bytes)
    (fs : List (Bytes × Bytes)) (hfresh : Fresh r0)
    (htok : (groupFolds lines).map (fieldOf o) = fs.map Except.ok)
    (hdup : 2 ≤ (fs.filter (fun f => f.1 = nCL)).length) :
    ∀ r, parseHeaders o r0 lines ≠ .ok r := by
  intro r h
  obtain ⟨fs', htok', hone, _⟩ := c01_accepted_fields_unambiguous o r0 r lines hfresh h
  have : fs' = fs := by
    have := htok'.symm.trans htok
    exact (List.map_inj_right (fun a b hab => by injection hab)).mp this
  subst this
  omega

/-- a Content-Length that is empty, non-numeric or larger than INT64_MAX is always rejected -/
theorem c01_bad_content_length_rejected (o : Opts) (r0 : PReq) (lines : List Bytes)
    (fs : List (Bytes × Bytes)) (v : Bytes) (hfresh : Fresh r0)
    (htok : (groupFolds lines).map (fieldOf o) = fs.map Except.ok)
    (hmem : (nCL, v) ∈ fs) (hbad : v = [] ∨ strtoInt64 v = none) :
    ∀ r, parseHeaders o r0 lines ≠ .ok r := by
  intro r h
  obtain ⟨fs', htok', _, hnum, _⟩ := c01_accepted_fields_unambiguous o r0 r lines hfresh h
  have : fs' = fs := by
    have := htok'.symm.trans htok
    exact (List.map_inj_right (fun a b hab => by injection hab)).mp this
  subst this
  obtain ⟨hne, k, hk⟩ := hnum v hmem
  rcases hbad with hb | hb
  · exact hne hb
  · simp [hb] at hk

/-- Transfer-Encoding other than exactly `chunked`, or on HTTP/1.0, is always rejected -/
theorem c01_bad_transfer_encoding_rejected (o : Opts) (r0 : PReq) (lines : List Bytes)
    (fs : List (Bytes × Bytes)) (v : Bytes) (hfresh : Fresh r0)
    (htok : (groupFolds lines).map (fieldOf o) = fs.map Except.ok)
    (hmem : (nTE, v) ∈ fs) (hv : v ≠ [])
    (hbad : eqIcase v vChunked = false ∨ r0.version ≠ 1) :
    ∀ r, parseHeaders o r0 lines ≠ .ok r := by
  intro r h
  obtain ⟨fs', htok', _, _, hte, _⟩ := c01_accepted_fields_unambiguous o r0 r lines hfresh h
  have : fs' = fs := by
    have := htok'.symm.trans htok
    exact (List.map_inj_right (fun a b hab => by injection hab)).mp this
  subst this
  obtain ⟨h1, h2⟩ := hte v hmem hv
  rcases hbad with hb | hb
  · simp [hb] at h1
  · exact hb h2

/-- strict mode: a control character (other than HT) in any field value is rejected -/
theorem c01_ctl_in_value_rejected_strict (o : Opts) (r0 : PReq) (lines : List Bytes)
    (fs : List (Bytes × Bytes)) (f : Bytes × Bytes) (hfresh : Fresh r0) (hs : o.headerStrict = true)
    (htok : (groupFolds lines).map (fieldOf o) = fs.map Except.ok)
    (hmem : f ∈ fs) (hbad : f.2.any lineCharInvalidStrict = true) :
    ∀ r, parseHeaders o r0 lines ≠ .ok r := by
  intro r h
  obtain ⟨fs', htok', _, _, _, hsv, _⟩ := c01_accepted_fields_unambiguous o r0 r lines hfresh h
  have : fs' = fs := by
    have := htok'.symm.trans htok
    exact (List.map_inj_right (fun a b hab => by injection hab)).mp this
  subst this
  have := hsv hs f hmem
  simp [hbad] at this

/-- strict mode: Content-Length together with Transfer-Encoding is rejected;
    every mode: HTTP/1.1 without Host is rejected -/
theorem c01_te_and_cl_rejected_strict (o : Opts) (port : Nat) (r : PReq)
    (hs : o.headerStrict = true) (hte : r.bodyLen = -1) (hcl : r.clSeen = true) :
    ∀ r' t, parsePost o port r ≠ .ok r' t := by
  intro r' t h
  unfold parsePost at h
  simp only at h
  split at h
  · simp at h
  · split at h
    · simp at h
    · simp at h
    · rename_i rr hstep
      -- the host step does not touch bodyLen / clSeen
      have hb : rr.bodyLen = -1 ∧ rr.clSeen = true := by
        split at hstep
        · split at hstep <;> simp at hstep; subst hstep; exact ⟨hte, hcl⟩
        · split at hstep
          · simp at hstep
          · split at hstep
            · simp at hstep
            · split at hstep
              · simp at hstep
              · simp at hstep; subst hstep; exact ⟨hte, hcl⟩
      split at h
      · simp at h
      · split at h
        · rename_i h0; rw [hb.1] at h0; simp at h0
        · simp [hb.1, hb.2, hs] at h

theorem c01_http11_without_host_rejected (o : Opts) (port : Nat) (r : PReq)
    (hv : r.version ≥ 1) (hh : r.host = none) :
    ∀ r' t, parsePost o port r ≠ .ok r' t := by
  intro r' t h
  unfold parsePost at h
  simp only at h
  split at h
  · simp at h
  · simp [hh, hv] at h

/-- strict mode: a request line that does not end in CRLF (bare LF) is rejected -/
theorem c01_bare_lf_reqline_rejected_strict (o : Opts) (line block : Bytes)
    (hs : o.headerStrict = true) (hlf : line.getD (line.length - 2) 0 ≠ cr) :
    parseReqline o line block = .error 400 := by
  have : parseReqlineCore o line = .error 400 := by
    unfold parseReqlineCore
    split
    · rfl
    · simp [hlf, hs]
  simp [parseReqline, this]

/-- strict mode: whitespace between field name and colon is rejected -/
theorem c01_ws_before_colon_rejected_strict (o : Opts) (first : Bytes) (conts : List Bytes) (ci : Nat)
    (hs : o.headerStrict = true) (hci : findIdx (· = colon) first 0 = some ci)
    (hws : ((first.take ci).getLast?.map isWs).getD false = true) :
    fieldOf o (first :: conts) = .error 400 := by
  unfold fieldOf
  simp [hci, hws, hs]

/-- strict mode: an accepted (unfolded) field line ends in CRLF — bare LF is rejected -/
theorem c01_bare_lf_field_rejected_strict (o : Opts) (line : Bytes) (f : Bytes × Bytes)
    (hs : o.headerStrict = true) (h : fieldOf o [line] = .ok f) :
    line.length ≥ 2 ∧ line.getD (line.length - 2) 0 = cr := by
  obtain ⟨j, body, hj, hb⟩ := fieldOf_ok_stripEol o [line] f h
  rw [hs] at hj hb
  simp only [joinFolds, Option.some.injEq] at hj
  subst hj
  exact stripEol_strict_crlf line body hb

/-- lenient mode: a NUL byte anywhere in the header block is rejected by the request line step -/
theorem c01_nul_rejected_lenient (o : Opts) (line block : Bytes)
    (hs : o.headerStrict = false) (hnul : block.contains 0 = true) :
    ∀ r, parseReqline o line block ≠ .ok r := by
  intro r h
  unfold parseReqline at h
  cases hc : parseReqlineCore o line with
  | error e => simp [hc] at h
  | ok p =>
    obtain ⟨r1, uri⟩ := p
    simp only [hc] at h
    by_cases he : uri.isEmpty = true
    · simp [he] at h
    · have hm : (0 : UInt8) ∈ block := by simpa using hnul
      simp [he, hs, hm] at h

/-- strict mode: a control character, space or DEL in the request-target is rejected by the
    request line step when URL control-character rejection is off, and always for CONNECT -/
theorem c01_ctl_in_target_rejected_strict (o : Opts) (line block : Bytes) (r1 : PReq) (uri : Bytes)
    (hs : o.headerStrict = true) (hcore : parseReqlineCore o line = .ok (r1, uri))
    (hmode : o.ctrlsReject = false ∨ r1.method = ofString "CONNECT")
    (hbad : uri.any uriCharInvalidStrict = true) :
    parseReqline o line block = .error 400 := by
  unfold parseReqline
  simp only [hcore, hs]
  split
  · rfl
  · rcases hmode with hm | hm <;> simp [hm, hbad]

/-! non-vacuity -/
example : Fresh { version := 1, keepAlive := true, method := ofString "POST" } := ⟨rfl, rfl⟩
example : ∃ r, parseHeaders ⟨1⟩ { version := 1 } [ofString "Content-Length: 5\r\n"] = .ok r ∧ r.bodyLen = 5 :=
  ⟨_, rfl, rfl⟩
example : parseHeaders ⟨1⟩ { version := 1 }
    [ofString "Content-Length: 5\r\n", ofString "Content-Length: 5\r\n"] = .error 400 := by rfl
example : parseHeaders ⟨1⟩ { version := 0 } [ofString "Transfer-Encoding: chunked\r\n"] = .error 400 := by rfl
example : parseHeaders ⟨1⟩ { version := 1 } [ofString "Transfer-Encoding: gzip, chunked\r\n"] = .error 501 := by rfl

end LtVerif.C01
