/-
  C01 — HTTP/1.x request framing is unambiguous; malformed framing is rejected.
  (theorems are added below; helper lemmas live in LtVerif/Proofs/H1.lean)
-/
import LtVerif.Model.H1Parse
import LtVerif.Model.H1Chunked
namespace LtVerif.C01
open LtVerif B

/-- segmentation independence of the chunked decoder automaton: feeding a stream in two
    pieces is the same as feeding it at once (hence the same for any segmentation). -/
theorem c01_chunked_segmentation (cfg : CkCfg) (s : CkSt) (a b : Bytes) :
    ckFeed cfg (ckFeed cfg s a) b = ckFeed cfg s (a ++ b) := by
  simp [ckFeed, List.foldl_append]

end LtVerif.C01
