/-
  C01 — HTTP/1.x request framing is unambiguous; malformed framing is rejected.
  Property theorems only; helper lemmas live in LtVerif/Proofs/H1*.lean.
-/
import LtVerif.Model.H1Parse
import LtVerif.Proofs.H1Chunked
import LtVerif.Proofs.H1Parse
import LtVerif.Proofs.H1Conn
namespace LtVerif.C01
open LtVerif B

/-! ## chunked request bodies (h1_chunked) -/

/-- segmentation independence of the chunked decoder automaton: feeding a stream in two
    pieces is the same as feeding it at once (hence the same for any segmentation). -/
theorem c01_chunked_segmentation (cfg : CkCfg) (s : CkSt) (a b : Bytes) :
    ckFeed cfg (ckFeed cfg s a) b = ckFeed cfg s (a ++ b) := by
  simp [ckFeed, List.foldl_append]

/-- wire form of a chunked body whose chunks use arbitrary accepted size lines -/
def wire (cs : List (Bytes × Bytes)) (last : Bytes) : Bytes :=
  cs.flatMap (fun c => c.1 ++ c.2 ++ [cr, lf]) ++ (last ++ [cr, lf])

/-- Round trip: every chunked message (any number of non-empty chunks, any accepted spelling
    of the chunk-size lines incl. chunk extensions, no trailers) decodes to exactly the
    concatenation of the chunk data, consumes exactly the message, and leaves keep-alive on. -/
theorem c01_chunked_roundtrip (cfg : CkCfg) (hcfg : cfg.maxSize = 0) (hmf : cfg.maxField ≥ 1026)
    (cs : List (Bytes × Bytes)) (last : Bytes)
    (hcs : ∀ c ∈ cs, GoodLine c.1 c.2.length ∧ c.2 ≠ []) (hlast : GoodLine last 0) :
    ckFeed cfg {} (wire cs last) =
      { mode := .done, out := cs.flatMap (·.2), ka := true, after := 0 } := by
  suffices h : ∀ (out : Bytes), ckFeed cfg { mode := .hdr [] false, out := out, ka := true, after := 0 }
      (wire cs last) = { mode := .done, out := out ++ cs.flatMap (·.2), ka := true, after := 0 } by
    simpa using h []
  induction cs with
  | nil => intro out; simpa [wire] using ckFeed_final cfg hmf hlast out true 0
  | cons c rest ih =>
    intro out
    have hc := hcs c (by simp)
    have hrest : ∀ c ∈ rest, GoodLine c.1 c.2.length ∧ c.2 ≠ [] := fun x hx => hcs x (by simp [hx])
    have : wire (c :: rest) last = (c.1 ++ c.2 ++ [cr, lf]) ++ wire rest last := by
      simp [wire]
    rw [this, ckFeed_append, ckFeed_chunk cfg hcfg hc.1 hc.2, ih hrest]
    simp

/-- Bytes that follow a complete chunked body are not consumed by it (they are the next
    request): they only advance the `after` counter. -/
theorem c01_chunked_no_overread (cfg : CkCfg) (hcfg : cfg.maxSize = 0) (hmf : cfg.maxField ≥ 1026)
    (cs : List (Bytes × Bytes)) (last next : Bytes)
    (hcs : ∀ c ∈ cs, GoodLine c.1 c.2.length ∧ c.2 ≠ []) (hlast : GoodLine last 0) :
    ckFeed cfg {} (wire cs last ++ next) =
      { mode := .done, out := cs.flatMap (·.2), ka := true, after := next.length } := by
  rw [ckFeed_append, c01_chunked_roundtrip cfg hcfg hmf cs last hcs hlast]
  generalize (cs.flatMap (·.2)) = out
  suffices h : ∀ k, ckFeed cfg { mode := .done, out := out, ka := true, after := k } next
      = { mode := .done, out := out, ka := true, after := k + next.length } by simpa using h 0
  induction next with
  | nil => intro k; simp [ckFeed_nil]
  | cons b rest ih => intro k; rw [ckFeed_cons]; simp [ckStep, ih]; omega

/-- Malformed framing: chunk data not followed by CRLF is a 400 and clears keep-alive. -/
theorem c01_chunked_missing_crlf_rejected (cfg : CkCfg) (s : CkSt) (d : Bytes) (x y : UInt8)
    (hd : d ≠ []) (hm : s.mode = .data d.length) (hxy : ¬ (x = cr ∧ y = lf)) :
    (ckFeed cfg s (d ++ [x, y])).mode = .err 400 ∧ (ckFeed cfg s (d ++ [x, y])).ka = false := by
  obtain ⟨mode, out, ka, after⟩ := s
  simp only at hm
  subst hm
  rw [ckFeed_append, ckFeed_data cfg d d.length out ka after hd rfl]
  simp only [ckFeed_cons, ckFeed_nil, ckStep]
  by_cases h1 : x = cr <;> by_cases h2 : y = lf <;> simp_all

/-- An invalid chunk-size line (as judged by the line validator) is a 400. -/
theorem c01_chunked_bad_size_line_rejected (cfg : CkCfg) (p : Bytes) (e : Nat) (out : Bytes) (ka : Bool)
    (hlf : lf ∉ p) (hnul : (0 : UInt8) ∉ p) (hlen : p.length + 1 < 1024)
    (hbad : ckParseLine (p ++ [lf]) = .error e) :
    (ckFeed cfg { mode := .hdr [] false, out := out, ka := ka, after := 0 } (p ++ [lf])).mode = .err e ∧
    (ckFeed cfg { mode := .hdr [] false, out := out, ka := ka, after := 0 } (p ++ [lf])).ka = false := by
  rw [ckFeed_append, ckFeed_hdr_pre cfg p [] out ka 0 hlf hnul (by simp; omega)]
  simp [ckFeed_cons, ckFeed_nil, ckStep, hbad]

/-- the validator rejects what RFC 9112 §7.1 does not allow at the start of a chunk-size line:
    no hex digit, bare LF, or junk after the size that is neither BWS, ';' nor CR -/
theorem c01_chunked_line_no_hex (l : Bytes) (h : (l.head?.bind hexVal) = none) :
    ckParseLine l = .error 400 := by
  unfold ckParseLine
  cases l with
  | nil => simp [ckHex]
  | cons b rest =>
    simp only [List.head?_cons, Option.bind_some] at h
    simp [ckHex, h]

/-- every reachable error state has keep-alive cleared (invariant over all inputs) -/
theorem c01_chunked_error_closes (cfg : CkCfg) (bs : Bytes) :
    ∀ (s : CkSt), ((∃ e, s.mode = .err e) → s.ka = false) →
      ((∃ e, (ckFeed cfg s bs).mode = .err e) → (ckFeed cfg s bs).ka = false) := by
  induction bs with
  | nil => intro s hs; simpa [ckFeed_nil] using hs
  | cons b rest ih =>
    intro s hs
    rw [ckFeed_cons]
    apply ih
    intro ⟨e', he'⟩
    obtain ⟨mode, out, ka, after⟩ := s
    cases mode with
    | hdr acc nul =>
      by_cases h1 : (b = lf && !nul) = true
      · cases hp : ckParseLine (acc ++ [b]) with
        | error e => simp [ckStep, h1, hp]
        | ok n =>
          cases n with
          | zero => simp [ckStep, h1, hp] at he'
          | succ k =>
            by_cases h2 : ¬cfg.maxSize = 0 ∧ (cfg.maxSize < k + 1 ∨ cfg.maxSize - (k + 1) < List.length out)
            · simp [ckStep, h1, hp, h2]
            · simp [ckStep, h1, hp, h2] at he'
      · by_cases h3 : 1023 ≤ List.length acc
        · simp [ckStep, h1, h3]
        · simp [ckStep, h1, h3] at he'
    | data n => simp only [ckStep] at he'; split at he' <;> simp at he'
    | crlf f =>
      cases f with
      | none => simp [ckStep] at he'
      | some a => simp only [ckStep] at he' ⊢; split <;> simp_all
    | trailer acc off nul => simp only [ckStep] at he'; split at he' <;> (try split at he') <;> simp at he'
    | done => simp [ckStep] at he'
    | err e0 => simpa [ckStep] using hs ⟨e0, rfl⟩

/-- from the initial state: an error outcome always has keep-alive cleared -/
theorem c01_chunked_error_closes_init (cfg : CkCfg) (bs : Bytes) (e : Nat)
    (h : (ckFeed cfg {} bs).mode = .err e) : (ckFeed cfg {} bs).ka = false :=
  c01_chunked_error_closes cfg bs {} (by simp) ⟨e, h⟩

theorem c01_chunked_error_absorbing (cfg : CkCfg) (s : CkSt) (e : Nat) (bs : Bytes)
    (h : s.mode = .err e) : ckFeed cfg s bs = s := by
  induction bs with
  | nil => rfl
  | cons b rest ih =>
    rw [ckFeed_cons]
    have : ckStep cfg s b = s := by
      obtain ⟨mode, out, ka, after⟩ := s
      simp only at h; subst h; simp [ckStep]
    rw [this, ih]

/-! non-vacuity: concrete accepted size lines, incl. a chunk extension and leading zeros -/
example : GoodLine (ofString "5;x=y\r\n") 5 :=
  ⟨by rfl, ⟨ofString "5;x=y\r", by decide, by decide, by decide⟩, by decide⟩
example : GoodLine (ofString "000\r\n") 0 :=
  ⟨by rfl, ⟨ofString "000\r", by decide, by decide, by decide⟩, by decide⟩
example : ckFeed {} {} (ofString "5\r\nhello\r\n0\r\n\r\nGET") =
    { mode := .done, out := ofString "hello", ka := true, after := 3 } := by decide
example : (ckFeed {} {} (ofString "5\r\nhello\rX")).mode = .err 400 := by decide
example : ckParseLine (ofString "5 x\r\n") = .error 400 := by rfl

/-! ## request head (request.c) -/

/-- the request state produced by the request line is "fresh": no body framing yet -/
def Fresh (r0 : PReq) : Prop := r0.clSeen = false ∧ r0.bodyLen = 0

/-- **Accepted field sections are unambiguous.**  If the header fields are accepted, then every
    logical field line tokenised, and for the resulting list of (name, value) fields:
    at most one Content-Length field and its value is all digits and fits int64; every non-empty
    Transfer-Encoding value is exactly `chunked` (any case) and the request is HTTP/1.1; in strict
    mode no field value contains a control character; and the framing the parser reports is the
    RFC 9112 §6.3 rule: chunked iff a Transfer-Encoding field is present, else the Content-Length
    value, else no body. -/
theorem c01_accepted_fields_unambiguous (o : Opts) (r0 r : PReq) (lines : List Bytes)
    (hfresh : Fresh r0) (h : parseHeaders o r0 lines = .ok r) :
    ∃ fs : List (Bytes × Bytes),
      (groupFolds lines).map (fieldOf o) = fs.map Except.ok ∧
      (fs.filter (fun f => f.1 = nCL)).length ≤ 1 ∧
      (∀ v, (nCL, v) ∈ fs → v ≠ [] ∧ ∃ k : Nat, strtoInt64 v = some k) ∧
      (∀ v, (nTE, v) ∈ fs → v ≠ [] → eqIcase v vChunked = true ∧ r0.version = 1) ∧
      (o.headerStrict = true → ∀ f ∈ fs, f.2.any lineCharInvalidStrict = false) ∧
      (r.bodyLen = -1 ↔ ∃ v, (nTE, v) ∈ fs ∧ v ≠ []) ∧
      (r.bodyLen ≠ -1 → ∀ v, (nCL, v) ∈ fs → strtoInt64 v = some r.bodyLen.toNat ∧ 0 ≤ r.bodyLen) ∧
      (r.bodyLen ≠ -1 → (¬ ∃ v, (nCL, v) ∈ fs) → r.bodyLen = 0) ∧
      (r.clSeen = true ↔ ∃ v, (nCL, v) ∈ fs) := by
  obtain ⟨fs, htok, happ⟩ := (parseHeaders_ok_iff o r0 r lines).mp h
  have inv := FramingInv.run fs (FramingInv.init o r0 hfresh.1 hfresh.2) happ
  simp only [List.nil_append] at inv
  refine ⟨fs, htok, inv.clOnce, ?_, inv.te, inv.strictVal, inv.chunked, ?_, ?_, inv.clSeen⟩
  · intro v hv
    obtain ⟨h1, k, hk, _⟩ := inv.clNum v hv
    exact ⟨h1, k, hk⟩
  · intro hne v hv
    obtain ⟨_, k, hk, hb⟩ := inv.clNum v hv
    rcases hb with hb | hb
    · rw [hb]; simp [hk]
    · exact absurd hb hne
  · intro hne hno
    rcases inv.noCl hno with h0 | h1
    · exact h0
    · exact absurd h1 hne

/-- repeated Content-Length is always rejected (every mode) -/
theorem c01_repeated_content_length_rejected (o : Opts) (r0 : PReq) (lines : List Bytes)
    (fs : List (Bytes × Bytes)) (hfresh : Fresh r0)
    (htok : (groupFolds lines).map (fieldOf o) = fs.map Except.ok)
    (hdup : 2 ≤ (fs.filter (fun f => f.1 = nCL)).length) :
    ∀ r, parseHeaders o r0 lines ≠ .ok r := by
  intro r h
  obtain ⟨fs', htok', hone, _⟩ := c01_accepted_fields_unambiguous o r0 r lines hfresh h
  have : fs' = fs := by
    have := htok'.symm.trans htok
    exact (List.map_inj_right (fun a b hab => by injection hab)).mp this
  subst this
  omega

/-- a Content-Length that is empty, non-numeric or larger than INT64_MAX is always rejected -/
theorem c01_bad_content_length_rejected (o : Opts) (r0 : PReq) (lines : List Bytes)
    (fs : List (Bytes × Bytes)) (v : Bytes) (hfresh : Fresh r0)
    (htok : (groupFolds lines).map (fieldOf o) = fs.map Except.ok)
    (hmem : (nCL, v) ∈ fs) (hbad : v = [] ∨ strtoInt64 v = none) :
    ∀ r, parseHeaders o r0 lines ≠ .ok r := by
  intro r h
  obtain ⟨fs', htok', _, hnum, _⟩ := c01_accepted_fields_unambiguous o r0 r lines hfresh h
  have : fs' = fs := by
    have := htok'.symm.trans htok
    exact (List.map_inj_right (fun a b hab => by injection hab)).mp this
  subst this
  obtain ⟨hne, k, hk⟩ := hnum v hmem
  rcases hbad with hb | hb
  · exact hne hb
  · simp [hb] at hk

/-- Transfer-Encoding other than exactly `chunked`, or on HTTP/1.0, is always rejected -/
theorem c01_bad_transfer_encoding_rejected (o : Opts) (r0 : PReq) (lines : List Bytes)
    (fs : List (Bytes × Bytes)) (v : Bytes) (hfresh : Fresh r0)
    (htok : (groupFolds lines).map (fieldOf o) = fs.map Except.ok)
    (hmem : (nTE, v) ∈ fs) (hv : v ≠ [])
    (hbad : eqIcase v vChunked = false ∨ r0.version ≠ 1) :
    ∀ r, parseHeaders o r0 lines ≠ .ok r := by
  intro r h
  obtain ⟨fs', htok', _, _, hte, _⟩ := c01_accepted_fields_unambiguous o r0 r lines hfresh h
  have : fs' = fs := by
    have := htok'.symm.trans htok
    exact (List.map_inj_right (fun a b hab => by injection hab)).mp this
  subst this
  obtain ⟨h1, h2⟩ := hte v hmem hv
  rcases hbad with hb | hb
  · simp [hb] at h1
  · exact hb h2

/-- strict mode: a control character (other than HT) in any field value is rejected -/
theorem c01_ctl_in_value_rejected_strict (o : Opts) (r0 : PReq) (lines : List Bytes)
    (fs : List (Bytes × Bytes)) (f : Bytes × Bytes) (hfresh : Fresh r0) (hs : o.headerStrict = true)
    (htok : (groupFolds lines).map (fieldOf o) = fs.map Except.ok)
    (hmem : f ∈ fs) (hbad : f.2.any lineCharInvalidStrict = true) :
    ∀ r, parseHeaders o r0 lines ≠ .ok r := by
  intro r h
  obtain ⟨fs', htok', _, _, _, hsv, _⟩ := c01_accepted_fields_unambiguous o r0 r lines hfresh h
  have : fs' = fs := by
    have := htok'.symm.trans htok
    exact (List.map_inj_right (fun a b hab => by injection hab)).mp this
  subst this
  have := hsv hs f hmem
  simp [hbad] at this

/-- strict mode: Content-Length together with Transfer-Encoding is rejected;
    every mode: HTTP/1.1 without Host is rejected -/
theorem c01_te_and_cl_rejected_strict (o : Opts) (port : Nat) (r : PReq)
    (hs : o.headerStrict = true) (hte : r.bodyLen = -1) (hcl : r.clSeen = true) :
    ∀ r' t, parsePost o port r ≠ .ok r' t := by
  intro r' t h
  unfold parsePost at h
  simp only at h
  split at h
  · simp at h
  · split at h
    · simp at h
    · simp at h
    · rename_i rr hstep
      -- the host step does not touch bodyLen / clSeen
      have hb : rr.bodyLen = -1 ∧ rr.clSeen = true := by
        split at hstep
        · split at hstep <;> simp at hstep; subst hstep; exact ⟨hte, hcl⟩
        · split at hstep
          · simp at hstep
          · split at hstep
            · simp at hstep
            · split at hstep
              · simp at hstep
              · simp at hstep; subst hstep; exact ⟨hte, hcl⟩
      split at h
      · simp at h
      · split at h
        · rename_i h0; rw [hb.1] at h0; simp at h0
        · simp [hb.1, hb.2, hs] at h

theorem c01_http11_without_host_rejected (o : Opts) (port : Nat) (r : PReq)
    (hv : r.version ≥ 1) (hh : r.host = none) :
    ∀ r' t, parsePost o port r ≠ .ok r' t := by
  intro r' t h
  unfold parsePost at h
  simp only at h
  split at h
  · simp at h
  · simp [hh, hv] at h

/-- strict mode: a request line that does not end in CRLF (bare LF) is rejected -/
theorem c01_bare_lf_reqline_rejected_strict (o : Opts) (line block : Bytes)
    (hs : o.headerStrict = true) (hlf : line.getD (line.length - 2) 0 ≠ cr) :
    parseReqline o line block = .error 400 := by
  have : parseReqlineCore o line = .error 400 := by
    unfold parseReqlineCore
    split
    · rfl
    · simp [hlf, hs]
  simp [parseReqline, this]

/-- strict mode: whitespace between field name and colon is rejected -/
theorem c01_ws_before_colon_rejected_strict (o : Opts) (first : Bytes) (conts : List Bytes) (ci : Nat)
    (hs : o.headerStrict = true) (hci : findIdx (· = colon) first 0 = some ci)
    (hws : ((first.take ci).getLast?.map isWs).getD false = true) :
    fieldOf o (first :: conts) = .error 400 := by
  unfold fieldOf
  simp [hci, hws, hs]

/-- strict mode: an accepted (unfolded) field line ends in CRLF — bare LF is rejected -/
theorem c01_bare_lf_field_rejected_strict (o : Opts) (line : Bytes) (f : Bytes × Bytes)
    (hs : o.headerStrict = true) (h : fieldOf o [line] = .ok f) :
    line.length ≥ 2 ∧ line.getD (line.length - 2) 0 = cr := by
  obtain ⟨j, body, hj, hb⟩ := fieldOf_ok_stripEol o [line] f h
  rw [hs] at hj hb
  simp only [joinFolds, Option.some.injEq] at hj
  subst hj
  exact stripEol_strict_crlf line body hb

/-- lenient mode: a NUL byte anywhere in the header block is rejected by the request line step -/
theorem c01_nul_rejected_lenient (o : Opts) (line block : Bytes)
    (hs : o.headerStrict = false) (hnul : block.contains 0 = true) :
    ∀ r, parseReqline o line block ≠ .ok r := by
  intro r h
  unfold parseReqline at h
  cases hc : parseReqlineCore o line with
  | error e => simp [hc] at h
  | ok p =>
    obtain ⟨r1, uri⟩ := p
    simp only [hc] at h
    by_cases he : uri.isEmpty = true
    · simp [he] at h
    · have hm : (0 : UInt8) ∈ block := by simpa using hnul
      simp [he, hs, hm] at h

/-- strict mode: a control character, space or DEL in the request-target is rejected by the
    request line step when URL control-character rejection is off, and always for CONNECT -/
theorem c01_ctl_in_target_rejected_strict (o : Opts) (line block : Bytes) (r1 : PReq) (uri : Bytes)
    (hs : o.headerStrict = true) (hcore : parseReqlineCore o line = .ok (r1, uri))
    (hmode : o.ctrlsReject = false ∨ r1.method = ofString "CONNECT")
    (hbad : uri.any uriCharInvalidStrict = true) :
    parseReqline o line block = .error 400 := by
  unfold parseReqline
  simp only [hcore, hs]
  split
  · rfl
  · rcases hmode with hm | hm <;> simp [hm, hbad]

/-- default parse options (header-strict and url-ctrls-reject): the check of the target is
    left to URL normalisation, which drops a fragment unread — so the request line step itself
    rejects a control character, space, NUL or DEL anywhere behind the first '#' (D61) -/
theorem c01_ctl_in_fragment_rejected_default (o : Opts) (line block : Bytes) (r1 : PReq) (uri : Bytes)
    (hs : o.headerStrict = true) (hcore : parseReqlineCore o line = .ok (r1, uri))
    (hbad : fragmentInvalidStrict uri = true) :
    parseReqline o line block = .error 400 := by
  unfold parseReqline
  simp only [hcore, hs]
  split
  · rfl
  · have hall : uri.any uriCharInvalidStrict = true := by
      unfold fragmentInvalidStrict at hbad
      simp only [List.any_eq_true] at hbad ⊢
      obtain ⟨b, hb, hbb⟩ := hbad
      exact ⟨b, (List.dropWhile_sublist _).subset hb, hbb⟩
    split <;> simp_all

/-! non-vacuity -/
example : parseReqline ⟨0x255f⟩ (ofString "GET /a#\x01 HTTP/1.1\r\n") [] = .error 400 := by rfl
example : ∃ r, parseReqline ⟨0x255f⟩ (ofString "GET /a#b HTTP/1.1\r\n") [] = .ok r ∧ r.target = ofString "/a#b" :=
  ⟨_, rfl, rfl⟩
example : Fresh { version := 1, keepAlive := true, method := ofString "POST" } := ⟨rfl, rfl⟩
example : ∃ r, parseHeaders ⟨1⟩ { version := 1 } [ofString "Content-Length: 5\r\n"] = .ok r ∧ r.bodyLen = 5 :=
  ⟨_, rfl, rfl⟩
example : parseHeaders ⟨1⟩ { version := 1 }
    [ofString "Content-Length: 5\r\n", ofString "Content-Length: 5\r\n"] = .error 400 := by rfl
example : parseHeaders ⟨1⟩ { version := 0 } [ofString "Transfer-Encoding: chunked\r\n"] = .error 400 := by rfl
example : parseHeaders ⟨1⟩ { version := 1 } [ofString "Transfer-Encoding: gzip, chunked\r\n"] = .error 501 := by rfl


/-! ## connection level: pipelines, keep-alive, close after rejection (Model/H1Conn.lean) -/

/-- feeding a connection segment by segment (what TCP delivers) -/
def feedSegs (cfg : ConnCfg) : ConnSt → List Bytes → ConnSt × List Event
  | s, [] => (s, [])
  | s, seg :: rest =>
    ((feedSegs cfg (h1Feed cfg s seg).1 rest).1, (h1Feed cfg s seg).2 ++ (feedSegs cfg (h1Feed cfg s seg).1 rest).2)

/-- **Independence from TCP segmentation.**  However the byte stream of a connection is cut into
    segments, the final state and the sequence of events (requests with their bodies, rejections,
    close) are those of the uncut stream. -/
theorem c01_segmentation_conn (cfg : ConnCfg) (segs : List Bytes) (s : ConnSt) :
    feedSegs cfg s segs = h1Feed cfg s segs.flatten := by
  induction segs generalizing s with
  | nil => rfl
  | cons seg rest ih =>
    simp only [feedSegs, List.flatten_cons]
    rw [h1Feed_append, ih]

/-- a message as sent by a client, together with the parser's reading of its head (`r`, `t`)
    and the payload its body carries -/
structure Msg where
  head : Bytes
  body : Bytes
  r : PReq
  t : Target
  payload : Bytes

def Msg.bytes (m : Msg) : Bytes := m.head ++ m.body

/-- the event a handled message produces -/
def Msg.event (cfg : ConnCfg) (m : Msg) : Event :=
  .request (cfg.handler m.r m.t).status m.r.method m.r.target m.t.path m.payload (m.r.bodyLen == -1)

/-- A well-formed message on a kept-alive connection: the head ends at its first blank line, does not
    begin with a control byte, respects the size limits and is accepted by the parser as `r`,`t` with
    keep-alive; the handler reads the body; and the body is what the accepted framing announces:
    nothing, exactly Content-Length bytes (ANY bytes), or a chunked coding (`wire`) of the payload. -/
structure WellFormed (cfg : ConnCfg) (m : Msg) : Prop where
  minimal : MinimalHead m.head
  first : firstOk m.head = true
  size : m.head.length ≤ cfg.maxField
  nlines : m.head.count lf + 1 < 8191
  parse : parseHead cfg.opts cfg.maxField cfg.port m.head = .ok m.r m.t
  keep : m.r.keepAlive = true
  handler : (cfg.handler m.r m.t).close = false ∧ (cfg.handler m.r m.t).readsBody = true
  framing :
      (m.r.bodyLen = 0 ∧ m.body = [] ∧ m.payload = [])
    ∨ (m.r.bodyLen > 0 ∧ m.body.length = m.r.bodyLen.toNat ∧ m.payload = m.body)
    ∨ (m.r.bodyLen = -1 ∧ ∃ cs last, (∀ c ∈ cs, GoodLine c.1 c.2.length ∧ c.2 ≠ []) ∧ GoodLine last 0 ∧
         m.body = wire cs last ∧ m.payload = cs.flatMap (·.2))

/-- One well-formed message, received at the start of a request, yields exactly one request event
    carrying exactly its payload, consumes exactly the message (the automaton is back at the start
    of a request with an empty buffer) and advances the request counter by one. -/
theorem c01_message_framed_exactly (cfg : ConnCfg) (hmf : cfg.maxField ≥ 1026) (hms : cfg.maxSize = 0)
    (hidle : cfg.kaIdle ≠ 0) (m : Msg) (hw : WellFormed cfg m) (count : Nat) (bo : Bool)
    (hcount : count ≤ cfg.maxKaReqs) :
    h1Feed cfg { phase := .head [] 0 bo, count := count } m.bytes
      = ({ phase := .head [] 0 true, count := count + 1 }, [m.event cfg]) := by
  have hka : ∀ ckKa, keepAliveAfter cfg count m.r (cfg.handler m.r m.t) true ckKa = ckKa := by
    intro ckKa
    simp [keepAliveAfter, hw.keep, hidle, hcount, hw.handler.1]
  unfold Msg.bytes
  rw [h1Feed_append, headFeed cfg count bo m.head hw.minimal (firstOk_spec hw.first) hw.size hw.nlines]
  have hdisp : dispatch cfg count m.head =
      if m.r.bodyLen = 0 then respond cfg count m.r m.t (cfg.handler m.r m.t) [] true true
      else if m.r.bodyLen > 0 then
        ({ phase := .bodyCL m.r m.t (cfg.handler m.r m.t) m.r.bodyLen.toNat [], count := count }, [])
      else ({ phase := .bodyCk m.r m.t (cfg.handler m.r m.t) {}, count := count }, []) := by
    unfold dispatch
    rw [hw.parse]
    simp [hms, hw.handler.2]
  rw [hdisp]
  rcases hw.framing with ⟨h0, hb, hp⟩ | ⟨hpos, hlen, hp⟩ | ⟨hck, cs, last, hcs, hlast, hb, hp⟩
  · -- no body
    rw [if_pos h0, hb, h1Feed_nil]
    simp [respond, hka, Msg.event, hp, h0]
  · -- Content-Length
    have hne0 : m.r.bodyLen ≠ 0 := by omega
    rw [if_neg hne0, if_pos hpos]
    have hbne : m.body ≠ [] := by
      intro e; rw [e] at hlen; simp at hlen; omega
    simp only
    rw [clFeed cfg count m.r m.t _ m.body _ [] hbne hlen]
    have hnck : (m.r.bodyLen == -1) = false := by
      simp; omega
    simp [respond, hka, Msg.event, hp, hnck]
  · -- chunked
    have hne0 : m.r.bodyLen ≠ 0 := by omega
    have hnpos : ¬ m.r.bodyLen > 0 := by omega
    rw [if_neg hne0, if_neg hnpos]
    have hrt := c01_chunked_roundtrip (ckCfgOf cfg) (by simp [ckCfgOf, hms]) (by simp [ckCfgOf]; omega) cs last hcs hlast
    have hwne : wire cs last ≠ [] := by simp [wire]
    simp only
    rw [hb, ckConnFeed cfg count m.r m.t _ (wire cs last) {} hwne ?_ (by rw [hrt])]
    · rw [hrt]
      simp [respond, hka, Msg.event, hp, hck]
    · intro p q hpq _ hq
      exact ck_no_early_end (ckCfgOf cfg) {} p q hq (by rw [← hpq, hrt]) (by rw [← hpq, hrt])

/-- **No request smuggling.**  For every list of well-formed messages `ms` (no body, Content-Length
    body of arbitrary bytes, or chunked body in any accepted spelling), feeding their concatenation
    on one connection yields exactly `ms.length` request events, in order, each with exactly its
    payload, and consumes exactly the bytes: no body byte is ever parsed as part of a request head.
    (Configuration hypotheses, not restrictions of the statement: no server.max-request-size limit,
    max-request-field-size at least 1026 so that a last-chunk line fits, keep-alive enabled and the
    pipeline within server.max-keep-alive-requests -- otherwise the server closes earlier by design.) -/
theorem c01_no_smuggling (cfg : ConnCfg) (hmf : cfg.maxField ≥ 1026) (hms : cfg.maxSize = 0)
    (hidle : cfg.kaIdle ≠ 0) (ms : List Msg) (hw : ∀ m ∈ ms, WellFormed cfg m) (count : Nat) (bo : Bool)
    (hcount : count + ms.length ≤ cfg.maxKaReqs + 1) :
    h1Feed cfg { phase := .head [] 0 bo, count := count } (ms.flatMap Msg.bytes)
      = ({ phase := .head [] 0 (bo || !ms.isEmpty), count := count + ms.length }, ms.map (Msg.event cfg)) := by
  induction ms generalizing count bo with
  | nil => simp [h1Feed_nil]
  | cons m rest ih =>
    simp only [List.flatMap_cons, List.length_cons] at hcount ⊢
    rw [h1Feed_append, c01_message_framed_exactly cfg hmf hms hidle m (hw m (by simp)) count bo (by omega)]
    simp only
    rw [ih (fun x hx => hw x (by simp [hx])) (count + 1) true (by omega)]
    simp
    omega

/-- the bytes of a Content-Length body are opaque: whatever they are (e.g. a complete request), the
    next `n` bytes after the head become the body of this request and produce no event of their own -/
theorem c01_cl_body_opaque (cfg : ConnCfg) (count : Nat) (r : PReq) (t : Target) (h : Handler) (d : Bytes)
    (hd : d ≠ []) :
    h1Feed cfg { phase := .bodyCL r t h d.length [], count := count } d = respond cfg count r t h d true true := by
  simpa using clFeed cfg count r t h d d.length [] hd rfl

/-- **A rejected head closes the connection.**  If the parser rejects a (minimal) request head with
    status `e` — all the rejections of the head-level theorems above — the connection answers with
    exactly that status and closes: `[reject e, close]`, nothing else, from this head or later bytes. -/
theorem c01_rejected_head_closes (cfg : ConnCfg) (count : Nat) (bo : Bool) (H next : Bytes) (e : Nat)
    (hmin : MinimalHead H) (hfirst : firstOk H = true) (hsize : H.length ≤ cfg.maxField)
    (hnl : H.count lf + 1 < 8191) (hrej : parseHead cfg.opts cfg.maxField cfg.port H = .err e) :
    h1Feed cfg { phase := .head [] 0 bo, count := count } (H ++ next)
      = ({ phase := .closed, count := count }, [.reject e, .close]) := by
  rw [h1Feed_append, headFeed cfg count bo H hmin (firstOk_spec hfirst) hsize hnl]
  have : dispatch cfg count H = rejectWith count e := by
    unfold dispatch; rw [hrej]
  rw [this]
  simp [rejectWith, h1Feed_closed]

/-- **After a rejection nothing more is accepted.**  In the event sequence of ANY byte stream from ANY
    state, a `reject` is followed by `close` and nothing else (in particular by no request), and the
    connection is closed. -/
theorem c01_reject_closes (cfg : ConnCfg) (bs : Bytes) : ∀ (s : ConnSt) (pre post : List Event) (st : Nat),
    (h1Feed cfg s bs).2 = pre ++ Event.reject st :: post →
    post = [Event.close] ∧ (h1Feed cfg s bs).1.isClosed = true := by
  induction bs with
  | nil => intro s pre post st h; simp [h1Feed_nil] at h
  | cons b rest ih =>
    intro s pre post st h
    rw [h1Feed_cons] at h ⊢
    have ho := h1Step_out cfg s b
    generalize h1Step cfg s b = out at h ho ⊢
    cases ho with
    | silent s' _ _ => simp only [List.nil_append] at h; exact ih s' pre post st h
    | closedIdle hc =>
      obtain ⟨phase, c⟩ := s
      cases phase <;> simp [ConnSt.isClosed] at hc
      simp [h1Feed_closed] at h
    | answered ev hr =>
      rcases pre with _ | ⟨p, pre'⟩
      · simp at h; rw [h.1] at hr; simp [Event.isRequest] at hr
      · simp at h; exact ih _ pre' post st h.2
    | answeredClose ev hr =>
      simp only [h1Feed_closed] at h ⊢
      rcases pre with _ | ⟨p, _ | ⟨q, pre'⟩⟩
      · simp at h; rw [h.1] at hr; simp [Event.isRequest] at hr
      · simp at h
      · simp at h
    | rejected e =>
      simp only [h1Feed_closed] at h ⊢
      rcases pre with _ | ⟨p, _ | ⟨q, pre'⟩⟩
      · simp at h; simp [h.2, ConnSt.isClosed]
      · simp at h
      · simp at h
    | unmodelled =>
      simp only [h1Feed_closed] at h ⊢
      rcases pre with _ | ⟨p, _ | ⟨q, pre'⟩⟩
      · simp at h
      · simp at h
      · simp at h

/-- **Rejections are 4xx/5xx.**  Every rejection the connection emits, on ANY byte stream, carries one of
    the statuses 400, 411, 413, 431, 501 (`RejSt`) -- from the first request of a connection and from every
    state in which an embedded chunked decoder is not already in its error state (`ConnSt.Live`, an
    invariant of the automaton). -/
theorem c01_reject_status (cfg : ConnCfg) (bs : Bytes) (s : ConnSt) (hs : s.Live) (st : Nat)
    (h : Event.reject st ∈ (h1Feed cfg s bs).2) :
    st = 400 ∨ st = 411 ∨ st = 413 ∨ st = 431 ∨ st = 501 :=
  (h1Feed_rej cfg bs s hs).1 st h

/-- **A trailer section that outgrows max-request-field-size closes the connection.**  When the bytes
    after the last-chunk line reach the limit without their terminating empty line, the request is
    answered with the body decoded so far and the connection is closed: whatever follows (the rest of
    the trailer section, crafted or not to look like a request) produces no event. -/
theorem c01_trailer_overflow_closes (cfg : ConnCfg) (count : Nat) (r : PReq) (t : Target) (h : Handler)
    (ck : CkSt) (acc : Bytes) (off : Nat) (b : UInt8) (next : Bytes)
    (hmode : ck.mode = .trailer acc off false) (hb : b ≠ 0)
    (hnoend : endsCrlfCrlf ((acc ++ [b]).drop off) = false) (hlen : acc.length + 1 ≥ cfg.maxField) :
    h1Feed cfg { phase := .bodyCk r t h ck, count := count } (b :: next)
      = ({ phase := .closed, count := count },
         [.request h.status r.method r.target t.path ck.out (r.bodyLen == -1), .close]) := by
  obtain ⟨mode, out, ka, after⟩ := ck
  simp only at hmode
  subst hmode
  rw [h1Feed_cons]
  have hstep : ckStep (ckCfgOf cfg) { mode := .trailer acc off false, out := out, ka := ka, after := after } b
      = { mode := .done, out := out, ka := false, after := after } := by
    simp [ckStep, hb, hnoend, ckCfgOf]
    omega
  simp [h1Step, hstep, respond, keepAliveAfter, h1Feed_closed]

/-- `close` is final: no event of any kind follows it -/
theorem c01_close_final (cfg : ConnCfg) (bs : Bytes) : ∀ (s : ConnSt) (pre post : List Event),
    (h1Feed cfg s bs).2 = pre ++ Event.close :: post →
    post = [] ∧ (h1Feed cfg s bs).1.isClosed = true := by
  induction bs with
  | nil => intro s pre post h; simp [h1Feed_nil] at h
  | cons b rest ih =>
    intro s pre post h
    rw [h1Feed_cons] at h ⊢
    have ho := h1Step_out cfg s b
    generalize h1Step cfg s b = out at h ho ⊢
    cases ho with
    | silent s' _ _ => simp only [List.nil_append] at h; exact ih s' pre post h
    | closedIdle hc =>
      obtain ⟨phase, c⟩ := s
      cases phase <;> simp [ConnSt.isClosed] at hc
      simp [h1Feed_closed] at h
    | answered ev hr =>
      rcases pre with _ | ⟨p, pre'⟩
      · simp at h; rw [h.1] at hr; simp [Event.isRequest] at hr
      · simp at h; exact ih _ pre' post h.2
    | answeredClose ev hr =>
      simp only [h1Feed_closed] at h ⊢
      rcases pre with _ | ⟨p, _ | ⟨q, pre'⟩⟩
      · simp at h; rw [h.1] at hr; simp [Event.isRequest] at hr
      · simp at h; simp [h, ConnSt.isClosed]
      · simp at h
    | rejected e =>
      simp only [h1Feed_closed] at h ⊢
      rcases pre with _ | ⟨p, _ | ⟨q, pre'⟩⟩
      · simp at h
      · simp at h; simp [h, ConnSt.isClosed]
      · simp at h
    | unmodelled =>
      simp only [h1Feed_closed] at h ⊢
      rcases pre with _ | ⟨p, _ | ⟨q, pre'⟩⟩
      · simp at h
      · simp at h; simp [h, ConnSt.isClosed]
      · simp at h

/-- number of responses (answers to accepted requests + rejections) in an event sequence -/
def nResp (evs : List Event) : Nat := (evs.filter Event.isResponse).length

/-- **One response per request, in order.**  `count` is the number of the request being received
    (`con->request_count`).  For ANY byte stream from ANY state: the counter never decreases; while the
    connection is open every response emitted so far advanced it by exactly one (so the k-th response
    answers the k-th request and no request is answered twice or skipped); and in every case the number
    of responses never exceeds the number of requests begun. -/
theorem c01_one_response_per_request (cfg : ConnCfg) (bs : Bytes) : ∀ (s : ConnSt),
    s.count ≤ (h1Feed cfg s bs).1.count ∧
    ((h1Feed cfg s bs).1.isClosed = false → (h1Feed cfg s bs).1.count = s.count + nResp (h1Feed cfg s bs).2) ∧
    nResp (h1Feed cfg s bs).2 ≤ (h1Feed cfg s bs).1.count - s.count + 1 := by
  induction bs with
  | nil => intro s; simp [h1Feed_nil, nResp]
  | cons b rest ih =>
    intro s
    rw [h1Feed_cons]
    have ho := h1Step_out cfg s b
    generalize h1Step cfg s b = out at ho ⊢
    cases ho with
    | silent s' _ hc =>
      obtain ⟨h1, h2, h3⟩ := ih s'
      simp only [List.nil_append]
      rw [hc] at h1 h2 h3
      exact ⟨h1, h2, h3⟩
    | closedIdle hc =>
      obtain ⟨phase, c⟩ := s
      cases phase <;> simp [ConnSt.isClosed] at hc
      simp [h1Feed_closed, nResp, ConnSt.isClosed]
    | answered ev hr =>
      obtain ⟨h1, h2, h3⟩ := ih { phase := .head [] 0 true, count := s.count + 1 }
      have hresp : ev.isResponse = true := isResponse_of_isRequest hr
      simp only [nResp, List.cons_append, List.nil_append, List.filter_cons, hresp, if_true, List.length_cons] at h1 h2 h3 ⊢
      refine ⟨by omega, fun hcl => ?_, by omega⟩
      have := h2 hcl
      omega
    | answeredClose ev hr =>
      have hresp : ev.isResponse = true := isResponse_of_isRequest hr
      simp [h1Feed_closed, nResp, ConnSt.isClosed, List.filter_cons, hresp]
    | rejected e => simp [h1Feed_closed, nResp, ConnSt.isClosed, List.filter_cons]
    | unmodelled => simp [h1Feed_closed, nResp, ConnSt.isClosed, List.filter_cons]

/-- every single byte produces at most one response -/
theorem c01_step_one_response (cfg : ConnCfg) (s : ConnSt) (b : UInt8) : nResp (h1Step cfg s b).2 ≤ 1 := by
  have ho := h1Step_out cfg s b
  generalize h1Step cfg s b = out at ho ⊢
  cases ho with
  | silent _ _ _ => simp [nResp]
  | closedIdle _ => simp [nResp]
  | answered ev hr => simp [nResp, List.filter_cons, isResponse_of_isRequest hr]
  | answeredClose ev hr => simp [nResp, List.filter_cons, isResponse_of_isRequest hr]
  | rejected e => simp [nResp, List.filter_cons]
  | unmodelled => simp [nResp, List.filter_cons]

/-- one CRLF (or bare LF) before a keep-alive request is skipped -- independently of how it is cut into
    segments, by `c01_segmentation_conn` -- and a second blank line is rejected -/
theorem c01_blank_line_between_requests (cfg : ConnCfg) (count : Nat) (H : Bytes)
    (hmin : MinimalHead H) (hfirst' : firstOk H = true) (hsize : H.length ≤ cfg.maxField)
    (hnl : H.count lf + 1 < 8191) :
    h1Feed cfg { phase := .head [] 0 true, count := count } ([cr, lf] ++ H) = dispatch cfg count H ∧
    h1Feed cfg { phase := .head [] 0 true, count := count } ([lf] ++ H) = dispatch cfg count H ∧
    h1Feed cfg { phase := .head [] 0 true, count := count } ([cr, lf, cr, lf] ++ H)
      = ({ phase := .closed, count := count }, [.reject 400, .close]) := by
  have hfirst := firstOk_spec hfirst'
  have hne : H ≠ [] := by intro h; subst h; simp [MinimalHead, headEnd] at hmin
  obtain ⟨b, rest, rfl⟩ : ∃ b rest, H = b :: rest := by
    cases H with
    | nil => exact absurd rfl hne
    | cons b rest => exact ⟨b, rest, rfl⟩
  have hb := hfirst b rfl
  have hcr : b ≠ cr := by intro e; subst e; exact hb (by decide)
  have hlf : b ≠ lf := by intro e; subst e; exact hb (by decide)
  have key := headFeed cfg count false (b :: rest) hmin hfirst hsize hnl
  rw [h1Feed_cons] at key
  have hs0 : h1Step cfg { phase := .head [] 0 false, count := count } b = headByte cfg count [] 0 b := by
    simp [h1Step]
  rw [hs0] at key
  refine ⟨?_, ?_, ?_⟩
  · simp only [List.cons_append, List.nil_append]
    rw [h1Feed_cons, h1Feed_cons, h1Feed_cons]
    simp [h1Step, cr, lf] at *
    simpa [h1Step, hcr, hlf, cr, lf] using key
  · simp only [List.cons_append, List.nil_append]
    rw [h1Feed_cons, h1Feed_cons]
    simp [h1Step, cr, lf] at *
    simpa [h1Step, hcr, hlf, cr, lf] using key
  · simp only [List.cons_append, List.nil_append]
    rw [h1Feed_cons, h1Feed_cons, h1Feed_cons]
    simp [h1Step, cr, lf, rejectWith, h1Feed_closed]

/-! non-vacuity (connection level) -/
section Examples
/-- the default server.http-parseopts (0x255f); every request is handled by a body-reading handler -/
def exCfg : ConnCfg := { opts := ⟨9567⟩, handler := fun _ _ => { status := 200, readsBody := true } }

/-- what the parser reads from a head (dummy values if it does not accept it) -/
def parsed (head : Bytes) : PReq × Target :=
  match parseHead exCfg.opts exCfg.maxField exCfg.port head with
  | .ok r t => (r, t)
  | _ => ({}, { target := [], path := [], query := [] })

def accepted (head : Bytes) : Bool :=
  match parseHead exCfg.opts exCfg.maxField exCfg.port head with
  | .ok _ _ => true
  | _ => false

def rejectedWith (head : Bytes) (e : Nat) : Bool :=
  match parseHead exCfg.opts exCfg.maxField exCfg.port head with
  | .err e' => e' == e
  | _ => false

private theorem parsed_spec (head : Bytes) (h : accepted head = true) :
    parseHead exCfg.opts exCfg.maxField exCfg.port head = .ok (parsed head).1 (parsed head).2 := by
  unfold accepted at h
  unfold parsed
  cases hX : parseHead exCfg.opts exCfg.maxField exCfg.port head <;> simp_all

private theorem rejectedWith_spec (head : Bytes) (e : Nat) (h : rejectedWith head e = true) :
    parseHead exCfg.opts exCfg.maxField exCfg.port head = .err e := by
  unfold rejectedWith at h
  cases hX : parseHead exCfg.opts exCfg.maxField exCfg.port head <;> simp_all

/-- a message whose `r`,`t` are what the parser reads from its head -/
def msgOf (head body payload : Bytes) : Msg :=
  { head := head, body := body, r := (parsed head).1, t := (parsed head).2, payload := payload }

def exGet : Bytes := ofString "GET /a HTTP/1.1\r\nHost: h\r\n\r\n"
def exPost : Bytes := ofString "POST /e HTTP/1.1\r\nHost: h\r\nContent-Length: 18\r\n\r\n"
def exBody : Bytes := ofString "GET /x HTTP/1.1\r\n\r"     -- an 18-byte body that looks like a request
def exChunked : Bytes := ofString "POST /e HTTP/1.1\r\nHost: h\r\nTransfer-Encoding: chunked\r\n\r\n"
def mGet : Msg := msgOf exGet [] []
def mPost : Msg := msgOf exPost exBody exBody
def mChunked : Msg := msgOf exChunked (wire [(ofString "3;x=y\r\n", ofString "abc")] (ofString "0\r\n")) (ofString "abc")

private theorem wfGet : WellFormed exCfg mGet :=
  { minimal := by decide +kernel, first := by decide +kernel, size := by decide +kernel, nlines := by decide +kernel,
    parse := parsed_spec _ (by decide +kernel), keep := by decide +kernel, handler := ⟨rfl, rfl⟩,
    framing := .inl ⟨by decide +kernel, rfl, rfl⟩ }
private theorem wfPost : WellFormed exCfg mPost :=
  { minimal := by decide +kernel, first := by decide +kernel, size := by decide +kernel, nlines := by decide +kernel,
    parse := parsed_spec _ (by decide +kernel), keep := by decide +kernel, handler := ⟨rfl, rfl⟩,
    framing := .inr (.inl ⟨by decide +kernel, by decide +kernel, rfl⟩) }
private theorem wfChunked : WellFormed exCfg mChunked :=
  { minimal := by decide +kernel, first := by decide +kernel, size := by decide +kernel, nlines := by decide +kernel,
    parse := parsed_spec _ (by decide +kernel), keep := by decide +kernel, handler := ⟨rfl, rfl⟩,
    framing := .inr (.inr ⟨by decide +kernel, [(ofString "3;x=y\r\n", ofString "abc")], ofString "0\r\n",
      by
        intro c hc
        simp only [List.mem_singleton] at hc
        subst hc
        exact ⟨⟨by rfl, ⟨ofString "3;x=y\r", by decide, by decide, by decide⟩, by decide⟩, by decide⟩,
      ⟨by rfl, ⟨ofString "0\r", by decide, by decide, by decide⟩, by decide⟩, rfl, rfl⟩) }

-- the hypotheses of `c01_no_smuggling` are satisfiable: GET, POST whose Content-Length body looks like a
-- request, chunked POST -- exactly three request events carrying [], the look-alike body, "abc"
example : (h1Feed exCfg {} ([mGet, mPost, mChunked].flatMap Msg.bytes)).2
    = [mGet.event exCfg, mPost.event exCfg, mChunked.event exCfg] := by
  have := c01_no_smuggling exCfg (by decide) rfl (by decide) [mGet, mPost, mChunked]
    (by intro m hm
        simp only [List.mem_cons, List.not_mem_nil, or_false] at hm
        rcases hm with rfl | rfl | rfl
        · exact wfGet
        · exact wfPost
        · exact wfChunked) 1 false (by decide)
  rw [show ({ } : ConnSt) = { phase := .head [] 0 false, count := 1 } from rfl, this]
  rfl
example : mPost.payload = ofString "GET /x HTTP/1.1\r\n\r" := rfl
-- HTTP/1.1 without Host is rejected (`c01_rejected_head_closes`), and the request after it is never looked at
example : (h1Feed exCfg {} (ofString "GET / HTTP/1.1\r\n\r\nGET /a HTTP/1.1\r\nHost: h\r\n\r\n")).2
    = [.reject 400, .close] := by decide +kernel
example : MinimalHead (ofString "GET / HTTP/1.1\r\n\r\n") ∧
    parseHead exCfg.opts exCfg.maxField exCfg.port (ofString "GET / HTTP/1.1\r\n\r\n") = .err 400 :=
  ⟨by decide +kernel, rejectedWith_spec _ _ (by decide +kernel)⟩
example : ({} : ConnSt).Live := by simp [ConnSt.Live]
-- a blank line cut between CR and LF is skipped like an uncut one (`c01_segmentation_conn`)
example : (feedSegs exCfg {} [exGet ++ [cr], [lf] ++ exGet]).2.length = 2 := by decide +kernel
end Examples

end LtVerif.C01
