/-
  C02 — no request reaches a filesystem object outside the configured roots.
  Property theorems only (helper lemmas live in LtVerif/Proofs).
-/
import LtVerif.Proofs.Path
namespace LtVerif.C02
open LtVerif B

/-- buffer_path_simplify() maps every absolute path to a canonical absolute path:
    "/" seg "/" … with no empty, "." or ".." segment. -/
theorem c02_simplify_canonical (s : Bytes) (h : s.head? = some slash) :
    CanonicalAbs (pathSimplify s) := by
  cases s with
  | nil => simp at h
  | cons x t =>
    simp only [List.head?_cons, Option.some.injEq] at h
    subst h
    rw [pathSimplify_abs]
    obtain ⟨st', tr, hc, hrel, heq⟩ :=
      simpRun_spec (st := { rel := false, stack := [] }) (segs := splitOn slash t)
        (splitOn_ne_nil _ _) (by intro seg hs; simp at hs) (splitOn_mem_nosep _ _)
    rw [heq]
    exact render_abs_canonical (hrel rfl) hc tr

/-- byte-level reading of canonicity: the result starts with '/', and no
    '/'-delimited segment of it is "." or ".."; an empty segment can only be
    the very last one (trailing slash). -/
theorem c02_simplify_no_dot_segment (s : Bytes) (h : s.head? = some slash) :
    (pathSimplify s).head? = some slash ∧
    (∀ seg ∈ splitOn slash (pathSimplify s), seg ≠ segDot ∧ seg ≠ segDotDot) ∧
    (∀ seg ∈ ((splitOn slash (pathSimplify s)).drop 1).dropLast, seg ≠ []) := by
  have hcan := c02_simplify_canonical s h
  obtain ⟨stack, hc, hs⟩ := canonical_split hcan
  have hhead : (pathSimplify s).head? = some slash := by
    obtain ⟨st, _, hr⟩ := hcan
    rcases hr with hr | ⟨_, hr⟩ <;> simp [hr]
  refine ⟨hhead, ?_, ?_⟩
  · intro seg hseg
    rcases hs with hs | ⟨_, hs⟩ <;> rw [hs] at hseg <;>
      simp only [List.cons_append, List.mem_cons, List.mem_append, List.mem_singleton,
                 List.not_mem_nil, or_false] at hseg
    · rcases hseg with e | e | e
      · subst e; simp [segDot, segDotDot]
      · exact ⟨(hc seg e).2.1, (hc seg e).2.2.1⟩
      · subst e; simp [segDot, segDotDot]
    · rcases hseg with e | e
      · subst e; simp [segDot, segDotDot]
      · exact ⟨(hc seg e).2.1, (hc seg e).2.2.1⟩
  · intro seg hseg
    rcases hs with hs | ⟨hne, hs⟩ <;> rw [hs] at hseg
    · simp only [List.cons_append, List.drop_succ_cons, List.drop_zero,
                 List.dropLast_concat] at hseg
      exact (hc seg hseg).1
    · simp only [List.drop_succ_cons, List.drop_zero] at hseg
      exact (hc seg (List.dropLast_subset _ hseg)).1

/-- non-vacuity: a traversal attempt is absolute and is collapsed to the root -/
example : pathSimplify (ofString "/a/../../etc/./passwd") = ofString "/etc/passwd" := by decide
example : (ofString "/a/../../etc/./passwd").head? = some slash := by decide

end LtVerif.C02
