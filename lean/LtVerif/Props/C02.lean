/-
  C02 — no request reaches a filesystem object outside the configured roots.
  Property theorems only (helper lemmas live in LtVerif/Proofs).
-/
import LtVerif.Proofs.Path
import LtVerif.Proofs.PathPtr
import LtVerif.Proofs.Docroot
namespace LtVerif.C02
open LtVerif B

/-- buffer_path_simplify() maps every absolute path to a canonical absolute path:
    "/" seg "/" … with no empty, "." or ".." segment. -/
theorem c02_simplify_canonical (s : Bytes) (h : s.head? = some slash) :
    CanonicalAbs (pathSimplify s) := by
  cases s with
  | nil => simp at h
  | cons x t =>
    simp only [List.head?_cons, Option.some.injEq] at h
    subst h
    rw [pathSimplify_abs]
    obtain ⟨st', tr, hc, hrel, heq⟩ :=
      simpRun_spec (st := { rel := false, stack := [] }) (segs := splitOn slash t)
        (splitOn_ne_nil _ _) (by intro seg hs; simp at hs) (splitOn_mem_nosep _ _)
    rw [heq]
    exact render_abs_canonical (hrel rfl) hc tr

/-- byte-level reading of canonicity: the result starts with '/', and no
    '/'-delimited segment of it is "." or ".."; an empty segment can only be
    the very last one (trailing slash). -/
theorem c02_simplify_no_dot_segment (s : Bytes) (h : s.head? = some slash) :
    (pathSimplify s).head? = some slash ∧
    (∀ seg ∈ splitOn slash (pathSimplify s), seg ≠ segDot ∧ seg ≠ segDotDot) ∧
    (∀ seg ∈ ((splitOn slash (pathSimplify s)).drop 1).dropLast, seg ≠ []) := by
  have hcan := c02_simplify_canonical s h
  obtain ⟨stack, hc, hs⟩ := canonical_split hcan
  have hhead : (pathSimplify s).head? = some slash := by
    obtain ⟨st, _, hr⟩ := hcan
    rcases hr with hr | ⟨_, hr⟩ <;> simp [hr]
  refine ⟨hhead, ?_, ?_⟩
  · intro seg hseg
    rcases hs with hs | ⟨_, hs⟩ <;> rw [hs] at hseg <;>
      simp only [List.cons_append, List.mem_cons, List.mem_append, List.mem_singleton,
                 List.not_mem_nil, or_false] at hseg
    · rcases hseg with e | e | e
      · subst e; simp [segDot, segDotDot]
      · exact ⟨(hc seg e).2.1, (hc seg e).2.2.1⟩
      · subst e; simp [segDot, segDotDot]
    · rcases hseg with e | e
      · subst e; simp [segDot, segDotDot]
      · exact ⟨(hc seg e).2.1, (hc seg e).2.2.1⟩
  · intro seg hseg
    rcases hs with hs | ⟨hne, hs⟩ <;> rw [hs] at hseg
    · simp only [List.cons_append, List.drop_succ_cons, List.drop_zero,
                 List.dropLast_concat] at hseg
      exact (hc seg hseg).1
    · simp only [List.drop_succ_cons, List.drop_zero] at hseg
      exact (hc seg (List.dropLast_subset _ hseg)).1

/-- non-vacuity: a traversal attempt is absolute and is collapsed to the root -/
example : pathSimplify (ofString "/a/../../etc/./passwd") = ofString "/etc/passwd" := by decide
example : (ofString "/a/../../etc/./passwd").head? = some slash := by decide

/-- THE ALGORITHM: the cursor-level transcription of buffer.c:buffer_path_simplify() (Model/PathPtr.lean:
    pre-scan, in-place copy, back-up on "../", sentinel at `end`, relative heads) computes the
    segment-stack specification `pathSimplify` - for every byte string, NUL included.  The C is compared
    with the transcription by the harness; the canonical-path theorems transfer to it by this equation. -/
theorem c02_simplify_algorithm (s : Bytes) : pathSimplifyPtr s = pathSimplify s :=
  pathSimplifyPtr_eq s

/-- hence: what the C's algorithm returns for an absolute path is canonical -/
theorem c02_simplify_algorithm_canonical (s : Bytes) (h : s.head? = some slash) :
    CanonicalAbs (pathSimplifyPtr s) := by
  rw [pathSimplifyPtr_eq]; exact c02_simplify_canonical s h

example : pathSimplifyPtr (ofString "/a/../../etc/./passwd") = ofString "/etc/passwd" := by decide
example : pathSimplifyPtr (ofString "a/b/../../../x/") = ofString "/x/" := by decide

/-- buffer_urldecode_path() as the C runs it (src/dst cursors, `*dst` overwritten on a successful decode,
    stop at NUL) equals the specification `urldecodePath` on NUL-free input; on other input the C stops
    at the first NUL behind the first '%' - `urldecodePathC` models that and is what the harness compares
    (alphabet with NUL) -/
theorem c02_urldecode_algorithm (s : Bytes) (h : (0 : UInt8) ∉ s) : urldecodePathC s = urldecodePath s :=
  urldecodePathC_eq s h

example : urldecodePathC (ofString "/a%2e%2E%zz%4") = ofString "/a..%zz%4" := by decide

/-- the written prefix never overtakes the unread input (the in-place writes of the C cannot clobber a
    byte that is still to be read): each step moves bytes from the input to the output or drops them -/
theorem c02_simplify_in_place_safe (po rest : Bytes) :
    (ptrCopy po rest).1.length + (ptrCopy po rest).2.length = po.length + rest.length ∧
    (ptrBackScan po).length ≤ po.length :=
  ⟨ptrCopy_length rest po, ptrBackScan_length po⟩

/-! ## extension: every way a filesystem path is derived -/

/-- whenever buffer_path_simplify() returns something starting with '/', it is canonical - also for
    inputs that do not start with '/' (an X-Sendfile value "a/../../etc" becomes "/etc") -/
theorem c02_simplify_abs_result_canonical (s : Bytes) (h : (pathSimplify s).head? = some slash) :
    CanonicalAbs (pathSimplify s) :=
  pathSimplify_head_canonical s h

example : pathSimplify (ofString "a/../../etc/x") = ofString "/etc/x" := by decide

/-- buffer_path_simplify() is idempotent on absolute paths (canonical paths are fixed points) -/
theorem c02_simplify_idempotent (s : Bytes) (h : s.head? = some slash) :
    pathSimplify (pathSimplify s) = pathSimplify s :=
  pathSimplify_canonical_fix (c02_simplify_canonical s h)

example : pathSimplify (pathSimplify (ofString "/a//b/./../c/")) = ofString "/a/c/" := by decide

/-- http_request_parse_target(): for every request-target and every parse option set, an accepted
    request has a canonical absolute url-path ("/" seg "/" ..., no empty, "." or ".." segment) -/
theorem c02_uri_path_canonical (o : Opts) (t : Bytes) (u : Target)
    (h : parseTarget o false t = .ok u) : CanonicalAbs u.path := by
  unfold parseTarget at h
  simp only [Bool.false_eq_true, ↓reduceIte] at h
  split at h
  · simp at h
  · split at h <;>
    · split at h
      · rename_i hhead
        simp only [Except.ok.injEq] at h
        subst h
        exact pathSimplify_head_canonical _ hhead
      · simp at h

example : (match parseTarget ⟨9567⟩ false (ofString "/a/%2e%2e/%2E./etc/passwd?x") with
    | .ok u => u.path | .error _ => []) = ofString "/etc/passwd" := by decide +kernel

/-- buffer_urldecode_path(): a byte of the result is a byte of the input or a decoded byte that is
    not a control character (control bytes are mapped to '_') -/
theorem c02_decode_no_ctl : ∀ (s : Bytes), ∀ b ∈ urldecodePath s, b ∈ s ∨ (32 ≤ b ∧ b ≠ 127) := by
  have hd : ∀ hv lv : UInt8, 32 ≤ decodeByte hv lv ∧ decodeByte hv lv ≠ 127 := by
    intro hv lv
    unfold decodeByte
    simp only
    split
    · rename_i hc
      simp only [Bool.and_eq_true, decide_eq_true_eq] at hc
      exact hc
    · decide
  have hcons : ∀ (x : UInt8) (t s : Bytes) (b : UInt8),
      (∀ b ∈ urldecodePath t, b ∈ t ∨ (32 ≤ b ∧ b ≠ 127)) → (∀ y ∈ t, y ∈ s) → x ∈ s →
      b ∈ x :: urldecodePath t → b ∈ s ∨ (32 ≤ b ∧ b ≠ 127) := by
    intro x t s b ih hsub hx hb
    simp only [List.mem_cons] at hb
    rcases hb with e | e
    · left; exact e ▸ hx
    · rcases ih b e with h' | h'
      · left; exact hsub _ h'
      · right; exact h'
  intro s
  induction s using urldecodePath.induct with
  | case1 => simp [urldecodePath]
  | case2 b => intro x hx; left; simpa [urldecodePath] using hx
  | case3 a b ih => intro x hx; left; simpa [urldecodePath] using hx
  | case4 h l rest hv lv hl hh ih =>
    intro x hx
    have : urldecodePath (pct :: h :: l :: rest) = decodeByte hv lv :: urldecodePath rest := by
      rw [urldecodePath]; simp only [↓reduceIte, hh, hl]
    rw [this] at hx
    simp only [List.mem_cons] at hx
    rcases hx with e | e
    · right; exact e ▸ hd hv lv
    · rcases ih x e with h' | h'
      · left; simp [h']
      · right; exact h'
  | case5 h l rest hn ih =>
    intro x hx
    have : urldecodePath (pct :: h :: l :: rest) = pct :: urldecodePath (h :: l :: rest) := by
      rw [urldecodePath]
      simp only [↓reduceIte]
    rw [this] at hx
    exact hcons pct (h :: l :: rest) _ x ih (fun y hy => by simp [hy]) (by simp) hx
  | case6 b h l rest hb ih =>
    intro x hx
    have : urldecodePath (b :: h :: l :: rest) = b :: urldecodePath (h :: l :: rest) := by
      rw [urldecodePath]; simp only [hb, ↓reduceIte]
    rw [this] at hx
    exact hcons b (h :: l :: rest) _ x ih (fun y hy => by simp [hy]) (by simp) hx

example : urldecodePath (ofString "/a%00%1f%7f%2e") = ofString "/a___." := by decide

/-- decode + simplify invent no NUL: a NUL-free raw path gives a NUL-free url-path ("%00" becomes '_') -/
theorem c02_decode_simplify_nul_free (s : Bytes) (h : (0 : UInt8) ∉ s) :
    (0 : UInt8) ∉ pathSimplify (urldecodePath s) := by
  intro hm
  rcases pathSimplify_bytes _ 0 hm with e | e
  · exact absurd e (by decide)
  · rcases c02_decode_no_ctl s 0 e with e' | e'
    · exact h e'
    · exact absurd e'.1 (by decide)

/-- http_request_parse_target() without url-normalize: a NUL-free target gives a NUL-free url-path.
    PARTIAL: with url-normalize on, the same needs "burl_normalize emits no NUL" (every NUL is
    percent-encoded because the extracted `encoded_chars_http_uri_reqd[0]` is set) - not proved; the NUL-free
    precondition of the request path itself is C01's (the parser refuses NUL in the request line). -/
theorem c02_target_nul_free_partial (o : Opts) (t : Bytes) (u : Target) (hn : o.urlNormalize = false)
    (h0 : (0 : UInt8) ∉ t) (h : parseTarget o false t = .ok u) : (0 : UInt8) ∉ u.path := by
  unfold parseTarget at h
  simp only [Bool.false_eq_true, ↓reduceIte, hn] at h
  have hsub : ∀ (n : Nat), (0 : UInt8) ∉ (t.takeWhile (· ≠ hash)).take n := fun n hm =>
    h0 ((List.takeWhile_sublist _).subset ((List.take_sublist _ _).subset hm))
  split at h <;>
  · split at h
    · simp only [Except.ok.injEq] at h
      subst h
      first
        | exact c02_decode_simplify_nul_free _ (hsub _)
        | exact c02_decode_simplify_nul_free _ (fun hm => h0 ((List.takeWhile_sublist _).subset hm))
    · simp at h

/-- request_check_hostname() (host-strict, the default): an accepted host contains no '/', and its
    name part (before the port) is one clean path segment: not empty, not "." or "..", no '/';
    for hosts other than "[...]" literals every '.'-separated label is non-empty -/
theorem c02_host_single_segment (h h' : Bytes) (hh : hostPolicyPlain true h = some h') :
    slash ∉ h' ∧ Clean (hostPart h') ∧
    (h'.head? ≠ some 91 → ∀ seg ∈ splitOn dot (hostPart h'), seg ≠ []) :=
  hostPolicyPlain_strict_spec hh

example : hostPolicyPlain true (ofString "www.example.org.:8080") = some (ofString "www.example.org:8080") := by
  decide
example : hostPolicyPlain true (ofString "..") = none ∧ hostPolicyPlain true (ofString "a/../b") = none ∧
    hostPolicyPlain true (ofString "a..b") = none := by decide

/-- without host-strict the policy only refuses NUL, CR and LF: the host is passed on unchanged and
    may contain '/' and ".." (see the witness below) - the vhost modules have to guard themselves -/
theorem c02_host_lenient_guarantee (h h' : Bytes) (hh : hostPolicyPlain false h = some h') :
    h' = h ∧ (0 : UInt8) ∉ h' ∧ cr ∉ h' ∧ lf ∉ h' := by
  unfold hostPolicyPlain at hh
  simp only [Bool.false_eq_true, if_false] at hh
  split at hh
  · simp at hh
  · rename_i hany
    simp only [Option.some.injEq] at hh
    subst hh
    simp only [List.any_eq_true, Bool.or_eq_true, decide_eq_true_eq, not_exists, not_and, not_or] at hany
    exact ⟨rfl, fun hm => (hany _ hm).1.1 rfl, fun hm => (hany _ hm).1.2 rfl, fun hm => (hany _ hm).2 rfl⟩

/-- witness: the lenient policy admits a traversal text as host -/
theorem c02_host_lenient_admits_dotdot :
    hostPolicyPlain false (ofString "../../etc") = some (ofString "../../etc") := by decide

/-- mod_simple_vhost: whenever the request host is used (strict mode: a host the policy accepted;
    lenient mode: the module's own guard), the doc root is server-root ++ the host's name part ++ the
    configured document-root, and that name part contains no '/' and is neither "." nor ".." (strict:
    a clean, non-empty segment by `c02_host_single_segment`; lenient: it can be EMPTY, host ":80" - the
    doc root is then server-root ++ document-root, still inside server-root; witness below) -/
theorem c02_vhost_docroot_single_segment (strict : Bool) (raw a sroot : Bytes) (droot : Option Bytes)
    (hg : svhostGuard strict a = true)
    (hp : strict = true → hostPolicyPlain true raw = some a) :
    slash ∉ hostPart a ∧ hostPart a ≠ segDot ∧ hostPart a ≠ segDotDot ∧
    svhostPath sroot (some a) droot =
      (match droot with
       | some d => pathAppend (sroot ++ hostPart a) d
       | none => appendSlash (sroot ++ hostPart a)) := by
  cases strict with
  | true =>
    obtain ⟨_, hc, _⟩ := c02_host_single_segment raw a (hp rfl)
    exact ⟨hc.2.2.2, hc.2.1, hc.2.2.1, by cases droot <;> rfl⟩
  | false =>
    unfold svhostGuard at hg
    rw [Bool.and_eq_true] at hg
    obtain ⟨_, hg2⟩ := hg
    simp only [Bool.false_or] at hg2
    rw [Bool.and_eq_true] at hg2
    obtain ⟨h3, h4⟩ := hg2
    have hhead : a.head? ≠ some dot := of_decide_eq_true h3
    have hns' : slash ∉ a := by simpa using h4
    have hsub := hostPart_subset a
    have hh : (hostPart a).head? ≠ some dot := by
      rcases hostPart_head a with e | e
      · rw [e]; simp
      · rw [e]; exact hhead
    refine ⟨fun hm => hns' (hsub _ hm), ?_, ?_, by cases droot <;> rfl⟩
    · intro e; rw [e] at hh; simp [segDot] at hh
    · intro e; rw [e] at hh; simp [segDotDot] at hh

theorem c02_vhost_lenient_empty_segment_witness :
    svhostGuard false (ofString ":80") = true ∧ hostPart (ofString ":80") = [] ∧
    svhostPath (ofString "/vh/") (some (ofString ":80")) (some (ofString "/htdocs/")) = ofString "/vh/htdocs/" := by
  decide

example : svhostGuard false (ofString "..") = false ∧ svhostGuard false (ofString "a/../..") = false ∧
    svhostPath (ofString "/vh/") (some (ofString "www.example.org:81")) (some (ofString "/htdocs/"))
      = ofString "/vh/www.example.org/htdocs/" := by decide

/-- mod_evhost: nothing taken from the host adds a path separator - the doc root has the '/' of the
    pattern text (plus the trailing one), for every pattern and every host without '/' (strict mode:
    guaranteed by the host policy; lenient mode: by the module's guard) -/
theorem c02_evhost_no_separator (pieces : List EvPiece) (a : Bytes) (ha : slash ∉ a) :
    (∀ p ∈ pieces, (∀ s, p ≠ .lit s) → slash ∉ evPieceValue (evParseHost a) a p) ∧
    (evBuildPath pieces a).count slash ≤ litSlashes pieces + 1 := by
  have hpiece : ∀ p : EvPiece, (∀ s, p ≠ .lit s) → slash ∉ evPieceValue (evParseHost a) a p := by
    intro p hp hm
    rcases evPieceValue_bytes a p hp slash hm with e | e
    · exact ha e
    · exact absurd e (by decide)
  refine ⟨fun p _ => hpiece p, ?_⟩
  have hflat : ((pieces.map (evPieceValue (evParseHost a) a)).flatten).count slash = litSlashes pieces := by
    unfold litSlashes
    rw [List.count_flatten, List.map_map]
    congr 1
    apply List.map_congr_left
    intro p _
    cases p with
    | lit s => simp [evPieceValue]
    | pct => exact List.count_eq_zero.mpr (hpiece _ (by simp))
    | fqdn => exact List.count_eq_zero.mpr (hpiece _ (by simp))
    | idx n => exact List.count_eq_zero.mpr (hpiece _ (by simp))
    | sub n m => exact List.count_eq_zero.mpr (hpiece _ (by simp))
  unfold evBuildPath appendSlash
  simp only
  split
  · rw [List.count_append, hflat]; simp
  · rw [hflat]; omega

/-- mod_evhost: the labels %1, %2, ... of a host that does not start with '.' (strict mode: host
    policy; lenient mode: the module's guard) are clean path segments -/
theorem c02_evhost_label_clean (a : Bytes) (n : Nat) (v : Bytes) (hd : a.head? ≠ some dot)
    (hs : slash ∉ a) (hn : 1 ≤ n) (hl : evLookup (evParseHost a) n = some v) : Clean v := by
  have hm := evLookup_mem hl
  obtain ⟨h1, h2⟩ := evParseHost_labels a hd _ hm hn
  have h3 := evParseHost_subset a _ hm
  refine ⟨h1, ?_, ?_, fun e => hs (h3 _ e)⟩
  · intro e; exact h2 (by simp [e, segDot])
  · intro e; exact h2 (by simp [e, segDotDot])

example : evBuildPath ((evParsePattern (ofString "/web/%3/%0/%{2.1}/")).getD []) (ofString "host.example.org:81")
    = ofString "/web/host/example.org/e/" := by decide

/-- mod_evhost: no placeholder (%%, %_, %n, %{n}, %{n.m}) ever contributes ".." or a '/', for every host
    that does not start with '.' and contains no '/' (strict mode: host policy; lenient mode: the module's
    guard) - in particular %0 (domain.tld) holds at most one '.'.  A ".." segment in an evhost doc root can
    therefore only be spelled by the PATTERN text (literal dots, or adjacent placeholders such as "%0%0"):
    configuration, not request. -/
theorem c02_evhost_piece_never_dotdot (a : Bytes) (hd : a.head? ≠ some dot) (hs : slash ∉ a) (p : EvPiece)
    (hp : ∀ s, p ≠ .lit s) :
    evPieceValue (evParseHost a) a p ≠ segDotDot ∧ slash ∉ evPieceValue (evParseHost a) a p :=
  evPieceValue_safe a hd hs p hp

/-- %0 is never "..", for EVERY authority (no guard needed): the scan stops at the second '.' -/
theorem c02_evhost_domain_never_dotdot (a v : Bytes) (h : evLookup (evParseHost a) 0 = some v) :
    v ≠ segDotDot :=
  evParseHost_zero_not_dotdot a v h

/-- lenient-mode quirk (host-strict off): %0 of the host "a.." is ".", a harmless "." segment - so "the
    physical path never contains a '.' segment" is false for mod_evhost with lenient hosts; ".." is
    excluded by the two theorems above.  Witness: -/
theorem c02_evhost_lenient_dot_witness :
    evhostGuard false (ofString "a..") = true ∧
    evBuildPath ((evParsePattern (ofString "/vh/%0/htdocs/")).getD []) (ofString "a..")
      = ofString "/vh/./htdocs/" := by decide

/-- http_response_prepare(): physical.path = doc_root + rel_path.  For a canonical url-path the result
    is the doc root (without its trailing '/') followed by a canonical absolute path: lexically under
    the doc root, also with force-lowercase-filenames -/
theorem c02_docroot_contained (lc : Bool) (root u : Bytes) (hu : CanonicalAbs u) :
    ∃ r, CanonicalAbs r ∧ physicalPath lc root u = stripSlash root ++ r ∧
      r = (if lc then lowerBytes u else u) := by
  have hr : CanonicalAbs (if lc then lowerBytes u else u) := by
    cases lc
    · simpa using hu
    · simpa [lowerBytes] using canonical_map_toLower hu
  exact ⟨_, hr, by unfold physicalPath; exact pathAppend_abs root (canonical_head hr), rfl⟩

example : physicalPath true (ofString "/srv/www/") (ofString "/Sub/Index.HTML")
    = ofString "/srv/www/sub/index.html" := by decide

/-- THE COMPOSITION (http_request_parse + http_response_prepare as modelled by `serveRequest`): for every
    request-target, Host / :authority, method class (`special` = "OPTIONS *" or CONNECT without handler:
    answered without any filesystem path), every parse option set - the DEFAULT one (host-strict +
    host-normalize: `authorityOf`) included - and every modelled configuration (doc root, mod_simple_vhost,
    mod_evhost, any alias table with canonical targets, mod_userdir basepath, index files with dot-free
    names): if a path is handed to the file layer, then
      * physical.basedir is a root the configuration designates for this request (`DesignatedRoot`: the
        configured doc root; server-root ++ ONE empty-or-clean host segment ++ document-root; the evhost
        pattern expanded with pieces that are never ".." and contain no '/'; an alias target; the userdir
        home built from one clean user segment), and
      * the path lies lexically BELOW a designated root: root, then '/'-separated segments none of which is
        "." or ".." - or, for an alias target written without trailing '/', has that target as a string
        prefix and no "." / ".." segment at all (documented prefix semantics of mod_alias). -/
theorem c02_serve_contained (o : Opts) (cfg : ServeCfg) (isdir exists_ : Bytes → Bool) (special : Bool)
    (rawHost target p d : Bytes)
    (hal : ∀ kv ∈ cfg.aliases, CanonicalAbs kv.2)
    (hidx : ∀ v ∈ cfg.index, NoDotSeg (absName v))
    (h : serveRequest o cfg isdir exists_ special rawHost target = .file p d) :
    special = false ∧ ∃ a, authorityOf o 80 rawHost = some a ∧ DesignatedRoot cfg a d ∧
      ∃ root, DesignatedRoot cfg a root ∧
        (LexBelow root p ∨
         (∃ k v, (k, v) ∈ cfg.aliases ∧ root = v ∧ endsWithSlash v = false ∧
            ∃ rest, p = v ++ rest ∧ NoDotSeg p)) :=
  serveRequest_spec hal hidx h

/-- method: CONNECT (without a handler) and "OPTIONS *" never produce a filesystem path, whatever the
    raw target is (response.c returns before the doc-root code; modelled by `special`) -/
theorem c02_special_no_path (o : Opts) (cfg : ServeCfg) (isdir exists_ : Bytes → Bool)
    (rawHost target : Bytes) :
    ∃ st, serveRequest o cfg isdir exists_ true rawHost target = .answered st := by
  unfold serveRequest; exact ⟨if target = [42] then 200 else 405, by simp⟩

example : (match serveRequest ⟨9567⟩
      { lc := false, docroot := ofString "/srv/www", vh := .simple (ofString "/vh/") (some (ofString "default")) (some (ofString "/htdocs/")),
        aliases := [(ofString "/al/", ofString "/srv/al/")], userdir := none, index := [ofString "index.html"] }
      (fun _ => true) (fun _ => true) false (ofString "WWW.Example.ORG:80") (ofString "/al/%2e%2e/x/../y/") with
    | .file p d => (p, d) | .answered _ => ([], []))
    = (ofString "/vh/www.example.org/htdocs/y/index.html", ofString "/vh/www.example.org/htdocs/") := by
  decide +kernel
example : (match serveRequest ⟨9567⟩
      { lc := false, docroot := ofString "/srv/www", vh := .none, aliases := [], userdir := none, index := [] }
      (fun _ => true) (fun _ => true) true (ofString "x") (ofString "1/../../etc/passwd") with
    | .file _ _ => 0 | .answered st => st) = 405 := by decide +kernel

/-- mod_alias_remap() with a well-formed table (alias targets canonical absolute paths): the request is
    refused (403), or left alone, or remapped to target ++ rest-of-url where the result has no "." or
    ".." segment and starts with the target - for every canonical url-path, every table, with and
    without force-lowercase-filenames.  (The guard is what makes key "/a" => "/v/" with "/a../x" safe.)
    NOTE: for a target WITHOUT trailing '/' this is only a string prefix (documented mod_alias
    behaviour: the key is a plain prefix, "/a" => "/v" maps "/ab" to the sibling "/vb", see the witness
    below); directory containment is `c02_alias_directory_contained`. -/
theorem c02_alias_contained (lc : Bool) (aliases : List (Bytes × Bytes)) (basedir uri : Bytes)
    (hu : CanonicalAbs uri) (hwf : ∀ kv ∈ aliases, CanonicalAbs kv.2) :
    aliasRemap lc aliases basedir (stripSlash basedir ++ uri) = .forbidden ∨
    aliasRemap lc aliases basedir (stripSlash basedir ++ uri) = .go (stripSlash basedir ++ uri) basedir ∨
    ∃ k v, (k, v) ∈ aliases ∧
      aliasRemap lc aliases basedir (stripSlash basedir ++ uri) = .go (v ++ uri.drop k.length) v ∧
      NoDotSeg (v ++ uri.drop k.length) ∧ (v ++ uri.drop k.length).head? = some slash :=
  aliasRemap_spec lc aliases basedir uri hu hwf

/-- alias targets that are directories (canonical, ending in '/' - the recommended spelling): whatever the
    keys look like, a remapped path lies lexically BELOW the target (target, then '/'-separated segments
    none of which is "." or "..") -/
theorem c02_alias_directory_contained (lc : Bool) (aliases : List (Bytes × Bytes)) (basedir uri p b : Bytes)
    (hu : CanonicalAbs uri) (hwf : ∀ kv ∈ aliases, CanonicalAbs kv.2 ∧ endsWithSlash kv.2 = true)
    (h : aliasRemap lc aliases basedir (stripSlash basedir ++ uri) = .go p b) :
    (p = stripSlash basedir ++ uri ∧ b = basedir) ∨ ((∃ k, (k, b) ∈ aliases) ∧ LexBelow b p) := by
  rcases aliasRemap_spec lc aliases basedir uri hu (fun kv hm => (hwf kv hm).1) with hf | hg | ⟨k, v, hm, hg, hn, _⟩
  · rw [hf] at h; simp at h
  · rw [hg] at h; simp only [AliasRes.go.injEq] at h; left; exact ⟨h.1.symm, h.2.symm⟩
  · rw [hg] at h
    simp only [AliasRes.go.injEq] at h
    right
    rw [← h.1, ← h.2]
    exact ⟨⟨k, hm⟩, lexBelow_of_prefix_slash (hwf _ hm).2 hn⟩

/-- witness of the prefix semantics for a target without trailing '/': the sibling "/vb" of "/v" -/
theorem c02_alias_prefix_sibling_witness :
    aliasRemap false [(ofString "/a", ofString "/v")] (ofString "/d") (ofString "/d/ab")
      = .go (ofString "/vb") (ofString "/v") := by decide

example : aliasRemap false [(ofString "/foo", ofString "/var/tmp/")] (ofString "/tmp") (ofString "/tmp/foo../bad")
    = .forbidden := by decide
example : aliasRemap false [(ofString "/foo/", ofString "/var/tmp/")] (ofString "/tmp") (ofString "/tmp/foo/x/y")
    = .go (ofString "/var/tmp/x/y") (ofString "/var/tmp/") := by decide

/-- http_response_xsendfile(): with x-sendfile-docroot configured (entries absolute), a path handed to
    the file layer is canonical and has a configured docroot as prefix (case-insensitively with
    force-lowercase-filenames) - for every backend-supplied value -/
theorem c02_xsendfile_contained (lc : Bool) (xdoc : List Bytes) (raw p : Bytes)
    (hx : xdoc ≠ []) (hwf : ∀ x ∈ xdoc, x.head? = some slash)
    (h : xsendfilePath lc xdoc raw = .send p) :
    CanonicalAbs p ∧ ∃ x ∈ xdoc, isPrefixOf lc x p = true ∧ (lc = false → ∃ rest, p = x ++ rest) ∧
      (lc = false → endsWithSlash x = true → LexBelow x p) := by
  unfold xsendfilePath at h
  dsimp only at h
  generalize hq : (if lc then lowerBytes (pathSimplify (urldecodePath raw))
                   else pathSimplify (urldecodePath raw)) = q at h
  split at h
  · simp at h
  · split at h
    · simp at h
    · rename_i hunder
      split at h
      · simp at h
      · simp only [XsfRes.send.injEq] at h
        subst h
        simp only [Bool.not_eq_true, Bool.not_eq_false', Bool.or_eq_true, List.isEmpty_iff,
                   List.any_eq_true] at hunder
        rcases hunder with e | ⟨x, hxm, hpre⟩
        · exact absurd e hx
        · have hhead := isPrefixOf_head hpre (hwf x hxm)
          refine ⟨?_, x, hxm, hpre, ?_, ?_⟩
          · subst hq
            cases lc
            · simp only [Bool.false_eq_true, ↓reduceIte] at hhead ⊢
              exact pathSimplify_head_canonical _ hhead
            · simp only [↓reduceIte] at hhead ⊢
              have := pathSimplify_head_canonical _ (lowerBytes_head_slash hhead)
              simpa [lowerBytes] using canonical_map_toLower this
          · intro hl; subst hl; exact isPrefixOf_exact hpre
          · intro hl hx
            subst hl
            obtain ⟨rest, hr⟩ := isPrefixOf_exact hpre
            have hcan : CanonicalAbs (x ++ rest) := by
              rw [← hr]; subst hq
              simp only [Bool.false_eq_true, ↓reduceIte] at hhead ⊢
              exact pathSimplify_head_canonical _ hhead
            rw [hr]
            exact lexBelow_of_prefix_slash hx (canonical_noDotSeg hcan)

/-- the configuration side: mod_cgi / gw_backend store every x-sendfile-docroot entry (which must begin
    with '/') as buffer_append_slash(buffer_path_simplify(value)): canonical, absolute, ending in '/' - the
    hypotheses `c02_xsendfile_contained` needs for directory containment are met by construction -/
theorem c02_xsendfile_config_canonical (v : Bytes) (h : v.head? = some slash) :
    CanonicalAbs (xsfConfigEntry v) ∧ endsWithSlash (xsfConfigEntry v) = true ∧
    (xsfConfigEntry v).head? = some slash := by
  have hc := canonical_appendSlash (c02_simplify_canonical v h)
  exact ⟨hc.1, hc.2, canonical_head hc.1⟩

example : xsfConfigEntry (ofString "/srv//files/./x/..") = ofString "/srv/files/" := by decide

/-- the same for the first element of an X-Sendfile2 value -/
theorem c02_xsendfile2_contained (lc : Bool) (xdoc : List Bytes) (value p : Bytes)
    (hx : xdoc ≠ []) (hwf : ∀ x ∈ xdoc, x.head? = some slash)
    (h : xsendfile2First lc xdoc value = .send p) :
    CanonicalAbs p ∧ ∃ x ∈ xdoc, isPrefixOf lc x p = true := by
  unfold xsendfile2First at h
  dsimp only at h
  generalize hq : (if lc then lowerBytes (pathSimplify (urldecodePath
                      ((value.dropWhile (· = sp)).takeWhile (· ≠ sp))))
                   else pathSimplify (urldecodePath ((value.dropWhile (· = sp)).takeWhile (· ≠ sp)))) = q at h
  split at h
  · simp at h
  · split at h
    · simp at h
    · split at h
      · simp at h
      · split at h
        · simp at h
        · split at h
          · simp at h
          · rename_i hunder
            simp only [XsfRes.send.injEq] at h
            subst h
            simp only [Bool.not_eq_true, Bool.not_eq_false', Bool.or_eq_true, List.isEmpty_iff,
                       List.any_eq_true] at hunder
            rcases hunder with e | ⟨x, hxm, hpre⟩
            · exact absurd e hx
            · have hhead := isPrefixOf_head hpre (hwf x hxm)
              refine ⟨?_, x, hxm, hpre⟩
              subst hq
              cases lc
              · simp only [Bool.false_eq_true, ↓reduceIte] at hhead ⊢
                exact pathSimplify_head_canonical _ hhead
              · simp only [↓reduceIte] at hhead ⊢
                have := pathSimplify_head_canonical _ (lowerBytes_head_slash hhead)
                simpa [lowerBytes] using canonical_map_toLower this

/-- the status a backend put on its own response (`Status: 403` next to `X-Sendfile:` …) has no say in
    WHICH file is opened or WHETHER one is: for every status the file handed to the static-file sender
    is the one `xsendfilePath` accepts, so `c02_xsendfile_contained` holds whatever the backend sent
    (the attack: a refusal signalled only through `r->http_status` is invisible when the backend had
    already set that very status) -/
theorem c02_xsendfile_status_irrelevant (lc : Bool) (xdoc : List Bytes) (st : Nat) (raw p : Bytes) :
    xsendfileAt lc xdoc st raw = .send p ↔ xsendfilePath lc xdoc raw = .send p := by
  unfold xsendfileAt
  by_cases hu : validUtf8 (urldecodePath raw) = true
  · simp only [hu, Bool.not_true, Bool.false_eq_true, ↓reduceIte]
    split <;> simp_all
  · have hu' : validUtf8 (urldecodePath raw) = false := by simpa using hu
    have : xsendfilePath lc xdoc raw = .status 502 := by
      unfold xsendfilePath; simp [hu']
    simp [hu', this]

theorem c02_xsendfile_contained_any_status (lc : Bool) (xdoc : List Bytes) (st : Nat) (raw p : Bytes)
    (hx : xdoc ≠ []) (hwf : ∀ x ∈ xdoc, x.head? = some slash)
    (h : xsendfileAt lc xdoc st raw = .send p) :
    CanonicalAbs p ∧ ∃ x ∈ xdoc, isPrefixOf lc x p = true ∧ (lc = false → ∃ rest, p = x ++ rest) ∧
      (lc = false → endsWithSlash x = true → LexBelow x p) :=
  c02_xsendfile_contained lc xdoc raw p hx hwf ((c02_xsendfile_status_irrelevant lc xdoc st raw p).mp h)

theorem c02_xsendfile2_contained_any_status (lc : Bool) (xdoc : List Bytes) (st : Nat) (value p : Bytes)
    (hx : xdoc ≠ []) (hwf : ∀ x ∈ xdoc, x.head? = some slash)
    (h : xsendfile2At lc xdoc st value = .send p) :
    CanonicalAbs p ∧ ∃ x ∈ xdoc, isPrefixOf lc x p = true := by
  apply c02_xsendfile2_contained lc xdoc value p hx hwf
  unfold xsendfile2At at h
  split at h <;> simp_all

/-- outside the docroot nothing is opened whatever status the backend chose, 403 included (the status then
    shown is the backend's own when that was >= 300, as the tail of the C function restores it) -/
example : xsendfileAt false [ofString "/srv/files/"] 403 (ofString "/srv/secret/canary.txt") = .status 403 := by decide +kernel
example : xsendfileAt false [ofString "/srv/files/"] 403 (ofString "/srv/files/a.txt")
    = .send (ofString "/srv/files/a.txt") := by decide +kernel

example : xsendfilePath false [ofString "/srv/files/"] (ofString "/srv/files/%2e%2e/%2e%2e/etc/passwd")
    = .status 403 := by decide +kernel
example : xsendfilePath false [ofString "/srv/files/"] (ofString "/srv/x/../files/a%2fb")
    = .send (ofString "/srv/files/a/b") := by decide +kernel

/-- mod_webdav_copymove_b(): an accepted Destination yields a canonical absolute destination url-path,
    and - when the request's physical path is doc_root + rel_path (no alias in play) - the destination
    physical path is doc_root + that url-path: lexically under the document root, for every Destination
    header, scheme/authority spelling and source -/
theorem c02_dav_destination_contained (lc : Bool) (scheme authority docroot srcRel S dest d p : Bytes)
    (hS : endsWithSlash S = false)
    (h : davDestination lc scheme authority docroot srcRel (S ++ srcRel) dest = .ok d p) :
    CanonicalAbs d ∧ p = S ++ d := by
  unfold davDestination at h
  cases hr : davDstRel lc scheme authority dest with
  | error st => simp [hr] at h
  | ok d0 =>
    simp only [hr] at h
    have hc := davDstRel_canonical hr
    split at h
    · simp at h
    · split at h
      · simp at h
      · split at h
        · simp at h
        · simp only [DavDst.ok.injEq] at h
          obtain ⟨rfl, rfl⟩ := h
          exact ⟨hc, davDstPath_plain hc hS⟩

/-- in general (source remapped by mod_alias) the destination url-path is still canonical -/
theorem c02_dav_destination_canonical (lc : Bool) (scheme authority docroot srcRel srcPath dest d p : Bytes)
    (h : davDestination lc scheme authority docroot srcRel srcPath dest = .ok d p) :
    CanonicalAbs d ∧ p = davDstPath docroot srcRel srcPath d := by
  unfold davDestination at h
  cases hr : davDstRel lc scheme authority dest with
  | error st => simp [hr] at h
  | ok d0 =>
    simp only [hr] at h
    have hc := davDstRel_canonical hr
    split at h
    · simp at h
    · split at h
      · simp at h
      · split at h
        · simp at h
        · simp only [DavDst.ok.injEq] at h
          obtain ⟨rfl, rfl⟩ := h
          exact ⟨hc, rfl⟩

example : davDestination false (ofString "http") (ofString "h:1") (ofString "/srv/www/") (ofString "/dav/a.txt")
    (ofString "/srv/www/dav/a.txt") (ofString "http://h:1/dav/%2e%2e/%2e%2e/etc/x")
    = .ok (ofString "/etc/x") (ofString "/srv/www/etc/x") := by decide +kernel

/-- stat_cache_path_contains_symlink(): result 0 (the only result with which a request is served when
    server.follow-symlink is disabled) means that the path and every prefix of it ending before a '/'
    (except the root) exists and is not a symbolic link - for every filesystem and every path -/
theorem c02_symlink_walk (fs : Bytes → FsKind) (name : Bytes) (hlen : 1 < name.length)
    (h : symlinkServed false fs name = true) :
    fsOk (fs name) ∧ ∀ i, 0 < i → i < name.length → name.getD i 0 = slash → fsOk (fs (name.take i)) := by
  unfold symlinkServed at h
  simp only [Bool.false_or, decide_eq_true_eq] at h
  unfold symWalk at h
  split at h
  · simp at h
  · split at h
    · simp at h
    · split at h
      · omega
      · split at h
        · simp at h
        · exact symLoop_zero fs _ name rfl h

example : symWalk (fun p => if p = ofString "/a/b" then .link else .dir) (ofString "/a/b/c") = 1 := by
  decide +kernel
example : symlinkServed false (fun p => if p = ofString "/a/b/c" then .file else .dir) (ofString "/a/b/c") = true := by
  decide +kernel

/-- mod_userdir (userdir.basepath variant): when the module takes the request, the home directory is
    composed from the configured base path, one clean path segment (the user name: not empty, not "."
    or "..", no '/'; lower-cased with force-lowercase-filenames) and the configured sub-path, and the
    physical path lies lexically below that home directory (rel_path canonical, as it always is) -/
theorem c02_userdir_contained (lc lh : Bool) (basepath upath uriPath relPath p b : Bytes)
    (hrel : CanonicalAbs relPath)
    (h : userdirRemap lc lh basepath upath uriPath relPath = .go p b) :
    (∃ u, Clean u ∧
      b = pathAppend (pathAppend (if lh then pathAppend basepath (u.take 1) else basepath) u) upath) ∧
    LexBelow b p :=
  userdirRemap_spec (canonical_noDotSeg hrel) h

example : userdirRemap false true (ofString "/home") (ofString "public_html") (ofString "/~bob/x/y") (ofString "/~bob/x/y")
    = .go (ofString "/home/b/bob/public_html/x/y") (ofString "/home/b/bob/public_html") := by decide
example : userdirRemap false false (ofString "/home") (ofString "public_html") (ofString "/~../x") (ofString "/~../x")
    = .pass := by decide

/-- mod_indexfile_tryfiles(): the path finally opened is the request's physical path or that path
    (resp. the doc root) joined with one of the configured index names - nothing else -/
theorem c02_index_resolve_configured (exists_ : Bytes → Bool) (docroot phys : Bytes) (names : List Bytes) :
    indexResolve exists_ docroot phys names = phys ∨
    ∃ v ∈ names, indexResolve exists_ docroot phys names
      = pathAppend (if v.head? = some slash then docroot else phys) v := by
  induction names with
  | nil => left; rfl
  | cons v rest ih =>
    unfold indexResolve
    dsimp only
    by_cases he : exists_ (pathAppend (if v.head? = some slash then docroot else phys) v) = true
    · rw [if_pos he]; right; exact ⟨v, by simp, rfl⟩
    · rw [if_neg he]
      rcases ih with h | ⟨w, hw, h⟩
      · left; exact h
      · right; exact ⟨w, by simp [hw], h⟩

/-- a static file served in a context where server.follow-symlink is disabled: the path finally
    opened - after mod_indexfile appended an index file name - exists and has no symbolic link at
    the path itself or at any prefix ending before a '/' (except the root).  The model's decision
    depends only on this request's context and the filesystem (no stat-cache state) - the end-to-end
    stream checks the server against it on request sequences across contexts with a warm cache. -/
theorem c02_index_symlink_walk (fs : Bytes → FsKind) (exists_ : Bytes → Bool) (docroot phys : Bytes)
    (names : List Bytes) (hlen : 1 < (indexResolve exists_ docroot phys names).length)
    (h : staticServed false fs phys (indexResolve exists_ docroot phys names) = true) :
    fsOk (fs (indexResolve exists_ docroot phys names)) ∧
    ∀ i, 0 < i → i < (indexResolve exists_ docroot phys names).length →
      (indexResolve exists_ docroot phys names).getD i 0 = slash →
      fsOk (fs ((indexResolve exists_ docroot phys names).take i)) := by
  unfold staticServed at h
  simp only [Bool.false_or, Bool.and_eq_true, decide_eq_true_eq] at h
  exact c02_symlink_walk fs _ hlen (by unfold symlinkServed; simp [h.2])

example : staticServed false
    (fun p => if p = ofString "/w/dir/index.html" then .link else if p = ofString "/w/dir/" then .dir else .dir)
    (ofString "/w/dir/")
    (indexResolve (fun _ => true) (ofString "/w") (ofString "/w/dir/") [ofString "index.html"]) = false := by
  decide +kernel
example : staticServed true (fun _ => .link) (ofString "/w/dir/") (ofString "/w/dir/index.html") = true := by
  decide +kernel

end LtVerif.C02
