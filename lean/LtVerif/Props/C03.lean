/-
  C03 — access rules cannot be bypassed by respelling URLs or spoofing the client address.
  Property theorems only (helper lemmas: LtVerif/Proofs/Access.lean).

  Reading guide
    §1  one canonicalisation: every decision is a function of the canonical path
        (c03_same_resource_same_decision / c03_decode_once)
    §2  what a served file has passed (c03_served_file_authorised) and its consequences:
        a file the rules refuse at its own URL is refused under every spelling that resolves
        to it, incl. trailing path-info (c03_protected_never_served, …_case_sensitive_fs,
        …_force_lowercase), auth.require prefixes (c03_prefix_monotone,
        c03_auth_guard_all_spellings)
    §3  letter case under force-lowercase-filenames (c03_case_fold, c03_case_fold_hook)
    §4  forwarded client addresses (c03_untrusted_peer_ignored, c03_spoofed_headers_no_effect,
        c03_xff_last_untrusted, c03_xff_exact, c03_forwarded_walk_safe, c03_forwarded_walk_exact)
    §5  what the code does NOT guarantee (design limits of lighttpd, each with the witness),
        and the two repaired defects (walk of the first Forwarded group; CIDR argument order)
-/
import LtVerif.Proofs.Access
namespace LtVerif.C03
open LtVerif B LtVerif.Access LtVerif.Extforward

/-! ## §1 one canonicalisation -/

/-- Two request-targets that `http_request_parse_target()` maps to the same canonical path –
    under ANY two sets of parse options – get the same decision: same status, same file (or
    none), same final URL, same client address.  (Percent-encoding, hex case, dot segments,
    duplicate or encoded slashes, absolute-form, HTTP/1.x vs HTTP/2 only influence the path
    through `parseTarget`; no module looks at the spelling again.) -/
theorem c03_same_resource_same_decision (bf : Bool) (parse : Bytes → Option SockAddr) (s : Server)
    (o₁ o₂ : Opts) (r₁ r₂ : Req) (u₁ u₂ : Target)
    (h₁ : parseTarget o₁ false r₁.target = .ok u₁) (h₂ : parseTarget o₂ false r₂.target = .ok u₂)
    (hp : u₁.path = u₂.path)
    (hh : r₁.host = r₂.host) (hpe : r₁.peer = r₂.peer) (hpa : r₁.peerAddr = r₂.peerAddr)
    (hhd : r₁.hdrs = r₂.hdrs) (hc : r₁.cred = r₂.cred) :
    (serve bf parse { s with opts := o₁ } r₁).status = (serve bf parse { s with opts := o₂ } r₂).status ∧
    (serve bf parse { s with opts := o₁ } r₁).file = (serve bf parse { s with opts := o₂ } r₂).file ∧
    (serve bf parse { s with opts := o₁ } r₁).uri = (serve bf parse { s with opts := o₂ } r₂).uri ∧
    (serve bf parse { s with opts := o₁ } r₁).addr = (serve bf parse { s with opts := o₂ } r₂).addr := by
  unfold serve
  simp only [h₁, h₂, hp, hh, hpe, hpa, hhd, hc]
  split
  · simp
  · have := serveFrom_indep { s with opts := o₁ } o₂ u₁ u₂
      { url := u₂.path, host := r₂.host, addr := r₂.peerAddr } r₂.peer r₂.cred
    exact ⟨this.1, this.2.2.2, this.2.1, this.2.2.1⟩
  · rename_i a sa _
    have := serveFrom_indep { s with opts := o₁ } o₂ u₁ u₂
      { url := u₂.path, host := r₂.host, addr := sa } a r₂.cred
    exact ⟨this.1, this.2.2.2, this.2.1, this.2.2.1⟩

/-- decode once: the decision is taken on the path as decoded by `parseTarget` and is not
    decoded again – the response is literally `serveFrom` of that path -/
theorem c03_decode_once (bf : Bool) (parse : Bytes → Option SockAddr) (s : Server) (r : Req) (t : Target)
    (h : parseTarget s.opts false r.target = .ok t)
    (hx : Extforward.remoteAddr bf parse (extConf s.cfg ⟨t.path, r.host, r.peerAddr⟩) r.peer r.hdrs = .unchanged) :
    serve bf parse s r = serveFrom s t ⟨t.path, r.host, r.peerAddr⟩ r.peer r.cred := by
  unfold serve
  simp [h, hx]

/-- (canonical path of a request-target, for the examples) -/
def pathOf (o : Opts) (t : Bytes) : Option Bytes :=
  match parseTarget o false t with
  | .ok u => some u.path
  | .error _ => none

-- non-vacuity: two spellings (dot segments, percent-encoding in both hex cases, duplicate
-- slash) of one path, under the default options
example : pathOf ⟨9567⟩ (ofString "/a/%2e%2E/secret/./key.html") = some (ofString "/secret/key.html") ∧
          pathOf ⟨9567⟩ (ofString "/secret//key%2ehtml") = some (ofString "/secret/key.html") := by
  decide +kernel

/-! ## §2 a protected file is protected under every spelling -/

/-- Reference-monitor theorem.  Whenever a file is sent, then – whatever the spelling of the
    request – the request was 200, the file is the regular file found at the (case-folded)
    URL that is left after the path-info split, mod_access allowed BOTH the full path and
    that file's own URL (with the conditional configuration evaluated on that URL), the file
    is not excluded from static delivery, and if an auth.require rule guards the full path
    the request carried accepted credentials. -/
theorem c03_served_file_authorised (bf : Bool) (parse : Bytes → Option SockAddr) (s : Server) (r : Req)
    (f : Bytes) (h : (serve bf parse s r).file = some f) :
    ∃ (t : Target) (a : SockAddr) (n : Nat),
      parseTarget s.opts false r.target = .ok t ∧ n ≤ t.path.length ∧
      (serve bf parse s r).status = 200 ∧
      (serve bf parse s r).uri = t.path.take (t.path.length - n) ∧
      f = relPath s.lc (t.path.take (t.path.length - n)) ∧
      s.fs f = some .file ∧
      accessHook s.cfg ⟨t.path, r.host, a⟩ s.lc = true ∧
      accessHook s.cfg ⟨t.path.take (t.path.length - n), r.host, a⟩ s.lc = true ∧
      staticExclude (listOf (setting (·.exclude) s.cfg ⟨t.path.take (t.path.length - n), r.host, a⟩))
        (s.docroot ++ f) = false ∧
      ((authHook s.cfg ⟨t.path, r.host, a⟩ s.lc).isSome = true → r.cred = true) := by
  unfold serve at h ⊢
  split at h
  · simp at h
  · rename_i t ht
    simp only [ht]
    cases hx : Extforward.remoteAddr bf parse (extConf s.cfg ⟨t.path, r.host, r.peerAddr⟩) r.peer r.hdrs with
    | bad => simp [hx] at h
    | unchanged =>
      simp only [hx] at h ⊢
      obtain ⟨n, hn, h1, h2, _, h4, h5, _, h7, h8, h9, h10⟩ := serveFrom_file s t _ _ _ f h
      exact ⟨t, r.peerAddr, n, rfl, hn, h1, h2, h4, h5, h7, h8, h9, h10⟩
    | set a sa =>
      simp only [hx] at h ⊢
      obtain ⟨n, hn, h1, h2, _, h4, h5, _, h7, h8, h9, h10⟩ := serveFrom_file s t _ _ _ f h
      exact ⟨t, sa, n, rfl, hn, h1, h2, h4, h5, h7, h8, h9, h10⟩

/-- the rules refuse the file at URL `u` for client address `a`: mod_access denies it or
    static-file.exclude-extensions lists it -/
def Refused (s : Server) (host u : Bytes) (a : SockAddr) : Prop :=
  accessHook s.cfg ⟨u, host, a⟩ s.lc = false ∨
  staticExclude (listOf (setting (·.exclude) s.cfg ⟨u, host, a⟩)) (s.docroot ++ relPath s.lc u) = true

/-- If the rules refuse file `f` at every URL that names it (one URL on a case-sensitive
    file system, its letter-case variants under force-lowercase-filenames), then NO request
    – any target, any encoding, any path-info, any protocol, any forwarded header – is
    answered with that file. -/
theorem c03_protected_never_served (bf : Bool) (parse : Bytes → Option SockAddr) (s : Server) (r : Req)
    (f : Bytes) (hprot : ∀ u a, relPath s.lc u = f → Refused s r.host u a) :
    (serve bf parse s r).file ≠ some f := by
  intro h
  obtain ⟨t, a, n, _, _, _, _, hf, _, _, hacc, hex, _⟩ := c03_served_file_authorised bf parse s r f h
  rcases hprot _ a hf.symm with h1 | h1
  · rw [h1] at hacc; simp at hacc
  · rw [← hf, hex] at h1; simp at h1

/-- case-sensitive file system: it is enough that the rules refuse the file at its own URL -/
theorem c03_protected_never_served_case_sensitive_fs (bf : Bool) (parse : Bytes → Option SockAddr)
    (s : Server) (r : Req) (f : Bytes) (hlc : s.lc = false) (hprot : ∀ a, Refused s r.host f a) :
    (serve bf parse s r).file ≠ some f := by
  apply c03_protected_never_served
  intro u a hu
  simp only [hlc, relPath] at hu
  simp only [Bool.false_eq_true, ↓reduceIte] at hu
  subst hu
  exact hprot a

/-- force-lowercase-filenames (case-insensitive file system): if no condition of the
    configuration compares the URL case-sensitively, it is again enough that the rules
    refuse the file at its own (lower-case) URL: every letter-case variant, encoded or not,
    with or without path-info, is refused as well -/
theorem c03_protected_never_served_force_lowercase (bf : Bool) (parse : Bytes → Option SockAddr)
    (s : Server) (r : Req) (f : Bytes) (hlc : s.lc = true) (hcb : ∀ b ∈ s.cfg, b.scope.caseBlind)
    (hf : f.map toLower = f) (hprot : ∀ a, Refused s r.host f a) :
    (serve bf parse s r).file ≠ some f := by
  apply c03_protected_never_served
  intro u a hu
  simp only [hlc, relPath, ↓reduceIte] at hu
  have huf : u.map toLower = f.map toLower := by rw [hu, hf]
  have hset : setting (·.exclude) s.cfg ⟨u, r.host, a⟩ = setting (·.exclude) s.cfg ⟨f, r.host, a⟩ :=
    setting_congr _ _ _ _ (fun b hb _ => holds_caseBlind _ (hcb b hb) u f r.host a huf)
  rcases hprot a with h1 | h1
  · left
    rw [hlc] at h1 ⊢
    rw [accessHook_casefold s.cfg hcb u f r.host a huf]
    exact h1
  · right
    rw [hset]
    simpa [hlc, relPath, hu, hf] using h1

/-- auth.require: a path guarded by a rule stays guarded – by that rule or one listed
    before it – when a path-info (anything) is appended -/
theorem c03_prefix_monotone (rules : List Bytes) (p info : Bytes) (lc : Bool) (i : Nat)
    (h : authRule rules p lc = some i) : ∃ j, j ≤ i ∧ authRule rules (p ++ info) lc = some j :=
  authRule_append rules p info lc i h

example : authRule [ofString "/secret/sub/", ofString "/secret/"] (ofString "/secret/key.html") false = some 1 ∧
          authRule [ofString "/secret/sub/", ofString "/secret/"] (ofString "/secret/key.html/x/../y") false = some 1 := by
  decide +kernel

/-- If auth.require is not assigned inside URL conditions and a rule guards the file's own
    URL, then every request that is answered with the file – any spelling, any letter case
    under force-lowercase-filenames, any path-info – carried accepted credentials. -/
theorem c03_auth_guard_all_spellings (bf : Bool) (parse : Bytes → Option SockAddr) (s : Server) (r : Req)
    (f : Bytes) (hfree : ∀ b ∈ s.cfg, b.auth.isSome = true → b.scope.urlFree)
    (hf : s.lc = true → f.map toLower = f)
    (hguard : ∀ a, (authHook s.cfg ⟨f, r.host, a⟩ s.lc).isSome = true)
    (h : (serve bf parse s r).file = some f) : r.cred = true := by
  obtain ⟨t, a, n, _, hn, _, _, hfu, _, _, _, _, hauth⟩ := c03_served_file_authorised bf parse s r f h
  apply hauth
  have hset : setting (·.auth) s.cfg ⟨t.path, r.host, a⟩ = setting (·.auth) s.cfg ⟨f, r.host, a⟩ :=
    setting_congr _ _ _ _ (fun b hb hs => holds_urlFree _ (hfree b hb hs) _ _ _ _)
  have hg := hguard a
  unfold authHook at hg ⊢
  simp only [hset]
  simp only at hg
  obtain ⟨i, hi⟩ := Option.isSome_iff_exists.1 hg
  -- the rule that guards `f` also guards the split URL …
  have hu : authRule (listOf (setting (·.auth) s.cfg ⟨f, r.host, a⟩))
      (t.path.take (t.path.length - n)) s.lc = some i := by
    cases hlc : s.lc with
    | false =>
      rw [hlc] at hfu hi
      simp only [relPath, Bool.false_eq_true, ↓reduceIte] at hfu
      rw [← hfu]; exact hi
    | true =>
      rw [hlc] at hfu hi
      simp only [relPath, ↓reduceIte] at hfu
      rw [authRule_casefold _ (t.path.take (t.path.length - n)) f (by rw [← hfu, hf hlc])]
      exact hi
  -- … and the full path, which extends it by the path-info
  obtain ⟨j, _, hj⟩ := authRule_append _ _ (t.path.drop (t.path.length - n)) _ _ hu
  rw [List.take_append_drop] at hj
  simp [hj]

/-! ## §3 letter case under force-lowercase-filenames -/

/-- mod_access_check() and the auth.require lookup under force-lowercase-filenames depend on
    the lower-cased path only; the check equals the plain (case-sensitive) check on
    lower-cased rules and path -/
theorem c03_case_fold (allow deny rules : List Bytes) (p q : Bytes) (h : p.map toLower = q.map toLower) :
    accessCheck allow deny p true = accessCheck allow deny q true ∧
    authRule rules p true = authRule rules q true ∧
    accessCheck allow deny p true =
      accessCheck (allow.map (·.map toLower)) (deny.map (·.map toLower)) (p.map toLower) false :=
  ⟨accessCheck_casefold allow deny p q h, authRule_casefold rules p q h, accessCheck_nc_eq allow deny p⟩

example : (ofString "/Dir/X.INC").map toLower = (ofString "/dir/x.inc").map toLower ∧
          accessCheck [] [ofString ".inc"] (ofString "/Dir/X.INC") true = false := by decide +kernel

/-- the byte test of buffer_eq_icase_ssn() identifies exactly the bytes with the same ASCII
    lower-case form (so '@' and '`', '[' and '{', 0xC1 and 0xE1 are NOT identified) -/
theorem c03_icase_byte (a b : UInt8) : eqIcaseByte a b = (toLower a == toLower b) := eqIcaseByte_eq a b

example : eqIcaseByte 64 96 = false ∧ eqIcaseByte 91 123 = false ∧ eqIcaseByte 0xc1 0xe1 = false ∧
          eqIcaseByte 65 97 = true := by decide +kernel

/-- the whole mod_access hook (conditional configuration included) looks at the lower-cased
    URL only, if no condition compares the URL case-sensitively -/
theorem c03_case_fold_hook (cfg : List Block) (hcb : ∀ b ∈ cfg, b.scope.caseBlind)
    (u v h : Bytes) (a : SockAddr) (huv : u.map toLower = v.map toLower) :
    accessHook cfg ⟨u, h, a⟩ true = accessHook cfg ⟨v, h, a⟩ true :=
  accessHook_casefold cfg hcb u v h a huv

end LtVerif.C03
