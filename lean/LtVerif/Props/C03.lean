/-
  C03 — access rules cannot be bypassed by respelling URLs or spoofing the client address.
  Property theorems only (helper lemmas: LtVerif/Proofs/Access.lean).

  Reading guide
    §1  one canonicalisation: every decision is a function of the canonical path
        (c03_same_resource_same_decision / c03_decode_once)
    §2  what a served file has passed (c03_served_file_authorised) and its consequences:
        a file the rules refuse at its own URL is refused under every spelling that resolves
        to it, incl. trailing path-info (c03_protected_never_served, …_case_sensitive_fs,
        …_force_lowercase), auth.require prefixes (c03_prefix_monotone,
        c03_auth_guard_all_spellings)
    §3  letter case under force-lowercase-filenames (c03_case_fold, c03_case_fold_hook)
    §4  forwarded client addresses (c03_untrusted_peer_ignored, c03_spoofed_headers_no_effect,
        c03_xff_last_untrusted, c03_xff_exact, c03_forwarded_walk_safe, c03_forwarded_walk_exact)
    §5  what the code does NOT guarantee (design limits of lighttpd, each with the witness),
        and the two repaired defects (walk of the first Forwarded group; CIDR argument order)
-/
import LtVerif.Proofs.Access
import LtVerif.Proofs.Extforward
namespace LtVerif.C03
open LtVerif B LtVerif.Access LtVerif.Extforward

/-! ## objects of the examples and witnesses -/

/-- (a small document root) -/
def demoFs : Fs := fun p =>
  if p = ofString "/secret/key.html" ∨ p = ofString "/app.php" then some .file
  else if p = [] ∨ p = ofString "/secret" then some .dir
  else none

def demoEnv (u : String) : Env := ⟨ofString u, ofString "h", .v4 [192, 0, 2, 1]⟩
def demoTarget (u : String) : Target := ⟨ofString u, ofString u, []⟩

/-- url.access-deny = (".inc", "~"), auth.require = ("/secret/" => …), case-sensitive -/
def demoSrv : Server :=
  { cfg := [{ scope := .global, deny := some [ofString ".inc", ofString "~"], auth := some [ofString "/secret/"] }],
    opts := ⟨9567⟩, lc := false, docroot := ofString "/srv", fs := demoFs }

def demoReq : Req :=
  { target := ofString "/secret/./key%2ehtml", host := ofString "h", peer := ofString "192.0.2.1",
    peerAddr := .v4 [192, 0, 2, 1], hdrs := [], cred := true }

/-- extforward.forwarder = ("10.0.0.1" => "trust") -/
def demoFwd : Forwarder := { entries := [(ofString "10.0.0.1", true)], all := 0, masks := [] }

/-- … and `$HTTP["remoteip"] != "10.0.0.0/8" { url.access-deny = ("") }` -/
def demoSrvIp : Server :=
  { cfg := [{ scope := .global, forwarder := some demoFwd },
            { scope := .ip true (.v4 [10, 0, 0, 0]) 8, deny := some [[]] }],
    opts := ⟨9567⟩, lc := false, docroot := ofString "/srv", fs := demoFs }

/-- a client outside 10/8 that claims to be 10.9.9.9 -/
def demoSpoof : Req :=
  { target := ofString "/app.php", host := ofString "h", peer := ofString "203.0.113.9",
    peerAddr := .v4 [203, 0, 113, 9], hdrs := [(ofString "x-forwarded-for", ofString "10.9.9.9")], cred := false }

/-! ## §1 one canonicalisation -/

/-- Two request-targets that `http_request_parse_target()` maps to the same canonical path –
    under ANY two sets of parse options – get the same decision: same status, same file (or
    none), same final URL, same client address.  (Percent-encoding, hex case, dot segments,
    duplicate or encoded slashes, absolute-form, HTTP/1.x vs HTTP/2 only influence the path
    through `parseTarget`; no module looks at the spelling again.) -/
theorem c03_same_resource_same_decision (bf : Bool) (parse : Bytes → Option SockAddr) (s : Server)
    (o₁ o₂ : Opts) (r₁ r₂ : Req) (u₁ u₂ : Target)
    (h₁ : parseTarget o₁ false r₁.target = .ok u₁) (h₂ : parseTarget o₂ false r₂.target = .ok u₂)
    (hp : u₁.path = u₂.path)
    (hh : r₁.host = r₂.host) (hpe : r₁.peer = r₂.peer) (hpa : r₁.peerAddr = r₂.peerAddr)
    (hhd : r₁.hdrs = r₂.hdrs) (hc : r₁.cred = r₂.cred) :
    (serve bf parse { s with opts := o₁ } r₁).status = (serve bf parse { s with opts := o₂ } r₂).status ∧
    (serve bf parse { s with opts := o₁ } r₁).file = (serve bf parse { s with opts := o₂ } r₂).file ∧
    (serve bf parse { s with opts := o₁ } r₁).uri = (serve bf parse { s with opts := o₂ } r₂).uri ∧
    (serve bf parse { s with opts := o₁ } r₁).addr = (serve bf parse { s with opts := o₂ } r₂).addr := by
  unfold serve
  simp only [h₁, h₂, hp, hh, hpe, hpa, hhd, hc]
  split
  · simp
  · have := serveFrom_indep { s with opts := o₁ } o₂ u₁ u₂
      { url := u₂.path, host := r₂.host, addr := r₂.peerAddr } r₂.peer r₂.cred
    exact ⟨this.1, this.2.2.2, this.2.1, this.2.2.1⟩
  · rename_i a sa _
    have := serveFrom_indep { s with opts := o₁ } o₂ u₁ u₂
      { url := u₂.path, host := r₂.host, addr := sa } a r₂.cred
    exact ⟨this.1, this.2.2.2, this.2.1, this.2.2.1⟩

/-- decode once: the decision is taken on the path as decoded by `parseTarget` and is not
    decoded again – the response is literally `serveFrom` of that path -/
theorem c03_decode_once (bf : Bool) (parse : Bytes → Option SockAddr) (s : Server) (r : Req) (t : Target)
    (h : parseTarget s.opts false r.target = .ok t)
    (hx : Extforward.remoteAddr bf parse (extConf s.cfg ⟨t.path, r.host, r.peerAddr⟩) r.peer r.hdrs = .unchanged) :
    serve bf parse s r = serveFrom s t ⟨t.path, r.host, r.peerAddr⟩ r.peer r.cred := by
  unfold serve
  simp [h, hx]

/-- (canonical path of a request-target, for the examples) -/
def pathOf (o : Opts) (t : Bytes) : Option Bytes :=
  match parseTarget o false t with
  | .ok u => some u.path
  | .error _ => none

-- non-vacuity: two spellings (dot segments, percent-encoding in both hex cases, duplicate
-- slash) of one path, under the default options
example : pathOf ⟨9567⟩ (ofString "/a/%2e%2E/secret/./key.html") = some (ofString "/secret/key.html") ∧
          pathOf ⟨9567⟩ (ofString "/secret//key%2ehtml") = some (ofString "/secret/key.html") := by
  decide +kernel

/-! ## §2 a protected file is protected under every spelling -/

/-- Reference-monitor theorem.  Whenever a file is sent, then – whatever the spelling of the
    request – the request was 200, the file is the regular file found at the (case-folded)
    URL that is left after the path-info split, mod_access allowed BOTH the full path and
    that file's own URL (with the conditional configuration evaluated on that URL), the file
    is not excluded from static delivery, and if an auth.require rule guards the full path
    the request carried accepted credentials. -/
theorem c03_served_file_authorised (bf : Bool) (parse : Bytes → Option SockAddr) (s : Server) (r : Req)
    (f : Bytes) (h : (serve bf parse s r).file = some f) :
    ∃ (t : Target) (a : SockAddr) (n : Nat),
      parseTarget s.opts false r.target = .ok t ∧ n ≤ t.path.length ∧
      (serve bf parse s r).status = 200 ∧
      (serve bf parse s r).uri = t.path.take (t.path.length - n) ∧
      f = relPath s.lc (t.path.take (t.path.length - n)) ∧
      s.fs f = some .file ∧
      accessHook s.cfg ⟨t.path, r.host, a⟩ s.lc = true ∧
      accessHook s.cfg ⟨t.path.take (t.path.length - n), r.host, a⟩ s.lc = true ∧
      staticExclude (listOf (setting (·.exclude) s.cfg ⟨t.path.take (t.path.length - n), r.host, a⟩))
        (s.docroot ++ f) = false ∧
      ((authHook s.cfg ⟨t.path, r.host, a⟩ s.lc).isSome = true → r.cred = true) := by
  unfold serve at h ⊢
  split at h
  · simp at h
  · rename_i t ht
    simp only [ht]
    cases hx : Extforward.remoteAddr bf parse (extConf s.cfg ⟨t.path, r.host, r.peerAddr⟩) r.peer r.hdrs with
    | bad => simp [hx] at h
    | unchanged =>
      simp only [hx] at h ⊢
      obtain ⟨n, hn, h1, h2, _, h4, h5, _, h7, h8, h9, h10⟩ := serveFrom_file s t _ _ _ f h
      exact ⟨t, r.peerAddr, n, rfl, hn, h1, h2, h4, h5, h7, h8, h9, h10⟩
    | set a sa =>
      simp only [hx] at h ⊢
      obtain ⟨n, hn, h1, h2, _, h4, h5, _, h7, h8, h9, h10⟩ := serveFrom_file s t _ _ _ f h
      exact ⟨t, sa, n, rfl, hn, h1, h2, h4, h5, h7, h8, h9, h10⟩

-- non-vacuity: an encoded, dot-segmented spelling of a guarded file, with credentials
example : (serve false gaiNumeric demoSrv demoReq).file = some (ofString "/secret/key.html") := by
  decide +kernel

/-- the rules refuse the file at URL `u` for client address `a`: mod_access denies it or
    static-file.exclude-extensions lists it -/
def Refused (s : Server) (host u : Bytes) (a : SockAddr) : Prop :=
  accessHook s.cfg ⟨u, host, a⟩ s.lc = false ∨
  staticExclude (listOf (setting (·.exclude) s.cfg ⟨u, host, a⟩)) (s.docroot ++ relPath s.lc u) = true

/-- If the rules refuse file `f` at every URL that names it (one URL on a case-sensitive
    file system, its letter-case variants under force-lowercase-filenames), then NO request
    – any target, any encoding, any path-info, any protocol, any forwarded header – is
    answered with that file. -/
theorem c03_protected_never_served (bf : Bool) (parse : Bytes → Option SockAddr) (s : Server) (r : Req)
    (f : Bytes) (hprot : ∀ u a, relPath s.lc u = f → Refused s r.host u a) :
    (serve bf parse s r).file ≠ some f := by
  intro h
  obtain ⟨t, a, n, _, _, _, _, hf, _, _, hacc, hex, _⟩ := c03_served_file_authorised bf parse s r f h
  rcases hprot _ a hf.symm with h1 | h1
  · rw [h1] at hacc; simp at hacc
  · rw [← hf, hex] at h1; simp at h1

/-- case-sensitive file system: it is enough that the rules refuse the file at its own URL -/
theorem c03_protected_never_served_case_sensitive_fs (bf : Bool) (parse : Bytes → Option SockAddr)
    (s : Server) (r : Req) (f : Bytes) (hlc : s.lc = false) (hprot : ∀ a, Refused s r.host f a) :
    (serve bf parse s r).file ≠ some f := by
  apply c03_protected_never_served
  intro u a hu
  simp only [hlc, relPath] at hu
  simp only [Bool.false_eq_true, ↓reduceIte] at hu
  subst hu
  exact hprot a

-- non-vacuity: the hypothesis holds for a file that url.access-deny lists
example : demoSrv.lc = false ∧ ∀ a, Refused demoSrv (ofString "h") (ofString "/x.inc") a :=
  ⟨rfl, fun _ => Or.inl rfl⟩

/-- force-lowercase-filenames (case-insensitive file system): if no condition of the
    configuration compares the URL case-sensitively, it is again enough that the rules
    refuse the file at its own (lower-case) URL: every letter-case variant, encoded or not,
    with or without path-info, is refused as well -/
theorem c03_protected_never_served_force_lowercase (bf : Bool) (parse : Bytes → Option SockAddr)
    (s : Server) (r : Req) (f : Bytes) (hlc : s.lc = true) (hcb : ∀ b ∈ s.cfg, b.scope.caseBlind)
    (hf : f.map toLower = f) (hprot : ∀ a, Refused s r.host f a) :
    (serve bf parse s r).file ≠ some f := by
  apply c03_protected_never_served
  intro u a hu
  simp only [hlc, relPath, ↓reduceIte] at hu
  have huf : u.map toLower = f.map toLower := by rw [hu, hf]
  have hset : setting (·.exclude) s.cfg ⟨u, r.host, a⟩ = setting (·.exclude) s.cfg ⟨f, r.host, a⟩ :=
    setting_congr _ _ _ _ (fun b hb _ => holds_caseBlind _ (hcb b hb) u f r.host a huf)
  rcases hprot a with h1 | h1
  · left
    rw [hlc] at h1 ⊢
    rw [accessHook_casefold s.cfg hcb u f r.host a huf]
    exact h1
  · right
    rw [hset]
    simpa [hlc, relPath, hu, hf] using h1

-- non-vacuity: a configuration whose only URL condition is a case-insensitive regular
-- expression `$HTTP["url"] =~ "(?i)^/secret/" { url.access-deny = ("") }` (as PCRE2 decides it)
-- satisfies the hypotheses; the lower-case file is refused at its own URL
example :
    let s : Server := { cfg := [{ scope := .global },
                                { scope := .urlRe false (reCaselessPrefix (ofString "/secret/")), deny := some [[]] }],
                        opts := ⟨9567⟩, lc := true, docroot := ofString "/srv", fs := demoFs }
    (∀ b ∈ s.cfg, b.scope.caseBlind) ∧ (ofString "/secret/key.html").map toLower = ofString "/secret/key.html" ∧
    ∀ a, Refused s (ofString "h") (ofString "/secret/key.html") a := by
  refine ⟨?_, by decide +kernel, fun _ => Or.inl rfl⟩
  intro b hb
  simp only [List.mem_cons, List.not_mem_nil, or_false] at hb
  rcases hb with rfl | rfl
  · trivial
  · exact fun u v h => reCaselessPrefix_fold _ u v h

/-- auth.require: a path guarded by a rule stays guarded – by that rule or one listed
    before it – when a path-info (anything) is appended -/
theorem c03_prefix_monotone (rules : List Bytes) (p info : Bytes) (lc : Bool) (i : Nat)
    (h : authRule rules p lc = some i) : ∃ j, j ≤ i ∧ authRule rules (p ++ info) lc = some j :=
  authRule_append rules p info lc i h

example : authRule [ofString "/secret/sub/", ofString "/secret/"] (ofString "/secret/key.html") false = some 1 ∧
          authRule [ofString "/secret/sub/", ofString "/secret/"] (ofString "/secret/key.html/x/../y") false = some 1 := by
  decide +kernel

/-- If auth.require is not assigned inside URL conditions and a rule guards the file's own
    URL, then every request that is answered with the file – any spelling, any letter case
    under force-lowercase-filenames, any path-info – carried accepted credentials. -/
theorem c03_auth_guard_all_spellings (bf : Bool) (parse : Bytes → Option SockAddr) (s : Server) (r : Req)
    (f : Bytes) (hfree : ∀ b ∈ s.cfg, b.auth.isSome = true → b.scope.urlFree)
    (hf : s.lc = true → f.map toLower = f)
    (hguard : ∀ a, (authHook s.cfg ⟨f, r.host, a⟩ s.lc).isSome = true)
    (h : (serve bf parse s r).file = some f) : r.cred = true := by
  obtain ⟨t, a, n, _, hn, _, _, hfu, _, _, _, _, hauth⟩ := c03_served_file_authorised bf parse s r f h
  apply hauth
  have hset : setting (·.auth) s.cfg ⟨t.path, r.host, a⟩ = setting (·.auth) s.cfg ⟨f, r.host, a⟩ :=
    setting_congr _ _ _ _ (fun b hb hs => holds_urlFree _ (hfree b hb hs) _ _ _ _)
  have hg := hguard a
  unfold authHook at hg ⊢
  simp only [hset]
  simp only at hg
  obtain ⟨i, hi⟩ := Option.isSome_iff_exists.1 hg
  -- the rule that guards `f` also guards the split URL …
  have hu : authRule (listOf (setting (·.auth) s.cfg ⟨f, r.host, a⟩))
      (t.path.take (t.path.length - n)) s.lc = some i := by
    cases hlc : s.lc with
    | false =>
      rw [hlc] at hfu hi
      simp only [relPath, Bool.false_eq_true, ↓reduceIte] at hfu
      rw [← hfu]; exact hi
    | true =>
      rw [hlc] at hfu hi
      simp only [relPath, ↓reduceIte] at hfu
      rw [authRule_casefold _ (t.path.take (t.path.length - n)) f (by rw [← hfu, hf hlc])]
      exact hi
  -- … and the full path, which extends it by the path-info
  obtain ⟨j, _, hj⟩ := authRule_append _ _ (t.path.drop (t.path.length - n)) _ _ hu
  rw [List.take_append_drop] at hj
  simp [hj]

-- non-vacuity: the hypotheses hold for the guarded file of the example configuration
example : (∀ b ∈ demoSrv.cfg, b.auth.isSome = true → b.scope.urlFree) ∧
          (∀ a, (authHook demoSrv.cfg ⟨ofString "/secret/key.html", ofString "h", a⟩ demoSrv.lc).isSome = true) := by
  refine ⟨?_, fun _ => rfl⟩
  intro b hb _
  simp [demoSrv] at hb
  subst hb
  trivial

/-! ## §3 letter case under force-lowercase-filenames -/

/-- mod_access_check() and the auth.require lookup under force-lowercase-filenames depend on
    the lower-cased path only; the check equals the plain (case-sensitive) check on
    lower-cased rules and path -/
theorem c03_case_fold (allow deny rules : List Bytes) (p q : Bytes) (h : p.map toLower = q.map toLower) :
    accessCheck allow deny p true = accessCheck allow deny q true ∧
    authRule rules p true = authRule rules q true ∧
    accessCheck allow deny p true =
      accessCheck (allow.map (·.map toLower)) (deny.map (·.map toLower)) (p.map toLower) false :=
  ⟨accessCheck_casefold allow deny p q h, authRule_casefold rules p q h, accessCheck_nc_eq allow deny p⟩

example : (ofString "/Dir/X.INC").map toLower = (ofString "/dir/x.inc").map toLower ∧
          accessCheck [] [ofString ".inc"] (ofString "/Dir/X.INC") true = false := by decide +kernel

/-- the byte test of buffer_eq_icase_ssn() identifies exactly the bytes with the same ASCII
    lower-case form (so '@' and '`', '[' and '{', 0xC1 and 0xE1 are NOT identified) -/
theorem c03_icase_byte (a b : UInt8) : eqIcaseByte a b = (toLower a == toLower b) := eqIcaseByte_eq a b

example : eqIcaseByte 64 96 = false ∧ eqIcaseByte 91 123 = false ∧ eqIcaseByte 0xc1 0xe1 = false ∧
          eqIcaseByte 65 97 = true := by decide +kernel

/-- the whole mod_access hook (conditional configuration included) looks at the lower-cased
    URL only, if no condition compares the URL case-sensitively -/
theorem c03_case_fold_hook (cfg : List Block) (hcb : ∀ b ∈ cfg, b.scope.caseBlind)
    (u v h : Bytes) (a : SockAddr) (huv : u.map toLower = v.map toLower) :
    accessHook cfg ⟨u, h, a⟩ true = accessHook cfg ⟨v, h, a⟩ true :=
  accessHook_casefold cfg hcb u v h a huv

/-! ## §4 forwarded client addresses -/

/-- Forwarded / X-Forwarded-For (any configured header, any content) from a TCP peer that is
    not a configured trusted forwarder do not change the client address -/
theorem c03_untrusted_peer_ignored (bf : Bool) (parse : Bytes → Option SockAddr) (c : ExtConf) (peer : Bytes)
    (hdrs : List (Bytes × Bytes)) (h : ∀ f, c.forwarder = some f → isConnectionTrusted f peer = false) :
    remoteAddr bf parse c peer hdrs = .unchanged :=
  remoteAddr_untrusted bf parse c peer hdrs h

/-- … and conversely the address only ever changes for a trusted peer, to an address that
    parses -/
theorem c03_address_changes_only_for_trusted_peer (bf : Bool) (parse : Bytes → Option SockAddr) (c : ExtConf)
    (peer : Bytes) (hdrs : List (Bytes × Bytes)) (a : Bytes) (sa : SockAddr)
    (h : remoteAddr bf parse c peer hdrs = .set a sa) :
    ∃ f, c.forwarder = some f ∧ isConnectionTrusted f peer = true ∧ parse a = some sa := by
  unfold remoteAddr at h
  cases hf : c.forwarder with
  | none => simp [hf] at h
  | some f =>
    simp only [hf] at h
    refine ⟨f, rfl, ?_⟩
    cases hp : pickHeader c.headers hdrs with
    | none => simp [hp] at h
    | some nv =>
      simp only [hp] at h
      by_cases ht : isConnectionTrusted f peer = true
      · refine ⟨ht, ?_⟩
        simp only [ht, Bool.not_true, Bool.false_eq_true, ↓reduceIte] at h
        by_cases hn : nv.1 = ofString "forwarded"
        · simp only [hn, ↓reduceIte] at h
          exact forwardedAddr_set bf parse f _ a sa h
        · simp only [hn, ↓reduceIte] at h
          cases hx : xffAddr parse f nv.2 with
          | none => simp [hx] at h
          | some p =>
            obtain ⟨b, sb⟩ := p
            simp only [hx, FwdRes.set.injEq] at h
            obtain ⟨rfl, rfl⟩ := h
            exact xffAddr_set parse f _ _ _ hx
      · simp [ht] at h

/-- End to end: for a request from an untrusted peer the whole response is independent of
    the forwarded headers it carries (they can be replaced by anything). -/
theorem c03_spoofed_headers_no_effect (bf : Bool) (parse : Bytes → Option SockAddr) (s : Server) (r : Req)
    (hdrs' : List (Bytes × Bytes))
    (h : ∀ t f, parseTarget s.opts false r.target = .ok t →
      (extConf s.cfg ⟨t.path, r.host, r.peerAddr⟩).forwarder = some f → isConnectionTrusted f r.peer = false) :
    serve bf parse s r = serve bf parse s { r with hdrs := hdrs' } := by
  unfold serve
  cases ht : parseTarget s.opts false r.target with
  | error e => rfl
  | ok t =>
    simp only
    rw [remoteAddr_untrusted bf parse _ r.peer r.hdrs (fun f hf => h t f ht hf),
        remoteAddr_untrusted bf parse _ r.peer hdrs' (fun f hf => h t f ht hf)]

-- non-vacuity: the hypothesis holds for the spoofing client (which is refused), while the
-- same request from the trusted forwarder's own address is served
example : (∀ t f, parseTarget demoSrvIp.opts false demoSpoof.target = .ok t →
      (extConf demoSrvIp.cfg ⟨t.path, demoSpoof.host, demoSpoof.peerAddr⟩).forwarder = some f →
      isConnectionTrusted f demoSpoof.peer = false) ∧
    (serve false gaiNumeric demoSrvIp demoSpoof).status = 403 ∧
    (serve false gaiNumeric demoSrvIp
       { demoSpoof with peer := ofString "10.0.0.1", peerAddr := .v4 [10, 0, 0, 1], hdrs := [] }).file
      = some (ofString "/app.php") := by
  refine ⟨?_, by decide +kernel⟩
  intro t f _ hf
  have h2 : (extConf demoSrvIp.cfg ⟨t.path, demoSpoof.host, demoSpoof.peerAddr⟩).forwarder = some demoFwd := rfl
  rw [h2] at hf
  have : f = demoFwd := (Option.some.inj hf).symm
  subst this
  decide +kernel

/-- X-Forwarded-For from a trusted peer: the address taken is an element of the chain that
    is not a trusted proxy, everything to its right is a trusted proxy, and it parses -/
theorem c03_xff_last_untrusted (parse : Bytes → Option SockAddr) (f : Forwarder) (hdr a : Bytes) (sa : SockAddr)
    (h : xffAddr parse f hdr = some (a, sa)) :
    parse a = some sa ∧ isProxyTrusted f a = false ∧
      ∃ pre post, extractForwardArray hdr = pre ++ a :: post ∧ ∀ x ∈ post, isProxyTrusted f x = true := by
  unfold xffAddr at h
  split at h
  · rename_i a0 hl
    unfold setAddr at h
    split at h
    · rename_i sa0 hp
      simp only [Option.some.injEq, Prod.mk.injEq] at h
      obtain ⟨rfl, rfl⟩ := h
      obtain ⟨h1, h2⟩ := lastNotIn_some f _ _ hl
      exact ⟨hp, h1, h2⟩
    · simp at h
  · simp at h

/-- … exactly that element (the right-most one that is not a trusted proxy); unchanged if it
    does not parse … -/
theorem c03_xff_exact (parse : Bytes → Option SockAddr) (f : Forwarder) (hdr : Bytes) (pre post : List Bytes)
    (a : Bytes) (hc : extractForwardArray hdr = pre ++ a :: post) (ha : isProxyTrusted f a = false)
    (hpost : ∀ x ∈ post, isProxyTrusted f x = true) :
    xffAddr parse f hdr = (parse a).map (fun sa => (a, sa)) := by
  unfold xffAddr
  rw [hc, lastNotIn_exact f pre post a ha hpost]
  unfold setAddr
  cases hp : parse a <;> simp [hp]

/-- … and unchanged if every element is a trusted proxy -/
theorem c03_xff_all_trusted_unchanged (parse : Bytes → Option SockAddr) (f : Forwarder) (hdr : Bytes)
    (h : ∀ x ∈ extractForwardArray hdr, isProxyTrusted f x = true) : xffAddr parse f hdr = none := by
  unfold xffAddr
  rw [(lastNotIn_none f _).2 h]

-- non-vacuity: forwarder 10.0.0.1 and 10.1.0.0/16; chain client, attacker-visible hop, two proxies
example :
    (parseForwarder [(ofString "10.0.0.1", ofString "trust"), (ofString "10.1.0.0/16", ofString "trust")]).map
      (fun f => (xffAddr gaiNumeric f (ofString "6.6.6.6, 203.0.113.9, 10.1.2.3, 10.0.0.1")).map (·.1))
    = some (some (ofString "203.0.113.9")) := by decide +kernel

/-- Forwarded from a trusted peer, safety: the identifier the walk returns is the for= value
    of one of the proxies, usable as an address, and every proxy to its right in the header
    reported a trusted identifier (or none): an untrusted hop is never skipped. -/
theorem c03_forwarded_walk_safe (f : Forwarder) (hdr : Bytes) (items : List Item) (a : Bytes)
    (h : fwdWalk f hdr items = .addr (some a)) :
    ∃ pre g post, (groups items).reverse = pre ++ g :: post ∧ (∀ g' ∈ pre, Passes f hdr g') ∧
      groupVal hdr g = some (.val a) ∧ a ≠ [] ∧ usable a = true := by
  unfold fwdWalk at h
  rcases fwdWalk_safe f hdr _ none a h with h | h
  · simp at h
  · exact h

/-- Forwarded, exactness: if the right-most proxy whose identifier is not trusted reports a
    usable identifier, that identifier is the result (the last untrusted hop) -/
theorem c03_forwarded_walk_exact (f : Forwarder) (hdr : Bytes) (items : List Item)
    (pre : List (List Item)) (g : List Item) (post : List (List Item)) (a : Bytes)
    (hg : (groups items).reverse = pre ++ g :: post) (hpre : ∀ g' ∈ pre, Passes f hdr g')
    (hv : groupVal hdr g = some (.val a)) (hne : a ≠ []) (hu : usable a = true)
    (hnt : isProxyTrusted f a = false) : fwdWalk f hdr items = .addr (some a) := by
  unfold fwdWalk
  rw [hg]
  exact fwdWalk_exact f hdr pre g post none a hpre hv hne hu hnt

-- non-vacuity (and the case the repaired defect D9 got wrong): a single for=, and a chain
-- whose answer is the first element
example :
    (parseForwarder [(ofString "10.0.0.1", ofString "trust")]).map (fun f =>
      (forwardedAddr false gaiNumeric f (ofString "for=1.2.3.4"),
       forwardedAddr false gaiNumeric f (ofString "for=\"[2001:db8::7]:4711\";proto=https, For=10.0.0.1")))
    = some (.set (ofString "1.2.3.4") (.v4 [1, 2, 3, 4]),
            .set (ofString "2001:db8::7") (.v6 [0x20, 1, 0xd, 0xb8, 0, 0, 0, 0, 0, 0, 0, 0, 0, 0, 0, 7])) := by
  decide +kernel

/-! ## §5 what is NOT guaranteed, and the repaired defects -/

/-- Design limit 1: `$HTTP["url"]` conditions are case-sensitive also under
    force-lowercase-filenames.  With `$HTTP["url"] =^ "/secret/" { url.access-deny = ("") }`
    the file /secret/key.html is refused at its own URL but sent for /SECRET/key.html.
    (Hence the hypothesis `caseBlind` of c03_protected_never_served_force_lowercase; a
    case-insensitive regular expression `=~ "(?i)^/secret/"` satisfies it.) -/
theorem c03_url_cond_case_sensitive :
    let s : Server := { cfg := [{ scope := .global }, { scope := .url .prefix_ (ofString "/secret/"), deny := some [[]] }],
                        opts := ⟨9567⟩, lc := true, docroot := ofString "/srv", fs := demoFs }
    (serveFrom s (demoTarget "/secret/key.html") (demoEnv "/secret/key.html") [] false).status = 403 ∧
    (serveFrom s (demoTarget "/SECRET/key.html") (demoEnv "/SECRET/key.html") [] false).file
      = some (ofString "/secret/key.html") := by
  decide +kernel

/-- Design limit 2: mod_auth runs before the path-info split only, so a condition that
    selects by the END of the URL does not guard auth.require against trailing path-info:
    with `$HTTP["url"] =$ ".php" { auth.require = ("" => …) }` /app.php asks for credentials
    but /app.php/x is served.  (Hence the hypothesis `urlFree` of c03_auth_guard_all_spellings;
    url.access-deny inside the same condition IS re-checked: c03_served_file_authorised.) -/
theorem c03_auth_suffix_cond_partial :
    let s : Server := { cfg := [{ scope := .global }, { scope := .url .suffix (ofString ".php"), auth := some [[]] }],
                        opts := ⟨9567⟩, lc := false, docroot := ofString "/srv", fs := demoFs }
    (serveFrom s (demoTarget "/app.php") (demoEnv "/app.php") [] false).status = 401 ∧
    (serveFrom s (demoTarget "/app.php/x") (demoEnv "/app.php/x") [] false).file = some (ofString "/app.php") := by
  decide +kernel

/-- Design limit 3: conditions are matched by PCRE2 in UTF mode; a URL that is not well-formed
    UTF-8 (a stray %80 is accepted by the default parse options) matches NO regular
    expression.  So even a prefix expression does not guard auth.require against a path-info
    with such a byte: with `$HTTP["url"] =~ "(?i)^/secret/" { auth.require = … }`
    /secret/key.html asks for credentials, /secret/key.html/%80 is served. -/
theorem c03_regex_cond_invalid_utf8 :
    let s : Server := { cfg := [{ scope := .global },
                                { scope := .urlRe false (reCaselessPrefix (ofString "/secret/")), auth := some [[]] }],
                        opts := ⟨9567⟩, lc := false, docroot := ofString "/srv", fs := demoFs }
    (serveFrom s (demoTarget "/secret/key.html") (demoEnv "/secret/key.html") [] false).status = 401 ∧
    (serveFrom s ⟨ofString "/secret/key.html/%80", ofString "/secret/key.html/" ++ [0x80], []⟩
       ⟨ofString "/secret/key.html/" ++ [0x80], ofString "h", .v4 [192, 0, 2, 1]⟩ [] false).file
      = some (ofString "/secret/key.html") := by
  decide +kernel

/-- Repaired defect D9 (fix 2c1995d): the walk `while (j >= 4)` never looked at a param that is
    alone in the first group, so `Forwarded: for=1.2.3.4` from a trusted proxy left the
    proxy's address in place and `for=1.2.3.4, for=10.0.0.1` selected the trusted proxy
    itself.  The model of the old walk differs from the current one exactly there. -/
theorem c03_forwarded_first_group_before_fix :
    (parseForwarder [(ofString "10.0.0.1", ofString "trust")]).map (fun f =>
      (forwardedAddr true gaiNumeric f (ofString "for=1.2.3.4"),
       forwardedAddr true gaiNumeric f (ofString "for=1.2.3.4, for=10.0.0.1"),
       forwardedAddr false gaiNumeric f (ofString "for=1.2.3.4, for=10.0.0.1")))
    = some (.unchanged, .set (ofString "10.0.0.1") (.v4 [10, 0, 0, 1]), .set (ofString "1.2.3.4") (.v4 [1, 2, 3, 4])) := by
  decide +kernel

/-- Repaired defect D16 (fix 85b1beb): is_proxy_trusted() passed (candidate, network, bits) to
    sock_addr_is_addr_eq_bits(), which reads `bits` relative to its first argument: every
    IPv4-mapped IPv6 literal was a trusted proxy as soon as any IPv4 netmask was configured,
    so `X-Forwarded-For: 6.6.6.6, ::ffff:203.0.113.9` selected the attacker-chosen 6.6.6.6. -/
theorem c03_cidr_argument_order_before_fix :
    (parseForwarder [(ofString "10.0.0.1", ofString "trust"), (ofString "10.1.0.0/16", ofString "trust")]).map
      (fun f => (isProxyTrustedOrd false f (ofString "::ffff:203.0.113.9"),
                 isProxyTrustedOrd true f (ofString "::ffff:203.0.113.9"),
                 isProxyTrustedOrd true f (ofString "::ffff:10.1.2.3"),
                 (xffAddr gaiNumeric f (ofString "6.6.6.6, ::ffff:203.0.113.9")).map (·.1)))
    = some (true, false, true, some (ofString "::ffff:203.0.113.9")) := by
  decide +kernel

end LtVerif.C03
