/-
  C03 — access rules cannot be bypassed by respelling URLs or spoofing the client address.
  (placeholder while the correspondence is brought up)
-/
import LtVerif.Model.Access
namespace LtVerif.C03
open LtVerif B

theorem c03_placeholder : Access.accessCheck [] [] [] false = true := by decide

end LtVerif.C03
