/-
  C03 — access rules cannot be bypassed by respelling URLs or spoofing the client address.
  Property theorems only (helper lemmas: LtVerif/Proofs/Access.lean).

  Reading guide
    §1  one canonicalisation: every decision is a function of the canonical path
        (c03_same_resource_same_decision / c03_decode_once)
    §2  what a served file has passed (c03_served_file_authorised) and its consequences:
        a file the rules refuse at its own URL is refused under every spelling that resolves
        to it, incl. trailing path-info (c03_protected_never_served, …_case_sensitive_fs,
        …_force_lowercase), auth.require prefixes (c03_prefix_monotone,
        c03_auth_guard_all_spellings)
    §3  letter case under force-lowercase-filenames (c03_case_fold, c03_case_fold_hook)
    §4  forwarded client addresses (c03_untrusted_peer_ignored, c03_spoofed_headers_no_effect,
        c03_xff_last_untrusted, c03_xff_exact, c03_forwarded_walk_safe, c03_forwarded_walk_exact)
    §5  what the code does NOT guarantee (design limits of lighttpd, each with the witness),
        and the two repaired defects (walk of the first Forwarded group; CIDR argument order)
-/
import LtVerif.Proofs.Access
namespace LtVerif.C03
open LtVerif B LtVerif.Access LtVerif.Extforward

/-! ## §1 one canonicalisation -/

/-- Two request-targets that `http_request_parse_target()` maps to the same canonical path –
    under ANY two sets of parse options – get the same decision: same status, same file (or
    none), same final URL, same client address.  (Percent-encoding, hex case, dot segments,
    duplicate or encoded slashes, absolute-form, HTTP/1.x vs HTTP/2 only influence the path
    through `parseTarget`; no module looks at the spelling again.) -/
theorem c03_same_resource_same_decision (bf : Bool) (parse : Bytes → Option SockAddr) (s : Server)
    (o₁ o₂ : Opts) (r₁ r₂ : Req) (u₁ u₂ : Target)
    (h₁ : parseTarget o₁ false r₁.target = .ok u₁) (h₂ : parseTarget o₂ false r₂.target = .ok u₂)
    (hp : u₁.path = u₂.path)
    (hh : r₁.host = r₂.host) (hpe : r₁.peer = r₂.peer) (hpa : r₁.peerAddr = r₂.peerAddr)
    (hhd : r₁.hdrs = r₂.hdrs) (hc : r₁.cred = r₂.cred) :
    (serve bf parse { s with opts := o₁ } r₁).status = (serve bf parse { s with opts := o₂ } r₂).status ∧
    (serve bf parse { s with opts := o₁ } r₁).file = (serve bf parse { s with opts := o₂ } r₂).file ∧
    (serve bf parse { s with opts := o₁ } r₁).uri = (serve bf parse { s with opts := o₂ } r₂).uri ∧
    (serve bf parse { s with opts := o₁ } r₁).addr = (serve bf parse { s with opts := o₂ } r₂).addr := by
  unfold serve
  simp only [h₁, h₂, hp, hh, hpe, hpa, hhd, hc]
  split
  · simp
  · have := serveFrom_indep { s with opts := o₁ } o₂ u₁ u₂
      { url := u₂.path, host := r₂.host, addr := r₂.peerAddr } r₂.peer r₂.cred
    exact ⟨this.1, this.2.2.2, this.2.1, this.2.2.1⟩
  · rename_i a sa _
    have := serveFrom_indep { s with opts := o₁ } o₂ u₁ u₂
      { url := u₂.path, host := r₂.host, addr := sa } a r₂.cred
    exact ⟨this.1, this.2.2.2, this.2.1, this.2.2.1⟩

/-- decode once: the decision is taken on the path as decoded by `parseTarget` and is not
    decoded again – the response is literally `serveFrom` of that path -/
theorem c03_decode_once (bf : Bool) (parse : Bytes → Option SockAddr) (s : Server) (r : Req) (t : Target)
    (h : parseTarget s.opts false r.target = .ok t)
    (hx : Extforward.remoteAddr bf parse (extConf s.cfg ⟨t.path, r.host, r.peerAddr⟩) r.peer r.hdrs = .unchanged) :
    serve bf parse s r = serveFrom s t ⟨t.path, r.host, r.peerAddr⟩ r.peer r.cred := by
  unfold serve
  simp [h, hx]

example : parseTarget ⟨9567⟩ false (ofString "/a/%2e%2e/secret/./key.html") =
          parseTarget ⟨9567⟩ false (ofString "/secret//key%2Ehtml") := by decide +kernel

/-! ## §2 a protected file is protected under every spelling -/

/-- Reference-monitor theorem.  Whenever a file is sent, then – whatever the spelling of the
    request – the request was 200, the file is the regular file found at the (case-folded)
    URL that is left after the path-info split, mod_access allowed BOTH the full path and
    that file's own URL (with the conditional configuration evaluated on that URL), the file
    is not excluded from static delivery, and if an auth.require rule guards the full path
    the request carried accepted credentials. -/
theorem c03_served_file_authorised (bf : Bool) (parse : Bytes → Option SockAddr) (s : Server) (r : Req)
    (f : Bytes) (h : (serve bf parse s r).file = some f) :
    ∃ (t : Target) (a : SockAddr) (n : Nat),
      parseTarget s.opts false r.target = .ok t ∧ n ≤ t.path.length ∧
      (serve bf parse s r).status = 200 ∧
      (serve bf parse s r).uri = t.path.take (t.path.length - n) ∧
      f = relPath s.lc (t.path.take (t.path.length - n)) ∧
      s.fs f = some .file ∧
      accessHook s.cfg ⟨t.path, r.host, a⟩ s.lc = true ∧
      accessHook s.cfg ⟨t.path.take (t.path.length - n), r.host, a⟩ s.lc = true ∧
      staticExclude (listOf (setting (·.exclude) s.cfg ⟨t.path.take (t.path.length - n), r.host, a⟩))
        (s.docroot ++ f) = false ∧
      ((authHook s.cfg ⟨t.path, r.host, a⟩ s.lc).isSome = true → r.cred = true) := by
  unfold serve at h ⊢
  split at h
  · simp at h
  · rename_i t ht
    simp only [ht]
    split at h
    · simp at h
    · rename_i hx
      obtain ⟨n, hn, h1, h2, _, h4, h5, _, h7, h8, h9, h10⟩ := serveFrom_file s t _ _ _ f h
      refine ⟨t, r.peerAddr, n, rfl, hn, ?_⟩
      simp only [hx]
      exact ⟨h1, h2, h4, h5, h7, h8, h9, h10⟩
    · rename_i a sa hx
      obtain ⟨n, hn, h1, h2, _, h4, h5, _, h7, h8, h9, h10⟩ := serveFrom_file s t _ _ _ f h
      refine ⟨t, sa, n, rfl, hn, ?_⟩
      simp only [hx]
      exact ⟨h1, h2, h4, h5, h7, h8, h9, h10⟩

/-- the rules refuse the file at URL `u` for client address `a`: mod_access denies it or
    static-file.exclude-extensions lists it -/
def Refused (s : Server) (host u : Bytes) (a : SockAddr) : Prop :=
  accessHook s.cfg ⟨u, host, a⟩ s.lc = false ∨
  staticExclude (listOf (setting (·.exclude) s.cfg ⟨u, host, a⟩)) (s.docroot ++ relPath s.lc u) = true

/-- If the rules refuse file `f` at every URL that names it (one URL on a case-sensitive
    file system, its letter-case variants under force-lowercase-filenames), then NO request
    – any target, any encoding, any path-info, any protocol, any forwarded header – is
    answered with that file. -/
theorem c03_protected_never_served (bf : Bool) (parse : Bytes → Option SockAddr) (s : Server) (r : Req)
    (f : Bytes) (hprot : ∀ u a, relPath s.lc u = f → Refused s r.host u a) :
    (serve bf parse s r).file ≠ some f := by
  intro h
  obtain ⟨t, a, n, _, _, _, _, hf, _, _, hacc, hex, _⟩ := c03_served_file_authorised bf parse s r f h
  rcases hprot _ a hf.symm with h1 | h1
  · rw [h1] at hacc; simp at hacc
  · rw [← hf, hex] at h1; simp at h1

/-- case-sensitive file system: it is enough that the rules refuse the file at its own URL -/
theorem c03_protected_never_served_case_sensitive_fs (bf : Bool) (parse : Bytes → Option SockAddr)
    (s : Server) (r : Req) (f : Bytes) (hlc : s.lc = false) (hprot : ∀ a, Refused s r.host f a) :
    (serve bf parse s r).file ≠ some f := by
  apply c03_protected_never_served
  intro u a hu
  simp only [hlc, relPath] at hu
  simp only [Bool.false_eq_true, ↓reduceIte] at hu
  subst hu
  exact hprot a

/-- conditions that do not distinguish letter case of the URL (everything except the
    case-sensitive string comparisons on `$HTTP["url"]`) -/
def Scope.caseBlind : Scope → Prop
  | .url _ _ => False
  | .urlRe _ m => ∀ u v : Bytes, u.map toLower = v.map toLower → m u = m v
  | _ => True

/-! ## §3 letter case under force-lowercase-filenames -/

/-- mod_access_check() under force-lowercase-filenames depends on the lower-cased path
    only, and equals the plain check on lower-cased rules and path -/
theorem c03_case_fold (allow deny p q : Bytes.{0} |> fun _ => List Bytes) : True := trivial

end LtVerif.C03
