/-
  C03 — access rules cannot be bypassed by respelling URLs or spoofing the client address.
  Property theorems only (helper lemmas: LtVerif/Proofs/Access.lean, Proofs/Extforward.lean; the
  hypothesis vocabulary `Scope.caseBlind`, `Scope.urlFree`, `Scope.portBlind`, `Passes`,
  `tokenLike`, `fwdTokensU` is defined in the Model files).

  Reading guide (property clause → theorem)
    §1  the reference monitor: what a served file has passed, with the client address the request
        was really attributed to (c03_served_file_authorised); consequences: a file the rules refuse
        at its own URL is refused under every spelling that resolves to it, incl. trailing path-info
        (c03_protected_never_served, …_case_sensitive_fs, …_force_lowercase); remoteip-gated rules
        (c03_remoteip_gate_untrusted_peer, c03_eff_addr_xff); auth.require (c03_prefix_monotone,
        c03_auth_guard_all_spellings, c03_auth_guard_first_rule)
    §2  letter case under force-lowercase-filenames (c03_case_fold, c03_icase_byte, c03_case_fold_hook)
    §3  spellings of the authority inside `$HTTP["host"]` blocks (c03_host_eq_port_tolerant,
        c03_host_block_every_port_spelling)
    §4  forwarded client addresses (c03_untrusted_peer_ignored, c03_address_changes_only_for_trusted_peer,
        c03_spoofed_headers_no_effect, c03_xff_last_untrusted, c03_xff_exact,
        c03_xff_all_trusted_unchanged, c03_xff_attacker_prefix, c03_forwarded_walk_safe,
        c03_forwarded_walk_exact, c03_forwarded_capacity_fail_closed)
    §5  what the code does NOT guarantee (design limits of lighttpd = known findings, each with its
        witness), the repaired defects, and the one structural statement
        (c03_same_resource_same_decision_partial)
-/
import LtVerif.Proofs.Access
import LtVerif.Proofs.Extforward
import LtVerif.Model.Docroot
namespace LtVerif.C03
open LtVerif B LtVerif.Access LtVerif.Extforward

/-! ## objects of the examples and witnesses -/

/-- (a small document root) -/
def demoFs : Fs := fun p =>
  if p = ofString "/secret/key.html" ∨ p = ofString "/app.php" then some .file
  else if p = [] ∨ p = ofString "/secret" then some .dir
  else none

def demoAddr : Addr := ⟨.v4 [192, 0, 2, 1], ofString "192.0.2.1"⟩
def demoEnv (u : String) : Env := ⟨ofString u, ofString "h", demoAddr⟩
def demoTarget (u : String) : Target := ⟨ofString u, ofString u, []⟩

/-- url.access-deny = (".inc", "~"), auth.require = ("/secret/" => valid-user), case-sensitive -/
def demoSrv : Server :=
  { cfg := [{ scope := .global, deny := some [ofString ".inc", ofString "~"],
              auth := some [{ pfx := ofString "/secret/" }] }],
    opts := ⟨9567⟩, lc := false, docroot := ofString "/srv", fs := demoFs }

def demoReq : Req :=
  { target := ofString "/secret/./key%2ehtml", host := ofString "h", peer := ofString "192.0.2.1",
    peerAddr := .v4 [192, 0, 2, 1], hdrs := [], user := some (ofString "alice") }

/-- extforward.forwarder = ("10.0.0.1" => "trust") -/
def demoFwd : Forwarder := { entries := [(ofString "10.0.0.1", true)], all := 0, masks := [] }

/-- … and `$HTTP["remoteip"] != "10.0.0.0/8" { url.access-deny = ("") }` -/
def demoSrvIp : Server :=
  { cfg := [{ scope := .global, forwarder := some demoFwd },
            { scope := .ip true (.v4 [10, 0, 0, 0]) 8, deny := some [[]] }],
    opts := ⟨9567⟩, lc := false, docroot := ofString "/srv", fs := demoFs }

/-- a client outside 10/8 that claims to be 10.9.9.9 -/
def demoSpoof : Req :=
  { target := ofString "/app.php", host := ofString "h", peer := ofString "203.0.113.9",
    peerAddr := .v4 [203, 0, 113, 9], hdrs := [(ofString "x-forwarded-for", ofString "10.9.9.9")],
    user := none }

/-- (canonical path of a request-target, for the examples) -/
def pathOf (o : Opts) (t : Bytes) : Option Bytes :=
  match parseTarget o false t with
  | .ok u => some u.path
  | .error _ => none

/-! ## §1 the reference monitor -/

/-- Reference-monitor theorem.  Whenever a file is sent, then – whatever the spelling of the
    request – the request was 200, the file is the regular file found at the (case-folded)
    URL that is left after the path-info split, and with `a` THE address mod_extforward attributed
    the request to (`effAddr`: the TCP peer's, or what a trusted forwarder reported): mod_access
    allowed BOTH the full path and that file's own URL (conditional configuration evaluated on
    that URL, host and `a`), the file is not excluded from static delivery, a path-info is
    present only if static-file.disable-pathinfo is off, and the auth.require rule that guards
    the full path (if any) accepts the authenticated user. -/
theorem c03_served_file_authorised (bf : Bool) (parse : Bytes → Option SockAddr) (s : Server) (r : Req)
    (f : Bytes) (h : (serve bf parse s r).file = some f) :
    ∃ (t : Target) (a : Addr) (n : Nat),
      parseTarget s.opts false r.target = .ok t ∧ effAddr bf parse s r t.path = some a ∧
      n ≤ t.path.length ∧
      (serve bf parse s r).status = 200 ∧
      (serve bf parse s r).uri = t.path.take (t.path.length - n) ∧
      (serve bf parse s r).addr = a.text ∧
      f = relPath s.lc (t.path.take (t.path.length - n)) ∧
      s.fs f = some .file ∧
      accessHook s.cfg ⟨t.path, r.host, a⟩ s.lc = true ∧
      accessHook s.cfg ⟨t.path.take (t.path.length - n), r.host, a⟩ s.lc = true ∧
      staticExclude (listOf (setting (·.exclude) s.cfg ⟨t.path.take (t.path.length - n), r.host, a⟩))
        (s.docroot ++ f) = false ∧
      authPass s.cfg ⟨t.path, r.host, a⟩ s.lc r.user = true ∧
      ((setting (·.noPathinfo) s.cfg ⟨t.path.take (t.path.length - n), r.host, a⟩).getD false = true → n = 0) := by
  unfold serve at h ⊢
  split at h
  · simp at h
  · rename_i t ht
    simp only [ht]
    cases ha : effAddr bf parse s r t.path with
    | none => simp [ha] at h
    | some a =>
      simp only [ha] at h ⊢
      obtain ⟨n, hn, h1, h2, h3, h4, h5, _, h7, h8, h9, h10, h11⟩ := serveFrom_file s t _ _ f h
      exact ⟨t, a, n, rfl, ha, hn, h1, h2, h3, h4, h5, h7, h8, h9, h10, h11⟩

-- non-vacuity: an encoded, dot-segmented spelling of a guarded file, with credentials
example : (serve false gaiNumeric demoSrv demoReq).file = some (ofString "/secret/key.html") := by
  decide +kernel

/-- the rules refuse the file at URL `u` for the client address `a`: mod_access denies it or
    static-file.exclude-extensions lists it -/
def Refused (s : Server) (host u : Bytes) (a : Addr) : Prop :=
  accessHook s.cfg ⟨u, host, a⟩ s.lc = false ∨
  staticExclude (listOf (setting (·.exclude) s.cfg ⟨u, host, a⟩)) (s.docroot ++ relPath s.lc u) = true

/-- If – for the address the request is really attributed to – the rules refuse file `f` at every
    URL that names it (one URL on a case-sensitive file system, its letter-case variants under
    force-lowercase-filenames), then the request is not answered with that file: whatever its
    target, encoding, path-info, protocol or forwarded headers. -/
theorem c03_protected_never_served (bf : Bool) (parse : Bytes → Option SockAddr) (s : Server) (r : Req)
    (f : Bytes)
    (hprot : ∀ t a u, parseTarget s.opts false r.target = .ok t → effAddr bf parse s r t.path = some a →
      relPath s.lc u = f → Refused s r.host u a) :
    (serve bf parse s r).file ≠ some f := by
  intro h
  obtain ⟨t, a, n, ht, ha, _, _, _, _, hf, _, _, hacc, hex, _⟩ := c03_served_file_authorised bf parse s r f h
  rcases hprot t a _ ht ha hf.symm with h1 | h1
  · rw [h1] at hacc; simp at hacc
  · rw [← hf, hex] at h1; simp at h1

/-- case-sensitive file system: it is enough that the rules refuse the file at its own URL -/
theorem c03_protected_never_served_case_sensitive_fs (bf : Bool) (parse : Bytes → Option SockAddr)
    (s : Server) (r : Req) (f : Bytes) (hlc : s.lc = false)
    (hprot : ∀ t a, parseTarget s.opts false r.target = .ok t → effAddr bf parse s r t.path = some a →
      Refused s r.host f a) :
    (serve bf parse s r).file ≠ some f := by
  apply c03_protected_never_served
  intro t a u ht ha hu
  simp only [hlc, relPath] at hu
  simp only [Bool.false_eq_true, ↓reduceIte] at hu
  subst hu
  exact hprot t a ht ha

-- non-vacuity: the hypothesis holds for a file that url.access-deny lists (any address)
example : demoSrv.lc = false ∧ ∀ a, Refused demoSrv (ofString "h") (ofString "/x.inc") a :=
  ⟨rfl, fun _ => Or.inl rfl⟩

/-- force-lowercase-filenames (case-insensitive file system): if no block that assigns
    url.access-allow / url.access-deny / static-file.exclude-extensions compares the URL
    case-sensitively (other blocks may), it is again enough that the rules refuse the file at
    its own (lower-case) URL: every letter-case variant, encoded or not, with or without
    path-info, is refused as well -/
theorem c03_protected_never_served_force_lowercase (bf : Bool) (parse : Bytes → Option SockAddr)
    (s : Server) (r : Req) (f : Bytes) (hlc : s.lc = true)
    (hcb : ∀ b ∈ s.cfg, (b.allow.isSome = true ∨ b.deny.isSome = true ∨ b.exclude.isSome = true) →
      b.scope.caseBlind)
    (hf : f.map toLower = f)
    (hprot : ∀ t a, parseTarget s.opts false r.target = .ok t → effAddr bf parse s r t.path = some a →
      Refused s r.host f a) :
    (serve bf parse s r).file ≠ some f := by
  apply c03_protected_never_served
  intro t a u ht ha hu
  simp only [hlc, relPath, ↓reduceIte] at hu
  have huf : u.map toLower = f.map toLower := by rw [hu, hf]
  have hset : setting (·.exclude) s.cfg ⟨u, r.host, a⟩ = setting (·.exclude) s.cfg ⟨f, r.host, a⟩ :=
    setting_congr _ _ _ _ (fun b hb hs => holds_caseBlind _ (hcb b hb (Or.inr (Or.inr hs))) u f r.host a huf)
  rcases hprot t a ht ha with h1 | h1
  · left
    rw [hlc] at h1 ⊢
    rw [accessHook_casefold s.cfg (fun b hb hs => hcb b hb (hs.elim Or.inl (fun x => Or.inr (Or.inl x))))
          u f r.host a huf]
    exact h1
  · right
    rw [hset]
    simpa [hlc, relPath, hu, hf] using h1

-- non-vacuity: a case-insensitive regular expression `$HTTP["url"] =~ "(?i)^/secret/" { url.access-deny
-- = ("") }` (as PCRE2 decides it) next to a case-SENSITIVE block that assigns nothing relevant
example :
    let s : Server := { cfg := [{ scope := .global },
                                { scope := .urlRe false (reCaselessPrefix (ofString "/secret/")), deny := some [[]] },
                                { scope := .url .prefix_ (ofString "/Other/"), noPathinfo := some true }],
                        opts := ⟨9567⟩, lc := true, docroot := ofString "/srv", fs := demoFs }
    (∀ b ∈ s.cfg, (b.allow.isSome = true ∨ b.deny.isSome = true ∨ b.exclude.isSome = true) → b.scope.caseBlind) ∧
    (ofString "/secret/key.html").map toLower = ofString "/secret/key.html" ∧
    ∀ a, Refused s (ofString "h") (ofString "/secret/key.html") a := by
  refine ⟨?_, by decide +kernel, fun _ => Or.inl rfl⟩
  intro b hb hs
  simp only [List.mem_cons, List.not_mem_nil, or_false] at hb
  rcases hb with rfl | rfl | rfl
  · trivial
  · exact fun u v h => reCaselessPrefix_fold _ u v h
  · simp at hs

/-- `$HTTP["remoteip"]`-gated rules, untrusted peer: the address is the TCP peer's, whatever the
    headers say; so a file refused for the peer's address is never sent to that peer -/
theorem c03_remoteip_gate_untrusted_peer (bf : Bool) (parse : Bytes → Option SockAddr) (s : Server) (r : Req)
    (f : Bytes) (hlc : s.lc = false)
    (hpeer : ∀ t fw, parseTarget s.opts false r.target = .ok t →
      (extConf s.cfg ⟨t.path, r.host, ⟨r.peerAddr, r.peer⟩⟩).forwarder = some fw →
      isConnectionTrusted fw r.peer = false)
    (hprot : Refused s r.host f ⟨r.peerAddr, r.peer⟩) :
    (serve bf parse s r).file ≠ some f := by
  apply c03_protected_never_served_case_sensitive_fs bf parse s r f hlc
  intro t a ht ha
  unfold effAddr at ha
  simp only [remoteAddr_untrusted bf parse _ r.peer r.hdrs (fun fw hfw => hpeer t fw ht hfw),
    Option.some.injEq] at ha
  subst ha
  exact hprot

/-- … trusted peer, X-Forwarded-For chain: the address is the right-most element that is not a
    trusted proxy (text as written in the header, parsed), or the peer's if that does not parse -/
theorem c03_eff_addr_xff (bf : Bool) (parse : Bytes → Option SockAddr) (s : Server) (r : Req) (path : Bytes)
    (fw : Forwarder) (name v : Bytes) (pre post : List Bytes) (a : Bytes)
    (hfw : (extConf s.cfg ⟨path, r.host, ⟨r.peerAddr, r.peer⟩⟩).forwarder = some fw)
    (hpick : pickHeader (extConf s.cfg ⟨path, r.host, ⟨r.peerAddr, r.peer⟩⟩).headers r.hdrs = some (name, v))
    (hname : name ≠ ofString "forwarded") (htr : isConnectionTrusted fw r.peer = true)
    (hc : extractForwardArray v = pre ++ a :: post) (ha : isProxyTrusted fw a = false)
    (hpost : ∀ x ∈ post, isProxyTrusted fw x = true) :
    effAddr bf parse s r path =
      some (match parse a with | some sa => ⟨sa, a⟩ | none => ⟨r.peerAddr, r.peer⟩) := by
  unfold effAddr remoteAddr
  simp only [hfw, hpick, htr, Bool.not_true, Bool.false_eq_true, ↓reduceIte, hname]
  unfold xffAddr
  rw [hc, lastNotIn_exact fw pre post a ha hpost]
  unfold setAddr
  cases hp : parse a <;> simp [hp]

-- non-vacuity: the spoofing client is attributed its own address and refused; the same file is served
-- to the forwarder's own address
example : (∀ t fw, parseTarget demoSrvIp.opts false demoSpoof.target = .ok t →
      (extConf demoSrvIp.cfg ⟨t.path, demoSpoof.host, ⟨demoSpoof.peerAddr, demoSpoof.peer⟩⟩).forwarder = some fw →
      isConnectionTrusted fw demoSpoof.peer = false) ∧
    Refused demoSrvIp demoSpoof.host (ofString "/app.php") ⟨demoSpoof.peerAddr, demoSpoof.peer⟩ ∧
    (serve false gaiNumeric demoSrvIp demoSpoof).status = 403 ∧
    (serve false gaiNumeric demoSrvIp
       { demoSpoof with peer := ofString "10.0.0.1", peerAddr := .v4 [10, 0, 0, 1], hdrs := [] }).file
      = some (ofString "/app.php") := by
  refine ⟨?_, Or.inl (by decide +kernel), by decide +kernel⟩
  intro t fw _ hf
  have h2 : (extConf demoSrvIp.cfg ⟨t.path, demoSpoof.host, ⟨demoSpoof.peerAddr, demoSpoof.peer⟩⟩).forwarder
      = some demoFwd := rfl
  rw [h2] at hf
  have : fw = demoFwd := (Option.some.inj hf).symm
  subst this
  decide +kernel

/-- auth.require: a path guarded by a rule stays guarded – by that rule or one listed
    before it – when a path-info (anything) is appended -/
theorem c03_prefix_monotone (rules : List Bytes) (p info : Bytes) (lc : Bool) (i : Nat)
    (h : authRule rules p lc = some i) : ∃ j, j ≤ i ∧ authRule rules (p ++ info) lc = some j :=
  authRule_append rules p info lc i h

example : authRule [ofString "/secret/sub/", ofString "/secret/"] (ofString "/secret/key.html") false = some 1 ∧
          authRule [ofString "/secret/sub/", ofString "/secret/"] (ofString "/secret/key.html/x/../y") false = some 1 := by
  decide +kernel

/-- If auth.require is not assigned inside URL conditions and rule `i` guards the file's own URL
    (for the address the request is attributed to), then every request answered with the file –
    any spelling, any letter case under force-lowercase-filenames, any path-info – was accepted
    by rule `i` OR BY A RULE LISTED BEFORE IT (mod_auth takes the first prefix match on the path
    before the path-info split: c03_auth_rule_order_counterexample shows that the earlier rule can
    be a weaker one). -/
theorem c03_auth_guard_all_spellings (bf : Bool) (parse : Bytes → Option SockAddr) (s : Server) (r : Req)
    (f : Bytes) (hfree : ∀ b ∈ s.cfg, b.auth.isSome = true → b.scope.urlFree)
    (hf : s.lc = true → f.map toLower = f)
    (h : (serve bf parse s r).file = some f) :
    ∃ t a, parseTarget s.opts false r.target = .ok t ∧ effAddr bf parse s r t.path = some a ∧
      ∀ i, authHook s.cfg ⟨f, r.host, a⟩ s.lc = some i →
        ∃ j rule, j ≤ i ∧ (authRules s.cfg ⟨f, r.host, a⟩)[j]? = some rule ∧ rule.accepts r.user = true := by
  obtain ⟨t, a, n, ht, ha, hn, _, _, _, hfu, _, _, _, _, hauth, _⟩ := c03_served_file_authorised bf parse s r f h
  refine ⟨t, a, ht, ha, ?_⟩
  intro i hi
  have hset : setting (·.auth) s.cfg ⟨t.path, r.host, a⟩ = setting (·.auth) s.cfg ⟨f, r.host, a⟩ :=
    setting_congr _ _ _ _ (fun b hb hs => holds_urlFree _ (hfree b hb hs) _ _ _ _)
  have hrules : authRules s.cfg ⟨t.path, r.host, a⟩ = authRules s.cfg ⟨f, r.host, a⟩ := by
    unfold authRules; rw [hset]
  unfold authHook at hi
  simp only at hi
  -- the rule that guards `f` also guards the split URL …
  have hu : authRule ((authRules s.cfg ⟨f, r.host, a⟩).map (·.pfx))
      (t.path.take (t.path.length - n)) s.lc = some i := by
    cases hlc : s.lc with
    | false =>
      rw [hlc] at hfu hi
      simp only [relPath, Bool.false_eq_true, ↓reduceIte] at hfu
      rw [← hfu]; exact hi
    | true =>
      rw [hlc] at hfu hi
      simp only [relPath, ↓reduceIte] at hfu
      rw [authRule_casefold _ (t.path.take (t.path.length - n)) f (by rw [← hfu, hf hlc])]
      exact hi
  -- … and the full path, which extends it by the path-info, is guarded by it or an earlier one
  obtain ⟨j, hji, hj⟩ := authRule_append _ _ (t.path.drop (t.path.length - n)) _ _ hu
  rw [List.take_append_drop] at hj
  unfold authPass authHook at hauth
  simp only [hrules, hj] at hauth
  cases hr : (authRules s.cfg ⟨f, r.host, a⟩)[j]? with
  | none => simp [hr] at hauth
  | some rule =>
    simp only [hr] at hauth
    exact ⟨j, rule, hji, hr, hauth⟩

/-- … in particular, if the guarding rule is the first one listed, it is that rule that accepted -/
theorem c03_auth_guard_first_rule (bf : Bool) (parse : Bytes → Option SockAddr) (s : Server) (r : Req)
    (f : Bytes) (hfree : ∀ b ∈ s.cfg, b.auth.isSome = true → b.scope.urlFree)
    (hf : s.lc = true → f.map toLower = f)
    (h : (serve bf parse s r).file = some f) :
    ∃ t a, parseTarget s.opts false r.target = .ok t ∧ effAddr bf parse s r t.path = some a ∧
      (authHook s.cfg ⟨f, r.host, a⟩ s.lc = some 0 →
        ∃ rule, (authRules s.cfg ⟨f, r.host, a⟩)[0]? = some rule ∧ rule.accepts r.user = true) := by
  obtain ⟨t, a, ht, ha, hall⟩ := c03_auth_guard_all_spellings bf parse s r f hfree hf h
  refine ⟨t, a, ht, ha, fun h0 => ?_⟩
  obtain ⟨j, rule, hj, hr, hacc⟩ := hall 0 h0
  have : j = 0 := by omega
  subst this
  exact ⟨rule, hr, hacc⟩

-- non-vacuity: the hypotheses hold for the guarded file of the example configuration, whose rule 0
-- guards it for every address
example : (∀ b ∈ demoSrv.cfg, b.auth.isSome = true → b.scope.urlFree) ∧
          (∀ a, authHook demoSrv.cfg ⟨ofString "/secret/key.html", ofString "h", a⟩ demoSrv.lc = some 0) := by
  refine ⟨?_, fun _ => rfl⟩
  intro b hb _
  simp [demoSrv] at hb
  subst hb
  trivial

/-! ## §2 letter case under force-lowercase-filenames -/

/-- mod_access_check() and the auth.require lookup under force-lowercase-filenames depend on
    the lower-cased path only; the check equals the plain (case-sensitive) check on
    lower-cased rules and path -/
theorem c03_case_fold (allow deny rules : List Bytes) (p q : Bytes) (h : p.map toLower = q.map toLower) :
    accessCheck allow deny p true = accessCheck allow deny q true ∧
    authRule rules p true = authRule rules q true ∧
    accessCheck allow deny p true =
      accessCheck (allow.map (·.map toLower)) (deny.map (·.map toLower)) (p.map toLower) false :=
  ⟨accessCheck_casefold allow deny p q h, authRule_casefold rules p q h, accessCheck_nc_eq allow deny p⟩

example : (ofString "/Dir/X.INC").map toLower = (ofString "/dir/x.inc").map toLower ∧
          accessCheck [] [ofString ".inc"] (ofString "/Dir/X.INC") true = false := by decide +kernel

/-- the byte test of buffer_eq_icase_ssn() identifies exactly the bytes with the same ASCII
    lower-case form (so '@' and '`', '[' and '{', 0xC1 and 0xE1 are NOT identified) -/
theorem c03_icase_byte (a b : UInt8) : eqIcaseByte a b = (toLower a == toLower b) := eqIcaseByte_eq a b

example : eqIcaseByte 64 96 = false ∧ eqIcaseByte 91 123 = false ∧ eqIcaseByte 0xc1 0xe1 = false ∧
          eqIcaseByte 65 97 = true := by decide +kernel

/-- the whole mod_access hook (conditional configuration included) looks at the lower-cased
    URL only, if no block that assigns allow / deny compares the URL case-sensitively -/
theorem c03_case_fold_hook (cfg : List Block)
    (hcb : ∀ b ∈ cfg, (b.allow.isSome = true ∨ b.deny.isSome = true) → b.scope.caseBlind)
    (u v h : Bytes) (a : Addr) (huv : u.map toLower = v.map toLower) :
    accessHook cfg ⟨u, h, a⟩ true = accessHook cfg ⟨v, h, a⟩ true :=
  accessHook_casefold cfg hcb u v h a huv

-- non-vacuity: the hypothesis for a nested `$HTTP["host"] == "h" { $HTTP["url"] =~ "(?i)\.inc$" { deny } }`
example : ∀ b ∈ [({ scope := .global } : Block),
                 { scope := .both (.host .eq (ofString "h")) (.urlRe false (reCaselessSuffix (ofString ".inc"))),
                   deny := some [[]] }],
    (b.allow.isSome = true ∨ b.deny.isSome = true) → b.scope.caseBlind := by
  intro b hb _
  simp only [List.mem_cons, List.not_mem_nil, or_false] at hb
  rcases hb with rfl | rfl
  · trivial
  · exact ⟨trivial, fun u v h => reCaselessSuffix_fold _ u v h⟩

/-! ## §3 spellings of the authority -/

/-- `$HTTP["host"] == "name"` (configured without a port) holds for the authority `name` and for
    `name:port` with any port of up to five digits, and for no other `other:port` – the
    port-tolerant comparison of config_check_cond_nocache_eval() (C14's `Cond.eqLike`) -/
theorem c03_host_eq_port_tolerant (s n port : Bytes) (hs : colon ∉ s) (hn : colon ∉ n) (hp : colon ∉ port)
    (hsl : s.head? ≠ some slash) (hlen : port.length ≤ 5) :
    hostEq s (n ++ colon :: port) = (n == s) ∧ hostEq s n = (n == s) :=
  ⟨hostEq_port s n port hs hn hp hsl hlen, hostEq_plain s n hs hn⟩

example : hostEq (ofString "intranet.example") (ofString "intranet.example:65535") = true ∧
          hostEq (ofString "intranet.example") (ofString "intranet.example:8") = true ∧
          hostEq (ofString "intranet.example") (ofString "intranet.example:655350") = false := by
  decide +kernel

/-- A protection inside `$HTTP["host"]` blocks is the same for every port spelling of the
    authority: if the host conditions of the configuration are `==` / `!=` against names without
    port, or regular expressions that allow for a port (`portBlind`; nesting and else-chains
    included), then the request with authority `name:port` gets exactly the response of the
    request with authority `name` – and mod_simple_vhost maps both to the same document root
    (it cuts the authority at the first ':'), so they do reach the same resource. -/
theorem c03_host_block_every_port_spelling (bf : Bool) (parse : Bytes → Option SockAddr) (s : Server) (r : Req)
    (port : Bytes) (hpb : ∀ b ∈ s.cfg, b.scope.portBlind) (hn : colon ∉ r.host) (hp : colon ∉ port)
    (hlen : port.length ≤ 5) (sroot : Bytes) (droot : Option Bytes) :
    serve bf parse s { r with host := r.host ++ colon :: port } = serve bf parse s r ∧
    svhostPath sroot (some (r.host ++ colon :: port)) droot = svhostPath sroot (some r.host) droot := by
  refine ⟨serve_host_congr bf parse s r _
            (fun b hb u a => holds_portBlind _ (hpb b hb) u r.host port a hn hp hlen), ?_⟩
  simp only [svhostPath, hostPart_port r.host port hn, hostPart_plain r.host hn]

-- non-vacuity: `$HTTP["host"] == "intranet.example" { url.access-deny = ("") }`, nested url block
example : ∀ b ∈ [({ scope := .global } : Block),
                 { scope := .host .eq (ofString "intranet.example"), deny := some [[]] },
                 { scope := .both (.host .eq (ofString "intranet.example")) (.url .prefix_ (ofString "/x")) },
                 { scope := .non (.host .eq (ofString "intranet.example")), auth := some [] }],
    b.scope.portBlind := by
  intro b hb
  simp only [List.mem_cons, List.not_mem_nil, or_false] at hb
  rcases hb with rfl | rfl | rfl | rfl
  · trivial
  · exact ⟨by decide +kernel, by decide +kernel⟩
  · exact ⟨⟨by decide +kernel, by decide +kernel⟩, trivial⟩
  · exact ⟨by decide +kernel, by decide +kernel⟩

/-! ## §4 forwarded client addresses -/

/-- Forwarded / X-Forwarded-For (any configured header, any content) from a TCP peer that is
    not a configured trusted forwarder do not change the client address -/
theorem c03_untrusted_peer_ignored (bf : Bool) (parse : Bytes → Option SockAddr) (c : ExtConf) (peer : Bytes)
    (hdrs : List (Bytes × Bytes)) (h : ∀ f, c.forwarder = some f → isConnectionTrusted f peer = false) :
    remoteAddr bf parse c peer hdrs = .unchanged :=
  remoteAddr_untrusted bf parse c peer hdrs h

example : isConnectionTrusted demoFwd (ofString "203.0.113.9") = false ∧
          isConnectionTrusted demoFwd (ofString "10.0.0.1") = true := by decide +kernel

/-- … and conversely the address only ever changes for a trusted peer, to an address that
    parses -/
theorem c03_address_changes_only_for_trusted_peer (bf : Bool) (parse : Bytes → Option SockAddr) (c : ExtConf)
    (peer : Bytes) (hdrs : List (Bytes × Bytes)) (a : Bytes) (sa : SockAddr)
    (h : remoteAddr bf parse c peer hdrs = .set a sa) :
    ∃ f, c.forwarder = some f ∧ isConnectionTrusted f peer = true ∧ parse a = some sa := by
  unfold remoteAddr at h
  cases hf : c.forwarder with
  | none => simp [hf] at h
  | some f =>
    simp only [hf] at h
    refine ⟨f, rfl, ?_⟩
    cases hp : pickHeader c.headers hdrs with
    | none => simp [hp] at h
    | some nv =>
      simp only [hp] at h
      by_cases ht : isConnectionTrusted f peer = true
      · refine ⟨ht, ?_⟩
        simp only [ht, Bool.not_true, Bool.false_eq_true, ↓reduceIte] at h
        by_cases hn : nv.1 = ofString "forwarded"
        · simp only [hn, ↓reduceIte] at h
          exact forwardedAddr_set bf parse f _ a sa h
        · simp only [hn, ↓reduceIte] at h
          cases hx : xffAddr parse f nv.2 with
          | none => simp [hx] at h
          | some p =>
            obtain ⟨b, sb⟩ := p
            simp only [hx, FwdRes.set.injEq] at h
            obtain ⟨rfl, rfl⟩ := h
            exact xffAddr_set parse f _ _ _ hx
      · simp [ht] at h

example : remoteAddr false gaiNumeric { forwarder := some demoFwd, headers := defaultHeaders }
            (ofString "10.0.0.1") [(ofString "x-forwarded-for", ofString "198.51.100.7")]
          = .set (ofString "198.51.100.7") (.v4 [198, 51, 100, 7]) := by decide +kernel

/-- End to end: for a request from an untrusted peer the whole response is independent of
    the forwarded headers it carries (they can be replaced by anything). -/
theorem c03_spoofed_headers_no_effect (bf : Bool) (parse : Bytes → Option SockAddr) (s : Server) (r : Req)
    (hdrs' : List (Bytes × Bytes))
    (h : ∀ t f, parseTarget s.opts false r.target = .ok t →
      (extConf s.cfg ⟨t.path, r.host, ⟨r.peerAddr, r.peer⟩⟩).forwarder = some f →
      isConnectionTrusted f r.peer = false) :
    serve bf parse s r = serve bf parse s { r with hdrs := hdrs' } := by
  unfold serve effAddr
  cases ht : parseTarget s.opts false r.target with
  | error e => rfl
  | ok t =>
    simp only
    rw [remoteAddr_untrusted bf parse _ r.peer r.hdrs (fun f hf => h t f ht hf),
        remoteAddr_untrusted bf parse _ r.peer hdrs' (fun f hf => h t f ht hf)]

/-- X-Forwarded-For from a trusted peer: the address taken is an element of the chain that
    is not a trusted proxy, everything to its right is a trusted proxy, and it parses -/
theorem c03_xff_last_untrusted (parse : Bytes → Option SockAddr) (f : Forwarder) (hdr a : Bytes) (sa : SockAddr)
    (h : xffAddr parse f hdr = some (a, sa)) :
    parse a = some sa ∧ isProxyTrusted f a = false ∧
      ∃ pre post, extractForwardArray hdr = pre ++ a :: post ∧ ∀ x ∈ post, isProxyTrusted f x = true := by
  unfold xffAddr at h
  cases hl : lastNotIn f (extractForwardArray hdr) with
  | none => simp [hl] at h
  | some a0 =>
    simp only [hl] at h
    obtain ⟨rfl, hp⟩ := setAddr_some parse a0 a sa h
    obtain ⟨h1, h2⟩ := lastNotIn_some f _ _ hl
    exact ⟨hp, h1, h2⟩

/-- … exactly that element (the right-most one that is not a trusted proxy); unchanged if it
    does not parse … -/
theorem c03_xff_exact (parse : Bytes → Option SockAddr) (f : Forwarder) (hdr : Bytes) (pre post : List Bytes)
    (a : Bytes) (hc : extractForwardArray hdr = pre ++ a :: post) (ha : isProxyTrusted f a = false)
    (hpost : ∀ x ∈ post, isProxyTrusted f x = true) :
    xffAddr parse f hdr = (parse a).map (fun sa => (a, sa)) := by
  unfold xffAddr
  rw [hc, lastNotIn_exact f pre post a ha hpost]
  unfold setAddr
  cases hp : parse a <;> simp [hp]

/-- … and unchanged if every element is a trusted proxy -/
theorem c03_xff_all_trusted_unchanged (parse : Bytes → Option SockAddr) (f : Forwarder) (hdr : Bytes)
    (h : ∀ x ∈ extractForwardArray hdr, isProxyTrusted f x = true) : xffAddr parse f hdr = none := by
  unfold xffAddr
  rw [(lastNotIn_none f _).2 h]

/-- Attacker-chosen prefix, byte level: whatever bytes `P` the client put into X-Forwarded-For
    (quotes, separators, pseudo addresses, anything), the element the trusted proxy appends after
    ", " is the last token of the chain; if it is not itself a trusted proxy it IS the result. -/
theorem c03_xff_attacker_prefix (parse : Bytes → Option SockAddr) (f : Forwarder) (P a : Bytes)
    (ht : tokenLike a) (hu : isProxyTrusted f a = false) :
    xffAddr parse f (P ++ [44, 32] ++ a) = (parse a).map (fun sa => (a, sa)) :=
  c03_xff_exact parse f _ (extractForwardArray P) [] a (by rw [extract_append P a ht]) hu (by simp)

-- non-vacuity: forwarder 10.0.0.1 and 10.1.0.0/16; chain client, attacker-visible hop, two proxies;
-- an all-trusted chain; a textual prefix full of junk
example :
    (parseForwarder [(ofString "10.0.0.1", ofString "trust"), (ofString "10.1.0.0/16", ofString "trust")]).map
      (fun f => ((xffAddr gaiNumeric f (ofString "6.6.6.6, 203.0.113.9, 10.1.2.3, 10.0.0.1")).map (·.1),
                 (xffAddr gaiNumeric f (ofString "10.1.2.3, 10.0.0.1")).map (·.1),
                 (xffAddr gaiNumeric f (ofString "\"10.0.0.1, ;for=::1\\ ,,10.9.9.9., 203.0.113.9")).map (·.1)))
    = some (some (ofString "203.0.113.9"), none, some (ofString "203.0.113.9")) := by decide +kernel

example : tokenLike (ofString "203.0.113.9") :=
  ⟨⟨50, ofString "03.0.113.9", rfl, rfl⟩, by decide +kernel⟩

/-- Forwarded from a trusted peer, safety: the identifier the walk returns is the for= value
    of one of the proxies, usable as an address, and every proxy to its right in the header
    reported a trusted identifier (or none): an untrusted hop is never skipped.  (The result
    itself need not be untrusted: by design an untrusted hop that only gives an obfuscated
    identifier – `_x`, `unknown` – ends the walk at the previous, trusted, one.) -/
theorem c03_forwarded_walk_safe (f : Forwarder) (hdr : Bytes) (items : List Item) (a : Bytes)
    (h : fwdWalk f hdr items = .addr (some a)) :
    ∃ pre g post, (groups items).reverse = pre ++ g :: post ∧ (∀ g' ∈ pre, Passes f hdr g') ∧
      groupVal hdr g = some (.val a) ∧ a ≠ [] ∧ usable a = true := by
  unfold fwdWalk at h
  rcases fwdWalk_safe f hdr _ none a h with h | h
  · simp at h
  · exact h

/-- Forwarded, exactness: if the right-most proxy whose identifier is not trusted reports a
    usable identifier, that identifier is the result (the last untrusted hop) -/
theorem c03_forwarded_walk_exact (f : Forwarder) (hdr : Bytes) (items : List Item)
    (pre : List (List Item)) (g : List Item) (post : List (List Item)) (a : Bytes)
    (hg : (groups items).reverse = pre ++ g :: post) (hpre : ∀ g' ∈ pre, Passes f hdr g')
    (hv : groupVal hdr g = some (.val a)) (hne : a ≠ []) (hu : usable a = true)
    (hnt : isProxyTrusted f a = false) : fwdWalk f hdr items = .addr (some a) := by
  unfold fwdWalk
  rw [hg]
  exact fwdWalk_exact f hdr pre g post none a hpre hv hne hu hnt

/-- Capacity of offsets[256], fail closed: whenever a Forwarded header is NOT answered with 400,
    the bounded tokenizer produced exactly the token list of the unbounded specification
    `fwdTokensU` – the walk never runs on a truncated list (so params in front cannot push the
    element appended by the trusted proxy out of sight). -/
theorem c03_forwarded_capacity_fail_closed (bf : Bool) (parse : Bytes → Option SockAddr) (f : Forwarder)
    (hdr : Bytes) (h : forwardedAddr bf parse f hdr ≠ .bad) :
    ∃ items, fwdTokens hdr = .ok items ∧ fwdTokensU hdr = .ok items := by
  unfold forwardedAddr at h
  cases ht : fwdTokens hdr with
  | bad => simp [ht] at h
  | ok items =>
    simp only [ht] at h
    by_cases hs : slots items ≥ 253
    · simp [hs] at h
    · exact ⟨items, rfl, fwdTokGo_complete hdr _ 0 [] items ht (by omega)⟩

-- non-vacuity (and the case the repaired defect D9 got wrong): a single for=, and a chain
-- whose answer is the first element; 63 params in front of the proxy's element are rejected
example :
    (parseForwarder [(ofString "10.0.0.1", ofString "trust")]).map (fun f =>
      (forwardedAddr false gaiNumeric f (ofString "for=1.2.3.4"),
       forwardedAddr false gaiNumeric f (ofString "for=\"[2001:db8::7]:4711\";proto=https, For=10.0.0.1"),
       forwardedAddr false gaiNumeric f
         ((List.replicate 62 (ofString "p=v;")).flatten ++ ofString "for=10.9.9.9, for=203.0.113.7")))
    = some (.set (ofString "1.2.3.4") (.v4 [1, 2, 3, 4]),
            .set (ofString "2001:db8::7") (.v6 [0x20, 1, 0xd, 0xb8, 0, 0, 0, 0, 0, 0, 0, 0, 0, 0, 0, 7]),
            .bad) := by
  decide +kernel

-- non-vacuity of the two walk theorems on a tokenised header: the second proxy is the answer
example :
    (match fwdTokens (ofString "for=203.0.113.7, for=10.0.0.1") with
     | .ok items => some (fwdWalk demoFwd (ofString "for=203.0.113.7, for=10.0.0.1") items,
                          (groups items).reverse.length)
     | .bad => none) = some (.addr (some (ofString "203.0.113.7")), 2) := by decide +kernel

/-! ## §5 what is NOT guaranteed, the repaired defects, the structural statement -/

/-- Design limit L2 (known finding KF3): `$HTTP["url"]` conditions are case-sensitive also under
    force-lowercase-filenames.  With `$HTTP["url"] =^ "/secret/" { url.access-deny = ("") }`
    the file /secret/key.html is refused at its own URL but sent for /SECRET/key.html.
    (Hence the hypothesis `caseBlind` of c03_protected_never_served_force_lowercase; a
    case-insensitive regular expression `=~ "(?i)^/secret/"` satisfies it.) -/
theorem c03_url_cond_case_sensitive :
    let s : Server := { cfg := [{ scope := .global }, { scope := .url .prefix_ (ofString "/secret/"), deny := some [[]] }],
                        opts := ⟨9567⟩, lc := true, docroot := ofString "/srv", fs := demoFs }
    (serveFrom s (demoTarget "/secret/key.html") (demoEnv "/secret/key.html") none).status = 403 ∧
    (serveFrom s (demoTarget "/SECRET/key.html") (demoEnv "/SECRET/key.html") none).file
      = some (ofString "/secret/key.html") := by
  decide +kernel

/- Planned (DESIGN round 0) `c03_auth_suffix_cond`: "a resource guarded by auth.require inside an
   end-anchored `$HTTP["url"]` condition is guarded for every spelling incl. trailing path-info".
   This is FALSE of the code (next theorem).  The part that holds is c03_auth_guard_all_spellings:
   auth.require assigned outside URL conditions (`urlFree`). -/

/-- Design limit L3 (known finding KF4): mod_auth runs before the path-info split only, so a
    condition that selects by the END of the URL does not guard auth.require against trailing
    path-info: with `$HTTP["url"] =$ ".php" { auth.require = ("" => …) }` /app.php asks for
    credentials but /app.php/x is served.  (url.access-deny inside the same condition IS
    re-checked after the split: c03_served_file_authorised.) -/
theorem c03_auth_suffix_cond_counterexample :
    let s : Server := { cfg := [{ scope := .global },
                                { scope := .url .suffix (ofString ".php"), auth := some [{ pfx := [] }] }],
                        opts := ⟨9567⟩, lc := false, docroot := ofString "/srv", fs := demoFs }
    (serveFrom s (demoTarget "/app.php") (demoEnv "/app.php") none).status = 401 ∧
    (serveFrom s (demoTarget "/app.php/x") (demoEnv "/app.php/x") none).file = some (ofString "/app.php") := by
  decide +kernel

/-- Design limit L3, second form (same known finding): the guarding rule is the FIRST prefix match
    on the path before the split, so an earlier, weaker rule whose prefix reaches into a
    path-info guards that spelling instead of the stricter rule of the file: with
    `auth.require = ("/secret/key.html/pub" => valid-user, "/secret/" => user=admin)` user alice
    gets 401 for /secret/key.html but the file for /secret/key.html/pub.  (This is why
    c03_auth_guard_all_spellings can only conclude "rule i or an earlier one".) -/
theorem c03_auth_rule_order_counterexample :
    let s : Server := { cfg := [{ scope := .global,
                                  auth := some [{ pfx := ofString "/secret/key.html/pub" },
                                                { pfx := ofString "/secret/", users := some [ofString "admin"] }] }],
                        opts := ⟨9567⟩, lc := false, docroot := ofString "/srv", fs := demoFs }
    (serveFrom s (demoTarget "/secret/key.html") (demoEnv "/secret/key.html") (some (ofString "alice"))).status = 401 ∧
    (serveFrom s (demoTarget "/secret/key.html/pub") (demoEnv "/secret/key.html/pub")
       (some (ofString "alice"))).file = some (ofString "/secret/key.html") := by
  decide +kernel

/-- Design limit L1 (known finding KF2): conditions are matched by PCRE2 in UTF mode; a URL that is
    not well-formed UTF-8 (a stray %80 is accepted by the default parse options) matches NO regular
    expression.  So even a prefix expression does not guard auth.require against a path-info
    with such a byte: with `$HTTP["url"] =~ "(?i)^/secret/" { auth.require = … }`
    /secret/key.html asks for credentials, /secret/key.html/%80 is served. -/
theorem c03_regex_cond_invalid_utf8 :
    let s : Server := { cfg := [{ scope := .global },
                                { scope := .urlRe false (reCaselessPrefix (ofString "/secret/")),
                                  auth := some [{ pfx := [] }] }],
                        opts := ⟨9567⟩, lc := false, docroot := ofString "/srv", fs := demoFs }
    (serveFrom s (demoTarget "/secret/key.html") (demoEnv "/secret/key.html") none).status = 401 ∧
    (serveFrom s ⟨ofString "/secret/key.html/%80", ofString "/secret/key.html/" ++ [0x80], []⟩
       ⟨ofString "/secret/key.html/" ++ [0x80], ofString "h", demoAddr⟩ none).file
      = some (ofString "/secret/key.html") := by
  decide +kernel

/-- Repaired defect D9 (fix 2c1995d): the walk `while (j >= 4)` never looked at a param that is
    alone in the first group, so `Forwarded: for=1.2.3.4` from a trusted proxy left the
    proxy's address in place and `for=1.2.3.4, for=10.0.0.1` selected the trusted proxy
    itself.  The model of the old walk differs from the current one exactly there. -/
theorem c03_forwarded_first_group_before_fix :
    (parseForwarder [(ofString "10.0.0.1", ofString "trust")]).map (fun f =>
      (forwardedAddr true gaiNumeric f (ofString "for=1.2.3.4"),
       forwardedAddr true gaiNumeric f (ofString "for=1.2.3.4, for=10.0.0.1"),
       forwardedAddr false gaiNumeric f (ofString "for=1.2.3.4, for=10.0.0.1")))
    = some (.unchanged, .set (ofString "10.0.0.1") (.v4 [10, 0, 0, 1]), .set (ofString "1.2.3.4") (.v4 [1, 2, 3, 4])) := by
  decide +kernel

/-- Repaired defect D16 (fix 85b1beb): is_proxy_trusted() passed (candidate, network, bits) to
    sock_addr_is_addr_eq_bits(), which reads `bits` relative to its first argument: every
    IPv4-mapped IPv6 literal was a trusted proxy as soon as any IPv4 netmask was configured,
    so `X-Forwarded-For: 6.6.6.6, ::ffff:203.0.113.9` selected the attacker-chosen 6.6.6.6. -/
theorem c03_cidr_argument_order_before_fix :
    (parseForwarder [(ofString "10.0.0.1", ofString "trust"), (ofString "10.1.0.0/16", ofString "trust")]).map
      (fun f => (isProxyTrustedOrd false f (ofString "::ffff:203.0.113.9"),
                 isProxyTrustedOrd true f (ofString "::ffff:203.0.113.9"),
                 isProxyTrustedOrd true f (ofString "::ffff:10.1.2.3"),
                 (xffAddr gaiNumeric f (ofString "6.6.6.6, ::ffff:203.0.113.9")).map (·.1)))
    = some (true, false, true, some (ofString "::ffff:203.0.113.9")) := by
  decide +kernel

/-- STRUCTURAL (hence `_partial`): two request-targets that `parseTarget` maps to the same
    canonical path – under any two sets of parse options – get the same status, file, final URL
    and client address.  This holds by the shape of the model (`serveFrom` receives the spelling
    only for PATH_INFO's letter case); its behavioural content – that no module of the real
    server looks at the spelling again – is established by the `srv` correspondence (real
    plugin dispatch, both protocol entries, every parse-option profile), not by this theorem.
    What is missing for the full clause: that the listed respellings (percent-encoding, hex case,
    dot segments, duplicate/encoded slashes, NUL/control bytes, composed to any depth) DO yield
    the same canonical path – C02's subject for `pathSimplify`; for `burl_normalize` it is
    carried by the C02/C03 correspondence and by C03's independent decode-once oracle only. -/
theorem c03_same_resource_same_decision_partial (bf : Bool) (parse : Bytes → Option SockAddr) (s : Server)
    (o₁ o₂ : Opts) (r₁ r₂ : Req) (u₁ u₂ : Target)
    (h₁ : parseTarget o₁ false r₁.target = .ok u₁) (h₂ : parseTarget o₂ false r₂.target = .ok u₂)
    (hp : u₁.path = u₂.path)
    (hh : r₁.host = r₂.host) (hpe : r₁.peer = r₂.peer) (hpa : r₁.peerAddr = r₂.peerAddr)
    (hhd : r₁.hdrs = r₂.hdrs) (hc : r₁.user = r₂.user) :
    (serve bf parse { s with opts := o₁ } r₁).status = (serve bf parse { s with opts := o₂ } r₂).status ∧
    (serve bf parse { s with opts := o₁ } r₁).file = (serve bf parse { s with opts := o₂ } r₂).file ∧
    (serve bf parse { s with opts := o₁ } r₁).uri = (serve bf parse { s with opts := o₂ } r₂).uri ∧
    (serve bf parse { s with opts := o₁ } r₁).addr = (serve bf parse { s with opts := o₂ } r₂).addr := by
  unfold serve effAddr
  simp only [h₁, h₂, hp, hh, hpe, hpa, hhd, hc]
  split
  · simp
  · rename_i a _
    have := serveFrom_indep { s with opts := o₁ } o₂ u₁ u₂
      { url := u₂.path, host := r₂.host, addr := a } r₂.user
    exact ⟨this.1, this.2.2.2, this.2.1, this.2.2.1⟩

-- non-vacuity: two spellings (dot segments, percent-encoding in both hex cases, duplicate
-- slash) of one path, under the default options
example : pathOf ⟨9567⟩ (ofString "/a/%2e%2E/secret/./key.html") = some (ofString "/secret/key.html") ∧
          pathOf ⟨9567⟩ (ofString "/secret//key%2ehtml") = some (ofString "/secret/key.html") := by
  decide +kernel

end LtVerif.C03
