/-
  C04 — every HTTP/1.x response is well-formed, correctly delimited and byte-exact.
  Property theorems only; helper lemmas live in LtVerif/Proofs/{H1Resp,HttpChunkEnc,NetWrite}.lean.

  Models: Model/H1Resp.lean (http_response_write_prepare, h1_send_headers, encoders, and the
  RFC 9112 §6.3 reference `rfcFraming` / `rfcBody`), Model/HttpChunkEnc.lean (http_chunk.c),
  Model/NetWrite.lean (network_write.c over a chunk queue with a write-result schedule).
-/
import LtVerif.Proofs.H1Resp
import LtVerif.Proofs.NetWrite
namespace LtVerif.C04
open LtVerif B

/-! ## framing: the length the response declares is true and its end can be determined -/

/-- **Framing soundness.**  For every response descriptor a well-behaved handler can leave behind
    (any status >= 200, method, HTTP version, finished or streaming, any header set without a
    transfer coding of its own, any body and any sequence of streamed pieces), read the final header
    fields the way RFC 9112 §6.3 tells a client to (`rfcFraming`), and split the bytes that follow
    the header section accordingly (`rfcBody`), with arbitrary bytes `next` of a following response
    behind them.  Then:
    * the framing is never uninterpretable;
    * if it is "until close", keep-alive is off (the connection is closed after the response) and
      the body is exactly the intended one;
    * otherwise the client recovers exactly the intended body and exactly `next` is left over:
      Content-Length equals the number of body bytes sent, a chunked body is correctly framed and
      terminated, and the next response starts where the client expects it;
    * HEAD, 204, 205 and 304 responses put no body bytes on the wire; a 204 has no Content-Length;
    * the status is the handler's and the response is complete. -/
theorem c04_framing_sound (d : RespIn) (date next : Bytes) (h : HandlerSane d) :
    (respond d date).status = d.status ∧ (respond d date).finished = true ∧
    rfcFraming (decide (d.meth = .head)) (respond d date).status (respond d date).hdrs ≠ .invalid ∧
    (rfcFraming (decide (d.meth = .head)) (respond d date).status (respond d date).hdrs = .close →
      (respond d date).keepAlive = false ∧
      rfcBody .close (respond d date).body = some (intendedBody d, [])) ∧
    (rfcFraming (decide (d.meth = .head)) (respond d date).status (respond d date).hdrs ≠ .close →
      rfcBody (rfcFraming (decide (d.meth = .head)) (respond d date).status (respond d date).hdrs)
        ((respond d date).body ++ next) = some (intendedBody d, next)) ∧
    ((d.meth = .head ∨ isBodiless d.status = true) → (respond d date).body = []) ∧
    (d.status = 204 → Hdrs.has (respond d date).hdrs nContentLength = false) := by
  have := framing_sound_core d date next h
  unfold FramingGoal at this
  simp only [] at this
  obtain ⟨h1, h2, h3, h4, h5, h6, h7⟩ := this
  refine ⟨h1, h2, h3, ?_, h5, h6, h7⟩
  intro hc
  have := h4 hc
  rw [hc] at this
  exact this

/-- **Neither length nor chunking ⇒ connection close — unconditionally.**  For EVERY descriptor (no
    assumption on what the handler declared), if the final header fields carry no Content-Length,
    no Transfer-Encoding and no Upgrade, and the response is one that can have a body (not HEAD,
    not 204/205/304, not a successful CONNECT), then keep-alive is off: the client can determine
    the end of the message because the server closes the connection after it. -/
theorem c04_undelimited_closes (d : RespIn) (date : Bytes) (hm : d.meth ≠ .head)
    (hb : isBodiless d.status = false) (hnt : ¬ (d.meth = .connect ∧ d.status = 200))
    (hcl : Hdrs.has (respond d date).hdrs nContentLength = false)
    (hte : Hdrs.has (respond d date).hdrs nTransferEncoding = false)
    (hup : Hdrs.has (respond d date).hdrs nUpgrade = false) : (respond d date).keepAlive = false :=
  undelimited_closes d date hm hb hnt hcl hte hup

/-- **No body for HEAD / 204 / 205 / 304 — unconditionally.**  Whatever the handler queued,
    declared or streams later (no assumption on the descriptor at all), such a response consists of
    its header section only. -/
theorem c04_bodiless_no_body (d : RespIn) (date : Bytes)
    (h : d.meth = .head ∨ isBodiless d.status = true) : (respond d date).body = [] := by
  have hfin : (writePrepare d).body = [] ∧ (writePrepare d).finished = true := by
    unfold writePrepare wpHead
    by_cases hm : d.meth = .head
    · simp [hm, bodyClear]
    · simp only [hm, if_false]
      have hb : isBodiless d.status = true := h.resolve_left hm
      have hcases : d.status = 204 ∨ d.status = 205 ∨ d.status = 304 := by
        simp only [isBodiless, Bool.or_eq_true, decide_eq_true_eq] at hb
        rcases hb with (h1 | h1) | h1
        · exact Or.inl h1
        · exact Or.inr (Or.inl h1)
        · exact Or.inr (Or.inr h1)
      have hst : (wpStatus d).body = [] ∧ (wpStatus d).finished = true := by
        rcases hcases with h1 | h1 | h1
        · rw [wpStatus_2045 d (Or.inl h1)]; exact ⟨rfl, rfl⟩
        · rw [wpStatus_2045 d (Or.inr h1)]; exact ⟨rfl, rfl⟩
        · rw [wpStatus_304 d h1]; exact ⟨rfl, rfl⟩
      unfold wpFraming
      simp only [hst.2, if_true, hst.1, List.length_nil, gt_iff_lt, Nat.lt_irrefl, if_false]
      repeat' split
      all_goals first
        | exact ⟨hst.1, hst.2⟩
        | exact ⟨rfl, rfl⟩
  unfold respond
  simp [hfin.1, hfin.2]

/-- the header section of an interim (1xx) response is everything `send1xx` writes: it ends with
    the empty line, and there is nothing after it -/
theorem c04_interim_is_head_only (status : Nat) (hs : List Hdr) (h : HdrsClean hs) :
    ∃ lines : List Bytes, (∀ l ∈ lines, NoCRLF l) ∧
      splitOn lf (send1xx status hs) = lines.map (· ++ [cr]) ++ [[cr], []] := by
  refine ⟨_, ?_, splitOn_renderHead _ ?_⟩
  · intro l hl
    rcases List.mem_cons.mp hl with rfl | hl
    · exact NoCRLF.append ⟨by decide, by decide⟩ (statusText_clean status)
    · obtain ⟨x, hx, rfl⟩ := List.mem_map.mp hl
      have hx' := (List.mem_filter.mp hx).1
      unfold renderField
      exact ((h x hx').1.append ⟨by decide, by decide⟩).append (h x hx').2
  · intro l hl
    rcases List.mem_cons.mp hl with rfl | hl
    · exact (NoCRLF.append ⟨by decide, by decide⟩ (statusText_clean status)).2
    · obtain ⟨x, hx, rfl⟩ := List.mem_map.mp hl
      have hx' := (List.mem_filter.mp hx).1
      unfold renderField
      exact (((h x hx').1.append ⟨by decide, by decide⟩).append (h x hx').2).2

/-! ## chunked bodies -/

/-- **Chunked round trip.**  Whatever pieces a handler appends with http_chunk_append_*() (empty
    pieces included) and closes with http_chunk_close(), the RFC 9112 §7.1 decoder automaton
    (Model/H1Chunked: any limits-free configuration) ends in its final state having produced
    exactly the concatenation of the pieces, consumed exactly the encoding (`after` counts the
    bytes `next` that follow it) and seen no error. -/
theorem c04_chunked_roundtrip (cfg : CkCfg) (hcfg : cfg.maxSize = 0) (hmf : cfg.maxField ≥ 1026)
    (pieces : List Bytes) (next : Bytes) (hsz : ∀ p ∈ pieces, chunkSizeOk p.length) :
    ckFeed cfg {} (chunkStream true pieces true ++ next)
      = { mode := .done, out := pieces.flatten, ka := true, after := next.length } := by
  simpa using ckFeed_chunkStream cfg hcfg hmf next pieces [] hsz

/-- the same including the first chunk that http_response_write_prepare() wraps around what was
    already queued when it switched the response to chunked (its size line has leading zeros) -/
theorem c04_chunked_roundtrip_with_first (queued : Bytes) (pieces : List Bytes) (next : Bytes)
    (hq : chunkSizeOk queued.length) (hsz : ∀ p ∈ pieces, chunkSizeOk p.length) :
    rfcBody .chunked (chunkFirst queued ++ chunkStream true pieces true ++ next)
      = some (queued ++ pieces.flatten, next) :=
  rfcBody_chunked queued pieces next hq hsz

/-- every chunk-size line the encoder writes is accepted by the decoder with exactly that size -/
theorem c04_chunk_size_line_exact (n : Nat) (h : chunkSizeOk n) :
    ckParseLine (chunkLenLine n) = .ok n ∧ ckParseLine (hexBytesLc n ++ [cr, lf]) = .ok n :=
  ⟨(goodLine_chunkLenLine n h).parse, (goodLine_hexBytes n h).parse⟩

/-- a body that is not chunked is passed through untouched -/
theorem c04_unchunked_is_identity (pieces : List Bytes) :
    chunkStream false pieces true = pieces.flatten :=
  chunkStream_plain pieces

/-! ## partial writes -/

/-- **chunkqueue_mark_written() is exact**: after `n` bytes are reported written, the queue stands
    for exactly the old byte string minus its first `n` bytes (any chunk layout, any `n`). -/
theorem c04_mark_written_exact (q : Cq) (n : Nat) (h : CqWF q) :
    cqFlat (markWritten q n) = (cqFlat q).drop n ∧ CqWF (markWritten q n) :=
  ⟨markWritten_flat q n h, markWritten_WF q n h⟩

/-- **One call of the network backend** (writev or sendfile flavour, any `max_bytes`, any state of
    the queue, any schedule of write/writev/sendfile results: full, short, 0, EAGAIN, EINTR,
    EPIPE, ECONNRESET, EINVAL with the sendfile fallback, EIO): the bytes accepted by the socket so
    far followed by the bytes still queued never change; `bytes_out` counts exactly the accepted
    bytes; accepted bytes are only ever appended. -/
theorem c04_network_write_exact (b : Backend) (st : NwSt) (maxBytes : Nat) (h : CqWF st.q) :
    (networkWrite b st maxBytes).2.acc ++ cqFlat (networkWrite b st maxBytes).2.q = st.acc ++ cqFlat st.q ∧
    (networkWrite b st maxBytes).2.out + st.acc.length = st.out + (networkWrite b st maxBytes).2.acc.length ∧
    (∃ t, (networkWrite b st maxBytes).2.acc = st.acc ++ t) ∧
    CqWF (networkWrite b st maxBytes).2.q := by
  have := networkWrite_inv b st maxBytes h
  exact ⟨this.bytes, this.out, this.ext, this.wf⟩

/-- **Partial writes are exact over the whole life of a response.**  Start with a message queued in
    any layout of memory and file chunks and call the backend again and again (as
    connection_handle_write() does on every writable event), under EVERY schedule of write results.
    At every point the bytes the socket has accepted are a prefix of the queued message, what is
    still queued is exactly the rest, `bytes_out` is the prefix length, and once the queue is empty
    the socket has received exactly the message: nothing lost, duplicated or reordered. -/
theorem c04_partial_write_exact (b : Backend) (maxBytes : Nat) (q : Cq) (sched : List WrRes) (h : CqWF q) :
    let r := (drive b maxBytes { q := q, sched := sched }).2.2
    r.acc ++ cqFlat r.q = cqFlat q ∧ r.out = r.acc.length ∧
    (r.q = [] → r.acc = cqFlat q) := by
  intro r
  have hr : r = (driveGo b maxBytes (sched.length + q.length + 2) 0 0 { q := q, sched := sched }).2.2 := rfl
  have inv := driveGo_inv b maxBytes (sched.length + q.length + 2) 0 0 { q := q, sched := sched } h
  rw [← hr] at inv
  have hb := inv.bytes
  have ho := inv.out
  simp only [List.nil_append, List.length_nil, Nat.add_zero, Nat.zero_add] at hb ho
  refine ⟨hb, ho, ?_⟩
  intro he
  rw [he] at hb
  simpa [cqFlat] using hb

/-! ## no CR / LF from request-derived data -/

/-- **The URL encoders cannot emit CR, LF, NUL or even a space.**  For every byte string,
    buffer_append_string_encoded() with ENCODING_REL_URI / ENCODING_REL_URI_PART (tables extracted
    from buffer.c on every run) yields printable non-space ASCII only. -/
theorem c04_no_crlf_injection (enc : Nat) (henc : enc < 2) (s : Bytes) :
    ∀ x ∈ encodeStr enc s, 0x21 ≤ x ∧ x ≤ 0x7e ∧ x ≠ cr ∧ x ≠ lf ∧ x ≠ 0 := by
  intro x hx
  unfold encodeStr at hx
  obtain ⟨b, _, hxb⟩ := List.mem_flatMap.mp hx
  have := encodeByte_rel_printable enc henc b x hxb
  refine ⟨this.1, this.2, ?_, ?_, ?_⟩
  · intro e; subst e; exact absurd this.1 (by decide)
  · intro e; subst e; exact absurd this.1 (by decide)
  · intro e; subst e; exact absurd this.1 (by decide)

/-- the HTML / XML encoders let no control character through either -/
theorem c04_entity_encoding_no_ctl (enc : Nat) (henc : enc < 4) (s : Bytes) :
    ∀ x ∈ encodeStr enc s, 0x20 ≤ x ∧ x ≠ 0x7f := by
  intro x hx
  unfold encodeStr at hx
  obtain ⟨b, _, hxb⟩ := List.mem_flatMap.mp hx
  exact encodeByte_no_ctl enc henc b x hxb

/-- **Directory redirect.**  The Location value of http_response_redirect_to_directory() carries
    no CR, LF or NUL for ANY request path (raw, decoded, with or without control bytes), provided
    the authority and the query string have none (they are checked by the request parser: C01/C02). -/
theorem c04_redirect_location_clean (pfx path query : Bytes)
    (hp : ∀ x ∈ pfx, x ≠ cr ∧ x ≠ lf ∧ x ≠ 0) (hq : ∀ x ∈ query, x ≠ cr ∧ x ≠ lf ∧ x ≠ 0) :
    ∀ x ∈ redirectLocation pfx path query, x ≠ cr ∧ x ≠ lf ∧ x ≠ 0 := by
  intro x hx
  unfold redirectLocation at hx
  rcases List.mem_append.mp hx with h1 | h1
  · rcases List.mem_append.mp h1 with h2 | h2
    · rcases List.mem_append.mp h2 with h3 | h3
      · exact hp x h3
      · exact (c04_no_crlf_injection 0 (by decide) path x h3).2.2
    · simp at h2; subst h2; decide
  · split at h1
    · simp at h1
    · rcases List.mem_cons.mp h1 with rfl | h2
      · decide
      · exact hq x h2

/-- **Decoded paths.**  buffer_urldecode_path() never produces a control character: a request
    target without raw control bytes decodes to a path without any (%0d, %0a, %00 … become '_'). -/
theorem c04_decoded_path_no_ctl (s : Bytes) (h : ∀ b ∈ s, 32 ≤ b ∧ b ≠ 127) :
    ∀ b ∈ urldecodePath s, 32 ≤ b ∧ b ≠ 127 :=
  urldecodePath_printable s h

/-- **The header section is exactly its lines.**  If no field the handler set contains CR or LF
    (for request-derived values that is what the three theorems above give), then for every
    descriptor the serialised header section splits at LF into exactly: the status line, one line
    per visible field, Date, Server — each ending in CR and containing no other CR or LF — then
    the empty line, then nothing.  No extra header line and no second response can appear. -/
theorem c04_header_section_exact (d : RespIn) (date : Bytes) (hc : HdrsClean d.hdrs) (hd : NoCRLF date)
    (ht : ∀ t, d.serverTag = some t → NoCRLF t) :
    (∀ l ∈ headLines d.ver11 (respond d date).status (respond d date).hdrs date d.serverTag, NoCRLF l) ∧
    splitOn lf (respond d date).head
      = (headLines d.ver11 (respond d date).status (respond d date).hdrs date d.serverTag).map (· ++ [cr])
        ++ [[cr], []] := by
  have hclean := headLines_clean d.ver11 (respond d date).status (respond d date).hdrs date d.serverTag
    (respond_hdrs_clean d date hc) hd ht
  refine ⟨hclean, ?_⟩
  have : (respond d date).head
      = renderHead (headLines d.ver11 (respond d date).status (respond d date).hdrs date d.serverTag) := rfl
  rw [this]
  exact splitOn_renderHead _ (fun l hl => (hclean l hl).2)

/-! ## non-vacuity: concrete instances -/

/-- a static-file style response: finished, handler-declared Content-Length -/
def exStatic : RespIn :=
  { status := 200, hdrs := [⟨ofString "Content-Length", ofString "5"⟩], queued := ofString "hello" }

/-- a streamed HTTP/1.1 response: nothing declared, two pieces -/
def exStream : RespIn :=
  { status := 200, finished := false, queued := ofString "he", pieces := [ofString "llo", [], ofString "!"] }

example : HandlerSane exStatic :=
  ⟨by decide, by decide, by decide, by decide,
   by intro _ _ v hv _; simp [exStatic, Hdrs.get, Hdrs.sameName, eqIcase] at hv; obtain ⟨_, rfl⟩ := hv; decide,
   rfl, ⟨by unfold chunkSizeOk; decide, by intro p hp; simp [exStatic] at hp⟩⟩

example : HandlerSane exStream :=
  ⟨by decide, by decide, by decide, by decide,
   by intro _ _ v hv; simp [exStream, Hdrs.get] at hv,
   rfl, ⟨by unfold chunkSizeOk; decide,
         by intro p hp; simp [exStream] at hp; rcases hp with rfl | rfl | rfl <;> (unfold chunkSizeOk; decide)⟩⟩

example : rfcFraming false 200 (respond exStatic []).hdrs = .length 5 := by decide
example : rfcFraming false 200 (respond exStream []).hdrs = .chunked := by decide
example : (respond exStream []).body = ofString "02\r\nhe\r\n3\r\nllo\r\n1\r\n!\r\n0\r\n\r\n" := by decide
example : rfcFraming false 200 (respond { exStream with ver11 := false } []).hdrs = .close ∧
    (respond { exStream with ver11 := false } []).keepAlive = false := by decide
example : (respond { exStatic with meth := .head } []).body = [] := by decide
example : Hdrs.has (respond { exStream with ver11 := false } []).hdrs nContentLength = false ∧
    Hdrs.has (respond { exStream with ver11 := false } []).hdrs nTransferEncoding = false := by decide
example : chunkStream true [ofString "abc", [], ofString "0123456789abcdef0"] true
    = ofString "3\r\nabc\r\n11\r\n0123456789abcdef0\r\n0\r\n\r\n" := by decide
example : chunkSizeOk 1048577 := by unfold chunkSizeOk; decide

/-- a queue of a memory chunk, a partly sent file chunk and another memory chunk -/
def exQ : Cq := [.mem (ofString "HTTP/1.1 200 OK\r\n\r\n") 0, .file (ofString "0123456789") 2 9, .mem (ofString "tail") 1]

example : CqWF exQ := by
  intro c hc
  simp [exQ] at hc
  rcases hc with rfl | rfl | rfl <;> simp [Chunk.WF, ofString]
example : (drive .sendfile 262144 { q := exQ, sched := [.ok 5, .eagain, .ok 100, .eintr, .ok 3, .einval, .ok 2, .ok 100, .ok 100] }).2.2.acc
    = ofString "HTTP/1.1 200 OK\r\n\r\n2345678ail" := by decide
example : encodeStr 0 (ofString "/a b\r\nSet-Cookie: x") = ofString "/a%20b%0D%0ASet-Cookie%3A%20x" := by decide
example : urldecodePath (ofString "/a%0d%0aX:%20y") = ofString "/a__X: y" := by decide
example : HdrsClean exStatic.hdrs := by
  intro h hh
  simp [exStatic] at hh
  subst hh
  exact ⟨⟨by decide, by decide⟩, ⟨by decide, by decide⟩⟩

end LtVerif.C04
