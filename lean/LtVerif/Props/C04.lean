/-
  C04 — every HTTP/1.x response is well-formed, correctly delimited and byte-exact.
  Property theorems only; helper lemmas live in LtVerif/Proofs/{H1Resp,HttpChunkEnc,NetWrite}.lean.

  Models: Model/H1Resp.lean (http_response_write_prepare, h1_send_headers, encoders, and the
  reference side written from RFC 9112: `wireDecode` on the bytes, `rfcFraming` / `rfcBody` /
  `rfcDechunk`), Model/HttpChunkEnc.lean (http_chunk.c), Model/NetWrite.lean (network_write.c over
  a chunk queue with a write-result schedule), Model/H1End.lean (connection_handle_response_end_state,
  connection_handle_shutdown / connection_close and the re-entry of connection_state_machine_loop for the
  next pipelined request).  What is NOT here: READ / HANDLE_REQUEST of the state machine (which request
  produces which descriptor), the lingering close (C13).
-/
import LtVerif.Proofs.H1Resp
import LtVerif.Proofs.NetWrite
import LtVerif.Proofs.H1End
namespace LtVerif.C04
open LtVerif B

/-! ## framing: the length the response declares is true and its end can be determined -/

/-- **Framing soundness.**  For every response descriptor a well-behaved handler can leave behind
    (any status >= 200, method, HTTP version, finished or streaming, any header set without a
    transfer coding of its own, any body and any sequence of streamed pieces), read the final header
    fields the way RFC 9112 §6.3 tells a client to (`rfcFraming`), and split the bytes that follow
    the header section accordingly (`rfcBody`), with arbitrary bytes `next` of a following response
    behind them.  Then:
    * the framing is never uninterpretable;
    * if it is "until close", keep-alive is off (the connection is closed after the response) and
      the body is exactly the intended one;
    * otherwise the client recovers exactly the intended body and exactly `next` is left over:
      Content-Length equals the number of body bytes sent, a chunked body is correctly framed and
      terminated, and the next response starts where the client expects it;
    * HEAD, 204, 205 and 304 responses put no body bytes on the wire; a 204 has no Content-Length;
    * the status is the handler's and the response is complete. -/
theorem c04_framing_sound (d : RespIn) (date next : Bytes) (h : HandlerSane d) :
    (respond d date).status = d.status ∧ (respond d date).finished = true ∧
    rfcFraming (decide (d.meth = .head)) (respond d date).status (respond d date).hdrs ≠ .invalid ∧
    (rfcFraming (decide (d.meth = .head)) (respond d date).status (respond d date).hdrs = .close →
      (respond d date).keepAlive = false ∧
      rfcBody .close (respond d date).body = some (intendedBody d, [])) ∧
    (rfcFraming (decide (d.meth = .head)) (respond d date).status (respond d date).hdrs ≠ .close →
      rfcBody (rfcFraming (decide (d.meth = .head)) (respond d date).status (respond d date).hdrs)
        ((respond d date).body ++ next) = some (intendedBody d, next)) ∧
    ((d.meth = .head ∨ isBodiless d.status = true) → (respond d date).body = []) ∧
    (d.status = 204 → Hdrs.has (respond d date).hdrs nContentLength = false) := by
  have := framing_sound_core d date next h
  unfold FramingGoal at this
  simp only [] at this
  obtain ⟨h1, h2, h3, h4, h5, h6, h7⟩ := this
  refine ⟨h1, h2, h3, ?_, h5, h6, h7⟩
  intro hc
  have := h4 hc
  rw [hc] at this
  exact this

/-- **What the client reads off the wire.**  Take the bytes lighttpd queues for a response (header
    section, then body) and hand them to a client written from RFC 9112 (`wireDecode`: header section
    up to the first empty line, status line, EVERY `name: value` line — so two differing
    Content-Length fields would be seen and rejected — §6.3, §7.1).  For every well-behaved
    descriptor with CR/LF-free, colon-free, pairwise different field names: either the client gets
    status, fields and exactly the intended body and is left with exactly the bytes `next` of the
    following response (self-delimiting: Content-Length true / chunked framed and terminated /
    no body), or the message is close-delimited, the body is exactly the intended one and
    keep-alive is off. -/
theorem c04_wire_decode_exact (d : RespIn) (date next : Bytes) (h : HandlerSane d) (h1000 : d.status < 1000)
    (hk : KeysOk d.hdrs) (hc : HdrsClean d.hdrs) (hd : NoCRLF date)
    (ht : ∀ t, d.serverTag = some t → NoCRLF t) :
    (∃ fs, wireDecode (decide (d.meth = .head)) ((respond d date).head ++ ((respond d date).body ++ next))
        = some (d.status, fs, intendedBody d, next)) ∨
    ((respond d date).keepAlive = false ∧
      ∃ fs, wireDecode (decide (d.meth = .head)) ((respond d date).head ++ (respond d date).body)
        = some (d.status, fs, intendedBody d, [])) := by
  have core := framing_sound_core d date next h
  unfold FramingGoal at core
  simp only [] at core
  obtain ⟨hst, _, _, hclose, hopen, _, _⟩ := core
  have hso : StoreOk d.hdrs := ⟨h.noDup, hk⟩
  have h100 : 100 ≤ d.status := by have := h.status; omega
  by_cases hf : rfcFraming (decide (d.meth = .head)) (respond d date).status (respond d date).hdrs = .close
  · right
    obtain ⟨hka, hb⟩ := hclose hf
    refine ⟨hka, (headFields (respond d date).hdrs date d.serverTag).map (fun f => (f.1, ltrim f.2)), ?_⟩
    rw [wireDecode_head d date _ _ h100 h1000 hso hc hd ht, hb, hst]
    rfl
  · left
    refine ⟨(headFields (respond d date).hdrs date d.serverTag).map (fun f => (f.1, ltrim f.2)), ?_⟩
    rw [wireDecode_head d date _ _ h100 h1000 hso hc hd ht, hopen hf, hst]
    rfl

/-- **One entry per field name.**  Every operation of the response header store
    (http_header_response_set / _unset / _insert / _append) and the whole response path keep the
    store free of duplicate names (and names non-empty, colon-free), starting from the empty store:
    the reachable-state invariant behind `HandlerSane.noDup` and `c04_wire_decode_exact`; in
    particular lighttpd never emits two Content-Length fields or Content-Length next to its own
    Transfer-Encoding. -/
theorem c04_store_names_unique :
    StoreOk [] ∧
    (∀ hs k v, StoreOk hs → k ≠ [] ∧ colon ∉ k → StoreOk (Hdrs.set hs k v)) ∧
    (∀ hs k, StoreOk hs → StoreOk (Hdrs.unset hs k)) ∧
    (∀ hs k v, StoreOk hs → k ≠ [] ∧ colon ∉ k → StoreOk (Hdrs.insert hs k v)) ∧
    (∀ hs k v, StoreOk hs → k ≠ [] ∧ colon ∉ k → StoreOk (Hdrs.append hs k v)) ∧
    (∀ d date, StoreOk d.hdrs → StoreOk (respond d date).hdrs) :=
  ⟨storeOk_nil, fun _ k v h hk => storeOk_set k v h hk, fun _ k h => storeOk_unset k h,
   fun _ k v h hk => storeOk_insert k v h hk, fun _ k v h hk => storeOk_append k v h hk,
   fun d date h => respond_storeOk d date h⟩

/-- **Neither length nor chunking ⇒ connection close — unconditionally.**  For EVERY descriptor (no
    assumption on what the handler declared), if the final header fields carry no Content-Length,
    no Transfer-Encoding and no Upgrade, and the response is one that can have a body (not HEAD,
    not 204/205/304, not a successful CONNECT), then keep-alive is off: the client can determine
    the end of the message because the server closes the connection after it. -/
theorem c04_undelimited_closes (d : RespIn) (date : Bytes) (hm : d.meth ≠ .head)
    (hb : isBodiless d.status = false) (hnt : ¬ (d.meth = .connect ∧ d.status = 200))
    (hcl : Hdrs.has (respond d date).hdrs nContentLength = false)
    (hte : Hdrs.has (respond d date).hdrs nTransferEncoding = false)
    (hup : Hdrs.has (respond d date).hdrs nUpgrade = false) : (respond d date).keepAlive = false :=
  undelimited_closes d date hm hb hnt hcl hte hup

/-- **No body for HEAD / 204 / 205 / 304 — unconditionally.**  Whatever the handler queued,
    declared or streams later (no assumption on the descriptor at all), such a response consists of
    its header section only. -/
theorem c04_bodiless_no_body (d : RespIn) (date : Bytes)
    (h : d.meth = .head ∨ isBodiless d.status = true) : (respond d date).body = [] := by
  have hfin : (writePrepare d).body = [] ∧ (writePrepare d).finished = true := by
    unfold writePrepare wpHead
    by_cases hm : d.meth = .head
    · simp [hm, bodyClear]
    · simp only [hm, if_false]
      have hb : isBodiless d.status = true := h.resolve_left hm
      have hcases : d.status = 204 ∨ d.status = 205 ∨ d.status = 304 := by
        simp only [isBodiless, Bool.or_eq_true, decide_eq_true_eq] at hb
        rcases hb with (h1 | h1) | h1
        · exact Or.inl h1
        · exact Or.inr (Or.inl h1)
        · exact Or.inr (Or.inr h1)
      have hst : (wpStatus d).body = [] ∧ (wpStatus d).finished = true := by
        rcases hcases with h1 | h1 | h1
        · rw [wpStatus_2045 d (Or.inl h1)]; exact ⟨rfl, rfl⟩
        · rw [wpStatus_2045 d (Or.inr h1)]; exact ⟨rfl, rfl⟩
        · rw [wpStatus_304 d h1]; exact ⟨rfl, rfl⟩
      unfold wpFraming
      simp only [hst.2, if_true, hst.1, List.length_nil, gt_iff_lt, Nat.lt_irrefl, if_false]
      repeat' split
      all_goals first
        | exact ⟨hst.1, hst.2⟩
        | exact ⟨rfl, rfl⟩
  unfold respond
  simp [hfin.1, hfin.2]

/-- **An interim (1xx) response is a header section and nothing else**, also when fields are
    repeated (`FieldsOk`: what http_header_response_insert() builds): what h1_send_1xx() writes
    splits at LF into CR-terminated, non-empty lines without stray CR/LF, then the empty line,
    then nothing. -/
theorem c04_interim_is_head_only (status : Nat) (hs : List Hdr) (h : FieldsOk hs) :
    ∃ lines : List Bytes, (∀ l ∈ lines, NoCRLF l ∧ l ≠ []) ∧
      splitOn lf (send1xx status hs) = lines.map (· ++ [cr]) ++ [[cr], []] := by
  have hall : ∀ l ∈ (ofString "HTTP/1.1 " ++ statusText status)
        :: (hs.filter fun h => !h.key.isEmpty && !h.value.isEmpty).map renderField,
      ∃ ps : List Bytes, l ++ [cr, lf] = ps.flatMap (· ++ [cr, lf]) ∧ ∀ p ∈ ps, NoCRLF p ∧ p ≠ [] := by
    intro l hl
    rcases List.mem_cons.mp hl with rfl | hl
    · refine ⟨[ofString "HTTP/1.1 " ++ statusText status], by simp, ?_⟩
      intro p hp
      simp at hp
      subst hp
      have hpre : NoCRLF (ofString "HTTP/1.1 ") := ⟨by decide, by decide⟩
      exact ⟨hpre.append (statusText_clean status), by simp [ofString]⟩
    · obtain ⟨x, hx, rfl⟩ := List.mem_map.mp hl
      have hx' := (List.mem_filter.mp hx).1
      exact (h x hx').2.pieces (h x hx').1
  obtain ⟨phys, hphys, hP⟩ := lines_pieces (fun p => NoCRLF p ∧ p ≠ []) _ hall
  refine ⟨phys, hP, ?_⟩
  have : send1xx status hs = renderHead phys := by
    unfold send1xx renderHead; rw [hphys]
  rw [this]
  exact splitOn_renderHead phys (fun l hl => (hP l hl).1.2)

/-! ## chunked bodies -/

/-- **Chunked round trip against an independent decoder.**  Whatever pieces a handler appends with
    http_chunk_append_*() (empty pieces included) and closes with http_chunk_close(), the RFC 9112
    §7.1 reference decoder `rfcDechunk` (written from the grammar: hex size, optional extension up
    to CRLF, data, CRLF, last-chunk, trailer section) returns exactly the concatenation of the
    pieces and exactly the bytes `next` that follow the encoding. -/
theorem c04_chunked_roundtrip (pieces : List Bytes) (next : Bytes) (hsz : ∀ p ∈ pieces, chunkSizeOk p.length) :
    rfcBody .chunked (chunkStream true pieces true ++ next) = some (pieces.flatten, next) := by
  have := rfcBody_chunked [] pieces next (by unfold chunkSizeOk; decide) hsz
  simpa [chunkFirst] using this

/-- the same including the first chunk that http_response_write_prepare() wraps around what was
    already queued when it switched the response to chunked (its size line has leading zeros) -/
theorem c04_chunked_roundtrip_with_first (queued : Bytes) (pieces : List Bytes) (next : Bytes)
    (hq : chunkSizeOk queued.length) (hsz : ∀ p ∈ pieces, chunkSizeOk p.length) :
    rfcBody .chunked (chunkFirst queued ++ chunkStream true pieces true ++ next)
      = some (queued ++ pieces.flatten, next) :=
  rfcBody_chunked queued pieces next hq hsz

/-- second opinion: lighttpd's own request-side decoder automaton (Model/H1Chunked, validated
    against h1_chunked() by C01) reads the same encoding back the same way -/
theorem c04_chunked_roundtrip_own_decoder (cfg : CkCfg) (hcfg : cfg.maxSize = 0) (hmf : cfg.maxField ≥ 1026)
    (pieces : List Bytes) (next : Bytes) (hsz : ∀ p ∈ pieces, chunkSizeOk p.length) :
    ckFeed cfg {} (chunkStream true pieces true ++ next)
      = { mode := .done, out := pieces.flatten, ka := true, after := next.length } := by
  simpa using ckFeed_chunkStream cfg hcfg hmf next pieces [] hsz

/-- **The one place where an announced chunk length can be false is reported as an error.**
    http_chunk_append_file_fd/_ref() read files of up to 32 KiB into memory for a chunked response
    (http_chunk_append_read_fd_range): the size line announces `sz`; if the file has shrunk since it
    was sized, fewer bytes follow.  The model returns rc = -1 exactly then, and whenever rc = 0 what
    was queued decodes to the first `sz` bytes of the file. -/
theorem c04_short_read_reported (content : Bytes) (sz : Nat) (hsz : chunkSizeOk sz) :
    ((chunkAppendWholeFile true content sz).2 = 0 ↔ (sz ≤ content.length ∨ sz > 32768)) ∧
    ((chunkAppendWholeFile true content sz).2 = 0 → sz ≤ content.length →
      rfcBody .chunked ((chunkAppendWholeFile true content sz).1 ++ chunkClose true)
        = some (content.take sz, [])) := by
  have hlen : ((content.take sz).length = sz) ↔ sz ≤ content.length := by
    simp only [List.length_take]; omega
  constructor
  · unfold chunkAppendWholeFile chunkAppendReadFd
    by_cases hbig : sz > 32768
    · simp [hbig]
    · by_cases h0 : sz = 0
      · simp [hbig, h0]
      · simp only [hbig, decide_false, Bool.not_true, Bool.or_self, Bool.false_eq_true, if_false, h0,
          List.drop_zero, hlen, or_false]
        split <;> simp_all
  · intro _ hle
    have htake : (content.take sz).length = sz := hlen.mpr hle
    have hsz' : chunkSizeOk (content.take sz).length := by rw [htake]; exact hsz
    have hrt := c04_chunked_roundtrip [content.take sz] [] (by intro p hp; simp at hp; subst hp; exact hsz')
    have hq : (chunkAppendWholeFile true content sz).1 = chunkAppend true (content.take sz) := by
      unfold chunkAppendWholeFile chunkAppendReadFd
      by_cases hbig : sz > 32768
      · simp [hbig]
      · by_cases h0 : sz = 0
        · subst h0; simp [chunkAppend]
        · have hne : (content.take sz).isEmpty = false := by
            cases hh : content.take sz with
            | nil => rw [hh] at htake; simp at htake; omega
            | cons _ _ => rfl
          simp [hbig, h0, chunkAppend, hne, htake]
    rw [hq]
    simpa [chunkStream] using hrt

/-- every chunk-size line the encoder writes is accepted by the decoder with exactly that size -/
theorem c04_chunk_size_line_exact (n : Nat) (h : chunkSizeOk n) :
    ckParseLine (chunkLenLine n) = .ok n ∧ ckParseLine (hexBytesLc n ++ [cr, lf]) = .ok n :=
  ⟨(goodLine_chunkLenLine n h).parse, (goodLine_hexBytes n h).parse⟩

/-- a body that is not chunked is passed through untouched -/
theorem c04_unchunked_is_identity (pieces : List Bytes) :
    chunkStream false pieces true = pieces.flatten :=
  chunkStream_plain pieces

/-! ## partial writes -/

/-- **chunkqueue_mark_written() is exact**: after `n` bytes are reported written, the queue stands
    for exactly the old byte string minus its first `n` bytes (any chunk layout, any `n`). -/
theorem c04_mark_written_exact (q : Cq) (n : Nat) (h : CqWF q) :
    cqFlat (markWritten q n) = (cqFlat q).drop n ∧ CqWF (markWritten q n) :=
  ⟨markWritten_flat q n h, markWritten_WF q n h⟩

/-- **One call of the network backend** (writev or sendfile flavour, any `max_bytes`, any state of
    the queue, any schedule of write/writev/sendfile results: full, short, 0, EAGAIN, EINTR,
    EPIPE, ECONNRESET, EINVAL with the sendfile fallback, EIO): the bytes accepted by the socket so
    far followed by the bytes still queued never change; `bytes_out` counts exactly the accepted
    bytes; accepted bytes are only ever appended. -/
theorem c04_network_write_exact (b : Backend) (st : NwSt) (maxBytes : Nat) (h : CqWF st.q) :
    (networkWrite b st maxBytes).2.acc ++ cqFlat (networkWrite b st maxBytes).2.q = st.acc ++ cqFlat st.q ∧
    (networkWrite b st maxBytes).2.out + st.acc.length = st.out + (networkWrite b st maxBytes).2.acc.length ∧
    (∃ t, (networkWrite b st maxBytes).2.acc = st.acc ++ t) ∧
    CqWF (networkWrite b st maxBytes).2.q := by
  have := networkWrite_inv b st maxBytes h
  exact ⟨this.bytes, this.out, this.ext, this.wf⟩

/-- **Partial writes are exact over the whole life of a response.**  Start with a message queued in
    any layout of memory and file chunks and call the backend again and again (as
    connection_handle_write() does on every writable event), under EVERY schedule of write results.
    At every point the bytes the socket has accepted are a prefix of the queued message, what is
    still queued is exactly the rest, `bytes_out` is the prefix length, and once the queue is empty
    the socket has received exactly the message: nothing lost, duplicated or reordered. -/
theorem c04_partial_write_exact (b : Backend) (maxBytes : Nat) (q : Cq) (sched : List WrRes) (h : CqWF q) :
    let r := (drive b maxBytes { q := q, sched := sched }).2.2
    r.acc ++ cqFlat r.q = cqFlat q ∧ r.out = r.acc.length ∧
    (r.q = [] → r.acc = cqFlat q) := by
  intro r
  have hr : r = (driveGo b maxBytes (sched.length + q.length + 2) 0 0 { q := q, sched := sched }).2.2 := rfl
  have inv := driveGo_inv b maxBytes (sched.length + q.length + 2) 0 0 { q := q, sched := sched } h
  rw [← hr] at inv
  have hb := inv.bytes
  have ho := inv.out
  simp only [List.nil_append, List.length_nil, Nat.add_zero, Nat.zero_add] at hb ho
  refine ⟨hb, ho, ?_⟩
  intro he
  rw [he] at hb
  simpa [cqFlat] using hb

/-- **Progress.**  If the socket keeps accepting at least one byte per call (every answer `ok k`,
    k > 0) and there are at least as many answers as queued bytes plus chunks, the writer empties
    the queue, reports no error, and the socket has received exactly the message.  (The bound is
    generous: one answer per byte; it makes the statement independent of `max_bytes`, the iovec
    limit and the 16 KiB read buffer.) -/
theorem c04_write_progress (b : Backend) (maxBytes : Nat) (q : Cq) (sched : List WrRes) (h : CqWF q)
    (hmax : 0 < maxBytes) (hok : AllOkPos sched) (hlen : cqLen q + q.length ≤ sched.length) :
    (drive b maxBytes { q := q, sched := sched }).1 = 0 ∧
    (drive b maxBytes { q := q, sched := sched }).2.2.q = [] ∧
    (drive b maxBytes { q := q, sched := sched }).2.2.acc = cqFlat q := by
  have hp := driveGo_prog b maxBytes hmax (sched.length + q.length + 2) 0 { q := q, sched := sched }
    ⟨h, hok, by unfold meas; exact hlen⟩ (by unfold meas; simp only []; omega)
  have hx := c04_partial_write_exact b maxBytes q sched h
  simp only [] at hx
  exact ⟨hp.1, hp.2, hx.2.2 hp.2⟩

/-- **EINTR, EAGAIN and short counts never end a response.**  Under every schedule that consists
    only of retryable answers (non-empty acceptances, EAGAIN, EINTR — in any order, any number) no
    call of the backend reports an error (rc = 0 throughout), so by `c04_partial_write_exact` the
    response stays intact and continues from where it stopped. -/
theorem c04_retryable_never_aborts (b : Backend) (maxBytes : Nat) (q : Cq) (sched : List WrRes) (h : CqWF q)
    (hmax : 0 < maxBytes) (hr : ∀ r ∈ sched, Retryable r) :
    (drive b maxBytes { q := q, sched := sched }).1 = 0 :=
  driveGo_retry b maxBytes hmax _ 0 { q := q, sched := sched } h hr

/-- **Composition: the response on the socket.**  Queue the message `respond` produces (header
    section ++ body) in ANY chunk layout and run the writer under ANY schedule: what the socket has
    accepted is always a prefix of that message, and under the progress conditions it is the
    message — the bytes `c04_wire_decode_exact` reasons about are the bytes the client receives. -/
theorem c04_response_reaches_socket (d : RespIn) (date : Bytes) (b : Backend) (maxBytes : Nat) (q : Cq)
    (sched : List WrRes) (hq : cqFlat q = (respond d date).head ++ (respond d date).body) (h : CqWF q) :
    (∃ rest, (respond d date).head ++ (respond d date).body
        = (drive b maxBytes { q := q, sched := sched }).2.2.acc ++ rest) ∧
    (0 < maxBytes → AllOkPos sched → cqLen q + q.length ≤ sched.length →
      (drive b maxBytes { q := q, sched := sched }).2.2.acc
        = (respond d date).head ++ (respond d date).body) := by
  have hx := c04_partial_write_exact b maxBytes q sched h
  simp only [] at hx
  refine ⟨⟨_, by rw [← hq]; exact hx.1.symm⟩, ?_⟩
  intro hmax hok hlen
  rw [← hq]
  exact (c04_write_progress b maxBytes q sched h hmax hok hlen).2.2

/-! ## no CR / LF from request-derived data -/

/-- **The URL encoders cannot emit CR, LF, NUL or even a space.**  For every byte string,
    buffer_append_string_encoded() with ENCODING_REL_URI / ENCODING_REL_URI_PART (tables extracted
    from buffer.c on every run) yields printable non-space ASCII only. -/
theorem c04_no_crlf_injection (enc : Nat) (henc : enc < 2) (s : Bytes) :
    ∀ x ∈ encodeStr enc s, 0x21 ≤ x ∧ x ≤ 0x7e ∧ x ≠ cr ∧ x ≠ lf ∧ x ≠ 0 := by
  intro x hx
  unfold encodeStr at hx
  obtain ⟨b, _, hxb⟩ := List.mem_flatMap.mp hx
  have := encodeByte_rel_printable enc henc b x hxb
  refine ⟨this.1, this.2, ?_, ?_, ?_⟩
  · intro e; subst e; exact absurd this.1 (by decide)
  · intro e; subst e; exact absurd this.1 (by decide)
  · intro e; subst e; exact absurd this.1 (by decide)

/-- the HTML / XML encoders let no control character through either -/
theorem c04_entity_encoding_no_ctl (enc : Nat) (henc : enc < 4) (s : Bytes) :
    ∀ x ∈ encodeStr enc s, 0x20 ≤ x ∧ x ≠ 0x7f := by
  intro x hx
  unfold encodeStr at hx
  obtain ⟨b, _, hxb⟩ := List.mem_flatMap.mp hx
  exact encodeByte_no_ctl enc henc b x hxb

/-- **Directory redirect.**  The Location value of http_response_redirect_to_directory() carries
    no CR, LF or NUL for ANY request path (raw, decoded, with or without control bytes), provided
    the authority and the query string have none (they are checked by the request parser: C01/C02). -/
theorem c04_redirect_location_clean (pfx path query : Bytes)
    (hp : ∀ x ∈ pfx, x ≠ cr ∧ x ≠ lf ∧ x ≠ 0) (hq : ∀ x ∈ query, x ≠ cr ∧ x ≠ lf ∧ x ≠ 0) :
    ∀ x ∈ redirectLocation pfx path query, x ≠ cr ∧ x ≠ lf ∧ x ≠ 0 := by
  intro x hx
  unfold redirectLocation at hx
  rcases List.mem_append.mp hx with h1 | h1
  · rcases List.mem_append.mp h1 with h2 | h2
    · rcases List.mem_append.mp h2 with h3 | h3
      · exact hp x h3
      · exact (c04_no_crlf_injection 0 (by decide) path x h3).2.2
    · simp at h2; subst h2; decide
  · split at h1
    · simp at h1
    · rcases List.mem_cons.mp h1 with rfl | h2
      · decide
      · exact hq x h2

/-- **Decoded paths.**  buffer_urldecode_path() never produces a control character: a request
    target without raw control bytes decodes to a path without any (%0d, %0a, %00 … become '_'). -/
theorem c04_decoded_path_no_ctl (s : Bytes) (h : ∀ b ∈ s, 32 ≤ b ∧ b ≠ 127) :
    ∀ b ∈ urldecodePath s, 32 ≤ b ∧ b ≠ 127 :=
  urldecodePath_printable s h

/-- **The header section is exactly its lines.**  If no field the handler set contains CR or LF
    (for request-derived values that is what the three theorems above give), then for every
    descriptor the serialised header section splits at LF into exactly: the status line, one line
    per visible field, Date, Server — each ending in CR and containing no other CR or LF — then
    the empty line, then nothing.  No extra header line and no second response can appear. -/
theorem c04_header_section_exact (d : RespIn) (date : Bytes) (hc : HdrsClean d.hdrs) (hd : NoCRLF date)
    (ht : ∀ t, d.serverTag = some t → NoCRLF t) :
    (∀ l ∈ headLines d.ver11 (respond d date).status (respond d date).hdrs date d.serverTag, NoCRLF l) ∧
    splitOn lf (respond d date).head
      = (headLines d.ver11 (respond d date).status (respond d date).hdrs date d.serverTag).map (· ++ [cr])
        ++ [[cr], []] := by
  have hclean := headLines_clean d.ver11 (respond d date).status (respond d date).hdrs date d.serverTag
    (respond_hdrs_clean d date hc) hd ht
  refine ⟨hclean, ?_⟩
  have : (respond d date).head
      = renderHead (headLines d.ver11 (respond d date).status (respond d date).hdrs date d.serverTag) := rfl
  rw [this]
  exact splitOn_renderHead _ (fun l hl => (hclean l hl).2)

/-- **The same with repeated fields** (Set-Cookie, Link, merged trailers: values of the form
    `v\r\nName: v2` as http_header_response_insert() builds them, `FieldsOk`): the header section
    still splits at LF into CR-terminated, non-empty lines without stray CR or LF, then the empty
    line, then nothing — the first empty line is the end of the header section. -/
theorem c04_header_section_lines (d : RespIn) (date : Bytes) (hso : StoreOk d.hdrs) (hf : FieldsOk d.hdrs)
    (hd : NoCRLF date) (ht : ∀ t, d.serverTag = some t → NoCRLF t) :
    ∃ lines : List Bytes, (∀ l ∈ lines, NoCRLF l ∧ l ≠ []) ∧
      splitOn lf (respond d date).head = lines.map (· ++ [cr]) ++ [[cr], []] := by
  obtain ⟨phys, hphys, hP⟩ := headLines_pieces d.ver11 (respond d date).status (respond d date).hdrs date
    d.serverTag (respond_fieldsOk d date hso hf) hd ht
  refine ⟨phys, hP, ?_⟩
  have : (respond d date).head = renderHead phys := hphys
  rw [this]
  exact splitOn_renderHead phys (fun l hl => (hP l hl).1.2)

/-- `FieldsOk` is what the store operations really guarantee: starting from clean fields, inserting
    a repeated field with a clean name and value keeps it (so `c04_header_section_lines` applies to
    every store built by set / insert / append of CR/LF-free arguments). -/
theorem c04_insert_keeps_fields_ok (hs : List Hdr) (k v : Bytes) (hso : StoreOk hs) (hf : FieldsOk hs)
    (hk : NoCRLF k) (hne : k ≠ []) (hv : NoCRLF v) :
    FieldsOk (Hdrs.insert hs k v) ∧ FieldsOk (Hdrs.set hs k v) ∧ FieldsOk (Hdrs.append hs k v) :=
  ⟨fieldsOk_insert k v hf hso.1 hk hne hv, fieldsOk_set k v hf hk hv, fieldsOk_append k v hf hso.1 hk hv⟩

/-! ## non-vacuity: concrete instances -/

/-- a static-file style response: finished, handler-declared Content-Length -/
def exStatic : RespIn :=
  { status := 200, hdrs := [⟨ofString "Content-Length", ofString "5"⟩], queued := ofString "hello" }

/-- a streamed HTTP/1.1 response: nothing declared, two pieces -/
def exStream : RespIn :=
  { status := 200, finished := false, queued := ofString "he", pieces := [ofString "llo", [], ofString "!"] }

example : HandlerSane exStatic :=
  ⟨by decide, by simp [exStatic, Hdrs.NoDup], by decide, by decide, by decide,
   by intro _ _ v hv _; simp [exStatic, Hdrs.get, Hdrs.sameName, eqIcase] at hv; obtain ⟨_, rfl⟩ := hv; decide,
   rfl, ⟨by unfold chunkSizeOk; decide, by intro p hp; simp [exStatic] at hp⟩⟩

example : HandlerSane exStream :=
  ⟨by decide, by simp [exStream, Hdrs.NoDup], by decide, by decide, by decide,
   by intro _ _ v hv; simp [exStream, Hdrs.get] at hv,
   rfl, ⟨by unfold chunkSizeOk; decide,
         by intro p hp; simp [exStream] at hp; rcases hp with rfl | rfl | rfl <;> (unfold chunkSizeOk; decide)⟩⟩

example : rfcFraming false 200 (respond exStatic []).hdrs = .length 5 := by decide
example : rfcFraming false 200 (respond exStream []).hdrs = .chunked := by decide
example : (respond exStream []).body = ofString "02\r\nhe\r\n3\r\nllo\r\n1\r\n!\r\n0\r\n\r\n" := by decide
example : rfcFraming false 200 (respond { exStream with ver11 := false } []).hdrs = .close ∧
    (respond { exStream with ver11 := false } []).keepAlive = false := by decide
example : (respond { exStatic with meth := .head } []).body = [] := by decide
example : Hdrs.has (respond { exStream with ver11 := false } []).hdrs nContentLength = false ∧
    Hdrs.has (respond { exStream with ver11 := false } []).hdrs nTransferEncoding = false := by decide
example : chunkStream true [ofString "abc", [], ofString "0123456789abcdef0"] true
    = ofString "3\r\nabc\r\n11\r\n0123456789abcdef0\r\n0\r\n\r\n" := by decide
example : chunkSizeOk 1048577 := by unfold chunkSizeOk; decide

/-- a queue of a memory chunk, a partly sent file chunk and another memory chunk -/
def exQ : Cq := [.mem (ofString "HTTP/1.1 200 OK\r\n\r\n") 0, .file (ofString "0123456789") 2 9, .mem (ofString "tail") 1]

example : CqWF exQ := by
  intro c hc
  simp [exQ] at hc
  rcases hc with rfl | rfl | rfl <;> simp [Chunk.WF, ofString]
example : (drive .sendfile 262144 { q := exQ, sched := [.ok 5, .eagain, .ok 100, .eintr, .ok 3, .einval, .ok 2, .ok 100, .ok 100] }).2.2.acc
    = ofString "HTTP/1.1 200 OK\r\n\r\n2345678ail" := by decide
example : encodeStr 0 (ofString "/a b\r\nSet-Cookie: x") = ofString "/a%20b%0D%0ASet-Cookie%3A%20x" := by decide
example : urldecodePath (ofString "/a%0d%0aX:%20y") = ofString "/a__X: y" := by decide
example : wireDecode false ((respond exStatic (ofString "x")).head ++ (respond exStatic (ofString "x")).body ++ ofString "HTTP")
    = some (200, [(ofString "Content-Length", ofString "5"), (ofString "Date", ofString "x")], ofString "hello", ofString "HTTP") := by
  decide
example : wireDecode false (ofString "HTTP/1.1 200 OK\r\nContent-Length: 5\r\ncontent-length: 7\r\n\r\nhello") = none := by
  decide
example : rfcBody .chunked (ofString "3;x=y\r\nabc\r\n0\r\nT: v\r\n\r\nrest") = some (ofString "abc", ofString "rest") := by
  decide
example : (chunkAppendWholeFile true (ofString "abc") 5).2 = -1 := by decide
example : FieldsOk (Hdrs.insert [⟨ofString "Set-Cookie", ofString "a=1"⟩] (ofString "set-cookie") (ofString "b=2")) :=
  (c04_insert_keeps_fields_ok _ _ _ ⟨by simp [Hdrs.NoDup], by intro h hh; simp at hh; subst hh; decide⟩
    (fieldsOk_of_clean (by intro h hh; simp at hh; subst hh; exact ⟨⟨by decide, by decide⟩, ⟨by decide, by decide⟩⟩))
    ⟨by decide, by decide⟩ (by decide) ⟨by decide, by decide⟩).1
example : AllOkPos [.ok 5, .ok 1] ∧ Retryable .eintr ∧ ¬ Retryable .epipe := by
  refine ⟨?_, trivial, fun h => h⟩
  intro r hr; simp at hr; rcases hr with rfl | rfl <;> exact ⟨_, rfl, by decide⟩
example : HdrsClean exStatic.hdrs := by
  intro h hh
  simp [exStatic] at hh
  subst hh
  exact ⟨⟨by decide, by decide⟩, ⟨by decide, by decide⟩⟩

/-! ## the end of a response on the connection: once per request, in order, really closed -/
section conn
open H1End

/-- **The connection goes on to the next request only after a complete, keep-alive exchange; otherwise
    it is really closed.**  For EVERY state in which connection_handle_response_end_state() can be
    entered (any version, status, request-body accounting, error flag, keep-alive value incl.
    negative, leftover 1xx queue, descriptor state, shutdown() result, pipelined bytes): the state
    becomes CON_STATE_REQUEST_START exactly if the request was HTTP/1.x, its body was read completely,
    the write state did not end in error and r->keep_alive > 0; in every other case the write side
    is shut down (FIN: state CON_STATE_CLOSE, pipelined bytes only drained, never parsed) or the
    descriptor is closed (CON_STATE_CONNECT, read queue emptied). -/
theorem c04_response_end_really_closes (i : EndIn) :
    ((responseEnd i).state = .requestStart ↔
      (i.h2 = false ∧ i.reqLen = i.reqIn ∧ i.isError = false ∧ 0 < i.keepAlive)) ∧
    ((responseEnd i).state ≠ .requestStart →
      ((responseEnd i).fin = true ∨ (responseEnd i).closed = true) ∧
      ((responseEnd i).fin = true → (responseEnd i).state = .close ∧ (responseEnd i).pending = i.pending) ∧
      ((responseEnd i).closed = true → (responseEnd i).state = .connect ∧ (responseEnd i).pending = 0)) := by
  refine ⟨responseEnd_continues_iff i, fun h => ?_⟩
  obtain ⟨h1, h2, h3⟩ := responseEnd_not_continues i h
  exact ⟨h1, fun hf => ⟨(h2 hf).1, (h2 hf).2.2⟩, h3⟩

/-- **Responses appear once per request, in request order.**  For EVERY pipeline of requests (any
    responses, keep-alive flags, write errors after any number of bytes, unread request bodies) and
    any descriptor / shutdown() behaviour: the bytes written on the connection are exactly the
    responses of the first `answered` requests, concatenated in request order, each once; all but the
    last of them are complete and were keep-alive exchanges; if the connection is still open
    afterwards every request was answered completely; otherwise the last answered request is the
    first one that did not allow to continue, the connection is shut down or closed right behind its
    response, and no later request is answered. -/
theorem c04_once_per_request_in_order (fdOk shutOk : Bool) (reqs : List Req) :
    (connRun fdOk shutOk reqs).answered ≤ reqs.length ∧
    (connRun fdOk shutOk reqs).wire
      = ((reqs.take (connRun fdOk shutOk reqs).answered).map sentOf).flatten ∧
    (∀ j q, j + 1 < (connRun fdOk shutOk reqs).answered → reqs[j]? = some q →
      Continues q ∧ sentOf q = q.msg) ∧
    ((connRun fdOk shutOk reqs).final = none →
      (connRun fdOk shutOk reqs).answered = reqs.length ∧
      ∀ q ∈ reqs, Continues q ∧ sentOf q = q.msg) ∧
    (∀ e, (connRun fdOk shutOk reqs).final = some e →
      ∃ k q, (connRun fdOk shutOk reqs).answered = k + 1 ∧ reqs[k]? = some q ∧ ¬ Continues q ∧
        e = responseEnd (endIn fdOk shutOk (reqs.length - (k + 1)) q) ∧
        e.state ≠ .requestStart ∧ (e.fin = true ∨ e.closed = true)) :=
  connRun_spec fdOk shutOk reqs

/-- **No length, no chunking ⇒ the connection is really closed behind the response** (composition of
    `c04_undelimited_closes` with the connection end).  Under the hypotheses of
    `c04_undelimited_closes`, whatever requests are pipelined behind this one, whatever the write
    state did and however shutdown() answers: the response of `d` is the last thing on the wire, no
    later request is answered, and the write side is shut down or the descriptor closed. -/
theorem c04_undelimited_really_closes (d : RespIn) (date : Bytes) (hm : d.meth ≠ .head)
    (hb : isBodiless d.status = false) (hnt : ¬ (d.meth = .connect ∧ d.status = 200))
    (hcl : Hdrs.has (respond d date).hdrs nContentLength = false)
    (hte : Hdrs.has (respond d date).hdrs nTransferEncoding = false)
    (hup : Hdrs.has (respond d date).hdrs nUpgrade = false)
    (fdOk shutOk : Bool) (wrote : Option Nat) (reqLen reqIn : Int) (rest : List Req) :
    let q := Req.ofResp d date wrote reqLen reqIn
    ∃ e, connRun fdOk shutOk (q :: rest) = ⟨sentOf q, 1, some e⟩ ∧ (e.fin = true ∨ e.closed = true) ∧
      e.state ≠ .requestStart := by
  intro q
  have hka : q.ka = false := c04_undelimited_closes d date hm hb hnt hcl hte hup
  have hnc : ¬ Continues q := by intro hc; rw [hc.2.1] at hka; cases hka
  have hst : (responseEnd (endIn fdOk shutOk rest.length q)).state ≠ .requestStart :=
    fun h => hnc ((endIn_continues_iff fdOk shutOk rest.length q).1 h)
  refine ⟨responseEnd (endIn fdOk shutOk rest.length q), ?_, (responseEnd_not_continues _ hst).1, hst⟩
  simp [connRun, hst]

/-- a pipeline of three: keep-alive, then `Connection: close`, then one that is never answered -/
def exPipe : List Req :=
  [{ msg := ofString "A", ka := true }, { msg := ofString "BB", ka := false }, { msg := ofString "CCC", ka := true }]
example : connRun true true exPipe
    = ⟨ofString "ABB", 2, some { state := .close, done := 1, sepWq := false, fin := true, closed := false, pending := 1 }⟩ := by
  decide
example : (connRun true false exPipe).final
    = some { state := .connect, done := 1, sepWq := false, fin := false, closed := true, pending := 0 } := by decide
example : (connRun true true [{ msg := ofString "A", ka := true }, { msg := ofString "BB", ka := true }]).final = none := by
  decide
example : (connRun true true [{ msg := ofString "ABCD", ka := true, wrote := some 2 }, { msg := ofString "x", ka := true }]).wire
    = ofString "AB" := by decide
example : (responseEnd { keepAlive := 1, reqLen := 10, reqIn := 4, sepWq := true, pending := 7 })
    = { state := .close, done := 1, sepWq := false, fin := true, closed := false, pending := 7 } := by decide
example : (responseEnd { keepAlive := -1 }).state = .close ∧ (responseEnd { keepAlive := 1, pending := 3 }).state = .requestStart := by
  decide

end conn

end LtVerif.C04
