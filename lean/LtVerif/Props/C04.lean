/-
  C04 — every HTTP/1.x response is well-formed, correctly delimited and byte-exact.
  (theorems follow)
-/
import LtVerif.Model.H1Resp
import LtVerif.Model.NetWrite
namespace LtVerif.C04
open LtVerif B

end LtVerif.C04
