/-
  C05 — HTTP/2: every emitted frame is legal for the connection and stream state.
  Property theorems over Model/H2.lean; helper lemmas in Proofs/H2.lean.
-/
import LtVerif.Proofs.H2
namespace LtVerif.C05
open LtVerif

/-! ## connection errors are terminal -/

/-- nothing is parsed, and hence no stream is created or answered, after an error GOAWAY -/
theorem c05_conn_error_terminal_recv (c : H2Conn) (f : FrameIn) (h : c.goaway > 0) :
    recvFrame c f = (c, []) := by
  simp [recvFrame, h]

/-- after an error GOAWAY the streams are retired without emitting any frame -/
theorem c05_conn_error_terminal_send (c : H2Conn) (budget : Nat) (h : c.goaway > 0) :
    (processPass c budget).2 = [] ∧ (processPass c budget).1.streams = [] ∨
    (processPass c budget) = (c, []) := by
  unfold processPass
  by_cases hd : c.dead = true
  · right; simp [hd]
  · left; simp [hd, h]

/-! ## the receive side only ever answers with control frames -/

/-- whatever frame arrives in whatever state, the frames sent in direct response are control
    frames (SETTINGS ack, PING ack, WINDOW_UPDATE, RST_STREAM, GOAWAY): response HEADERS and
    DATA are only produced by the stream scheduler below -/
theorem c05_recv_emits_only_control (c : H2Conn) (f : FrameIn) :
    ∀ o ∈ (recvFrame c f).2, o.isCtl = true :=
  recvFrame_ctl c f

/-! ## per-stream legality of what the scheduler emits -/

/-- RFC 9113 §5.1 monitor for the frames a server sends on one stream -/
inductive Phase | idle | open | ended
deriving Repr, DecidableEq

def monStep (sid : Nat) : Option Phase → Out → Option Phase
  | none, _ => none
  | some p, .headers i _ es =>
    if i ≠ sid then none else
    match p with
    | .idle => some (if es then .ended else .open)
    | _ => none                        -- a second HEADERS block / HEADERS after END_STREAM
  | some p, .data i _ es =>
    if i ≠ sid then none else
    match p with
    | .open => some (if es then .ended else .open)
    | _ => none                        -- DATA before HEADERS or after END_STREAM
  | some _, .rst i _ => if i ≠ sid then none else some .ended   -- RST_STREAM may always follow
  | some _, _ => none                  -- the scheduler emits nothing else

def monRun (sid : Nat) (p : Phase) (o : List Out) : Option Phase := o.foldl (monStep sid) (some p)

def phaseOf (s : Strm) : Phase := if s.headersSent then .open else .idle

/-- **Stream legality**: a stream's turn emits only frames of that stream, HEADERS first if
    they were not sent yet, DATA only after HEADERS, END_STREAM at most once and nothing but
    RST_STREAM after it; a stream that got END_STREAM (or was reset) is retired, a stream
    that stays has its HEADERS sent and is still open. -/
theorem c05_stream_turn_legal (cswin : Int) (budget : Nat) (s : Strm) (hne : s.err = false) :
    ∃ p, monRun s.id (phaseOf s) (strmTurn cswin budget s).2.1 = some p ∧
      (match (strmTurn cswin budget s).1 with
       | none => True
       | some s' => p = .open ∧ s'.headersSent = true ∧ s'.id = s.id ∧ s'.err = false) := by
  unfold strmTurn
  simp only [hne, Bool.false_eq_true, if_false]
  generalize hn : turnAmount cswin budget s = n
  obtain ⟨id, st, err, swin, reqLen, bodyIn, fudge, status, pending, headersSent, incremental⟩ := s
  simp only at hne ⊢
  subst hne
  by_cases hn0 : n = 0
  · subst hn0
    by_cases hp0 : pending = 0
    · subst hp0
      cases headersSent <;> cases st <;>
        simp [sendHdrs, endStream, monRun, monStep, phaseOf, List.foldl]
    · cases headersSent <;>
        simp [hp0, sendHdrs, monRun, monStep, phaseOf, List.foldl]
  · by_cases hp : pending - n = 0
    · by_cases hp0 : pending = 0
      · subst hp0
        exact absurd (by simpa [turnAmount] using hn.symm) hn0
      · cases headersSent <;> cases st <;>
          simp [hp, hp0, hn0, sendHdrs, endStream, monRun, monStep, phaseOf, List.foldl]
    · have hp0 : pending ≠ 0 := by omega
      cases headersSent <;>
        simp [hp, hp0, hn0, sendHdrs, monRun, monStep, phaseOf, List.foldl]

/-- a stream in error state is retired with at most an RST_STREAM — never HEADERS or DATA -/
theorem c05_error_stream_retired (cswin : Int) (budget : Nat) (s : Strm) (he : s.err = true) :
    (strmTurn cswin budget s).1 = none ∧ ∀ o ∈ (strmTurn cswin budget s).2.1, o.isCtl = true := by
  unfold strmTurn
  simp only [he, if_true]
  refine ⟨trivial, ?_⟩
  unfold endStream
  by_cases hc : s.st = .closed
  · simp [hc]
  · simp only [hc, he, if_false, if_true]
    intro o ho
    simp only [List.mem_singleton] at ho
    subst ho; rfl

/-! ## acknowledgements -/

/-- a well-formed SETTINGS frame (stream 0, whole parameters) that raises no connection error
    is acknowledged with exactly one SETTINGS ACK, sent after any RST_STREAM it caused -/
theorem c05_settings_acked (c : H2Conn) (ps : List (Nat × Nat))
    (hok : (applySettings c ps).1.goaway = c.goaway) (hg : c.goaway ≤ 0) :
    (recvSettings c false 0 ps 0).2 = (applySettings c ps).2 ++ [Out.settingsAck] := by
  unfold recvSettings
  simp [hok, hg]

/-- a PING (stream 0, 8 octets, not an ACK) is echoed with ACK; a PING ACK is not answered -/
theorem c05_ping_echoed (c : H2Conn) : (recvPing c false 0 8).2 = [Out.pingAck] ∧ (recvPing c true 0 8).2 = [] := by
  simp [recvPing]

/-! ## frame validation: the RFC-mandated error for each malformed frame -/

theorem c05_frame_size_errors (c : H2Conn) (sid len x : Nat) :
    (len ≠ 8 → ∃ r, recvPing c false sid len = sendGoaway c E.frameSize ∧ r = ()) ∧
    (len ≠ 4 → recvWindowUpdate c sid len x = sendGoaway c E.frameSize) ∧
    (len ≠ 4 → recvRstStream c sid len = sendGoaway c E.frameSize) ∧
    (len ≠ 5 → recvPriority c sid len x = sendGoaway c E.frameSize) ∧
    (len < 8 → recvGoaway c sid len x = sendGoaway c E.frameSize) := by
  refine ⟨fun h => ⟨(), by simp [recvPing, h], rfl⟩, fun h => by simp [recvWindowUpdate, h],
          fun h => by simp [recvRstStream, h], fun h => by simp [recvPriority, h],
          fun h => by simp [recvGoaway, h]⟩

theorem c05_stream_zero_errors (c : H2Conn) (x : Nat) (ps : List (Nat × Nat)) (sid : Nat) (h0 : sid ≠ 0) :
    recvSettings c false sid ps 0 = sendGoaway c E.protocol ∧
    recvPing c false sid 8 = sendGoaway c E.protocol ∧
    recvGoaway c sid 8 x = sendGoaway c E.protocol ∧
    recvRstStream c 0 4 = sendGoaway c E.protocol ∧
    recvPriority c 0 5 x = sendGoaway c E.protocol ∧
    recvData c 0 x none false = sendGoaway c E.protocol := by
  refine ⟨by simp [recvSettings, h0], by simp [recvPing, h0], by simp [recvGoaway, h0],
          by simp [recvRstStream], by simp [recvPriority], by simp [recvData]⟩

/-- stream identifiers: a client stream id must be odd; DATA for an id above every id seen
    (idle stream) is a connection error; stray CONTINUATION and PUSH_PROMISE are connection errors -/
theorem c05_stream_id_rules (c : H2Conn) (sid : Nat) (kind : HdrKind) (es : Bool) (len : Nat)
    (hg : ¬ c.goaway > 0) (hd : c.dead = false) :
    (sid % 2 = 0 → recvHeaders c sid kind es none false = sendGoaway c E.protocol) ∧
    (c.cid < sid → recvData c sid len none es = sendGoaway c E.protocol) ∧
    recvFrame c (.continuation sid) = sendGoaway c E.protocol ∧
    recvFrame c (.pushPromise sid) = sendGoaway c E.protocol ∧
    recvFrame c .oversize = sendGoaway c E.frameSize := by
  refine ⟨fun h => by simp [recvHeaders, h], fun h => by simp [recvData, h],
          by simp [recvFrame, hg, hd], by simp [recvFrame, hg, hd], by simp [recvFrame, hg, hd]⟩

/-- **Concurrency**: a new stream is admitted only while fewer than the advertised number of
    streams (SETTINGS_MAX_CONCURRENT_STREAMS, read back from the code) are active; otherwise it
    is refused with RST_STREAM(REFUSED_STREAM) and no stream is created -/
theorem c05_concurrency_refused (c : H2Conn) (sid : Nat) (kind : HdrKind) (es : Bool)
    (hodd : sid % 2 = 1) (hnew : sid > c.cid) (hg : c.goaway = 0)
    (hfull : c.streams.length ≥ Extracted.h2MaxStreams) :
    recvHeaders c sid kind es none false = (refuseStream c sid).andThen discardHeaders ∧
    Out.rst sid E.refused ∈ (recvHeaders c sid kind es none false).2 := by
  have h1 : ¬ sid % 2 = 0 := by omega
  have h2 : ¬ sid ≤ c.cid := by omega
  have heq : recvHeaders c sid kind es none false = (refuseStream c sid).andThen discardHeaders := by
    simp [recvHeaders, h1, h2, hg, hfull]
  refine ⟨heq, ?_⟩
  rw [heq]
  simp [Res.andThen, refuseStream]

/-- **Concurrency, for every reachable state**: whatever batches of frames arrive and
    however the scheduler runs, the server never tracks more streams than it advertised -/
theorem c05_concurrency_invariant : ∀ (batches : List (List FrameIn)) (c : H2Conn),
    c.streams.length ≤ Extracted.h2MaxStreams →
    (batches.foldl (fun c b => (h2Step c b).1) c).streams.length ≤ Extracted.h2MaxStreams := by
  intro batches
  induction batches with
  | nil => intro c h; simpa using h
  | cons b rest ih =>
    intro c h
    simp only [List.foldl_cons]
    apply ih
    -- one step: a batch, then stream processing
    unfold h2Step
    exact Nat.le_trans (processQuiesce_len_le _ _) (recvBatch_len_le _ _ h)

theorem c05_advertised_concurrency : Extracted.h2MaxStreams = Extracted.h2AdvMaxConcurrent := by decide

/-! non-vacuity -/
example : (h2Step {} [.headers 1 (.request 200 10 0 false) true none false false]).2 =
    [.headers 1 200 false, .data 1 10 false, .data 1 0 true] := by decide
example : (h2Step {} [.headers 1 (.request 200 10 0 false) true none false false,
                      .data 1 3 none true]).2 = [.rst 1 E.streamClosed, .windowUpdate 0 16384] := by decide
example : (recvFrame {} (.ping false 0 8)).2 = [.pingAck] := by decide

end LtVerif.C05
