/-
  C05 — HTTP/2: every emitted frame is legal for the connection and stream state.
  (theorems are added below; helper lemmas in Proofs/H2.lean)
-/
import LtVerif.Model.H2
namespace LtVerif.C05
open LtVerif

/-- nothing is parsed, and hence no stream is created or answered, after an error GOAWAY -/
theorem c05_conn_error_terminal_recv (c : H2Conn) (f : FrameIn) (h : c.goaway > 0) :
    recvFrame c f = (c, []) := by
  simp [recvFrame, h]

end LtVerif.C05
