/-
  C05 — HTTP/2: every emitted frame is legal for the connection and stream state.
  Property theorems over Model/H2.lean (frames), Model/H2Reader.lean (octets, read segments) and
  the monitor of Model/H2Monitor.lean; helper lemmas in Proofs/H2.lean, Proofs/H2Legal.lean,
  Proofs/H2Reader.lean.  Theorems that merely pin one branch of the model live there, not here.
-/
import LtVerif.Proofs.H2
import LtVerif.Proofs.H2Legal
import LtVerif.Proofs.H2Reader
namespace LtVerif.C05
open LtVerif

/-! ## stream legality over whole connection histories -/

/-- **History-level legality** (RFC 9113 5.1, for ALL streams of a connection at once): whatever
    batches of frames arrive -- valid or not, before or after the client acknowledged the
    server's SETTINGS -- and however the scheduler interleaves, the sequence of ALL frames the
    connection emits is accepted by the monitor `monAll`: on every stream the response HEADERS go
    out at most once and not after END_STREAM / RST_STREAM, DATA only after HEADERS and not after
    END_STREAM / RST_STREAM; RST_STREAM, WINDOW_UPDATE and connection frames may come at any
    time.  Proof: invariant `Inv` (tracked streams have distinct ids <= the highest id seen; a
    stream not in error has `headersSent` iff its HEADERS are out and nothing final was sent on it;
    nothing was ever sent on an id above the highest seen), preserved by every receive action
    (`Act.frame`) and every scheduler pass (`passAux_mon`); after a connection error nothing is
    emitted. -/
theorem c05_history_legal (batches : List (List FrameIn)) (preAck : Bool) :
    ∃ m, monAll {} (runOuts { sentSettings := preAck } batches) = some m :=
  good_run batches _ {} (Or.inr (inv_init preAck))

/-- the same for octets in any read segmentation: a step of octets is a step of the frames the
    reader extracts (`c05_bytes_refine_frames`), so the frames emitted over a history of byte
    steps are accepted as well -/
theorem c05_history_legal_bytes (dec : Bytes → HdrKind) : ∀ (steps : List (List Bytes)) (s : BConn) (m : Mon),
    Good s.c m →
    ∃ m', monAll m ((steps.foldl (fun (acc : BConn × List Out) segs =>
        ((h2StepBytes dec acc.1 segs).1, acc.2 ++ (h2StepBytes dec acc.1 segs).2)) (s, [])).2) = some m' := by
  -- generalised over the frames already emitted
  have key : ∀ (steps : List (List Bytes)) (s : BConn) (m0 m : Mon) (pre : List Out),
      monAll m0 pre = some m → Good s.c m →
      ∃ m', monAll m0 ((steps.foldl (fun (acc : BConn × List Out) segs =>
        ((h2StepBytes dec acc.1 segs).1, acc.2 ++ (h2StepBytes dec acc.1 segs).2)) (s, pre)).2) = some m' := by
    intro steps
    induction steps with
    | nil => intro s m0 m pre e _; exact ⟨m, e⟩
    | cons segs rest ih =>
      intro s m0 m pre e g
      simp only [List.foldl_cons]
      -- one byte step = one frame step
      have hstep : ∃ fs, (h2StepBytes dec s segs).1.c = (h2Step s.c fs).1 ∧
          (h2StepBytes dec s segs).2 = (h2Step s.c fs).2 := by
        cases segs with
        | nil => exact ⟨[], by simp [h2StepBytes, feedSegs, h2Step, recvBatch], by simp [h2StepBytes, feedSegs, h2Step, recvBatch]⟩
        | cons x xs =>
          refine ⟨(readerFeed s.rd (x ++ xs.flatten)).2.flatMap (evFrames dec), ?_, ?_⟩
          · simp only [h2StepBytes, feedSegs_cons, feedSeg, h2Step]
          · simp only [h2StepBytes, feedSegs_cons, feedSeg, h2Step]
      obtain ⟨fs, h1, h2⟩ := hstep
      obtain ⟨m1, e1, g1⟩ := good_step s.c fs m g
      refine ih _ m0 m1 _ ?_ (by rw [h1]; exact g1)
      rw [monAll_append, e, h2]
      exact e1
  intro steps s m g
  exact key steps s m m [] rfl g

/-- **RST_STREAM is never sent on an idle stream** (RFC 9113 6.4): from a state satisfying the
    invariant, every RST_STREAM a received frame draws is for a stream id at most the highest id
    the client has used (or the connection ends in an error; the one RST_STREAM beyond -- a
    HEADERS frame making its own new stream depend on itself -- comes with that error, and the
    stream was opened by that very frame) -/
theorem c05_rst_never_idle (c : H2Conn) (m : Mon) (f : FrameIn) (h : Inv c m) (sid code : Nat)
    (hm : Out.rst sid code ∈ (recvFrame c f).2) :
    sid ≤ (recvFrame c f).1.cid ∨ (recvFrame c f).1.goaway > 0 := by
  rcases (Act.frame c f).rst h.le with hg | hr
  · exact Or.inr hg
  · exact Or.inl (hr sid code hm).1

/-- whatever frame arrives in whatever state, the frames sent in direct response are control
    frames (SETTINGS ack, PING ack, WINDOW_UPDATE, RST_STREAM, GOAWAY): response HEADERS and
    DATA are only produced by the stream scheduler -/
theorem c05_recv_emits_only_control (c : H2Conn) (f : FrameIn) :
    ∀ o ∈ (recvFrame c f).2, o.isCtl = true :=
  recvFrame_ctl c f

/-! ## outbound frame size: payloads never exceed the peer's SETTINGS_MAX_FRAME_SIZE -/

/-- **DATA frames**: every frame a scheduler pass emits carries at most `c.peerMaxFrame` payload
    octets -- the value of the last SETTINGS_MAX_FRAME_SIZE the client sent (initially 16384),
    whether it was raised or lowered -/
theorem c05_data_frames_within_peer_limit (c : H2Conn) (budget : Nat) (h : FsOk c) :
    ∀ o ∈ (processPass c budget).2, o.payloadLen ≤ c.peerMaxFrame :=
  processPass_payload c budget (by have := h.1; omega)

/-- ... the split loses nothing: the DATA frames of `n` octets carry `n` octets in all -/
theorem c05_data_split_exact (file : Bool) (fsize n : Nat) (hf : fsize > 9) :
    (dataSplit file fsize n n).sum = n ∧ ∀ x ∈ dataSplit file fsize n n, x ≤ fsize :=
  ⟨dataSplit_sum file fsize hf n n (Nat.le_refl _), fun x hx => dataSplit_le file fsize n n x hx⟩

/-- **control frames** emitted in direct response have at most 8 payload octets -/
theorem c05_control_frames_small (c : H2Conn) (f : FrameIn) : ∀ o ∈ (recvFrame c f).2, o.payloadLen ≤ 8 :=
  fun o ho => ctl_payload o (recvFrame_ctl c f o ho)

/-- **header blocks** (h2_send_hpack): a block of `n` octets goes out as HEADERS + CONTINUATION
    frames of at most `fsize` payload octets each that carry exactly the block -/
theorem c05_header_block_split (fsize n : Nat) (hf : 0 < fsize) :
    (hpackSplit fsize n n).sum = n ∧ (∀ x ∈ hpackSplit fsize n n, x ≤ fsize) ∧ hpackSplit fsize n n ≠ [] := by
  refine ⟨hpackSplit_sum fsize n n, fun x hx => hpackSplit_le fsize n n x ?_ hx, ?_⟩
  · have := Nat.mul_le_mul_right (n + 1) hf
    rw [Nat.one_mul] at this
    omega
  · cases n <;> simp [hpackSplit]
    split <;> simp

/-- **the limit the server works with stays in the RFC range over every history** (16384 ..
    2^24-1): it is only ever set by a SETTINGS_MAX_FRAME_SIZE within that range -/
theorem c05_peer_frame_size_invariant (batches : List (List FrameIn)) (c : H2Conn) (h : FsOk c) :
    FsOk (runState c batches) :=
  runState_fs batches c h

/-! ## acknowledgements -/

/-- a well-formed SETTINGS frame (stream 0, whole parameters) that raises no connection error
    is answered with exactly one SETTINGS ACK and nothing else (a parameter that RFC 9113 makes
    a connection error -- ENABLE_PUSH > 1, INITIAL_WINDOW_SIZE > 2^31-1 or taking any live
    stream's window out of range, MAX_FRAME_SIZE out of range -- changes `goaway`) -/
theorem c05_settings_acked (c : H2Conn) (ps : List (Nat × Nat))
    (hok : (applySettings c ps).1.goaway = c.goaway) (hg : c.goaway ≤ 0) :
    (recvSettings c false 0 ps 0).2 = [Out.settingsAck] := by
  unfold recvSettings
  simp [hok, hg, applySettings_quiet ps c hg hok]

/-- RFC 9113 6.9.2: a SETTINGS_INITIAL_WINDOW_SIZE change that would take the send window of ANY
    live stream above 2^31-1 is a connection error FLOW_CONTROL_ERROR, and no ACK is sent -/
theorem c05_settings_window_overflow (c : H2Conn) (v : Nat) (rest : List (Nat × Nat)) (hv : (v : Int) ≤ int32Max)
    (hg : c.goaway = 0) (hov : c.streams.any (fun s => s.live && winOverflows s.swin ((v : Int) - c.initWin)) = true) :
    applySettings c ((4, v) :: rest) = sendGoaway c E.flowControl ∧
    Out.goaway c.cid E.flowControl ∈ (recvSettings c false 0 ((4, v) :: rest) 0).2 ∧
    Out.settingsAck ∉ (recvSettings c false 0 ((4, v) :: rest) 0).2 := by
  have hnv : ¬ (v : Int) > int32Max := by omega
  have happ : applySettings c ((4, v) :: rest) = sendGoaway c E.flowControl := by
    simp [applySettings, hnv, hov]
  have hgo : (sendGoaway c E.flowControl).1.goaway = (E.flowControl : Int) :=
    sendGoaway_goaway c E.flowControl (by decide) (by omega)
  have hres : goawayResets c E.flowControl =
      ((c.streams.filter (·.st ≠ .closed)).foldl (fun c s => rstState c s.id) c, []) := by
    simp [goawayResets, hg, E.flowControl]
  have hcid : ∀ (l : List Strm) (c' : H2Conn), (l.foldl (fun c s => rstState c s.id) c').cid = c'.cid ∧
      (l.foldl (fun c s => rstState c s.id) c').goaway = c'.goaway := by
    intro l
    induction l with
    | nil => intro c'; exact ⟨rfl, rfl⟩
    | cons x xs ih =>
      intro c'
      simp only [List.foldl_cons]
      have h1 := ih (rstState c' x.id)
      have h2 : (rstState c' x.id).cid = c'.cid ∧ (rstState c' x.id).goaway = c'.goaway := by
        unfold rstState
        split
        · exact ⟨rfl, rfl⟩
        · simp only [updStrm]; split <;> exact ⟨rfl, rfl⟩
      exact ⟨h1.1.trans h2.1, h1.2.trans h2.2⟩
  have hout : (sendGoaway c E.flowControl).2 = [Out.goaway c.cid E.flowControl] := by
    unfold sendGoaway
    simp only [hres]
    have hc := hcid (c.streams.filter (·.st ≠ .closed)) c
    have : ¬ ((List.foldl (fun c s => rstState c s.id) c (c.streams.filter (·.st ≠ .closed))).goaway ≠ 0 ∧
        ((List.foldl (fun c s => rstState c s.id) c (c.streams.filter (·.st ≠ .closed))).goaway > 0 ∨
          E.flowControl = 0)) := by
      rw [hc.2, hg]; simp
    rw [if_neg this]
    simp only [List.nil_append, hc.1]
  refine ⟨happ, ?_, ?_⟩
  · unfold recvSettings
    simp [happ, hout]
  · have hpos : ¬ (sendGoaway c E.flowControl).1.goaway ≤ 0 := by rw [hgo]; decide
    have hne : ¬ (sendGoaway c E.flowControl).1.goaway = c.goaway := by rw [hgo, hg]; decide
    unfold recvSettings
    simp [happ, hout, hpos, hne]

/-- **PING echo**: a PING frame (stream 0, not an ACK) is answered with a PING ack carrying the SAME
    8 octets -- at frame level and from the octets on the wire -- and a PING ack is not answered -/
theorem c05_ping_echoed (c : H2Conn) (dec : Bytes → HdrKind) (octets : Bytes) (flags sid : Nat)
    (hg : ¬ c.goaway > 0) (hd : c.dead = false) (h8 : octets.length = 8) (h0 : u31 sid = 0) :
    (flagSet flags 1 = false →
      (recvFrame c (toFrameIn dec ⟨6, flags, sid, octets⟩)).2 = [Out.pingAck octets]) ∧
    (flagSet flags 1 = true → (recvFrame c (toFrameIn dec ⟨6, flags, sid, octets⟩)).2 = []) := by
  constructor <;> intro hf <;> simp [toFrameIn, recvFrame, hg, hd, recvPing, h8, h0, hf]

/-! ## connection errors: the RFC-mandated error is VISIBLE and terminal -/

/-- what the client sees of a connection error: GOAWAY(last stream id, code) among the frames
    sent in response, and the connection in the terminal error state -/
def ConnErr (c : H2Conn) (r : Res) (code : Nat) : Prop := Out.goaway c.cid code ∈ r.2 ∧ r.1.goaway > 0

/-- **raising a connection error is visible**: while no error GOAWAY is out, `sendGoaway` with an
    error code emits GOAWAY(last stream id, code) and enters the terminal state -/
theorem c05_conn_error_visible (c : H2Conn) (code : Nat) (hc : code ≠ 0) (hg : c.goaway ≤ 0) :
    ConnErr c (sendGoaway c code) code := by
  have := sendGoaway_observable c code hc hg
  exact ⟨this.1, this.2.2⟩

private theorem connErr_of_eq {c : H2Conn} {r : Res} {code : Nat} (h : r = sendGoaway c code) (hc : code ≠ 0)
    (hg : c.goaway ≤ 0) : ConnErr c r code := by
  rw [h]; exact c05_conn_error_visible c code hc hg

/-- **terminal over histories**: once an error GOAWAY is out, NOTHING is emitted any more,
    whatever arrives in however many later batches (no later stream is processed) -/
theorem c05_conn_error_terminal (batches : List (List FrameIn)) (c : H2Conn) (h : c.goaway > 0) :
    runOuts c batches = [] :=
  run_term batches c h

/-- frame size errors: wrong fixed length of PING / WINDOW_UPDATE / RST_STREAM / PRIORITY /
    GOAWAY / PRIORITY_UPDATE, SETTINGS length not a multiple of 6, SETTINGS ack with payload,
    a frame above the advertised SETTINGS_MAX_FRAME_SIZE => GOAWAY(FRAME_SIZE_ERROR) -/
theorem c05_frame_size_errors (c : H2Conn) (sid len x : Nat) (o : Bytes) (ps : List (Nat × Nat)) (junk : Nat)
    (hg : c.goaway ≤ 0) (hd : c.dead = false) :
    (len ≠ 8 → ConnErr c (recvFrame c (.ping false sid len o)) E.frameSize) ∧
    (len ≠ 4 → ConnErr c (recvFrame c (.windowUpdate sid len x)) E.frameSize) ∧
    (len ≠ 4 → ConnErr c (recvFrame c (.rstStream sid len x)) E.frameSize) ∧
    (len ≠ 5 → ConnErr c (recvFrame c (.priority sid len x)) E.frameSize) ∧
    (len < 8 → ConnErr c (recvFrame c (.goaway sid len x)) E.frameSize) ∧
    (len < 4 → ConnErr c (recvFrame c (.priorityUpdate sid len x x)) E.frameSize) ∧
    (junk ≠ 0 → (applySettings c ps).1.goaway = c.goaway →
       Out.goaway (applySettings c ps).1.cid E.frameSize ∈ (recvFrame c (.settings false 0 ps junk)).2 ∧
       (recvFrame c (.settings false 0 ps junk)).1.goaway > 0) ∧
    ((ps ≠ [] ∨ junk ≠ 0) → ConnErr c (recvFrame c (.settings true 0 ps junk)) E.frameSize) ∧
    ConnErr c (recvFrame c .oversize) E.frameSize := by
  have hng : ¬ c.goaway > 0 := by omega
  refine ⟨fun h => ?_, fun h => ?_, fun h => ?_, fun h => ?_, fun h => ?_, fun h => ?_, fun h hok => ?_, fun h => ?_, ?_⟩
  · exact connErr_of_eq (by simp [recvFrame, hng, hd, recvPing, h]) (by decide) hg
  · exact connErr_of_eq (by simp [recvFrame, hng, hd, recvWindowUpdate, h]) (by decide) hg
  · exact connErr_of_eq (by simp [recvFrame, hng, hd, recvRstStream, h]) (by decide) hg
  · exact connErr_of_eq (by simp [recvFrame, hng, hd, recvPriority, h]) (by decide) hg
  · exact connErr_of_eq (by simp [recvFrame, hng, hd, recvGoaway, h]) (by decide) hg
  · exact connErr_of_eq (by simp [recvFrame, hng, hd, recvPriorityUpdate, h]) (by decide) hg
  · have hg1 : (applySettings c ps).1.goaway ≤ 0 := by rw [hok]; exact hg
    have ob := sendGoaway_observable (applySettings c ps).1 E.frameSize (by decide) hg1
    have hq := applySettings_quiet ps c hg hok
    simp only [recvFrame, hng, hd, Bool.false_eq_true, or_self, if_false, recvSettings, ne_eq, not_true_eq_false,
      Bool.not_false, if_true, hok, h, not_false_eq_true, and_self, hq, List.nil_append]
    refine ⟨?_, ob.2.2⟩
    simp only [List.mem_append]
    exact Or.inl ob.1
  · exact connErr_of_eq (by simp [recvFrame, hng, hd, recvSettings, h]) (by decide) hg
  · exact connErr_of_eq (by simp [recvFrame, hng, hd]) (by decide) hg

/-- frames on the wrong stream: DATA / HEADERS / RST_STREAM / PRIORITY on stream 0, SETTINGS /
    PING / GOAWAY / PRIORITY_UPDATE off stream 0, PRIORITY_UPDATE for stream 0
    => GOAWAY(PROTOCOL_ERROR) -/
theorem c05_stream_zero_errors (c : H2Conn) (x : Nat) (ps : List (Nat × Nat)) (sid : Nat) (o : Bytes) (kind : HdrKind)
    (es : Bool) (h0 : sid ≠ 0) (hg : c.goaway ≤ 0) (hd : c.dead = false) :
    ConnErr c (recvFrame c (.settings false sid ps 0)) E.protocol ∧
    ConnErr c (recvFrame c (.ping false sid 8 o)) E.protocol ∧
    ConnErr c (recvFrame c (.goaway sid 8 x)) E.protocol ∧
    ConnErr c (recvFrame c (.priorityUpdate sid 4 x x)) E.protocol ∧
    ConnErr c (recvFrame c (.priorityUpdate 0 4 0 x)) E.protocol ∧
    ConnErr c (recvFrame c (.rstStream 0 4 x)) E.protocol ∧
    ConnErr c (recvFrame c (.priority 0 5 x)) E.protocol ∧
    ConnErr c (recvFrame c (.data 0 x none es)) E.protocol ∧
    ConnErr c (recvFrame c (.headers 0 kind es none false false)) E.protocol := by
  have hng : ¬ c.goaway > 0 := by omega
  refine ⟨?_, ?_, ?_, ?_, ?_, ?_, ?_, ?_, ?_⟩
  · exact connErr_of_eq (by simp [recvFrame, hng, hd, recvSettings, h0]) (by decide) hg
  · exact connErr_of_eq (by simp [recvFrame, hng, hd, recvPing, h0]) (by decide) hg
  · exact connErr_of_eq (by simp [recvFrame, hng, hd, recvGoaway, h0]) (by decide) hg
  · exact connErr_of_eq (by simp [recvFrame, hng, hd, recvPriorityUpdate, h0]) (by decide) hg
  · exact connErr_of_eq (by simp [recvFrame, hng, hd, recvPriorityUpdate]) (by decide) hg
  · exact connErr_of_eq (by simp [recvFrame, hng, hd, recvRstStream]) (by decide) hg
  · exact connErr_of_eq (by simp [recvFrame, hng, hd, recvPriority]) (by decide) hg
  · exact connErr_of_eq (by simp [recvFrame, hng, hd, recvData]) (by decide) hg
  · exact connErr_of_eq (by simp [recvFrame, hng, hd, recvHeaders]) (by decide) hg

/-- stream identifiers: an even id in HEADERS; DATA / RST_STREAM on an idle stream (id above every
    id seen); WINDOW_UPDATE on an idle stream (while no GOAWAY is out); a stray CONTINUATION;
    PUSH_PROMISE from a client; a header block not continued properly
    => GOAWAY(PROTOCOL_ERROR) -/
theorem c05_stream_id_rules (c : H2Conn) (sid : Nat) (kind : HdrKind) (es : Bool) (len x : Nat) (dep : Option Nat)
    (hg : c.goaway ≤ 0) (hd : c.dead = false) (hle : ∀ s ∈ c.streams, s.id ≤ c.cid) :
    (sid % 2 = 0 → ConnErr c (recvFrame c (.headers sid kind es dep false false)) E.protocol) ∧
    (c.cid < sid → ConnErr c (recvFrame c (.data sid len none es)) E.protocol) ∧
    (c.cid < sid → ConnErr c (recvFrame c (.rstStream sid 4 x)) E.protocol) ∧
    (c.cid < sid → c.goaway = 0 → x ≠ 0 → ConnErr c (recvFrame c (.windowUpdate sid 4 x)) E.protocol) ∧
    ConnErr c (recvFrame c (.continuation sid)) E.protocol ∧
    ConnErr c (recvFrame c (.pushPromise sid)) E.protocol ∧
    ConnErr c (recvFrame c (.headers sid kind es dep false true)) E.protocol := by
  have hng : ¬ c.goaway > 0 := by omega
  -- an id above every id seen is not tracked (`hle` is part of the invariant `Inv`)
  have hidle : c.cid < sid → findStrm c sid = none := by
    intro h
    cases h' : findStrm c sid with
    | none => rfl
    | some s => have := findStrm_id h'; have := hle s this.2; omega
  refine ⟨fun h => ?_, fun h => ?_, fun h => ?_, fun h h1 h2 => ?_, ?_, ?_, ?_⟩
  · exact connErr_of_eq (by simp [recvFrame, hng, hd, recvHeaders, h]) (by decide) hg
  · exact connErr_of_eq (by simp [recvFrame, hng, hd, recvData, h]) (by decide) hg
  · have hs0 : sid ≠ 0 := by omega
    exact connErr_of_eq (by simp [recvFrame, hng, hd, recvRstStream, hs0, hidle h, h]) (by decide) hg
  · have hs0 : sid ≠ 0 := by omega
    exact connErr_of_eq (by simp [recvFrame, hng, hd, recvWindowUpdate, hs0, hidle h, h, h1]) (by decide) hg
  · exact connErr_of_eq (by simp [recvFrame, hng, hd]) (by decide) hg
  · exact connErr_of_eq (by simp [recvFrame, hng, hd]) (by decide) hg
  · exact connErr_of_eq (by simp [recvFrame, hng, hd]) (by decide) hg

/-- SETTINGS values RFC 9113 6.5.2 forbids: ENABLE_PUSH other than 0/1 => PROTOCOL_ERROR,
    INITIAL_WINDOW_SIZE above 2^31-1 => FLOW_CONTROL_ERROR, MAX_FRAME_SIZE outside
    [2^14, 2^24-1] => PROTOCOL_ERROR (no ACK is sent) -/
theorem c05_settings_value_errors (c : H2Conn) (v : Nat) (rest : List (Nat × Nat)) (hg : c.goaway ≤ 0) (hd : c.dead = false) :
    (v > 1 → ConnErr c (recvFrame c (.settings false 0 ((2, v) :: rest) 0)) E.protocol) ∧
    ((v : Int) > int32Max → ConnErr c (recvFrame c (.settings false 0 ((4, v) :: rest) 0)) E.flowControl) ∧
    ((v < 16384 ∨ v > 16777215) → ConnErr c (recvFrame c (.settings false 0 ((5, v) :: rest) 0)) E.protocol) := by
  have hng : ¬ c.goaway > 0 := by omega
  have fin : ∀ (code : Nat) (ps : List (Nat × Nat)), code ≠ 0 → applySettings c ps = sendGoaway c code →
      ConnErr c (recvFrame c (.settings false 0 ps 0)) code := by
    intro code ps hc happ
    have ob := sendGoaway_observable c code hc hg
    have hne : ¬ (sendGoaway c code).1.goaway = c.goaway := by rw [ob.2.1]; omega
    have hpos : ¬ (sendGoaway c code).1.goaway ≤ 0 := by omega
    refine ⟨?_, ?_⟩
    · simp only [recvFrame, hng, hd, Bool.false_eq_true, or_self, if_false, recvSettings, ne_eq, not_true_eq_false,
        Bool.not_false, if_true, happ, hne, false_and, List.append_nil, hpos]
      exact ob.1
    · simp only [recvFrame, hng, hd, Bool.false_eq_true, or_self, if_false, recvSettings, ne_eq, not_true_eq_false,
        Bool.not_false, if_true, happ, hne, false_and]
      exact ob.2.2
  refine ⟨fun h => fin _ _ (by decide) (by simp [applySettings, h]), fun h => fin _ _ (by decide) (by simp [applySettings, h]),
          fun h => fin _ _ (by decide) ?_⟩
  simp only [applySettings]
  have : ¬ ((5 : Nat) = 2 ∧ v > 1) := by omega
  simp [this, h]

/-- WINDOW_UPDATE on stream 0: increment 0 => PROTOCOL_ERROR, window above 2^31-1 =>
    FLOW_CONTROL_ERROR; on a stream they are stream errors (RST_STREAM), see `client_oracle` -/
theorem c05_window_update_errors (c : H2Conn) (inc : Nat) (hg : c.goaway ≤ 0) (hd : c.dead = false) :
    ConnErr c (recvFrame c (.windowUpdate 0 4 0)) E.protocol ∧
    (inc ≠ 0 → c.swin > int32Max - inc → ConnErr c (recvFrame c (.windowUpdate 0 4 inc)) E.flowControl) := by
  have hng : ¬ c.goaway > 0 := by omega
  refine ⟨?_, fun h1 h2 => ?_⟩
  · exact connErr_of_eq (by simp [recvFrame, hng, hd, recvWindowUpdate]) (by decide) hg
  · exact connErr_of_eq (by simp [recvFrame, hng, hd, recvWindowUpdate, h1, h2]) (by decide) hg

/-- a header block that does not decode (HPACK) on a new stream => GOAWAY(COMPRESSION_ERROR) whose
    last-stream-id is that stream -/
theorem c05_hpack_error (c : H2Conn) (sid : Nat) (es : Bool) (hodd : sid % 2 = 1) (hnew : sid > c.cid)
    (hg : c.goaway = 0) (hd : c.dead = false) (hfree : c.streams.length < Extracted.h2MaxStreams) :
    Out.goaway sid E.compression ∈ (recvFrame c (.headers sid .hpackBad es none false false)).2 ∧
    (recvFrame c (.headers sid .hpackBad es none false false)).1.goaway > 0 := by
  have hng : ¬ c.goaway > 0 := by omega
  have h1 : ¬ sid % 2 = 0 := by omega
  have h2 : ¬ sid ≤ c.cid := by omega
  have h3 : ¬ c.streams.length ≥ Extracted.h2MaxStreams := by omega
  have ob := sendGoaway_observable (addStrm c (mkStrm c sid es 0 0 (-1) false false)) E.compression (by decide)
    (by simp [addStrm, hg])
  have hcid : (addStrm c (mkStrm c sid es 0 0 (-1) false false)).cid = sid := rfl
  rw [hcid] at ob
  simp only [recvFrame, hng, hd, Bool.false_eq_true, or_self, if_false, recvHeaders, h1, h2, hg, ne_eq,
    not_true_eq_false, h3, newStream, reduceCtorEq, and_false]
  exact ⟨ob.1, ob.2.2⟩

/-- ... and likewise in a header block the server has no use for -- HEADERS for a refused stream,
    for a new stream after a graceful GOAWAY, trailers on a stream that is closed or no longer
    tracked (every use of `discardHeaders` in `recvHeaders`/`recvTrailers`): the block is still
    decoded, the HPACK state being the connection's, and a block that does not decode is
    GOAWAY(COMPRESSION_ERROR) (c908cdc; below the 32 discarded blocks that end the connection with
    ENHANCE_YOUR_CALM anyway) -/
theorem c05_hpack_error_discarded (c : H2Conn) (hg : c.goaway ≤ 0) (hn : c.nDiscarded < 32) :
    ConnErr c (discardHeaders c .hpackBad) E.compression := by
  have hng : ¬ c.goaway > 0 := by omega
  have hc : ¬ c.nDiscarded + 1 > 32 := by omega
  have ob := sendGoaway_observable { c with nDiscarded := c.nDiscarded + 1 } E.compression (by decide) hg
  simp only [ConnErr, discardHeaders, hng, if_false, discardCount, hc, List.nil_append]
  exact ⟨ob.1, ob.2.2⟩

/-- **Not a data sink, and no stall**: DATA (with payload) for a stream the server no longer
    tracks, outside the recently-half-closed window, draws ONE graceful GOAWAY(NO_ERROR) and ends
    the parsing round (streams are served before parsing goes on); once a GOAWAY is out such a frame
    is dropped WITHOUT ending the round -- ending it with nothing to write would strand the frames
    behind it (the defect repaired by ead0846) -/
theorem c05_data_sink_goaway_once (c : H2Conn) (sid len : Nat) (es : Bool)
    (h0 : sid ≠ 0) (hc : sid ≤ c.cid) (hn : findStrm c sid = none) (hr : c.hcRecent = false) (hl : len ≠ 0) :
    (c.goaway = 0 → (recvData c sid len none es).1.stop = true ∧
                    (recvData c sid len none es).2 = (sendGoaway c 0).2) ∧
    (c.goaway ≠ 0 → recvData c sid len none es = (c, [])) := by
  have hc' : ¬ c.cid < sid := by omega
  refine ⟨fun hg => ?_, fun hg => ?_⟩
  · simp [recvData, h0, hc', hn, hr, hl, hg]
  · simp [recvData, h0, hc', hn, hr, hl, hg]

/-! ## concurrency -/

/-- **Concurrency**: once the client has acknowledged the server's SETTINGS, a HEADERS frame for a
    new stream while the advertised number of streams are active (and none is about to be retired)
    is answered RST_STREAM(REFUSED_STREAM), and no stream is created -/
theorem c05_concurrency_refused (c : H2Conn) (sid : Nat) (kind : HdrKind) (es : Bool)
    (hodd : sid % 2 = 1) (hnew : sid > c.cid) (hg : c.goaway = 0) (hack : c.sentSettings = false)
    (hfull : c.streams.length ≥ Extracted.h2MaxStreams) :
    Out.rst sid E.refused ∈ (recvHeaders c sid kind es none false).2 ∧
    (recvHeaders c sid kind es none false).1.streams.length = c.streams.length := by
  have h1 : ¬ sid % 2 = 0 := by omega
  have h2 : ¬ sid ≤ c.cid := by omega
  have heq : recvHeaders c sid kind es none false = (refuseStream c sid).andThen (discardHeaders · kind) := by
    simp [recvHeaders, h1, h2, hg, hfull]
  rw [heq]
  refine ⟨?_, ?_⟩
  · simp [Res.andThen, refuseStream, hack]
  · rw [andThen_len _ _ (discardHeaders_len kind), refuseStream_len]

/-- ... before that acknowledgement (the client cannot know the limit yet): more than 100 streams
    (id above 200) => GOAWAY(ENHANCE_YOUR_CALM); otherwise the HEADERS frame is either left in the
    read queue while a stream can still make progress (`needsSlot`, windows of at least 2048
    octets -- below that nothing would be sent and the frames behind would never be read), or
    refused as above -/
theorem c05_concurrency_before_ack (c : H2Conn) (sid : Nat) (kind : HdrKind) (es : Bool)
    (hodd : sid % 2 = 1) (hnew : sid > c.cid) (hg : c.goaway = 0) (hd : c.dead = false) (hpre : c.sentSettings = true)
    (hfull : c.streams.length ≥ Extracted.h2MaxStreams) :
    (sid > 200 → ConnErr c (recvFrame c (.headers sid kind es none false false)) E.enhanceCalm) ∧
    (sid ≤ 200 → needsSlot c (.headers sid kind es none false false) = false →
       Out.rst sid E.refused ∈ (recvFrame c (.headers sid kind es none false false)).2) ∧
    (sid ≤ 200 → (c.streams.any fun s => s.reqLen = (s.bodyIn : Int) && s.swin ≥ 2048 && c.swin ≥ 2048) = true →
       needsSlot c (.headers sid kind es none false false) = true) := by
  have hng : ¬ c.goaway > 0 := by omega
  have h1 : ¬ sid % 2 = 0 := by omega
  have h2 : ¬ sid ≤ c.cid := by omega
  refine ⟨fun h => ?_, fun h _ => ?_, fun h hany => ?_⟩
  · have ob := sendGoaway_observable c E.enhanceCalm (by decide) (by omega)
    have hdis : discardHeaders (sendGoaway c E.enhanceCalm).1 kind = ((sendGoaway c E.enhanceCalm).1, []) := by
      simp [discardHeaders, ob.2.2]
    simp only [ConnErr, recvFrame, hng, hd, Bool.false_eq_true, or_self, if_false, recvHeaders, h1, h2, hg, ne_eq,
      not_true_eq_false, hfull, ge_iff_le, if_true, Res.andThen, refuseStream, hpre, h, and_self, hdis, List.append_nil]
    exact ⟨ob.1, ob.2.2⟩
  · have hn : ¬ sid > 200 := by omega
    simp [recvFrame, hng, hd, recvHeaders, h1, h2, hg, hfull, Res.andThen, refuseStream, hpre, hn]
  · simp only [needsSlot, hg, decide_true, hnew, hodd, Bool.not_false, Bool.and_true, Bool.true_and, ne_eq,
      reduceCtorEq, not_false_eq_true, hfull, ge_iff_le, hpre, h, hany, Bool.or_true]

/-- **Concurrency, for every reachable state**: whatever batches of frames arrive and
    however the scheduler runs, the server never tracks more streams than it advertised -/
theorem c05_concurrency_invariant : ∀ (batches : List (List FrameIn)) (c : H2Conn),
    c.streams.length ≤ Extracted.h2MaxStreams →
    (batches.foldl (fun c b => (h2Step c b).1) c).streams.length ≤ Extracted.h2MaxStreams := by
  intro batches
  induction batches with
  | nil => intro c h; simpa using h
  | cons b rest ih =>
    intro c h
    simp only [List.foldl_cons]
    apply ih
    -- one step: a batch, then stream processing
    unfold h2Step
    exact Nat.le_trans (processQuiesce_len_le _ _) (recvBatch_len_le _ _ h)

theorem c05_advertised_concurrency : Extracted.h2MaxStreams = Extracted.h2AdvMaxConcurrent := by decide


/-! non-vacuity -/
def exGet (sid body : Nat) : FrameIn := .headers sid (.request 200 body 0 false false) true none false false
example : (h2Step {} [exGet 1 10]).2 = [.headers 1 200 false, .data 1 10 false, .data 1 0 true] := by decide
example : (h2Step {} [exGet 1 10, .data 1 3 none true]).2 = [.rst 1 E.streamClosed, .windowUpdate 0 16384] := by decide
-- a history with noise: accepted by the monitor, and the monitor is not trivial (it rejects DATA before HEADERS)
example : (monAll {} (runOuts {} [[.priority 1 5 1, exGet 1 10], [.ping false 0 8 [1,2,3,4,5,6,7,8], exGet 3 0],
                                  [.data 1 3 none true, .windowUpdate 3 4 0]])).isSome = true := by decide
example : monAll {} [.data 1 10 false] = none ∧ monAll {} [.headers 1 200 true, .data 1 0 true] = none ∧
    monAll {} [.headers 1 200 false, .rst 1 0, .data 1 1 false] = none := by decide
-- PRIORITY making the idle stream 1 depend on itself: no RST_STREAM; the stream is served afterwards
example : (h2Step {} [.priority 1 5 1, exGet 1 10]).2 = [.headers 1 200 false, .data 1 10 false, .data 1 0 true] := by decide
-- outbound frame size: 100000 octets in frames of at most 16384 (memory) / 16375 (file), and of 32750 once the client allows 32768
example : (h2Step {} [exGet 1 100000]).2 =
    [.headers 1 200 false, .data 1 16384 false, .data 1 16366 false, .data 1 16384 false, .data 1 16366 false] := by decide
example : (h2Step {} [.settings false 0 [(5, 32768)] 0, exGet 1 100000]).2 =
    [.settingsAck, .headers 1 200 false, .data 1 32750 false, .data 1 32750 false] := by decide
example : dataSplit true 16384 32750 32750 = [16375, 16375] ∧ hpackSplit 16384 25035 25035 = [16384, 8651] := by decide
example : FsOk {} := ⟨by decide, by decide⟩
-- PING: the octets come back
example : (recvFrame {} (.ping false 0 8 [1,2,3,4,5,6,7,8])).2 = [.pingAck [1,2,3,4,5,6,7,8]] := by decide
example : flagSet 0 1 = false ∧ u31 0 = 0 := by decide
-- stream 1 answered and forgotten, stream 3 blocked by the connection window; then in one read two DATA
-- frames for stream 1, the WINDOW_UPDATEs stream 3 waits for, and a PING: one GOAWAY, PING acked, stream 3 completes
example : (h2Step (h2Step {} [exGet 1 10, exGet 3 100000]).1
             [.data 1 3 none false, .data 1 3 none false, .windowUpdate 3 4 100000, .windowUpdate 0 4 100000,
              .ping false 0 8 []]).2 =
    [.goaway 3 0, .pingAck [], .data 3 16384 false, .data 3 16366 false, .data 3 1750 false, .data 3 0 true] := by decide
/-- a stream with a pending response whose window the client raised to 2^31-1 -/
def exFull : H2Conn :=
  { streams := [{ id := 1, st := .hcRemote, swin := 2147483647, reqLen := 0, status := 200, pending := 100000,
                  headersSent := true }], cid := 1 }
example : exFull.goaway = 0 ∧
    (exFull.streams.any fun s => s.live && winOverflows s.swin (((65536 : Nat) : Int) - exFull.initWin)) = true := by decide
example : (recvFrame exFull (.settings false 0 [(4, 65536)] 0)).2 = [.goaway 1 E.flowControl] := by decide
example : (recvFrame exFull (.settings false 0 [(4, 65535)] 0)).2 = [.settingsAck] := by decide
example : (applySettings exFull [(4, 65535)]).1.goaway = exFull.goaway ∧ exFull.goaway ≤ 0 := by decide
/-- eight streams blocked by a zero window: the advertised limit is reached -/
def exEight : H2Conn :=
  (h2Step {} ([.settings false 0 [(4, 0)] 0] ++ (List.range 8).map fun i => exGet (2 * i + 1) 1000)).1
example : exEight.streams.length = Extracted.h2MaxStreams ∧ exEight.goaway = 0 ∧ exEight.cid = 15 ∧
    exEight.sentSettings = false := by decide +kernel
example : (recvFrame exEight (exGet 17 10)).2 = [.rst 17 E.refused] := by decide +kernel
-- the same burst before the SETTINGS ack: stream 203 => GOAWAY(ENHANCE_YOUR_CALM); stream 17: windows are 0 => refused
example : (recvFrame { exEight with sentSettings := true } (exGet 203 10)).2 = [.goaway 15 E.enhanceCalm] := by decide +kernel
example : (recvFrame { exEight with sentSettings := true } (exGet 17 10)).2 = [.rst 17 E.refused] := by decide +kernel
example : (exEight.streams.any fun s => s.reqLen = (s.bodyIn : Int) && s.swin ≥ 2048 && exEight.swin ≥ 2048) = false := by decide +kernel
-- PRIORITY_UPDATE: stream 5 gets urgency 1 and moves to the front
example : ((recvFrame exEight (.priorityUpdate 0 7 5 3)).1.streams.map (·.id)) = [5, 1, 3, 7, 9, 11, 13, 15] := by decide +kernel

/-! ## octets: every split of the byte stream across reads -/

/-- **Segmentation independence of the frame reader**: reading `a ++ b` at once gives the same
    reader state and the same frames / errors as reading `a`, then `b` -- for every state and
    every split. -/
theorem c05_reader_segmentation (st : RSt) (a b : Bytes) :
    readerFeed st (a ++ b) =
      ((readerFeed (readerFeed st a).1 b).1, (readerFeed st a).2 ++ (readerFeed (readerFeed st a).1 b).2) :=
  readerFeed_append st a b

/-- ... hence for ANY two non-empty lists of read segments with the same concatenation -/
theorem c05_reader_segmentation_all (st : RSt) (x y : Bytes) (xs ys : List Bytes)
    (h : (x :: xs).flatten = (y :: ys).flatten) :
    readerFeedSegs st (x :: xs) = readerFeedSegs st (y :: ys) := by
  rw [readerFeedSegs_cons, readerFeedSegs_cons]
  simp only [List.flatten_cons] at h
  rw [h]

/-- **Round trip**: for every list of well-formed raw frames within the advertised
    SETTINGS_MAX_FRAME_SIZE (HEADERS carrying END_HEADERS; CONTINUATION chains: next theorem),
    reading their serialisation yields exactly those frames, in order, and leaves an empty buffer -/
theorem c05_reader_roundtrip (fs : List RawFrame) (hw : ∀ f ∈ fs, WfRaw readerMaxFrame f) :
    readerFeed {} (fs.flatMap serialize) = (⟨[], false⟩, fs.map fun f => REv.frame f 0) := by
  unfold readerFeed
  simp only [Bool.false_eq_true, if_false, List.nil_append, List.length_nil, Nat.zero_add]
  exact drain_frames readerMaxFrame (by decide) fs hw _ (Nat.le_refl _)

/-- ... and by segmentation independence the same holds however the octets are cut -/
theorem c05_reader_roundtrip_segmented (fs : List RawFrame) (hw : ∀ f ∈ fs, WfRaw readerMaxFrame f)
    (x : Bytes) (xs : List Bytes) (h : (x :: xs).flatten = fs.flatMap serialize) :
    readerFeedSegs {} (x :: xs) = (⟨[], false⟩, fs.map fun f => REv.frame f 0) := by
  rw [readerFeedSegs_cons]
  simp only [List.flatten_cons] at h
  rw [h]
  exact c05_reader_roundtrip fs hw

/-- **CONTINUATION**: a header block cut into a HEADERS frame (no END_HEADERS, not padded) and
    any number >= 1 of CONTINUATION frames on the same stream (the last with END_HEADERS, each
    within the frame size limit, less than 64 KiB in all) is handed on as ONE HEADERS frame that
    carries the concatenated block and END_HEADERS -/
theorem c05_reader_continuation (sid flags : Nat) (hs : sid < 2147483648) (hfl : flags < 256)
    (h4 : flagSet flags 4 = false) (h8 : flagSet flags 8 = false)
    (p0 : Bytes) (ps : List Bytes) (hne : ps ≠ []) (hl : ∀ p ∈ p0 :: ps, p.length ≤ readerMaxFrame)
    (h64 : 9 + p0.length + ((contFrames sid ps).flatMap serialize).length < 65536) :
    readerFeed {} (serialize ⟨1, flags, sid, p0⟩ ++ (contFrames sid ps).flatMap serialize) =
      (⟨[], false⟩, [REv.frame ⟨1, flags + 4, sid, p0 ++ ps.flatten⟩ ps.length]) := by
  have hp := parseOne_continuation readerMaxFrame sid flags (by decide) hs hfl h4 h8 p0 ps hne hl [] h64
  rw [List.append_nil] at hp
  unfold readerFeed
  simp only [Bool.false_eq_true, if_false, List.nil_append, List.length_nil, Nat.zero_add]
  have hlen : (serialize (⟨1, flags, sid, p0⟩ : RawFrame) ++ (contFrames sid ps).flatMap serialize).length =
      (8 + p0.length + ((contFrames sid ps).flatMap serialize).length) + 1 := by
    simp only [List.length_append, serialize_length]; omega
  have hdrop : (serialize (⟨1, flags, sid, p0⟩ : RawFrame) ++ (contFrames sid ps).flatMap serialize).drop
      (9 + p0.length + ((contFrames sid ps).flatMap serialize).length) = [] := by
    apply List.drop_eq_nil_of_le
    simp only [List.length_append, serialize_length]; omega
  rw [hlen]
  simp only [drain, hp, hdrop]
  cases (8 + p0.length + ((contFrames sid ps).flatMap serialize).length) <;> simp [drain, parseOne_nil]

/-- ... and nothing but CONTINUATION may follow a HEADERS frame without END_HEADERS: the header
    of any other frame type is a connection PROTOCOL_ERROR as soon as its 9 octets are there -/
theorem c05_reader_continuation_required
    (hh : RawFrame) (hhw : hh.ftype = 1 ∧ hh.flags < 256 ∧ hh.sid < 4294967296 ∧ hh.payload.length ≤ readerMaxFrame)
    (h4 : flagSet hh.flags 4 = false) (hdr rest : Bytes) (h9 : hdr.length = 9) (hne : (fhdr hdr).ftype ≠ 9) :
    parseOne readerMaxFrame (serialize hh ++ hdr ++ rest) = .err E.protocol 0 := by
  have hlen : (serialize hh ++ hdr ++ rest).length = 9 + hh.payload.length + 9 + rest.length := by
    simp only [List.length_append, serialize_length, h9]
  have hs0 : slice (serialize hh ++ hdr ++ rest) 0 9 = hdr9 hh := by
    have := slice_mid_hdr [] (hdr ++ rest) hh
    simpa [List.append_assoc] using this
  have hsn : slice (serialize hh ++ hdr ++ rest) (9 + hh.payload.length) 9 = hdr := by
    unfold slice
    rw [List.append_assoc, List.drop_left' (serialize_length hh), List.take_left' h9]
  have hfh : fhdr (hdr9 hh) = ⟨hh.payload.length, hh.ftype, hh.flags, hh.sid⟩ :=
    fhdr_hdr9 hh (by have := hhw.2.2.2; have : readerMaxFrame < 16777216 := by decide
                     omega) (by rw [hhw.1]; decide) hhw.2.1 hhw.2.2.1
  unfold parseOne
  rw [hs0, hfh]
  simp only
  have c1 : ¬ (serialize hh ++ hdr ++ rest).length < 9 := by omega
  have c2 : ¬ hh.payload.length > readerMaxFrame := by have := hhw.2.2.2; omega
  have c3 : ¬ (serialize hh ++ hdr ++ rest).length < 9 + hh.payload.length := by omega
  simp only [c1, c2, c3, if_false, hhw.1, h4, and_self, if_true]
  have c4 : ¬ (serialize hh ++ hdr ++ rest).length < 9 + hh.payload.length + 9 := by omega
  rw [show contFuel = 7281 + 1 from rfl, contScan]
  simp only [c4, if_false, hsn, hne, ne_eq, not_false_eq_true, if_true]

/-- **Oversize**: a frame header announcing more than the advertised SETTINGS_MAX_FRAME_SIZE is a
    connection error FRAME_SIZE_ERROR as soon as its 9 octets are there (whatever follows, however
    little of the payload has arrived), and nothing after it is ever parsed -/
theorem c05_reader_oversize (st : RSt) (hdr rest : Bytes) (hb : st.buf = []) (hd : st.dead = false)
    (h9 : hdr.length = 9) (hbig : (fhdr hdr).len > Extracted.h2AdvMaxFrameSize) :
    readerFeed st (hdr ++ rest) = (⟨[], true⟩, [REv.err E.frameSize 0]) ∧
    ∀ more, readerFeed ⟨[], true⟩ more = (⟨[], true⟩, []) := by
  refine ⟨?_, fun more => by simp [readerFeed]⟩
  unfold readerFeed
  simp only [hd, hb, Bool.false_eq_true, if_false, List.nil_append, List.length_nil, Nat.zero_add]
  have hl : (hdr ++ rest).length = (8 + rest.length) + 1 := by simp [List.length_append, h9]; omega
  have hs : slice (hdr ++ rest) 0 9 = hdr := by
    unfold slice; rw [List.drop_zero, List.take_left' h9]
  have hp : parseOne readerMaxFrame (hdr ++ rest) = .err E.frameSize 0 := by
    unfold parseOne
    have h1 : ¬ (hdr ++ rest).length < 9 := by omega
    simp only [h1, if_false, hs]
    have h2 : (fhdr hdr).len > readerMaxFrame := hbig
    simp [h2]
  rw [hl]
  simp [drain, hp]

/-- **Padding** (h2_recv_data / h2_recv_headers): a Pad Length not smaller than the payload
    length is a connection PROTOCOL_ERROR; otherwise exactly the Pad Length octet and the
    padding are removed: `len - (1 + pad)` octets are credited to the request body of a DATA
    frame, and the header block handed to HPACK is the payload without its first octet and its
    last `pad` octets. -/
theorem c05_reader_padding (dec : Bytes → HdrKind) (c : H2Conn) (f : RawFrame)
    (hpad : flagSet f.flags 8 = true) (hg : ¬ c.goaway > 0) (hdead : c.dead = false) :
    -- DATA
    (f.ftype = 0 → u31 f.sid ≠ 0 → u31 f.sid ≤ c.cid →
      (be (slice f.payload 0 1) ≥ f.payload.length →
        recvFrame c (toFrameIn dec f) = sendGoaway c E.protocol) ∧
      (be (slice f.payload 0 1) < f.payload.length → ∀ s, findStrm c (u31 f.sid) = some s →
        recvFrame c (toFrameIn dec f) =
          recvDataStream c s (u31 f.sid) f.payload.length
            (f.payload.length - (1 + be (slice f.payload 0 1))) (flagSet f.flags 1))) ∧
    -- HEADERS (without PRIORITY fields)
    (f.ftype = 1 → flagSet f.flags 32 = false →
      (f.payload.length < 1 + be (slice f.payload 0 1) → u31 f.sid % 2 = 1 →
        recvFrame c (toFrameIn dec f) = sendGoaway c E.protocol) ∧
      (1 + be (slice f.payload 0 1) ≤ f.payload.length →
        toFrameIn dec f =
          .headers (u31 f.sid)
            (dec (slice f.payload 1 (f.payload.length - (1 + be (slice f.payload 0 1)))))
            (flagSet f.flags 1) none false false)) := by
  refine ⟨fun ht h0 hc => ⟨fun hge => ?_, fun hlt s hs => ?_⟩, fun ht hpr => ⟨fun hlt hodd => ?_, fun hle => ?_⟩⟩
  · have hc' : ¬ c.cid < u31 f.sid := by omega
    simp [toFrameIn, ht, hpad, recvFrame, hg, hdead, recvData, h0, hc', hge]
  · have hc' : ¬ c.cid < u31 f.sid := by omega
    have hnge : ¬ be (slice f.payload 0 1) ≥ f.payload.length := by omega
    simp [toFrameIn, ht, hpad, recvFrame, hg, hdead, recvData, h0, hc', hnge, hs]
  · have hne : ¬ u31 f.sid % 2 = 0 := by omega
    simp [toFrameIn, ht, hdrFrame, hpad, hlt, recvFrame, hg, hdead, recvHeaders, hne]
  · have hnlt : ¬ f.payload.length < 1 + be (slice f.payload 0 1) := by omega
    simp [toFrameIn, ht, hdrFrame, hpad, hpr, hnlt]

/-- **The byte-level connection refines the frame-level one**: a step fed as ANY non-empty list
    of read segments is the frame-level step `h2Step` on the frames (and reader errors) that the
    reader extracts from the concatenated octets.  Every frame-level theorem above therefore
    speaks about byte streams under every segmentation. -/
theorem c05_bytes_refine_frames (dec : Bytes → HdrKind) (s : BConn) (x : Bytes) (xs : List Bytes) :
    h2StepBytes dec s (x :: xs) =
      (⟨(readerFeed s.rd (x ++ xs.flatten)).1,
        (h2Step s.c ((readerFeed s.rd (x ++ xs.flatten)).2.flatMap (evFrames dec))).1⟩,
       (h2Step s.c ((readerFeed s.rd (x ++ xs.flatten)).2.flatMap (evFrames dec))).2) := by
  simp only [h2StepBytes, feedSegs_cons, feedSeg, h2Step]

/-- **Outcome independent of the read segmentation, for a step without scheduling between its
    reads**: two ways of cutting the same octets of ONE step (`h2StepBytes`: all reads of the step,
    then the scheduler) give the same state and the same frames.  The real server runs the
    scheduler after every read; across reads that interleave with scheduling the outcome
    legitimately depends on timing (a stream answered in between is gone), and what holds there is
    `c05_reader_segmentation` (the frames the reader delivers do not depend on the cuts) together
    with the theorems over ARBITRARY step histories (`c05_history_legal_bytes`,
    `c05_concurrency_invariant_bytes`, `c05_conn_error_terminal_bytes`), which contain every such
    schedule: a read followed by scheduling is a step of one segment. -/
theorem c05_step_segmentation (dec : Bytes → HdrKind) (s : BConn) (x y : Bytes) (xs ys : List Bytes)
    (h : (x :: xs).flatten = (y :: ys).flatten) :
    h2StepBytes dec s (x :: xs) = h2StepBytes dec s (y :: ys) := by
  rw [c05_bytes_refine_frames, c05_bytes_refine_frames]
  simp only [List.flatten_cons] at h
  rw [h]

/-- **Concurrency over byte streams**: whatever octets arrive in whatever read segments, the
    server never tracks more streams than it advertised -/
theorem c05_concurrency_invariant_bytes (dec : Bytes → HdrKind) :
    ∀ (steps : List (List Bytes)) (s : BConn),
      s.c.streams.length ≤ Extracted.h2MaxStreams →
      (steps.foldl (fun s segs => (h2StepBytes dec s segs).1) s).c.streams.length ≤ Extracted.h2MaxStreams := by
  intro steps
  induction steps with
  | nil => intro s h; simpa using h
  | cons segs rest ih =>
    intro s h
    simp only [List.foldl_cons]
    apply ih
    simp only [h2StepBytes]
    exact Nat.le_trans (processQuiesce_len_le _ _) (feedSegs_len_le dec segs s h)

/-- **Connection errors are terminal for octets too**: once an error GOAWAY is out, no octet in
    no later step has any effect on what is emitted -/
theorem c05_conn_error_terminal_bytes (dec : Bytes → HdrKind) (s : BConn) (segs : List Bytes)
    (hg : s.c.goaway > 0) :
    (h2StepBytes dec s segs).2 = [] ∧ (h2StepBytes dec s segs).1.c.goaway > 0 := by
  have hfeed : ∀ (segs : List Bytes) (s : BConn), s.c.goaway > 0 →
      (feedSegs dec s segs).2 = [] ∧ (feedSegs dec s segs).1.c.goaway > 0 := by
    intro segs
    induction segs with
    | nil => intro s h; exact ⟨rfl, h⟩
    | cons x xs ih =>
      intro s h
      have h1 := recvBatch_term ((readerFeed s.rd x).2.flatMap (evFrames dec)) s.c h
      have h2 := ih (feedSeg dec s x).1 (by simpa [feedSeg] using h1.2)
      refine ⟨?_, h2.2⟩
      simp only [feedSegs, h2.1, List.append_nil]
      simpa [feedSeg] using h1.1
  have h1 := hfeed segs s hg
  have h2 := quiesce_term 100000 _ h1.2
  exact ⟨by simp [h2StepBytes, h1.1, h2.1], by simpa [h2StepBytes] using h2.2⟩

/-! non-vacuity, octets -/
def exPing : Bytes := [0,0,8, 6, 0, 0,0,0,0, 1,2,3,4,5,6,7,8]
def exDec : Bytes → HdrKind := fun b => if b = [0x82] then .request 200 10 0 false false else .hpackBad
/-- HEADERS(stream 1, END_STREAM) without END_HEADERS, fragment [], + CONTINUATION(END_HEADERS) [0x82] -/
def exReq : Bytes := [0,0,0, 1, 1, 0,0,0,1] ++ [0,0,1, 9, 4, 0,0,0,1, 0x82]

example : readerFeed {} (exPing.take 5 ++ exPing.drop 5) = (⟨[], false⟩, [.frame ⟨6, 0, 0, [1,2,3,4,5,6,7,8]⟩ 0]) := by decide
example : (readerFeed {} (exPing.take 5)).1 = ⟨exPing.take 5, false⟩ := by decide
example : readerFeedSegs {} [exPing.take 1, exPing.drop 1 ++ exPing.take 12, exPing.drop 12] =
    (⟨[], false⟩, [.frame ⟨6, 0, 0, [1,2,3,4,5,6,7,8]⟩ 0, .frame ⟨6, 0, 0, [1,2,3,4,5,6,7,8]⟩ 0]) := by decide
example : WfRaw readerMaxFrame ⟨6, 0, 0, [1,2,3,4,5,6,7,8]⟩ := ⟨by decide, by decide, by decide, by decide, by decide⟩
example : serialize ⟨6, 0, 0, [1,2,3,4,5,6,7,8]⟩ = exPing := by decide
example : (fhdr [0,64,1, 0, 0, 0,0,0,1]).len > Extracted.h2AdvMaxFrameSize := by decide
example : readerFeed {} ([0,64,1, 0, 0, 0,0,0,1] ++ exPing) = (⟨[], true⟩, [.err E.frameSize 0]) := by decide
example : readerFeed {} exReq = (⟨[], false⟩, [.frame ⟨1, 5, 1, [0x82]⟩ 1]) := by decide
example : exReq = serialize ⟨1, 1, 1, []⟩ ++ (contFrames 1 [[0x82]]).flatMap serialize := by decide
example : parseOne readerMaxFrame (serialize ⟨1, 1, 1, []⟩ ++ exPing) = .err E.protocol 0 := by decide
-- padded DATA: Pad Length 9 in a 5-octet payload; Pad Length 2 in a 5-octet payload
example : flagSet 8 8 = true ∧ be (slice [9,1,2,3,4] 0 1) ≥ ([9,1,2,3,4] : Bytes).length := by decide
example : toFrameIn exDec ⟨0, 9, 1, [2,100,100,0,0]⟩ = .data 1 5 (some 2) true := by decide
example : toFrameIn exDec ⟨1, 0x0d, 1, [2,0x82,0,0]⟩ = .headers 1 (.request 200 10 0 false false) true none false false := by decide
-- a whole request arriving in three reads cut inside the frame headers
example : (h2StepBytes exDec {} [exReq.take 4, (exReq.drop 4).take 9, exReq.drop 13]).2 =
    [.headers 1 200 false, .data 1 10 false, .data 1 0 true] := by decide
example : (h2StepBytes exDec {} [exReq]).2 = [.headers 1 200 false, .data 1 10 false, .data 1 0 true] := by decide
-- after a connection error nothing is read
example : ((h2StepBytes exDec {} [[0,0,0, 9, 4, 0,0,0,1] ++ exReq]).2, (h2StepBytes exDec {} [[0,0,0, 9, 4, 0,0,0,1] ++ exReq]).1.c.dead)
    = ([.goaway 0 E.protocol], true) := by decide

end LtVerif.C05
