/-
  C05 — HTTP/2: every emitted frame is legal for the connection and stream state.
  Property theorems over Model/H2.lean (frames) and Model/H2Reader.lean (octets, read segments);
  helper lemmas in Proofs/H2.lean and Proofs/H2Reader.lean.
-/
import LtVerif.Proofs.H2
import LtVerif.Proofs.H2Reader
namespace LtVerif.C05
open LtVerif

/-! ## connection errors are terminal -/

/-- nothing is parsed, and hence no stream is created or answered, after an error GOAWAY -/
theorem c05_conn_error_terminal_recv (c : H2Conn) (f : FrameIn) (h : c.goaway > 0) :
    recvFrame c f = (c, []) := by
  simp [recvFrame, h]

/-- after an error GOAWAY the streams are retired without emitting any frame -/
theorem c05_conn_error_terminal_send (c : H2Conn) (budget : Nat) (h : c.goaway > 0) :
    (processPass c budget).2 = [] ∧ (processPass c budget).1.streams = [] ∨
    (processPass c budget) = (c, []) := by
  unfold processPass
  by_cases hd : c.dead = true
  · right; simp [hd]
  · left; simp [hd, h]

/-! ## the receive side only ever answers with control frames -/

/-- whatever frame arrives in whatever state, the frames sent in direct response are control
    frames (SETTINGS ack, PING ack, WINDOW_UPDATE, RST_STREAM, GOAWAY): response HEADERS and
    DATA are only produced by the stream scheduler below -/
theorem c05_recv_emits_only_control (c : H2Conn) (f : FrameIn) :
    ∀ o ∈ (recvFrame c f).2, o.isCtl = true :=
  recvFrame_ctl c f

/-! ## per-stream legality of what the scheduler emits -/

/-- RFC 9113 §5.1 monitor for the frames a server sends on one stream -/
inductive Phase | idle | open | ended
deriving Repr, DecidableEq

def monStep (sid : Nat) : Option Phase → Out → Option Phase
  | none, _ => none
  | some p, .headers i _ es =>
    if i ≠ sid then none else
    match p with
    | .idle => some (if es then .ended else .open)
    | _ => none                        -- a second HEADERS block / HEADERS after END_STREAM
  | some p, .data i _ es =>
    if i ≠ sid then none else
    match p with
    | .open => some (if es then .ended else .open)
    | _ => none                        -- DATA before HEADERS or after END_STREAM
  | some _, .rst i _ => if i ≠ sid then none else some .ended   -- RST_STREAM may always follow
  | some _, _ => none                  -- the scheduler emits nothing else

def monRun (sid : Nat) (p : Phase) (o : List Out) : Option Phase := o.foldl (monStep sid) (some p)

def phaseOf (s : Strm) : Phase := if s.headersSent then .open else .idle

/-- **Stream legality**: a stream's turn emits only frames of that stream, HEADERS first if
    they were not sent yet, DATA only after HEADERS, END_STREAM at most once and nothing but
    RST_STREAM after it; a stream that got END_STREAM (or was reset) is retired, a stream
    that stays has its HEADERS sent and is still open. -/
theorem c05_stream_turn_legal (cswin : Int) (budget : Nat) (s : Strm) (hne : s.err = false) :
    ∃ p, monRun s.id (phaseOf s) (strmTurn cswin budget s).2.1 = some p ∧
      (match (strmTurn cswin budget s).1 with
       | none => True
       | some s' => p = .open ∧ s'.headersSent = true ∧ s'.id = s.id ∧ s'.err = false) := by
  unfold strmTurn
  simp only [hne, Bool.false_eq_true, if_false]
  generalize hn : turnAmount cswin budget s = n
  obtain ⟨id, st, err, swin, reqLen, bodyIn, fudge, status, pending, headersSent, incremental⟩ := s
  simp only at hne ⊢
  subst hne
  by_cases hn0 : n = 0
  · subst hn0
    by_cases hp0 : pending = 0
    · subst hp0
      cases headersSent <;> cases st <;>
        simp [sendHdrs, endStream, monRun, monStep, phaseOf, List.foldl]
    · cases headersSent <;>
        simp [hp0, sendHdrs, monRun, monStep, phaseOf, List.foldl]
  · by_cases hp : pending - n = 0
    · by_cases hp0 : pending = 0
      · subst hp0
        exact absurd (by simpa [turnAmount] using hn.symm) hn0
      · cases headersSent <;> cases st <;>
          simp [hp, hp0, hn0, sendHdrs, endStream, monRun, monStep, phaseOf, List.foldl]
    · have hp0 : pending ≠ 0 := by omega
      cases headersSent <;>
        simp [hp, hp0, hn0, sendHdrs, monRun, monStep, phaseOf, List.foldl]

/-- a stream in error state is retired with at most an RST_STREAM — never HEADERS or DATA -/
theorem c05_error_stream_retired (cswin : Int) (budget : Nat) (s : Strm) (he : s.err = true) :
    (strmTurn cswin budget s).1 = none ∧ ∀ o ∈ (strmTurn cswin budget s).2.1, o.isCtl = true := by
  unfold strmTurn
  simp only [he, if_true]
  refine ⟨trivial, ?_⟩
  unfold endStream
  by_cases hc : s.st = .closed
  · simp [hc]
  · simp only [hc, he, if_false, if_true]
    intro o ho
    simp only [List.mem_singleton] at ho
    subst ho; rfl

/-! ## acknowledgements -/

/-- a well-formed SETTINGS frame (stream 0, whole parameters) that raises no connection error
    is answered with exactly one SETTINGS ACK and nothing else (a parameter that RFC 9113 makes
    a connection error -- ENABLE_PUSH > 1, INITIAL_WINDOW_SIZE > 2^31-1 or taking any live
    stream's window out of range, MAX_FRAME_SIZE out of range -- changes `goaway`) -/
theorem c05_settings_acked (c : H2Conn) (ps : List (Nat × Nat))
    (hok : (applySettings c ps).1.goaway = c.goaway) (hg : c.goaway ≤ 0) :
    (recvSettings c false 0 ps 0).2 = [Out.settingsAck] := by
  unfold recvSettings
  simp [hok, hg, applySettings_quiet ps c hg hok]

/-- RFC 9113 6.9.2: a SETTINGS_INITIAL_WINDOW_SIZE change that would take the send window of ANY
    live stream above 2^31-1 is a connection error FLOW_CONTROL_ERROR, and no ACK is sent -/
theorem c05_settings_window_overflow (c : H2Conn) (v : Nat) (rest : List (Nat × Nat)) (hv : (v : Int) ≤ int32Max)
    (hg : c.goaway = 0) (hov : c.streams.any (fun s => s.live && winOverflows s.swin ((v : Int) - c.initWin)) = true) :
    applySettings c ((4, v) :: rest) = sendGoaway c E.flowControl ∧
    Out.goaway c.cid E.flowControl ∈ (recvSettings c false 0 ((4, v) :: rest) 0).2 ∧
    Out.settingsAck ∉ (recvSettings c false 0 ((4, v) :: rest) 0).2 := by
  have hnv : ¬ (v : Int) > int32Max := by omega
  have happ : applySettings c ((4, v) :: rest) = sendGoaway c E.flowControl := by
    simp [applySettings, hnv, hov]
  have hgo : (sendGoaway c E.flowControl).1.goaway = (E.flowControl : Int) :=
    sendGoaway_goaway c E.flowControl (by decide) (by omega)
  have hres : goawayResets c E.flowControl =
      ((c.streams.filter (·.st ≠ .closed)).foldl (fun c s => rstState c s.id) c, []) := by
    simp [goawayResets, hg, E.flowControl]
  have hcid : ∀ (l : List Strm) (c' : H2Conn), (l.foldl (fun c s => rstState c s.id) c').cid = c'.cid ∧
      (l.foldl (fun c s => rstState c s.id) c').goaway = c'.goaway := by
    intro l
    induction l with
    | nil => intro c'; exact ⟨rfl, rfl⟩
    | cons x xs ih =>
      intro c'
      simp only [List.foldl_cons]
      have h1 := ih (rstState c' x.id)
      have h2 : (rstState c' x.id).cid = c'.cid ∧ (rstState c' x.id).goaway = c'.goaway := by
        unfold rstState
        split
        · exact ⟨rfl, rfl⟩
        · simp only [updStrm]; split <;> exact ⟨rfl, rfl⟩
      exact ⟨h1.1.trans h2.1, h1.2.trans h2.2⟩
  have hout : (sendGoaway c E.flowControl).2 = [Out.goaway c.cid E.flowControl] := by
    unfold sendGoaway
    simp only [hres]
    have hc := hcid (c.streams.filter (·.st ≠ .closed)) c
    have : ¬ ((List.foldl (fun c s => rstState c s.id) c (c.streams.filter (·.st ≠ .closed))).goaway ≠ 0 ∧
        ((List.foldl (fun c s => rstState c s.id) c (c.streams.filter (·.st ≠ .closed))).goaway > 0 ∨
          E.flowControl = 0)) := by
      rw [hc.2, hg]; simp
    rw [if_neg this]
    simp only [List.nil_append, hc.1]
  refine ⟨happ, ?_, ?_⟩
  · unfold recvSettings
    simp [happ, hout]
  · have hpos : ¬ (sendGoaway c E.flowControl).1.goaway ≤ 0 := by rw [hgo]; decide
    have hne : ¬ (sendGoaway c E.flowControl).1.goaway = c.goaway := by rw [hgo, hg]; decide
    unfold recvSettings
    simp [happ, hout, hpos, hne]

/-- a PING (stream 0, 8 octets, not an ACK) is echoed with ACK; a PING ACK is not answered -/
theorem c05_ping_echoed (c : H2Conn) : (recvPing c false 0 8).2 = [Out.pingAck] ∧ (recvPing c true 0 8).2 = [] := by
  simp [recvPing]

/-! ## frame validation: the RFC-mandated error for each malformed frame -/

theorem c05_frame_size_errors (c : H2Conn) (sid len x : Nat) :
    (len ≠ 8 → ∃ r, recvPing c false sid len = sendGoaway c E.frameSize ∧ r = ()) ∧
    (len ≠ 4 → recvWindowUpdate c sid len x = sendGoaway c E.frameSize) ∧
    (len ≠ 4 → recvRstStream c sid len = sendGoaway c E.frameSize) ∧
    (len ≠ 5 → recvPriority c sid len x = sendGoaway c E.frameSize) ∧
    (len < 8 → recvGoaway c sid len x = sendGoaway c E.frameSize) := by
  refine ⟨fun h => ⟨(), by simp [recvPing, h], rfl⟩, fun h => by simp [recvWindowUpdate, h],
          fun h => by simp [recvRstStream, h], fun h => by simp [recvPriority, h],
          fun h => by simp [recvGoaway, h]⟩

theorem c05_stream_zero_errors (c : H2Conn) (x : Nat) (ps : List (Nat × Nat)) (sid : Nat) (h0 : sid ≠ 0) :
    recvSettings c false sid ps 0 = sendGoaway c E.protocol ∧
    recvPing c false sid 8 = sendGoaway c E.protocol ∧
    recvGoaway c sid 8 x = sendGoaway c E.protocol ∧
    recvRstStream c 0 4 = sendGoaway c E.protocol ∧
    recvPriority c 0 5 x = sendGoaway c E.protocol ∧
    recvData c 0 x none false = sendGoaway c E.protocol := by
  refine ⟨by simp [recvSettings, h0], by simp [recvPing, h0], by simp [recvGoaway, h0],
          by simp [recvRstStream], by simp [recvPriority], by simp [recvData]⟩

/-- stream identifiers: a client stream id must be odd; DATA for an id above every id seen
    (idle stream) is a connection error; stray CONTINUATION and PUSH_PROMISE are connection errors -/
theorem c05_stream_id_rules (c : H2Conn) (sid : Nat) (kind : HdrKind) (es : Bool) (len : Nat)
    (hg : ¬ c.goaway > 0) (hd : c.dead = false) :
    (sid % 2 = 0 → recvHeaders c sid kind es none false = sendGoaway c E.protocol) ∧
    (c.cid < sid → recvData c sid len none es = sendGoaway c E.protocol) ∧
    recvFrame c (.continuation sid) = sendGoaway c E.protocol ∧
    recvFrame c (.pushPromise sid) = sendGoaway c E.protocol ∧
    recvFrame c .oversize = sendGoaway c E.frameSize := by
  refine ⟨fun h => by simp [recvHeaders, h], fun h => by simp [recvData, h],
          by simp [recvFrame, hg, hd], by simp [recvFrame, hg, hd], by simp [recvFrame, hg, hd]⟩

/-- **Not a data sink, and no stall**: DATA (with payload) for a stream the server no longer
    tracks, outside the recently-half-closed window, draws ONE graceful GOAWAY(NO_ERROR) and ends
    the parsing round (streams are served before parsing goes on); once a GOAWAY is out such a frame
    is dropped WITHOUT ending the round -- ending it with nothing to write would strand the frames
    behind it (the defect repaired by ead0846) -/
theorem c05_data_sink_goaway_once (c : H2Conn) (sid len : Nat) (es : Bool)
    (h0 : sid ≠ 0) (hc : sid ≤ c.cid) (hn : findStrm c sid = none) (hr : c.hcRecent = false) (hl : len ≠ 0) :
    (c.goaway = 0 → (recvData c sid len none es).1.stop = true ∧
                    (recvData c sid len none es).2 = (sendGoaway c 0).2) ∧
    (c.goaway ≠ 0 → recvData c sid len none es = (c, [])) := by
  have hc' : ¬ c.cid < sid := by omega
  refine ⟨fun hg => ?_, fun hg => ?_⟩
  · simp [recvData, h0, hc', hn, hr, hl, hg]
  · simp [recvData, h0, hc', hn, hr, hl, hg]

/-- **Concurrency**: a new stream is admitted only while fewer than the advertised number of
    streams (SETTINGS_MAX_CONCURRENT_STREAMS, read back from the code) are active; otherwise it
    is refused with RST_STREAM(REFUSED_STREAM) and no stream is created -/
theorem c05_concurrency_refused (c : H2Conn) (sid : Nat) (kind : HdrKind) (es : Bool)
    (hodd : sid % 2 = 1) (hnew : sid > c.cid) (hg : c.goaway = 0)
    (hfull : c.streams.length ≥ Extracted.h2MaxStreams) :
    recvHeaders c sid kind es none false = (refuseStream c sid).andThen discardHeaders ∧
    Out.rst sid E.refused ∈ (recvHeaders c sid kind es none false).2 := by
  have h1 : ¬ sid % 2 = 0 := by omega
  have h2 : ¬ sid ≤ c.cid := by omega
  have heq : recvHeaders c sid kind es none false = (refuseStream c sid).andThen discardHeaders := by
    simp [recvHeaders, h1, h2, hg, hfull]
  refine ⟨heq, ?_⟩
  rw [heq]
  simp [Res.andThen, refuseStream]

/-- **Concurrency, for every reachable state**: whatever batches of frames arrive and
    however the scheduler runs, the server never tracks more streams than it advertised -/
theorem c05_concurrency_invariant : ∀ (batches : List (List FrameIn)) (c : H2Conn),
    c.streams.length ≤ Extracted.h2MaxStreams →
    (batches.foldl (fun c b => (h2Step c b).1) c).streams.length ≤ Extracted.h2MaxStreams := by
  intro batches
  induction batches with
  | nil => intro c h; simpa using h
  | cons b rest ih =>
    intro c h
    simp only [List.foldl_cons]
    apply ih
    -- one step: a batch, then stream processing
    unfold h2Step
    exact Nat.le_trans (processQuiesce_len_le _ _) (recvBatch_len_le _ _ h)

theorem c05_advertised_concurrency : Extracted.h2MaxStreams = Extracted.h2AdvMaxConcurrent := by decide


/-! ## octets: every split of the byte stream across reads -/

/-- **Segmentation independence of the frame reader**: reading `a ++ b` at once gives the same
    reader state and the same frames / errors as reading `a`, then `b` -- for every state and
    every split. -/
theorem c05_reader_segmentation (st : RSt) (a b : Bytes) :
    readerFeed st (a ++ b) =
      ((readerFeed (readerFeed st a).1 b).1, (readerFeed st a).2 ++ (readerFeed (readerFeed st a).1 b).2) :=
  readerFeed_append st a b

/-- ... hence for ANY two non-empty lists of read segments with the same concatenation -/
theorem c05_reader_segmentation_all (st : RSt) (x y : Bytes) (xs ys : List Bytes)
    (h : (x :: xs).flatten = (y :: ys).flatten) :
    readerFeedSegs st (x :: xs) = readerFeedSegs st (y :: ys) := by
  rw [readerFeedSegs_cons, readerFeedSegs_cons]
  simp only [List.flatten_cons] at h
  rw [h]

/-- **Round trip**: for every list of well-formed raw frames within the advertised
    SETTINGS_MAX_FRAME_SIZE (HEADERS carrying END_HEADERS; CONTINUATION chains: next theorem),
    reading their serialisation yields exactly those frames, in order, and leaves an empty buffer -/
theorem c05_reader_roundtrip (fs : List RawFrame) (hw : ∀ f ∈ fs, WfRaw readerMaxFrame f) :
    readerFeed {} (fs.flatMap serialize) = (⟨[], false⟩, fs.map fun f => REv.frame f 0) := by
  unfold readerFeed
  simp only [Bool.false_eq_true, if_false, List.nil_append, List.length_nil, Nat.zero_add]
  exact drain_frames readerMaxFrame (by decide) fs hw _ (Nat.le_refl _)

/-- ... and by segmentation independence the same holds however the octets are cut -/
theorem c05_reader_roundtrip_segmented (fs : List RawFrame) (hw : ∀ f ∈ fs, WfRaw readerMaxFrame f)
    (x : Bytes) (xs : List Bytes) (h : (x :: xs).flatten = fs.flatMap serialize) :
    readerFeedSegs {} (x :: xs) = (⟨[], false⟩, fs.map fun f => REv.frame f 0) := by
  rw [readerFeedSegs_cons]
  simp only [List.flatten_cons] at h
  rw [h]
  exact c05_reader_roundtrip fs hw

/-- **CONTINUATION**: a header block cut into a HEADERS frame (no END_HEADERS, not padded) and
    any number >= 1 of CONTINUATION frames on the same stream (the last with END_HEADERS, each
    within the frame size limit, less than 64 KiB in all) is handed on as ONE HEADERS frame that
    carries the concatenated block and END_HEADERS -/
theorem c05_reader_continuation (sid flags : Nat) (hs : sid < 2147483648) (hfl : flags < 256)
    (h4 : flagSet flags 4 = false) (h8 : flagSet flags 8 = false)
    (p0 : Bytes) (ps : List Bytes) (hne : ps ≠ []) (hl : ∀ p ∈ p0 :: ps, p.length ≤ readerMaxFrame)
    (h64 : 9 + p0.length + ((contFrames sid ps).flatMap serialize).length < 65536) :
    readerFeed {} (serialize ⟨1, flags, sid, p0⟩ ++ (contFrames sid ps).flatMap serialize) =
      (⟨[], false⟩, [REv.frame ⟨1, flags + 4, sid, p0 ++ ps.flatten⟩ ps.length]) := by
  have hp := parseOne_continuation readerMaxFrame sid flags (by decide) hs hfl h4 h8 p0 ps hne hl [] h64
  rw [List.append_nil] at hp
  unfold readerFeed
  simp only [Bool.false_eq_true, if_false, List.nil_append, List.length_nil, Nat.zero_add]
  have hlen : (serialize (⟨1, flags, sid, p0⟩ : RawFrame) ++ (contFrames sid ps).flatMap serialize).length =
      (8 + p0.length + ((contFrames sid ps).flatMap serialize).length) + 1 := by
    simp only [List.length_append, serialize_length]; omega
  have hdrop : (serialize (⟨1, flags, sid, p0⟩ : RawFrame) ++ (contFrames sid ps).flatMap serialize).drop
      (9 + p0.length + ((contFrames sid ps).flatMap serialize).length) = [] := by
    apply List.drop_eq_nil_of_le
    simp only [List.length_append, serialize_length]; omega
  rw [hlen]
  simp only [drain, hp, hdrop]
  cases (8 + p0.length + ((contFrames sid ps).flatMap serialize).length) <;> simp [drain, parseOne_nil]

/-- ... and nothing but CONTINUATION may follow a HEADERS frame without END_HEADERS: the header
    of any other frame type is a connection PROTOCOL_ERROR as soon as its 9 octets are there -/
theorem c05_reader_continuation_required
    (hh : RawFrame) (hhw : hh.ftype = 1 ∧ hh.flags < 256 ∧ hh.sid < 4294967296 ∧ hh.payload.length ≤ readerMaxFrame)
    (h4 : flagSet hh.flags 4 = false) (hdr rest : Bytes) (h9 : hdr.length = 9) (hne : (fhdr hdr).ftype ≠ 9) :
    parseOne readerMaxFrame (serialize hh ++ hdr ++ rest) = .err E.protocol 0 := by
  have hlen : (serialize hh ++ hdr ++ rest).length = 9 + hh.payload.length + 9 + rest.length := by
    simp only [List.length_append, serialize_length, h9]
  have hs0 : slice (serialize hh ++ hdr ++ rest) 0 9 = hdr9 hh := by
    have := slice_mid_hdr [] (hdr ++ rest) hh
    simpa [List.append_assoc] using this
  have hsn : slice (serialize hh ++ hdr ++ rest) (9 + hh.payload.length) 9 = hdr := by
    unfold slice
    rw [List.append_assoc, List.drop_left' (serialize_length hh), List.take_left' h9]
  have hfh : fhdr (hdr9 hh) = ⟨hh.payload.length, hh.ftype, hh.flags, hh.sid⟩ :=
    fhdr_hdr9 hh (by have := hhw.2.2.2; have : readerMaxFrame < 16777216 := by decide
                     omega) (by rw [hhw.1]; decide) hhw.2.1 hhw.2.2.1
  unfold parseOne
  rw [hs0, hfh]
  simp only
  have c1 : ¬ (serialize hh ++ hdr ++ rest).length < 9 := by omega
  have c2 : ¬ hh.payload.length > readerMaxFrame := by have := hhw.2.2.2; omega
  have c3 : ¬ (serialize hh ++ hdr ++ rest).length < 9 + hh.payload.length := by omega
  simp only [c1, c2, c3, if_false, hhw.1, h4, and_self, if_true]
  have c4 : ¬ (serialize hh ++ hdr ++ rest).length < 9 + hh.payload.length + 9 := by omega
  rw [show contFuel = 7281 + 1 from rfl, contScan]
  simp only [c4, if_false, hsn, hne, ne_eq, not_false_eq_true, if_true]

/-- **Oversize**: a frame header announcing more than the advertised SETTINGS_MAX_FRAME_SIZE is a
    connection error FRAME_SIZE_ERROR as soon as its 9 octets are there (whatever follows, however
    little of the payload has arrived), and nothing after it is ever parsed -/
theorem c05_reader_oversize (st : RSt) (hdr rest : Bytes) (hb : st.buf = []) (hd : st.dead = false)
    (h9 : hdr.length = 9) (hbig : (fhdr hdr).len > Extracted.h2AdvMaxFrameSize) :
    readerFeed st (hdr ++ rest) = (⟨[], true⟩, [REv.err E.frameSize 0]) ∧
    ∀ more, readerFeed ⟨[], true⟩ more = (⟨[], true⟩, []) := by
  refine ⟨?_, fun more => by simp [readerFeed]⟩
  unfold readerFeed
  simp only [hd, hb, Bool.false_eq_true, if_false, List.nil_append, List.length_nil, Nat.zero_add]
  have hl : (hdr ++ rest).length = (8 + rest.length) + 1 := by simp [List.length_append, h9]; omega
  have hs : slice (hdr ++ rest) 0 9 = hdr := by
    unfold slice; rw [List.drop_zero, List.take_left' h9]
  have hp : parseOne readerMaxFrame (hdr ++ rest) = .err E.frameSize 0 := by
    unfold parseOne
    have h1 : ¬ (hdr ++ rest).length < 9 := by omega
    simp only [h1, if_false, hs]
    have h2 : (fhdr hdr).len > readerMaxFrame := hbig
    simp [h2]
  rw [hl]
  simp [drain, hp]

/-- **Padding** (h2_recv_data / h2_recv_headers): a Pad Length not smaller than the payload
    length is a connection PROTOCOL_ERROR; otherwise exactly the Pad Length octet and the
    padding are removed: `len - (1 + pad)` octets are credited to the request body of a DATA
    frame, and the header block handed to HPACK is the payload without its first octet and its
    last `pad` octets. -/
theorem c05_reader_padding (dec : Bytes → HdrKind) (c : H2Conn) (f : RawFrame)
    (hpad : flagSet f.flags 8 = true) (hg : ¬ c.goaway > 0) (hdead : c.dead = false) :
    -- DATA
    (f.ftype = 0 → u31 f.sid ≠ 0 → u31 f.sid ≤ c.cid →
      (be (slice f.payload 0 1) ≥ f.payload.length →
        recvFrame c (toFrameIn dec f) = sendGoaway c E.protocol) ∧
      (be (slice f.payload 0 1) < f.payload.length → ∀ s, findStrm c (u31 f.sid) = some s →
        recvFrame c (toFrameIn dec f) =
          recvDataStream c s (u31 f.sid) f.payload.length
            (f.payload.length - (1 + be (slice f.payload 0 1))) (flagSet f.flags 1))) ∧
    -- HEADERS (without PRIORITY fields)
    (f.ftype = 1 → flagSet f.flags 32 = false →
      (f.payload.length < 1 + be (slice f.payload 0 1) → u31 f.sid % 2 = 1 →
        recvFrame c (toFrameIn dec f) = sendGoaway c E.protocol) ∧
      (1 + be (slice f.payload 0 1) ≤ f.payload.length →
        toFrameIn dec f =
          .headers (u31 f.sid)
            (dec (slice f.payload 1 (f.payload.length - (1 + be (slice f.payload 0 1)))))
            (flagSet f.flags 1) none false false)) := by
  refine ⟨fun ht h0 hc => ⟨fun hge => ?_, fun hlt s hs => ?_⟩, fun ht hpr => ⟨fun hlt hodd => ?_, fun hle => ?_⟩⟩
  · have hc' : ¬ c.cid < u31 f.sid := by omega
    simp [toFrameIn, ht, hpad, recvFrame, hg, hdead, recvData, h0, hc', hge]
  · have hc' : ¬ c.cid < u31 f.sid := by omega
    have hnge : ¬ be (slice f.payload 0 1) ≥ f.payload.length := by omega
    simp [toFrameIn, ht, hpad, recvFrame, hg, hdead, recvData, h0, hc', hnge, hs]
  · have hne : ¬ u31 f.sid % 2 = 0 := by omega
    simp [toFrameIn, ht, hdrFrame, hpad, hlt, recvFrame, hg, hdead, recvHeaders, hne]
  · have hnlt : ¬ f.payload.length < 1 + be (slice f.payload 0 1) := by omega
    simp [toFrameIn, ht, hdrFrame, hpad, hpr, hnlt]

/-! ## octets: the connection-level statements -/

/-- **The byte-level connection refines the frame-level one**: a step fed as ANY non-empty list
    of read segments is the frame-level step `h2Step` on the frames (and reader errors) that the
    reader extracts from the concatenated octets.  Every frame-level theorem above therefore
    speaks about byte streams under every segmentation. -/
theorem c05_bytes_refine_frames (dec : Bytes → HdrKind) (s : BConn) (x : Bytes) (xs : List Bytes) :
    h2StepBytes dec s (x :: xs) =
      (⟨(readerFeed s.rd (x ++ xs.flatten)).1,
        (h2Step s.c ((readerFeed s.rd (x ++ xs.flatten)).2.flatMap (evFrames dec))).1⟩,
       (h2Step s.c ((readerFeed s.rd (x ++ xs.flatten)).2.flatMap (evFrames dec))).2) := by
  simp only [h2StepBytes, feedSegs_cons, feedSeg, h2Step]

/-- **Outcome independent of the read segmentation**: two ways of cutting the same octets of a
    step into reads give the same connection state and the same emitted frames -/
theorem c05_step_segmentation (dec : Bytes → HdrKind) (s : BConn) (x y : Bytes) (xs ys : List Bytes)
    (h : (x :: xs).flatten = (y :: ys).flatten) :
    h2StepBytes dec s (x :: xs) = h2StepBytes dec s (y :: ys) := by
  rw [c05_bytes_refine_frames, c05_bytes_refine_frames]
  simp only [List.flatten_cons] at h
  rw [h]

/-- **Concurrency over byte streams**: whatever octets arrive in whatever read segments, the
    server never tracks more streams than it advertised -/
theorem c05_concurrency_invariant_bytes (dec : Bytes → HdrKind) :
    ∀ (steps : List (List Bytes)) (s : BConn),
      s.c.streams.length ≤ Extracted.h2MaxStreams →
      (steps.foldl (fun s segs => (h2StepBytes dec s segs).1) s).c.streams.length ≤ Extracted.h2MaxStreams := by
  intro steps
  induction steps with
  | nil => intro s h; simpa using h
  | cons segs rest ih =>
    intro s h
    simp only [List.foldl_cons]
    apply ih
    simp only [h2StepBytes]
    exact Nat.le_trans (processQuiesce_len_le _ _) (feedSegs_len_le dec segs s h)

/-- **Connection errors are terminal for octets too**: once an error GOAWAY is out, no octet has
    any effect (no frame is emitted, the connection state does not change); and a reader-level
    error (FRAME_SIZE_ERROR / CONTINUATION errors) stops the reader for good -/
theorem c05_conn_error_terminal_bytes (dec : Bytes → HdrKind) (s : BConn) (seg : Bytes)
    (hg : s.c.goaway > 0) (hstop : s.c.stop = false) :
    (feedSeg dec s seg).2 = [] ∧ (feedSeg dec s seg).1.c = s.c := by
  have key : ∀ (fs : List FrameIn), recvBatch s.c fs = (s.c, []) := by
    intro fs
    induction fs with
    | nil => rfl
    | cons f fs ih =>
      have hns : needsSlot s.c f = false := by
        cases f <;> simp [needsSlot]
        omega
      simp [recvBatch, preSlot, hns, c05_conn_error_terminal_recv s.c f hg, postStop, hstop, ih]
  simp [feedSeg, key]

/-! non-vacuity -/
example : (h2Step {} [.headers 1 (.request 200 10 0 false) true none false false]).2 =
    [.headers 1 200 false, .data 1 10 false, .data 1 0 true] := by decide
example : (h2Step {} [.headers 1 (.request 200 10 0 false) true none false false,
                      .data 1 3 none true]).2 = [.rst 1 E.streamClosed, .windowUpdate 0 16384] := by decide
example : (recvFrame {} (.ping false 0 8)).2 = [.pingAck] := by decide
-- stream 1 answered and forgotten, stream 3 blocked by the connection window; then in one read two DATA
-- frames for stream 1, the WINDOW_UPDATEs stream 3 waits for, and a PING: one GOAWAY, PING acked, stream 3 completes
example : (h2Step (h2Step {} [.headers 1 (.request 200 10 0 false) true none false false,
                              .headers 3 (.request 200 100000 0 false) true none false false]).1
             [.data 1 3 none false, .data 1 3 none false, .windowUpdate 3 4 100000, .windowUpdate 0 4 100000,
              .ping false 0 8]).2 =
    [.goaway 3 0, .pingAck, .data 3 32750 false, .data 3 1750 false, .data 3 0 true] := by decide
/-- a stream with a pending response whose window the client raised to 2^31-1 -/
def exFull : H2Conn :=
  { streams := [{ id := 1, st := .hcRemote, swin := 2147483647, reqLen := 0, status := 200, pending := 100000,
                  headersSent := true }], cid := 1 }
example : exFull.goaway = 0 ∧
    (exFull.streams.any fun s => s.live && winOverflows s.swin (((65536 : Nat) : Int) - exFull.initWin)) = true := by decide
example : (recvFrame exFull (.settings false 0 [(4, 65536)] 0)).2 = [.goaway 1 E.flowControl] := by decide
example : (recvFrame exFull (.settings false 0 [(4, 65535)] 0)).2 = [.settingsAck] := by decide
example : (applySettings exFull [(4, 65535)]).1.goaway = exFull.goaway ∧ exFull.goaway ≤ 0 := by decide

/-! non-vacuity, octets -/
def exPing : Bytes := [0,0,8, 6, 0, 0,0,0,0, 1,2,3,4,5,6,7,8]
def exDec : Bytes → HdrKind := fun b => if b = [0x82] then .request 200 10 0 false else .hpackBad
/-- HEADERS(stream 1, END_STREAM) without END_HEADERS, fragment [], + CONTINUATION(END_HEADERS) [0x82] -/
def exReq : Bytes := [0,0,0, 1, 1, 0,0,0,1] ++ [0,0,1, 9, 4, 0,0,0,1, 0x82]

example : readerFeed {} (exPing.take 5 ++ exPing.drop 5) = (⟨[], false⟩, [.frame ⟨6, 0, 0, [1,2,3,4,5,6,7,8]⟩ 0]) := by decide
example : (readerFeed {} (exPing.take 5)).1 = ⟨exPing.take 5, false⟩ := by decide
example : readerFeedSegs {} [exPing.take 1, exPing.drop 1 ++ exPing.take 12, exPing.drop 12] =
    (⟨[], false⟩, [.frame ⟨6, 0, 0, [1,2,3,4,5,6,7,8]⟩ 0, .frame ⟨6, 0, 0, [1,2,3,4,5,6,7,8]⟩ 0]) := by decide
example : WfRaw readerMaxFrame ⟨6, 0, 0, [1,2,3,4,5,6,7,8]⟩ := ⟨by decide, by decide, by decide, by decide, by decide⟩
example : serialize ⟨6, 0, 0, [1,2,3,4,5,6,7,8]⟩ = exPing := by decide
example : (fhdr [0,64,1, 0, 0, 0,0,0,1]).len > Extracted.h2AdvMaxFrameSize := by decide
example : readerFeed {} ([0,64,1, 0, 0, 0,0,0,1] ++ exPing) = (⟨[], true⟩, [.err E.frameSize 0]) := by decide
example : readerFeed {} exReq = (⟨[], false⟩, [.frame ⟨1, 5, 1, [0x82]⟩ 1]) := by decide
example : exReq = serialize ⟨1, 1, 1, []⟩ ++ (contFrames 1 [[0x82]]).flatMap serialize := by decide
example : parseOne readerMaxFrame (serialize ⟨1, 1, 1, []⟩ ++ exPing) = .err E.protocol 0 := by decide
-- padded DATA: Pad Length 9 in a 5-octet payload; Pad Length 2 in a 5-octet payload
example : flagSet 8 8 = true ∧ be (slice [9,1,2,3,4] 0 1) ≥ ([9,1,2,3,4] : Bytes).length := by decide
example : toFrameIn exDec ⟨0, 9, 1, [2,100,100,0,0]⟩ = .data 1 5 (some 2) true := by decide
example : toFrameIn exDec ⟨1, 0x0d, 1, [2,0x82,0,0]⟩ = .headers 1 (.request 200 10 0 false) true none false false := by decide
-- a whole request arriving in three reads cut inside the frame headers
example : (h2StepBytes exDec {} [exReq.take 4, (exReq.drop 4).take 9, exReq.drop 13]).2 =
    [.headers 1 200 false, .data 1 10 false, .data 1 0 true] := by decide
example : (h2StepBytes exDec {} [exReq]).2 = [.headers 1 200 false, .data 1 10 false, .data 1 0 true] := by decide
-- after a connection error nothing is read
example : ((h2StepBytes exDec {} [[0,0,0, 9, 4, 0,0,0,1] ++ exReq]).2, (h2StepBytes exDec {} [[0,0,0, 9, 4, 0,0,0,1] ++ exReq]).1.c.dead)
    = ([.goaway 0 E.protocol], true) := by decide

end LtVerif.C05
