/-
  C06 — HTTP/2 flow control: never exceed the peer's window, never deadlock.
  Property theorems over Model/H2Flow.lean; helper lemmas in Proofs/H2Flow.lean.
  `credit` / `sent` are ghost fields defined from the CLIENT's point of view (RFC 9113 §6.9):
  initial window 65 535, SETTINGS_INITIAL_WINDOW_SIZE applied retroactively, plus increments.
-/
import LtVerif.Proofs.H2Flow
import LtVerif.Model.H2
namespace LtVerif.C06
open LtVerif

/-- the send windows the server starts from are the RFC 9113 §6.9.2 defaults for the peer
    (constants read back from the real h2_init_con() on every run) -/
theorem c06_initial_windows_are_rfc_defaults :
    Extracted.h2ConnSendWindow = rfcInitialWindow ∧ Extracted.h2PeerInitialWindow = rfcInitialWindow := by
  decide

/-- **Exact accounting**: after every history of stream openings, SETTINGS changes,
    WINDOW_UPDATEs and write opportunities, each send window equals the credit the client has
    granted minus the DATA sent, on every stream and on the connection. -/
theorem c06_accounting_exact (evs : List FcEv) : CInv (fcRun FcConn.init evs).1 :=
  (CInv.init_holds c06_initial_windows_are_rfc_defaults).run evs

/-- **Stream credit bound**: whenever a stream gets to send (any reachable state, any
    connection window value, any write budget), the DATA it has sent afterwards is at most the
    credit the client has granted on that stream by then. -/
theorem c06_stream_credit_bound (evs : List FcEv) (s : FcStream) (cswin : Int) (budget : Nat)
    (hs : s ∈ (fcRun FcConn.init evs).1.streams) (hsent : 0 < (streamTurn cswin budget s).2) :
    ((streamTurn cswin budget s).1.sent : Int) ≤ (streamTurn cswin budget s).1.credit := by
  have inv := (c06_accounting_exact evs).streams s hs
  obtain ⟨hc, _, _, hse, _, hn⟩ := streamTurn_spec cswin budget s
  unfold SInv at inv
  rw [hc, hse]
  rcases hn with h0 | ⟨ha, _, _, _⟩
  · omega
  · push_cast; omega

/-- **Connection credit bound**: after any write pass that sent something, total DATA sent on
    the connection is at most the connection-level credit granted by then. -/
theorem c06_conn_credit_bound (evs : List FcEv) (budget : Nat) :
    let c := (fcRun FcConn.init evs).1
    (writePass c budget).1.sent = c.sent ∨
      ((writePass c budget).1.sent : Int) ≤ (writePass c budget).1.credit := by
  intro c
  have inv := c06_accounting_exact evs
  unfold writePass
  by_cases h : c.goaway.isSome = true
  · left; simp [c, h]
  · obtain ⟨_, h2, _, _⟩ := writePassAux_spec c.streams c.swin budget
    simp only [h, Bool.false_eq_true, if_false]
    rcases h2 with h2 | h2
    · left; omega
    · right
      have := inv.conn
      simp only [c] at *
      push_cast
      omega

/-- in a write pass every stream either did not send or stays within its credit, and each
    frame also fits the connection window: pass-level form of the two bounds -/
theorem c06_pass_respects_windows : ∀ (ss : List FcStream) (cswin : Int) (budget : Nat),
    (∀ s ∈ ss, SInv s) →
    ∀ s' ∈ (writePassAux cswin budget ss).streams,
      (∃ s ∈ ss, s'.sent = s.sent ∧ s'.credit = s.credit) ∨ ((s'.sent : Int) ≤ s'.credit) := by
  intro ss
  induction ss with
  | nil => intro cswin budget _ s' hs'; simp [writePassAux] at hs'
  | cons s rest ih =>
    intro cswin budget hall s' hs'
    simp only [writePassAux, List.mem_cons] at hs'
    rcases hs' with hs' | hs'
    · subst hs'
      obtain ⟨hc, _, _, hse, _, hn⟩ := streamTurn_spec cswin budget s
      have hinv := hall s (by simp)
      unfold SInv at hinv
      rcases hn with h0 | ⟨ha, _, _, _⟩
      · left; exact ⟨s, by simp, by omega, hc⟩
      · right; rw [hc, hse]; push_cast; omega
    · rcases ih _ _ (fun y hy => hall y (by simp [hy])) s' hs' with ⟨s0, hs0, h1, h2⟩ | h
      · left; exact ⟨s0, by simp [hs0], h1, h2⟩
      · right; exact h

/-- **Mandated errors** (RFC 9113 §6.9 / §6.9.1): a WINDOW_UPDATE of 0 is a PROTOCOL_ERROR, one
    that would push a window beyond 2^31−1 is a FLOW_CONTROL_ERROR — connection error on
    stream 0, stream error otherwise. -/
theorem c06_update_zero_conn (c : FcConn) :
    (windowUpdate c 0 0).2 = [.goaway errProtocol] := by
  simp [windowUpdate]

theorem c06_update_overflow_conn (c : FcConn) (inc : Nat) (hi : inc ≠ 0) (ho : c.swin > int32Max - inc) :
    (windowUpdate c 0 inc).2 = [.goaway errFlowControl] := by
  simp [windowUpdate, hi, ho]

theorem c06_update_zero_stream (c : FcConn) (sid : Nat) (s : FcStream) (h0 : sid ≠ 0)
    (hf : c.streams.find? (·.id = sid) = some s) (hst : s.st = .open) :
    (windowUpdate c sid 0).2 = [.rst sid errProtocol] := by
  simp [windowUpdate, h0, hf, hst]

theorem c06_update_overflow_stream (c : FcConn) (sid inc : Nat) (s : FcStream) (h0 : sid ≠ 0) (hi : inc ≠ 0)
    (hf : c.streams.find? (·.id = sid) = some s) (hst : s.st = .open) (ho : s.swin > int32Max - inc) :
    (windowUpdate c sid inc).2 = [.rst sid errFlowControl] := by
  simp [windowUpdate, h0, hf, hst, hi, ho]

theorem c06_settings_overflow (c : FcConn) (v : Nat) (hv : (v : Int) > int32Max) :
    (applyInitialWindow c v).2 = [.goaway errFlowControl] := by
  simp [applyInitialWindow, hv]

/-- **Resume**: a stream with data pending sends a positive amount at its next turn as soon as
    both windows are positive and allow either the whole remainder or at least 2048 bytes
    (the deferral threshold of h2_send_cqdata).  A client that grants less than
    min(2048, remainder) is NOT guaranteed progress by this implementation. -/
theorem c06_resume (s : FcStream) (cswin : Int) (budget : Nat)
    (hopen : s.st = .open) (hp : 0 < s.pending)
    (hbudget : 2048 ≤ budget ∨ s.pending ≤ budget) (hb0 : 0 < budget)
    (hwin : (2048 ≤ s.swin ∧ 2048 ≤ cswin) ∨ ((s.pending : Int) ≤ s.swin ∧ (s.pending : Int) ≤ cswin)) :
    0 < (streamTurn cswin budget s).2 := by
  unfold streamTurn
  have h1 : ¬ s.st ≠ .open := by simp [hopen]
  have h2 : ¬ s.pending = 0 := by omega
  have h3 : ¬ budget = 0 := by omega
  simp only [h1, h2, h3, if_false]
  have hcap : 2048 ≤ perCallCap s := by unfold perCallCap; split <;> omega
  apply sendAmount_pos_of
  · rcases hwin with h | h <;> omega
  · rcases hwin with h | h <;> omega
  · exact hp
  · have : 0 < perCallCap s := by omega
    omega
  · by_cases hsmall : s.pending < 2048
    · left; exact hsmall
    · right; left
      have hb2 : 2048 ≤ budget := by rcases hbudget with hb | hb <;> omega
      rcases hwin with h | h
      · exact ⟨h.1, h.2, by omega⟩
      · exact ⟨by omega, by omega, by omega⟩

/-- progress measure: whatever a turn sends is taken off the pending body -/
theorem c06_turn_decreases_pending (s : FcStream) (cswin : Int) (budget : Nat) :
    (streamTurn cswin budget s).1.pending + (streamTurn cswin budget s).2 = s.pending := by
  obtain ⟨_, _, _, _, hp, hn⟩ := streamTurn_spec cswin budget s
  rcases hn with h0 | ⟨_, _, _, hle⟩ <;> omega

/-! ## receive side: credit is returned at least as fast as DATA is received -/

/-- **Upload progress**: for every sequence of DATA frames of legal size (≤ 16384, the
    advertised SETTINGS_MAX_FRAME_SIZE) the credit lighttpd has returned (connection level,
    and stream level for streams whose body it is reading) is at least the number of bytes
    received, and ahead of it by less than one frame: the window the client sees never drops
    below the initially advertised one, so a client that respects it can always send more. -/
theorem c06_upload_credit_returned (lens : List Nat) (hl : ∀ l ∈ lens, l ≤ 16384) :
    ∀ (f : Int), 0 ≤ f → f < 16384 →
      let r := creditRun f lens
      0 ≤ r.1 ∧ r.1 < 16384 ∧ (r.2 : Int) - (lens.sum : Int) = r.1 - f := by
  induction lens with
  | nil => intro f h0 h1; simp [creditRun, h0, h1]
  | cons l rest ih =>
    intro f h0 h1
    have hl0 : l ≤ 16384 := hl l (by simp)
    have hrest : ∀ x ∈ rest, x ≤ 16384 := fun x hx => hl x (by simp [hx])
    have hf : 0 ≤ (fudgeUpdate f l).1 ∧ (fudgeUpdate f l).1 < 16384 ∧
        (fudgeUpdate f l).1 = f - l + (if (fudgeUpdate f l).2 then 16384 else 0) := by
      unfold fudgeUpdate
      simp only
      split <;> simp <;> omega
    simp only [creditRun, List.sum_cons]
    generalize fudgeUpdate f l = gw at hf ⊢
    obtain ⟨g, w⟩ := gw
    simp only at hf ⊢
    obtain ⟨g0, g1, g2⟩ := hf
    have := ih hrest g g0 g1
    simp only at this
    obtain ⟨i0, i1, i2⟩ := this
    refine ⟨i0, i1, ?_⟩
    push_cast
    cases w <;> simp at g2 ⊢ <;> omega

/-- **Completion**: a response stalled on a window resumes *and completes* once credit is
    granted.  For every open stream, once the client has granted enough credit for the
    remainder on the stream and on the connection, every sequence of write opportunities of
    at least 2048 octets each (the deferral threshold) drains the body: after at most
    ⌈pending/2048⌉+1 turns the stream has sent exactly its remaining body and is ended.
    (`turns` charges the connection window with what the stream itself sends; other streams
    sending in between only matter through the hypothesis on the connection window.) -/
theorem c06_completes (s : FcStream) (cw : Int) (bs : List Nat)
    (hopen : s.st = .open) (hs : (s.pending : Int) ≤ s.swin) (hc : (s.pending : Int) ≤ cw)
    (hb : ∀ b ∈ bs, 2048 ≤ b) (hl : s.pending < 2048 * bs.length) :
    (turns s cw bs).1.st = .closed ∧ (turns s cw bs).1.pending = 0 ∧
    (turns s cw bs).1.sent = s.sent + s.pending :=
  turns_complete bs s cw hopen hs hc hb hl

/-- non-vacuity: a 5000-octet body with 5000 octets of credit completes in 3 turns of 2048 -/
example : (turns { id := 1, swin := 5000, credit := 5000, pending := 5000 } 5000
            [2048, 2048, 2048]).1.pending = 0 ∧
          (turns { id := 1, swin := 5000, credit := 5000, pending := 5000 } 5000
            [2048, 2048, 2048]).1.sent = 5000 := by decide

/-- **int32 safety**: after every history each window the server keeps fits a signed 32-bit
    integer with room to spare: the connection window stays in [0, 2^31-1], every stream
    window in [-(2^31-1), 2^31-1] (negative only through SETTINGS decreases), and the initial
    window in [0, 2^31-1] — no addition or subtraction in the window logic can wrap. -/
theorem c06_windows_fit_int32 (evs : List FcEv) : RInv (fcRun FcConn.init evs).1 :=
  (RInv.init_holds c06_initial_windows_are_rfc_defaults).run evs

/-- a SETTINGS_INITIAL_WINDOW_SIZE change that would push the window of any live stream out
    of range is a connection error FLOW_CONTROL_ERROR (RFC 9113 §6.9.2) and changes nothing else -/
theorem c06_settings_overflow_stream (c : FcConn) (v : Nat) (s : FcStream) (hv : ¬ (v : Int) > int32Max)
    (hs : s ∈ c.streams) (hl : s.live = true) (ho : winOverflows s.swin ((v : Int) - c.initWin) = true) :
    (applyInitialWindow c v).2 = [.goaway errFlowControl] ∧
    (applyInitialWindow c v).1 = { c with goaway := some errFlowControl } := by
  have hany : c.streams.any (fun s => s.live && winOverflows s.swin ((v : Int) - c.initWin)) = true := by
    simp only [List.any_eq_true, Bool.and_eq_true]
    exact ⟨s, hs, hl, ho⟩
  simp [applyInitialWindow, hv, hany]

/-- **Pass progress** with any number of streams: if some open stream has data pending and
    the credit for it on both levels, a write pass with a budget of at least 2048 octets sends
    something, wherever that stream sits in the scheduler's order. -/
theorem c06_pass_progress (ss : List FcStream) (cswin : Int) (budget : Nat) (hb : 2048 ≤ budget)
    (h : ∃ s ∈ ss, s.st = .open ∧ 0 < s.pending ∧ (s.pending : Int) ≤ s.swin ∧ (s.pending : Int) ≤ cswin) :
    0 < (writePassAux cswin budget ss).total :=
  writePassAux_progress ss cswin budget hb h

/-- **Every response completes** (connection level): once the credit granted covers what is
    still to be sent — per stream and on the connection (`Ample`) — every sequence of write
    passes with budgets of at least 2048 octets drains all open streams, however many there
    are: after at most as many passes as octets were pending nothing is pending on any open
    stream and exactly those octets were sent.  (That a write pass happens at all is the
    event loop's business and an input here.) -/
theorem c06_all_streams_complete (c : FcConn) (bs : List Nat) (ha : Ample c)
    (hb : ∀ b ∈ bs, 2048 ≤ b) (hl : openPending c.streams ≤ bs.length) :
    openPending (passes c bs).streams = 0 ∧ (passes c bs).sent = c.sent + openPending c.streams :=
  passes_complete bs c ha hb hl

/-- non-vacuity: two streams, ample credit, three passes of 4096 octets -/
example :
    let c : FcConn := { swin := 9000, initWin := 65535, credit := 9000, clientInit := 65535,
                        streams := [{ id := 1, swin := 5000, credit := 5000, pending := 5000 },
                                    { id := 3, swin := 3000, credit := 3000, pending := 3000 }] }
    openPending (passes c [4096, 4096, 4096]).streams = 0 ∧ (passes c [4096, 4096, 4096]).sent = 8000 := by
  decide

/-- the windows advertised in the server connection preface (read back from the code) -/
theorem c06_advertised_windows :
    Extracted.h2AdvInitialWindow = 65536 ∧ Extracted.h2AdvConnWindowUpdate + 65535 = 262144 ∧
    Extracted.h2ConnRecvWindow = 262144 ∧ Extracted.h2AdvMaxFrameSize = 16384 := by decide

/-! non-vacuity: the boundary history that distinguishes 65535 from 65536 -/
example : (fcRun FcConn.init [.windowUpdate 0 100000, .openStream 1 65536 false,
                              .write 262144, .write 262144, .write 262144]).1.streams.map (·.sent) = [65535] := by
  decide
example : 0 < (streamTurn 100000 262144 { id := 1, swin := 65535, pending := 65536, credit := 65535 }).2 := by
  decide

end LtVerif.C06
