/-
  C07 — HPACK: header lists survive both directions for the whole connection.
  Property theorems only (helper lemmas: LtVerif/Proofs/Hpack*.lean).

  The model (LtVerif/Model/Hpack*.lean) is lshpack's decoder as it is
  (integer, string, Huffman 4-bit automaton over the *extracted*
  decode_tables, static + dynamic table, size updates, the decode loops of
  h2_parse_headers_frame / h2_discard_headers_frame) plus a reference encoder
  `encodeBlock` that stands for any conformant peer: it is parameterised by an
  arbitrary list of `Choice`s (indexed / literal with, without, never indexing;
  name by index or literal; Huffman or raw for name and value; any dynamic
  table size updates).
-/
import LtVerif.Proofs.Hpack
import LtVerif.Proofs.H2Headers
import LtVerif.Proofs.HpackWeak
import LtVerif.Proofs.HpackHints
import LtVerif.Proofs.HpackGlue
import LtVerif.Proofs.HpackResp
import LtVerif.Proofs.HpackSize
import LtVerif.Proofs.HpackText
namespace LtVerif.C07
open LtVerif B Hpack H2Headers

/-- Integers (RFC 7541 5.1): lshpack_dec_dec_int() reads back every uint32 for
    every prefix width and every pattern `hi` in the bits above the prefix,
    whatever follows — including the 5-octet branch (values ≥ 2^28). -/
theorem c07_int_roundtrip (pbits hi n : Nat) (rest : Bytes)
    (hhi : hi % 2 ^ pbits = 0) (hfit : hi + 2 ^ pbits ≤ 256) (hn : n < 2 ^ 32) :
    decInt pbits (encInt pbits hi n ++ rest) = some (n, rest) :=
  decInt_encInt pbits hi n rest hhi hfit hn

example : decInt 5 (encInt 5 32 1337 ++ [7]) = some (1337, [7]) := by decide
example : encInt 5 0 1337 = [31, 154, 10] := by decide
example : (32 : Nat) % 2 ^ 5 = 0 ∧ 32 + 2 ^ 5 ≤ 256 ∧ 1337 < 2 ^ 32 := by decide

/-- Huffman: the table-driven decoder of lshpack (4-bit automaton over the
    decode_tables[256][16] extracted from huff-tables.h) reads back every octet
    string encoded with the extracted encode_table[], EOS-padded — for all
    strings, provided the output buffer is larger than the string (the C
    answers MORE_BUF when the buffer is exactly full). A changed entry in
    either C table breaks this proof (kernel-checked certificates). -/
theorem c07_huffman_roundtrip (cap : Nat) (s : Bytes) (h : s.length < cap) :
    huffDecode cap (huffEncode s) = .ok s :=
  huffDecode_huffEncode cap s h

example : huffEncode (ofString "www.example.com") =
    [0xf1, 0xe3, 0xc2, 0xe5, 0xf2, 0x3a, 0x6b, 0xa0, 0xab, 0x90, 0xf4, 0xff] := by decide
example : huffDecode 100 [0xf1, 0xe3, 0xc2, 0xe5, 0xf2, 0x3a, 0x6b, 0xa0, 0xab, 0x90, 0xf4, 0xff] =
    .ok (ofString "www.example.com") := by rfl

/-- Huffman, the other direction ("invalid is an error, never a different
    string"): whatever the table-driven decoder accepts is the canonical
    encoding of what it returns — the codes of the returned octets followed by
    fewer than 8 one-bits. Hence an input with EOS inside, with 8 or more bits
    of padding or a 0 bit in the padding is rejected, and two different inputs
    never decode to the same string. For ALL inputs and buffer sizes. -/
theorem c07_huffman_canonical (cap : Nat) (src s : Bytes) (h : huffDecode cap src = .ok s) :
    src = huffEncode s :=
  huffDecode_canonical cap src s h

example : huffDecode 100 [0xf1, 0xe3, 0xc2, 0xe5, 0xf2, 0x3a, 0x6b, 0xa0, 0xab, 0x90, 0xf4, 0xff, 0xff] =
    .error .badData := by rfl     -- one more octet of padding
example : huffDecode 100 [0xff, 0xff, 0xff, 0xff] = .error .badData := by rfl   -- EOS

/-- String literals (RFC 7541 5.2), raw or Huffman coded. -/
theorem c07_string_roundtrip (cap : Nat) (huff : Bool) (s rest : Bytes)
    (hlen : s.length < cap) (hcap : cap ≤ 65535) :
    decStr cap (encStr huff s ++ rest) = .ok (s, rest) :=
  decStr_encStr cap huff s rest hlen (by omega)

example : decStr 65535 (encStr true (ofString "no-cache") ++ [1, 2]) =
    .ok (ofString "no-cache", [1, 2]) := by rfl

/-- Request direction, one block: whatever valid encoding the peer chooses
    (any choice sequence: static/dynamic indexing, literal forms, Huffman or
    raw, size updates ≤ the SETTINGS limit), the decode loop of
    h2_parse_headers_frame() yields exactly the encoded name/value list, no
    error, and leaves the decoder's table equal to the encoder's. -/
theorem c07_roundtrip (cap : Nat) (hcap : cap ≤ 65535) (d : Dec) (cs : List Choice)
    (hs : List Header) (hwf : d.tbl.WF) (hok : ∀ h ∈ hs, HeaderOk cap h) :
    let r := decodeBlock cap d (encodeBlock d.tbl cs hs).1
    r.err = none ∧ r.fields.map Field.header = hs ∧ r.dec.tbl = (encodeBlock d.tbl cs hs).2 := by
  obtain ⟨fs, d', h, hm, ht, _⟩ := decodeBlock_encodeBlock cap (by omega) d cs hs hwf hok
  simp only [h]
  exact ⟨trivial, hm, ht⟩

/-- non-vacuity: RFC 7541 C.4.1 produced by the reference encoder and decoded -/
example :
    (encodeBlock Table.init
      [{ mode := .indexed, idx := 2 }, { mode := .indexed, idx := 6 }, { mode := .indexed, idx := 4 },
       { mode := .incr, idx := 1, huffValue := true }]
      [(ofString ":method", ofString "GET"), (ofString ":scheme", ofString "http"),
       (ofString ":path", ofString "/"), (ofString ":authority", ofString "www.example.com")]).1 =
    [0x82, 0x86, 0x84, 0x41, 0x8c, 0xf1, 0xe3, 0xc2, 0xe5, 0xf2, 0x3a, 0x6b, 0xa0, 0xab, 0x90, 0xf4, 0xff] := by
  decide
example : Table.init.WF := Table.init_WF
example : HeaderOk 65535 (ofString ":authority", ofString "www.example.com") :=
  ⟨by decide, by decide⟩

/-- One block, NO assumption on the header list (names and values of any
    length, empty names, any choices): the decode loop either reports an error
    or returns exactly the encoded list and ends with the encoder's table. It
    never returns a different list ("oversized ⇒ error, never silently
    different": a field that does not fit lighttpd's buffer is an error). -/
theorem c07_block_error_or_exact (cap : Nat) (d : Dec) (cs : List Choice) (hs : List Header)
    (hwf : d.tbl.WF) :
    let r := decodeBlock cap d (encodeBlock d.tbl cs hs).1
    r.err = none → r.fields.map Field.header = hs ∧ r.dec.tbl = (encodeBlock d.tbl cs hs).2 := by
  intro r herr
  obtain ⟨hm, ht, _⟩ := decodeBlock_encodeBlock_weak cap d cs hs hwf herr
  exact ⟨hm, ht⟩

/-- an oversized field is an error, not a shortened one -/
example : (decodeBlock 4 Dec.init (encodeBlock Table.init [{ mode := .without }]
    [(ofString "x-a", ofString "12")]).1).err = some .moreBuf := by decide

/-- Whole connection (1): over an arbitrarily long history of header blocks —
    served ones and ones lighttpd only decodes and discards — whose fields fit
    lighttpd's buffer, the connection stays alive, every served block decodes
    to exactly the list that was encoded, and at the end the decoder's dynamic
    table equals the encoder's.  (Which blocks are served, discarded or not
    decoded at all is decided by h2_recv_headers(): `c07_glue_tables_sync`.) -/
theorem c07_tables_sync (cap : Nat) (hcap : cap ≤ 65535) (items : List ConnItem) (d : Dec)
    (hwf : d.tbl.WF) (hok : ∀ it ∈ items, ItemOk cap it) :
    let r := recvConn cap d (encodeConn d.tbl items).1
    r.2.2 = true ∧ r.1.map (·.map Field.header) = servedLists items ∧
      r.2.1.tbl = (encodeConn d.tbl items).2 := by
  obtain ⟨ls, d', h, hm, ht⟩ := recvConn_encodeConn cap (by omega) items d hwf hok
  simp only [h]
  exact ⟨trivial, hm, ht⟩

/-- Whole connection (2), NO assumption on the header lists, served or
    discarded: as long as the connection is alive (no block produced a decoding
    error — an error in a discarded block kills the connection as well) the
    served lists are exactly the encoded ones and the tables are equal. -/
theorem c07_never_silently_different (cap : Nat) (items : List ConnItem) (d : Dec) (hwf : d.tbl.WF) :
    let r := recvConn cap d (encodeConn d.tbl items).1
    r.2.2 = true → r.1.map (·.map Field.header) = servedLists items ∧
      r.2.1.tbl = (encodeConn d.tbl items).2 :=
  fun h => recvConn_encodeConn_weak cap items d hwf h

/-- non-vacuity: a discarded block inserts an entry that a later served block
    refers to by index (62 = newest dynamic entry) -/
example :
    (recvConn 65535 Dec.init (encodeConn Table.init
      [⟨[{ mode := .incr }], [(ofString "x-a", ofString "1")], .discard⟩,
       ⟨[{ mode := .indexed, idx := 62 }], [(ofString "x-a", ofString "1")], .serve⟩]).1).1
      = [[⟨ofString "x-a", ofString "1", 0, false⟩]] := by decide

/-- the audit's scenario in small: a field too large for the buffer inside a
    DISCARDED block ends the connection (before the repair of h2_discard_headers_frame
    the block was skipped and the next served block read a stale table) -/
example :
    (recvConn 8 Dec.init (encodeConn Table.init
      [⟨[{ mode := .incr }], [(ofString "x-e", ofString "0")], .serve⟩,
       ⟨[{ mode := .without }, { mode := .incr }],
        [(ofString "x-big", ofString "0123456789"), (ofString "x-a", ofString "1")], .discard⟩,
       ⟨[{ mode := .indexed, idx := 62 }], [(ofString "x-a", ofString "1")], .serve⟩]).1).2.2
      = false := by decide

/-- The dynamic table never outgrows the negotiated size, whatever arrives:
    for ARBITRARY received bytes (valid or not), served or discarded, the
    decoder's table size stays ≤ its current maximum ≤ the SETTINGS limit. -/
theorem c07_table_bound (cap : Nat) (ws : List Wire) (d : Dec) (hwf : d.tbl.WF) :
    let d' := (recvConn cap d ws).2.1
    tableSize d'.tbl.dyn ≤ d'.tbl.curMax ∧ d'.tbl.curMax ≤ d'.tbl.maxCap := by
  have h := recvConn_WF cap ws d hwf
  exact ⟨h.size_le, h.cur_le⟩

example : tableSize (evict 60 [(ofString "x-a", ofString "1"), (ofString "x-b", ofString "22")]) = 36 := by
  decide

/-- Unambiguity: two header lists that a peer could encode to the same octets
    (under any two choice sequences, from the same table state) are the same
    list — the decoder cannot be made to see a different list than was
    encoded — and leave the same table behind. -/
theorem c07_encoding_unambiguous (cap : Nat) (hcap : cap ≤ 65535) (t : Table) (hwf : t.WF)
    (cs₁ cs₂ : List Choice) (hs₁ hs₂ : List Header)
    (h₁ : ∀ h ∈ hs₁, HeaderOk cap h) (h₂ : ∀ h ∈ hs₂, HeaderOk cap h)
    (heq : (encodeBlock t cs₁ hs₁).1 = (encodeBlock t cs₂ hs₂).1) :
    hs₁ = hs₂ ∧ (encodeBlock t cs₁ hs₁).2 = (encodeBlock t cs₂ hs₂).2 := by
  have r₁ := c07_roundtrip cap hcap ⟨t, []⟩ cs₁ hs₁ hwf h₁
  have r₂ := c07_roundtrip cap hcap ⟨t, []⟩ cs₂ hs₂ hwf h₂
  simp only at r₁ r₂
  rw [heq] at r₁
  exact ⟨r₁.2.1.symm.trans r₂.2.1, r₁.2.2.symm.trans r₂.2.2⟩

/-- non-vacuity: two different choice sequences with the same octets -/
example : (encodeBlock Table.init [{ idx := 0 }] [(ofString "x-a", ofString "1")]).1 =
    (encodeBlock Table.init [{ idx := 5 }] [(ofString "x-a", ofString "1")]).1 := by decide

/-! "Invalid or oversized blocks produce an error, never a silently different
    list."  The statement planned in DESIGN.md (`c07_invalid_is_error`: every
    block outside the image of `encodeBlock` is an error) is FALSE of
    lshpack_dec_decode() as it is — see the witnesses `c07_deviation_*` at the
    end (over-long integers are accepted; a valid block holding only a size
    update is refused).
    What holds and is proved instead: the Huffman layer is strict
    (`c07_huffman_canonical`), two lists never share an encoding
    (`c07_encoding_unambiguous`), and the three error theorems below, bundled as
    `c07_invalid_is_error_partial`. -/

/-- Invalid blocks are errors (1): an indexed representation whose index is 0 or
    beyond static + dynamic table is BAD_DATA (→ GOAWAY COMPRESSION_ERROR), and
    nothing is delivered. -/
theorem c07_bad_index_is_error (cap : Nat) (d : Dec) (idx : Nat) (rest : Bytes)
    (hidx : idx < 2 ^ 32) (hnone : d.tbl.lookup idx = none) :
    let r := decodeBlock cap d (encInt 7 128 idx ++ rest)
    r.err = some .badData ∧ r.fields = [] := by
  obtain ⟨b, tl, he, hb⟩ := encInt_cons 7 128 idx (by decide)
  have hd := decInt_encInt 7 128 idx rest (by decide) (by decide) hidx
  rw [he] at hd
  simp only [List.cons_append] at hd
  have hb128 : 128 ≤ b.toNat := by omega
  have hnot : ¬ (32 ≤ b.toNat ∧ b.toNat < 64) := by omega
  have hrepr : reprOf b.toNat = (.indexed, some 7) := by simp [reprOf, hb128]
  have hl : d.lookup idx = none := by simp [Dec.lookup, hnone]
  have hitem : decodeItem cap d (b :: (tl ++ rest)) = .err .badData d := by
    by_cases h0 : idx = 0
    · simp [decodeItem, hnot, hrepr, hd, h0]
    · simp [decodeItem, hnot, hrepr, hd, h0, hl]
  simp only [he, List.cons_append, decodeBlock, List.length_cons, decodeBlockAux_succ,
    hitem]
  simp

example : (decodeBlock 65535 Dec.init [0xbe]).err = some .badData := by decide
example : Dec.init.tbl.lookup 62 = none := by decide

/-- Invalid blocks are errors (2): a dynamic table size update above the
    SETTINGS limit is BAD_DATA. -/
theorem c07_oversize_update_is_error (cap : Nat) (d : Dec) (n : Nat) (rest : Bytes)
    (hn : n < 2 ^ 32) (hbig : d.tbl.maxCap < n) :
    let r := decodeBlock cap d (encInt 5 32 n ++ rest)
    r.err = some .badData ∧ r.fields = [] ∧ r.dec = d := by
  obtain ⟨b, tl, he, hb⟩ := encInt_cons 5 32 n (by decide)
  have hd := decInt_encInt 5 32 n rest (by decide) (by decide) hn
  rw [he] at hd
  simp only [List.cons_append] at hd
  have hin : 32 ≤ b.toNat ∧ b.toNat < 64 := by
    have := Nat.min_le_right n (2 ^ 5 - 1); omega
  have hitem : decodeItem cap d (b :: (tl ++ rest)) = .err .badData d := by
    simp [decodeItem, hin, hd, hbig]
  simp only [he, List.cons_append, decodeBlock, List.length_cons, decodeBlockAux_succ, hitem]
  simp

example : (decodeBlock 65535 Dec.init (encInt 5 32 4097 ++ [0x82])).err = some .badData := by decide

/-- Invalid blocks are errors (3): a string literal that announces more octets
    than the block holds is BAD_DATA. -/
theorem c07_truncated_string_is_error (cap : Nat) (huff : Nat) (len : Nat) (avail : Bytes)
    (hh : huff = 0 ∨ huff = 128) (hlen : len < 2 ^ 32) (hshort : avail.length < len) :
    decStr cap (encInt 7 huff len ++ avail) = .error .badData :=
  decStr_truncated cap huff len avail hh hlen hshort

example : decStr 65535 [5, 0x61, 0x62] = .error .badData := by rfl

/-- partial form of the planned `c07_invalid_is_error` (missing: blocks that are
    invalid only by an over-long integer are accepted by lshpack, see
    `c07_deviation_overlong_int`; truncation inside a field is covered for the
    string length and the missing value string, not for every cut point) -/
theorem c07_invalid_is_error_partial (cap : Nat) (d : Dec) :
    (∀ idx rest, idx < 2 ^ 32 → d.tbl.lookup idx = none →
      (decodeBlock cap d (encInt 7 128 idx ++ rest)).err = some .badData) ∧
    (∀ n rest, n < 2 ^ 32 → d.tbl.maxCap < n →
      (decodeBlock cap d (encInt 5 32 n ++ rest)).err = some .badData) ∧
    (∀ src s, huffDecode cap src = .ok s → src = huffEncode s) :=
  ⟨fun idx rest h1 h2 => (c07_bad_index_is_error cap d idx rest h1 h2).1,
   fun n rest h1 h2 => (c07_oversize_update_is_error cap d n rest h1 h2).1,
   fun src s h => c07_huffman_canonical cap src s h⟩

example : Dec.init.tbl.lookup 100 = none ∧ Dec.init.tbl.maxCap < 5000 := by decide

/-- Invalid blocks are errors, anywhere in the block: after ANY valid prefix
    (any header list, any encoder choices, from any table state) an item of one
    of the four classes — index outside the tables, table size update above the
    SETTINGS limit, literal field cut inside its name string, literal field
    without its value string — yields exactly the fields of the prefix and then
    BAD_DATA (→ GOAWAY COMPRESSION_ERROR); nothing behind it is looked at. -/
theorem c07_error_after_valid_prefix (cap : Nat) (hcap : cap ≤ 65535) (d : Dec) (cs : List Choice)
    (hs : List Header) (hwf : d.tbl.WF) (hok : ∀ h ∈ hs, HeaderOk cap h) :
    (∀ idx rest, idx < 2 ^ 32 → (encodeBlock d.tbl cs hs).2.lookup idx = none →
      let r := decodeBlock cap d ((encodeBlock d.tbl cs hs).1 ++ (encInt 7 128 idx ++ rest))
      r.err = some .badData ∧ r.fields.map Field.header = hs) ∧
    (∀ n rest, n < 2 ^ 32 → (encodeBlock d.tbl cs hs).2.maxCap < n →
      let r := decodeBlock cap d ((encodeBlock d.tbl cs hs).1 ++ (encInt 5 32 n ++ rest))
      r.err = some .badData ∧ r.fields.map Field.header = hs) ∧
    (∀ flag huff len avail, flag = 0 ∨ flag = 16 ∨ flag = 64 → huff = 0 ∨ huff = 128 → len < 2 ^ 32 →
      avail.length < len →
      let r := decodeBlock cap d ((encodeBlock d.tbl cs hs).1 ++ flag.toUInt8 :: (encInt 7 huff len ++ avail))
      r.err = some .badData ∧ r.fields.map Field.header = hs) ∧
    (∀ flag n hn, flag = 0 ∨ flag = 16 ∨ flag = 64 → n ≠ [] → n.length < cap →
      let r := decodeBlock cap d ((encodeBlock d.tbl cs hs).1 ++ flag.toUInt8 :: encStr hn n)
      r.err = some .badData ∧ r.fields.map Field.header = hs) := by
  refine ⟨?_, ?_, ?_, ?_⟩
  · intro idx rest hidx hnone
    exact decodeBlock_prefix_then_error cap (by omega) d cs hs _ _ hwf hok
      (by simp [encInt_ne_nil 7 128 idx (by decide)])
      (fun d' ht => ⟨d', decodeItem_bad_index cap d' idx rest hidx (by rw [ht]; exact hnone)⟩)
  · intro n rest hn hbig
    exact decodeBlock_prefix_then_error cap (by omega) d cs hs _ _ hwf hok
      (by simp [encInt_ne_nil 5 32 n (by decide)])
      (fun d' ht => ⟨d', decodeItem_oversize_update cap d' n rest hn (by rw [ht]; exact hbig)⟩)
  · intro flag huff len avail hf hh hlen hshort
    exact decodeBlock_prefix_then_error cap (by omega) d cs hs _ _ hwf hok (by simp)
      (fun d' _ => ⟨d', decodeItem_truncated_name cap d' flag huff len avail hf hh hlen hshort⟩)
  · intro flag n hn hf hnn hlen
    refine decodeBlock_prefix_then_error cap (by omega) d cs hs _ _ hwf hok (by simp) (fun d' _ => ⟨d', ?_⟩)
    rcases hf with rfl | rfl | rfl
    · exact decodeItem_literal_noValue cap d' .without 0 n hn (by decide) (by simp [reprOf]) (by decide)
        hnn hlen (by omega)
    · exact decodeItem_literal_noValue cap d' .never 16 n hn (by decide) (by simp [reprOf]) (by decide)
        hnn hlen (by omega)
    · exact decodeItem_literal_noValue cap d' .incr 64 n hn (by decide) (by simp [reprOf]) (by decide)
        hnn hlen (by omega)

/-- non-vacuity: one good field, then index 70 (nothing there) -/
example : let r := decodeBlock 65535 Dec.init [0x82, 0xc6, 0x84]
    r.err = some .badData ∧ r.fields.map Field.header = [(ofString ":method", ofString "GET")] := by decide

/-- Hints: with every field the decoder hands h2.c a static-table index hint
    (`lsx.hpack_index`, also remembered per dynamic entry).  For ARBITRARY input
    the hint of every delivered field is 0 or the index of a static entry with
    that very name, and the remembered hints stay right.  (h2.c maps the hint to
    a header id and http_request_parse_header() then trusts the id without
    looking at the name again: `c07_hint_selects_id`.) -/
theorem c07_hint_sound (cap : Nat) (d : Dec) (bs : Bytes) (hd : HintsOk d) :
    let r := decodeBlock cap d bs
    HintsOk r.dec ∧ ∀ f ∈ r.fields, HintOk f.hint f.name :=
  decodeBlock_hint cap d bs hd

example : HintsOk Dec.init := HintsOk.init
example : (decodeBlock 65535 Dec.init [0x5a, 0x01, 0x78, 0xbe]).fields.map (·.hint) = [26, 26] := by decide

/-- ... and across everything h2_recv_headers() does with a HEADERS sequence -/
theorem c07_hints_kept_by_glue (cap : Nat) (c : GConn) (id : Nat) (es : Bool) (dep : Option Nat)
    (block : Bytes) (keep pb : Bool) (h : HintsOk c.dec) :
    HintsOk (recvHeaders cap c id es dep block keep pb).1.dec :=
  recvHeaders_hints cap c id es dep block keep pb h

/-- h2.c: `hpctx.id = lshpack_idx_http_header[lsx.hpack_index]` for a non-zero
    hint.  With a sound hint: a positive id is the id http_header_hkey_get()
    gives the field name, and the name is lower case already (what
    http_request_parse_header() skips checking); id 0 (HTTP_HEADER_OTHER) only
    for names lighttpd has no id for; a negative id is the pseudo-header with
    that name. -/
theorem c07_hint_selects_id {hint : Nat} {name : Bytes} (h : HintOk hint name) (h0 : hint ≠ 0) :
    (0 < Extracted.lshpackIdxHttpHeader.getD hint 0 →
      hkeyGet name = (Extracted.lshpackIdxHttpHeader.getD hint 0).toNat ∧ lower name = name) ∧
    (Extracted.lshpackIdxHttpHeader.getD hint 0 = 0 → hkeyGet name = 0) ∧
    (Extracted.lshpackIdxHttpHeader.getD hint 0 < 0 →
      pseudoName (Extracted.lshpackIdxHttpHeader.getD hint 0) = name) :=
  hint_id h h0

/-- Which blocks are decoded: whatever h2_recv_headers() decides about a
    HEADERS(+CONTINUATION) sequence (new stream, trailers, refused stream, stream
    after GOAWAY, closed stream, protocol violations ...), exactly one of three
    things happened: lighttpd has sent an error GOAWAY; or the frame was left
    unread in the queue and nothing changed; or the block was run through the
    connection's decoder to its end, without error. -/
theorem c07_headers_decoded_or_dead (cap : Nat) (c : GConn) (id : Nat) (es : Bool) (dep : Option Nat)
    (block : Bytes) (keep pb : Bool) :
    let r := recvHeaders cap c id es dep block keep pb
    0 < r.1.goaway ∨ (r.2 = .deferred ∧ r.1 = c) ∨
      (r.1.dec = (decodeBlock cap c.dec block).dec ∧ (decodeBlock cap c.dec block).err = none) :=
  recvHeaders_spec cap c id es dep block keep pb

/-- The loop of h2_parse_headers_frame() as written — fields handed to
    http_request_parse_header() one by one, the rest of the block sent through
    h2_discard_headers_frame() at the first field it refuses: WHATEVER the
    parser refuses (`accept` is arbitrary) and whether the block opens a request
    or carries trailers of a stream whose response has begun, the connection's
    decoder ends in the state, and with the error, of decoding the whole block.
    (A refusal never leaves the table behind the peer's.) -/
theorem c07_refused_field_rest_decoded (cap : Nat) (accept : Field → Bool) (d : Dec) (block : Bytes) :
    (parseFrame cap accept d block).dec = (decodeBlock cap d block).dec ∧
    (parseFrame cap accept d block).err = (decodeBlock cap d block).err :=
  parseFrame_state cap accept d block

/-- non-vacuity: trailers `x-a: 1`, `:bogus: 1` (refused), then `x-c: 3`, `x-d: 4`
    with incremental indexing: one field handed over, three table entries -/
example :
    let blk : Bytes := [0x40, 3, 0x78, 0x2d, 0x61, 1, 0x31, 0x00, 6, 0x3a, 0x62, 0x6f, 0x67, 0x75, 0x73, 1, 0x31,
                        0x40, 3, 0x78, 0x2d, 0x63, 1, 0x33, 0x40, 3, 0x78, 0x2d, 0x64, 1, 0x34]
    let r := parseFrame 65535 (fun f => f.name.headD 0 != colon) Dec.init blk
    r.fields.map Field.header = [(ofString "x-a", ofString "1")] ∧ r.err = none ∧
    r.dec.tbl.dyn = [(ofString "x-d", ofString "4"), (ofString "x-c", ofString "3"),
                     (ofString "x-a", ofString "1")] := by
  decide

/-- Whole connection, with lighttpd's own decisions: the peer encodes header
    list after header list with its one encoder (ANY lists, choices, stream
    ids, flags); lighttpd runs h2_recv_headers() on each in order (a frame it
    leaves in the queue blocks the rest).  As long as lighttpd has not sent an
    error GOAWAY its table equals the peer's table after the frames consumed. -/
theorem c07_glue_tables_sync (cap : Nat) (evs : List HEvent) (c : GConn) (hwf : c.dec.tbl.WF) :
    let r := runPeer cap c c.dec.tbl evs
    r.1.goaway ≤ 0 → r.1.dec.tbl = r.2 :=
  fun h => runPeer_sync cap evs c c.dec.tbl rfl hwf h

/-- non-vacuity: a stream refused for concurrency is decoded all the same — the
    ninth request's new table entry is used by the tenth -/
example :
    let ev (id : Nat) (cs : List Choice) : HEvent :=
      ⟨id, true, none, true, false, cs, [(ofString "x-a", ofString "1")]⟩
    let r := runPeer 65535 { acked := true } Table.init
      (((List.range 8).map fun i => ev (2 * i + 1) [{ mode := .without }]) ++
        [ev 17 [{ mode := .incr }], ev 19 [{ mode := .indexed, idx := 62 }]])
    r.1.goaway = 0 ∧ r.1.nrefused = 2 ∧ r.1.dec.tbl.dyn = [(ofString "x-a", ofString "1")] := by decide

/-- The header-id maps that tie HPACK to lighttpd's header ids are mutually
    consistent (tables regenerated from h2.c, http_header.c, lshpack.c on every
    run): (1) every `http_header_lc[id]` is lower case and is the name
    http_header_hkey_get() maps to `id`; (2) `http_header_lshpack_idx[]` covers
    every id and sends an id only to a static-table index carrying that very
    name; (3) `lshpack_idx_http_header[]` sends a static index to the id of its
    name, to HTTP_HEADER_OTHER only for names lighttpd has no id for, and to the
    pseudo-header id of its name; (4) `http_headers[]` and `http_header_lc[]`
    hold the same names. A header decoded through a static/dynamic index is
    therefore filed under the same id as the same header sent literally. -/
theorem c07_id_maps_consistent :
    (∀ id, id < numIds → id ≠ 0 → hkeyGet (lcName id) = id ∧ lower (lcName id) = lcName id) ∧
    (numIds ≤ Extracted.httpHeaderLshpackIdx.length ∧
      ∀ id, id < numIds → Extracted.httpHeaderLshpackIdx.getD id 0 ≠ 0 →
        Extracted.httpHeaderLshpackIdx.getD id 0 ≤ 61 ∧
        staticName (Extracted.httpHeaderLshpackIdx.getD id 0) = lcName id) ∧
    (Extracted.lshpackIdxHttpHeader.length = 62 ∧
      ∀ idx, idx < 62 → idx ≠ 0 →
        let id := Extracted.lshpackIdxHttpHeader.getD idx 0
        (0 < id → id.toNat < numIds ∧ lcName id.toNat = staticName idx) ∧
        (id = 0 → hkeyGet (staticName idx) = 0) ∧
        (id < 0 → pseudoName id = staticName idx)) ∧
    (∀ e ∈ Extracted.httpHeaders, e.1 ≠ 0 → 0 < e.1 ∧ e.1.toNat < numIds ∧ lcName e.1.toNat = e.2) :=
  ⟨lc_hashes_to_id, lshpack_idx_names, idx_to_id_names, hkey_table_names⟩

example : hkeyGet (ofString "Content-Type") = 18 ∧ lcName 18 = ofString "content-type" ∧
    Extracted.httpHeaderLshpackIdx.getD 18 0 = 31 ∧ staticName 31 = ofString "content-type" ∧
    Extracted.lshpackIdxHttpHeader.getD 31 0 = 18 := by decide

/-- Response direction, names: for every response header array built through
    http_header_response_set / insert / append (any sequence of calls, any
    spelling of the names), the name h2_send_headers() makes the peer see for
    an element is its lower-cased field name (through http_header_lc[], or
    through the static-table index lshpack is told to use). -/
theorem c07_response_names_lowercase (ops : List RespOp) :
    ∀ e ∈ (ops.foldl Resp.apply {}).arr, emitName e = lower e.key :=
  fun e he => emitName_keyed e (ops_keyed ops {} empty_keyed e he)

example : emitName ⟨hkeyGet (ofString "ETag"), ofString "ETag", ofString "x"⟩ = ofString "etag" := by
  decide

/-- Response direction, the list: for every response built through the API in
    which no field was sent twice, h2_send_headers() either sends nothing
    (pre-pass size over 65535: RST_STREAM, the encoder is not touched) or hands
    the encoder exactly: ":status", then one field per non-blank element in
    order under its lower-cased name with its value unchanged — X-Sendfile and
    X-LIGHTTPD-* never leave — then "date" and "server" unless the response has
    its own.  (304 responses that carry Content-Encoding are excluded here:
    the C blanks that header first.) -/
theorem c07_response_fields (ops : List RespOp) (status : Nat) (tag : Option Bytes) :
    let r := ops.foldl Resp.apply {}
    r.repeated = false →
    ¬ (status = 304 ∧ r.tags.contains Extracted.hdrContentEncoding = true) →
    (respSize r tag ≤ 65535 →
      respFields status r tag =
        some ((ofString ":status", statusBytes status) :: r.arr.filterMap wantField ++ autoFields r tag)) ∧
    (65535 < respSize r tag → respFields status r tag = none) := by
  intro r hrep h304
  exact ⟨fun hs => respFields_single status r tag (ops_keyed ops {} empty_keyed) hrep hs h304,
    fun hs => respFields_oversize status r tag h304 hs⟩

example : respFields 200 ([RespOp.set (ofString "X-Sendfile") (ofString "/f"),
      RespOp.set (ofString "ETag") (ofString "x"), RespOp.append (ofString "etag") (ofString "y")].foldl
      Resp.apply {}) (some (ofString "l")) =
    some [(ofString ":status", ofString "200"), (ofString "etag", ofString "x, y"),
          (ofString "date", autoDate), (ofString "server", ofString "l")] := by decide

/-- Response direction, the buffer: a header list h2_send_headers() accepts
    always fits the 128 KiB buffer it is HPACK-encoded into, with room for the
    table size updates in front — whatever the encoder chooses per field
    (indexed, name reference, literal; with / without / never indexing; Huffman
    wherever that is not longer; no size updates of its own), from any table
    state.  lshpack_enc_encode() therefore cannot run out of space half way
    through a block (which desynchronised the peer: D21 and its residue). -/
theorem c07_response_fits_buffer (ops : List RespOp) (status : Nat) (tag : Option Bytes)
    (fs : List Header) (t : Table) (hwf : t.WF) (cs : List Choice) :
    let r := ops.foldl Resp.apply {}
    r.repeated = false →
    ¬ (status = 304 ∧ r.tags.contains Extracted.hdrContentEncoding = true) →
    respFields status r tag = some fs → LsLike cs fs →
    (encodeBlock t cs fs).1.length + 6 ≤ 131072 := by
  intro r hrep h304 h hls
  exact respFields_fits status r tag (ops_keyed ops {} empty_keyed) hrep h304 fs h t hwf cs hls

/-- Response direction, interim responses (h2_send_1xx): the text built from the
    response headers and cut again by h2_send_headers_block() yields ":status"
    and exactly the non-blank response headers of that moment under lower-cased
    names — provided each can be written as a line at all (`LineOk`: no ':' /
    LF in the name, value without LF and not starting with white space). -/
theorem c07_interim_fields (ops : List RespOp) (status : Nat) (h1 : 100 ≤ status) (h2 : status ≤ 999) :
    let r := ops.foldl Resp.apply {}
    (∀ f ∈ interimWant r, LineOk f) → (interimText status r).length ≤ 65535 →
    interimFields status r = (ofString ":status", natToDec status) :: interimWant r := by
  intro r hok hlen
  exact interimFields_spec status r (ops_keyed ops {} empty_keyed) h1 h2 hok hlen

example : interimFields 103 ([RespOp.set (ofString "Link") (ofString "</s.css>; rel=preload")].foldl Resp.apply {}) =
    [(ofString ":status", ofString "103"), (ofString "link", ofString "</s.css>; rel=preload")] := by decide

/-- Response direction, trailers (h2_send_end_stream_trailers) and raw header
    blocks (h2_send_headers_block): a block of written lines "name: value" is
    cut back into exactly those fields, in order, values untouched; trailer
    names come out lower-cased. -/
theorem c07_block_and_trailer_fields (fs : List Header) (hne : fs ≠ []) (hok : ∀ f ∈ fs, LineOk f)
    (hlen : (renderBlock fs).length ≤ 65535) :
    blockFields (renderBlock fs) = fs ∧
      trailerFields (renderBlock fs) = some (fs.map fun f => (lower f.1, f.2)) :=
  ⟨blockFields_render fs hne hok hlen, trailerFields_render fs hne hok hlen⟩

example : trailerFields (renderBlock [(ofString "X-Checksum", ofString "abc")]) =
    some [(ofString "x-checksum", ofString "abc")] := by decide

/-- Response direction, repeated fields: a field a module sends several times
    (http_header_response_insert(), e.g. Set-Cookie) is stored as one text
    "v1\r\nname: v2..." and h2_send_headers() cuts it at fixed offsets — for
    every name and every list of non-empty values without LF the peer gets one
    field per value, in order, under the lower-cased name. -/
theorem c07_repeated_fields_split (k : Bytes) (vs : List Bytes) (hk : k ≠ []) (hne : vs ≠ [])
    (hv : ∀ v ∈ vs, v ≠ [] ∧ lf ∉ v)
    (hsize : 14 + k.length + (joinRepeated (lower k) vs).length + 4 ≤ 65535)
    (homit : ¬ ((k.headD 0 &&& 0xdf) = 88 ∧ omitHeader k = true)) :
    let r := vs.foldl (fun r v => Resp.insert r k v) ({} : Resp)
    ∃ a, bodyFields r.repeated r.arr 14 = some (vs.map (fun v => (lower k, v)), a) :=
  repeated_fields k vs hk hne hv hsize homit

example : respFields 200
    ((({} : Resp).insert (ofString "Set-Cookie") (ofString "a=1")).insert (ofString "set-cookie") (ofString "b=2"))
    none =
    some [(ofString ":status", ofString "200"), (ofString "set-cookie", ofString "a=1"),
          (ofString "set-cookie", ofString "b=2"), (ofString "date", autoDate)] := by decide

/-- Invalid blocks are errors (4): a literal representation whose value string is
    missing altogether (the block ends after the name, given by index or as a
    literal) is BAD_DATA — for every table state, name and indexing mode. -/
theorem c07_missing_value_is_error (cap : Nat) (hcap : cap ≤ 65535) (d : Dec) (hwf : d.tbl.WF) :
    (∀ (flag : Nat) (n : Bytes) (hn : Bool), flag = 0 ∨ flag = 16 ∨ flag = 64 → n ≠ [] →
      n.length < cap → (decodeBlock cap d (flag.toUInt8 :: encStr hn n)).err = some .badData) ∧
    (∀ (pbits flag idx : Nat) (n v0 : Bytes),
      (pbits = 6 ∧ flag = 64) ∨ (pbits = 4 ∧ flag = 16) ∨ (pbits = 4 ∧ flag = 0) →
      d.tbl.lookup idx = some (n, v0) → n.length ≤ cap →
      (decodeBlock cap d (encInt pbits flag idx)).err = some .badData) :=
  missing_value_badData cap (by omega) d hwf

example : (decodeBlock 65535 Dec.init [0x00, 0x01, 0x61]).err = some .badData := by decide
example : (decodeBlock 65535 Dec.init [0x45]).err = some .badData := by decide

/-- Response direction, table size: when the peer changes
    SETTINGS_HEADER_TABLE_SIZE (any number of times between two header blocks)
    lighttpd resizes lshpack's encoder table at once and announces, at the start
    of the next header block, the smallest size since the prior block and then
    the final size (RFC 7541 4.2). A conformant decoder that applies these
    updates ends with exactly the encoder's table: same entries, same limit;
    and it accepts them: no announced size exceeds the value the peer set last. -/
theorem c07_settings_resize_sync (t0 : Table) (hwf : t0.WF) (vs : List Nat) :
    let g := vs.foldl EncGlue.settings ({ size := t0.curMax } : EncGlue)
    let te := encAfter t0 vs
    let td := g.updates.foldl Table.updateMax t0
    td.dyn = te.dyn ∧ td.curMax = te.curMax ∧
      (∀ v, vs.getLast? = some v → ∀ u ∈ g.updates, u ≤ v) :=
  ⟨(settings_resize_sync t0 hwf vs).1, (settings_resize_sync t0 hwf vs).2,
   fun v hv => updates_le_last t0 hwf vs v hv⟩

example : ([0, 4096].foldl EncGlue.settings ({} : EncGlue)).updates = [0, 4096] := by decide
example : ([100].foldl EncGlue.settings ({} : EncGlue)).updates = [100] := by decide
example : ([5000, 65536].foldl EncGlue.settings ({} : EncGlue)).updates = [] := by decide

/-! Field names are octet-transparent: a name with trailing white space arrives
    as sent (and is then refused by http_request_parse_header, 400) — instance
    of `c07_roundtrip`; regression for the trailing-space strip ls-hpack had. -/
example : (decodeBlock 65535 Dec.init [0x40, 0x02, 0x61, 0x20, 0x01, 0x62]).fields.map Field.header =
    [([0x61, 0x20], [0x62])] := by decide

/-! Deviations of lshpack_dec_decode() from RFC 7541 that the model keeps as they
    are (leniency / strictness on unusual input, replayed against the C on
    every run; see the report). -/

/-- ... they decode to the same number: a zero continuation group adds nothing -/
theorem c07_overlong_group_is_neutral (rest : Bytes) (sh acc : Nat) :
    decIntTail (0x80 :: rest) sh acc = decIntTail rest (sh + 7) acc := by
  simp [decIntTail]

/-- over-long (non-minimal) integer encodings are accepted: 7f 80 80 80 00 = 127 -/
theorem c07_deviation_overlong_int : decInt 7 [0x7f, 0x80, 0x80, 0x80, 0x00] = some (127, []) := by
  decide

/-- a header block that consists of a dynamic table size update only (valid
    HPACK for an empty header list) is answered BAD_DATA -/
theorem c07_deviation_size_update_only_block :
    (decodeBlock 65535 Dec.init [0x3f, 0xe1, 0x1f]).err = some .badData := by decide

end LtVerif.C07
