/-
  C07 — HPACK: header lists survive both directions for the whole connection.
  Property theorems only (helper lemmas live in LtVerif/Proofs/Hpack*.lean).
-/
import LtVerif.Model.Hpack
namespace LtVerif.C07
open LtVerif B Hpack

/-- placeholder while the proofs are being built -/
theorem c07_evict_bound (cap : Nat) (t : List Header) : tableSize (evict cap t) ≤ cap := by
  induction t generalizing cap with
  | nil => simp [evict, tableSize]
  | cons h t ih =>
    simp only [evict]
    split
    · have := ih (cap - entrySize h)
      simp only [tableSize, List.map_cons, List.sum_cons] at *
      omega
    · simp [tableSize]

end LtVerif.C07
