/-
  C08 — the response depends only on its request; same answer over HTTP/1.x and HTTP/2.
  Property theorems only; helper lemmas live in LtVerif/Proofs/Server.lean.

  Vocabulary (Model/Reset.lean, Model/Server.lean):
    ReqSt = ReqLive + ReqKept + ReqStale   the modelled fields of request_st, grouped by what
                                           request_reset() / request_reset_ex() do with them;
                                           ReqCore = ReqLive + ReqKept
    h1Msg site e c head                    one request head on an HTTP/1.x connection `c`
                                           (h1_recv_headers .. connection_handle_response_end_state)
    h2Stream site e h2r swin obj fs es     one HTTP/2 stream on the pooled request object `obj`
    Out.core                               status, headers without Connection (names lower-cased), body
    expectedAnswer site e head             the answer as a function of (site, configuration, head) only
-/
import LtVerif.Proofs.Server
namespace LtVerif.C08
open LtVerif LtVerif.B LtVerif.Req

/-! ## reset -/

/-- **request_reset() + request_reset_ex() restore every core field.**  Whatever state a request
    object is in (any values in all modelled fields: after a successful, failed, bodied, ranged,
    authenticated or aborted request), after the two reset functions every `ReqLive` and
    `ReqKept` field equals its value in a freshly initialised object.  (The remaining fields,
    `ReqStale`, are covered by `c08_stale_fields_unread`.) -/
theorem c08_reset_restores (e : SrvEnv) (s : ReqSt) :
    (requestResetEx (requestReset hdrIds e s)).toReqCore = (ReqSt.init e).toReqCore :=
  reset_core e s

/-- request_reset() alone (what happens between two keep-alive requests; request_reset_ex()
    follows when the next head has arrived) restores every `ReqLive` field. -/
theorem c08_reset_restores_live (e : SrvEnv) (s : ReqSt) :
    (requestReset hdrIds e s).toReqLive = (ReqSt.init e).toReqLive :=
  requestReset_live e s

/-- request_release() (HTTP/2 stream objects going back to the pool) restores every core field. -/
theorem c08_release_restores (e : SrvEnv) (s : ReqSt) :
    (requestRelease hdrIds e s).toReqCore = (ReqSt.init e).toReqCore :=
  requestRelease_core e s

/-- A stream object taken from the pool differs from a brand-new one only in `ReqStale` fields,
    and h2_init_stream() makes the core fields of both equal (they inherit the same
    configuration state from the connection request `h2r`). -/
theorem c08_h2_init_stream_recycled (e : SrvEnv) (h2r prev : ReqSt) (swin : Nat) :
    (h2InitStream h2r swin (requestRelease hdrIds e prev)).toReqCore =
      (h2InitStream h2r swin (ReqSt.init e)).toReqCore :=
  h2InitStream_core h2r swin _ _ (requestRelease_core e prev)

/-! ## HTTP/1.x: keep-alive, pipelining, recycled connection objects -/

/-- **The response is a function of the request (HTTP/1.x).**  After any history `P` of request
    heads on the connection — accepted or rejected, any methods, with or without announced
    bodies — if the connection is still open, the comparable part of the answer to the head `R`
    is `expectedAnswer site e R`, which mentions only the site, the configuration and `R`. -/
theorem c08_history_free (site : Site) (e : SrvEnv) (P : List Bytes) (R : Bytes)
    (hopen : (connAfter site e (Conn.fresh e) P).isOpen = true) :
    ((h1Msg site e (connAfter site e (Conn.fresh e) P) R).2).map Out.core = expectedAnswer site e R :=
  (h1Msg_answer site e _ (connInv_after site e P _ (ConnInv_fresh e)) hopen R).1

/-- Metamorphic form: `R` after `P` on the same connection is answered like `R` alone on a fresh
    connection. -/
theorem c08_history_free_vs_alone (site : Site) (e : SrvEnv) (P : List Bytes) (R : Bytes)
    (hopen : (connAfter site e (Conn.fresh e) P).isOpen = true) :
    ((h1Msg site e (connAfter site e (Conn.fresh e) P) R).2).map Out.core =
      ((h1Msg site e (Conn.fresh e) R).2).map Out.core := by
  rw [c08_history_free site e P R hopen]
  exact (h1Msg_answer site e _ (ConnInv_fresh e) rfl R).1.symm

/-- Every element of a pipelined / keep-alive run is either unanswered (the connection was closed
    before, or the head is incomplete) or the function of its own head. -/
theorem c08_every_answer_from_own_request (site : Site) (e : SrvEnv) (msgs : List Bytes) :
    ∀ c, ConnInv e c →
      Forall2 (fun head o => o = none ∨ o.map Out.core = expectedAnswer site e head)
        msgs (h1Run site e c msgs) := by
  induction msgs with
  | nil => intro c _; exact Forall2.nil
  | cons head rest ih =>
    intro c h
    unfold h1Run
    simp only []
    by_cases ho : c.isOpen = true
    · have ha := h1Msg_answer site e c h ho head
      exact Forall2.cons (Or.inr ha.1) (ih _ ha.2)
    · have hm : h1Msg site e c head = (c, none) := by simp [h1Msg, ho]
      rw [hm]
      exact Forall2.cons (Or.inl rfl) (ih _ h)

/-- **Recycled connection objects.**  A connection object that went through any history, was
    closed and is accepted again answers like a brand-new one. -/
theorem c08_recycled_connection (site : Site) (e : SrvEnv) (P : List Bytes) (R : Bytes)
    (hclosed : (connAfter site e (Conn.fresh e) P).requestCount = 0) :
    ((h1Msg site e (connAfter site e (Conn.fresh e) P).reaccept R).2).map Out.core = expectedAnswer site e R := by
  have hinv := connInv_after site e P _ (ConnInv_fresh e)
  have hre : ConnInv e (connAfter site e (Conn.fresh e) P).reaccept := ⟨hinv.1, fun _ => hinv.2 hclosed⟩
  exact (h1Msg_answer site e _ hre rfl R).1

/-- **The fields no reset function restores are never read before they are written**: replacing
    them by arbitrary values (`d`) in the request object of a connection between two requests does
    not change the answer to the next request. -/
theorem c08_stale_fields_unread (site : Site) (e : SrvEnv) (c : Conn) (hinv : ConnInv e c)
    (hopen : c.isOpen = true) (d : ReqStale) (R : Bytes) :
    ((h1Msg site e { c with r := { c.r with toReqStale := d } } R).2).map Out.core =
      ((h1Msg site e c R).2).map Out.core := by
  have h1 := (h1Msg_answer site e c hinv hopen R).1
  have hinv' : ConnInv e { c with r := { c.r with toReqStale := d } } := hinv
  have h2 := (h1Msg_answer site e _ hinv' hopen R).1
  rw [h1, h2]

/-! ## HTTP/2: earlier streams, concurrently open streams, recycled stream objects -/

/-- **The response is a function of the request (HTTP/2 stream).**  Whatever pooled object a stream
    gets — brand new, or released by any earlier stream of this or another connection — the
    comparable part of its answer is `expectedAnswerH2`, which mentions only the site, the
    configuration, the connection-level state `h2r` and the stream's own header fields; and the
    object goes back to the pool with all core fields restored.  Streams that are open at the same
    time hold different objects, so this also covers every interleaving of concurrent streams. -/
theorem c08_h2_stream_history_free (site : Site) (e : SrvEnv) (h2r prev : ReqSt) (swin : Nat)
    (fs : List (Bytes × Bytes)) (es : Bool) :
    ((h2Stream site e h2r swin (requestRelease hdrIds e prev) fs es).2).map Out.core
      = expectedAnswerH2 site e h2r swin fs es ∧
    ((h2Stream site e h2r swin (ReqSt.init e) fs es).2).map Out.core
      = expectedAnswerH2 site e h2r swin fs es :=
  ⟨(h2Stream_answer site e h2r swin _ (requestRelease_core e prev) fs es).1,
   (h2Stream_answer site e h2r swin _ rfl fs es).1⟩

/-- a pool in which every object has its core fields restored -/
def PoolOk (e : SrvEnv) (pool : List ReqSt) : Prop := ∀ p ∈ pool, p.toReqCore = (ReqSt.init e).toReqCore

/-- Every stream of a connection (any number of earlier streams, any pool contents left behind by
    other connections) is answered by the function of its own header fields. -/
theorem c08_h2_every_stream_from_own_request (site : Site) (e : SrvEnv) (h2r : ReqSt) (swin : Nat)
    (streams : List (List (Bytes × Bytes) × Bool)) :
    ∀ pool, PoolOk e pool →
      Forall2 (fun st o => o.map Out.core = expectedAnswerH2 site e h2r swin st.1 st.2)
        streams (h2Run site e h2r swin pool streams) := by
  induction streams with
  | nil => intro pool _; exact Forall2.nil
  | cons st rest ih =>
    intro pool hpool
    obtain ⟨fs, es⟩ := st
    unfold h2Run
    cases pool with
    | nil =>
      simp only []
      have ha := h2Stream_answer site e h2r swin (ReqSt.init e) rfl fs es
      refine Forall2.cons ha.1 (ih _ ?_)
      intro p hp
      simp only [List.mem_singleton] at hp
      rw [hp]; exact ha.2
    | cons p ps =>
      simp only []
      have hp0 : p.toReqCore = (ReqSt.init e).toReqCore := hpool p (by simp)
      have ha := h2Stream_answer site e h2r swin p hp0 fs es
      refine Forall2.cons ha.1 (ih _ ?_)
      intro q hq
      simp only [List.mem_cons] at hq
      rcases hq with hq | hq
      · rw [hq]; exact ha.2
      · exact hpool q (by simp [hq])

/-! ## the same request over HTTP/1.1 and HTTP/2 -/

/- Full statement aimed at (DESIGN §6): for every semantic request q, `parseH1 (renderH1 v q)` and
   `parseH2 (fieldsH2 q)` yield the same request up to http_version, hence the same `respond` and the
   same CGI environment except SERVER_PROTOCOL.
   Proved below (`_partial`): the two *field loops and http_request_parse()* agree —
     HTTP/1.1:  request line `m t HTTP/1.1`, `Host: a`, fields fs   (`parseSemH1`, built from
                `applyFields`/`parsePostV`; C01's `parseHeaders_ok_iff` ties `applyFields` to the header bytes)
     HTTP/2:    `:method m  :scheme http  :path t  :authority a`, fields fs, END_STREAM (`parseSemH2`)
   give the same verdict, and on acceptance the same method, target (normalised target, path, query),
   host, header list and body length; only `version` (2) and the HTTP/1 keep-alive flag differ.
   What is missing for the full statement:
     * the fields are "plain" (`PlainField`): lower-case token names outside Host / Connection /
       Content-Length / Transfer-Encoding / TE (whose rules differ per version as the RFCs define), values
       non-empty, trimmed and free of characters a parser rejects; no Upgrade / HTTP2-Settings in the accepted
       record; method neither CONNECT nor POST, no request body;
     * the statement starts from tokenised fields, not from rendered bytes (no `renderH1`);
     * the response half (`respondC` reads `version` only when framing an unfinished body and when lower-casing a
       repeated response header name) is checked by the concrete instance at the end of this file and by the
       end-to-end cross-version stream, not proved in general. -/
theorem c08_h1_h2_same_request_partial (o : Opts) (mf : Nat) (m t a : Bytes) (fs : List (Bytes × Bytes))
    (hm : methodTable.contains m = true) (hmne : m ≠ []) (hnc : m ≠ ofString "CONNECT")
    (hnp : m ≠ ofString "POST") (htsl : t.head? = some slash)
    (htok : (if o.headerStrict then (if o.ctrlsReject then fragmentInvalidStrict t else t.any uriCharInvalidStrict)
             else t.any (fun b => b = 0 || b = cr || b = lf)) = false)
    (hane : a ≠ []) (halen : a.length < 1024) (haval : a.any lineCharInvalidStrict = false)
    (hpl : ∀ kv ∈ fs, PlainField o kv) (hsz : fieldsSize (pseudoFields m t a) + fieldsSize fs ≤ mf)
    (hup : ∀ r r', applyFields o (pre1 m t) ((ofString "host", a) :: fs) = .ok r →
      hostPolicy o 80 r = some (some r') →
      (hasTag r' (ofString "upgrade") || hasTag r' (ofString "http2-settings")) = false) :
    parseSemH2 o mf m t a fs = liftHeadRes (parseSemH1 o m t a fs) :=
  parseSem_same o mf m t a fs hm hmne hnc hnp htsl htok hane halen haval hpl hsz hup

/-- The HTTP/2 field loop alone: same record as the HTTP/1.x field loop (any outcome of the later
    host / target checks), or the same rejection status. -/
theorem c08_h2_field_loop_same_record (o : Opts) (mf : Nat) (m t a : Bytes) (fs : List (Bytes × Bytes))
    (hm : methodTable.contains m = true) (hmne : m ≠ []) (hnc : m ≠ ofString "CONNECT")
    (htsl : t.head? = some slash)
    (htok : (if o.headerStrict then (if o.ctrlsReject then fragmentInvalidStrict t else t.any uriCharInvalidStrict)
             else t.any (fun b => b = 0 || b = cr || b = lf)) = false)
    (hane : a ≠ []) (halen : a.length < 1024) (haval : a.any lineCharInvalidStrict = false)
    (hpl : ∀ kv ∈ fs, PlainField o kv) (hsz : fieldsSize (pseudoFields m t a) + fieldsSize fs ≤ mf) :
    match applyFields o (pre1 m t) ((ofString "host", a) :: fs) with
    | .error e => h2Fields o mf pre2 {} (pseudoFields m t a ++ fs) = .error e
    | .ok r1 => ∃ c, h2Fields o mf pre2 {} (pseudoFields m t a ++ fs) = .ok (asH2 r1, c) ∧ c.ext = false :=
  h2Fields_spec o mf m t a fs hm hmne hnc htsl htok hane halen haval hpl hsz

/-! ## non-vacuity: a concrete site, a concrete history -/

def demoSite : Site :=
  { nodes := [(ofString "/srv", .dir), (ofString "/srv/", .dir),
              (ofString "/srv/a.txt", .file (ofString "text/plain") (ofString "hello\n") (ofString "\"e1\"")),
              (ofString "/srv/index.html", .file (ofString "text/html") (ofString "<p>i</p>") (ofString "\"e2\""))],
    indexNames := [ofString "index.html"], denySuffix := [ofString "~"],
    scopes := [{ cond := .urlPrefix (ofString "/a"), extra := some [(ofString "X-A", ofString "1")] }] }

def demoEnv : SrvEnv :=
  { defaults := { parseopts := 9567, docRoot := ofString "/srv", maxKeepAliveRequests := 100 } }

def reqA : Bytes := ofString "GET /a.txt HTTP/1.1\r\nHost: h\r\n\r\n"
def reqMissing : Bytes := ofString "GET /nope HTTP/1.1\r\nHost: h\r\nCookie: c=1\r\n\r\n"
def reqPost : Bytes := ofString "POST /a.txt HTTP/1.1\r\nHost: h\r\nContent-Length: 3\r\n\r\n"

/-- the connection survives a 404 and the probe is answered 200 with the file, the configured
    header of its own scope and nothing of the earlier request -/
example : (connAfter demoSite demoEnv (Conn.fresh demoEnv) [reqMissing]).isOpen = true := by decide +kernel
example : ((h1Msg demoSite demoEnv (connAfter demoSite demoEnv (Conn.fresh demoEnv) [reqMissing]) reqA).2).map Out.core
    = some (200, [(ofString "content-type", ofString "text/plain"), (ofString "etag", ofString "\"e1\""),
                  (ofString "content-length", ofString "6"), (ofString "x-a", ofString "1")], ofString "hello\n") := by
  decide +kernel
/-- a request that announces a body closes the connection; the recycled object answers as new -/
example : (connAfter demoSite demoEnv (Conn.fresh demoEnv) [reqA, reqPost]).requestCount = 0 := by decide +kernel
example : (expectedAnswer demoSite demoEnv reqA).map (·.1) = some 200 := by decide +kernel
/-- a dirty object: reset really has something to restore -/
example : (respond demoSite { ReqSt.init demoEnv with method := 0, version := 1, uriPath := some (ofString "/nope") }).toReqCore
    ≠ (ReqSt.init demoEnv).toReqCore := by decide +kernel
/-- HTTP/2: the same resource on a recycled stream object -/
example : expectedAnswerH2 demoSite demoEnv (ReqSt.init demoEnv) 65535
      [(ofString ":method", ofString "GET"), (ofString ":scheme", ofString "http"),
       (ofString ":path", ofString "/a.txt"), (ofString ":authority", ofString "h")] true
    = expectedAnswer demoSite demoEnv reqA := by decide +kernel

/-- a plain field, and a semantic request both parsers accept alike -/
example : PlainField ⟨9567⟩ (ofString "x-probe", ofString "p1") :=
  ⟨by decide, by decide, Or.inl (by decide), by decide, by decide, by decide, by decide, by decide⟩
example : (match parseSemH1 ⟨9567⟩ (ofString "GET") (ofString "/a.txt?x=1") (ofString "h")
                   [(ofString "x-probe", ofString "p1"), (ofString "if-none-match", ofString "\"e\"")],
                 parseSemH2 ⟨9567⟩ 8192 (ofString "GET") (ofString "/a.txt?x=1") (ofString "h")
                   [(ofString "x-probe", ofString "p1"), (ofString "if-none-match", ofString "\"e\"")] with
           | .ok r1 t1, .ok r2 t2 =>
             decide (r1.version = 1 ∧ r2.version = 2 ∧ r2.method = r1.method ∧ r2.headers = r1.headers ∧
                     r2.host = r1.host ∧ r1.headers.length = 3 ∧ t1 = t2 ∧ t1.path = ofString "/a.txt" ∧
                     t1.query = ofString "x=1")
           | _, _ => false) = true := by decide +kernel

end LtVerif.C08
